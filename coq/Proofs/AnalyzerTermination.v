(* Proofs/AnalyzerTermination.v — C05: the static analysis terminates.

   The Rust analyzer's loops (operator tiers, argument lists, PRINT items,
   READ targets, DEF parameters) and its recursion (parentheses, nested IFs) are
   modelled with fuel; "the analysis terminates" is, in the model, "the fuel
   suffices": with fuel above a bound that depends only on the longest stored
   line (and the fixed nesting cap), the result is never OutOfFuel.

     analysis_terminates : line_bound text < fuel -> an_result (analyze fuel text) <> OutOfFuel

   Three facts about every analyzer function, for states whose cursor is on a
   stored line (Proofs/AnalyzerSafety.v's invariant):
     - it never moves the cursor backwards or off the line          ([amle])
     - an expression that succeeds consumes at least one token      ([amlt])
     - every loop iteration that continues consumes a token, so a loop started
       with more fuel than tokens left never starves; recursion consumes one
       unit of fuel per nesting level, of which there are at most max_nesting. *)
From Coq Require Import List NArith ZArith Bool Lia.
From Abasic Require Import Model.Bytes Model.Num Model.Token Model.Data Model.Lexer Gen.Tables
     Model.State Model.Eval Model.Interp Model.Analyzer Proofs.AnalyzerSafety.
Import ListNotations.
Local Open Scope nat_scope.

Section Ctx.
  Variable T : list (N * list token).

  Definition line_toks (s : interp) : list token :=
    match loc_line (loc s) with
    | Some n => match toks_get n T with Some ts => ts | None => [] end
    | None => []
    end.

  (* tokens left on the line *)
  Definition room (s : interp) : nat := length (line_toks s) - loc_idx (loc s).

  (* [s'] is [s] with the cursor moved forward on the same line *)
  Definition adv (s s' : interp) : Prop :=
    inC T s' /\ loc_line (loc s') = loc_line (loc s) /\ loc_idx (loc s) <= loc_idx (loc s').

  Lemma adv_refl s : inC T s -> adv s s.
  Proof. intros H. split; [exact H|]. split; [reflexivity | apply le_n]. Qed.

  Lemma adv_trans a b c : adv a b -> adv b c -> adv a c.
  Proof. intros (A1 & A2 & A3) (B1 & B2 & B3). split; [exact B1|]. split; [congruence | lia]. Qed.

  Lemma adv_room s s' : adv s s' -> room s' <= room s.
  Proof. intros (_ & Hl & Hi). unfold room, line_toks. rewrite Hl. lia. Qed.

  Lemma inC_room s : inC T s -> loc_idx (loc s) + room s = length (line_toks s).
  Proof.
    intros [_ (n & ts & Hl & Hg & Hb)]. unfold room, line_toks. rewrite Hl, Hg. lia.
  Qed.

  (* ---------------------------------------------------------------- *)
  (* the cursor operations *)

  Definition mle {A} (m : M A) : Prop := forall s, inC T s -> adv s (snd (m s)).
  Definition mnof {A} (m : M A) : Prop := forall s, fst (m s) <> OutOfFuel.

  Lemma peek_line s : inC T s ->
    peek_next_token s = (Ok (nth_error (line_toks s) (loc_idx (loc s))), set_reads (S (reads s)) s).
  Proof.
    intros [HT (n & ts & Hl & Hg & Hb)]. rewrite (peek_C T s n ts HT Hl Hg). unfold line_toks. rewrite Hl, Hg. reflexivity.
  Qed.

  Lemma inC_step s : inC T s -> loc_idx (loc s) < length (line_toks s) ->
    inC T (set_loc (mkloc (loc_line (loc s)) (S (loc_idx (loc s)))) (set_reads (S (reads s)) s)).
  Proof.
    intros [HT (n & ts & Hl & Hg & Hb)] Hlt. split; [exact HT|]. exists n, ts. cbn.
    unfold line_toks in Hlt. rewrite Hl, Hg in Hlt. repeat split; try assumption.
  Qed.

  (* next_token: what it returns and where it leaves the cursor *)
  Lemma next_token_spec s : inC T s ->
    match nth_error (line_toks s) (loc_idx (loc s)) with
    | Some t => next_token s = (Ok (Some t), set_loc (mkloc (loc_line (loc s)) (S (loc_idx (loc s)))) (set_reads (S (reads s)) s))
    | None => next_token s = (Ok None, set_reads (S (reads s)) s)
    end.
  Proof.
    intros H. unfold next_token, bind. rewrite (peek_line s H).
    destruct (nth_error (line_toks s) (loc_idx (loc s))); reflexivity.
  Qed.

  Lemma accept_spec t s : inC T s ->
    match nth_error (line_toks s) (loc_idx (loc s)) with
    | Some t' => if token_eqb t' t
                 then accept_next_token t s = (Ok true, set_loc (mkloc (loc_line (loc s)) (S (loc_idx (loc s)))) (set_reads (S (reads s)) s))
                 else accept_next_token t s = (Ok false, set_reads (S (reads s)) s)
    | None => accept_next_token t s = (Ok false, set_reads (S (reads s)) s)
    end.
  Proof.
    intros H. unfold accept_next_token, bind. rewrite (peek_line s H).
    destruct (nth_error (line_toks s) (loc_idx (loc s))) as [t'|]; [|reflexivity].
    destruct (token_eqb t' t); reflexivity.
  Qed.

  Lemma try_spec {B} (g : token -> option B) s : inC T s ->
    match nth_error (line_toks s) (loc_idx (loc s)) with
    | Some t' => match g t' with
                 | Some b => try_next_token g s = (Ok (Some b), set_loc (mkloc (loc_line (loc s)) (S (loc_idx (loc s)))) (set_reads (S (reads s)) s))
                 | None => try_next_token g s = (Ok None, set_reads (S (reads s)) s)
                 end
    | None => try_next_token g s = (Ok None, set_reads (S (reads s)) s)
    end.
  Proof.
    intros H. unfold try_next_token, bind. rewrite (peek_line s H).
    destruct (nth_error (line_toks s) (loc_idx (loc s))) as [t'|]; [|reflexivity].
    destruct (g t'); reflexivity.
  Qed.

  Lemma nth_some_lt {A} (l : list A) i x : nth_error l i = Some x -> i < length l.
  Proof. intros H. apply nth_error_Some. congruence. Qed.

  Lemma adv_bump s : inC T s -> adv s (set_reads (S (reads s)) s).
  Proof. intros H. apply (adv_refl (set_reads (S (reads s)) s)). exact H. Qed.

  Lemma adv_step s : inC T s -> loc_idx (loc s) < length (line_toks s) ->
    adv s (set_loc (mkloc (loc_line (loc s)) (S (loc_idx (loc s)))) (set_reads (S (reads s)) s)).
  Proof. intros H Hlt. split; [apply inC_step; assumption|]. split; [reflexivity | cbn; lia]. Qed.

  Lemma mle_peek : mle peek_next_token.
  Proof. intros s H. rewrite (peek_line s H). apply adv_bump, H. Qed.

  Lemma mle_next_token : mle next_token.
  Proof.
    intros s H. pose proof (next_token_spec s H) as Hs.
    destruct (nth_error (line_toks s) (loc_idx (loc s))) eqn:E; rewrite Hs; cbn [snd];
      [apply adv_step; [exact H | eapply nth_some_lt; exact E] | apply adv_bump, H].
  Qed.

  Lemma mle_next_unwrapped : mle next_unwrapped_token.
  Proof.
    intros s H. pose proof (mle_next_token s H) as Ha. unfold next_unwrapped_token, bind.
    destruct (next_token s) as [[[t|]|e l|p| |] s1]; cbn [fst snd] in *; exact Ha.
  Qed.

  Lemma mle_expect t : mle (expect_next_token t).
  Proof.
    intros s H. pose proof (mle_next_unwrapped s H) as Ha. unfold expect_next_token, bind.
    destruct (next_unwrapped_token s) as [[t'|e l|p| |] s1]; cbn [fst snd] in *; try exact Ha.
    destruct (token_eqb t' t); exact Ha.
  Qed.

  Lemma mle_accept t : mle (accept_next_token t).
  Proof.
    intros s H. pose proof (accept_spec t s H) as Hs.
    destruct (nth_error (line_toks s) (loc_idx (loc s))) as [t'|] eqn:E; [destruct (token_eqb t' t)|]; rewrite Hs; cbn [snd];
      [apply adv_step; [exact H | eapply nth_some_lt; exact E] | apply adv_bump, H | apply adv_bump, H].
  Qed.

  Lemma mle_peek_is t : mle (peek_is t).
  Proof.
    intros s H. unfold peek_is, bind. rewrite (peek_line s H). apply adv_bump, H.
  Qed.

  Lemma mle_try {B} (g : token -> option B) : mle (try_next_token g).
  Proof.
    intros s H. pose proof (try_spec g s H) as Hs.
    destruct (nth_error (line_toks s) (loc_idx (loc s))) as [t'|] eqn:E; [destruct (g t')|]; rewrite Hs; cbn [snd];
      [apply adv_step; [exact H | eapply nth_some_lt; exact E] | apply adv_bump, H | apply adv_bump, H].
  Qed.

  Lemma mle_get {A} (f : interp -> A) : mle (get f).
  Proof. intros s H. apply adv_refl, H. Qed.

  Lemma mle_define_function name args : mle (define_function name args).
  Proof.
    intros s H. unfold define_function, bind, get. cbn [fst snd].
    destruct (loc_line (loc s)); cbn [fst snd modify fail]; (split; [exact H | split; [reflexivity | apply le_n]]).
  Qed.

  Lemma mle_reset_data : mle reset_data_cursor.
  Proof. intros s H. split; [exact H | split; [reflexivity | apply le_n]]. Qed.

  (* none of them is a loop *)
  Lemma mnof_peek : mnof peek_next_token.
  Proof. intros s. unfold peek_next_token, cur_tokens, tokens_for_line, bind, modify, get, ret. cbn.
    destruct (loc_line (loc s)) as [n|]; [destruct (toks_get n (st_toks s))|]; discriminate. Qed.
  Lemma mnof_next_token : mnof next_token.
  Proof. intros s. pose proof (mnof_peek s) as H. unfold next_token, bind.
    destruct (peek_next_token s) as [[[t|]|e l|p| |] s1]; cbn [fst] in *; try discriminate; congruence. Qed.
  Lemma mnof_next_unwrapped : mnof next_unwrapped_token.
  Proof. intros s. pose proof (mnof_next_token s) as H. unfold next_unwrapped_token, bind.
    destruct (next_token s) as [[[t|]|e l|p| |] s1]; cbn [fst] in *; try discriminate; congruence. Qed.
  Lemma mnof_expect t : mnof (expect_next_token t).
  Proof. intros s. pose proof (mnof_next_unwrapped s) as H. unfold expect_next_token, bind.
    destruct (next_unwrapped_token s) as [[t'|e l|p| |] s1]; cbn [fst] in *; try discriminate; try congruence.
    destruct (token_eqb t' t); discriminate. Qed.
  Lemma mnof_accept t : mnof (accept_next_token t).
  Proof. intros s. pose proof (mnof_peek s) as H. unfold accept_next_token, bind.
    destruct (peek_next_token s) as [[[t'|]|e l|p| |] s1]; cbn [fst] in *; try discriminate; try congruence.
    destruct (token_eqb t' t); discriminate. Qed.
  Lemma mnof_peek_is t : mnof (peek_is t).
  Proof. intros s. pose proof (mnof_peek s) as H. unfold peek_is, bind.
    destruct (peek_next_token s) as [[t'|e l|p| |] s1]; cbn [fst] in *; try discriminate; congruence. Qed.
  Lemma mnof_try {B} (g : token -> option B) : mnof (try_next_token g).
  Proof. intros s. pose proof (mnof_peek s) as H. unfold try_next_token, bind.
    destruct (peek_next_token s) as [[[t'|]|e l|p| |] s1]; cbn [fst] in *; try discriminate; try congruence.
    destruct (g t'); discriminate. Qed.
  Lemma mnof_get {A} (f : interp -> A) : mnof (get f).
  Proof. intros s. discriminate. Qed.
  Lemma mnof_define_function name args : mnof (define_function name args).
  Proof. intros s. unfold define_function, bind, get. cbn. destruct (loc_line (loc s)); discriminate. Qed.
  Lemma mnof_reset_data : mnof reset_data_cursor.
  Proof. intros s. discriminate. Qed.

  (* ---------------------------------------------------------------- *)
  (* the analyzer monad: the cursor only moves forward *)

  Definition amle {A} (m : MA A) : Prop := forall st, inC T (fst st) -> adv (fst st) (fst (snd (m st))).

  Lemma amle_ret {A} (a : A) : amle (aret a).
  Proof. intros st H. apply adv_refl, H. Qed.
  Lemma amle_fail {A} e : amle (@afail A e).
  Proof. intros st H. apply adv_refl, H. Qed.
  Lemma amle_fuel {A} : amle (fun s : astate => (@OutOfFuel A, s)).
  Proof. intros st H. apply adv_refl, H. Qed.
  Lemma amle_log sym l w : amle (log_access sym l w).
  Proof. intros st H. apply adv_refl, H. Qed.
  Lemma amle_lift {A} (m : M A) : mle m -> amle (lift m).
  Proof. intros Hm st H. unfold lift. specialize (Hm (fst st) H). destruct (m (fst st)) as [r p]. exact Hm. Qed.
  Lemma amle_bind {A B} (m : MA A) (f : A -> MA B) : amle m -> (forall a, amle (f a)) -> amle (abind m f).
  Proof.
    intros Hm Hf st H. unfold abind. specialize (Hm st H).
    destruct (m st) as [[a|e l|p| |] st1]; cbn [fst snd] in *; try exact Hm.
    eapply adv_trans; [exact Hm|]. apply Hf. apply Hm.
  Qed.
  Lemma amle_repeat {S R} n (body : S -> MA (S + R)) :
    (forall acc, amle (body acc)) -> forall acc, amle (arepeat n body acc).
  Proof.
    intros Hb. induction n as [|n IH]; intros acc; cbn [arepeat]; [apply amle_fuel|].
    apply amle_bind; [apply Hb|]. intros [acc'|r]; [apply IH | apply amle_ret].
  Qed.

  Ltac le_step leaf :=
    lazymatch goal with
    | |- amle (aret _) => apply amle_ret
    | |- amle (afail _) => apply amle_fail
    | |- amle (log_access _ _ _) => apply amle_log
    | |- amle (lift _) =>
        apply amle_lift;
        first [ apply mle_peek | apply mle_next_token | apply mle_next_unwrapped | apply mle_expect | apply mle_accept
              | apply mle_peek_is | apply mle_try | apply mle_get | apply mle_define_function | apply mle_reset_data ]
    | |- amle (abind _ _) => first [ solve [leaf] | apply amle_bind; [| intro] ]
    | |- amle (arepeat _ _ _) => apply amle_repeat; intro
    | |- amle (match ?x with _ => _ end) => destruct x
    | |- _ => solve [leaf]
    end.
  Ltac le_walk leaf := repeat (le_step leaf).
  Ltac no_leaf := fail.

  Lemma le_check t e : amle (check t e).
  Proof. unfold check; le_walk no_leaf. Qed.
  Lemma le_check_number t : amle (check_number t).
  Proof. apply le_check. Qed.
  Lemma le_get_loc : amle aget_loc.
  Proof. unfold aget_loc; le_walk no_leaf. Qed.
  Lemma le_prev_loc : amle prev_loc.
  Proof. unfold prev_loc. apply amle_bind; [apply le_get_loc | intro; apply amle_ret]. Qed.
  Lemma le_enter_nesting n : amle (enter_nesting n).
  Proof. unfold enter_nesting; le_walk no_leaf. Qed.

  Ltac le_base := first [ apply le_check_number | apply le_check | apply le_prev_loc | apply le_get_loc | apply le_enter_nesting ].

  Section AExprLe.
    Variable fuel : nat.
    Variable rec : MA vtype.
    Hypothesis Hrec : amle rec.

    Ltac leaf := first [ apply Hrec | le_base ].

    Lemma le_array_index : amle (an_array_index fuel rec).
    Proof. unfold an_array_index; le_walk leaf. Qed.
    Lemma le_unary_arg : amle (an_unary_number_function_arg rec).
    Proof. unfold an_unary_number_function_arg; le_walk leaf. Qed.
    Lemma le_check_arguments args : forall i n, amle (an_check_arguments rec args i n).
    Proof. induction args as [|a args IH]; intros i n; cbn [an_check_arguments]; le_walk ltac:(first [apply IH|leaf]). Qed.
    Lemma le_user_function_call name l : amle (an_user_function_call rec name l).
    Proof. unfold an_user_function_call; le_walk ltac:(first [apply le_check_arguments|leaf]). Qed.
    Lemma le_function_call name l : amle (an_function_call rec name l).
    Proof. unfold an_function_call; le_walk ltac:(first [apply le_unary_arg|apply le_user_function_call|leaf]). Qed.
    Lemma le_term : amle (an_term fuel rec).
    Proof. unfold an_term; le_walk ltac:(first [apply le_function_call|apply le_array_index|leaf]). Qed.
    Lemma le_paren : amle (an_paren fuel rec).
    Proof. unfold an_paren; le_walk ltac:(first [apply le_term|leaf]). Qed.
    Lemma le_unary : amle (an_unary fuel rec).
    Proof. unfold an_unary; le_walk ltac:(first [apply le_term|apply le_paren|leaf]). Qed.
    Lemma le_tier {O} (get_op : MA (option O)) operand comb :
      amle get_op -> amle operand -> (forall a b, amle (comb a b)) -> amle (an_tier fuel get_op operand comb).
    Proof. intros H1 H2 H3. unfold an_tier; le_walk ltac:(first [apply H1|apply H2|apply H3|leaf]). Qed.
    Lemma le_both_numbers v w : amle (both_numbers v w).
    Proof. unfold both_numbers; le_walk leaf. Qed.
    Lemma le_accept_as t : amle (an_accept_as t).
    Proof. unfold an_accept_as; le_walk leaf. Qed.
    Lemma le_or : amle (an_or fuel rec).
    Proof.
      unfold an_or, an_and, an_equality, an_addsub, an_muldiv, an_exponent.
      repeat (apply le_tier;
              [ first [apply le_accept_as | apply amle_lift, mle_try]
              | | intros; first [apply le_both_numbers | le_walk leaf] ]).
      apply le_unary.
    Qed.
  End AExprLe.

  Lemma le_analyze_expression fuel : forall n, amle (analyze_expression fuel n).
  Proof.
    induction fuel as [|k IH]; intros n; cbn [analyze_expression]; [apply amle_fuel|].
    destruct (Nat.eqb n max_nesting); [apply amle_fail|]. apply le_or, IH.
  Qed.

  Section AStmtLe.
    Variable fuel nest : nat.
    Variable rec : MA unit.
    Hypothesis Hrec : amle rec.

    Lemma le_aexpr : amle (aexpr fuel nest).
    Proof. apply le_analyze_expression. Qed.

    Ltac leaf := first [ apply le_aexpr | apply Hrec | le_base ].

    Lemma le_optional_index : amle (an_optional_array_index fuel nest).
    Proof. unfold an_optional_array_index; le_walk ltac:(first [apply le_array_index; apply le_aexpr|leaf]). Qed.
    Lemma le_goto_or_gosub : amle an_goto_or_gosub.
    Proof. unfold an_goto_or_gosub; le_walk leaf. Qed.
    Lemma le_statement_or_goto : amle (an_statement_or_goto rec).
    Proof. unfold an_statement_or_goto; le_walk ltac:(first [apply le_goto_or_gosub|leaf]). Qed.
    Lemma le_if : amle (an_if fuel nest rec).
    Proof. unfold an_if; le_walk ltac:(first [apply le_statement_or_goto|leaf]). Qed.
    Lemma le_assign lv t : amle (an_assign lv t).
    Proof. unfold an_assign; le_walk leaf. Qed.
    Lemma le_assignment sym : amle (an_assignment fuel nest sym).
    Proof. unfold an_assignment; le_walk ltac:(first [apply le_optional_index|apply le_assign|leaf]). Qed.
    Lemma le_let : amle (an_let fuel nest).
    Proof. unfold an_let; le_walk ltac:(first [apply le_assignment|leaf]). Qed.
    Lemma le_parse_lvalue : amle (an_parse_lvalue fuel nest).
    Proof. unfold an_parse_lvalue; le_walk ltac:(first [apply le_optional_index|leaf]). Qed.
    Lemma le_read : amle (an_read fuel nest).
    Proof. unfold an_read; le_walk ltac:(first [apply le_parse_lvalue|apply le_assign|leaf]). Qed.
    Lemma le_input : amle (an_input fuel nest).
    Proof. unfold an_input; le_walk ltac:(first [apply le_parse_lvalue|leaf]). Qed.
    Lemma le_dim : amle (an_dim fuel nest).
    Proof. unfold an_dim; le_walk ltac:(first [apply le_parse_lvalue|leaf]). Qed.
    Lemma le_print : amle (an_print fuel nest).
    Proof. unfold an_print; le_walk leaf. Qed.
    Lemma le_for : amle (an_for fuel nest).
    Proof. unfold an_for; le_walk leaf. Qed.
    Lemma le_next : amle an_next.
    Proof. unfold an_next; le_walk leaf. Qed.
    Lemma le_def : amle (an_def fuel nest).
    Proof. unfold an_def; le_walk leaf. Qed.
    Lemma le_statement_body : amle (an_statement_body fuel nest rec).
    Proof.
      unfold an_statement_body.
      le_walk ltac:(first [ apply le_dim | apply le_print | apply le_input | apply le_if | apply le_goto_or_gosub
                          | apply le_for | apply le_next | apply le_def | apply le_read | apply le_let
                          | apply le_assignment | leaf ]).
    Qed.
  End AStmtLe.

  Lemma le_analyze_statement fuel : forall n, amle (analyze_statement fuel n).
  Proof.
    induction fuel as [|k IH]; intros n; cbn [analyze_statement]; [apply amle_fuel|].
    destruct (Nat.eqb n max_nesting); [apply amle_fail|]. apply le_statement_body, IH.
  Qed.

  (* ---------------------------------------------------------------- *)
  (* an expression that succeeds consumes at least one token *)

  Definition amlt {A} (m : MA A) : Prop :=
    forall st, inC T (fst st) -> forall a st', m st = (Ok a, st') -> loc_idx (loc (fst st)) < loc_idx (loc (fst st')).

  Lemma amlt_bind_l {A B} (m : MA A) (f : A -> MA B) :
    amlt m -> amle m -> (forall a, amle (f a)) -> amlt (abind m f).
  Proof.
    intros Hlt Hle Hf st H b st' E. unfold abind in E. pose proof (Hle st H) as Ha.
    destruct (m st) as [[a| | | |] st1] eqn:Em; try discriminate. cbn [fst snd] in Ha.
    pose proof (Hlt st H a st1 Em) as H1. pose proof (Hf a st1 (proj1 Ha)) as H2. rewrite E in H2. cbn [fst snd] in H2.
    destruct H2 as (_ & _ & H2). lia.
  Qed.

  Lemma amlt_bind_r {A B} (m : MA A) (f : A -> MA B) :
    amle m -> (forall a, amlt (f a)) -> amlt (abind m f).
  Proof.
    intros Hle Hf st H b st' E. unfold abind in E. pose proof (Hle st H) as Ha.
    destruct (m st) as [[a| | | |] st1] eqn:Em; try discriminate. cbn [fst snd] in Ha.
    pose proof (Hf a st1 (proj1 Ha) b st' E) as H2. destruct Ha as (_ & _ & Ha). lia.
  Qed.

  Lemma lift_eq {A} (m : M A) st r s1 : m (fst st) = (r, s1) -> lift m st = (r, (s1, snd st)).
  Proof. intros H. unfold lift. rewrite H. reflexivity. Qed.

  (* cursor operations that report whether they consumed a token *)
  Lemma lt_next_token st t st' : inC T (fst st) -> lift next_token st = (Ok (Some t), st') ->
    loc_idx (loc (fst st)) < loc_idx (loc (fst st')).
  Proof.
    intros H E. pose proof (next_token_spec (fst st) H) as Hs. unfold lift in E.
    destruct (nth_error (line_toks (fst st)) (loc_idx (loc (fst st)))); rewrite Hs in E; inversion E; subst; cbn; lia.
  Qed.

  Lemma lt_next_unwrapped : amlt (lift next_unwrapped_token).
  Proof.
    intros st H a st' E. unfold lift, next_unwrapped_token, bind in E.
    pose proof (next_token_spec (fst st) H) as Hs.
    destruct (nth_error (line_toks (fst st)) (loc_idx (loc (fst st)))); rewrite Hs in E; inversion E; subst; cbn; lia.
  Qed.

  Lemma lt_accept t st st' : inC T (fst st) -> lift (accept_next_token t) st = (Ok true, st') ->
    loc_idx (loc (fst st)) < loc_idx (loc (fst st')).
  Proof.
    intros H E. pose proof (accept_spec t (fst st) H) as Hs. unfold lift in E.
    destruct (nth_error (line_toks (fst st)) (loc_idx (loc (fst st)))) as [t'|]; [destruct (token_eqb t' t)|];
      rewrite Hs in E; inversion E; subst; cbn; lia.
  Qed.

  Lemma lt_try {B} (g : token -> option B) st b st' : inC T (fst st) -> lift (try_next_token g) st = (Ok (Some b), st') ->
    loc_idx (loc (fst st)) < loc_idx (loc (fst st')).
  Proof.
    intros H E. pose proof (try_spec g (fst st) H) as Hs. unfold lift in E.
    destruct (nth_error (line_toks (fst st)) (loc_idx (loc (fst st)))) as [t'|]; [destruct (g t')|];
      rewrite Hs in E; inversion E; subst; cbn; lia.
  Qed.

  Lemma lt_accept_as t st st' : inC T (fst st) -> an_accept_as t st = (Ok (Some tt), st') ->
    loc_idx (loc (fst st)) < loc_idx (loc (fst st')).
  Proof.
    intros H E. unfold an_accept_as, abind in E.
    destruct (lift (accept_next_token t) st) as [[[|]| | | |] st1] eqn:E1; try discriminate; inversion E; subst.
    apply (lt_accept t st st' H E1).
  Qed.

  Section AExprLt.
    Variable fuel : nat.
    Variable rec : MA vtype.
    Hypothesis Hrec : amle rec.

    Ltac leaf := first [ apply Hrec | le_base ].

    Lemma lt_term : amlt (an_term fuel rec).
    Proof.
      unfold an_term. apply amlt_bind_l; [apply lt_next_unwrapped | apply amle_lift, mle_next_unwrapped|].
      intros t. le_walk ltac:(first [apply le_function_call; exact Hrec | apply le_array_index; exact Hrec | leaf]).
    Qed.

    Lemma lt_paren : amlt (an_paren fuel rec).
    Proof.
      intros st H a st' E. unfold an_paren, abind in E.
      destruct (lift (accept_next_token TLeftParen) st) as [[p| | | |] st1] eqn:E1; try discriminate.
      pose proof (amle_lift _ (mle_accept TLeftParen) st H) as Ha. rewrite E1 in Ha. cbn [fst snd] in Ha.
      destruct p.
      - pose proof (lt_accept TLeftParen st st1 H E1) as H1.
        assert (Hrest : amle (v <-- rec ;; lift (expect_next_token TRightParen) ;;;; aret v)) by (le_walk leaf).
        specialize (Hrest st1 (proj1 Ha)). unfold abind in Hrest. rewrite E in Hrest. cbn [fst snd] in Hrest.
        destruct Hrest as (_ & _ & H2). lia.
      - pose proof (lt_term st1 (proj1 Ha) a st' E) as H2. destruct Ha as (_ & _ & Ha). lia.
    Qed.

    Lemma lt_unary : amlt (an_unary fuel rec).
    Proof.
      unfold an_unary. apply amlt_bind_r; [apply amle_lift, mle_try|]. intros op.
      apply amlt_bind_l; [apply lt_paren | apply le_paren; exact Hrec|].
      intros v. le_walk leaf.
    Qed.

    Lemma lt_tier {O} (get_op : MA (option O)) operand comb :
      amle get_op -> amle operand -> amlt operand -> (forall a b, amle (comb a b)) ->
      amlt (an_tier fuel get_op operand comb).
    Proof.
      intros H1 H2 H2' H3. unfold an_tier. apply amlt_bind_l; [exact H2' | exact H2|].
      intros v0. le_walk ltac:(first [apply H1|apply H2|apply H3|leaf]).
    Qed.

    Lemma lt_or : amlt (an_or fuel rec).
    Proof.
      unfold an_or, an_and, an_equality, an_addsub, an_muldiv, an_exponent.
      repeat (apply lt_tier;
              [ first [apply le_accept_as | apply amle_lift, mle_try]
              | repeat (apply le_tier;
                        [ first [apply le_accept_as | apply amle_lift, mle_try]
                        | | intros; first [apply le_both_numbers | le_walk leaf] ]); apply le_unary; exact Hrec
              |
              | intros; first [apply le_both_numbers | le_walk leaf] ]).
      apply lt_unary.
    Qed.
  End AExprLt.

  Lemma lt_analyze_expression fuel n : amlt (analyze_expression fuel n).
  Proof.
    destruct fuel as [|k]; cbn [analyze_expression]; [intros st H a st' E; discriminate|].
    destruct (Nat.eqb n max_nesting); [intros st H a st' E; discriminate|].
    apply lt_or, le_analyze_expression.
  Qed.

  (* ---------------------------------------------------------------- *)
  (* with more fuel than tokens left, nothing starves *)

  Definition anof {A} (g : nat) (m : MA A) : Prop :=
    forall st, inC T (fst st) -> room (fst st) <= g -> fst (m st) <> OutOfFuel.

  Lemma anof_ret {A} g (a : A) : anof g (aret a).
  Proof. intros st _ _. discriminate. Qed.
  Lemma anof_fail {A} g e : anof g (@afail A e).
  Proof. intros st _ _. discriminate. Qed.
  Lemma anof_log g sym l w : anof g (log_access sym l w).
  Proof. intros st _ _. discriminate. Qed.
  Lemma anof_lift {A} g (m : M A) : mnof m -> anof g (lift m).
  Proof.
    intros Hm st _ _. unfold lift. specialize (Hm (fst st)). destruct (m (fst st)) as [r p]. exact Hm.
  Qed.
  Lemma anof_bind {A B} g (m : MA A) (f : A -> MA B) :
    anof g m -> amle m -> (forall a, anof g (f a)) -> anof g (abind m f).
  Proof.
    intros Hm Hle Hf st H Hg. unfold abind. specialize (Hm st H Hg). pose proof (Hle st H) as Ha.
    destruct (m st) as [[a|e l|p| |] st1]; cbn [fst snd] in *; try discriminate; [|congruence].
    apply Hf; [apply Ha|]. pose proof (adv_room _ _ Ha). lia.
  Qed.
  Lemma anof_weaken {A} g g' (m : MA A) : g' <= g -> anof g m -> anof g' m.
  Proof. intros Hg Hm st H Hr. apply Hm; [exact H | lia]. Qed.

  (* a loop whose continuing iterations consume a token *)
  Lemma anof_repeat {S R} g (body : S -> MA (S + R)) :
    (forall acc, amle (body acc)) -> (forall acc, anof g (body acc)) ->
    (forall acc st acc' st', inC T (fst st) -> body acc st = (Ok (inl acc'), st') ->
       loc_idx (loc (fst st)) < loc_idx (loc (fst st'))) ->
    forall k acc st, inC T (fst st) -> room (fst st) < k -> room (fst st) <= g ->
      fst (arepeat k body acc st) <> OutOfFuel.
  Proof.
    intros Hle Hnof Hlt. induction k as [|k IH]; intros acc st H Hk Hg; [lia|].
    cbn [arepeat]. unfold abind.
    pose proof (Hnof acc st H Hg) as H1. pose proof (Hle acc st H) as Ha.
    destruct (body acc st) as [[[acc'|r]|e l|p| |] st1] eqn:Eb; cbn [fst snd] in *; try discriminate; [|congruence].
    pose proof (Hlt acc st acc' st1 H Eb) as Hadv.
    pose proof (inC_room _ H) as R0. pose proof (inC_room _ (proj1 Ha)) as R1.
    assert (Hline : line_toks (fst st1) = line_toks (fst st)).
    { unfold line_toks. destruct Ha as (_ & -> & _). reflexivity. }
    rewrite Hline in R1.
    apply IH; [apply Ha | lia | lia].
  Qed.

  Ltac nof_step leaf :=
    lazymatch goal with
    | |- anof _ (aret _) => apply anof_ret
    | |- anof _ (afail _) => apply anof_fail
    | |- anof _ (log_access _ _ _) => apply anof_log
    | |- anof _ (lift _) =>
        apply anof_lift;
        first [ apply mnof_peek | apply mnof_next_token | apply mnof_next_unwrapped | apply mnof_expect | apply mnof_accept
              | apply mnof_peek_is | apply mnof_try | apply mnof_get | apply mnof_define_function | apply mnof_reset_data ]
    | |- anof _ (abind _ _) => first [ solve [leaf] | apply anof_bind; [| | intro] ]
    | |- anof _ (match ?x with _ => _ end) => destruct x
    | |- amle _ => solve [ le_walk leaf ]
    | |- _ => solve [leaf]
    end.
  Ltac nof_walk leaf := repeat (nof_step leaf).

  Lemma nof_check g t e : anof g (check t e).
  Proof. unfold check. destruct (vtype_eqb t e); [apply anof_ret | apply anof_fail]. Qed.
  Lemma nof_check_number g t : anof g (check_number t).
  Proof. apply nof_check. Qed.
  Lemma nof_get_loc g : anof g aget_loc.
  Proof. unfold aget_loc. apply anof_lift, mnof_get. Qed.
  Lemma nof_prev_loc g : anof g prev_loc.
  Proof. unfold prev_loc. apply anof_bind; [apply nof_get_loc | apply le_get_loc | intro; apply anof_ret]. Qed.
  Lemma nof_enter_nesting g n : anof g (enter_nesting n).
  Proof. unfold enter_nesting. destruct (Nat.eqb n max_nesting); [apply anof_fail | apply anof_ret]. Qed.

  Ltac nof_base := first [ apply nof_check_number | apply nof_check | apply nof_prev_loc | apply nof_get_loc | apply nof_enter_nesting
                         | le_base ].

  Section AExprNof.
    Variable fuel g : nat.
    Variable rec : MA vtype.
    Hypothesis Hle : amle rec.
    Hypothesis Hnof : anof g rec.
    Hypothesis Hg : g < fuel.

    Ltac leaf := first [ apply Hle | apply Hnof | nof_base ].

    Lemma nof_array_index : anof g (an_array_index fuel rec).
    Proof.
      unfold an_array_index.
      apply anof_bind; [apply anof_lift, mnof_expect | apply amle_lift, mle_expect | intros _].
      apply anof_bind; [| le_walk leaf | intro; nof_walk leaf].
      intros st H Hr. apply (anof_repeat g); try assumption; [| | |lia].
      - intro; le_walk leaf.
      - intro; nof_walk leaf.
      - intros arity st0 arity' st' H0 E. unfold abind in E.
        destruct (rec st0) as [[t| | | |] st1] eqn:E1; try discriminate.
        pose proof (Hle st0 H0) as A1. rewrite E1 in A1. cbn [fst snd] in A1.
        destruct (check_number t st1) as [[t2| | | |] st2] eqn:E2; try discriminate.
        pose proof (le_check_number t st1 (proj1 A1)) as A2. rewrite E2 in A2. cbn [fst snd] in A2.
        destruct (lift (accept_next_token TComma) st2) as [[c| | | |] st3] eqn:E3; try discriminate.
        destruct c; inversion E; subst.
        pose proof (lt_accept TComma st2 st' (proj1 A2) E3) as H3.
        destruct A1 as (_ & _ & A1). destruct A2 as (_ & _ & A2). lia.
    Qed.

    Lemma nof_unary_arg : anof g (an_unary_number_function_arg rec).
    Proof. unfold an_unary_number_function_arg; nof_walk leaf. Qed.
    Lemma nof_check_arguments args : forall i n, anof g (an_check_arguments rec args i n).
    Proof.
      induction args as [|a args IH]; intros i n; cbn [an_check_arguments];
        nof_walk ltac:(first [apply IH | apply le_check_arguments; exact Hle | leaf]).
    Qed.
    Lemma nof_user_function_call name l : anof g (an_user_function_call rec name l).
    Proof.
      unfold an_user_function_call;
        nof_walk ltac:(first [apply nof_check_arguments | apply le_check_arguments; exact Hle | leaf]).
    Qed.
    Lemma nof_function_call name l : anof g (an_function_call rec name l).
    Proof.
      unfold an_function_call;
        nof_walk ltac:(first [apply nof_unary_arg | apply nof_user_function_call | apply le_unary_arg; exact Hle | leaf]).
    Qed.
    Lemma nof_term : anof g (an_term fuel rec).
    Proof.
      unfold an_term;
        nof_walk ltac:(first [apply nof_function_call | apply nof_array_index
                             | apply le_function_call; exact Hle | apply le_array_index; exact Hle | leaf]).
    Qed.
    Lemma nof_paren : anof g (an_paren fuel rec).
    Proof. unfold an_paren; nof_walk ltac:(first [apply nof_term | leaf]). Qed.
    Lemma nof_unary : anof g (an_unary fuel rec).
    Proof. unfold an_unary; nof_walk ltac:(first [apply nof_term | apply nof_paren | apply le_paren; exact Hle | leaf]). Qed.

    (* a binary tier: the loop continues only after an operator was consumed *)
    Lemma nof_tier {O} (get_op : MA (option O)) operand comb :
      amle get_op -> anof g get_op ->
      (forall st o st', inC T (fst st) -> get_op st = (Ok (Some o), st') -> loc_idx (loc (fst st)) < loc_idx (loc (fst st'))) ->
      amle operand -> anof g operand -> (forall a b, amle (comb a b)) -> (forall a b, anof g (comb a b)) ->
      anof g (an_tier fuel get_op operand comb).
    Proof.
      intros G1 G2 G3 O1 O2 C1 C2. unfold an_tier.
      apply anof_bind; [exact O2 | exact O1 | intros v0].
      intros st H Hr. apply (anof_repeat g); try assumption; [| | |lia].
      - intro; le_walk ltac:(first [apply G1 | apply O1 | apply C1 | leaf]).
      - intro v. apply anof_bind; [exact G2 | exact G1 | intros [o|]; [|apply anof_ret]].
        apply anof_bind; [exact O2 | exact O1 | intros w].
        apply anof_bind; [apply C2 | apply C1 | intro; apply anof_ret].
      - intros v st0 v' st' H0 E. unfold abind in E.
        destruct (get_op st0) as [[[o|]| | | |] st1] eqn:E1; try discriminate.
        pose proof (G3 st0 o st1 H0 E1) as L1.
        pose proof (G1 st0 H0) as A1. rewrite E1 in A1. cbn [fst snd] in A1.
        destruct (operand st1) as [[w| | | |] st2] eqn:E2; try discriminate.
        pose proof (O1 st1 (proj1 A1)) as A2. rewrite E2 in A2. cbn [fst snd] in A2.
        destruct (comb v w st2) as [[x| | | |] st3] eqn:E3; try discriminate.
        pose proof (C1 v w st2 (proj1 A2)) as A3. rewrite E3 in A3. cbn [fst snd] in A3.
        inversion E; subst. destruct A2 as (_ & _ & A2). destruct A3 as (_ & _ & A3). lia.
    Qed.

    Lemma nof_both_numbers v w : anof g (both_numbers v w).
    Proof. unfold both_numbers; nof_walk leaf. Qed.
    Lemma nof_accept_as t : anof g (an_accept_as t).
    Proof. unfold an_accept_as; nof_walk leaf. Qed.

    Lemma get_op_accept t st (o : unit) st' : inC T (fst st) -> an_accept_as t st = (Ok (Some o), st') ->
      loc_idx (loc (fst st)) < loc_idx (loc (fst st')).
    Proof. destruct o. apply lt_accept_as. Qed.

    Lemma nof_or : anof g (an_or fuel rec).
    Proof.
      unfold an_or, an_and, an_equality, an_addsub, an_muldiv, an_exponent.
      (* each tier: operator look-up, operand = the next tier *)
      assert (U1 : amle (an_unary fuel rec)) by (apply le_unary; exact Hle).
      assert (U2 : anof g (an_unary fuel rec)) by apply nof_unary.
      set (t5 := an_tier fuel (an_accept_as TCaret) (an_unary fuel rec) both_numbers).
      assert (L5 : amle t5) by (apply le_tier; [apply le_accept_as | exact U1 | intros; apply le_both_numbers]).
      assert (N5 : anof g t5).
      { apply nof_tier; [apply le_accept_as | apply nof_accept_as | apply get_op_accept | exact U1 | exact U2
                         | intros; apply le_both_numbers | intros; apply nof_both_numbers]. }
      set (t4 := an_tier fuel (lift (try_next_token muldiv_of_token)) t5 both_numbers).
      assert (L4 : amle t4) by (apply le_tier; [apply amle_lift, mle_try | exact L5 | intros; apply le_both_numbers]).
      assert (N4 : anof g t4).
      { apply nof_tier; [apply amle_lift, mle_try | apply anof_lift, mnof_try | intros st o st'; apply lt_try | exact L5 | exact N5
                         | intros; apply le_both_numbers | intros; apply nof_both_numbers]. }
      set (t3 := an_tier fuel (lift (try_next_token addsub_of_token)) t4 both_numbers).
      assert (L3 : amle t3) by (apply le_tier; [apply amle_lift, mle_try | exact L4 | intros; apply le_both_numbers]).
      assert (N3 : anof g t3).
      { apply nof_tier; [apply amle_lift, mle_try | apply anof_lift, mnof_try | intros st o st'; apply lt_try | exact L4 | exact N4
                         | intros; apply le_both_numbers | intros; apply nof_both_numbers]. }
      set (t2 := an_tier fuel (lift (try_next_token eq_of_token)) t3 (fun v w => check v w ;;;; aret TyNumber)).
      assert (L2 : amle t2) by (apply le_tier; [apply amle_lift, mle_try | exact L3 | intros; le_walk leaf]).
      assert (N2 : anof g t2).
      { apply nof_tier; [apply amle_lift, mle_try | apply anof_lift, mnof_try | intros st o st'; apply lt_try | exact L3 | exact N3
                         | intros; le_walk leaf | intros; nof_walk leaf]. }
      set (t1 := an_tier fuel (an_accept_as TAnd) t2 (fun _ _ => aret TyNumber)).
      assert (L1 : amle t1) by (apply le_tier; [apply le_accept_as | exact L2 | intros; apply amle_ret]).
      assert (N1 : anof g t1).
      { apply nof_tier; [apply le_accept_as | apply nof_accept_as | apply get_op_accept | exact L2 | exact N2
                         | intros; apply amle_ret | intros; apply anof_ret]. }
      apply nof_tier; [apply le_accept_as | apply nof_accept_as | apply get_op_accept | exact L1 | exact N1
                       | intros; apply amle_ret | intros; apply anof_ret].
    Qed.
  End AExprNof.

  (* expressions: one unit of fuel per nesting level, and a loop's worth on top *)
  Lemma nof_analyze_expression : forall fuel n g, n <= max_nesting -> g + (max_nesting - n) < fuel ->
    anof g (analyze_expression fuel n).
  Proof.
    induction fuel as [|f IH]; intros n g Hn Hc; [lia|]. cbn [analyze_expression].
    destruct (Nat.eqb_spec n max_nesting) as [->|Hne]; [apply anof_fail|].
    apply nof_or; [apply le_analyze_expression | apply IH; lia | lia].
  Qed.

  Section AStmtNof.
    Variable fuel nest g : nat.
    Variable rec : MA unit.
    Hypothesis Hle : amle rec.
    Hypothesis Hnof : anof g rec.
    Hypothesis Hg : g < fuel.
    Hypothesis Hex : anof g (aexpr fuel nest).

    Ltac leaf := first [ apply Hex | apply le_aexpr | apply Hle | apply Hnof | nof_base ].

    Lemma nof_st_array_index : anof g (an_array_index fuel (aexpr fuel nest)).
    Proof. apply nof_array_index; [apply le_aexpr | exact Hex | exact Hg]. Qed.

    Lemma nof_optional_index : anof g (an_optional_array_index fuel nest).
    Proof.
      unfold an_optional_array_index;
        nof_walk ltac:(first [apply nof_st_array_index | apply le_array_index; apply le_aexpr | leaf]).
    Qed.
    Lemma nof_goto_or_gosub : anof g an_goto_or_gosub.
    Proof. unfold an_goto_or_gosub; nof_walk leaf. Qed.
    Lemma nof_statement_or_goto : anof g (an_statement_or_goto rec).
    Proof. unfold an_statement_or_goto; nof_walk ltac:(first [apply nof_goto_or_gosub | leaf]). Qed.
    Lemma nof_if : anof g (an_if fuel nest rec).
    Proof.
      unfold an_if;
        nof_walk ltac:(first [apply nof_statement_or_goto | apply le_statement_or_goto; exact Hle | leaf]).
    Qed.
    Lemma nof_assign lv t : anof g (an_assign lv t).
    Proof. unfold an_assign; nof_walk leaf. Qed.
    Lemma nof_assignment sym : anof g (an_assignment fuel nest sym).
    Proof.
      unfold an_assignment;
        nof_walk ltac:(first [apply nof_optional_index | apply nof_assign | apply le_optional_index | leaf]).
    Qed.
    Lemma nof_let : anof g (an_let fuel nest).
    Proof. unfold an_let; nof_walk ltac:(first [apply nof_assignment | leaf]). Qed.
    Lemma nof_parse_lvalue : anof g (an_parse_lvalue fuel nest).
    Proof.
      unfold an_parse_lvalue; nof_walk ltac:(first [apply nof_optional_index | apply le_optional_index | leaf]).
    Qed.
    Lemma nof_input : anof g (an_input fuel nest).
    Proof. unfold an_input; nof_walk ltac:(first [apply nof_parse_lvalue | apply le_parse_lvalue | leaf]). Qed.
    Lemma nof_dim : anof g (an_dim fuel nest).
    Proof. unfold an_dim; nof_walk ltac:(first [apply nof_parse_lvalue | apply le_parse_lvalue | leaf]). Qed.
    Lemma nof_for : anof g (an_for fuel nest).
    Proof. unfold an_for; nof_walk leaf. Qed.
    Lemma nof_next : anof g an_next.
    Proof. unfold an_next; nof_walk leaf. Qed.

    Lemma nof_read : anof g (an_read fuel nest).
    Proof.
      unfold an_read. intros st H Hr. apply (anof_repeat g); try assumption; [| | |lia].
      - intro; le_walk ltac:(first [apply le_parse_lvalue | apply le_assign | leaf]).
      - intro; nof_walk ltac:(first [apply nof_parse_lvalue | apply nof_assign | apply le_parse_lvalue | apply le_assign | leaf]).
      - intros u st0 u' st' H0 E. unfold abind in E.
        destruct (an_parse_lvalue fuel nest st0) as [[lv| | | |] st1] eqn:E1; try discriminate.
        pose proof (le_parse_lvalue fuel nest st0 H0) as A1. rewrite E1 in A1. cbn [fst snd] in A1.
        destruct (an_assign lv (type_of_name (alv_sym lv)) st1) as [[x| | | |] st2] eqn:E2; try discriminate.
        pose proof (le_assign lv (type_of_name (alv_sym lv)) st1 (proj1 A1)) as A2. rewrite E2 in A2. cbn [fst snd] in A2.
        destruct (lift (accept_next_token TComma) st2) as [[c| | | |] st3] eqn:E3; try discriminate.
        destruct c; inversion E; subst.
        pose proof (lt_accept TComma st2 st' (proj1 A2) E3) as H3.
        destruct A1 as (_ & _ & A1). destruct A2 as (_ & _ & A2). lia.
    Qed.

    Lemma nof_print : anof g (an_print fuel nest).
    Proof.
      unfold an_print. intros st H Hr. apply (anof_repeat g); try assumption; [| | |lia].
      - intro; le_walk leaf.
      - intro; nof_walk leaf.
      - intros u st0 u' st' H0 E. unfold abind in E.
        destruct (lift peek_next_token st0) as [[t| | | |] st1] eqn:E1; try discriminate.
        unfold lift in E1. rewrite (peek_line (fst st0) H0) in E1. inversion E1; subst t st1. clear E1.
        set (s1 := set_reads (S (reads (fst st0))) (fst st0)) in *.
        assert (H1 : inC T s1) by exact H0.
        destruct (nth_error (line_toks (fst st0)) (loc_idx (loc (fst st0)))) as [tk|] eqn:En; [|discriminate].
        assert (Hnext : forall st2 r, lift next_token (s1, snd st0) = (Ok r, st2) ->
                          loc_idx (loc (fst st0)) < loc_idx (loc (fst st2))).
        { intros st2 r E2. pose proof (next_token_spec s1 H1) as Hs. unfold lift in E2. cbn [fst snd] in E2.
          change (line_toks s1) with (line_toks (fst st0)) in Hs. change (loc_idx (loc s1)) with (loc_idx (loc (fst st0))) in Hs.
          rewrite En in Hs. rewrite Hs in E2. inversion E2; subst. cbn. lia. }
        assert (Hexpr : forall st2 v, aexpr fuel nest (s1, snd st0) = (Ok v, st2) ->
                          loc_idx (loc (fst st0)) < loc_idx (loc (fst st2))).
        { intros st2 v E2. apply (lt_analyze_expression fuel nest (s1, snd st0) H1 v st2 E2). }
        unfold aret in E.
        destruct tk; try discriminate;
          try (destruct (aexpr fuel nest (s1, snd st0)) as [[v| | | |] st2] eqn:E2; try discriminate;
               inversion E; subst; apply (Hexpr _ _ eq_refl));
          try (destruct (lift next_token (s1, snd st0)) as [[r| | | |] st2] eqn:E2; try discriminate;
               inversion E; subst; apply (Hnext _ _ eq_refl)).
    Qed.

    Lemma nof_def : anof g (an_def fuel nest).
    Proof.
      unfold an_def.
      apply anof_bind; [apply anof_lift, mnof_next_token | apply amle_lift, mle_next_token | intros t].
      destruct t as [t|]; [|apply anof_fail]. destruct t; try apply anof_fail.
      apply anof_bind; [apply nof_prev_loc | apply le_prev_loc | intros l].
      apply anof_bind; [apply anof_log | apply amle_log | intros _].
      apply anof_bind; [apply anof_lift, mnof_expect | apply amle_lift, mle_expect | intros _].
      apply anof_bind; [| le_walk leaf | intro; nof_walk leaf].
      intros st H Hr. apply (anof_repeat g); try assumption; [| | |lia].
      - intro; le_walk leaf.
      - intro; nof_walk leaf.
      - intros acc st0 acc' st' H0 E. unfold abind in E.
        destruct (lift next_token st0) as [[a| | | |] st1] eqn:E1; try discriminate.
        pose proof (amle_lift _ mle_next_token st0 H0) as A1. rewrite E1 in A1. cbn [fst snd] in A1.
        destruct a as [a|]; [|discriminate].
        pose proof (lt_next_token st0 a st1 H0 E1) as L1.
        destruct a; try discriminate.
        destruct (lift next_token st1) as [[d| | | |] st2] eqn:E2; try discriminate.
        pose proof (amle_lift _ mle_next_token st1 (proj1 A1)) as A2. rewrite E2 in A2. cbn [fst snd] in A2.
        destruct d as [d|]; [|discriminate]. destruct d; try discriminate; inversion E; subst.
        destruct A2 as (_ & _ & A2). lia.
    Qed.

    Lemma nof_statement_body : anof g (an_statement_body fuel nest rec).
    Proof.
      unfold an_statement_body.
      nof_walk ltac:(first [ apply nof_dim | apply nof_print | apply nof_input | apply nof_if | apply nof_goto_or_gosub
                           | apply nof_for | apply nof_next | apply nof_def | apply nof_read | apply nof_let
                           | apply nof_assignment | leaf ]).
    Qed.
  End AStmtNof.

  Lemma nof_analyze_statement : forall fuel n g, n <= max_nesting -> g + (max_nesting - n) < fuel ->
    anof g (analyze_statement fuel n).
  Proof.
    induction fuel as [|f IH]; intros n g Hn Hc; [lia|]. cbn [analyze_statement].
    destruct (Nat.eqb_spec n max_nesting) as [->|Hne]; [apply anof_fail|].
    apply nof_statement_body; [apply le_analyze_statement | apply IH; lia | lia|].
    apply nof_analyze_expression; lia.
  Qed.

  (* a statement that starts on a token consumes it *)
  Lemma lt_analyze_statement fuel n st u st' : inC T (fst st) ->
    nth_error (line_toks (fst st)) (loc_idx (loc (fst st))) <> None ->
    analyze_statement fuel n st = (Ok u, st') -> loc_idx (loc (fst st)) < loc_idx (loc (fst st')).
  Proof.
    intros H Hn E. destruct fuel as [|f]; [discriminate|]. cbn [analyze_statement] in E.
    destruct (Nat.eqb n max_nesting); [discriminate|].
    unfold an_statement_body, abind in E.
    destruct (lift next_token st) as [[t| | | |] st1] eqn:E1; try discriminate.
    pose proof (next_token_spec (fst st) H) as Hs. unfold lift in E1.
    destruct (nth_error (line_toks (fst st)) (loc_idx (loc (fst st)))) as [tk|] eqn:En; [|congruence].
    rewrite Hs in E1. inversion E1; subst t st1. clear E1.
    set (st1 := (set_loc (mkloc (loc_line (loc (fst st))) (S (loc_idx (loc (fst st))))) (set_reads (S (reads (fst st))) (fst st)), snd st)) in *.
    assert (H1 : inC T (fst st1)).
    { apply inC_step; [exact H|]. eapply nth_some_lt; exact En. }
    match type of E with ?m st1 = _ => assert (Hrest : amle m) end.
    { pose proof (le_analyze_statement f (S n)) as Hr.
      destruct tk; first [ apply amle_ret | apply amle_fail | apply le_dim | apply le_print | apply le_input
                         | apply le_if; exact Hr | apply le_goto_or_gosub | apply le_for | apply le_next
                         | apply amle_lift, mle_reset_data | apply le_def | apply le_read | apply le_let | apply le_assignment ]. }
    specialize (Hrest st1 H1). rewrite E in Hrest. cbn [fst snd] in Hrest. destruct Hrest as (_ & _ & Hrest).
    subst st1. cbn [fst loc loc_idx set_loc] in Hrest. lia.
  Qed.
End Ctx.

(* ------------------------------------------------------------------ *)
(* the walk over the stored lines *)

From Abasic Require Import Proofs.StoreProofs Proofs.Safety.
Local Open Scope nat_scope.

Fixpoint longest (T : list (N * list token)) : nat :=
  match T with [] => 0 | (_, ts) :: r => Nat.max (length ts) (longest r) end.

Lemma longest_bound T : forall n ts, toks_get n T = Some ts -> length ts <= longest T.
Proof.
  induction T as [|[k v] T IH]; intros n ts H; [discriminate|]. cbn [toks_get longest] in *.
  destruct (k =? n)%N; [inversion H; subst; lia|]. pose proof (IH n ts H). lia.
Qed.

Lemma room_bound T s : room T s <= longest T.
Proof.
  unfold room, line_toks. destruct (loc_line (loc s)) as [n|]; [|cbn; lia].
  destruct (toks_get n T) as [ts|] eqn:E; [pose proof (longest_bound T n ts E); lia | cbn; lia].
Qed.

(* lines still ahead of line [ln] *)
Definition later (ln : N) (keys : list N) : nat := length (filter (fun k => (ln <? k)%N) keys).

Lemma keys_after_later ln keys n' : keys_after ln keys = Some n' -> later n' keys < later ln keys.
Proof.
  intros H.
  assert (Hin : In n' keys /\ (ln < n')%N).
  { clear -H. induction keys as [|k keys IH]; cbn [keys_after] in H; [discriminate|].
    destruct (N.ltb_spec ln k); [inversion H; subst; split; [left; reflexivity | assumption]|].
    destruct (IH H) as [A B]. split; [right; exact A | exact B]. }
  destruct Hin as [Hin Hlt]. unfold later. clear H.
  induction keys as [|k keys IH]; [destruct Hin|]. cbn [filter].
  destruct Hin as [->|Hin].
  - destruct (N.ltb_spec n' n'); [lia|]. destruct (N.ltb_spec ln n'); [|lia]. cbn [length].
    apply Nat.lt_succ_r. clear IH. induction keys as [|k keys IH]; [apply le_n|]. cbn [filter].
    destruct (N.ltb_spec n' k); destruct (N.ltb_spec ln k); cbn [length]; try lia.
  - specialize (IH Hin). destruct (N.ltb_spec n' k); destruct (N.ltb_spec ln k); cbn [length]; try lia.
Qed.

Lemma next_line_eq' s n : loc_line (loc s) = Some n ->
  next_line s = match keys_after n (st_keys s) with
                | Some n' => (Ok true, set_loc (mkloc (Some n') 0) s)
                | None => (Ok false, s)
                end.
Proof.
  intros Hl. unfold next_line, store_after, bind, get, modify, ret. cbn [fst snd]. rewrite Hl.
  destruct (keys_after n (st_keys s)); reflexivity.
Qed.

Lemma next_line_imm' s : loc_line (loc s) = None -> next_line s = (Ok false, s).
Proof. intros Hl. unfold next_line, bind, get, ret. cbn [fst snd]. rewrite Hl. reflexivity. Qed.

Section WalkT.
  Variable T : list (N * list token).
  Variable m : source_map.
  Variable fuel : nat.
  Hypothesis Hfuel : longest T + max_nesting < fuel.

  (* one line: at most as many statements as tokens *)
  Lemma walk_line_nof : forall stmts st,
    WI T st -> room T (fst st) < stmts ->
    fst (walk_line fuel stmts m st) <> OutOfFuel
    /\ (forall om st', walk_line fuel stmts m st = (Ok om, st') ->
          WI T st' /\ loc_line (loc (fst st')) = loc_line (loc (fst st)) /\ st_keys (fst st') = st_keys (fst st)).
  Proof.
    induction stmts as [|k IH]; intros st HW Hr; [lia|]. cbn [walk_line].
    destruct HW as (HT & Hacc & Hloc).
    destruct Hloc as [Hok|[Hl Hi]].
    - assert (HC : inC T (fst st)) by (split; assumption).
      unfold has_next_token, bind. rewrite (peek_line T (fst st) HC). cbn [fst snd ret].
      set (s1 := set_reads (S (reads (fst st))) (fst st)).
      destruct (nth_error (line_toks T (fst st)) (loc_idx (loc (fst st)))) as [tk|] eqn:En.
      + assert (H1 : inC T s1) by exact HC.
        pose proof (nof_analyze_statement T fuel 0 (room T (fst st)) (Nat.le_0_l _)) as Hn.
        pose proof (room_bound T (fst st)) as Hrb.
        specialize (Hn ltac:(lia) (s1, snd st) H1 (le_n _)).
        pose proof (le_analyze_statement T fuel 0 (s1, snd st) H1) as Ha.
        pose proof (as_analyze_statement T fuel 0 (s1, snd st) H1 Hacc) as (S1 & S2 & S3 & S4).
        destruct (analyze_statement fuel 0 (s1, snd st)) as [[u|e l|p| |] st1] eqn:Ea; cbn [fst snd] in *.
        * assert (Hlt : loc_idx (loc (fst st)) < loc_idx (loc (fst st1))).
          { apply (lt_analyze_statement T fuel 0 (s1, snd st) u st1 H1); [|exact Ea].
            change (line_toks T (fst (s1, snd st))) with (line_toks T (fst st)).
            change (loc_idx (loc (fst (s1, snd st)))) with (loc_idx (loc (fst st))). rewrite En. discriminate. }
          assert (HW1 : WI T st1) by (destruct S1 as [A B]; split; [exact A | split; [exact S3 | left; exact B]]).
          assert (Hroom : room T (fst st1) < k).
          { pose proof (inC_room T _ HC) as R0. pose proof (inC_room T _ S1) as R1.
            assert (Hline : line_toks T (fst st1) = line_toks T (fst st)).
            { unfold line_toks. destruct Ha as (_ & Hl1 & _). rewrite Hl1. reflexivity. }
            rewrite Hline in R1. lia. }
          destruct (IH st1 HW1 Hroom) as [I1 I2]. split; [exact I1|].
          intros om st' E. destruct (I2 om st' E) as (J1 & J2 & J3). split; [exact J1|].
          destruct Ha as (_ & Hl1 & _). split; [rewrite J2; exact Hl1 | rewrite J3; exact S2].
        * split.
          { destruct (populate_error_location e l (fst st1)); [|discriminate].
            destruct (map_location_to_source m l0) as [[fl r]|]; discriminate. }
          intros om st' E.
          destruct (populate_error_location e l (fst st1)) as [l0|]; [|discriminate].
          destruct (map_location_to_source m l0) as [[fl r]|]; [|discriminate].
          injection E as <- <-. destruct S1 as [A B].
          split; [split; [exact A | split; [exact S3 | left; exact B]]|].
          destruct Ha as (_ & Hl1 & _). split; [exact Hl1 | exact S2].
        * split; [discriminate | intros; discriminate].
        * exfalso. apply Hn. reflexivity.
        * split; [discriminate | intros; discriminate].
      + split; [discriminate|]. intros om st' E. injection E as <- <-.
        split; [split; [exact HT | split; [exact Hacc | left; exact Hok]]|]. split; reflexivity.
    - rewrite (has_next_imm (fst st) Hl Hi). split; [discriminate|].
      intros om st' E. injection E as <- <-.
      split; [split; [exact HT | split; [exact Hacc | right; split; assumption]]|]. split; reflexivity.
  Qed.

  Definition ahead (s : interp) : nat :=
    match loc_line (loc s) with Some ln => later ln (st_keys s) | None => 0 end.

  Lemma walk_lines_nof : forall n msgs st,
    (forall k, In k (st_keys (fst st)) -> toks_get k T <> None) -> WI T st -> ahead (fst st) < n ->
    fst (fst (walk_lines fuel n m msgs st)) <> OutOfFuel.
  Proof.
    induction n as [|n IH]; intros msgs st HK HW Hn; [lia|]. cbn [walk_lines].
    set (stmts := S (length (match fst (cur_tokens (fst st)) with Ok ts => ts | _ => [] end))).
    assert (Hroom : room T (fst st) < stmts).
    { unfold stmts. destruct HW as (HT & _ & [Hok|[Hl Hi]]).
      - destruct Hok as (ln & ts & Hl & Hg & Hb).
        unfold cur_tokens, bind, get, tokens_for_line. cbn [fst snd]. rewrite Hl, HT, Hg. cbn [fst].
        unfold room, line_toks. rewrite Hl, Hg. lia.
      - unfold room, line_toks. rewrite Hl. cbn. lia. }
    destruct (walk_line_nof stmts st HW Hroom) as [W1 W2].
    destruct (walk_line fuel stmts m st) as [[om|e l|p| |] st'] eqn:Ew; cbn [fst snd] in *; try discriminate; [|congruence].
    destruct (W2 om st' eq_refl) as (HW' & Hline & Hkeys).
    destruct (loc_line (loc (fst st'))) as [ln|] eqn:El.
    - rewrite (next_line_eq' (fst st') ln El).
      destruct (keys_after ln (st_keys (fst st'))) as [n'|] eqn:Ek; [|discriminate].
      apply IH; cbn [fst snd].
      + intros k Hk. apply HK. rewrite <- Hkeys. exact Hk.
      + destruct HW' as (HT' & Hacc' & _). split; [exact HT' | split; [exact Hacc'|]]. left.
        assert (Hin : In n' (st_keys (fst st'))).
        { clear -Ek. induction (st_keys (fst st')) as [|k ks IHk]; cbn [keys_after] in Ek; [discriminate|].
          destruct (ln <? k)%N; [inversion Ek; left; reflexivity | right; apply IHk, Ek]. }
        rewrite Hkeys in Hin. pose proof (HK n' Hin) as Hne.
        destruct (toks_get n' T) as [ts|] eqn:Eg; [|congruence].
        exists n', ts. cbn. repeat split; try assumption. lia.
      + unfold ahead. cbn [loc set_loc loc_line st_keys].
        pose proof (keys_after_later ln _ n' Ek) as Hl.
        unfold ahead in Hn. rewrite <- Hline, <- Hkeys in Hn. lia.
    - rewrite (next_line_imm' (fst st') El). discriminate.
  Qed.
End WalkT.

(* ------------------------------------------------------------------ *)
(* the analysis as a whole *)

Definition line_bound (text : bytes) : nat := longest (st_toks (p_prog (pass1_of' text))) + max_nesting.

Theorem analysis_terminates fuel text : line_bound text < fuel -> an_result (analyze fuel text) <> OutOfFuel.
Proof.
  intros Hfuel. unfold analyze. fold (pass1_of' text).
  set (P := pass1_of' text) in *.
  assert (HPP : PP (0 + length (split_lines text)) P) by (apply PP_lines, PP_init).
  destruct HPP as [Hwf HPM _ _].
  set (T := st_toks (p_prog P)) in *.
  destruct (rffl_fields (p_prog P)) as (F1 & F2 & F3 & F4).
  set (s0 := snd (run_from_first_numbered_line (p_prog P))) in *.
  destruct (wf_store _ Hwf) as (_ & Hkeys & _).
  assert (HK : forall k, In k (st_keys (fst (s0, @nil access))) -> toks_get k T <> None).
  { cbn [fst]. intros k Hk. rewrite F2 in Hk. apply Hkeys. exact Hk. }
  assert (HW : WI T (s0, [])).
  { split; [exact F1|]. split; [constructor|]. cbn [fst]. rewrite F4.
    unfold store_first. destruct (st_keys (p_prog P)) as [|k ks] eqn:Ek; cbn [hd_error].
    - right. split; [reflexivity | exact F3].
    - left. assert (Hin : toks_get k T <> None) by (apply Hkeys; left; reflexivity).
      destruct (toks_get k T) as [ts|] eqn:Eg; [|congruence].
      exists k, ts. cbn. repeat split; try assumption. lia. }
  assert (Hahead : ahead (fst (s0, @nil access)) < S (length (st_keys s0))).
  { unfold ahead. cbn [fst]. destruct (loc_line (loc s0)); [|lia]. unfold later.
    assert (Hfl : forall (f : N -> bool) l, length (filter f l) <= length l).
    { intros f l. induction l as [|x l IHl]; cbn [filter length]; [lia|]. destruct (f x); cbn [length]; lia. }
    pose proof (Hfl (fun k => (n <? k)%N) (st_keys s0)). lia. }
  pose proof (walk_lines_nof T (p_map P) fuel Hfuel (S (length (st_keys s0))) (p_msgs P) (s0, []) HK HW Hahead) as Hn.
  destruct (walk_lines fuel (S (length (st_keys s0))) (p_map P) (p_msgs P) (s0, [])) as [[r msgs] st].
  cbn [fst] in Hn. destruct r as [u|e l|pp| |]; cbn [an_result]; try discriminate; [|congruence].
  destruct (symbol_messages (p_map P) (symbol_warnings (snd st))); discriminate.
Qed.

(* the walk answers Ok, Panic or OutOfFuel — nothing else *)
Lemma walk_lines_shape fuel m : forall n msgs st,
  match fst (fst (walk_lines fuel n m msgs st)) with Ok _ | Panic _ | OutOfFuel => True | _ => False end.
Proof.
  induction n as [|n IH]; intros msgs st; cbn [walk_lines]; [exact I|].
  destruct (walk_line fuel _ m st) as [[om|e l|p| |] st']; cbn [fst]; try exact I.
  destruct (next_line (fst st')) as [[[|]|e l|p| |] p1]; cbn [fst]; try exact I. apply IH.
Qed.

(* with enough fuel the analysis returns normally, for every text *)
Theorem analysis_total fuel text : line_bound text < fuel -> an_result (analyze fuel text) = Ok tt.
Proof.
  intros H. pose proof (analysis_terminates fuel text H) as H1.
  pose proof (analysis_never_panics fuel text) as H2.
  destruct (an_result_walk fuel text) as (n & r & msgs & st & Ew & Er).
  pose proof (walk_lines_shape fuel (p_map (pass1_of' text)) n (p_msgs (pass1_of' text))
                (snd (run_from_first_numbered_line (p_prog (pass1_of' text))), [])) as Hs.
  rewrite Ew in Hs. cbn [fst] in Hs.
  generalize dependent (an_result (analyze fuel text)). intros R H1 H2 ->.
  destruct r as [u|e l|pp| |]; try contradiction.
  - destruct (symbol_messages _ _); [reflexivity|]. exfalso. exact (H2 _ eq_refl).
  - exfalso. exact (H2 _ eq_refl).
Qed.
