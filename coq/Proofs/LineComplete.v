(* Proofs/LineComplete.v — C06, the converse clause over the analysis of a whole
   program text: an Error message that the walk of [analyze] adds comes from
   [walk_line] started at the first token of some stored line, in a checker
   state that holds the program, with no function defined (programs without
   DEF); with Proofs/LineAgree.v: if that line is straight, executing it — from
   any interpreter state that holds the program, stands at the start of that
   line, is typed and has no function defined, a fresh one included — fails. *)
From Coq Require Import List NArith ZArith Bool Lia.
From Abasic Require Import Model.Bytes Model.Num Model.Token Model.Data Model.Lexer Gen.Tables
     Model.State Model.Eval Model.Interp Model.Analyzer Proofs.Monad Proofs.Frames Proofs.StoreProofs
     Proofs.Safety Proofs.Caps Proofs.ImmFrame Proofs.AnalyzerFrame Proofs.CheckSound Proofs.CheckAgree Proofs.AnalyzerFns
     Proofs.AnalyzerSafety Proofs.AnalyzerTermination Proofs.PlainToks Proofs.ProgSound Proofs.LineAgree.
Import ListNotations.
Local Open Scope nat_scope.

Section Origin.
  Variable T : list (N * list token).
  Variable keys : list N.
  Variable m : source_map.
  Variable fuel : nat.
  Hypothesis Hfuel : longest T + max_nesting < fuel.
  Hypothesis Hsorted : keys_sorted keys.
  Hypothesis HK : forall k, In k keys -> toks_get k T <> None.
  Hypothesis Hclean : forall n ts, toks_get n T = Some ts -> nodef_line ts = true.

  (* where a message of the walk comes from *)
  Definition FromLine (msg : message) : Prop :=
    exists ln st1 stmts st1', In ln keys /\ st_toks (fst st1) = T /\ st_keys (fst st1) = keys
      /\ immediate (fst st1) = [] /\ functions (fst st1) = [] /\ loc (fst st1) = mkloc (Some ln) 0
      /\ walk_line fuel stmts m st1 = (Ok (Some msg), st1').

  Lemma walk_msg_origin : forall n msgs st r msgs' stf ln,
    WI T st -> st_keys (fst st) = keys -> immediate (fst st) = [] -> functions (fst st) = [] ->
    loc (fst st) = mkloc (Some ln) 0 -> In ln keys ->
    walk_lines fuel n m msgs st = (r, msgs', stf) ->
    forall msg, In msg msgs' -> In msg msgs \/ FromLine msg.
  Proof.
    induction n as [|n IH]; intros msgs st r msgs' stf ln HW Hk Him Hfn Hloc Hinl E msg Hin; cbn [walk_lines] in E.
    { injection E as _ <- _. left. exact Hin. }
    set (stmts := S (length (match fst (cur_tokens (fst st)) with Ok ts => ts | _ => [] end))) in *.
    assert (HT : st_toks (fst st) = T) by apply HW.
    assert (Hroom : room T (fst st) < stmts).
    { unfold stmts. destruct HW as (_ & _ & [Hok|[Hl Hi]]).
      - destruct Hok as (ln' & ts & Hl & Hg & Hb).
        unfold cur_tokens, bind, get, tokens_for_line. cbn [fst snd]. rewrite Hl, HT, Hg. cbn [fst].
        unfold room, line_toks. rewrite Hl, Hg. lia.
      - unfold room, line_toks. rewrite Hl. cbn. lia. }
    destruct (walk_line_nof T m fuel Hfuel stmts st HW Hroom) as [_ W2].
    pose proof (af_walk_line fuel m stmts st) as Haf. pose proof (fn_walk_line fuel m stmts st) as Hfns.
    destruct (walk_line fuel stmts m st) as [[om|e l|p| |] st'] eqn:Ew;
      try (injection E as _ <- _; left; exact Hin).
    destruct (W2 om st' eq_refl) as (HW' & Hline & Hkeys'). cbn [fst snd] in Haf, Hfns.
    assert (Hcs : CleanStore (fst st)) by (split; [rewrite HT; exact Hclean | exact Him]).
    destruct Haf as (A1 & A2 & A3 & _). destruct Hfns as (_ & _ & _ & F4). specialize (F4 Hcs).
    assert (Hl' : loc_line (loc (fst st')) = Some ln) by (rewrite Hline, Hloc; reflexivity).
    rewrite (next_line_eq' (fst st') ln Hl') in E. rewrite Hkeys', Hk in E.
    set (msgs1 := match om with Some msg0 => msgs ++ [msg0] | None => msgs end) in *.
    assert (H1 : forall x, In x msgs1 -> In x msgs \/ FromLine x).
    { intros x Hx. unfold msgs1 in Hx. destruct om as [msg0|]; [|left; exact Hx].
      apply in_app_or in Hx as [Hx | [<- | []]]; [left; exact Hx|]. right.
      exists ln, st, stmts, st'. repeat split; assumption. }
    pose proof (keys_after_spec ln keys Hsorted) as Hsp.
    destruct (keys_after ln keys) as [n'|] eqn:Eka.
    - destruct Hsp as (Hin' & Hlt & Hleast).
      assert (Hrec : In msg msgs1 \/ FromLine msg).
      { apply (IH msgs1 (set_loc (mkloc (Some n') 0) (fst st'), snd st') r msgs' stf n'); cbn [fst snd]; try assumption.
        + destruct HW' as (HT' & Hacc' & _). split; [exact HT' | split; [exact Hacc'|]]. left.
          pose proof (HK n' Hin') as Hne'. destruct (toks_get n' T) as [ts|] eqn:Eg; [|congruence].
          exists n', ts. cbn. repeat split; try assumption. lia.
        + destruct (fst st'); cbn in *; congruence.
        + destruct (fst st'); cbn in *; congruence.
        + destruct (fst st'); cbn in *; congruence.
        + destruct (fst st'); reflexivity. }
      destruct Hrec as [Hm | Hm]; [exact (H1 msg Hm) | right; exact Hm].
    - injection E as _ <- _. exact (H1 msg Hin).
  Qed.
End Origin.

(* the Error messages of an analysis are those of pass 1 (tokenization) and those of the walk *)
Lemma symbol_messages_no_error m : forall ws sm msg, symbol_messages m ws = Some sm -> In msg sm -> is_error_msg msg = false.
Proof.
  induction ws as [|w r IH]; intros sm msg E Hin; cbn [symbol_messages] in E.
  - injection E as <-. destruct Hin.
  - destruct (symbol_message m w) as [x|] eqn:Ex; [|discriminate E].
    destruct (symbol_messages m r) as [xs|] eqn:Exs; [|discriminate E]. injection E as <-.
    destruct Hin as [<- | Hin]; [|exact (IH xs msg eq_refl Hin)].
    unfold symbol_message in Ex. destruct w as [[sym l] unused].
    destruct (map_location_to_source m l) as [[fl ?]|]; [|discriminate Ex]. injection Ex as <-. reflexivity.
Qed.

Lemma an_walk_errors fuel text :
  exists n r msgs st,
    walk_lines fuel n (p_map (pass1_of' text)) (p_msgs (pass1_of' text))
               (snd (run_from_first_numbered_line (p_prog (pass1_of' text))), []) = (r, msgs, st)
    /\ (forall msg, In msg (an_messages (analyze fuel text)) -> is_error_msg msg = true -> In msg msgs).
Proof.
  unfold analyze. fold (pass1_of' text).
  destruct (walk_lines _ _ _ _ _) as [[r msgs] st] eqn:Ew.
  eexists _, r, msgs, st. split; [exact Ew|].
  destruct r as [[]|e l|pp| |]; cbn [an_result an_messages]; try (intros msg H _; exact H).
  destruct (symbol_messages _ _) as [sm|] eqn:Es; cbn [an_messages]; [|intros msg H _; exact H].
  intros msg H He. apply in_app_or in H as [H|H]; [exact H|].
  rewrite (symbol_messages_no_error _ _ _ _ Es H) in He. discriminate He.
Qed.

(* a walk that starts on the empty immediate line adds nothing *)
Lemma walk_lines_imm fuel m nl msgs st0 r msgs' stf :
  loc_line (loc (fst st0)) = None -> immediate (fst st0) = [] ->
  walk_lines fuel nl m msgs st0 = (r, msgs', stf) -> msgs' = msgs.
Proof.
  intros Hl Hi Ew.
  destruct nl as [|nl]; cbn [walk_lines] in Ew; [injection Ew as _ <- _; reflexivity|].
  assert (Ewl : forall k, walk_line fuel (S k) m st0
                = (Ok None, (set_reads (S (reads (fst st0))) (fst st0), snd st0))).
  { intros k. cbn [walk_line]. rewrite (has_next_imm (fst st0) Hl Hi). reflexivity. }
  rewrite Ewl in Ew. cbn [fst snd] in Ew. rewrite next_line_imm' in Ew by (destruct (fst st0); exact Hl).
  injection Ew as _ <- _. reflexivity.
Qed.

Lemma not_none_some {A} (o : option A) : o <> None -> exists x, o = Some x.
Proof. destruct o as [x|]; [exists x; reflexivity | congruence]. Qed.

(* over an abstract stored program (never unfold [analyze] in a hypothesis) *)
Lemma error_origin_gen fuel (prog : interp) (m : source_map) nl msgs0 r msgs stf :
  wf prog -> longest (st_toks prog) + max_nesting < fuel -> nodef_program (st_toks prog) ->
  walk_lines fuel nl m msgs0 (snd (run_from_first_numbered_line prog), []) = (r, msgs, stf) ->
  forall msg, In msg msgs -> In msg msgs0 \/ FromLine (st_toks prog) (st_keys prog) m fuel msg.
Proof.
  intros Hwf Hfuel Hclean Ew msg Hin.
  destruct (rffl_fields prog) as (F1 & F2 & F3 & F4).
  destruct (run_prefix_facts prog) as (s0' & E0 & G1 & _).
  assert (Es0 : snd (run_from_first_numbered_line prog) = s0') by (rewrite E0; reflexivity).
  destruct (wf_store _ Hwf) as (Hsorted & Hkeys & _).
  pose proof (store_first_spec prog (wf_store _ Hwf)) as Hfirst.
  destruct (store_first prog) as [ln0|] eqn:Ef.
  2:{ (* an empty program: the walk adds nothing *)
      left.
      rewrite (walk_lines_imm fuel m nl msgs0 (snd (run_from_first_numbered_line prog), @nil access) r msgs stf ltac:(cbn [fst]; rewrite F4; reflexivity) ltac:(cbn [fst]; exact F3) Ew) in Hin.
      exact Hin. }
  destruct Hfirst as (Hinl & Hleast).
  apply (walk_msg_origin (st_toks prog) (st_keys prog) m fuel Hfuel Hsorted
              (fun k Hk => proj1 (Hkeys k) Hk) Hclean nl msgs0
              (snd (run_from_first_numbered_line prog), []) r msgs stf ln0); cbn [fst snd]; try assumption.
  - split; [exact F1|]. split; [constructor|]. left. cbn [fst]. rewrite F4.
    pose proof (proj1 (Hkeys ln0) Hinl) as Hne.
    destruct (toks_get ln0 (st_toks prog)) as [ts|] eqn:Eg; [|congruence].
    exists ln0, ts. cbn [loc_line loc_idx]. repeat split; try assumption. lia.
  - rewrite Es0. exact G1.
Qed.

Lemma reported_error_gen fuel (prog : interp) (m : source_map) nl msgs0 r msgs stf :
  wf prog -> longest (st_toks prog) + max_nesting < fuel -> nodef_program (st_toks prog) ->
  walk_lines fuel nl m msgs0 (snd (run_from_first_numbered_line prog), []) = (r, msgs, stf) ->
  forall msg, In msg msgs ->
  In msg msgs0
  \/ exists ln ts, toks_get ln (st_toks prog) = Some ts
       /\ (straight_line ts = true ->
           forall fi s, st_toks s = st_toks prog -> st_keys s = st_keys prog ->
             immediate s = [] -> loc s = mkloc (Some ln) 0 -> caps_inv s -> functions s = [] ->
             (~ exists s', LineRun fi s s') /\ ~ HostLine fi s).
Proof.
  intros Hwf Hfuel Hclean Ew msg Hin.
  destruct (wf_store _ Hwf) as (_ & Hkeys & _).
  destruct (error_origin_gen fuel prog m nl msgs0 r msgs stf Hwf Hfuel Hclean Ew msg Hin) as [Hp | Horig]; [left; exact Hp|].
  right. destruct Horig as (ln & st1 & stmts & st1' & Hk & O1 & O2 & O3 & O4 & O5 & Ewl).
  pose proof (proj1 (Hkeys ln) Hk) as Hne.
  destruct (not_none_some _ Hne) as [ts Eg].
  exists ln, ts. split; [exact Eg|].
  intros Hst fi s S1 S2 S3 S4 S5 S6.
  destruct st1 as [sa1 acc1]. cbn [fst] in *.
  assert (HR : R s sa1).
  { split; [repeat split; congruence|]. split; [exact S5|]. split; assumption. }
  assert (Hcl : straight_line (cur_line s) = true).
  { unfold cur_line. rewrite S4. cbn [loc_line]. rewrite S1, Eg. exact Hst. }
  split; [exact (straight_line_error_fails fi fuel stmts m s sa1 acc1 msg st1' HR Hcl Ewl)
         | exact (host_line_error_fails fi fuel stmts m s sa1 acc1 msg st1' HR Hcl Ewl)].
Qed.

(* THE CONVERSE CLAUSE over the analysis of a program text without DEF *)
Theorem reported_error_means_failure fuel text :
  line_bound text < fuel ->
  nodef_program (st_toks (p_prog (pass1_of' text))) ->
  forall msg, In msg (an_messages (analyze fuel text)) -> is_error_msg msg = true ->
  In msg (p_msgs (pass1_of' text))              (* a tokenization error: the line was never stored *)
  \/ exists ln ts, toks_get ln (st_toks (p_prog (pass1_of' text))) = Some ts
       /\ (straight_line ts = true ->
           forall fi s, st_toks s = st_toks (p_prog (pass1_of' text)) -> st_keys s = st_keys (p_prog (pass1_of' text)) ->
             immediate s = [] -> loc s = mkloc (Some ln) 0 -> caps_inv s -> functions s = [] ->
             (~ exists s', LineRun fi s s') /\ ~ HostLine fi s).
Proof.
  intros Hfuel Hclean msg Hin Herr.
  destruct (an_walk_errors fuel text) as (nl & r & msgs & stf & Ew & Hrev).
  assert (HPP : PP (0 + length (split_lines text)) (pass1_of' text)) by (apply PP_lines, PP_init).
  destruct HPP as [Hwf _ _ _].
  exact (reported_error_gen fuel (p_prog (pass1_of' text)) (p_map (pass1_of' text)) nl (p_msgs (pass1_of' text)) r msgs stf
           Hwf Hfuel Hclean Ew msg (Hrev msg Hin Herr)).
Qed.
