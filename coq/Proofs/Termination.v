(* Proofs/Termination.v — C09 / C01: every host call hands control back.

   The interpreter's loops (operator tiers, subscript lists, PRINT items, READ
   targets, the IF scan, DEF parameters and the DEF body skip) and its
   recursion (parentheses, user-function bodies, nested IFs) are modelled with
   fuel.  "The call returns" is, in the model, "the fuel suffices": for every
   well-formed state (every reachable state is: C01) and fuel above a bound
   that depends only on the longest token list the cursor can be on — the
   stored lines and the immediate line — and the fixed nesting cap, a host
   call never answers OutOfFuel.

   Facts used: an evaluator never moves the cursor backwards on its line and
   returns to its line after a user-function call (Safety.ER); the immediate
   line only shrinks (ImmFrame.IM); an expression that succeeds consumes a
   token; every loop iteration that continues consumes a token; every level of
   recursion costs one unit of fuel and there are at most max_nesting levels
   (the nesting counter is shared by parentheses, function bodies and IFs). *)
From Coq Require Import List NArith ZArith Bool Lia.
From Abasic Require Import Model.Bytes Model.Num Model.Token Model.Data Model.Lexer Gen.Tables
     Model.State Model.Eval Model.Interp Proofs.Monad Proofs.Frames Proofs.ImmFrame Proofs.StoreProofs Proofs.Safety.
Import ListNotations.
Local Open Scope nat_scope.

(* ------------------------------------------------------------------ *)
(* 1. code without loops never starves *)

Definition nofR {A} (m : M A) : Prop := forall s, fst (m s) <> OutOfFuel.

Lemma nofR_ret {A} (a : A) : nofR (ret a). Proof. intros s; discriminate. Qed.
Lemma nofR_fail {A} e : nofR (@fail A e). Proof. intros s; discriminate. Qed.
Lemma nofR_fail_at {A} e l : nofR (@fail_at A e l). Proof. intros s; discriminate. Qed.
Lemma nofR_panic {A} p : nofR (@panic A p). Proof. intros s; discriminate. Qed.
Lemma nofR_oracle_miss {A} : nofR (@oracle_miss A). Proof. intros s; discriminate. Qed.
Lemma nofR_get {A} (f : interp -> A) : nofR (get f). Proof. intros s; discriminate. Qed.
Lemma nofR_modify f : nofR (modify f). Proof. intros s; discriminate. Qed.
Lemma nofR_lift_res {A} (r : res A) : r <> OutOfFuel -> nofR (lift_res r).
Proof. intros H s. unfold lift_res. exact H. Qed.
Lemma nofR_bind {A B} (m : M A) (f : A -> M B) : nofR m -> (forall a, nofR (f a)) -> nofR (bind m f).
Proof.
  intros Hm Hf s. unfold bind. specialize (Hm s).
  destruct (m s) as [[a|e l|p| |] s1]; cbn [fst] in *; try discriminate; [apply Hf | congruence].
Qed.

Ltac nofr_step leaf :=
  first
    [ apply nofR_ret | apply nofR_fail | apply nofR_fail_at | apply nofR_panic | apply nofR_oracle_miss
    | apply nofR_get | apply nofR_modify
    | solve [leaf]
    | apply nofR_bind; [| intro]
    | match goal with
      | |- nofR (match ?x with _ => _ end) => destruct x
      | |- nofR (if ?b then _ else _) => destruct b
      | |- nofR (let '(_, _) := ?x in _) => destruct x
      end
    | (intros ?s0; discriminate) ].
Ltac nofr_walk leaf := repeat (nofr_step leaf).
Ltac nofr0 := fail.

Lemma nofR_tokens_for_line l : nofR (tokens_for_line l).
Proof. intros s. unfold tokens_for_line. destruct l as [n|]; [destruct (toks_get n (st_toks s))|]; discriminate. Qed.

Ltac nl1 := first [ apply nofR_tokens_for_line ].
Ltac w1 := autounfold with prims; nofr_walk nl1.

Lemma nofR_peek : nofR peek_next_token. Proof. w1. Qed.
Lemma nofR_has_next : nofR has_next_token. Proof. w1. Qed.
Lemma nofR_next_token : nofR next_token. Proof. w1. Qed.
Lemma nofR_next_unwrapped : nofR next_unwrapped_token. Proof. w1. Qed.
Lemma nofR_expect t : nofR (expect_next_token t). Proof. w1. Qed.
Lemma nofR_accept t : nofR (accept_next_token t). Proof. w1. Qed.
Lemma nofR_peek_is t : nofR (peek_is t). Proof. w1. Qed.
Lemma nofR_try {B} (g : token -> option B) : nofR (try_next_token g). Proof. w1. Qed.
Lemma nofR_discard : nofR discard_remaining_tokens. Proof. w1. Qed.
Lemma nofR_rewind_loop i t : nofR (rewind_loop i t).
Proof. induction i as [|i IH]; cbn [rewind_loop]; autounfold with prims; nofr_walk ltac:(first [apply IH | nl1]). Qed.
Ltac nl2 := first [ apply nofR_rewind_loop | nl1 ].
Ltac w2 := autounfold with prims; nofr_walk nl2.
Lemma nofR_rewind t : nofR (rewind_before_token t). Proof. w2. Qed.
Lemma nofR_set_imm ts : nofR (set_and_goto_immediate_line ts). Proof. w2. Qed.
Lemma nofR_remove_loop sym : nofR (remove_loop_with_name sym). Proof. w2. Qed.
Lemma nofR_program_break : nofR program_break_at_current_location. Proof. w2. Qed.
Lemma nofR_continue_bp : nofR continue_from_breakpoint. Proof. w2. Qed.
Lemma nofR_variables_set n v : nofR (variables_set n v). Proof. w2. Qed.
Lemma nofR_variables_get n : nofR (variables_get n). Proof. w2. Qed.
Lemma nofR_start_loop sym a b c : nofR (start_loop sym a b c). Proof. w2. Qed.
Lemma nofR_end_loop sym : nofR (end_loop sym). Proof. w2. Qed.
Lemma nofR_reset_data : nofR reset_data_cursor. Proof. w2. Qed.
Lemma nofR_program_end : nofR program_end. Proof. w2. Qed.
Lemma nofR_reset_runtime : nofR reset_runtime_state. Proof. w2. Qed.
Lemma nofR_run_from_first : nofR run_from_first_numbered_line. Proof. w2. Qed.
Lemma nofR_goto n : nofR (goto_line_number n). Proof. w2. Qed.
Lemma nofR_gosub n : nofR (gosub_line_number n). Proof. w2. Qed.
Lemma nofR_return : nofR return_to_last_gosub. Proof. w2. Qed.
Lemma nofR_define_function n a : nofR (define_function n a). Proof. w2. Qed.
Lemma nofR_push_fn n b : nofR (push_function_call n b). Proof. w2. Qed.
Lemma nofR_pop_fn : nofR pop_function_call. Proof. w2. Qed.
Lemma nofR_find_var n : nofR (find_variable_value_in_stack n). Proof. w2. Qed.
Lemma nofR_next_line : nofR next_line. Proof. w2. Qed.
Lemma nofR_push_output o : nofR (push_output o). Proof. w2. Qed.
Lemma nofR_warn m : nofR (warn m). Proof. w2. Qed.
Lemma nofR_maybe_warn n : nofR (maybe_warn_undeclared_array n). Proof. w2. Qed.
Lemma nofR_rng_rnd x : nofR (rng_rnd x). Proof. w2. Qed.
Lemma nofR_get_line_number : nofR get_line_number. Proof. w2. Qed.
Lemma nofR_is_else : nofR is_else_of_then_clause. Proof. w2. Qed.

Lemma acv_nof name mi : array_create_value name mi <> OutOfFuel.
Proof.
  unfold array_create_value. destruct mi; [discriminate|].
  destruct (existsb _ _); [discriminate|]. destruct (checked_product _ _); [|discriminate].
  destruct (max_dim_total <? _)%N; discriminate.
Qed.
Lemma ali_nof a idx : array_linear_index a idx <> OutOfFuel.
Proof. unfold array_linear_index. destruct (negb _); [discriminate|]. destruct (linear_index _ _ _ _); discriminate. Qed.
Lemma cd_nof n e : coerce_data n e <> OutOfFuel.
Proof. unfold coerce_data. destruct (ends_with_dollar n); destruct e; discriminate. Qed.

Ltac nl3 := first [ apply nofR_lift_res; first [apply acv_nof | apply ali_nof | apply cd_nof] | nl2 ].
Ltac w3 := autounfold with prims; nofr_walk nl3.

Lemma nofR_arrays_create n i : nofR (arrays_create n i). Proof. w3. Qed.
Lemma nofR_maybe_default n d : nofR (maybe_create_default_array n d). Proof. w3. Qed.
Lemma nofR_arrays_get n i : nofR (arrays_get n i). Proof. w3. Qed.
Lemma nofR_arrays_set n i v : nofR (arrays_set n i v). Proof. w3. Qed.
Lemma nofR_next_data : nofR next_data_element.
Proof.
  intros s. unfold next_data_element.
  destruct (data_it s) as [d|].
  - destruct (data_next _ d); discriminate.
  - destruct (data_chunks (st_keys s) (st_toks s)); try discriminate. destruct (data_next _ _); discriminate.
Qed.
Lemma nofR_eval_unary o v : nofR (eval_unary o v). Proof. unfold eval_unary; w3. Qed.
Lemma nofR_eval_addsub o a b : nofR (eval_addsub o a b). Proof. unfold eval_addsub; w3. Qed.
Lemma nofR_eval_muldiv o a b : nofR (eval_muldiv o a b). Proof. unfold eval_muldiv; w3. Qed.
Lemma nofR_eval_eq o a b : nofR (eval_eq o a b). Proof. unfold eval_eq; w3. Qed.
Lemma nofR_eval_and a b : nofR (eval_and a b). Proof. unfold eval_and; w3. Qed.
Lemma nofR_eval_or a b : nofR (eval_or a b). Proof. unfold eval_or; w3. Qed.
Lemma nofR_eval_pow a b : nofR (eval_pow a b). Proof. unfold eval_pow; w3. Qed.
Lemma nofR_expect_number v : nofR (expect_number v). Proof. unfold expect_number; w3. Qed.
Lemma nofR_take_input : nofR take_input. Proof. unfold take_input; w3. Qed.
Lemma nofR_await : nofR rewind_program_and_await_input. Proof. unfold rewind_program_and_await_input; w3. Qed.
Lemma nofR_break : nofR break_at_current_location. Proof. unfold break_at_current_location; w3. Qed.
Lemma nofR_accept_as {O} t (o : O) : nofR (accept_as t o). Proof. unfold accept_as; w3. Qed.

Ltac nl4 :=
  first [ apply nofR_expect_number | apply nofR_next_data | apply nofR_rewind | apply nofR_set_imm | apply nofR_remove_loop
        | apply nofR_program_break | apply nofR_continue_bp | apply nofR_variables_set | apply nofR_variables_get
        | apply nofR_start_loop | apply nofR_end_loop | apply nofR_reset_data | apply nofR_program_end
        | apply nofR_reset_runtime | apply nofR_run_from_first | apply nofR_goto | apply nofR_gosub | apply nofR_return
        | apply nofR_define_function | apply nofR_push_fn | apply nofR_pop_fn | apply nofR_find_var | apply nofR_next_line
        | apply nofR_arrays_create | apply nofR_maybe_default | apply nofR_arrays_get | apply nofR_arrays_set
        | apply nofR_rng_rnd | apply nofR_push_output | apply nofR_warn | apply nofR_maybe_warn
        | apply nofR_peek | apply nofR_has_next | apply nofR_next_token | apply nofR_next_unwrapped | apply nofR_expect
        | apply nofR_accept | apply nofR_peek_is | apply nofR_try | apply nofR_discard | apply nofR_get_line_number
        | apply nofR_is_else | apply nofR_eval_unary | apply nofR_eval_addsub | apply nofR_eval_muldiv | apply nofR_eval_eq
        | apply nofR_eval_and | apply nofR_eval_or | apply nofR_eval_pow | apply nofR_take_input | apply nofR_await
        | apply nofR_break | apply nofR_accept_as | nl3 ].

(* ------------------------------------------------------------------ *)
(* 2. the bound, the room left on the line, and what a step preserves *)

Fixpoint longest (T : list (N * list token)) : nat :=
  match T with [] => 0 | (_, ts) :: r => Nat.max (length ts) (longest r) end.

Lemma longest_bound T : forall n ts, toks_get n T = Some ts -> length ts <= longest T.
Proof.
  induction T as [|[k v] T IH]; intros n ts H; [discriminate|]. cbn [toks_get longest] in *.
  destruct (k =? n)%N; [inversion H; subst; lia|]. pose proof (IH n ts H). lia.
Qed.

(* the longest token list the cursor can be on *)
Definition lim (s : interp) : nat := Nat.max (longest (st_toks s)) (length (immediate s)).

Definition room (s : interp) : nat := length (cur_toks s) - loc_idx (loc s).

Lemma room_lim s : room s <= lim s.
Proof.
  unfold room, lim, cur_toks. destruct (loc_line (loc s)) as [n|]; [|lia].
  destruct (toks_get n (st_toks s)) as [ts|] eqn:E; [pose proof (longest_bound _ n ts E); lia | cbn; lia].
Qed.

(* [T g m]: from a well-formed state whose lines are no longer than [g], [m]
   does not starve, and a normal return leaves such a state again *)
Definition T {A} (g : nat) (m : M A) : Prop :=
  forall s, wf s -> lim s <= g ->
    fst (m s) <> OutOfFuel /\ (forall a, fst (m s) = Ok a -> wf (snd (m s)) /\ lim (snd (m s)) <= lim s).

Lemma T_intro {A} g (m : M A) :
  (forall s, wf s -> lim s <= g -> fst (m s) <> OutOfFuel) -> orel SRw m -> mrel IM m -> T g m.
Proof.
  intros H1 H2 H3 s Hwf Hg. split; [apply H1; assumption|]. intros a Ha.
  destruct (H2 s Hwf) as [A1 A2 _ _ _]. split; [exact A1|].
  pose proof (H3 s) as HI. unfold IM in HI. unfold lim. rewrite A2. lia.
Qed.

Lemma T_prim {A} g (m : M A) : nofR m -> orel SRw m -> mrel IM m -> T g m.
Proof. intros H1. apply T_intro. intros s _ _. apply H1. Qed.

Lemma T_ret {A} g (a : A) : T g (ret a).
Proof. intros s Hwf Hg. split; [discriminate|]. intros _ _. split; [exact Hwf | apply le_n]. Qed.
Lemma T_fail {A} g e : T g (@fail A e).
Proof. intros s Hwf Hg. split; [discriminate|]. intros a H; discriminate. Qed.
Lemma T_fail_at {A} g e l : T g (@fail_at A e l).
Proof. intros s Hwf Hg. split; [discriminate|]. intros a H; discriminate. Qed.
Lemma T_panic {A} g p : T g (@panic A p).
Proof. intros s Hwf Hg. split; [discriminate|]. intros a H; discriminate. Qed.
Lemma T_oracle_miss {A} g : T g (@oracle_miss A).
Proof. intros s Hwf Hg. split; [discriminate|]. intros a H; discriminate. Qed.
Lemma T_get {A} g (f : interp -> A) : T g (get f).
Proof. intros s Hwf Hg. split; [discriminate|]. intros _ _. split; [exact Hwf | apply le_n]. Qed.
Lemma T_lift_res {A} g (r : res A) : r <> OutOfFuel -> T g (lift_res r).
Proof. intros H s Hwf Hg. split; [exact H|]. intros _ _. split; [exact Hwf | apply le_n]. Qed.

Lemma T_bind {A B} g (m : M A) (f : A -> M B) : T g m -> (forall a, T g (f a)) -> T g (bind m f).
Proof.
  intros Hm Hf s Hwf Hg. unfold bind. destruct (Hm s Hwf Hg) as [H1 H2].
  destruct (m s) as [[a|e l|p| |] s1]; cbn [fst snd] in *; try (split; [discriminate | intros b Hb; discriminate]); [|congruence].
  destruct (H2 a eq_refl) as [Hwf1 Hl1].
  destruct (Hf a s1 Hwf1 ltac:(lia)) as [H3 H4]. split; [exact H3|].
  intros b Hb. destruct (H4 b Hb) as [H5 H6]. split; [exact H5 | lia].
Qed.

Lemma T_weaken {A} g g' (m : M A) : g' <= g -> T g m -> T g' m.
Proof. intros Hg Hm s Hwf Hl. apply Hm; [exact Hwf | lia]. Qed.

(* ------------------------------------------------------------------ *)
(* 3. the primitives *)

Ltac er_any :=
  first [ apply er_peek | apply er_cur_tokens | apply er_advance | apply er_has_next | apply er_next_token
        | apply er_next_unwrapped | apply er_expect | apply er_accept | apply er_peek_is | apply er_try
        | apply er_find_var | apply er_variables_get | apply er_push_output | apply er_get_line_number
        | apply er_warn | apply er_maybe_warn | apply er_rng_rnd | apply er_eval_unary | apply er_eval_addsub
        | apply er_eval_muldiv | apply er_eval_eq | apply er_eval_and | apply er_eval_or | apply er_eval_pow
        | apply er_expect_number | apply er_maybe_default | apply er_arrays_get | apply er_arrays_set
        | apply er_arrays_create | apply er_take_input | apply er_is_else | apply er_variables_set ].
Ltac sr_any :=
  first [ apply sr_of_er; er_any
        | apply sr_set_imm | apply sr_program_end | apply sr_reset_data | apply sr_discard | apply sr_variables_set
        | apply sr_remove_loop | apply sr_start_loop | apply sr_end_loop | apply sr_goto | apply sr_gosub | apply sr_return
        | apply sr_define_function | apply sr_program_break | apply sr_next_line | apply sr_next_data
        | apply sr_lift_coerce ].
Ltac imm_any :=
  first [ apply imm_peek | apply imm_has_next | apply imm_next_token | apply imm_next_unwrapped | apply imm_expect
        | apply imm_accept | apply imm_peek_is | apply imm_try | apply imm_discard | apply imm_rewind | apply imm_set_imm
        | apply imm_remove_loop | apply imm_program_break | apply imm_variables_set | apply imm_variables_get
        | apply imm_start_loop | apply imm_end_loop | apply imm_reset_data | apply imm_program_end | apply imm_goto
        | apply imm_gosub | apply imm_return | apply imm_define_function | apply imm_find_var | apply imm_next_line
        | apply imm_arrays_create | apply imm_maybe_default | apply imm_arrays_get | apply imm_arrays_set
        | apply imm_rng_rnd | apply imm_push_output | apply imm_warn | apply imm_maybe_warn | apply imm_next_data
        | apply imm_eval_unary | apply imm_eval_addsub | apply imm_eval_muldiv | apply imm_eval_eq | apply imm_eval_and
        | apply imm_eval_or | apply imm_eval_pow | apply imm_expect_number | apply imm_take_input
        | apply (mrel_lift_res _ IM_preorder) | apply (mrel_get _ IM_preorder) ].

Ltac T_prim_leaf := apply T_prim; [ solve [nl4] | solve [sr_any] | solve [imm_any] ].

Ltac T_step leaf :=
  first
    [ apply T_ret | apply T_fail | apply T_fail_at | apply T_panic | apply T_oracle_miss | apply T_get
    | solve [leaf]
    | T_prim_leaf
    | apply T_bind; [| intro]
    | match goal with
      | |- T _ (match ?x with _ => _ end) => destruct x
      | |- T _ (if ?b then _ else _) => destruct b
      | |- T _ (let '(_, _) := ?x in _) => destruct x
      end ].
Ltac T_walk leaf := repeat (T_step leaf).

(* cursor operations: what they return, where they leave the cursor *)
Lemma next_token_w s : wf s ->
  next_token s = match nth_error (cur_toks s) (loc_idx (loc s)) with
                 | Some t => (Ok (Some t), set_loc (mkloc (loc_line (loc s)) (S (loc_idx (loc s)))) (bump s))
                 | None => (Ok None, bump s)
                 end.
Proof.
  intros Hwf. unfold next_token. rewrite Safety.bind_run, (peek_eq s (wf_loc _ Hwf)).
  destruct (nth_error (cur_toks s) (loc_idx (loc s))); reflexivity.
Qed.

Lemma accept_w t s : wf s ->
  accept_next_token t s =
  match nth_error (cur_toks s) (loc_idx (loc s)) with
  | Some t' => if token_eqb t' t
               then (Ok true, set_loc (mkloc (loc_line (loc s)) (S (loc_idx (loc s)))) (bump s))
               else (Ok false, bump s)
  | None => (Ok false, bump s)
  end.
Proof.
  intros Hwf. unfold accept_next_token. rewrite Safety.bind_run, (peek_eq s (wf_loc _ Hwf)).
  destruct (nth_error (cur_toks s) (loc_idx (loc s))) as [t'|]; [destruct (token_eqb t' t)|]; reflexivity.
Qed.

Lemma try_w {B} (g : token -> option B) s : wf s ->
  try_next_token g s =
  match nth_error (cur_toks s) (loc_idx (loc s)) with
  | Some t' => match g t' with
               | Some b => (Ok (Some b), set_loc (mkloc (loc_line (loc s)) (S (loc_idx (loc s)))) (bump s))
               | None => (Ok None, bump s)
               end
  | None => (Ok None, bump s)
  end.
Proof.
  intros Hwf. unfold try_next_token. rewrite Safety.bind_run, (peek_eq s (wf_loc _ Hwf)).
  destruct (nth_error (cur_toks s) (loc_idx (loc s))) as [t'|]; [destruct (g t')|]; reflexivity.
Qed.

Lemma room_step s t : nth_error (cur_toks s) (loc_idx (loc s)) = Some t ->
  room (set_loc (mkloc (loc_line (loc s)) (S (loc_idx (loc s)))) (bump s)) < room s.
Proof.
  intros H. assert (Hlt : loc_idx (loc s) < length (cur_toks s)) by (apply nth_error_Some; congruence).
  unfold room. change (cur_toks (set_loc _ (bump s))) with (cur_toks s). cbn [loc set_loc loc_idx]. lia.
Qed.

(* an evaluator that succeeds leaves the cursor on its line, not before where it was *)
Lemma er_ok {A} (m : M A) s a s' : orel ERw m -> wf s -> m s = (Ok a, s') ->
  wf s' /\ cur_toks s' = cur_toks s /\ loc_idx (loc s) <= loc_idx (loc s') /\ lim s' = lim s.
Proof.
  intros Hm Hwf E. pose proof (Hm s Hwf) as H. rewrite E in H. cbn [fst snd forget] in H.
  destruct H as [A1 A2 A3 A4 A5 A6 A7 A8 A9]. destruct (A9 eq_refl) as [B1 B2].
  split; [exact A1|]. split; [unfold cur_toks; rewrite B1, A2, A4; reflexivity|]. split; [exact B2|].
  unfold lim. rewrite A2, A4. reflexivity.
Qed.

Lemma er_room {A} (m : M A) s a s' : orel ERw m -> wf s -> m s = (Ok a, s') -> room s' <= room s.
Proof. intros Hm Hwf E. destruct (er_ok m s a s' Hm Hwf E) as (_ & Hc & Hi & _). unfold room. rewrite Hc. lia. Qed.

(* ------------------------------------------------------------------ *)
(* 4. loops *)

Lemma T_repeat {S R} g (body : S -> M (S + R)) :
  (forall acc, T g (body acc)) ->
  (forall acc s acc' s', wf s -> body acc s = (Ok (inl acc'), s') -> room s' < room s) ->
  forall k acc s, wf s -> lim s <= g -> room s < k ->
    fst (repeat_m k body acc s) <> OutOfFuel
    /\ (forall r, fst (repeat_m k body acc s) = Ok r ->
          wf (snd (repeat_m k body acc s)) /\ lim (snd (repeat_m k body acc s)) <= lim s).
Proof.
  intros HT Hlt. induction k as [|k IH]; intros acc s Hwf Hg Hk; [lia|].
  cbn [repeat_m]. unfold bind.
  destruct (HT acc s Hwf Hg) as [H1 H2].
  destruct (body acc s) as [[[acc'|r]|e l|p| |] s1] eqn:Eb; cbn [fst snd] in *;
    try (split; [discriminate | intros r0 Hr0; discriminate]); [| |congruence].
  - destruct (H2 _ eq_refl) as [Hwf1 Hl1]. pose proof (Hlt acc s acc' s1 Hwf Eb) as Hr.
    destruct (IH acc' s1 Hwf1 ltac:(lia) ltac:(lia)) as [I1 I2]. split; [exact I1|].
    intros r Hr0. destruct (I2 r Hr0) as [J1 J2]. split; [exact J1 | lia].
  - destruct (H2 _ eq_refl) as [Hwf1 Hl1]. split; [discriminate|]. intros r0 _. split; assumption.
Qed.

(* as a T-fact, for a loop run with more fuel than the longest line *)
Lemma T_loop {S R} g k (body : S -> M (S + R)) acc :
  g < k -> (forall acc, T g (body acc)) ->
  (forall acc s acc' s', wf s -> body acc s = (Ok (inl acc'), s') -> room s' < room s) ->
  T g (repeat_m k body acc).
Proof.
  intros Hk HT Hlt s Hwf Hg. pose proof (room_lim s) as Hr.
  apply (T_repeat g body HT Hlt k acc s Hwf Hg). lia.
Qed.

(* ------------------------------------------------------------------ *)
(* 5. expressions *)

Lemma T_intro_er {A} g (m : M A) :
  (forall s, wf s -> lim s <= g -> fst (m s) <> OutOfFuel) -> orel ERw m -> T g m.
Proof.
  intros H1 H2 s Hwf Hg. split; [apply H1; assumption|]. intros a Ha.
  destruct (m s) as [r s'] eqn:E. cbn [fst snd] in *. subst r.
  destruct (er_ok m s a s' H2 Hwf E) as (A1 & _ & _ & A4). split; [exact A1 | lia].
Qed.

Definition consumes {A} (m : M A) : Prop := forall s a s', wf s -> m s = (Ok a, s') -> room s' < room s.

Lemma bind_assoc_t {A B C} (m : M A) (f : A -> M B) (g : B -> M C) s :
  bind (bind m f) g s = bind m (fun a => bind (f a) g) s.
Proof. unfold bind; destruct (m s) as [[a| | | |] s1]; reflexivity. Qed.

Lemma bind_ok_inv {A B} (m : M A) (f : A -> M B) s b s' :
  bind m f s = (Ok b, s') -> exists a s1, m s = (Ok a, s1) /\ f a s1 = (Ok b, s').
Proof. unfold bind. destruct (m s) as [[a| | | |] s1]; try discriminate. intros H. exists a, s1. split; [reflexivity | exact H]. Qed.

Lemma consumes_bind_l {A B} (m : M A) (f : A -> M B) :
  consumes m -> orel ERw m -> (forall a, orel ERw (f a)) -> consumes (bind m f).
Proof.
  intros Hc Hm Hf s b s' Hwf E. destruct (bind_ok_inv _ _ _ _ _ E) as (a & s1 & E1 & E2).
  pose proof (Hc s a s1 Hwf E1) as H1. destruct (er_ok m s a s1 Hm Hwf E1) as (Hwf1 & _).
  pose proof (er_room (f a) s1 b s' (Hf a) Hwf1 E2). lia.
Qed.

Lemma consumes_bind_r {A B} (m : M A) (f : A -> M B) :
  orel ERw m -> (forall a, consumes (f a)) -> consumes (bind m f).
Proof.
  intros Hm Hf s b s' Hwf E. destruct (bind_ok_inv _ _ _ _ _ E) as (a & s1 & E1 & E2).
  destruct (er_ok m s a s1 Hm Hwf E1) as (Hwf1 & _). pose proof (er_room m s a s1 Hm Hwf E1).
  pose proof (Hf a s1 b s' Hwf1 E2). lia.
Qed.

Lemma consumes_next_unwrapped : consumes next_unwrapped_token.
Proof.
  intros s t s' Hwf E. unfold next_unwrapped_token in E. rewrite Safety.bind_run, (next_token_w s Hwf) in E.
  destruct (nth_error (cur_toks s) (loc_idx (loc s))) as [t0|] eqn:En.
  - cbn in E. inversion E; subst. apply (room_step s _ En).
  - cbn in E. unfold bind, get, fail_at in E. cbn in E. discriminate.
Qed.

Section ExprT.
  Variable fuel g : nat.
  Variable rec : M value.
  Hypothesis Her : orel ERw rec.
  Hypothesis Him : mrel IM rec.
  Hypothesis HT : T g rec.
  Hypothesis Hg : g < fuel.

  Ltac er_leafs :=
    first [ er_any | exact Her | apply er_function_call; exact Her | apply er_array_index; exact Her
          | apply er_unary_arg; exact Her | apply er_bind_arguments; exact Her | apply er_user_function_call; exact Her
          | apply er_unary; exact Her | apply er_accept_as ].
  Ltac erw := orel_walk ERw_ocat er_leafs.
  Ltac leaf := first [ exact HT ].

  Lemma T_bind_arguments args : forall i n b, T g (bind_arguments rec args i n b).
  Proof. induction args as [|a args IH]; intros i n b; cbn [bind_arguments]; T_walk ltac:(first [apply IH | leaf]). Qed.

  (* a user-function call: the body is evaluated on the DEF line, with the
     callee frame on the stack; the lines are the same lines *)
  Lemma T_user_function_call name : T g (user_function_call rec name).
  Proof.
    apply T_intro_er; [|apply er_user_function_call; exact Her].
    intros s Hwf Hl. unfold user_function_call. rewrite bind_get.
    destruct (alist_get name (functions s)) as [d|] eqn:Hd; [|discriminate].
    (* the prefix: ( args ) *)
    set (pre := expect_next_token TLeftParen ;;;
                bindings <- bind_arguments rec (fn_args d) 0 (length (fn_args d)) [] ;;
                expect_next_token TRightParen ;;; ret bindings).
    assert (Hpre_er : orel ERw pre) by (unfold pre; erw).
    assert (Hpre_T : T g pre) by (unfold pre; T_walk ltac:(first [apply T_bind_arguments | leaf])).
    assert (Heq : forall s0, (expect_next_token TLeftParen ;;;
                   bindings <- bind_arguments rec (fn_args d) 0 (length (fn_args d)) [] ;;
                   expect_next_token TRightParen ;;;
                   push_function_call name bindings ;;; v <- call_body rec ;; ret (Some v)) s0
                 = (bindings <- pre ;; push_function_call name bindings ;;; v <- call_body rec ;; ret (Some v)) s0).
    { intros s0. unfold pre, bind.
      destruct (expect_next_token TLeftParen s0) as [[[]| | | |] s1]; try reflexivity.
      destruct (bind_arguments rec (fn_args d) 0 (length (fn_args d)) [] s1) as [[b| | | |] s2]; try reflexivity.
      destruct (expect_next_token TRightParen s2) as [[[]| | | |] s3]; reflexivity. }
    rewrite Heq. clear Heq.
    destruct (Hpre_T s Hwf Hl) as [P1 P2]. rewrite Safety.bind_run.
    destruct (pre s) as [[b|e l|p| |] s1] eqn:Ep; cbn [fst snd] in *; try discriminate; [|congruence].
    destruct (P2 b eq_refl) as [Hwf1 Hl1].
    assert (Hd1 : alist_get name (functions s1) = Some d).
    { pose proof (Hpre_er s Hwf) as H. rewrite Ep in H. cbn [fst snd forget] in H. destruct H as [_ _ _ _ A5 _ _ _ _].
      rewrite A5. exact Hd. }
    rewrite Safety.bind_run, (push_eq name b s1 d Hd1).
    destruct (Nat.eqb (length (stack s1)) stack_limit); [discriminate|].
    assert (Hfn : toks_get (fn_line d) (st_toks s1) <> None).
    { destruct (Forall_alist_get _ _ _ _ (wf_fns _ Hwf1) Hd1) as [k H]. exact H. }
    set (s2 := set_loc _ _).
    assert (Hwf2 : wf s2).
    { apply wf_set_loc; [apply wf_set_stack; [exact Hwf1|]|exact Hfn].
      apply Forall_app; split; [exact (wf_stack _ Hwf1)|]. constructor; [exact (wf_loc _ Hwf1)|constructor]. }
    assert (Hl2 : lim s2 <= g) by (change (lim s2) with (lim s1); lia).
    rewrite Safety.bind_run. unfold call_body.
    destruct (HT s2 Hwf2 Hl2) as [R1 _].
    destruct (rec s2) as [[v|e l|p| |] s3]; cbn [fst snd] in *; try discriminate; [| |congruence].
    - pose proof (nofR_pop_fn s3) as Hp. destruct (pop_function_call s3) as [[u|e l|p| |] s4]; cbn [fst] in *; try discriminate; congruence.
    - pose proof (nofR_pop_fn s3) as Hp. destruct (pop_function_call s3) as [[u|e2 l2|p| |] s4]; cbn [fst] in *; try discriminate; congruence.
  Qed.

  Lemma T_array_index : T g (evaluate_array_index fuel rec).
  Proof.
    unfold evaluate_array_index. apply T_bind; [T_prim_leaf | intros _].
    apply T_bind; [| intro; T_walk leaf].
    apply T_loop; [exact Hg | intro; T_walk leaf |].
    intros acc s acc' s' Hwf E.
    destruct (bind_ok_inv _ _ _ _ _ E) as (v & s1 & E1 & E2).
    destruct (er_ok rec s v s1 Her Hwf E1) as (Hwf1 & _). pose proof (er_room rec s v s1 Her Hwf E1) as R1.
    destruct v as [x|x]; [discriminate|].
    destruct (f64_to_i64_sat x <? 0)%Z; [discriminate|].
    destruct (bind_ok_inv _ _ _ _ _ E2) as (c & s2 & E3 & E4).
    rewrite (accept_w TComma s1 Hwf1) in E3.
    destruct (nth_error (cur_toks s1) (loc_idx (loc s1))) as [t'|] eqn:En.
    - destruct (token_eqb t' TComma); inversion E3; subst c s2; inversion E4; subst.
      pose proof (room_step s1 t' En). lia.
    - inversion E3; subst c s2. inversion E4.
  Qed.

  Lemma T_unary_arg : T g (unary_number_function_arg rec).
  Proof. unfold unary_number_function_arg; T_walk leaf. Qed.

  Lemma T_function_call name : T g (function_call rec name).
  Proof. unfold function_call; T_walk ltac:(first [apply T_unary_arg | apply T_user_function_call | leaf]). Qed.

  Lemma T_term : T g (expression_term fuel rec).
  Proof. unfold expression_term; T_walk ltac:(first [apply T_function_call | apply T_array_index | leaf]). Qed.

  Lemma T_paren : T g (parenthesized_expression fuel rec).
  Proof. unfold parenthesized_expression; T_walk ltac:(first [apply T_term | leaf]). Qed.

  Lemma T_unary : T g (unary_operator fuel rec).
  Proof. unfold unary_operator; T_walk ltac:(first [apply T_paren | leaf]). Qed.

  (* strictness: a term, hence every tier, consumes a token when it succeeds *)
  Lemma er_term : orel ERw (expression_term fuel rec).
  Proof. unfold expression_term; erw. Qed.
  Lemma er_paren : orel ERw (parenthesized_expression fuel rec).
  Proof. unfold parenthesized_expression; orel_walk ERw_ocat ltac:(first [apply er_term | er_leafs]). Qed.

  Lemma consumes_term : consumes (expression_term fuel rec).
  Proof.
    unfold expression_term. apply consumes_bind_l; [apply consumes_next_unwrapped | apply er_next_unwrapped | intros t; erw].
  Qed.

  Lemma consumes_paren : consumes (parenthesized_expression fuel rec).
  Proof.
    clear Hg HT Him. intros s v s' Hwf E. unfold parenthesized_expression in E.
    destruct (bind_ok_inv _ _ _ _ _ E) as (p & s1 & E1 & E2).
    rewrite (accept_w TLeftParen s Hwf) in E1.
    destruct (nth_error (cur_toks s) (loc_idx (loc s))) as [t'|] eqn:En.
    - destruct (token_eqb t' TLeftParen); inversion E1; subst p s1.
      + pose proof (room_step s t' En) as R1.
        assert (Hwf1 : wf (set_loc (mkloc (loc_line (loc s)) (S (loc_idx (loc s)))) (bump s)))
          by (apply wf_set_loc; [revert Hwf; apply wf_ext; reflexivity | exact (wf_loc _ Hwf)]).
        assert (Hrest : orel ERw (v0 <- rec ;; expect_next_token TRightParen ;;; ret v0)) by erw.
        pose proof (er_room _ _ _ _ Hrest Hwf1 E2). lia.
      + assert (Hwfb : wf (bump s)) by (revert Hwf; apply wf_ext; reflexivity).
        pose proof (consumes_term (bump s) v s' Hwfb E2) as R. exact R.
    - inversion E1; subst p s1.
      assert (Hwfb : wf (bump s)) by (revert Hwf; apply wf_ext; reflexivity).
      exact (consumes_term (bump s) v s' Hwfb E2).
  Qed.

  Lemma consumes_unary : consumes (unary_operator fuel rec).
  Proof.
    unfold unary_operator. apply consumes_bind_r; [apply er_try | intros op].
    apply consumes_bind_l; [apply consumes_paren | apply er_paren | intros v; destruct op; erw].
  Qed.

  Lemma T_tier {O} (get_op : M (option O)) (operand : M value) (ap : O -> value -> value -> M value) :
    T g get_op -> orel ERw get_op ->
    (forall s o s', wf s -> get_op s = (Ok (Some o), s') -> room s' < room s) ->
    T g operand -> orel ERw operand -> (forall o a b, T g (ap o a b)) -> (forall o a b, orel ERw (ap o a b)) ->
    T g (tier fuel get_op operand ap).
  Proof.
    intros G1 G2 G3 O1 O2 A1 A2. unfold tier. apply T_bind; [exact O1 | intros v0].
    apply T_loop; [exact Hg | |].
    - intros v. apply T_bind; [exact G1 | intros [o|]; [|apply T_ret]].
      apply T_bind; [exact O1 | intros w]. apply T_bind; [apply A1 | intro; apply T_ret].
    - intros v s v' s' Hwf E.
      destruct (bind_ok_inv _ _ _ _ _ E) as (o & s1 & E1 & E2).
      destruct o as [o|]; [|inversion E2].
      pose proof (G3 s o s1 Hwf E1) as R1. destruct (er_ok get_op s _ s1 G2 Hwf E1) as (Hwf1 & _).
      assert (Hrest : orel ERw (w <- operand ;; v'0 <- ap o v w ;; ret (@inl value value v'0))).
      { apply (orel_bind _ ERw_ocat); [exact O2 | intros w]. apply (orel_bind _ ERw_ocat); [apply A2 | intro; apply (orel_ret _ ERw_ocat)]. }
      pose proof (er_room _ _ _ _ Hrest Hwf1 E2). lia.
  Qed.

  Lemma consumes_tier {O} (get_op : M (option O)) (operand : M value) (ap : O -> value -> value -> M value) :
    orel ERw get_op -> consumes operand -> orel ERw operand -> (forall o a b, orel ERw (ap o a b)) ->
    consumes (tier fuel get_op operand ap).
  Proof.
    intros G O1 O2 A2. unfold tier. apply consumes_bind_l; [exact O1 | exact O2 | intros v0].
    apply (orel_repeat _ ERw_ocat). intros v.
    apply (orel_bind _ ERw_ocat); [exact G | intros [o|]; [|apply (orel_ret _ ERw_ocat)]].
    apply (orel_bind _ ERw_ocat); [exact O2 | intros w]. apply (orel_bind _ ERw_ocat); [apply A2 | intro; apply (orel_ret _ ERw_ocat)].
  Qed.

  Lemma get_op_accept_as {O} t (o0 : O) s o s' : wf s -> accept_as t o0 s = (Ok (Some o), s') -> room s' < room s.
  Proof.
    intros Hwf E. unfold accept_as in E. rewrite Safety.bind_run, (accept_w t s Hwf) in E.
    destruct (nth_error (cur_toks s) (loc_idx (loc s))) as [t'|] eqn:En; [destruct (token_eqb t' t)|];
      cbn in E; inversion E; subst. apply (room_step s t' En).
  Qed.

  Lemma get_op_try {O} (f : token -> option O) s o s' : wf s -> try_next_token f s = (Ok (Some o), s') -> room s' < room s.
  Proof.
    intros Hwf E. rewrite (try_w f s Hwf) in E.
    destruct (nth_error (cur_toks s) (loc_idx (loc s))) as [t'|] eqn:En; [destruct (f t')|]; inversion E; subst.
    apply (room_step s t' En).
  Qed.

  Lemma T_accept_as {O} t (o : O) : T g (accept_as t o).
  Proof. unfold accept_as; T_walk leaf. Qed.

  Lemma expr_tiers :
    T g (logical_or_expression fuel rec) /\ orel ERw (logical_or_expression fuel rec)
    /\ consumes (logical_or_expression fuel rec).
  Proof.
    unfold logical_or_expression, logical_and_expression, equality_expression,
      plus_or_minus_expression, multiply_or_divide_expression, exponent_expression.
    assert (U : T g (unary_operator fuel rec) /\ orel ERw (unary_operator fuel rec) /\ consumes (unary_operator fuel rec))
      by (split; [apply T_unary | split; [apply er_unary; exact Her | apply consumes_unary]]).
    revert U. generalize (unary_operator fuel rec) as op0. intros op0 (U1 & U2 & U3).
    assert (S5 : let t5 := tier fuel (accept_as TCaret tt) op0 (fun _ => eval_pow) in T g t5 /\ orel ERw t5 /\ consumes t5).
    { cbv zeta. split; [|split].
      - apply T_tier; [apply T_accept_as | apply er_accept_as | intros; eapply get_op_accept_as; eassumption | exact U1 | exact U2
                       | intros; T_prim_leaf | intros; apply er_eval_pow].
      - apply er_tier; [apply er_accept_as | exact U2 | intros; apply er_eval_pow].
      - apply consumes_tier; [apply er_accept_as | exact U3 | exact U2 | intros; apply er_eval_pow]. }
    revert S5. cbv zeta. generalize (tier fuel (accept_as TCaret tt) op0 (fun _ => eval_pow)) as t5. intros t5 (A1 & A2 & A3).
    assert (S4 : let t4 := tier fuel (try_next_token muldiv_of_token) t5 eval_muldiv in T g t4 /\ orel ERw t4 /\ consumes t4).
    { cbv zeta. split; [|split].
      - apply T_tier; [T_prim_leaf | apply er_try | intros; eapply get_op_try; eassumption | exact A1 | exact A2
                       | intros; T_prim_leaf | intros; apply er_eval_muldiv].
      - apply er_tier; [apply er_try | exact A2 | intros; apply er_eval_muldiv].
      - apply consumes_tier; [apply er_try | exact A3 | exact A2 | intros; apply er_eval_muldiv]. }
    revert S4. cbv zeta. generalize (tier fuel (try_next_token muldiv_of_token) t5 eval_muldiv) as t4. intros t4 (B1 & B2 & B3).
    assert (S3 : let t3 := tier fuel (try_next_token addsub_of_token) t4 eval_addsub in T g t3 /\ orel ERw t3 /\ consumes t3).
    { cbv zeta. split; [|split].
      - apply T_tier; [T_prim_leaf | apply er_try | intros; eapply get_op_try; eassumption | exact B1 | exact B2
                       | intros; T_prim_leaf | intros; apply er_eval_addsub].
      - apply er_tier; [apply er_try | exact B2 | intros; apply er_eval_addsub].
      - apply consumes_tier; [apply er_try | exact B3 | exact B2 | intros; apply er_eval_addsub]. }
    revert S3. cbv zeta. generalize (tier fuel (try_next_token addsub_of_token) t4 eval_addsub) as t3. intros t3 (C1 & C2 & C3).
    assert (S2 : let t2 := tier fuel (try_next_token eq_of_token) t3 eval_eq in T g t2 /\ orel ERw t2 /\ consumes t2).
    { cbv zeta. split; [|split].
      - apply T_tier; [T_prim_leaf | apply er_try | intros; eapply get_op_try; eassumption | exact C1 | exact C2
                       | intros; T_prim_leaf | intros; apply er_eval_eq].
      - apply er_tier; [apply er_try | exact C2 | intros; apply er_eval_eq].
      - apply consumes_tier; [apply er_try | exact C3 | exact C2 | intros; apply er_eval_eq]. }
    revert S2. cbv zeta. generalize (tier fuel (try_next_token eq_of_token) t3 eval_eq) as t2. intros t2 (D1 & D2 & D3).
    assert (S1 : let t1 := tier fuel (accept_as TAnd tt) t2 (fun _ => eval_and) in T g t1 /\ orel ERw t1 /\ consumes t1).
    { cbv zeta. split; [|split].
      - apply T_tier; [apply T_accept_as | apply er_accept_as | intros; eapply get_op_accept_as; eassumption | exact D1 | exact D2
                       | intros; T_prim_leaf | intros; apply er_eval_and].
      - apply er_tier; [apply er_accept_as | exact D2 | intros; apply er_eval_and].
      - apply consumes_tier; [apply er_accept_as | exact D3 | exact D2 | intros; apply er_eval_and]. }
    revert S1. cbv zeta. generalize (tier fuel (accept_as TAnd tt) t2 (fun _ => eval_and)) as t1. intros t1 (E1 & E2 & E3).
    split; [|split].
    - apply T_tier; [apply T_accept_as | apply er_accept_as | intros; eapply get_op_accept_as; eassumption | exact E1 | exact E2
                     | intros; T_prim_leaf | intros; apply er_eval_or].
    - apply er_tier; [apply er_accept_as | exact E2 | intros; apply er_eval_or].
    - apply consumes_tier; [apply er_accept_as | exact E3 | exact E2 | intros; apply er_eval_or].
  Qed.

  Lemma consumes_logical_or : consumes (logical_or_expression fuel rec).
  Proof.
    unfold logical_or_expression, logical_and_expression, equality_expression,
      plus_or_minus_expression, multiply_or_divide_expression, exponent_expression.
    assert (U2 : orel ERw (unary_operator fuel rec)) by (apply er_unary; exact Her).
    assert (U3 : consumes (unary_operator fuel rec)) by apply consumes_unary.
    set (t5 := tier fuel (accept_as TCaret tt) (unary_operator fuel rec) (fun _ => eval_pow)).
    assert (A2 : orel ERw t5) by (apply er_tier; [apply er_accept_as | exact U2 | intros; apply er_eval_pow]).
    assert (A3 : consumes t5) by (apply consumes_tier; [apply er_accept_as | exact U3 | exact U2 | intros; apply er_eval_pow]).
    set (t4 := tier fuel (try_next_token muldiv_of_token) t5 eval_muldiv).
    assert (B2 : orel ERw t4) by (apply er_tier; [apply er_try | exact A2 | intros; apply er_eval_muldiv]).
    assert (B3 : consumes t4) by (apply consumes_tier; [apply er_try | exact A3 | exact A2 | intros; apply er_eval_muldiv]).
    set (t3 := tier fuel (try_next_token addsub_of_token) t4 eval_addsub).
    assert (C2 : orel ERw t3) by (apply er_tier; [apply er_try | exact B2 | intros; apply er_eval_addsub]).
    assert (C3 : consumes t3) by (apply consumes_tier; [apply er_try | exact B3 | exact B2 | intros; apply er_eval_addsub]).
    set (t2 := tier fuel (try_next_token eq_of_token) t3 eval_eq).
    assert (D2 : orel ERw t2) by (apply er_tier; [apply er_try | exact C2 | intros; apply er_eval_eq]).
    assert (D3 : consumes t2) by (apply consumes_tier; [apply er_try | exact C3 | exact C2 | intros; apply er_eval_eq]).
    set (t1 := tier fuel (accept_as TAnd tt) t2 (fun _ => eval_and)).
    assert (E2 : orel ERw t1) by (apply er_tier; [apply er_accept_as | exact D2 | intros; apply er_eval_and]).
    assert (E3 : consumes t1) by (apply consumes_tier; [apply er_accept_as | exact D3 | exact D2 | intros; apply er_eval_and]).
    apply consumes_tier; [apply er_accept_as | exact E3 | exact E2 | intros; apply er_eval_or].
  Qed.
End ExprT.

Lemma consumes_evaluate_expression fuel n : consumes (evaluate_expression fuel n).
Proof.
  destruct fuel as [|f]; cbn [evaluate_expression]; [intros s a s' _ E; discriminate|].
  destruct (Nat.eqb n max_nesting); [intros s a s' _ E; discriminate|].
  apply consumes_logical_or, er_evaluate_expression.
Qed.

(* one unit of fuel per nesting level, and a loop's worth on top *)
Lemma T_evaluate_expression : forall fuel n g, n <= max_nesting -> g + (max_nesting - n) < fuel ->
  T g (evaluate_expression fuel n).
Proof.
  induction fuel as [|f IH]; intros n g Hn Hc; [lia|]. cbn [evaluate_expression].
  destruct (Nat.eqb_spec n max_nesting) as [->|Hne]; [apply T_fail|].
  apply expr_tiers; [apply er_evaluate_expression | apply IH; lia | lia].
Qed.

(* ------------------------------------------------------------------ *)
(* 6. statements *)

(* moving the cursor along its line keeps a state well-formed *)
Definition WK (s s' : interp) : Prop :=
  st_toks s' = st_toks s /\ st_keys s' = st_keys s /\ loc_line (loc s') = loc_line (loc s)
  /\ breakpoint s' = breakpoint s /\ stack s' = stack s /\ loops s' = loops s
  /\ functions s' = functions s /\ data_it s' = data_it s /\ arrays s' = arrays s /\ immediate s' = immediate s.

Lemma WK_preorder : preorder WK.
Proof.
  split; unfold WK.
  - intros s. repeat split.
  - intros a b c (A1 & A2 & A3 & A4 & A5 & A6 & A7 & A8 & A9 & A10) (B1 & B2 & B3 & B4 & B5 & B6 & B7 & B8 & B9 & B10).
    repeat split; congruence.
Qed.

Lemma WK_wf s s' : WK s s' -> wf s -> wf s' /\ lim s' = lim s.
Proof.
  intros (A1 & A2 & A3 & A4 & A5 & A6 & A7 & A8 & A9 & A10) [W1 W2 W3 W4 W5 W6 W7 W8]. split.
  - split; unfold line_exists, store_ok in *; rewrite ?A1, ?A2, ?A3, ?A4, ?A5, ?A6, ?A7, ?A8, ?A9; assumption.
  - unfold lim. rewrite A1, A10. reflexivity.
Qed.

Lemma wk_tokens_for_line l : mrel WK (tokens_for_line l).
Proof.
  intros s. unfold tokens_for_line. destruct l as [n|]; [destruct (toks_get n (st_toks s))|]; apply (po_refl _ WK_preorder).
Qed.

Ltac wk_leaf :=
  first [ apply wk_tokens_for_line
        | apply (mrel_modify WK); intros; unfold WK; repeat split; reflexivity ].

Lemma wk_rewind_loop i t : mrel WK (rewind_loop i t).
Proof.
  induction i as [|i IH]; cbn [rewind_loop]; autounfold with prims;
    mrel_walk WK_preorder ltac:(first [apply IH | wk_leaf]).
Qed.

Lemma wk_await : mrel WK rewind_program_and_await_input.
Proof.
  unfold rewind_program_and_await_input. autounfold with prims.
  mrel_walk WK_preorder ltac:(first [apply wk_rewind_loop | wk_leaf]).
Qed.

Lemma T_await g : T g rewind_program_and_await_input.
Proof.
  intros s Hwf Hg. split; [apply nofR_await|]. intros a _.
  destruct (WK_wf _ _ (wk_await s) Hwf) as [H1 H2]. split; [exact H1 | lia].
Qed.

Lemma T_discard g : T g discard_remaining_tokens.
Proof. T_prim_leaf. Qed.

Section StmtT.
  Variable fuel nest g : nat.
  Variable rec : M unit.
  Hypothesis HT : T g rec.
  Hypothesis Hg : g < fuel.
  Hypothesis Hex : T g (expr fuel nest).

  Lemma er_expr' : orel ERw (expr fuel nest).
  Proof. apply er_evaluate_expression. Qed.
  Lemma consumes_expr : consumes (expr fuel nest).
  Proof. apply consumes_evaluate_expression. Qed.

  Ltac leaf := first [ exact Hex | exact HT | apply T_await | apply T_discard ].

  Lemma T_st_array_index : T g (evaluate_array_index fuel (expr fuel nest)).
  Proof. apply T_array_index; [apply er_expr' | exact Hex | exact Hg]. Qed.

  Lemma T_optional_index : T g (parse_optional_array_index fuel nest).
  Proof. unfold parse_optional_array_index; T_walk ltac:(first [apply T_st_array_index | leaf]). Qed.

  Lemma T_parse_lvalue : T g (parse_lvalue fuel nest).
  Proof. unfold parse_lvalue; T_walk ltac:(first [apply T_optional_index | leaf]). Qed.

  Lemma T_assign lv v : T g (assign_value lv v).
  Proof. unfold assign_value; T_walk leaf. Qed.

  Lemma T_goto_stmt : T g evaluate_goto_statement.
  Proof. unfold evaluate_goto_statement; T_walk leaf. Qed.
  Lemma T_gosub_stmt : T g evaluate_gosub_statement.
  Proof. unfold evaluate_gosub_statement; T_walk leaf. Qed.
  Lemma T_stmt_or_goto : T g (statement_or_goto_line_number rec).
  Proof. unfold statement_or_goto_line_number; T_walk ltac:(first [apply T_goto_stmt | leaf]). Qed.

  Lemma T_assignment sym : T g (evaluate_assignment_statement fuel nest sym).
  Proof. unfold evaluate_assignment_statement; T_walk ltac:(first [apply T_optional_index | apply T_assign | leaf]). Qed.
  Lemma T_let : T g (evaluate_let_statement fuel nest).
  Proof. unfold evaluate_let_statement; T_walk ltac:(first [apply T_assignment | leaf]). Qed.
  Lemma T_dim : T g (evaluate_dim_statement fuel nest).
  Proof. unfold evaluate_dim_statement; T_walk ltac:(first [apply T_parse_lvalue | leaf]). Qed.
  Lemma T_for : T g (evaluate_for_statement fuel nest).
  Proof. unfold evaluate_for_statement; T_walk leaf. Qed.
  Lemma T_next_stmt : T g evaluate_next_statement.
  Proof. unfold evaluate_next_statement; T_walk leaf. Qed.
  Lemma T_break : T g break_at_current_location.
  Proof. apply T_prim; [apply nofR_break | apply sr_break | apply imm_break]. Qed.

  Lemma T_raw_err {A} e l : T g (fun s : interp => (@Err A e l, s)).
  Proof. intros s Hwf Hl. split; [discriminate|]. intros a H; discriminate. Qed.

  Lemma T_take_input : T g take_input.
  Proof. apply T_prim; [apply nofR_take_input | apply sr_of_er, er_take_input | apply imm_take_input]. Qed.

  Lemma T_input : T g (evaluate_input_statement fuel nest).
  Proof.
    unfold evaluate_input_statement;
      T_walk ltac:(first [apply T_take_input | apply T_parse_lvalue | apply T_assign | apply T_raw_err | leaf]).
  Qed.

  (* IF: the scan for ELSE consumes a token per iteration *)
  Lemma room_bump s : room (bump s) = room s.
  Proof. reflexivity. Qed.

  Lemma next_token_some s t s' : wf s -> next_token s = (Ok (Some t), s') -> wf s' /\ room s' < room s /\ cur_toks s' = cur_toks s.
  Proof.
    intros Hwf E. rewrite (next_token_w s Hwf) in E.
    destruct (nth_error (cur_toks s) (loc_idx (loc s))) as [t0|] eqn:En; inversion E; subst.
    split; [apply wf_set_loc; [revert Hwf; apply wf_ext; reflexivity | exact (wf_loc _ Hwf)]|].
    split; [apply (room_step s _ En) | reflexivity].
  Qed.

  Lemma T_if : T g (evaluate_if_statement fuel nest rec).
  Proof.
    unfold evaluate_if_statement.
    apply T_bind; [exact Hex | intros c]. apply T_bind; [T_prim_leaf | intros _].
    destruct (to_bool c); [T_walk ltac:(first [apply T_stmt_or_goto | leaf])|].
    apply T_loop; [exact Hg | intro; T_walk ltac:(first [apply T_stmt_or_goto | leaf]) |].
    intros u s u' s' Hwf E.
    destruct (bind_ok_inv _ _ _ _ _ E) as (t & s1 & E1 & E2).
    destruct t as [t|]; [|inversion E2].
    destruct (next_token_some s t s1 Hwf E1) as (Hwf1 & R1 & _).
    destruct t; try (inversion E2; subst; exact R1).
    - (* colon: the rest of the line is discarded *)
      destruct (bind_ok_inv _ _ _ _ _ E2) as (x & s2 & E3 & E4). inversion E4; subst.
      unfold discard_remaining_tokens in E3. rewrite Safety.bind_run, (cur_tokens_eq s1 (wf_loc _ Hwf1)) in E3.
      unfold modify in E3. inversion E3; subst. unfold room at 1. cbn [loc set_loc loc_idx].
      change (cur_toks (set_loc _ s1)) with (cur_toks s1). lia.
    - (* ELSE: the loop ends *)
      destruct (bind_ok_inv _ _ _ _ _ E2) as (x & s2 & E3 & E4).
      destruct (bind_ok_inv _ _ _ _ _ E4) as (e & s3 & E5 & E6).
      destruct (bind_ok_inv _ _ _ _ _ E6) as (y & s4 & E7 & E8). inversion E8.
  Qed.

  Lemma room_next_data s : room (snd (next_data_element s)) = room s /\ (forall e s', next_data_element s = (Ok e, s') -> wf s -> wf s').
  Proof.
    split.
    - unfold next_data_element. destruct (data_it s) as [d|].
      + destruct (data_next _ d); reflexivity.
      + destruct (data_chunks (st_keys s) (st_toks s)); try reflexivity. destruct (data_next _ _); reflexivity.
    - intros e s' E Hwf. pose proof (sr_next_data s Hwf) as H. rewrite E in H. apply H.
  Qed.

  Lemma T_read : T g (evaluate_read_statement fuel nest).
  Proof.
    unfold evaluate_read_statement.
    apply T_loop; [exact Hg | intro; T_walk ltac:(first [apply T_parse_lvalue | apply T_assign | leaf]) |].
    intros u s u' s' Hwf E.
    destruct (bind_ok_inv _ _ _ _ _ E) as (lv & s1 & E1 & E2).
    (* the target: at least its name is consumed *)
    assert (H1 : wf s1 /\ room s1 < room s).
    { unfold parse_lvalue in E1. destruct (bind_ok_inv _ _ _ _ _ E1) as (t & s0 & F1 & F2).
      destruct t as [t|]; [|inversion F2]. destruct t; try (inversion F2).
      destruct (next_token_some s _ s0 Hwf F1) as (Hwf0 & R0 & _).
      destruct (bind_ok_inv _ _ _ _ _ F2) as (idx & s0' & F3 & F4). inversion F4; subst.
      assert (Her : orel ERw (parse_optional_array_index fuel nest)) by (apply er_optional_index).
      destruct (er_ok _ _ _ _ Her Hwf0 F3) as (W & _). pose proof (er_room _ _ _ _ Her Hwf0 F3). split; [exact W | lia]. }
    destruct H1 as [Hwf1 R1].
    destruct (bind_ok_inv _ _ _ _ _ E2) as (e & s2 & E3 & E4).
    destruct (room_next_data s1) as [R2 W2]. rewrite E3 in R2. cbn [snd] in R2.
    pose proof (W2 e s2 E3 Hwf1) as Hwf2.
    destruct e as [e|]; [|inversion E4].
    destruct (bind_ok_inv _ _ _ _ _ E4) as (v & s3 & E5 & E6).
    unfold lift_res in E5. inversion E5; subst s3.
    destruct (bind_ok_inv _ _ _ _ _ E6) as (x & s4 & E7 & E8).
    assert (Hera : orel ERw (assign_value lv v)) by apply er_assign.
    destruct (er_ok _ _ _ _ Hera Hwf2 E7) as (Hwf4 & _). pose proof (er_room _ _ _ _ Hera Hwf2 E7) as R4.
    destruct (bind_ok_inv _ _ _ _ _ E8) as (c & s5 & E9 & E10).
    pose proof (er_room _ _ _ _ (er_accept TComma) Hwf4 E9) as R5.
    destruct c; inversion E10; subst. lia.
  Qed.

  Lemma T_print : T g (evaluate_print_statement fuel nest).
  Proof.
    unfold evaluate_print_statement. apply T_bind; [| intros [semi text]; T_prim_leaf].
    apply T_loop; [exact Hg | intros [semi text]; T_walk leaf |].
    intros [semi text] s acc' s' Hwf E.
    destruct (bind_ok_inv _ _ _ _ _ E) as (t & s1 & E1 & E2).
    rewrite (peek_eq s (wf_loc _ Hwf)) in E1. inversion E1; subst t s1. clear E1.
    assert (Hwfb : wf (bump s)) by (revert Hwf; apply wf_ext; reflexivity).
    destruct (nth_error (cur_toks s) (loc_idx (loc s))) as [tk|] eqn:En; [|inversion E2].
    assert (Hnext : forall x s2, (next_token ;;; ret (@inl (bool * bytes) (bool * bytes) x)) (bump s) = (Ok (inl acc'), s2) -> room s2 < room s).
    { intros x s2 F. destruct (bind_ok_inv _ _ _ _ _ F) as (r & s3 & F1 & F2). inversion F2; subst.
      rewrite (next_token_w (bump s) Hwfb) in F1. change (cur_toks (bump s)) with (cur_toks s) in F1.
      change (loc_idx (loc (bump s))) with (loc_idx (loc s)) in F1. rewrite En in F1. inversion F1; subst.
      apply (room_step (bump s) tk). exact En. }
    assert (Hexpr : forall (k : value -> (bool * bytes) + (bool * bytes)) s2,
              (v <- expr fuel nest ;; ret (k v)) (bump s) = (Ok (inl acc'), s2) -> room s2 < room s).
    { intros k s2 F. destruct (bind_ok_inv _ _ _ _ _ F) as (v & s3 & F1 & F2). inversion F2; subst.
      apply (consumes_expr (bump s) v s2 Hwfb F1). }
    destruct tk; try (inversion E2; fail); try (eapply Hnext; exact E2); try (eapply Hexpr; exact E2).
  Qed.

  Lemma T_def : T g (evaluate_def_statement fuel).
  Proof.
    unfold evaluate_def_statement.
    apply T_bind; [T_prim_leaf | intros t]. destruct t as [t|]; [|apply T_fail]. destruct t as [| | | | | | | | | | | | | | | | | | | | | | | | | | | | | | | | | | | | | | |fname| | | | ] ; try apply T_fail.
    apply T_bind; [T_prim_leaf | intros _].
    apply T_bind.
    - apply T_loop; [exact Hg | intro; T_walk leaf |].
      intros acc st0 acc' s' Hwf E.
      destruct (bind_ok_inv _ _ _ _ _ E) as (a & s1 & E1 & E2).
      destruct a as [a|]; [|inversion E2]. destruct (next_token_some st0 a s1 Hwf E1) as (Hwf1 & R1 & _).
      destruct a; try (inversion E2; fail).
      destruct (bind_ok_inv _ _ _ _ _ E2) as (d & s2 & E3 & E4).
      pose proof (er_room _ _ _ _ er_next_token Hwf1 E3) as R2.
      destruct d as [d|]; [|inversion E4]. destruct d; inversion E4; subst. lia.
    - intros args. apply T_bind; [T_prim_leaf | intros _]. apply T_bind; [T_prim_leaf | intros _].
      apply T_loop; [exact Hg | intro; T_walk leaf |].
      intros u st0 u' s' Hwf E.
      destruct (bind_ok_inv _ _ _ _ _ E) as (t & s1 & E1 & E2).
      destruct t as [t|]; [|inversion E2]. destruct (next_token_some st0 t s1 Hwf E1) as (Hwf1 & R1 & _).
      destruct t; inversion E2; subst; exact R1.
  Qed.

  Lemma T_is_else : T g is_else_of_then_clause.
  Proof.
    apply T_intro_er; [intros s _ _; apply nofR_is_else | apply er_is_else].
  Qed.

  Lemma T_get_line_number : T g get_line_number.
  Proof. apply T_intro_er; [intros s _ _; apply nofR_get_line_number | apply er_get_line_number]. Qed.

  Lemma T_statement_body : T g (evaluate_statement_body fuel nest rec).
  Proof.
    unfold evaluate_statement_body.
    T_walk ltac:(first [ apply T_break | apply T_dim | apply T_print | apply T_input | apply T_if | apply T_goto_stmt
                       | apply T_gosub_stmt | apply T_for | apply T_next_stmt | apply T_def | apply T_read | apply T_let
                       | apply T_assignment | apply T_is_else | apply T_get_line_number | leaf ]).
  Qed.
End StmtT.

Lemma T_evaluate_statement : forall fuel n g, n <= max_nesting -> g + (max_nesting - n) < fuel ->
  T g (evaluate_statement fuel n).
Proof.
  induction fuel as [|f IH]; intros n g Hn Hc; [lia|]. cbn [evaluate_statement].
  destruct (Nat.eqb_spec n max_nesting) as [->|Hne]; [apply T_fail|].
  apply T_statement_body; [apply IH; lia | lia|]. apply T_evaluate_expression; lia.
Qed.

(* ------------------------------------------------------------------ *)
(* 7. host calls *)

Definition call_bound (s : interp) : nat := lim s + max_nesting.

Lemma T_run_next_statement fuel g : g + max_nesting < fuel -> T g (run_next_statement fuel).
Proof.
  intros Hf. unfold run_next_statement, return_to_idle_state.
  apply T_bind; [apply T_prim; [apply nofR_modify | | ] | intros _].
  - apply sr_of_er. intros s Hwf. cbn [fst snd forget modify]. apply ER_frame; auto; reflexivity.
  - apply (mrel_modify IM). intros s. unfold IM. apply le_n.
  - apply T_bind; [T_prim_leaf | intros h].
    apply T_bind; [destruct h; [apply T_evaluate_statement; lia | apply T_ret] | intros _].
    apply T_bind; [T_prim_leaf | intros h2]. destruct h2; [apply T_ret|].
    apply T_bind; [T_prim_leaf | intros n0]. destruct n0; [apply T_ret|].
    apply T_bind; [T_prim_leaf | intros _].
    apply T_prim; [apply nofR_modify | | apply (mrel_modify IM); intros s; unfold IM; apply le_n].
    apply sr_of_er. intros s Hwf. cbn [fst snd forget modify]. apply ER_frame; auto; reflexivity.
Qed.

(* the call that continues a running program hands control back *)
Theorem continue_returns fuel s :
  wf s -> call_bound s < fuel -> fst (continue_evaluating fuel s) <> OutOfFuel.
Proof.
  intros Hwf Hf. unfold continue_evaluating. destruct (state s); try discriminate.
  destruct (T_run_next_statement fuel (lim s) Hf s Hwf (le_n _)) as [H _].
  destruct (run_next_statement fuel s) as [[u|e l|p| |] s1]; cbn [postprocess fst] in *; try discriminate; congruence.
Qed.

(* the calls that start evaluation: a command, an edit, or a direct-mode line *)
From Abasic Require Import Proofs.LexerRanges.
Local Open Scope nat_scope.

Lemma ranges_count lo hi ts : ranges_ok lo hi ts -> lo <= hi -> length ts <= hi - lo.
Proof.
  revert lo; induction ts as [|[t [a b]] ts IH]; intros lo H Hle; [cbn [length]; lia|].
  cbn [ranges_ok] in H. destruct H as (H1 & H2 & H3 & H4). pose proof (IH b H4 H3) as IH'. cbn [length]. lia.
Qed.

Lemma tokens_count line skip ts : skip <= length line -> tokenize line skip = TokOk ts -> length (map fst ts) <= length line.
Proof.
  intros Hs H. rewrite map_length. pose proof (tokenize_ranges_ok line skip ts Hs H) as Hr.
  pose proof (ranges_count _ _ _ Hr Hs) as H0. eapply Nat.le_trans; [exact H0 | apply Nat.le_sub_l].
Qed.

Definition start_bound (s : interp) (line : bytes) : nat :=
  Nat.max (longest (st_toks s)) (length line) + max_nesting.

Lemma modify_wf_T g f :
  (forall s, wf s -> wf (f s)) -> (forall s, lim (f s) <= lim s) -> T g (modify f).
Proof.
  intros H1 H2 s Hwf Hg. split; [discriminate|]. intros a _. split; [apply H1, Hwf | apply H2].
Qed.

Lemma lim_imm_reset s : lim (imm_reset [] s) <= lim s.
Proof. unfold lim, imm_reset. destruct (breakpoint s); cbn; lia. Qed.

Lemma list_lines_nof ks T0 : list_lines ks T0 <> OutOfFuel.
Proof.
  induction ks as [|k ks IH]; cbn [list_lines]; [discriminate|].
  destruct (toks_get k T0); [|discriminate]. destruct (list_lines ks T0); try discriminate. congruence.
Qed.

Lemma T_process_command fuel g c : g + max_nesting < fuel -> T g (process_command fuel c).
Proof.
  intros Hf. destruct c; cbn [process_command].
  - (* RUN *)
    apply T_bind; [apply modify_wf_T; [intros s H; revert H; apply wf_ext; reflexivity | intros s; apply le_n] | intros _].
    apply T_bind; [apply modify_wf_T; [intros s H; revert H; apply wf_ext; reflexivity | intros s; apply le_n] | intros _].
    apply T_bind; [apply modify_wf_T; [intros s H; apply wf_set_arrays; [exact H | constructor] | intros s; apply le_n] | intros _].
    apply T_bind; [apply T_prim; [apply nofR_run_from_first | apply sr_run_from_first | apply imm_run_from_first] | intros _].
    apply T_run_next_statement, Hf.
  - (* LIST *)
    apply T_bind.
    + apply T_intro; [intros s _ _; cbn [fst]; apply list_lines_nof | apply sr_list | intros s; unfold IM; apply le_n].
    + intros ls. apply modify_wf_T; [intros s H; revert H; apply wf_ext; reflexivity | intros s; apply le_n].
  - apply modify_wf_T; [intros s H; revert H; apply wf_ext; reflexivity | intros s; apply le_n].
  - (* CONT *)
    apply T_bind; [apply T_prim; [apply nofR_continue_bp | apply sr_continue_bp | apply imm_continue_bp] | intros _].
    apply T_run_next_statement, Hf.
  - apply modify_wf_T; [intros s H; revert H; apply wf_ext; reflexivity | intros s; apply le_n].
  - apply modify_wf_T; [intros s H; revert H; apply wf_ext; reflexivity | intros s; apply le_n].
  - T_prim_leaf.
  - T_prim_leaf.
Qed.

Lemma nofR_set_numbered_line n ts : nofR (set_numbered_line n ts).
Proof. unfold set_numbered_line. autounfold with prims. nofr_walk nl4. Qed.

Theorem start_returns fuel line s :
  wf s -> start_bound s line < fuel -> fst (start_evaluating fuel line s) <> OutOfFuel.
Proof.
  intros Hwf Hf. unfold start_evaluating.
  assert (H : fst (evaluate_impl fuel line s) <> OutOfFuel).
  { unfold evaluate_impl. rewrite bind_get. destruct (state s); try discriminate.
    rewrite set_imm_is_modify, bind_modify.
    pose proof (wf_imm_reset [] s Hwf) as Hwf0. pose proof (lim_imm_reset s) as Hl0.
    set (s0 := imm_reset [] s) in *.
    assert (Hlong : longest (st_toks s0) = longest (st_toks s)).
    { unfold s0, imm_reset. destruct (breakpoint s); reflexivity. }
    assert (Himm0 : immediate s0 = []) by (unfold s0, imm_reset; destruct (breakpoint s); reflexivity).
    unfold start_bound in Hf.
    destruct (command_of line) as [c|].
    - apply (T_process_command fuel (lim s0) c); [|exact Hwf0|apply le_n].
      unfold lim. rewrite Hlong, Himm0. cbn [length]. lia.
    - destruct (match parse_line_number line with Some (n, e) => (Some n, e) | None => (None, 0) end) as [num skip] eqn:Ep.
      assert (Hskip : skip <= length line).
      { destruct (parse_line_number line) as [[n e]|] eqn:E; inversion Ep; subst; [|lia].
        unfold parse_line_number in E. destruct (digit_run (skipn (skip_ascii_ws line) line)) as [|d ds] eqn:Ed; [discriminate|].
        destruct (digits_value (d :: ds) <=? U64_MAX)%N; inversion E; subst.
        assert (Hw : skip_ascii_ws line <= length line).
        { clear. induction line as [|b l IH]; cbn [skip_ascii_ws length]; [lia|]. destruct (is_ascii_ws b); lia. }
        assert (Hd : length (digit_run (skipn (skip_ascii_ws line) line)) <= length (skipn (skip_ascii_ws line) line)).
        { generalize (skipn (skip_ascii_ws line) line). clear. intros l. induction l as [|b l IH]; cbn [digit_run length]; [lia|].
          destruct (is_digit b); cbn [length]; lia. }
        rewrite Ed in Hd. rewrite skipn_length in Hd. cbn [length] in *. lia. }
      destruct (tokenize line skip) as [ts|ts e] eqn:Et; [|discriminate].
      destruct num as [n|].
      + apply nofR_set_numbered_line.
      + rewrite set_imm_is_modify, bind_modify.
        pose proof (wf_imm_reset (map fst ts) s0 Hwf0) as Hwf1.
        pose proof (tokens_count line skip ts Hskip Et) as Hc.
        assert (Hl1 : lim (imm_reset (map fst ts) s0) <= Nat.max (longest (st_toks s)) (length line)).
        { unfold lim, imm_reset. destruct (breakpoint s0); cbn [st_toks immediate set_loc set_immediate set_stack];
            rewrite Hlong; lia. }
        apply (T_run_next_statement fuel (Nat.max (longest (st_toks s)) (length line)) ltac:(lia) _ Hwf1 Hl1). }
  destruct (evaluate_impl fuel line s) as [[u|e l|p| |] s1]; cbn [postprocess fst] in *; try discriminate; congruence.
Qed.
