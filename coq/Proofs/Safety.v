(* Proofs/Safety.v — C01: no sequence of host calls that follows the
   turn-taking protocol makes the interpreter panic; every failure is an error
   value after which the interpreter is idle, still accepts lines, and the
   error can be rendered as source line plus caret.

   Main results (all closed under the global context):
     step_no_panic, history_no_panic, session_no_panic   — no call returns [Panic _]
     errors_are_values, error_then_line_accepted         — errors are values
   They exclude every panic tag of the model:
     PUnwrapLine         the cursor, every saved location and every error
                         location name lines that exist ([wf], [er_errloc]);
     PListUnwrap         [store_ok]: both store indexes hold the same keys;
     PAssertState        excluded by [legal];
     PFunctionMustExist  expression evaluation never changes [functions];
     PStackEmpty         expression evaluation restores [stack] on Ok and Err;
     PArrayUnwrap, PCellIndex   [arr_ok]: one cell per index tuple, and
                         [parse_data] never returns an empty list;
     PRewind             the INPUT token stays before the cursor while the
                         target of the INPUT statement is parsed;
     PArityZero          never raised by the model.
   [OutOfFuel] / [OracleMiss] are model artefacts and are not excluded.

   Layout:
     1. observation of a call's outcome ([call_result]) and its agreement with [step];
     2. the invariant [wf];
     3. outcome-aware relations ([orel]) and their structural rules;
     4. the expression relation [ER] (wf kept, store / immediate line /
        functions unchanged, no panic, error locations name existing lines,
        stack restored on Ok and Err, cursor stays on its line and does not
        move backwards on Ok) for every expression evaluator;
     5. the statement relation [SR] for every statement evaluator;
     6. the host API and the main theorems. *)
From Coq Require Import List NArith ZArith Bool Lia Sorted.
From Abasic Require Import Model.Bytes Model.Num Model.Token Model.Data Model.Lexer Gen.Tables
     Model.State Model.Eval Model.Interp Proofs.Monad Proofs.Frames Proofs.StoreProofs.
Import ListNotations.
Local Open Scope nat_scope.

(* ------------------------------------------------------------------ *)
(* 1. The outcome of one host call *)

Definition line_of (op : hostop) : option bytes :=
  match op with HLine text => Some text | _ => None end.

(* The (result, state) pair that [step] computes before [make_row].  A call
   the protocol does not allow is not made at all. *)
Definition call_result (fuel : nat) (s : interp) (op : hostop) : res unit * interp :=
  if negb (legal s op) then (Ok tt, s)
  else
    let s0 := set_reads 0 s in
    match op with
    | HLine text => start_evaluating fuel text s0
    | HCont => continue_evaluating fuel s0
    | HReply text => provide_input text s0
    | HBreak => host_break s0
    | HRand seed => randomize seed s0
    | HReplace => (Ok tt, fresh (pow_oracle s))
    | HFlags w t => (Ok tt, set_flags w t s)
    | HNew => (Ok tt, fresh (pow_oracle s))
    end.

(* what the harness does to the state after the call: take the outputs *)
Definition drained (s : interp) (op : hostop) (s1 : interp) : interp :=
  if negb (legal s op) then s1
  else match op with
       | HFlags _ _ | HNew => s1
       | _ => set_outputs [] s1
       end.

Lemma make_row_snd r line s : snd (make_row r line s) = set_outputs [] s.
Proof. reflexivity. Qed.

Lemma step_call_result fuel s op :
  snd (step fuel s op) = drained s op (snd (call_result fuel s op)).
Proof.
  unfold step, call_result, drained. destruct (negb (legal s op)); [reflexivity|].
  destruct op; cbn [snd]; try reflexivity.
  - destruct (start_evaluating _ _ _) as [r s1]; reflexivity.
  - destruct (continue_evaluating _ _) as [r s1]; reflexivity.
  - destruct (provide_input _ _) as [r s1]; reflexivity.
Qed.

(* for a call that is made, the row is built from exactly this outcome *)
Lemma step_row_call_result fuel s op :
  legal s op = true ->
  match op with
  | HFlags _ _ | HNew => True
  | _ => step fuel s op =
           let '(r, s1) := call_result fuel s op in
           let '(rw, s2) := make_row r (line_of op) s1 in (Some rw, s2)
  end.
Proof.
  intros Hl. unfold step, call_result. rewrite Hl. cbn [negb].
  destruct op; cbn [line_of]; try exact I; reflexivity.
Qed.

(* ------------------------------------------------------------------ *)
(* 2. The invariant *)

Definition line_ok (t : list (N * list token)) (o : option N) : Prop :=
  match o with None => True | Some n => toks_get n t <> None end.

Definition line_exists (s : interp) (l : location) : Prop := line_ok (st_toks s) (loc_line l).

Fixpoint dims_prod (l : list N) : N :=
  match l with [] => 1%N | d :: r => (d * dims_prod r)%N end.

(* the allocation has exactly one cell per index tuple *)
Definition arr_ok (a : arr) : Prop := N.of_nat (length (ar_cells a)) = dims_prod (ar_dims a).

Record wf (s : interp) : Prop := {
  wf_store : store_ok s;
  wf_loc : line_exists s (loc s);
  wf_bp : forall p, breakpoint s = Some p -> toks_get (fst p) (st_toks s) <> None;
  wf_stack : Forall (fun fr => line_exists s (fr_ret fr)) (stack s);
  wf_loops : Forall (fun lp => line_exists s (lp_loc lp)) (loops s);
  wf_fns : Forall (fun kv => toks_get (fn_line (snd kv)) (st_toks s) <> None) (functions s);
  wf_data : forall d, data_it s = Some d -> Forall (fun c => line_exists s (fst c)) (di_chunks d);
  wf_arrays : Forall (fun kv => arr_ok (snd kv)) (arrays s) }.

Ltac proj_simpl :=
  cbn [st_toks st_keys immediate loc breakpoint stack loops data_it functions input outputs
       state rng variables arrays enable_warnings enable_tracing pow_oracle reads
       set_store set_immediate set_loc set_breakpoint set_stack set_loops set_data_it
       set_functions set_input set_outputs set_state set_rng set_variables set_arrays
       set_flags set_oracle set_reads fst snd loc_line loc_idx] in *.

Lemma wf_init : wf init_interp.
Proof.
  split; try exact store_ok_init; unfold init_interp; cbn; auto; try discriminate.
Qed.

Lemma wf_fresh oracle : wf (fresh oracle).
Proof.
  split; try exact store_ok_init; unfold fresh, init_interp; cbn; auto; try discriminate.
Qed.

(* [wf] only reads nine fields *)
Lemma wf_ext s s' :
  st_toks s' = st_toks s -> st_keys s' = st_keys s -> loc s' = loc s ->
  breakpoint s' = breakpoint s -> stack s' = stack s -> loops s' = loops s ->
  functions s' = functions s -> data_it s' = data_it s -> arrays s' = arrays s ->
  wf s -> wf s'.
Proof.
  intros Ht Hk Hl Hb Hs Hlp Hf Hd Ha [W1 W2 W3 W4 W5 W6 W7 W8].
  split; unfold line_exists, store_ok in *; rewrite ?Ht, ?Hk, ?Hl, ?Hb, ?Hs, ?Hlp, ?Hf, ?Hd, ?Ha; assumption.
Qed.

Lemma wf_set_loc l s : wf s -> line_exists s l -> wf (set_loc l s).
Proof. intros [W1 W2 W3 W4 W5 W6 W7 W8] H. split; assumption. Qed.

Lemma wf_set_stack v s :
  wf s -> Forall (fun fr => line_exists s (fr_ret fr)) v -> wf (set_stack v s).
Proof. intros [W1 W2 W3 W4 W5 W6 W7 W8] H. split; assumption. Qed.

Lemma wf_set_loops v s :
  wf s -> Forall (fun lp => line_exists s (lp_loc lp)) v -> wf (set_loops v s).
Proof. intros [W1 W2 W3 W4 W5 W6 W7 W8] H. split; assumption. Qed.

Lemma wf_set_functions v s :
  wf s -> Forall (fun kv => toks_get (fn_line (snd kv)) (st_toks s) <> None) v -> wf (set_functions v s).
Proof. intros [W1 W2 W3 W4 W5 W6 W7 W8] H. split; assumption. Qed.

Lemma wf_set_breakpoint v s :
  wf s -> (forall p, v = Some p -> toks_get (fst p) (st_toks s) <> None) -> wf (set_breakpoint v s).
Proof. intros [W1 W2 W3 W4 W5 W6 W7 W8] H. split; assumption. Qed.

Lemma wf_set_data_it v s :
  wf s -> (forall d, v = Some d -> Forall (fun c => line_exists s (fst c)) (di_chunks d)) ->
  wf (set_data_it v s).
Proof. intros [W1 W2 W3 W4 W5 W6 W7 W8] H. split; assumption. Qed.

Lemma wf_set_arrays v s : wf s -> Forall (fun kv => arr_ok (snd kv)) v -> wf (set_arrays v s).
Proof. intros [W1 W2 W3 W4 W5 W6 W7 W8] H. split; assumption. Qed.

Lemma wf_set_immediate v s : wf s -> wf (set_immediate v s).
Proof. apply wf_ext; reflexivity. Qed.
Lemma wf_set_input v s : wf s -> wf (set_input v s).
Proof. apply wf_ext; reflexivity. Qed.
Lemma wf_set_outputs v s : wf s -> wf (set_outputs v s).
Proof. apply wf_ext; reflexivity. Qed.
Lemma wf_set_state v s : wf s -> wf (set_state v s).
Proof. apply wf_ext; reflexivity. Qed.
Lemma wf_set_rng v s : wf s -> wf (set_rng v s).
Proof. apply wf_ext; reflexivity. Qed.
Lemma wf_set_variables v s : wf s -> wf (set_variables v s).
Proof. apply wf_ext; reflexivity. Qed.
Lemma wf_set_flags w t s : wf s -> wf (set_flags w t s).
Proof. apply wf_ext; reflexivity. Qed.
Lemma wf_set_reads v s : wf s -> wf (set_reads v s).
Proof. apply wf_ext; reflexivity. Qed.

#[local] Hint Resolve wf_set_immediate wf_set_input wf_set_outputs wf_set_state wf_set_rng
  wf_set_variables wf_set_flags wf_set_reads : wfdb.

(* association lists *)
Lemma alist_get_In {V} k (l : list (bytes * V)) v : alist_get k l = Some v -> exists k', In (k', v) l.
Proof.
  induction l as [|[k' v'] l IH]; cbn [alist_get]; [discriminate|].
  destruct (bytes_eqb k k').
  - intros H; inversion H; subst. exists k'. left; reflexivity.
  - intros H. destruct (IH H) as [k2 H2]. exists k2. right; exact H2.
Qed.

Lemma alist_get_set_same {V} k (v : V) l : alist_get k (alist_set k v l) = Some v.
Proof.
  induction l as [|[k' v'] l IH]; cbn [alist_set alist_get].
  - rewrite bytes_eqb_refl; reflexivity.
  - destruct (bytes_eqb k k') eqn:E; cbn [alist_get]; rewrite ?bytes_eqb_refl, ?E; auto.
Qed.

Lemma Forall_alist_set {V} (P : bytes * V -> Prop) k v l :
  (forall k', P (k', v)) -> Forall P l -> Forall P (alist_set k v l).
Proof.
  intros Hv. induction l as [|[k' v'] l IH]; cbn [alist_set]; intros H.
  - constructor; [apply Hv|constructor].
  - inversion H; subst. destruct (bytes_eqb k k'); constructor; auto.
Qed.

Lemma Forall_alist_get {V} (P : bytes * V -> Prop) k v l :
  Forall P l -> alist_get k l = Some v -> exists k', P (k', v).
Proof.
  intros H Hg. destruct (alist_get_In _ _ _ Hg) as [k' Hin]. exists k'.
  rewrite Forall_forall in H. apply H; exact Hin.
Qed.

(* ------------------------------------------------------------------ *)
(* 3. Outcome-aware relations.  [R s r s']: a run from [s] that ends with
   outcome [r] (value forgotten) ends in [s'].  Unlike [Monad.mrel] the
   relation may say different things for different outcomes. *)

Definition forget {A} (r : res A) : res unit :=
  match r with
  | Ok _ => Ok tt | Err e l => Err e l | Panic p => Panic p
  | OutOfFuel => OutOfFuel | OracleMiss => OracleMiss
  end.

Definition orel {A} (R : interp -> res unit -> interp -> Prop) (m : M A) : Prop :=
  forall s, R s (forget (fst (m s))) (snd (m s)).

(* the same under an extra precondition on the start state *)
Definition orelP {A} (P : interp -> Prop) (R : interp -> res unit -> interp -> Prop) (m : M A) : Prop :=
  forall s, P s -> R s (forget (fst (m s))) (snd (m s)).

(* an [Ok]-only postcondition *)
Definition mpost {A} (P : interp -> Prop) (m : M A) (Q : A -> interp -> Prop) : Prop :=
  forall s, P s -> match m s with (Ok a, s') => Q a s' | _ => True end.

Record ocat (R : interp -> res unit -> interp -> Prop) : Prop := {
  oc_ok : forall s, R s (Ok tt) s;
  oc_trans : forall a b c r, R a (Ok tt) b -> R b r c -> R a r c;
  oc_err : forall s e, R s (Err e None) s;
  oc_fuel : forall s, R s OutOfFuel s;
  oc_miss : forall s, R s OracleMiss s }.

Lemma bind_run {A B} (m : M A) (f : A -> M B) s :
  bind m f s = match m s with
               | (Ok a, s') => f a s'
               | (Err e l, s') => (Err e l, s')
               | (Panic p, s') => (Panic p, s')
               | (OutOfFuel, s') => (OutOfFuel, s')
               | (OracleMiss, s') => (OracleMiss, s')
               end.
Proof. reflexivity. Qed.

Lemma bind_ret {A B} (a : A) (K : A -> M B) s : bind (ret a) K s = K a s.
Proof. reflexivity. Qed.

Section ORules.
  Variable R : interp -> res unit -> interp -> Prop.
  Hypothesis OC : ocat R.

  Lemma orel_ret {A} (a : A) : orel R (ret a).
  Proof. intros s; apply (oc_ok _ OC). Qed.
  Lemma orel_get {A} (f : interp -> A) : orel R (get f).
  Proof. intros s; apply (oc_ok _ OC). Qed.
  Lemma orel_fail {A} e : orel R (@fail A e).
  Proof. intros s; apply (oc_err _ OC). Qed.
  Lemma orel_out_of_fuel {A} : orel R (@out_of_fuel A).
  Proof. intros s; apply (oc_fuel _ OC). Qed.
  Lemma orel_oracle_miss {A} : orel R (@oracle_miss A).
  Proof. intros s; apply (oc_miss _ OC). Qed.

  Lemma orel_modify f : (forall s, R s (Ok tt) (f s)) -> orel R (modify f).
  Proof. intros H s; apply H. Qed.

  Lemma orel_bind {A B} (m : M A) (f : A -> M B) :
    orel R m -> (forall a, orel R (f a)) -> orel R (bind m f).
  Proof.
    intros Hm Hf s. rewrite bind_run. specialize (Hm s).
    destruct (m s) as [[a|e l|p| |] s1]; cbn [fst snd forget] in *; try exact Hm.
    eapply (oc_trans _ OC); [exact Hm | apply Hf].
  Qed.

  Lemma orel_repeat {S T} n (body : S -> M (S + T)) :
    (forall acc, orel R (body acc)) -> forall acc, orel R (repeat_m n body acc).
  Proof.
    intros Hb. induction n as [|n IH]; intros acc; cbn [repeat_m].
    - apply orel_out_of_fuel.
    - apply orel_bind; [apply Hb|]. intros [acc'|r]; [apply IH | apply orel_ret].
  Qed.

  Lemma orelP_bind {A B} (P : interp -> Prop) (Q : A -> interp -> Prop) (m : M A) (f : A -> M B) :
    orelP P R m -> mpost P m Q -> (forall a, orelP (Q a) R (f a)) -> orelP P R (bind m f).
  Proof.
    intros Hm Hq Hf s HP. rewrite bind_run. specialize (Hm s HP). specialize (Hq s HP).
    destruct (m s) as [[a|e l|p| |] s1]; cbn [fst snd forget] in *; try exact Hm.
    eapply (oc_trans _ OC); [exact Hm | apply Hf; exact Hq].
  Qed.

  Lemma orelP_of_orel {A} P (m : M A) : orel R m -> orelP P R m.
  Proof. intros H s _; apply H. Qed.

  Lemma orel_of_orelP {A} (m : M A) : orelP (fun _ => True) R m -> orel R m.
  Proof. intros H s; apply H; exact I. Qed.
End ORules.

Lemma orel_weaken {A} (R1 R2 : interp -> res unit -> interp -> Prop) (m : M A) :
  (forall s r s', R1 s r s' -> R2 s r s') -> orel R1 m -> orel R2 m.
Proof. intros H Hm s; apply H, Hm. Qed.

(* The structural walker, syntactically guarded. *)
Ltac orel_step OC leaf :=
  lazymatch goal with
  | |- orel _ (ret _) => apply (orel_ret _ OC)
  | |- orel _ (fail _) => apply (orel_fail _ OC)
  | |- orel _ out_of_fuel => apply (orel_out_of_fuel _ OC)
  | |- orel _ oracle_miss => apply (orel_oracle_miss _ OC)
  | |- orel _ (get _) => apply (orel_get _ OC)
  | |- orel _ (bind _ _) => first [ solve [leaf] | apply (orel_bind _ OC); [| intro] ]
  | |- orel _ (repeat_m _ _ _) => apply (orel_repeat _ OC); intro
  | |- orel _ (match ?x with _ => _ end) => destruct x
  | |- _ => solve [leaf]
  end.
Ltac orel_walk OC leaf := repeat (orel_step OC leaf).

(* ------------------------------------------------------------------ *)
(* 4. The expression relation *)

Definition is_val (r : res unit) : Prop :=
  match r with Ok _ | Err _ _ => True | _ => False end.

Record ER (s : interp) (r : res unit) (s' : interp) : Prop := {
  er_wf : wf s';
  er_toks : st_toks s' = st_toks s;
  er_keys : st_keys s' = st_keys s;
  er_imm : immediate s' = immediate s;
  er_fns : functions s' = functions s;
  er_nopanic : forall p, r <> Panic p;
  er_errloc : forall e l, r = Err e (Some l) -> line_exists s' l;
  er_stack : is_val r -> stack s' = stack s;
  er_loc : r = Ok tt -> loc_line (loc s') = loc_line (loc s) /\ loc_idx (loc s) <= loc_idx (loc s') }.

Definition ERw (s : interp) (r : res unit) (s' : interp) : Prop := wf s -> ER s r s'.

Lemma ERw_ocat : ocat ERw.
Proof.
  split.
  - intros s Hwf. split; auto; try discriminate.
  - intros a b c r H1 H2 Hwf.
    destruct (H1 Hwf) as [A1 A2 A3 A4 A5 A6 A7 A8 A9].
    destruct (H2 A1) as [B1 B2 B3 B4 B5 B6 B7 B8 B9].
    split; [exact B1|congruence|congruence|congruence|congruence|exact B6|exact B7| |].
    + intros Hv. rewrite (B8 Hv). apply A8; exact I.
    + intros Hr. destruct (B9 Hr) as [C1 C2]. destruct (A9 eq_refl) as [D1 D2]. split; [congruence|lia].
  - intros s e Hwf. split; auto; try discriminate.
  - intros s Hwf. split; auto; try discriminate.
  - intros s Hwf. split; auto; try discriminate.
Qed.

(* a step that leaves every field read by [wf], the immediate line and the
   cursor alone *)
Lemma ER_frame s s' :
  st_toks s' = st_toks s -> st_keys s' = st_keys s -> immediate s' = immediate s -> loc s' = loc s ->
  breakpoint s' = breakpoint s -> stack s' = stack s -> loops s' = loops s ->
  functions s' = functions s -> data_it s' = data_it s -> arrays s' = arrays s ->
  ERw s (Ok tt) s'.
Proof.
  intros Ht Hk Hi Hl Hb Hs Hlp Hf Hd Ha Hwf.
  split; auto; try discriminate.
  - eapply wf_ext; eauto.
  - intros _. rewrite Hl. split; [reflexivity|lia].
Qed.

Lemma er_modify_frame f :
  (forall s, st_toks (f s) = st_toks s /\ st_keys (f s) = st_keys s /\ immediate (f s) = immediate s
             /\ loc (f s) = loc s /\ breakpoint (f s) = breakpoint s /\ stack (f s) = stack s
             /\ loops (f s) = loops s /\ functions (f s) = functions s /\ data_it (f s) = data_it s
             /\ arrays (f s) = arrays s) ->
  orel ERw (modify f).
Proof.
  intros H. apply orel_modify. intros s.
  destruct (H s) as (H1 & H2 & H3 & H4 & H5 & H6 & H7 & H8 & H9 & H10). apply ER_frame; assumption.
Qed.

Ltac frame_tac := apply er_modify_frame; intros; repeat split; reflexivity.

(* token cursor *)
Definition cur_toks (s : interp) : list token :=
  match loc_line (loc s) with
  | None => immediate s
  | Some n => match toks_get n (st_toks s) with Some ts => ts | None => [] end
  end.

Definition bump (s : interp) : interp := set_reads (S (reads s)) s.

Lemma cur_tokens_eq s : line_exists s (loc s) -> cur_tokens s = (Ok (cur_toks s), s).
Proof.
  unfold cur_tokens, cur_toks, line_exists, line_ok. rewrite bind_get. unfold tokens_for_line.
  destruct (loc_line (loc s)) as [n|]; [|reflexivity].
  destruct (toks_get n (st_toks s)); [reflexivity|congruence].
Qed.

Lemma peek_eq s :
  line_exists s (loc s) ->
  peek_next_token s = (Ok (nth_error (cur_toks s) (loc_idx (loc s))), bump s).
Proof.
  intros H. unfold peek_next_token. rewrite bind_modify. fold (bump s).
  rewrite bind_run, (cur_tokens_eq (bump s) H). reflexivity.
Qed.

Lemma er_peek : orel ERw peek_next_token.
Proof.
  intros s Hwf. rewrite (peek_eq s (wf_loc _ Hwf)). cbn [fst snd forget].
  apply ER_frame; auto; reflexivity.
Qed.

Lemma er_cur_tokens : orel ERw cur_tokens.
Proof.
  intros s Hwf. rewrite (cur_tokens_eq s (wf_loc _ Hwf)). cbn [fst snd forget].
  apply (oc_ok _ ERw_ocat); exact Hwf.
Qed.

Lemma er_advance : orel ERw advance.
Proof.
  apply orel_modify. intros s Hwf. split; try reflexivity; try discriminate.
  - apply wf_set_loc; [exact Hwf|]. exact (wf_loc _ Hwf).
  - intros _. proj_simpl. split; [reflexivity|lia].
Qed.

Lemma er_fail_at_loc {A} e : orel ERw (l <- get loc ;; @fail_at A e l).
Proof.
  intros s Hwf. cbn. split; auto; try discriminate.
  intros e' l' H. inversion H; subst. exact (wf_loc _ Hwf).
Qed.

Create HintDb erdb discriminated.
#[local] Hint Resolve er_peek er_cur_tokens er_advance er_fail_at_loc : erdb.

Ltac er_leaf := solve [ auto 3 with erdb nocore | frame_tac ].
Ltac er_walk := orel_walk ERw_ocat er_leaf.

Lemma er_has_next : orel ERw has_next_token.
Proof. unfold has_next_token; er_walk. Qed.
Lemma er_next_token : orel ERw next_token.
Proof. unfold next_token; er_walk. Qed.
#[local] Hint Resolve er_has_next er_next_token : erdb.
Lemma er_next_unwrapped : orel ERw next_unwrapped_token.
Proof. unfold next_unwrapped_token; er_walk. Qed.
#[local] Hint Resolve er_next_unwrapped : erdb.
Lemma er_expect t : orel ERw (expect_next_token t).
Proof. unfold expect_next_token; er_walk. Qed.
Lemma er_accept t : orel ERw (accept_next_token t).
Proof. unfold accept_next_token; er_walk. Qed.
Lemma er_peek_is t : orel ERw (peek_is t).
Proof. unfold peek_is; er_walk. Qed.
Lemma er_try {B} (g : token -> option B) : orel ERw (try_next_token g).
Proof. unfold try_next_token; er_walk. Qed.
#[local] Hint Resolve er_expect er_accept er_peek_is er_try : erdb.

(* stack lookups, variables, output, random numbers, operators *)
Lemma er_find_var n : orel ERw (find_variable_value_in_stack n).
Proof. unfold find_variable_value_in_stack; er_walk. Qed.
Lemma er_variables_get n : orel ERw (variables_get n).
Proof. unfold variables_get; er_walk. Qed.
Lemma er_push_output o : orel ERw (push_output o).
Proof. unfold push_output; er_walk. Qed.
Lemma er_get_line_number : orel ERw get_line_number.
Proof. unfold get_line_number; er_walk. Qed.
#[local] Hint Resolve er_find_var er_variables_get er_push_output er_get_line_number : erdb.
Lemma er_warn m : orel ERw (warn m).
Proof. unfold warn; er_walk. Qed.
#[local] Hint Resolve er_warn : erdb.
Lemma er_maybe_warn n : orel ERw (maybe_warn_undeclared_array n).
Proof. unfold maybe_warn_undeclared_array; er_walk. Qed.
Lemma er_rng_rnd x : orel ERw (rng_rnd x).
Proof. unfold rng_rnd; er_walk. Qed.
Lemma er_eval_unary o v : orel ERw (eval_unary o v).
Proof. unfold eval_unary; er_walk. Qed.
Lemma er_eval_addsub o a b : orel ERw (eval_addsub o a b).
Proof. unfold eval_addsub; er_walk. Qed.
Lemma er_eval_muldiv o a b : orel ERw (eval_muldiv o a b).
Proof. unfold eval_muldiv; er_walk. Qed.
Lemma er_eval_eq o a b : orel ERw (eval_eq o a b).
Proof. unfold eval_eq; er_walk. Qed.
Lemma er_eval_and a b : orel ERw (eval_and a b).
Proof. unfold eval_and; er_walk. Qed.
Lemma er_eval_or a b : orel ERw (eval_or a b).
Proof. unfold eval_or; er_walk. Qed.
Lemma er_eval_pow a b : orel ERw (eval_pow a b).
Proof. unfold eval_pow; er_walk. Qed.
Lemma er_expect_number v : orel ERw (expect_number v).
Proof. unfold expect_number; er_walk. Qed.
#[local] Hint Resolve er_maybe_warn er_rng_rnd er_eval_unary er_eval_addsub er_eval_muldiv er_eval_eq
  er_eval_and er_eval_or er_eval_pow er_expect_number : erdb.

(* pure results that are either a value or an error without location *)
Definition res_plain {A} (r : res A) : Prop :=
  match r with Ok _ | Err _ None => True | _ => False end.

Lemma er_lift_res {A} (r : res A) : res_plain r -> orel ERw (lift_res r).
Proof.
  intros H s. unfold lift_res; cbn [fst snd].
  destruct r as [a|e [l|]|p| |]; cbn in H; try contradiction; cbn [forget].
  - apply (oc_ok _ ERw_ocat).
  - apply (oc_err _ ERw_ocat).
Qed.

(* ---- arrays: PArrayUnwrap and PCellIndex ---- *)

Lemma checked_product_eq l : forall acc t, checked_product l acc = Some t -> t = (acc * dims_prod l)%N.
Proof.
  induction l as [|d l IH]; intros acc t; cbn [checked_product dims_prod].
  - intros H; inversion H; lia.
  - destruct (USIZE_MAX <? acc * d)%N; [discriminate|]. intros H. rewrite (IH _ _ H). lia.
Qed.

Lemma array_create_value_plain name mi : res_plain (array_create_value name mi).
Proof.
  unfold array_create_value. destruct mi as [|m mi]; [exact I|].
  destruct (existsb _ _); [exact I|].
  destruct (checked_product _ _); [|exact I].
  destruct (max_dim_total <? n)%N; exact I.
Qed.

Lemma array_create_value_ok name mi a : array_create_value name mi = Ok a -> arr_ok a.
Proof.
  unfold array_create_value. destruct mi as [|m mi]; [discriminate|].
  destruct (existsb _ _); [discriminate|].
  destruct (checked_product _ _) as [t|] eqn:E; [|discriminate].
  destruct (max_dim_total <? t)%N; [discriminate|].
  intros H; inversion H; subst; clear H. unfold arr_ok; cbn [ar_cells ar_dims].
  rewrite repeat_length, N2Nat.id. apply checked_product_eq in E. rewrite E, N.mul_1_l. reflexivity.
Qed.

Lemma linear_index_bound idx : forall dims acc stride i,
  length idx = length dims -> (acc < stride)%N ->
  linear_index idx dims acc stride = Some i -> (i < stride * dims_prod dims)%N.
Proof.
  induction idx as [|x idx IH]; intros dims acc stride i Hlen Hacc; destruct dims as [|d dims];
    cbn [length] in Hlen; try discriminate; cbn [linear_index dims_prod].
  - intros H; inversion H; subst. lia.
  - destruct (d <=? x)%N eqn:E; [discriminate|]. apply N.leb_gt in E. intros H.
    apply IH in H; [| lia | nia]. nia.
Qed.

Lemma array_linear_index_plain a idx : res_plain (array_linear_index a idx).
Proof.
  unfold array_linear_index. destruct (negb _); [exact I|]. destruct (linear_index _ _ _ _); exact I.
Qed.

Lemma array_linear_index_bound a idx i :
  arr_ok a -> array_linear_index a idx = Ok i -> N.to_nat i < length (ar_cells a).
Proof.
  unfold array_linear_index, arr_ok. intros Hok.
  destruct (Nat.eqb (length idx) (length (ar_dims a))) eqn:E; cbn [negb]; [|discriminate].
  apply Nat.eqb_eq in E.
  destruct (linear_index idx (ar_dims a) 0 1) as [j|] eqn:El; [|discriminate].
  intros H; inversion H; subst. apply linear_index_bound in El; [|exact E|lia]. lia.
Qed.

Lemma length_list_update {A} (l : list A) : forall i v, length (list_update l i v) = length l.
Proof.
  induction l as [|x l IH]; intros i v; cbn [list_update]; [reflexivity|].
  destruct i; cbn [length]; [reflexivity|rewrite IH; reflexivity].
Qed.

Lemma ER_set_arrays v s : Forall (fun kv => arr_ok (snd kv)) v -> ERw s (Ok tt) (set_arrays v s).
Proof.
  intros Hv Hwf. split; try reflexivity; try discriminate.
  - apply wf_set_arrays; assumption.
  - intros _; split; [reflexivity|apply le_n].
Qed.

Lemma arr_ok_of_get s name a : wf s -> alist_get name (arrays s) = Some a -> arr_ok a.
Proof.
  intros Hwf Hg. destruct (Forall_alist_get _ _ _ _ (wf_arrays _ Hwf) Hg) as [k H]. exact H.
Qed.

Lemma er_maybe_default name d : orel ERw (maybe_create_default_array name d).
Proof.
  intros s Hwf. unfold maybe_create_default_array. rewrite bind_get.
  destruct (alist_has name (arrays s)); [apply (oc_ok _ ERw_ocat); exact Hwf|].
  rewrite bind_run. unfold lift_res.
  pose proof (array_create_value_plain name (repeat DEFAULT_ARRAY_SIZE d)) as Hp.
  destruct (array_create_value name (repeat DEFAULT_ARRAY_SIZE d)) as [a|e [l|]|p| |] eqn:E;
    cbn in Hp; try contradiction.
  - unfold modify; cbn [fst snd forget]. apply ER_set_arrays; [|exact Hwf].
    apply Forall_alist_set; [|exact (wf_arrays _ Hwf)].
    intros k; cbn [snd]. eapply array_create_value_ok; exact E.
  - cbn [fst snd forget]. apply (oc_err _ ERw_ocat); exact Hwf.
Qed.

Lemma maybe_default_post name d :
  mpost (fun _ => True) (maybe_create_default_array name d)
        (fun _ s' => alist_has name (arrays s') = true).
Proof.
  intros s _. unfold maybe_create_default_array. rewrite bind_get.
  destruct (alist_has name (arrays s)) eqn:Hh; [exact Hh|].
  rewrite bind_run. unfold lift_res.
  destruct (array_create_value name (repeat DEFAULT_ARRAY_SIZE d)) as [a|e l|p| |]; try exact I.
  unfold modify, alist_has; proj_simpl. rewrite alist_get_set_same. reflexivity.
Qed.

Lemma er_arrays_get name idx : orel ERw (arrays_get name idx).
Proof.
  unfold arrays_get. apply (orel_of_orelP _).
  eapply (orelP_bind _ ERw_ocat) with (Q := fun _ s' => alist_has name (arrays s') = true).
  - apply orelP_of_orel, er_maybe_default.
  - apply maybe_default_post.
  - intros _ s Hhas Hwf. rewrite bind_get. unfold alist_has in Hhas.
    destruct (alist_get name (arrays s)) as [a|] eqn:Hg; [|discriminate].
    rewrite bind_run. unfold lift_res.
    pose proof (array_linear_index_plain a idx) as Hp.
    destruct (array_linear_index a idx) as [i|e [l|]|p| |] eqn:E; cbn in Hp; try contradiction.
    + pose proof (array_linear_index_bound a idx i (arr_ok_of_get _ _ _ Hwf Hg) E) as Hlt.
      destruct (nth_error (ar_cells a) (N.to_nat i)) as [v|] eqn:En.
      * apply (oc_ok _ ERw_ocat); exact Hwf.
      * apply nth_error_None in En. lia.
    + apply (oc_err _ ERw_ocat); exact Hwf.
Qed.

Lemma er_arrays_set name idx v : orel ERw (arrays_set name idx v).
Proof.
  unfold arrays_set. destruct (negb (type_matches name v)); [apply (orel_fail _ ERw_ocat)|].
  apply (orel_of_orelP _).
  eapply (orelP_bind _ ERw_ocat) with (Q := fun _ s' => alist_has name (arrays s') = true).
  - apply orelP_of_orel, er_maybe_default.
  - apply maybe_default_post.
  - intros _ s Hhas Hwf. rewrite bind_get. unfold alist_has in Hhas.
    destruct (alist_get name (arrays s)) as [a|] eqn:Hg; [|discriminate].
    destruct (negb (Bool.eqb _ _)); [apply (oc_err _ ERw_ocat); exact Hwf|].
    rewrite bind_run. unfold lift_res.
    pose proof (array_linear_index_plain a idx) as Hp.
    destruct (array_linear_index a idx) as [i|e [l|]|p| |] eqn:E; cbn in Hp; try contradiction.
    + pose proof (array_linear_index_bound a idx i (arr_ok_of_get _ _ _ Hwf Hg) E) as Hlt.
      apply Nat.ltb_lt in Hlt. rewrite Hlt. unfold modify; cbn [fst snd forget].
      apply ER_set_arrays; [|exact Hwf].
      apply Forall_alist_set; [|exact (wf_arrays _ Hwf)].
      intros k; cbn [snd]. unfold arr_ok; cbn [ar_cells ar_dims]. rewrite length_list_update.
      exact (arr_ok_of_get _ _ _ Hwf Hg).
    + apply (oc_err _ ERw_ocat); exact Hwf.
Qed.

Lemma er_arrays_create name mi : orel ERw (arrays_create name mi).
Proof.
  intros s Hwf. unfold arrays_create. rewrite bind_get.
  destruct (alist_has name (arrays s)); [apply (oc_err _ ERw_ocat); exact Hwf|].
  rewrite bind_run. unfold lift_res.
  pose proof (array_create_value_plain name mi) as Hp.
  destruct (array_create_value name mi) as [a|e [l|]|p| |] eqn:E; cbn in Hp; try contradiction.
  - unfold modify; cbn [fst snd forget]. apply ER_set_arrays; [|exact Hwf].
    apply Forall_alist_set; [|exact (wf_arrays _ Hwf)].
    intros k; cbn [snd]. eapply array_create_value_ok; exact E.
  - cbn [fst snd forget]. apply (oc_err _ ERw_ocat); exact Hwf.
Qed.
#[local] Hint Resolve er_maybe_default er_arrays_get er_arrays_set er_arrays_create : erdb.

(* ---- error locations name existing lines ---- *)

Lemma data_location_ok s l : wf s -> get_data_location s = Some l -> line_exists s l.
Proof.
  intros Hwf. unfold get_data_location. destruct (data_it s) as [d|] eqn:Hd; [|discriminate].
  destruct (nth_error (di_chunks d) (di_ci d)) as [[l0 items]|] eqn:En; [|discriminate].
  intros H; inversion H; subst. pose proof (wf_data _ Hwf _ Hd) as Hall.
  rewrite Forall_forall in Hall. apply nth_error_In in En. exact (Hall _ En).
Qed.

Lemma populate_loc_ok s e l l' :
  wf s -> (forall l0, l = Some l0 -> line_exists s l0) ->
  populate_error_location e l s = Some l' -> line_exists s l'.
Proof.
  intros Hwf Hl. unfold populate_error_location. destruct l as [l0|].
  - intros H; inversion H; subst. apply Hl; reflexivity.
  - destruct e; try (intros H; inversion H; subst; exact (wf_loc _ Hwf)).
    apply data_location_ok; exact Hwf.
Qed.

(* ---- user-defined function calls: PFunctionMustExist and PStackEmpty ---- *)

Lemma pop_eq s st fr :
  stack s = st ++ [fr] -> pop_function_call s = (Ok tt, set_loc (fr_ret fr) (set_stack st s)).
Proof.
  intros H. unfold pop_function_call. rewrite bind_get, H, rev_unit. unfold modify.
  rewrite rev_involutive. reflexivity.
Qed.

Lemma push_eq name b s d :
  alist_get name (functions s) = Some d ->
  push_function_call name b s =
    if Nat.eqb (length (stack s)) stack_limit then (Err EStackOverflow None, s)
    else (Ok tt, set_loc (mkloc (Some (fn_line d)) (fn_idx d))
                   (set_stack (stack s ++ [mkframe (loc s) b]) s)).
Proof.
  intros H. unfold push_function_call. rewrite bind_get.
  destruct (Nat.eqb (length (stack s)) stack_limit); [reflexivity|].
  rewrite bind_get, bind_modify, bind_get. proj_simpl. rewrite H. reflexivity.
Qed.

Lemma wf_stack_split s st fr :
  wf s -> stack s = st ++ [fr] ->
  Forall (fun fr => line_exists s (fr_ret fr)) st /\ line_exists s (fr_ret fr).
Proof.
  intros Hwf H. pose proof (wf_stack _ Hwf) as Hall. rewrite H in Hall.
  apply Forall_app in Hall. destruct Hall as [H1 H2]. split; [exact H1|]. inversion H2; assumption.
Qed.

Definition fn_known (name : bytes) (d : fn_def) (s : interp) : Prop :=
  alist_get name (functions s) = Some d.

Lemma fn_known_post {A} name d (m : M A) :
  orel ERw m ->
  mpost (fun s => wf s /\ fn_known name d s) m (fun _ s' => wf s' /\ fn_known name d s').
Proof.
  intros Hm s [Hwf Hf]. destruct (Hm s Hwf) as [A1 A2 A3 A4 A5 A6 A7 A8 A9].
  destruct (m s) as [[a|e l|p| |] s1]; cbn [fst snd] in *; auto.
  split; [exact A1|]. unfold fn_known. rewrite A5. exact Hf.
Qed.

(* what the call of a function body does, started with the callee frame on top *)
Record CB (s : interp) (st : list frame) (ret_loc : location) (r : res unit) (s' : interp) : Prop := {
  cb_wf : wf s';
  cb_toks : st_toks s' = st_toks s;
  cb_keys : st_keys s' = st_keys s;
  cb_imm : immediate s' = immediate s;
  cb_fns : functions s' = functions s;
  cb_nopanic : forall p, r <> Panic p;
  cb_errloc : forall e l, r = Err e (Some l) -> line_exists s' l;
  cb_stack : is_val r -> stack s' = st;
  cb_loc : r = Ok tt -> loc s' = ret_loc }.

Section ExprSafe.
  Variable fuel : nat.
  Variable rec : M value.
  Hypothesis Hrec : orel ERw rec.

  Lemma er_bind_arguments args : forall i n b, orel ERw (bind_arguments rec args i n b).
  Proof.
    induction args as [|a args IH]; intros i n b; cbn [bind_arguments]; er_walk.
  Qed.

  Lemma call_body_spec s st fr :
    wf s -> stack s = st ++ [fr] ->
    CB s st (fr_ret fr) (forget (fst (call_body rec s))) (snd (call_body rec s)).
  Proof.
    intros Hwf Hst. unfold call_body. destruct (Hrec s Hwf) as [A1 A2 A3 A4 A5 A6 A7 A8 A9].
    destruct (rec s) as [[v|e l|p| |] s1]; cbn [fst snd forget] in *.
    - assert (Hst1 : stack s1 = st ++ [fr]) by (rewrite A8; auto; exact I).
      rewrite (pop_eq s1 st fr Hst1). cbn [fst snd forget].
      destruct (wf_stack_split s1 st fr A1 Hst1) as [F1 F2].
      split; proj_simpl; auto; try discriminate.
      apply wf_set_loc; [apply wf_set_stack; assumption|exact F2].
    - assert (Hst1 : stack s1 = st ++ [fr]) by (rewrite A8; auto; exact I).
      rewrite (pop_eq s1 st fr Hst1). cbn [fst snd forget].
      destruct (wf_stack_split s1 st fr A1 Hst1) as [F1 F2].
      split; proj_simpl; auto; try discriminate.
      + apply wf_set_loc; [apply wf_set_stack; assumption|exact F2].
      + intros e0 l0 H; inversion H; subst.
        apply (populate_loc_ok s1 e0 l l0 A1); [|assumption].
        intros l1 ->. eapply A7; reflexivity.
    - exfalso; eapply A6; reflexivity.
    - split; auto; try discriminate. intros [].
    - split; auto; try discriminate. intros [].
  Qed.

  Lemma er_call_tail name d b :
    orelP (fun s => wf s /\ fn_known name d s) ERw
          (push_function_call name b ;;; v <- call_body rec ;; ret (Some v)).
  Proof.
    intros s [Hwf Hd] _. rewrite bind_run, (push_eq name b s d Hd).
    destruct (Nat.eqb (length (stack s)) stack_limit); [apply (oc_err _ ERw_ocat); exact Hwf|].
    assert (Hfn : toks_get (fn_line d) (st_toks s) <> None).
    { destruct (Forall_alist_get _ _ _ _ (wf_fns _ Hwf) Hd) as [k H]. exact H. }
    set (s1 := set_loc _ _).
    assert (Hwf1 : wf s1).
    { apply wf_set_loc; [apply wf_set_stack; [exact Hwf|]|exact Hfn].
      apply Forall_app; split; [exact (wf_stack _ Hwf)|]. constructor; [exact (wf_loc _ Hwf)|constructor]. }
    rewrite bind_run.
    destruct (call_body_spec s1 (stack s) (mkframe (loc s) b) Hwf1 eq_refl) as [C1 C2 C3 C4 C5 C6 C7 C8 C9].
    destruct (call_body rec s1) as [[v|e l|p| |] s2]; cbn [fst snd forget ret] in *;
      subst s1; proj_simpl; (split; auto; try discriminate).
    - intros _. rewrite C9 by reflexivity. cbn [fr_ret]. split; [reflexivity|apply le_n].
  Qed.

  Lemma er_user_function_call name : orel ERw (user_function_call rec name).
  Proof.
    intros s Hwf. unfold user_function_call. rewrite bind_get.
    destruct (alist_get name (functions s)) as [d|] eqn:Hd; [|apply (oc_ok _ ERw_ocat); exact Hwf].
    assert (H : orelP (fun s => wf s /\ fn_known name d s) ERw
                  (expect_next_token TLeftParen ;;;
                   bindings <- bind_arguments rec (fn_args d) 0 (length (fn_args d)) [] ;;
                   expect_next_token TRightParen ;;;
                   push_function_call name bindings ;;;
                   v <- call_body rec ;; ret (Some v))).
    { apply (orelP_bind _ ERw_ocat) with (Q := fun _ s => wf s /\ fn_known name d s);
        [apply orelP_of_orel, er_expect | apply fn_known_post, er_expect | intros _].
      apply (orelP_bind _ ERw_ocat) with (Q := fun _ s => wf s /\ fn_known name d s);
        [apply orelP_of_orel, er_bind_arguments | apply fn_known_post, er_bind_arguments | intros b].
      apply (orelP_bind _ ERw_ocat) with (Q := fun _ s => wf s /\ fn_known name d s);
        [apply orelP_of_orel, er_expect | apply fn_known_post, er_expect | intros _].
      apply er_call_tail. }
    apply H; [split; assumption|exact Hwf].
  Qed.

  Lemma er_array_index : orel ERw (evaluate_array_index fuel rec).
  Proof. unfold evaluate_array_index; er_walk. Qed.

  Lemma er_unary_arg : orel ERw (unary_number_function_arg rec).
  Proof. unfold unary_number_function_arg; er_walk. Qed.

  Lemma er_function_call name : orel ERw (function_call rec name).
  Proof.
    unfold function_call.
    orel_walk ERw_ocat ltac:(first [ apply er_unary_arg | apply er_user_function_call | er_leaf ]).
  Qed.

  Lemma er_unary : orel ERw (unary_operator fuel rec).
  Proof.
    unfold unary_operator, parenthesized_expression, expression_term.
    orel_walk ERw_ocat ltac:(first [ apply er_function_call | apply er_array_index | er_leaf ]).
  Qed.

  Lemma er_tier {O} (g : M (option O)) (operand : M value) (ap : O -> value -> value -> M value) :
    orel ERw g -> orel ERw operand -> (forall o a b, orel ERw (ap o a b)) ->
    orel ERw (tier fuel g operand ap).
  Proof. intros Hg Ho Ha. unfold tier; er_walk. Qed.

  Lemma er_accept_as {O} t (o : O) : orel ERw (accept_as t o).
  Proof. unfold accept_as; er_walk. Qed.

  Lemma er_logical_or : orel ERw (logical_or_expression fuel rec).
  Proof.
    unfold logical_or_expression, logical_and_expression, equality_expression,
      plus_or_minus_expression, multiply_or_divide_expression, exponent_expression.
    repeat (apply er_tier;
            [ first [apply er_accept_as | apply er_try] | | intros; er_leaf ]).
    apply er_unary.
  Qed.
End ExprSafe.

Lemma er_evaluate_expression fuel : forall n, orel ERw (evaluate_expression fuel n).
Proof.
  induction fuel as [|k IH]; intros n; cbn [evaluate_expression].
  - apply (orel_out_of_fuel _ ERw_ocat).
  - destruct (Nat.eqb n max_nesting); [apply (orel_fail _ ERw_ocat)|].
    apply er_logical_or; apply IH.
Qed.
#[local] Hint Resolve er_evaluate_expression : erdb.

(* ------------------------------------------------------------------ *)
(* 5. The statement relation: wf kept, store unchanged, no panic, error
   locations name existing lines. *)

Record SR (s : interp) (r : res unit) (s' : interp) : Prop := {
  sr_wf : wf s';
  sr_toks : st_toks s' = st_toks s;
  sr_keys : st_keys s' = st_keys s;
  sr_nopanic : forall p, r <> Panic p;
  sr_errloc : forall e l, r = Err e (Some l) -> line_exists s' l }.

Definition SRw (s : interp) (r : res unit) (s' : interp) : Prop := wf s -> SR s r s'.

Lemma SRw_ocat : ocat SRw.
Proof.
  split.
  - intros s Hwf. split; auto; discriminate.
  - intros a b c r H1 H2 Hwf.
    destruct (H1 Hwf) as [A1 A2 A3 A4 A5]. destruct (H2 A1) as [B1 B2 B3 B4 B5].
    split; [exact B1|congruence|congruence|exact B4|exact B5].
  - intros s e Hwf. split; auto; discriminate.
  - intros s Hwf. split; auto; discriminate.
  - intros s Hwf. split; auto; discriminate.
Qed.

Lemma ER_SR s r s' : ERw s r s' -> SRw s r s'.
Proof. intros H Hwf. destruct (H Hwf) as [A1 A2 A3 A4 A5 A6 A7 A8 A9]. split; assumption. Qed.

Lemma sr_of_er {A} (m : M A) : orel ERw m -> orel SRw m.
Proof. apply orel_weaken. exact ER_SR. Qed.

Lemma sr_of_orelP_wf {A} (m : M A) : orelP wf SRw m -> orel SRw m.
Proof. intros H s Hwf. exact (H s Hwf Hwf). Qed.

Lemma orelP_pure {A} (P : interp -> Prop) (F : Prop) R (m : M A) :
  (F -> orelP P R m) -> orelP (fun s => P s /\ F) R m.
Proof. intros H s [HP HF]; apply H; assumption. Qed.

Lemma orelP_weaken {A} (P P' : interp -> Prop) R (m : M A) :
  (forall s, P' s -> P s) -> orelP P R m -> orelP P' R m.
Proof. intros H Hm s HP; apply Hm, H, HP. Qed.

Lemma mpost_conj {A} P (m : M A) Q1 Q2 :
  mpost P m Q1 -> mpost P m Q2 -> mpost P m (fun a s => Q1 a s /\ Q2 a s).
Proof.
  intros H1 H2 s HP. specialize (H1 s HP). specialize (H2 s HP).
  destruct (m s) as [[a|e l|p| |] s1]; auto.
Qed.

Lemma mpost_True {A} P (m : M A) : mpost P m (fun _ _ => True).
Proof. intros s _. destruct (m s) as [[a|e l|p| |] s1]; exact I. Qed.

Lemma mpost_weaken {A} (P P' : interp -> Prop) (m : M A) Q :
  (forall s, P' s -> P s) -> mpost P m Q -> mpost P' m Q.
Proof. intros H Hm s HP; apply Hm, H, HP. Qed.

Lemma line_exists_same s s' l : st_toks s' = st_toks s -> line_exists s l -> line_exists s' l.
Proof. unfold line_exists. intros ->. auto. Qed.

Lemma Forall_firstn' {A} (P : A -> Prop) i l : Forall P l -> Forall P (firstn i l).
Proof.
  intros H. rewrite <- (firstn_skipn i l) in H. apply Forall_app in H. tauto.
Qed.

(* wf of the standard resets *)
Ltac wf_solve :=
  repeat first
    [ assumption
    | apply wf_set_immediate | apply wf_set_input | apply wf_set_outputs | apply wf_set_state
    | apply wf_set_rng | apply wf_set_variables | apply wf_set_flags | apply wf_set_reads
    | apply wf_set_breakpoint; [| discriminate]
    | apply wf_set_data_it; [| discriminate]
    | apply wf_set_functions; [| constructor]
    | apply wf_set_stack; [| constructor]
    | apply wf_set_loops; [| constructor]
    | apply wf_set_arrays; [| constructor]
    | apply wf_set_loc; [| exact I] ].

Lemma wf_imm_reset ts s : wf s -> wf (imm_reset ts s).
Proof. intros Hwf. unfold imm_reset. destruct (breakpoint s); wf_solve. Qed.

Ltac sr_modify_tac :=
  apply (orel_modify SRw); intros ?s ?Hwf;
  split; [wf_solve | reflexivity | reflexivity | discriminate | discriminate].

Create HintDb srdb discriminated.

Ltac sr_leaf :=
  first [ solve [ auto 3 with srdb nocore ]
        | solve [ apply sr_of_er; er_leaf ]
        | solve [ sr_modify_tac ] ].
Ltac sr_walk := orel_walk SRw_ocat sr_leaf.

Lemma sr_set_imm ts : orel SRw (set_and_goto_immediate_line ts).
Proof.
  rewrite set_imm_is_modify. apply orel_modify. intros s Hwf.
  pose proof (imm_reset_same_store ts s) as [H1 H2].
  split; [apply wf_imm_reset; exact Hwf|exact H1|exact H2|discriminate|discriminate].
Qed.
#[local] Hint Resolve sr_set_imm : srdb.

Lemma sr_program_end : orel SRw program_end.
Proof. unfold program_end; sr_walk. Qed.
Lemma sr_reset_data : orel SRw reset_data_cursor.
Proof. unfold reset_data_cursor; sr_walk. Qed.
#[local] Hint Resolve sr_program_end sr_reset_data : srdb.

Lemma sr_discard : orel SRw discard_remaining_tokens.
Proof.
  unfold discard_remaining_tokens. apply (orel_bind _ SRw_ocat); [sr_leaf|intros ts].
  apply orel_modify. intros s Hwf.
  split; [|reflexivity|reflexivity|discriminate|discriminate].
  apply wf_set_loc; [exact Hwf|exact (wf_loc _ Hwf)].
Qed.
#[local] Hint Resolve sr_discard : srdb.

Lemma sr_variables_set n v : orel SRw (variables_set n v).
Proof. unfold variables_set; sr_walk. Qed.
#[local] Hint Resolve sr_variables_set : srdb.

(* loops *)
Lemma sr_remove_loop sym : orel SRw (remove_loop_with_name sym).
Proof.
  intros s Hwf. unfold remove_loop_with_name. rewrite bind_get.
  destruct (find_loop_rev sym (loops s)) as [i|]; [|apply (oc_ok _ SRw_ocat); exact Hwf].
  rewrite bind_modify. cbn [ret fst snd forget].
  split; [|reflexivity|reflexivity|discriminate|discriminate].
  apply wf_set_loops; [exact Hwf|]. apply Forall_firstn'. exact (wf_loops _ Hwf).
Qed.

Lemma remove_loop_post sym :
  mpost wf (remove_loop_with_name sym)
        (fun li s' => forall x, li = Some x -> line_exists s' (lp_loc x)).
Proof.
  intros s Hwf. unfold remove_loop_with_name. rewrite bind_get.
  destruct (find_loop_rev sym (loops s)) as [i|]; [|cbn; discriminate].
  rewrite bind_modify. cbn [ret]. intros x Hx. apply nth_error_In in Hx.
  pose proof (wf_loops _ Hwf) as Hall. rewrite Forall_forall in Hall. exact (Hall _ Hx).
Qed.
#[local] Hint Resolve sr_remove_loop : srdb.

Lemma sr_start_loop sym a b c : orel SRw (start_loop sym a b c).
Proof.
  unfold start_loop. apply (orel_bind _ SRw_ocat); [sr_leaf|intros _].
  intros s Hwf. rewrite bind_get.
  destruct (Nat.eqb (length (loops s)) stack_limit); [apply (oc_err _ SRw_ocat); exact Hwf|].
  rewrite bind_get, bind_modify.
  eapply (oc_trans _ SRw_ocat); [|apply sr_variables_set|exact Hwf].
  intros _. split; [|reflexivity|reflexivity|discriminate|discriminate].
  apply wf_set_loops; [exact Hwf|]. apply Forall_app; split; [exact (wf_loops _ Hwf)|].
  constructor; [exact (wf_loc _ Hwf)|constructor].
Qed.

Lemma sr_end_loop sym : orel SRw (end_loop sym).
Proof.
  unfold end_loop. apply (orel_bind _ SRw_ocat); [sr_leaf|intros cur].
  destruct cur as [str|x]; [apply (orel_fail _ SRw_ocat)|].
  apply sr_of_orelP_wf.
  eapply (orelP_bind _ SRw_ocat) with (Q := fun li s' => forall x, li = Some x -> line_exists s' (lp_loc x)).
  - apply orelP_of_orel, sr_remove_loop.
  - apply remove_loop_post.
  - intros [li|]; [|apply orelP_of_orel, (orel_fail _ SRw_ocat)].
    destruct (negb _); [apply orelP_of_orel, (orel_fail _ SRw_ocat)|].
    eapply (orelP_bind _ SRw_ocat) with (Q := fun _ _ => True);
      [| apply mpost_True
       | intros _; apply orelP_of_orel, sr_variables_set].
    intros s HQ Hwf. specialize (HQ li eq_refl).
    match goal with |- context [if ?c then _ else _] => destruct c end;
      [|apply (oc_ok _ SRw_ocat); exact Hwf].
    unfold modify; cbn [fst snd forget].
    split; [|reflexivity|reflexivity|discriminate|discriminate].
    apply wf_set_loops; [apply wf_set_loc; assumption|].
    apply Forall_app; split; [exact (wf_loops _ Hwf)|]. constructor; [exact HQ|constructor].
Qed.
#[local] Hint Resolve sr_start_loop sr_end_loop : srdb.

(* jumps *)
Lemma sr_goto n : orel SRw (goto_line_number n).
Proof.
  intros s Hwf. unfold goto_line_number. rewrite bind_modify, bind_get.
  unfold store_has; proj_simpl.
  destruct (toks_get n (st_toks s)) as [ts|] eqn:E; unfold modify, fail; cbn [fst snd forget].
  - split; [|reflexivity|reflexivity|discriminate|discriminate].
    apply wf_set_loc; [wf_solve|]. unfold line_exists, line_ok; proj_simpl. rewrite E; discriminate.
  - split; [wf_solve|reflexivity|reflexivity|discriminate|discriminate].
Qed.
#[local] Hint Resolve sr_goto : srdb.

Lemma sr_gosub n : orel SRw (gosub_line_number n).
Proof.
  intros s Hwf. unfold gosub_line_number. rewrite bind_get.
  destruct (Nat.eqb (length (stack s)) stack_limit); [apply (oc_err _ SRw_ocat); exact Hwf|].
  rewrite bind_get, bind_run.
  destruct (sr_goto n s Hwf) as [A1 A2 A3 A4 A5].
  destruct (goto_line_number n s) as [[[]|e l|p| |] s1]; cbn [fst snd forget] in *;
    try (split; assumption).
  unfold modify; cbn [fst snd forget].
  split; [|exact A2|exact A3|discriminate|discriminate].
  apply wf_set_stack; [exact A1|]. apply Forall_app; split; [exact (wf_stack _ A1)|].
  constructor; [|constructor]. cbn [fr_ret]. apply (line_exists_same s s1 _ A2). exact (wf_loc _ Hwf).
Qed.

Lemma sr_return : orel SRw return_to_last_gosub.
Proof.
  intros s Hwf. unfold return_to_last_gosub. rewrite bind_modify, bind_get. proj_simpl.
  destruct (rev (stack s)) as [|fr rest] eqn:E; unfold modify, fail; cbn [fst snd forget].
  - split; [wf_solve|reflexivity|reflexivity|discriminate|discriminate].
  - assert (Hst : stack s = rev rest ++ [fr]).
    { rewrite <- (rev_involutive (stack s)), E. reflexivity. }
    destruct (wf_stack_split s _ _ Hwf Hst) as [F1 F2].
    split; [|reflexivity|reflexivity|discriminate|discriminate].
    apply wf_set_loc; [apply wf_set_stack; [wf_solve|exact F1]|exact F2].
Qed.
#[local] Hint Resolve sr_gosub sr_return : srdb.

Lemma sr_define_function name args : orel SRw (define_function name args).
Proof.
  intros s Hwf. unfold define_function. rewrite bind_get.
  pose proof (wf_loc _ Hwf) as Hl. unfold line_exists, line_ok in Hl.
  destruct (loc_line (loc s)) as [n|]; [|apply (oc_err _ SRw_ocat); exact Hwf].
  unfold modify; cbn [fst snd forget].
  split; [|reflexivity|reflexivity|discriminate|discriminate].
  apply wf_set_functions; [exact Hwf|].
  apply Forall_alist_set; [|exact (wf_fns _ Hwf)]. intros k; cbn [snd fn_line]. exact Hl.
Qed.
#[local] Hint Resolve sr_define_function : srdb.

Lemma sr_program_break : orel SRw program_break_at_current_location.
Proof.
  intros s Hwf. unfold program_break_at_current_location.
  rewrite bind_get, bind_modify, set_imm_is_modify. unfold modify; cbn [fst snd forget].
  assert (Hwf1 : wf (set_breakpoint (numbered_of (loc s)) s)).
  { apply wf_set_breakpoint; [exact Hwf|]. intros p. unfold numbered_of.
    pose proof (wf_loc _ Hwf) as Hl. unfold line_exists, line_ok in Hl.
    destruct (loc_line (loc s)) as [n|]; [|discriminate]. intros H; inversion H; subst. exact Hl. }
  pose proof (imm_reset_same_store [] (set_breakpoint (numbered_of (loc s)) s)) as [H1 H2].
  split; [apply wf_imm_reset; exact Hwf1|exact H1|exact H2|discriminate|discriminate].
Qed.
#[local] Hint Resolve sr_program_break : srdb.

Lemma sr_continue_bp : orel SRw continue_from_breakpoint.
Proof.
  intros s Hwf. unfold continue_from_breakpoint.
  rewrite set_imm_is_modify, bind_modify, bind_get.
  pose proof (wf_imm_reset [] s Hwf) as Hwf1.
  pose proof (imm_reset_same_store [] s) as [H1 H2].
  destruct (breakpoint (imm_reset [] s)) as [p|] eqn:E; unfold modify, fail; cbn [fst snd forget].
  - split; [|exact H1|exact H2|discriminate|discriminate].
    apply wf_set_breakpoint; [|discriminate]. apply wf_set_loc; [exact Hwf1|].
    unfold line_exists, line_ok, loc_of_numbered; cbn [loc_line]. exact (wf_bp _ Hwf1 _ E).
  - split; [exact Hwf1|exact H1|exact H2|discriminate|discriminate].
Qed.

Lemma sr_reset_runtime : orel SRw reset_runtime_state.
Proof. unfold reset_runtime_state; sr_walk. Qed.
#[local] Hint Resolve sr_continue_bp sr_reset_runtime : srdb.

Lemma sr_run_from_first : orel SRw run_from_first_numbered_line.
Proof.
  unfold run_from_first_numbered_line. apply (orel_bind _ SRw_ocat); [sr_leaf|intros _].
  apply orel_modify. intros s Hwf. unfold store_first.
  destruct (st_keys s) as [|n ks] eqn:E; cbn [hd_error]; [apply (oc_ok _ SRw_ocat); exact Hwf|].
  split; [|reflexivity|reflexivity|discriminate|discriminate].
  apply wf_set_loc; [exact Hwf|]. unfold line_exists, line_ok; cbn [loc_line].
  destruct (wf_store _ Hwf) as (_ & Hk & _). apply Hk. rewrite E; left; reflexivity.
Qed.

Lemma keys_after_In n l m : keys_after n l = Some m -> In m l.
Proof.
  induction l as [|k l IH]; cbn [keys_after]; [discriminate|].
  destruct (n <? k)%N; [intros H; inversion H; left; reflexivity|intros H; right; auto].
Qed.

Lemma sr_next_line : orel SRw next_line.
Proof.
  intros s Hwf. unfold next_line. rewrite bind_get.
  destruct (loc_line (loc s)) as [n|]; [|apply (oc_ok _ SRw_ocat); exact Hwf].
  rewrite bind_get. unfold store_after.
  destruct (keys_after n (st_keys s)) as [m|] eqn:E; [|apply (oc_ok _ SRw_ocat); exact Hwf].
  rewrite bind_modify. cbn [ret fst snd forget].
  split; [|reflexivity|reflexivity|discriminate|discriminate].
  apply wf_set_loc; [exact Hwf|]. unfold line_exists, line_ok; cbn [loc_line].
  destruct (wf_store _ Hwf) as (_ & Hk & _). apply Hk. eapply keys_after_In; exact E.
Qed.
#[local] Hint Resolve sr_run_from_first sr_next_line : srdb.

(* ---- DATA: PListUnwrap in data_iterator ---- *)

Lemma data_chunks_of_line_locs n ts : forall i,
  Forall (fun c => loc_line (fst c) = Some n) (data_chunks_of_line n ts i).
Proof.
  induction ts as [|t ts IH]; intros i; cbn [data_chunks_of_line]; [constructor|].
  destruct t; try apply IH. constructor; [reflexivity|apply IH].
Qed.

Lemma data_chunks_ok toks keys :
  (forall n, In n keys -> toks_get n toks <> None) ->
  exists cs, data_chunks keys toks = Ok cs /\ Forall (fun c => line_ok toks (loc_line (fst c))) cs.
Proof.
  induction keys as [|n keys IH]; intros H; cbn [data_chunks].
  - exists []; split; [reflexivity|constructor].
  - destruct (toks_get n toks) as [ts|] eqn:E; [|exfalso; apply (H n); [left; reflexivity|exact E]].
    destruct IH as (cs & Hc & Hall); [intros k Hk; apply H; right; exact Hk|].
    rewrite Hc. eexists; split; [reflexivity|]. apply Forall_app; split; [|exact Hall].
    eapply Forall_impl; [|apply data_chunks_of_line_locs].
    intros c Hcl; cbn beta in Hcl. rewrite Hcl. cbn [line_ok]. rewrite E; discriminate.
Qed.

Lemma data_next_chunks fuel : forall d, di_chunks (snd (data_next fuel d)) = di_chunks d.
Proof.
  induction fuel as [|k IH]; intros d; cbn [data_next]; [reflexivity|].
  destruct (nth_error (di_chunks d) (di_ci d)) as [[l items]|]; [|reflexivity].
  destruct (nth_error items (di_ii d)); [reflexivity|]. rewrite IH. reflexivity.
Qed.

Lemma sr_next_data : orel SRw next_data_element.
Proof.
  intros s Hwf. unfold next_data_element.
  assert (Hd : exists d, (match data_it s with
                          | Some d => Ok d
                          | None => match data_chunks (st_keys s) (st_toks s) with
                                    | Ok cs => Ok (mkdi cs 0 0)
                                    | Panic p => Panic p
                                    | _ => Panic PListUnwrap
                                    end
                          end) = Ok d /\ Forall (fun c => line_exists s (fst c)) (di_chunks d)).
  { destruct (data_it s) as [d|] eqn:E.
    - exists d; split; [reflexivity|exact (wf_data _ Hwf _ E)].
    - destruct (data_chunks_ok (st_toks s) (st_keys s)) as (cs & Hc & Hall).
      + destruct (wf_store _ Hwf) as (_ & Hk & _). intros n Hn; apply Hk; exact Hn.
      + rewrite Hc. eexists; split; [reflexivity|exact Hall]. }
  destruct Hd as (d & -> & Hall).
  pose proof (data_next_chunks (S (S (length (di_chunks d)))) d) as Hch.
  destruct (data_next (S (S (length (di_chunks d)))) d) as [e d']. cbn [fst snd forget] in *.
  split; [|reflexivity|reflexivity|discriminate|discriminate].
  apply wf_set_data_it; [exact Hwf|]. intros d0 H; inversion H; subst. rewrite Hch. exact Hall.
Qed.
#[local] Hint Resolve sr_next_data : srdb.

Lemma coerce_data_plain name e : res_plain (coerce_data name e).
Proof. unfold coerce_data. destruct (ends_with_dollar name), e; exact I. Qed.

Lemma sr_lift_res {A} (r : res A) : res_plain r -> orel SRw (lift_res r).
Proof. intros H. apply sr_of_er, er_lift_res, H. Qed.

Lemma sr_lift_coerce name e : orel SRw (lift_res (coerce_data name e)).
Proof. apply sr_lift_res, coerce_data_plain. Qed.
#[local] Hint Resolve sr_lift_coerce : srdb.

Lemma er_take_input : orel ERw take_input.
Proof. unfold take_input; er_walk. Qed.
Lemma er_is_else : orel ERw is_else_of_then_clause.
Proof. unfold is_else_of_then_clause; er_walk. Qed.
#[local] Hint Resolve er_take_input er_is_else : erdb.

(* the INPUT reply parser always yields at least one item *)
Lemma dp_finish_nonempty q cur elems : dp_finish q cur elems <> [].
Proof.
  unfold dp_finish. destruct (if q then _ else _).
  - destruct elems; discriminate.
  - destruct elems; discriminate.
Qed.

Lemma dp_run_nonempty cs : forall q cur elems n, fst (dp_run cs q cur elems n) <> [].
Proof.
  induction cs as [|c cs IH]; intros q cur elems n; cbn [dp_run].
  - cbn [fst]. apply dp_finish_nonempty.
  - repeat match goal with
           | |- context [if ?b then _ else _] => destruct b
           end; try apply IH; cbn [fst]; apply dp_finish_nonempty.
Qed.

(* ---- INPUT: PRewind ---- *)

(* an INPUT token lies before the cursor on the current line *)
Definition input_before (s : interp) : Prop :=
  exists i, i < loc_idx (loc s) /\ nth_error (cur_toks s) i = Some TInput.

Lemma cur_toks_same s s' :
  st_toks s' = st_toks s -> immediate s' = immediate s -> loc_line (loc s') = loc_line (loc s) ->
  cur_toks s' = cur_toks s.
Proof. unfold cur_toks. intros -> -> ->. reflexivity. Qed.

Lemma input_before_post {A} (m : M A) :
  orel ERw m ->
  mpost (fun s => wf s /\ input_before s) m (fun _ s' => wf s' /\ input_before s').
Proof.
  intros Hm s [Hwf (i & Hi & Hn)]. destruct (Hm s Hwf) as [A1 A2 A3 A4 A5 A6 A7 A8 A9].
  destruct (m s) as [[a|e l|p| |] s1]; cbn [fst snd forget] in *; auto.
  destruct (A9 eq_refl) as [B1 B2]. split; [exact A1|]. exists i. split; [lia|].
  rewrite (cur_toks_same s s1 A2 A4 B1). exact Hn.
Qed.

Lemma next_token_eq s :
  line_exists s (loc s) ->
  next_token s =
    match nth_error (cur_toks s) (loc_idx (loc s)) with
    | Some t => (Ok (Some t), set_loc (mkloc (loc_line (loc s)) (S (loc_idx (loc s)))) (bump s))
    | None => (Ok None, bump s)
    end.
Proof.
  intros H. unfold next_token. rewrite bind_run, (peek_eq s H).
  destruct (nth_error (cur_toks s) (loc_idx (loc s))); reflexivity.
Qed.

Lemma next_token_input_post :
  mpost wf next_token (fun t s' => t = Some TInput -> input_before s').
Proof.
  intros s Hwf. rewrite (next_token_eq s (wf_loc _ Hwf)).
  destruct (nth_error (cur_toks s) (loc_idx (loc s))) as [t|] eqn:E; [|discriminate].
  intros Ht; inversion Ht; subst. exists (loc_idx (loc s)). split; [proj_simpl; lia|exact E].
Qed.

Lemma peek_is_eq e s :
  line_exists s (loc s) ->
  peek_is e s = (Ok (match nth_error (cur_toks s) (loc_idx (loc s)) with
                     | Some t => token_eqb t e
                     | None => false
                     end), bump s).
Proof. intros H. unfold peek_is. rewrite bind_run, (peek_eq s H). reflexivity. Qed.

Lemma rewind_loop_safe : forall i s,
  (exists j, j < i /\ nth_error (cur_toks s) j = Some TInput) ->
  SRw s (forget (fst (rewind_loop i TInput s))) (snd (rewind_loop i TInput s)).
Proof.
  induction i as [|i IH]; intros s (j & Hj & Hn) Hwf; [lia|].
  cbn [rewind_loop]. rewrite bind_modify.
  set (s1 := set_loc (mkloc (loc_line (loc s)) i) s).
  assert (Hwf1 : wf s1) by (apply wf_set_loc; [exact Hwf|exact (wf_loc _ Hwf)]).
  rewrite bind_run, (peek_is_eq TInput s1 (wf_loc _ Hwf1)).
  change (cur_toks s1) with (cur_toks s). change (loc_idx (loc s1)) with i.
  assert (Hwf2 : wf (bump s1)) by (apply wf_set_reads; exact Hwf1).
  destruct (match nth_error (cur_toks s) i with Some t => token_eqb t TInput | None => false end) eqn:E.
  - cbn [ret fst snd forget]. split; [exact Hwf2|reflexivity|reflexivity|discriminate|discriminate].
  - assert (Hj' : j < i).
    { destruct (Nat.eq_dec j i) as [->|Hne]; [|lia]. rewrite Hn in E. discriminate. }
    destruct (IH (bump s1) (ex_intro _ j (conj Hj' Hn)) Hwf2) as [B1 B2 B3 B4 B5].
    split; assumption.
Qed.

Lemma er_variables_set n v : orel ERw (variables_set n v).
Proof. unfold variables_set; er_walk. Qed.
#[local] Hint Resolve er_variables_set : erdb.

Section StmtSafe.
  Variable fuel : nat.
  Variable nest : nat.
  Variable rec : M unit.
  Hypothesis Hrec : orel SRw rec.

  Lemma er_expr : orel ERw (expr fuel nest).
  Proof. unfold expr; apply er_evaluate_expression. Qed.

  Lemma er_array_index_expr : orel ERw (evaluate_array_index fuel (expr fuel nest)).
  Proof. apply er_array_index, er_expr. Qed.

  Lemma er_optional_index : orel ERw (parse_optional_array_index fuel nest).
  Proof.
    unfold parse_optional_array_index.
    orel_walk ERw_ocat ltac:(first [ apply er_array_index_expr | er_leaf ]).
  Qed.

  Lemma er_parse_lvalue : orel ERw (parse_lvalue fuel nest).
  Proof.
    unfold parse_lvalue. orel_walk ERw_ocat ltac:(first [ apply er_optional_index | er_leaf ]).
  Qed.

  Lemma er_assign lv v : orel ERw (assign_value lv v).
  Proof. unfold assign_value; er_walk. Qed.

  Ltac st_leaf :=
    first [ apply sr_of_er, er_expr | apply sr_of_er, er_parse_lvalue | apply sr_of_er, er_optional_index
          | apply sr_of_er, er_assign | exact Hrec | sr_leaf ].
  Ltac st_walk := orel_walk SRw_ocat st_leaf.

  Lemma sr_rewind_await :
    orelP (fun s => wf s /\ input_before s) SRw rewind_program_and_await_input.
  Proof.
    intros s [Hwf Hib] _. unfold rewind_program_and_await_input, rewind_before_token.
    rewrite bind_run, bind_get.
    destruct (rewind_loop_safe (loc_idx (loc s)) s Hib Hwf) as [B1 B2 B3 B4 B5].
    destruct (rewind_loop (loc_idx (loc s)) TInput s) as [[[]|e l|p| |] s1]; cbn [fst snd forget] in *;
      try (split; assumption).
    unfold modify; cbn [fst snd forget]. split; [wf_solve|exact B2|exact B3|discriminate|discriminate].
  Qed.

  Lemma take_input_post :
    mpost (fun _ => True) take_input (fun ti _ => forall d l, ti = Some (d, l) -> d <> []).
  Proof.
    intros s _. unfold take_input. rewrite bind_get. destruct (input s) as [text|]; [|cbn; discriminate].
    rewrite bind_modify. pose proof (dp_run_nonempty (utf8_chars text) false [] [] 0) as Hne.
    fold (parse_data text) in Hne. destruct (parse_data text) as [elems n]. cbn [ret fst] in *.
    intros d l H; inversion H; subst. exact Hne.
  Qed.

  Lemma sr_input_statement : orelP input_before SRw (evaluate_input_statement fuel nest).
  Proof.
    assert (H : orelP (fun s => wf s /\ input_before s) SRw (evaluate_input_statement fuel nest)).
    2:{ intros s Hib Hwf. apply H; [split; assumption|exact Hwf]. }
    unfold evaluate_input_statement.
    eapply (orelP_bind _ SRw_ocat)
      with (Q := fun ti s' => (wf s' /\ input_before s') /\ (forall d l, ti = Some (d, l) -> d <> [])).
    - apply orelP_of_orel, sr_of_er, er_take_input.
    - apply mpost_conj; [apply input_before_post, er_take_input|].
      eapply mpost_weaken; [|apply take_input_post]. intros; exact I.
    - intros [[data leftover]|]; apply orelP_pure; intros Hne; [|apply sr_rewind_await].
      destruct data as [|first rest]; [exfalso; eapply Hne; reflexivity|].
      eapply (orelP_bind _ SRw_ocat) with (Q := fun _ s' => wf s' /\ input_before s').
      + apply orelP_of_orel, sr_of_er, er_parse_lvalue.
      + apply input_before_post, er_parse_lvalue.
      + intros lv. pose proof (coerce_data_plain (lv_sym lv) first) as Hp.
        destruct (coerce_data (lv_sym lv) first) as [v|e [l|]|p| |]; cbn in Hp; try contradiction.
        * apply orelP_of_orel. st_walk.
        * destruct e; try (apply orelP_of_orel; apply (orel_fail _ SRw_ocat)).
          eapply (orelP_bind _ SRw_ocat) with (Q := fun _ s' => wf s' /\ input_before s').
          -- apply orelP_of_orel, sr_of_er, er_push_output.
          -- apply input_before_post, er_push_output.
          -- intros _. apply sr_rewind_await.
  Qed.

  Lemma sr_break : orel SRw break_at_current_location.
  Proof. unfold break_at_current_location; st_walk. Qed.

  Lemma sr_goto_stmt : orel SRw evaluate_goto_statement.
  Proof. unfold evaluate_goto_statement; st_walk. Qed.

  Lemma sr_gosub_stmt : orel SRw evaluate_gosub_statement.
  Proof. unfold evaluate_gosub_statement; st_walk. Qed.

  Lemma sr_stmt_or_goto : orel SRw (statement_or_goto_line_number rec).
  Proof.
    unfold statement_or_goto_line_number.
    orel_walk SRw_ocat ltac:(first [ apply sr_goto_stmt | st_leaf ]).
  Qed.

  Lemma sr_if : orel SRw (evaluate_if_statement fuel nest rec).
  Proof.
    unfold evaluate_if_statement.
    orel_walk SRw_ocat ltac:(first [ apply sr_stmt_or_goto | st_leaf ]).
  Qed.

  Lemma sr_assignment sym : orel SRw (evaluate_assignment_statement fuel nest sym).
  Proof. unfold evaluate_assignment_statement; st_walk. Qed.

  Lemma sr_let : orel SRw (evaluate_let_statement fuel nest).
  Proof.
    unfold evaluate_let_statement.
    orel_walk SRw_ocat ltac:(first [ apply sr_assignment | st_leaf ]).
  Qed.

  Lemma sr_read : orel SRw (evaluate_read_statement fuel nest).
  Proof. unfold evaluate_read_statement; st_walk. Qed.

  Lemma sr_dim : orel SRw (evaluate_dim_statement fuel nest).
  Proof. unfold evaluate_dim_statement; st_walk. Qed.

  Lemma sr_print : orel SRw (evaluate_print_statement fuel nest).
  Proof. unfold evaluate_print_statement; st_walk. Qed.

  Lemma sr_for : orel SRw (evaluate_for_statement fuel nest).
  Proof. unfold evaluate_for_statement; st_walk. Qed.

  Lemma sr_next_stmt : orel SRw evaluate_next_statement.
  Proof. unfold evaluate_next_statement; st_walk. Qed.

  Lemma sr_def : orel SRw (evaluate_def_statement fuel).
  Proof. unfold evaluate_def_statement; st_walk. Qed.

  Ltac body_leaf :=
    first [ apply sr_break | apply sr_dim | apply sr_print | apply sr_if | apply sr_goto_stmt
          | apply sr_gosub_stmt | apply sr_for | apply sr_next_stmt | apply sr_def | apply sr_read
          | apply sr_let | apply sr_assignment | st_leaf ].

  Lemma sr_statement_body : orel SRw (evaluate_statement_body fuel nest rec).
  Proof.
    unfold evaluate_statement_body.
    apply (orel_bind _ SRw_ocat); [apply (orel_get _ SRw_ocat)|intros tr].
    apply (orel_bind _ SRw_ocat); [st_walk|intros _].
    apply sr_of_orelP_wf.
    eapply (orelP_bind _ SRw_ocat) with (Q := fun t s' => t = Some TInput -> input_before s').
    - apply orelP_of_orel, sr_of_er, er_next_token.
    - apply next_token_input_post.
    - intros [t|]; [|apply orelP_of_orel, (orel_ret _ SRw_ocat)].
      destruct t;
        try (apply orelP_of_orel; solve [orel_walk SRw_ocat body_leaf]).
      intros s HQ. apply sr_input_statement. apply HQ; reflexivity.
  Qed.
End StmtSafe.

Lemma sr_evaluate_statement fuel : forall n, orel SRw (evaluate_statement fuel n).
Proof.
  induction fuel as [|k IH]; intros n; cbn [evaluate_statement].
  - apply (orel_out_of_fuel _ SRw_ocat).
  - destruct (Nat.eqb n max_nesting); [apply (orel_fail _ SRw_ocat)|].
    apply sr_statement_body; apply IH.
Qed.

Lemma forget_panic {A} (r : res A) p : r = Panic p <-> forget r = Panic p.
Proof. destruct r; cbn [forget]; split; intros H; try discriminate; inversion H; reflexivity. Qed.

(* the evaluators, in plain words *)
Corollary evaluate_expression_safe fuel n s :
  wf s ->
  (forall p, fst (evaluate_expression fuel n s) <> Panic p)
  /\ wf (snd (evaluate_expression fuel n s))
  /\ (forall v, fst (evaluate_expression fuel n s) = Ok v ->
        stack (snd (evaluate_expression fuel n s)) = stack s
        /\ loc_line (loc (snd (evaluate_expression fuel n s))) = loc_line (loc s)
        /\ loc_idx (loc s) <= loc_idx (loc (snd (evaluate_expression fuel n s)))).
Proof.
  intros Hwf. destruct (er_evaluate_expression fuel n s Hwf) as [A1 A2 A3 A4 A5 A6 A7 A8 A9].
  split; [intros p H; apply forget_panic in H; exact (A6 p H)|]. split; [exact A1|].
  intros v Hv. rewrite Hv in *. cbn [forget] in *.
  split; [apply A8; exact I|apply A9; reflexivity].
Qed.

Corollary evaluate_statement_safe fuel n s :
  wf s ->
  (forall p, fst (evaluate_statement fuel n s) <> Panic p) /\ wf (snd (evaluate_statement fuel n s)).
Proof.
  intros Hwf. destruct (sr_evaluate_statement fuel n s Hwf) as [A1 A2 A3 A4 A5].
  split; [intros p H; apply forget_panic in H; exact (A4 p H)|exact A1].
Qed.

(* ------------------------------------------------------------------ *)
(* 6. The host API *)

Lemma sr_run_next_statement fuel : orel SRw (run_next_statement fuel).
Proof.
  unfold run_next_statement, return_to_idle_state.
  orel_walk SRw_ocat ltac:(first [ apply sr_evaluate_statement | sr_leaf ]).
Qed.

(* LIST: PListUnwrap *)
Lemma sr_list : orel SRw (fun s => (list_lines (st_keys s) (st_toks s), s)).
Proof.
  intros s Hwf. cbn [fst snd].
  destruct (list_lines_ok (st_keys s) (st_toks s)) as (ls & Hl & _).
  - destruct (wf_store _ Hwf) as (_ & Hk & _). intros n Hn; apply Hk; exact Hn.
  - rewrite Hl. cbn [forget]. apply (oc_ok _ SRw_ocat); exact Hwf.
Qed.

Lemma sr_process_command fuel c : orel SRw (process_command fuel c).
Proof.
  destruct c; cbn [process_command];
    orel_walk SRw_ocat ltac:(first [ apply sr_run_next_statement | apply sr_list | sr_leaf ]).
Qed.

(* what a host call guarantees about its outcome and end state *)
Record TR (r : res unit) (s' : interp) : Prop := {
  tr_wf : wf s';
  tr_nopanic : forall p, r <> Panic p;
  tr_errloc : forall e l, r = Err e (Some l) -> line_exists s' l }.

Lemma SR_TR s r s' : SR s r s' -> TR r s'.
Proof. intros [A1 A2 A3 A4 A5]. split; assumption. Qed.

Lemma forget_unit (r : res unit) : forget r = r.
Proof. destruct r as [[]|e l|p| |]; reflexivity. Qed.

Lemma tr_of_sr (m : M unit) s : orel SRw m -> wf s -> TR (fst (m s)) (snd (m s)).
Proof.
  intros H Hwf. rewrite <- (forget_unit (fst (m s))). eapply SR_TR. apply H; exact Hwf.
Qed.

Lemma arrays_store_set n ts s : arrays (store_set n ts s) = arrays s.
Proof. unfold store_set. destruct ts; reflexivity. Qed.

(* entering, replacing or deleting a program line: the store changes, and
   every reference into the program is dropped *)
Lemma wf_set_numbered_line n ts s : wf s -> wf (snd (set_numbered_line n ts s)).
Proof.
  intros Hwf.
  pose proof (store_set_ok n ts s (wf_store _ Hwf)) as Hs.
  pose proof (arrays_store_set n ts s) as Ha.
  pose proof (wf_arrays _ Hwf) as Harr.
  change (snd (set_numbered_line n ts s))
    with (imm_reset [] (set_loops [] (set_stack [] (set_functions [] (set_data_it None
            (set_breakpoint None (store_set n ts s))))))).
  unfold imm_reset. proj_simpl.
  split; unfold store_ok, line_exists in *; proj_simpl; auto; try discriminate.
  - exact I.
  - rewrite Ha; exact Harr.
Qed.

Lemma tr_evaluate_impl fuel line s :
  wf s -> state s = Idle ->
  TR (fst (evaluate_impl fuel line s)) (snd (evaluate_impl fuel line s)).
Proof.
  intros Hwf Hidle. unfold evaluate_impl. rewrite bind_get, Hidle, set_imm_is_modify, bind_modify.
  pose proof (wf_imm_reset [] s Hwf) as Hwf0. set (s0 := imm_reset [] s) in *.
  destruct (command_of line) as [c|].
  - apply (tr_of_sr (process_command fuel c)); [apply sr_process_command|exact Hwf0].
  - destruct (match parse_line_number line with Some (n, e) => (Some n, e) | None => (None, 0) end)
      as [num skip].
    destruct (tokenize line skip) as [ts|ts err].
    + destruct num as [n|].
      * split; [apply wf_set_numbered_line; exact Hwf0|discriminate|discriminate].
      * apply (tr_of_sr (set_and_goto_immediate_line (map fst ts) ;;; run_next_statement fuel));
          [|exact Hwf0].
        apply (orel_bind _ SRw_ocat); [apply sr_set_imm|intros _; apply sr_run_next_statement].
    + unfold fail; cbn [fst snd]. split; [exact Hwf0|discriminate|discriminate].
Qed.

Lemma tr_postprocess (x : res unit * interp) :
  TR (fst x) (snd x) -> TR (fst (postprocess x)) (snd (postprocess x)).
Proof.
  destruct x as [[[]|e l|p| |] s]; cbn [postprocess fst snd]; auto.
  intros [A1 A2 A3]. split; [wf_solve|discriminate|].
  intros e0 l0 H; inversion H; subst.
  apply (populate_loc_ok s e0 l l0 A1); [|assumption]. intros l1 ->. eapply A3; reflexivity.
Qed.

Lemma postprocess_err (x : res unit * interp) e l s1 :
  postprocess x = (Err e l, s1) -> state s1 = Idle.
Proof.
  destruct x as [[[]|e0 l0|p| |] s]; cbn [postprocess]; intros H; inversion H; subst. reflexivity.
Qed.

Lemma tr_call fuel s op :
  wf s -> TR (fst (call_result fuel s op)) (snd (call_result fuel s op)).
Proof.
  intros Hwf. unfold call_result. destruct (legal s op) eqn:Hl; cbn [negb].
  2:{ cbn [fst snd]. split; [exact Hwf|discriminate|discriminate]. }
  pose proof (wf_set_reads 0 s Hwf) as Hwf0.
  destruct op as [text| |text| |seed| |w t|]; cbn [fst snd].
  - unfold legal in Hl. destruct (state s) eqn:Hst; try discriminate.
    unfold start_evaluating. apply tr_postprocess. apply tr_evaluate_impl; [exact Hwf0|exact Hst].
  - unfold legal in Hl. destruct (state s) eqn:Hst; try discriminate.
    unfold continue_evaluating. change (state (set_reads 0 s)) with (state s). rewrite Hst.
    apply tr_postprocess.
    apply (tr_of_sr (run_next_statement fuel)); [apply sr_run_next_statement|exact Hwf0].
  - unfold legal in Hl. destruct (state s) eqn:Hst; try discriminate.
    unfold provide_input. change (state (set_reads 0 s)) with (state s). rewrite Hst. cbn [fst snd].
    split; [wf_solve|discriminate|discriminate].
  - unfold host_break. apply (tr_of_sr break_at_current_location); [apply sr_break|exact Hwf0].
  - unfold randomize, modify; cbn [fst snd]. split; [wf_solve|discriminate|discriminate].
  - split; [apply wf_fresh|discriminate|discriminate].
  - split; [wf_solve|discriminate|discriminate].
  - split; [apply wf_fresh|discriminate|discriminate].
Qed.

Lemma wf_drained s op s1 : wf s1 -> wf (drained s op s1).
Proof.
  intros H. unfold drained. destruct (negb (legal s op)); [exact H|].
  destruct op; wf_solve.
Qed.

(* ------------------------------------------------------------------ *)
(* Main theorems *)

Theorem step_no_panic fuel s op :
  wf s ->
  (forall p, fst (call_result fuel s op) <> Panic p) /\ wf (snd (step fuel s op)).
Proof.
  intros Hwf. destruct (tr_call fuel s op Hwf) as [A1 A2 A3]. split; [exact A2|].
  rewrite step_call_result. apply wf_drained; exact A1.
Qed.

(* the outcomes of the calls made along a history *)
Fixpoint run_results (fuel : nat) (s : interp) (ops : list hostop) : list (res unit) :=
  match ops with
  | [] => []
  | op :: r => fst (call_result fuel s op) :: run_results fuel (snd (step fuel s op)) r
  end.

Theorem history_no_panic fuel ops : forall s,
  wf s ->
  Forall (fun r => forall p, r <> Panic p) (run_results fuel s ops) /\ wf (run_state fuel s ops).
Proof.
  induction ops as [|op ops IH]; intros s Hwf; cbn [run_results run_state].
  - split; [constructor|exact Hwf].
  - destruct (step_no_panic fuel s op Hwf) as [H1 H2].
    destruct (IH _ H2) as [H3 H4]. split; [constructor; assumption|exact H4].
Qed.

(* from a fresh interpreter *)
Corollary session_no_panic fuel oracle ops :
  Forall (fun r => forall p, r <> Panic p) (run_results fuel (fresh oracle) ops).
Proof. apply history_no_panic, wf_fresh. Qed.

Lemma render_caret_ok e l line s :
  (forall l0, l = Some l0 -> line_exists s l0) -> exists ls, render_caret e l line s = Ok ls.
Proof.
  intros Hl. unfold render_caret.
  assert (Hfrom : exists ls,
            match line, e with
            | Some text, ESyntaxTok t =>
                let '(a, b) := error_range t (length text) in
                Ok [text; repeat 32%N a ++ repeat 94%N (b - a)]
            | _, _ => Ok []
            end = Ok ls).
  { destruct line as [text|]; [|eexists; reflexivity].
    destruct e; try (eexists; reflexivity). destruct (error_range _ _); eexists; reflexivity. }
  destruct l as [l0|]; [|exact Hfrom].
  specialize (Hl l0 eq_refl). unfold line_exists, line_ok in Hl.
  unfold program_caret, tokens_for_line.
  destruct (loc_line l0) as [n|]; cbn [fst].
  - destruct (toks_get n (st_toks s)) as [ts|]; [|congruence]. cbn [fst].
    destruct ts; [exact Hfrom|eexists; reflexivity].
  - destruct (immediate s); [exact Hfrom|eexists; reflexivity].
Qed.

Theorem errors_are_values fuel s op e l s1 :
  wf s -> legal s op = true -> call_result fuel s op = (Err e l, s1) ->
  state s1 = Idle /\ exists ls, render_caret e l (line_of op) s1 = Ok ls.
Proof.
  intros Hwf Hl Hc. pose proof (tr_call fuel s op Hwf) as [A1 A2 A3]. rewrite Hc in *. cbn [fst snd] in *.
  split; [|apply render_caret_ok; intros l0 ->; eapply A3; reflexivity].
  unfold call_result in Hc. rewrite Hl in Hc. cbn [negb] in Hc.
  destruct op as [text| |text| |seed| |w t|]; try discriminate.
  - unfold start_evaluating in Hc. eapply postprocess_err; exact Hc.
  - unfold continue_evaluating in Hc. destruct (state (set_reads 0 s)); try discriminate.
    eapply postprocess_err; exact Hc.
  - unfold provide_input in Hc. destruct (state (set_reads 0 s)); discriminate.
Qed.

(* after an error the interpreter still accepts lines *)
Corollary error_then_line_accepted fuel s op e l s1 text :
  wf s -> legal s op = true -> call_result fuel s op = (Err e l, s1) ->
  legal (drained s op s1) (HLine text) = true.
Proof.
  intros Hwf Hl Hc. destruct (errors_are_values fuel s op e l s1 Hwf Hl Hc) as [Hidle _].
  unfold drained. rewrite Hl. cbn [negb].
  destruct op; unfold legal; proj_simpl; rewrite Hidle; reflexivity.
Qed.

(* ------------------------------------------------------------------ *)
(* Non-vacuity: a concrete session (two program lines, RUN, continue, break,
   CONT, then a failing line) makes real calls, all legal, none panics, and
   the failing one is an error value. *)

Definition demo_ops : list hostop :=
  [ HLine (bs "10 PRINT 1"); HLine (bs "20 GOTO 10"); HLine (bs "RUN");
    HCont; HBreak; HLine (bs "CONT"); HBreak; HLine (bs "GOTO 30") ].

Fixpoint run_legal (fuel : nat) (s : interp) (ops : list hostop) : list bool :=
  match ops with
  | [] => []
  | op :: r => legal s op :: run_legal fuel (snd (step fuel s op)) r
  end.

Example demo_all_legal :
  run_legal default_fuel (fresh []) demo_ops = [true; true; true; true; true; true; true; true].
Proof. vm_compute. reflexivity. Qed.

Example demo_no_panic :
  run_results default_fuel (fresh []) demo_ops =
    [Ok tt; Ok tt; Ok tt; Ok tt; Ok tt; Ok tt; Ok tt; Err EUndefinedStatement (Some (mkloc None 1))].
Proof. vm_compute. reflexivity. Qed.

(* a session that goes through DEF FN / function call, DIM / array cells,
   INPUT with a rejected reply (the rewind) and an accepted one, READ / DATA,
   an error inside a numbered line, deleting a line, and CONT *)
Definition demo_ops2 : list hostop :=
  [ HLine (bs "10 DEF FNA(X)=X*2"); HLine (bs "20 DIM A(3)"); HLine (bs "30 INPUT B");
    HLine (bs "40 A(1)=FNA(B)"); HLine (bs "50 READ C$"); HLine (bs "60 DATA hello");
    HLine (bs "70 PRINT A(1);C$"); HLine (bs "80 PRINT A(4)"); HLine (bs "RUN");
    HCont; HCont; HReply (bs "x"); HCont; HReply (bs "21"); HCont; HCont; HCont; HCont; HCont; HCont;
    HLine (bs "30"); HLine (bs "CONT") ].

Example demo2_all_legal :
  forallb (fun b => b) (run_legal default_fuel (fresh []) demo_ops2) = true.
Proof. vm_compute. reflexivity. Qed.

Example demo2_no_panic :
  run_results default_fuel (fresh []) demo_ops2 =
    repeat (Ok tt) 19 ++
    [ Err EBadSubscript (Some (mkloc (Some 80%N) 4)); Ok tt;
      Err ECannotContinue (Some (mkloc None 0)) ].
Proof. vm_compute. reflexivity. Qed.

Print Assumptions step_no_panic.
Print Assumptions history_no_panic.
Print Assumptions session_no_panic.
Print Assumptions errors_are_values.
Print Assumptions error_then_line_accepted.
