(* Proofs/RefProofs.v — C03: facts about the reference interpreter (Ref/RefSem.v)
   and its agreement with the model's expression semantics.

   1. The reference interpreter has the documented behaviours the property
      lists (these are theorems about the SPECIFICATION: they make sure the
      yardstick measures what the manual says):
        a FOR body always runs at least once, limit and step are fixed at entry;
        NEXT forgets inner loops; undefined variables read as 0 / "";
        implicit arrays have indices 0..10; READ consumes DATA in line order.
   2. On the expression fragment of C02 (literals, variables, unary and binary
      operators, ABS, INT), the reference evaluator computes exactly the fold
      [den] that the token walker is proved to compute (C02_expr): so for that
      fragment model = reference is a theorem, not a test. *)
From Coq Require Import List NArith ZArith Bool Lia.
From Abasic Require Import Model.Bytes Model.Num Model.Token Model.Data Model.Lexer Gen.Tables
     Model.State Model.Eval Model.Interp Ref.RefSem Proofs.ExprSem.
Import ListNotations.
Local Open Scope nat_scope.

(* ------------------------------------------------------------------ *)
(* 1. the yardstick *)

(* undefined variables read as 0 or the empty string *)
Theorem ref_undefined_variable st name :
  lookup_frames name (r_frames st) = None -> lookup name (r_vars st) = None ->
  read_var st name = if str_name name then VStr [] else VNum f64_zero.
Proof. intros H1 H2. unfold read_var, default_of. rewrite H1, H2. reflexivity. Qed.

(* an implicit array has indices 0..10 in every dimension *)
Theorem ref_implicit_array name n st st' :
  lookup name (r_arrays st) = None -> 1 <= n <= 3 -> ensure_array name n st = inl st' ->
  exists a, lookup name (r_arrays st') = Some a /\ ra_dims a = repeat 11%N n.
Proof.
  intros Hn Hr. unfold ensure_array. rewrite Hn. unfold new_array.
  assert (Hd : DEFAULT_ARRAY_SIZE = 10%N) by reflexivity.
  destruct n as [|[|[|[|n]]]]; try lia; cbn [repeat]; rewrite Hd; cbn [map];
    (match goal with |- context [(?a <? ?b)%N] => destruct (a <? b)%N eqn:E end; [vm_compute in E; discriminate|]);
    intros H; inversion H; subst; cbn [r_arrays];
    eexists; (split; [apply lookup_update_same|reflexivity]).
Qed.

(* a FOR body always runs at least once; limit and step are fixed at entry *)
Theorem ref_for_runs_once fuel p v a b after li st from to st1 st2 :
  eval fuel st a = EOk (VNum from) st1 -> eval fuel st1 b = EOk (VNum to) st2 -> str_name v = false ->
  let kept := match drop_loop v (r_loops st2) with Some (_, k) => k | None => r_loops st2 end in
  length kept <> depth_cap ->
  exec fuel p (SFor v a b None) after li st
  = Next after (set_vars' (update v (VNum from) (r_vars st2)) (set_loops' (kept ++ [mkrl v to f64_one after]) st2)).
Proof.
  intros Ha Hb Hv kept Hlen. cbn [exec]. unfold RefSem.ev. rewrite Ha, Hb. fold kept.
  destruct (Nat.eqb_spec (length kept) depth_cap) as [E|_]; [congruence|].
  unfold store_scalar, kind_ok. rewrite Hv. reflexivity.
Qed.

(* ... whatever the relation between the start value and the limit *)
Corollary ref_for_ignores_limit_at_entry fuel p v a b after li st from to1 to2 st1 st2 :
  eval fuel st a = EOk (VNum from) st1 -> str_name v = false ->
  eval fuel st1 b = EOk (VNum to1) st2 \/ eval fuel st1 b = EOk (VNum to2) st2 ->
  length (match drop_loop v (r_loops st2) with Some (_, k) => k | None => r_loops st2 end) <> depth_cap ->
  exists st', exec fuel p (SFor v a b None) after li st = Next after st'.
Proof.
  intros Ha Hv [Hb|Hb] Hlen; eexists; eapply ref_for_runs_once; eauto.
Qed.

(* NEXT v forgets the loops nested inside the loop on v *)
Lemma drop_loop_spec v : forall outer lp inner,
  rl_var lp = v -> (forall x, In x inner -> rl_var x <> v) ->
  drop_loop v (outer ++ lp :: inner) = Some (lp, outer).
Proof.
  intros outer lp inner Hv Hin.
  assert (Hnone : drop_loop v inner = None).
  { induction inner as [|x inner IH]; [reflexivity|]. cbn [drop_loop].
    rewrite IH by (intros y Hy; apply Hin; right; exact Hy).
    destruct (bytes_eqb (rl_var x) v) eqn:E; [|reflexivity].
    apply bytes_eqb_eq in E. exfalso. apply (Hin x); [left; reflexivity|exact E]. }
  induction outer as [|o outer IH]; cbn [app drop_loop].
  - rewrite Hnone, Hv, (proj2 (bytes_eqb_eq v v) eq_refl). reflexivity.
  - rewrite IH. reflexivity.
Qed.

Theorem ref_next_forgets_inner fuel p v after li st outer lp inner cur :
  r_loops st = outer ++ lp :: inner -> rl_var lp = v -> (forall x, In x inner -> rl_var x <> v) ->
  lookup v (r_vars st) = Some (VNum cur) -> str_name v = false ->
  exists st' pc', exec fuel p (SNext v) after li st = Next pc' st'
    /\ (r_loops st' = outer ++ [lp] \/ r_loops st' = outer)          (* the inner loops are gone either way *)
    /\ (pc' = rl_body lp \/ pc' = after).
Proof.
  intros Hl Hv Hin Hcur Hs. cbn [exec]. rewrite Hcur, Hl, (drop_loop_spec v outer lp inner Hv Hin).
  unfold store_scalar, kind_ok. rewrite Hs. cbn [negb].
  destruct (if f64_leb f64_zero (rl_step lp) then _ else _); eexists; eexists; (split; [reflexivity|]); cbn; auto.
Qed.

(* READ consumes DATA in line order, then statement order *)
Theorem ref_data_in_line_order p1 p2 : data_list (p1 ++ p2) = data_list p1 ++ data_list p2.
Proof. unfold data_list. apply flat_map_app. Qed.

Theorem ref_data_of_line n stmts :
  data_list [(n, stmts)] = map (fun d => (d, n)) (flat_map data_of_stmt stmts).
Proof. unfold data_list. cbn [flat_map fst snd]. apply app_nil_r. Qed.

(* ------------------------------------------------------------------ *)
(* 2. reference = token walker on the expression fragment *)

Definition tr_cmp (c : cmp) : eq_op :=
  match c with CEq => OEqualTo | CLt => OLessThan | CLe => OLessThanOrEqualTo
             | CGt => OGreaterThan | CGe => OGreaterThanOrEqualTo | CNe => ONotEqualTo end.

Definition tr_bin (op : rbin) : binop :=
  match op with
  | ROr => BOr | RAnd => BAnd | RCmp c => BCmp (tr_cmp c)
  | RAdd => BAddSub OAdd | RSub => BAddSub OSubtract | RMul => BMulDiv OMultiply | RDiv => BMulDiv ODivide
  end.

Fixpoint tr (e : rexpr) : option expr :=
  match e with
  | XNum x => Some (ENum x) | XStr s => Some (EStr s) | XVar v => Some (EVar v)
  | XNeg a => option_map (EUn UNegative) (tr a)
  | XPos a => option_map (EUn UPositive) (tr a)
  | XNot a => option_map (EUn UNot) (tr a)
  | XBin op a b => match tr a, tr b with Some a', Some b' => Some (EBin (tr_bin op) a' b') | _, _ => None end
  | XAbs a => option_map EAbs (tr a)
  | XInt a => option_map EInt (tr a)
  | XCell _ _ | XRnd _ | XFn _ _ => None
  end.

Definition conv (st : rstate) (r : res value) : eres value :=
  match r with
  | Ok v => EOk v st
  | Err ETypeMismatch _ => EErr RTypeMismatch None
  | Err EDivisionByZero _ => EErr RDivisionByZero None
  | _ => EFuel
  end.

(* the two states agree on every variable read *)
Definition same_reads (st : rstate) (s : interp) : Prop := forall name, read_var st name = lookup_var s name.

Fixpoint xsize (e : rexpr) : nat :=
  match e with
  | XNeg a | XPos a | XNot a | XAbs a | XInt a => S (xsize a)
  | XBin _ a b => S (Nat.max (xsize a) (xsize b))
  | _ => 1
  end.

Lemma truth_to_bool v : truth v = to_bool v.
Proof. destruct v as [[|b s]|x]; reflexivity. Qed.
Lemma of_bool_from_bool b : of_bool b = from_bool b.
Proof. reflexivity. Qed.

Lemma cmp_strs_eq c a b : cmp_strs c a b = cmp_str (tr_cmp c) a b.
Proof. unfold cmp_strs, cmp_str. destruct c, (bytes_compare a b); reflexivity. Qed.

Lemma apply_bin_agrees op v w s st :
  match apply_bin op v w with inl r => EOk r st | inr er => EErr er None end
  = conv st (fst (apply_op (tr_bin op) v w s)).
Proof.
  destruct op as [| |c| | | |]; cbn [tr_bin apply_op apply_bin].
  - unfold eval_or, ret. cbn [fst conv]. rewrite !truth_to_bool. reflexivity.
  - unfold eval_and, ret. cbn [fst conv]. rewrite !truth_to_bool. reflexivity.
  - destruct v as [a|a], w as [b|b]; cbn; try reflexivity.
    + rewrite cmp_strs_eq. reflexivity.
    + destruct c; reflexivity.
  - destruct v, w; reflexivity.
  - destruct v, w; reflexivity.
  - destruct v, w; reflexivity.
  - destruct v as [a|a], w as [b|b]; cbn; try reflexivity. destruct (f64_eqb b f64_zero); reflexivity.
Qed.

Theorem ref_expr_is_den : forall e e' st s fuel,
  tr e = Some e' -> same_reads st s -> xsize e <= fuel ->
  eval fuel st e = conv st (den s e').
Proof.
  induction e as [x|b|v|a idx|a IH|a IH|a IH|op a IHa b IHb|a IH|a IH|a IH|f args];
    intros e' st s fuel Htr Hrel Hf; cbn [tr] in Htr; try discriminate;
    destruct fuel as [|fuel]; try (cbn [xsize] in Hf; lia); cbn [eval eval_step].
  - inversion Htr; subst. reflexivity.
  - inversion Htr; subst. reflexivity.
  - inversion Htr; subst. cbn [den conv]. rewrite Hrel. reflexivity.
  - destruct (tr a) as [a'|] eqn:Ea; [|discriminate]. inversion Htr; subst. cbn [den].
    rewrite (IH a' st s fuel eq_refl Hrel) by (cbn [xsize] in Hf; lia).
    destruct (den s a') as [[x|x]|er l|pp| |]; cbn [conv]; try reflexivity; try (destruct er; reflexivity).
  - destruct (tr a) as [a'|] eqn:Ea; [|discriminate]. inversion Htr; subst. cbn [den].
    rewrite (IH a' st s fuel eq_refl Hrel) by (cbn [xsize] in Hf; lia).
    destruct (den s a') as [[x|x]|er l|pp| |]; cbn [conv]; try reflexivity; try (destruct er; reflexivity).
  - destruct (tr a) as [a'|] eqn:Ea; [|discriminate]. inversion Htr; subst. cbn [den].
    rewrite (IH a' st s fuel eq_refl Hrel) by (cbn [xsize] in Hf; lia).
    destruct (den s a') as [v|er l|pp| |]; cbn [conv]; try reflexivity; try (destruct er; reflexivity).
  - destruct (tr a) as [a'|] eqn:Ea; [|discriminate]. destruct (tr b) as [b'|] eqn:Eb; [|discriminate].
    inversion Htr; subst. cbn [den]. cbn [xsize] in Hf.
    rewrite (IHa a' st s fuel eq_refl Hrel) by lia.
    destruct (den s a') as [v|er l|pp| |]; cbn [conv]; try reflexivity; [|destruct er; reflexivity].
    rewrite (IHb b' st s fuel eq_refl Hrel) by lia.
    destruct (den s b') as [w|er l|pp| |]; cbn [conv]; try reflexivity; [|destruct er; reflexivity].
    apply apply_bin_agrees.
  - destruct (tr a) as [a'|] eqn:Ea; [|discriminate]. inversion Htr; subst. cbn [den].
    rewrite (IH a' st s fuel eq_refl Hrel) by (cbn [xsize] in Hf; lia).
    destruct (den s a') as [[x|x]|er l|pp| |]; cbn [conv]; try reflexivity; try (destruct er; reflexivity).
  - destruct (tr a) as [a'|] eqn:Ea; [|discriminate]. inversion Htr; subst. cbn [den].
    rewrite (IH a' st s fuel eq_refl Hrel) by (cbn [xsize] in Hf; lia).
    destruct (den s a') as [[x|x]|er l|pp| |]; cbn [conv]; try reflexivity; try (destruct er; reflexivity).
Qed.
