(* Proofs/Monad.v — generic reasoning principles for the state monad [M]:
   [mrel R m]  : running [m] from any state [s] ends in a state related to [s]
                 by the preorder [R] (used for frames and invariants);
   plus the structural rules (ret, bind, loops, fuel recursion) and a tactic
   that walks an evaluator definition applying them. *)
From Coq Require Import List NArith ZArith Bool Lia.
From Abasic Require Import Model.Bytes Model.Num Model.Token Model.Data Model.Lexer Gen.Tables
     Model.State Model.Eval Model.Interp.
Import ListNotations.

Definition mrel {A} (R : interp -> interp -> Prop) (m : M A) : Prop :=
  forall s, R s (snd (m s)).

Record preorder (R : interp -> interp -> Prop) : Prop := {
  po_refl : forall s, R s s;
  po_trans : forall a b c, R a b -> R b c -> R a c }.

Section Rules.
  Variable R : interp -> interp -> Prop.
  Hypothesis PO : preorder R.

  Lemma mrel_ret {A} (a : A) : mrel R (ret a).
  Proof. intros s; apply (po_refl _ PO). Qed.

  Lemma mrel_fail {A} e : mrel R (@fail A e).
  Proof. intros s; apply (po_refl _ PO). Qed.

  Lemma mrel_fail_at {A} e l : mrel R (@fail_at A e l).
  Proof. intros s; apply (po_refl _ PO). Qed.

  Lemma mrel_panic {A} p : mrel R (@panic A p).
  Proof. intros s; apply (po_refl _ PO). Qed.

  Lemma mrel_out_of_fuel {A} : mrel R (@out_of_fuel A).
  Proof. intros s; apply (po_refl _ PO). Qed.

  Lemma mrel_oracle_miss {A} : mrel R (@oracle_miss A).
  Proof. intros s; apply (po_refl _ PO). Qed.

  Lemma mrel_get {A} (f : interp -> A) : mrel R (get f).
  Proof. intros s; apply (po_refl _ PO). Qed.

  Lemma mrel_lift_res {A} (r : res A) : mrel R (lift_res r).
  Proof. intros s; apply (po_refl _ PO). Qed.

  Lemma mrel_modify f : (forall s, R s (f s)) -> mrel R (modify f).
  Proof. intros H s; apply H. Qed.

  Lemma mrel_bind {A B} (m : M A) (f : A -> M B) :
    mrel R m -> (forall a, mrel R (f a)) -> mrel R (bind m f).
  Proof.
    intros Hm Hf s. unfold bind. specialize (Hm s).
    destruct (m s) as [[a| | | |] s']; cbn [snd] in *; try exact Hm.
    eapply (po_trans _ PO); [exact Hm | apply Hf].
  Qed.

  Lemma mrel_repeat {S T} n (body : S -> M (S + T)) :
    (forall acc, mrel R (body acc)) -> forall acc, mrel R (repeat_m n body acc).
  Proof.
    intros Hb. induction n as [|n IH]; intros acc; cbn [repeat_m].
    - apply mrel_out_of_fuel.
    - apply mrel_bind; [apply Hb|]. intros [acc'|r]; [apply IH | apply mrel_ret].
  Qed.

  Lemma mrel_fun {A} (m : M A) : (forall s, R s (snd (m s))) -> mrel R m.
  Proof. intros H; exact H. Qed.
End Rules.

(* [Inv]-style invariants as relations: R s s' := P s -> P s'. *)
Definition inv_rel (P : interp -> Prop) : interp -> interp -> Prop := fun s s' => P s -> P s'.

Lemma inv_rel_preorder P : preorder (inv_rel P).
Proof. split; unfold inv_rel; auto. Qed.

Lemma mrel_conj {A} R1 R2 (m : M A) :
  mrel R1 m -> mrel R2 m -> mrel (fun s s' => R1 s s' /\ R2 s s') m.
Proof. intros H1 H2 s; split; auto. Qed.

(* The structural walker.  [leaf] is a tactic that solves goals about
   primitives (typically [auto with some_db]). *)
Ltac mrel_step PO leaf :=
  first
    [ apply (mrel_ret _ PO)
    | apply (mrel_fail _ PO)
    | apply (mrel_fail_at _ PO)
    | apply (mrel_panic _ PO)
    | apply (mrel_out_of_fuel _ PO)
    | apply (mrel_oracle_miss _ PO)
    | apply (mrel_get _ PO)
    | apply (mrel_lift_res _ PO)
    | solve [leaf]
    | apply (mrel_bind _ PO); [| intro]
    | apply (mrel_repeat _ PO); intro
    | match goal with
      | |- mrel _ (match ?x with _ => _ end) => destruct x
      | |- mrel _ (if ?b then _ else _) => destruct b
      | |- mrel _ (let '(_, _) := ?x in _) => destruct x
      end ].

Ltac mrel_walk PO leaf := repeat (mrel_step PO leaf).
