(* Proofs/Inspect.v — C07, the inspection half: an immediate line made of
   PRINT / ? statements (any item lists over any expressions that call no user
   function, read no array and do not call RND), typed at a breakpoint,
   leaves the whole runtime part of the state alone — whether it succeeds or
   fails, however many statements it has and however the host spreads them
   over calls.  Together with [continuation_reads_runtime_only] (BreakCont.v):
   CONT after the inspection continues exactly as CONT without it. *)
From Coq Require Import List NArith ZArith Bool Lia.
From Abasic Require Import Model.Bytes Model.Num Model.Token Model.Data Model.Lexer Gen.Tables
     Model.State Model.Eval Model.Interp Proofs.Monad Proofs.Frames Proofs.StoreProofs Proofs.InputProofs Proofs.Safety Proofs.FlagsSim Proofs.BreakCont Proofs.EditProbes.
Import ListNotations.
Local Open Scope nat_scope.

(* everything but the cursor, the immediate line, the output queue, the
   interpreter state flag and the hook counter *)
Definition core (s : interp) : interp :=
  set_reads 0 (set_outputs [] (set_state Idle (set_loc imm0 (set_immediate [] s)))).

Definition builtin_quiet (sym : bytes) : bool := bytes_eqb sym (bs "ABS") || bytes_eqb sym (bs "INT").

(* no name is followed by "(" unless it is ABS or INT: no array reference, no
   RND, no user function call *)
Fixpoint quiet_toks (ts : list token) : bool :=
  match ts with
  | [] => true
  | TSymbol sym :: r => (match r with TLeftParen :: _ => builtin_quiet sym | _ => true end) && quiet_toks r
  | _ :: r => quiet_toks r
  end.

Lemma quiet_nth ts : quiet_toks ts = true -> forall i sym,
  nth_error ts i = Some (TSymbol sym) -> nth_error ts (S i) = Some TLeftParen -> builtin_quiet sym = true.
Proof.
  induction ts as [|t r IH]; intros Hq i sym H1 H2; [destruct i; discriminate|].
  destruct i as [|i].
  - cbn in H1, H2. injection H1 as ->. cbn [quiet_toks] in Hq. apply andb_prop in Hq as [Hq _].
    destruct r as [|t' r']; [discriminate|]. cbn in H2. injection H2 as ->. exact Hq.
  - apply (IH ltac:(destruct t; cbn [quiet_toks] in Hq; try exact Hq; apply andb_prop in Hq; apply Hq) i sym H1 H2).
Qed.

Definition NoCall (s : interp) : Prop := loc_line (loc s) = None /\ quiet_toks (immediate s) = true.

Definition Q (s s' : interp) : Prop :=
  NoCall s -> NoCall s' /\ immediate s' = immediate s /\ core s' = core s /\ state s' = state s.

Lemma Q_preorder : preorder Q.
Proof.
  split.
  - intros s H. repeat split; try apply H; auto.
  - intros a b c H1 H2 Ha. destruct (H1 Ha) as (Hb & E1 & E2 & E2'). destruct (H2 Hb) as (Hc & E3 & E4 & E4').
    repeat split; try apply Hc; congruence.
Qed.

Let PO := Q_preorder.

Lemma Q_same_but s s' :
  loc_line (loc s') = loc_line (loc s) ->
  immediate s' = immediate s -> core s' = core s -> state s' = state s -> Q s s'.
Proof. intros H1 H3 H4 H5 [Ha Hb]. unfold NoCall. rewrite H1, H3. repeat split; assumption. Qed.

Ltac qleaf :=
  lazymatch goal with |- mrel _ (modify _) => idtac end;
  apply (mrel_modify Q); intros s; apply Q_same_but; destruct s as [? ? ? [? ?] ? ? ? ? ? ? ? ? ? ? ? ? ? ? ?];
  cbn; reflexivity.

Lemma Q_tokens_for_line l : mrel Q (tokens_for_line l).
Proof.
  intros s. unfold tokens_for_line. destruct l as [n|]; [|apply (po_refl _ PO)].
  destruct (toks_get n (st_toks s)); apply (po_refl _ PO).
Qed.

(* Q cannot tell [modify (set_reads ..)] from [ret tt], so the generic walker's
   [apply mrel_ret] would be decided by an (exponential) conversion: this
   walker dispatches on the syntax of the goal instead *)
Ltac qstep leaf :=
  lazymatch goal with
  | |- mrel _ (ret _) => apply (mrel_ret _ PO)
  | |- mrel _ (fail _) => apply (mrel_fail _ PO)
  | |- mrel _ (fail_at _ _) => apply (mrel_fail_at _ PO)
  | |- mrel _ (panic _) => apply (mrel_panic _ PO)
  | |- mrel _ out_of_fuel => apply (mrel_out_of_fuel _ PO)
  | |- mrel _ oracle_miss => apply (mrel_oracle_miss _ PO)
  | |- mrel _ (get _) => apply (mrel_get _ PO)
  | |- mrel _ (lift_res _) => apply (mrel_lift_res _ PO)
  | |- mrel _ (bind _ _) => apply (mrel_bind _ PO); [| intro]
  | |- mrel _ (repeat_m _ _ _) => apply (mrel_repeat _ PO); intro
  | |- mrel _ (match ?x with _ => _ end) => destruct x
  | |- mrel _ (if ?b then _ else _) => destruct b
  | |- mrel _ (let '(_, _) := ?x in _) => destruct x
  | |- mrel _ _ => solve [leaf]
  end.
Ltac qwalk leaf := repeat (qstep leaf).

Ltac leaf1 := idtac; lazymatch goal with |- mrel _ (tokens_for_line _) => apply Q_tokens_for_line | |- mrel _ (modify _) => qleaf end.
Ltac walk1 := autounfold with prims; qwalk leaf1.

Lemma Q_peek : mrel Q peek_next_token. Proof. walk1. Qed.
Lemma Q_has_next : mrel Q has_next_token. Proof. walk1. Qed.
Lemma Q_next_token : mrel Q next_token. Proof. walk1. Qed.
Lemma Q_next_unwrapped : mrel Q next_unwrapped_token. Proof. walk1. Qed.
Lemma Q_expect t : mrel Q (expect_next_token t). Proof. walk1. Qed.
Lemma Q_accept t : mrel Q (accept_next_token t). Proof. walk1. Qed.
Lemma Q_peek_is t : mrel Q (peek_is t). Proof. walk1. Qed.
Lemma Q_try {B} (g : token -> option B) : mrel Q (try_next_token g). Proof. walk1. Qed.
Lemma Q_push_output o : mrel Q (push_output o). Proof. walk1. Qed.
Lemma Q_warn m : mrel Q (warn m). Proof. walk1. Qed.
Lemma Q_find_var n : mrel Q (find_variable_value_in_stack n). Proof. walk1. Qed.
Lemma Q_variables_get n : mrel Q (variables_get n). Proof. walk1. Qed.
Lemma Q_expect_number v : mrel Q (expect_number v). Proof. unfold expect_number; walk1. Qed.
Lemma Q_eval_unary o v : mrel Q (eval_unary o v). Proof. unfold eval_unary; walk1. Qed.
Lemma Q_eval_addsub o a b : mrel Q (eval_addsub o a b). Proof. unfold eval_addsub; walk1. Qed.
Lemma Q_eval_muldiv o a b : mrel Q (eval_muldiv o a b). Proof. unfold eval_muldiv; walk1. Qed.
Lemma Q_eval_eq o a b : mrel Q (eval_eq o a b). Proof. unfold eval_eq; walk1. Qed.
Lemma Q_eval_and a b : mrel Q (eval_and a b). Proof. unfold eval_and; walk1. Qed.
Lemma Q_eval_or a b : mrel Q (eval_or a b). Proof. unfold eval_or; walk1. Qed.
Lemma Q_eval_pow a b : mrel Q (eval_pow a b). Proof. unfold eval_pow; walk1. Qed.

Ltac leaf2 :=
  idtac; lazymatch goal with
  | |- mrel _ peek_next_token => apply Q_peek
  | |- mrel _ has_next_token => apply Q_has_next
  | |- mrel _ next_token => apply Q_next_token
  | |- mrel _ next_unwrapped_token => apply Q_next_unwrapped
  | |- mrel _ (expect_next_token _) => apply Q_expect
  | |- mrel _ (accept_next_token _) => apply Q_accept
  | |- mrel _ (peek_is _) => apply Q_peek_is
  | |- mrel _ (try_next_token _) => apply Q_try
  | |- mrel _ (push_output _) => apply Q_push_output
  | |- mrel _ (warn _) => apply Q_warn
  | |- mrel _ (find_variable_value_in_stack _) => apply Q_find_var
  | |- mrel _ (variables_get _) => apply Q_variables_get
  | |- mrel _ (expect_number _) => apply Q_expect_number
  | |- mrel _ (eval_unary _ _) => apply Q_eval_unary
  | |- mrel _ (eval_addsub _ _ _) => apply Q_eval_addsub
  | |- mrel _ (eval_muldiv _ _ _) => apply Q_eval_muldiv
  | |- mrel _ (eval_eq _ _ _) => apply Q_eval_eq
  | |- mrel _ (eval_and _ _) => apply Q_eval_and
  | |- mrel _ (eval_or _ _) => apply Q_eval_or
  | |- mrel _ (eval_pow _ _) => apply Q_eval_pow
  | |- mrel _ (tokens_for_line _) => apply Q_tokens_for_line
  | |- mrel _ (modify _) => qleaf
  end.
Ltac walk2 := qwalk leaf2.

(* what the two cursor reads of a term tell about the line *)
Lemma next_unwrapped_imm s t s1 : loc_line (loc s) = None ->
  next_unwrapped_token s = (Ok t, s1) ->
  nth_error (immediate s) (loc_idx (loc s)) = Some t
  /\ loc s1 = mkloc None (S (loc_idx (loc s))) /\ immediate s1 = immediate s.
Proof.
  intros Hl. unfold next_unwrapped_token, next_token, peek_next_token, cur_tokens, tokens_for_line, advance, bind, get, modify, ret, fail_at.
  cbn. rewrite Hl. cbn.
  destruct (nth_error (immediate s) (loc_idx (loc s))) as [t0|]; cbn; [|discriminate].
  intros E. injection E as <- <-. cbn. rewrite Hl. repeat split; reflexivity.
Qed.

Lemma peek_is_imm s e b s1 : loc_line (loc s) = None ->
  peek_is e s = (Ok b, s1) ->
  b = match nth_error (immediate s) (loc_idx (loc s)) with Some t => token_eqb t e | None => false end.
Proof.
  intros Hl. unfold peek_is, peek_next_token, cur_tokens, tokens_for_line, bind, get, modify, ret. cbn. rewrite Hl. cbn.
  intros E. injection E as <- _. reflexivity.
Qed.

Lemma bind_bind_ret {A B C} (m : M A) (g : A -> B) (k : B -> M C) s :
  bind (bind m (fun x => ret (g x))) k s = bind m (fun x => k (g x)) s.
Proof. unfold bind, ret. destruct (m s) as [[a|e l|p| |] s1]; reflexivity. Qed.

Section Expr.
  Variable fuel : nat.
  Variable rec : M value.
  Hypothesis Hrec : mrel Q rec.

  Lemma Q_unary_arg : mrel Q (unary_number_function_arg rec).
  Proof. unfold unary_number_function_arg. qwalk ltac:(idtac; first [exact Hrec | leaf2]). Qed.

  Lemma Q_term : mrel Q (expression_term fuel rec).
  Proof.
    intros s HN. destruct (expression_term fuel rec s) as [r s'] eqn:E. cbn [snd].
    unfold expression_term in E. unfold bind at 1 in E.
    pose proof (Q_next_unwrapped s HN) as H1.
    destruct (next_unwrapped_token s) as [[t|e l|p| |] s1] eqn:E1; cbn [snd] in *;
      try (injection E as <- <-; exact H1).
    destruct (next_unwrapped_imm s t s1 (proj1 HN) E1) as (Ht & Hl1 & Hi1).
    destruct H1 as (HN1 & I1 & C1 & S1).
    assert (Hgo : forall (m : M value), mrel Q m -> m s1 = (r, s') ->
              NoCall s' /\ immediate s' = immediate s /\ core s' = core s /\ state s' = state s).
    { intros m Hm Em. pose proof (Hm s1 HN1) as G. rewrite Em in G. cbn [snd] in G.
      destruct G as (A & B & C & D). repeat split; try apply A; congruence. }
    destruct t; try solve [refine (Hgo _ _ E); walk2].
    (* a name *)
    match type of E with context [function_call rec ?n] => rename n into name end.
    unfold bind at 1 in E.
    pose proof (Q_peek_is TLeftParen s1 HN1) as H2.
    destruct (peek_is TLeftParen s1) as [[p|e l|p| |] s2] eqn:E2; cbn [snd] in *;
      try (injection E as <- <-; destruct H2 as (A & B & C & D); repeat split; try apply A; congruence).
    pose proof (peek_is_imm s1 _ _ _ (proj1 HN1) E2) as Hp.
    destruct H2 as (HN2 & I2 & C2 & S2).
    assert (Hgo2 : forall (m : M value), mrel Q m -> m s2 = (r, s') ->
              NoCall s' /\ immediate s' = immediate s /\ core s' = core s /\ state s' = state s).
    { intros m Hm Em. pose proof (Hm s2 HN2) as G. rewrite Em in G. cbn [snd] in G.
      destruct G as (A & B & C & D). repeat split; try apply A; congruence. }
    destruct p.
    - (* followed by "(": ABS or INT *)
      rewrite Hl1, Hi1 in Hp. cbn [loc_idx] in Hp.
      destruct (nth_error (immediate s) (S (loc_idx (loc s)))) as [t'|] eqn:Et'; [|discriminate].
      symmetry in Hp. apply token_eqb_lparen in Hp. subst t'.
      pose proof (quiet_nth _ (proj2 HN) _ _ Ht Et') as Hb. unfold builtin_quiet in Hb.
      unfold function_call in E.
      destruct (bytes_eqb name (bs "ABS")).
      { rewrite bind_bind_ret in E. cbv beta iota in E. refine (Hgo2 _ _ E).
        qwalk ltac:(idtac; lazymatch goal with |- mrel _ (unary_number_function_arg _) => apply Q_unary_arg | _ => leaf2 end). }
      destruct (bytes_eqb name (bs "INT")).
      { rewrite bind_bind_ret in E. cbv beta iota in E. refine (Hgo2 _ _ E).
        qwalk ltac:(idtac; lazymatch goal with |- mrel _ (unary_number_function_arg _) => apply Q_unary_arg | _ => leaf2 end). }
      discriminate Hb.
    - refine (Hgo2 _ _ E). walk2.
  Qed.

  Lemma Q_unary : mrel Q (unary_operator fuel rec).
  Proof.
    unfold unary_operator, parenthesized_expression.
    qwalk ltac:(idtac; lazymatch goal with |- mrel _ (expression_term _ _) => apply Q_term | |- mrel _ rec => exact Hrec | _ => leaf2 end).
  Qed.

  Lemma Q_tier {O} (g : M (option O)) (operand : M value) (ap : O -> value -> value -> M value) :
    mrel Q g -> mrel Q operand -> (forall o a b, mrel Q (ap o a b)) -> mrel Q (tier fuel g operand ap).
  Proof. intros Hg Ho Ha. unfold tier; walk2; auto. Qed.

  Lemma Q_accept_as {O} t (o : O) : mrel Q (accept_as t o).
  Proof. unfold accept_as; walk2. Qed.

  Lemma Q_logical_or : mrel Q (logical_or_expression fuel rec).
  Proof.
    unfold logical_or_expression, logical_and_expression, equality_expression,
      plus_or_minus_expression, multiply_or_divide_expression, exponent_expression.
    repeat (apply Q_tier; [ first [apply Q_accept_as | apply Q_try] | | intros; leaf2 ]).
    apply Q_unary.
  Qed.
End Expr.

Lemma Q_evaluate_expression fuel : forall n, mrel Q (evaluate_expression fuel n).
Proof.
  induction fuel as [|k IH]; intros n; cbn [evaluate_expression].
  - apply (mrel_out_of_fuel _ PO).
  - destruct (Nat.eqb n max_nesting); [apply (mrel_fail _ PO)|].
    apply Q_logical_or; apply IH.
Qed.

Lemma Q_print fuel nest : mrel Q (evaluate_print_statement fuel nest).
Proof.
  unfold evaluate_print_statement, expr.
  qwalk ltac:(idtac; lazymatch goal with |- mrel _ (evaluate_expression _ _) => apply Q_evaluate_expression | _ => leaf2 end).
Qed.

(* ------------------------------------------------------------------ *)
(* Statements of an inspection line *)

Definition is_head (t : token) : bool :=
  match t with TPrint | TQuestionMark | TColon | TElse => true | _ => false end.

Definition safe_from (ts : list token) (i : nat) : Prop :=
  match nth_error ts i with Some t => is_head t = true | None => True end.

Fixpoint heads_after (ts : list token) : bool :=
  match ts with
  | [] => true
  | TColon :: r => (match r with [] => true | t :: _ => is_head t end) && heads_after r
  | _ :: r => heads_after r
  end.

(* the inspection lines covered: PRINT / ? statements separated by ":" (an
   ELSE where a statement would start is harmless: the line is abandoned or
   fails there), over expressions without array references, RND and
   user-function calls *)
Definition insp_line (ts : list token) : bool :=
  (match ts with [] => true | t :: _ => is_head t end) && heads_after ts && quiet_toks ts.

Lemma heads_after_nth ts : heads_after ts = true -> forall i,
  nth_error ts i = Some TColon -> safe_from ts (S i).
Proof.
  induction ts as [|t r IH]; intros Hq i H1; [destruct i; discriminate|].
  destruct i as [|i].
  - cbn in H1. injection H1 as ->. cbn [heads_after] in Hq. apply andb_prop in Hq as [Hq _].
    unfold safe_from. cbn. destruct r as [|t' r']; [exact I | exact Hq].
  - assert (Hr : heads_after r = true).
    { destruct t; cbn [heads_after] in Hq; try exact Hq. apply andb_prop in Hq. apply Hq. }
    exact (IH Hr i H1).
Qed.

Definition bump (s : interp) : interp := set_reads (S (reads s)) s.

Lemma peek_imm s : loc_line (loc s) = None ->
  peek_next_token s = (Ok (nth_error (immediate s) (loc_idx (loc s))), bump s).
Proof.
  intros Hl. unfold peek_next_token, cur_tokens, tokens_for_line, bind, get, modify, ret. cbn. rewrite Hl. reflexivity.
Qed.

Lemma has_next_imm s : loc_line (loc s) = None ->
  has_next_token s = (Ok (match nth_error (immediate s) (loc_idx (loc s)) with Some _ => true | None => false end), bump s).
Proof. intros Hl. unfold has_next_token, bind. rewrite (peek_imm s Hl). reflexivity. Qed.

Lemma next_token_imm s : loc_line (loc s) = None ->
  next_token s = match nth_error (immediate s) (loc_idx (loc s)) with
                 | Some t => (Ok (Some t), set_loc (mkloc None (S (loc_idx (loc s)))) (bump s))
                 | None => (Ok None, bump s)
                 end.
Proof.
  intros Hl. unfold next_token, bind. rewrite (peek_imm s Hl).
  destruct (nth_error (immediate s) (loc_idx (loc s))); [|reflexivity].
  unfold advance, modify, ret. cbn. rewrite Hl. reflexivity.
Qed.

Lemma core_bump s : core (bump s) = core s. Proof. destruct s; reflexivity. Qed.
Lemma core_set_loc l s : core (set_loc l s) = core s. Proof. destruct s; reflexivity. Qed.
Lemma core_set_state x s : core (set_state x s) = core s. Proof. destruct s; reflexivity. Qed.
Lemma core_set_outputs x s : core (set_outputs x s) = core s. Proof. destruct s; reflexivity. Qed.
Lemma core_set_reads x s : core (set_reads x s) = core s. Proof. destruct s; reflexivity. Qed.
Lemma core_set_immediate x s : core (set_immediate x s) = core s. Proof. destruct s; reflexivity. Qed.

Definition EndPos (s : interp) : Prop :=
  match nth_error (immediate s) (loc_idx (loc s)) with
  | None | Some TColon | Some TElse => True
  | Some _ => False
  end.

Lemma EndPos_safe s : EndPos s -> safe_from (immediate s) (loc_idx (loc s)).
Proof.
  unfold EndPos, safe_from. destruct (nth_error (immediate s) (loc_idx (loc s))) as [t|]; [|trivial].
  destruct t; intros H; try contradiction; reflexivity.
Qed.

(* a PRINT statement that succeeds stops in front of ":" or ELSE, or at the end of the line *)
Lemma print_ends fuel nest s s' : NoCall s ->
  evaluate_print_statement fuel nest s = (Ok tt, s') -> EndPos s'.
Proof.
  intros HN. unfold evaluate_print_statement.
  match goal with |- context [repeat_m fuel ?b _] => set (body := b) end.
  assert (Hbody : forall acc, mrel Q (body acc)).
  { intros [semi text]. unfold body, expr.
    qwalk ltac:(idtac; lazymatch goal with |- mrel _ (evaluate_expression _ _) => apply Q_evaluate_expression | _ => leaf2 end). }
  assert (Hloop : forall n acc s0 r s1, NoCall s0 -> repeat_m n body acc s0 = (Ok r, s1) -> EndPos s1).
  { induction n as [|n IH]; intros acc s0 r s1 HN0 E; [discriminate E|].
    cbn [repeat_m] in E. unfold bind at 1 in E.
    pose proof (Hbody acc s0 HN0) as Hq.
    destruct (body acc s0) as [[[a|r']|e l|p| |] s2] eqn:Eb; try discriminate E; cbn [snd] in Hq.
    - apply (IH a s2 r s1); [apply Hq | exact E].
    - injection E as <- <-. clear IH Hq.
      destruct acc as [semi text]. unfold body in Eb. unfold bind at 1 in Eb. rewrite (peek_imm s0 (proj1 HN0)) in Eb.
      assert (Hb : nth_error (immediate (bump s0)) (loc_idx (loc (bump s0))) = nth_error (immediate s0) (loc_idx (loc s0)))
        by (destruct s0; reflexivity).
      destruct (nth_error (immediate s0) (loc_idx (loc s0))) as [t|] eqn:Et.
      + destruct t;
          try (unfold bind in Eb;
               match type of Eb with context [match ?x with _ => _ end] => destruct x as [[?|? ?|?| |] ?] end; discriminate Eb);
          injection Eb as _ <-; unfold EndPos; rewrite Hb; exact I.
      + injection Eb as _ <-. unfold EndPos. rewrite Hb. exact I. }
  unfold bind. destruct (repeat_m fuel body (false, []) s) as [[[semi text]|e l|p| |] s1] eqn:El; try discriminate.
  intros E. pose proof (Hloop _ _ _ _ _ HN El) as He.
  unfold push_output, modify in E. injection E as <-. unfold EndPos in *. destruct s1; exact He.
Qed.

Lemma trace_prefix_imm s : loc_line (loc s) = None ->
  (if enable_tracing s
   then l <- get_line_number ;; match l with Some n => push_output (OTrace n) | None => ret tt end
   else ret tt) s = (Ok tt, s).
Proof.
  intros Hl. destruct (enable_tracing s); [|reflexivity].
  unfold get_line_number, bind, get, ret. rewrite Hl. reflexivity.
Qed.

Lemma is_else_imm s : loc_line (loc s) = None ->
  is_else_of_then_clause s = (Ok (then_before (rev (firstn (Nat.pred (loc_idx (loc s))) (immediate s)))), s).
Proof.
  intros Hl. unfold is_else_of_then_clause, cur_tokens, tokens_for_line, bind, get, ret. cbn. rewrite Hl. reflexivity.
Qed.

Lemma discard_imm s : loc_line (loc s) = None ->
  discard_remaining_tokens s = (Ok tt, set_loc (mkloc None (length (immediate s))) s).
Proof.
  intros Hl. unfold discard_remaining_tokens, cur_tokens, tokens_for_line, bind, get, modify. cbn. rewrite Hl. cbn. rewrite Hl. reflexivity.
Qed.

Lemma insp_statement fuel s r s' : NoCall s -> heads_after (immediate s) = true ->
  safe_from (immediate s) (loc_idx (loc s)) -> nth_error (immediate s) (loc_idx (loc s)) <> None ->
  evaluate_statement fuel 0 s = (r, s') ->
  NoCall s' /\ immediate s' = immediate s /\ core s' = core s /\ state s' = state s
  /\ (r = Ok tt -> safe_from (immediate s) (loc_idx (loc s'))).
Proof.
  intros HN Hh Hs Hsome E. destruct fuel as [|f].
  { cbn in E. injection E as <- <-. repeat split; try apply HN. discriminate. }
  cbn [evaluate_statement] in E. change (Nat.eqb 0 max_nesting) with false in E. cbv iota in E.
  unfold evaluate_statement_body in E. rewrite bind_get in E.
  unfold bind at 1 in E. rewrite (trace_prefix_imm s (proj1 HN)) in E.
  unfold bind at 1 in E. rewrite (next_token_imm s (proj1 HN)) in E.
  unfold safe_from in Hs.
  destruct (nth_error (immediate s) (loc_idx (loc s))) as [t|] eqn:Et; [|congruence].
  set (sa := set_loc (mkloc None (S (loc_idx (loc s)))) (bump s)) in *.
  assert (HNa : NoCall sa) by (split; [reflexivity | destruct s; apply HN]).
  assert (Hia : immediate sa = immediate s) by (destruct s; reflexivity).
  assert (Hca : core sa = core s) by (unfold sa; rewrite core_set_loc; apply core_bump).
  assert (Hsa : state sa = state s) by (destruct s; reflexivity).
  assert (Hla : loc_idx (loc sa) = S (loc_idx (loc s))) by reflexivity.
  destruct t; try discriminate Hs.
  - (* PRINT *)
    pose proof (Q_print f 1 sa HNa) as Hq. pose proof (print_ends f 1 sa) as He.
    rewrite E in Hq. cbn [snd] in Hq.
    destruct Hq as (A & B & C & D). repeat split; try apply A; try congruence.
    intros ->. rewrite <- Hia, <- B. apply EndPos_safe. apply (He s' HNa E).
  - (* : *)
    injection E as <- <-. repeat split; try apply HNa; try assumption.
    intros _. rewrite Hla. apply (heads_after_nth _ Hh _ Et).
  - (* ? *)
    pose proof (Q_print f 1 sa HNa) as Hq. pose proof (print_ends f 1 sa) as He.
    rewrite E in Hq. cbn [snd] in Hq.
    destruct Hq as (A & B & C & D). repeat split; try apply A; try congruence.
    intros ->. rewrite <- Hia, <- B. apply EndPos_safe. apply (He s' HNa E).
  - (* ELSE where a statement starts *)
    unfold bind at 1 in E. rewrite (is_else_imm sa eq_refl) in E.
    destruct (then_before _).
    + rewrite (discard_imm sa eq_refl) in E. injection E as <- <-.
      repeat split; try (destruct s; apply HN); try (destruct s; reflexivity).
      intros _. unfold safe_from.
      replace (nth_error (immediate s) _) with (@None token); [exact I|].
      symmetry. apply nth_error_None. destruct s; cbn. lia.
    + injection E as <- <-. repeat split; try apply HNa; try assumption. discriminate.
Qed.

(* ------------------------------------------------------------------ *)
(* One host call, then the whole line *)

Lemma next_line_imm s : loc_line (loc s) = None -> next_line s = (Ok false, s).
Proof. intros Hl. unfold next_line, bind, get, ret. rewrite Hl. reflexivity. Qed.

Lemma imm_reset_bp ts s : breakpoint s <> None -> imm_reset ts s = set_loc imm0 (set_immediate ts s).
Proof. intros H. unfold imm_reset. destruct (breakpoint s); [reflexivity | congruence]. Qed.

(* the line is still being executed: the cursor stands where a statement starts *)
Definition Going (ts : list token) (s : interp) : Prop :=
  state s = Running /\ NoCall s /\ immediate s = ts /\ safe_from ts (loc_idx (loc s)).

Lemma core_breakpoint s s' : core s' = core s -> breakpoint s' = breakpoint s.
Proof. intros H. exact (f_equal breakpoint H). Qed.

Lemma insp_tail ts s r s' :
  NoCall s -> immediate s = ts -> safe_from ts (loc_idx (loc s)) -> breakpoint s <> None -> state s = Running ->
  (h2 <- has_next_token ;;
   if h2 then ret tt
   else n <- next_line ;; if n then ret tt else set_and_goto_immediate_line [] ;;; return_to_idle_state) s = (r, s') ->
  core s' = core s /\ r = Ok tt /\ (state s' = Idle \/ Going ts s').
Proof.
  intros HN Hi Hs Hbp Hst E. unfold bind at 1 in E. rewrite (has_next_imm s (proj1 HN)) in E.
  assert (HNb : NoCall (bump s)) by (destruct s; exact HN).
  destruct (nth_error (immediate s) (loc_idx (loc s))) as [t|] eqn:Et.
  - injection E as <- <-. split; [apply core_bump|]. split; [reflexivity|]. right.
    split; [destruct s; exact Hst|]. split; [exact HNb|]. split; [destruct s; exact Hi|]. destruct s; exact Hs.
  - unfold bind at 1 in E. rewrite (next_line_imm (bump s) (proj1 HNb)) in E.
    rewrite set_imm_is_modify, bind_modify in E. unfold return_to_idle_state, modify in E.
    injection E as <- <-. rewrite imm_reset_bp by (destruct s; exact Hbp).
    split; [|split; [reflexivity | left; reflexivity]].
    rewrite core_set_state, core_set_loc, core_set_immediate. apply core_bump.
Qed.

Lemma insp_run_next fuel ts s r s' :
  heads_after ts = true -> NoCall s -> immediate s = ts -> safe_from ts (loc_idx (loc s)) -> breakpoint s <> None ->
  run_next_statement fuel s = (r, s') ->
  core s' = core s /\ (r = Ok tt -> state s' = Idle \/ Going ts s').
Proof.
  intros Hh HN Hi Hs Hbp E. unfold run_next_statement in E. rewrite bind_modify in E.
  set (sR := set_state Running s) in *.
  assert (HNR : NoCall sR) by (destruct s; exact HN).
  assert (HiR : immediate sR = ts) by (destruct s; exact Hi).
  assert (HsR : safe_from ts (loc_idx (loc sR))) by (destruct s; exact Hs).
  assert (HcR : core sR = core s) by apply core_set_state.
  unfold bind at 1 in E. rewrite (has_next_imm sR (proj1 HNR)) in E.
  assert (HNb : NoCall (bump sR)) by (destruct s; exact HN).
  assert (Hib : immediate (bump sR) = ts) by (destruct s; exact Hi).
  assert (Hsb : safe_from ts (loc_idx (loc (bump sR)))) by (destruct s; exact Hs).
  assert (Hcb : core (bump sR) = core s) by (rewrite core_bump; exact HcR).
  assert (Hstb : state (bump sR) = Running) by (destruct s; reflexivity).
  destruct (nth_error (immediate sR) (loc_idx (loc sR))) as [t|] eqn:Et.
  - unfold bind at 1 in E.
    destruct (evaluate_statement fuel 0 (bump sR)) as [r1 s1] eqn:E1.
    assert (Hsome : nth_error (immediate (bump sR)) (loc_idx (loc (bump sR))) <> None).
    { replace (nth_error (immediate (bump sR)) (loc_idx (loc (bump sR)))) with (nth_error (immediate sR) (loc_idx (loc sR)))
        by (destruct s; reflexivity). congruence. }
    rewrite <- Hib in Hh, Hsb.
    destruct (insp_statement fuel (bump sR) r1 s1 HNb Hh Hsb Hsome E1) as (A & B & C & D & F).
    destruct r1 as [[]|e l|p| |]; try (injection E as <- <-; split; [congruence | discriminate]).
    assert (Hbp1 : breakpoint s1 <> None).
    { rewrite (core_breakpoint _ _ C), (core_breakpoint _ _ Hcb). exact Hbp. }
    destruct (insp_tail ts s1 r s' A (eq_trans B Hib) ltac:(rewrite <- Hib; apply F; reflexivity) Hbp1 (eq_trans D Hstb) E)
      as (G1 & G2 & G3).
    split; [congruence | intros _; exact G3].
  - cbv iota in E. unfold bind at 1 in E. unfold ret at 1 in E.
    assert (Hbpb : breakpoint (bump sR) <> None) by (destruct s; exact Hbp).
    destruct (insp_tail ts (bump sR) r s' HNb Hib Hsb Hbpb Hstb E) as (G1 & G2 & G3).
    split; [congruence | intros _; exact G3].
Qed.

(* the invariant of an inspection in progress *)
Definition Mid (ts : list token) (s0 s : interp) : Prop :=
  core s = core s0 /\ outputs s = [] /\ (state s = Idle \/ Going ts s).

Lemma Going_outputs ts o s : Going ts s -> Going ts (set_outputs o s).
Proof. intros H. destruct s; exact H. Qed.
Lemma Going_reads ts n s : Going ts s -> Going ts (set_reads n s).
Proof. intros H. destruct s; exact H. Qed.

Lemma insp_post ts s0 (x : res unit * interp) :
  core (snd x) = core s0 -> (fst x = Ok tt -> state (snd x) = Idle \/ Going ts (snd x)) ->
  match pack (postprocess x) with
  | Some (r, _, s1) => is_val r -> Mid ts s0 s1
  | None => False
  end.
Proof.
  destruct x as [[[]|e l|p| |] s1]; cbn [fst snd postprocess pack]; intros Hc Hg Hv; try contradiction.
  - split; [rewrite core_set_outputs; exact Hc|]. split; [reflexivity|].
    destruct (Hg eq_refl) as [H|H]; [left; destruct s1; exact H | right; apply Going_outputs; exact H].
  - split; [rewrite core_set_outputs, core_set_state; exact Hc|]. split; [reflexivity | left; reflexivity].
Qed.

Lemma insp_start fuel text ts s0 :
  state s0 = Idle -> breakpoint s0 <> None -> imm_line text ts -> insp_line ts = true ->
  match call_obs fuel s0 (HLine text) with
  | Some (r, _, s1) => is_val r -> Mid ts s0 s1
  | None => False
  end.
Proof.
  intros Hidle Hbp (Hc & Hp & tsr & Ht & Hm) Hil.
  unfold insp_line in Hil. apply andb_prop in Hil as [Hil Hq]. apply andb_prop in Hil as [Hh0 Hh].
  unfold call_obs, legal. rewrite Hidle. cbn [negb]. cbv iota.
  unfold start_evaluating. unfold evaluate_impl.
  rewrite bind_get. change (state (set_reads 0 s0)) with (state s0). rewrite Hidle.
  rewrite set_imm_is_modify, bind_modify, Hc, Hp, Ht, Hm. rewrite set_imm_is_modify, bind_modify.
  set (sA := imm_reset ts (imm_reset [] (set_reads 0 s0))).
  assert (EA : sA = set_loc imm0 (set_immediate ts (set_reads 0 s0))).
  { unfold sA. rewrite (imm_reset_bp [] (set_reads 0 s0)) by (destruct s0; exact Hbp).
    rewrite imm_reset_bp by (destruct s0; exact Hbp). destruct s0; reflexivity. }
  assert (HN : NoCall sA) by (rewrite EA; split; [reflexivity | destruct s0; exact Hq]).
  assert (Hi : immediate sA = ts) by (rewrite EA; destruct s0; reflexivity).
  assert (Hs : safe_from ts (loc_idx (loc sA))).
  { rewrite EA. unfold safe_from. replace (loc_idx _) with 0 by (destruct s0; reflexivity).
    destruct ts as [|t r]; [exact I | exact Hh0]. }
  assert (Hb : breakpoint sA <> None) by (rewrite EA; destruct s0; exact Hbp).
  assert (HcA : core sA = core s0) by (rewrite EA; destruct s0; reflexivity).
  destruct (run_next_statement fuel sA) as [r s'] eqn:E.
  destruct (insp_run_next fuel ts sA r s' Hh HN Hi Hs Hb E) as (G1 & G2).
  apply (insp_post ts s0 (r, s')); cbn [fst snd]; [congruence | exact G2].
Qed.

Lemma insp_cont fuel ts s0 s :
  heads_after ts = true -> breakpoint s0 <> None -> core s = core s0 -> Going ts s ->
  match call_obs fuel s HCont with
  | Some (r, _, s1) => is_val r -> Mid ts s0 s1
  | None => False
  end.
Proof.
  intros Hh Hbp Hc Hg. pose proof (Going_reads ts 0 s Hg) as (Hst & HN & Hi & Hs).
  unfold call_obs, legal. replace (state s) with Running by (symmetry; apply Hg). cbn [negb]. cbv iota.
  unfold continue_evaluating. rewrite Hst.
  assert (Hb : breakpoint (set_reads 0 s) <> None).
  { replace (breakpoint (set_reads 0 s)) with (breakpoint s) by (destruct s; reflexivity).
    rewrite (core_breakpoint _ _ Hc). exact Hbp. }
  destruct (run_next_statement fuel (set_reads 0 s)) as [r s'] eqn:E.
  destruct (insp_run_next fuel ts _ r s' Hh HN Hi Hs Hb E) as (G1 & G2).
  apply (insp_post ts s0 (r, s')); cbn [fst snd]; [|exact G2].
  rewrite G1, core_set_reads. exact Hc.
Qed.

Lemma norm_of_core s : norm s = set_outputs (outputs s) (set_state (state s) (core s)).
Proof. destruct s; reflexivity. Qed.

(* THE INSPECTION THEOREM.  From an idle interpreter with a breakpoint pending
   and its output taken, type an inspection line and drive it with any number
   of continue calls (each answering a value: an error ends the line): at
   every point the runtime part is the one at the breakpoint, and whenever the
   interpreter is idle again its [norm] — all that CONT and the continuation
   read — is that of the state at the breakpoint. *)
Fixpoint conts (k : nat) : list hostop := match k with O => [] | S k => HCont :: conts k end.

Theorem inspection_keeps_runtime fuel text ts s0 :
  state s0 = Idle -> breakpoint s0 <> None -> outputs s0 = [] ->
  imm_line text ts -> insp_line ts = true ->
  forall k, values fuel s0 (HLine text :: conts k) ->
  let s := run_state fuel s0 (HLine text :: conts k) in
  Mid ts s0 s /\ (state s = Idle -> norm s = norm s0).
Proof.
  intros Hidle Hbp Hout Him Hil k Hv.
  assert (Hh : heads_after ts = true).
  { unfold insp_line in Hil. apply andb_prop in Hil as [Hil _]. apply andb_prop in Hil as [_ Hh]. exact Hh. }
  assert (Hmid : forall k s, Mid ts s0 s -> values fuel s (conts k) -> Mid ts s0 (run_state fuel s (conts k))).
  { clear k Hv. induction k as [|k IH]; intros s Hm Hv; [exact Hm|].
    cbn [conts run_state]. cbn [conts values] in Hv. destruct Hv as [Hv1 Hv2].
    destruct Hm as (Hc & Ho & [Hst | Hg]).
    - (* idle: the call is not legal, nothing happens *)
      assert (E : step fuel s HCont = (None, s)) by (unfold step, legal; rewrite Hst; reflexivity).
      rewrite E in *. cbn [snd] in *. apply IH; [split; [exact Hc | split; [exact Ho | left; exact Hst]] | exact Hv2].
    - pose proof (insp_cont fuel ts s0 s Hh Hbp Hc Hg) as H.
      rewrite step_snd_call_obs in *. destruct (call_obs fuel s HCont) as [[[r o] s1]|]; [|contradiction].
      apply IH; [apply H; exact Hv1 | exact Hv2]. }
  cbn [run_state]. cbn [values] in Hv. destruct Hv as [Hv1 Hv2].
  pose proof (insp_start fuel text ts s0 Hidle Hbp Him Hil) as H.
  rewrite step_snd_call_obs in *. destruct (call_obs fuel s0 (HLine text)) as [[[r o] s1]|]; [|contradiction].
  pose proof (Hmid k s1 (H Hv1) Hv2) as Hm. split; [exact Hm|].
  intros Hst. destruct Hm as (Hc & Ho & _). rewrite !norm_of_core, Hc, Ho, Hst, Hout, Hidle. reflexivity.
Qed.

(* ... so CONT after the inspection is CONT without it, now and for the rest of the run *)
Corollary inspection_transparent fuel text ts s0 k ops :
  state s0 = Idle -> breakpoint s0 <> None -> outputs s0 = [] ->
  imm_line text ts -> insp_line ts = true -> values fuel s0 (HLine text :: conts k) ->
  state (run_state fuel s0 (HLine text :: conts k)) = Idle ->
  transcript fuel (run_state fuel s0 (HLine text :: conts k)) (HLine CONT :: ops) = transcript fuel s0 (HLine CONT :: ops)
  /\ run_state fuel (run_state fuel s0 (HLine text :: conts k)) (HLine CONT :: ops) = run_state fuel s0 (HLine CONT :: ops).
Proof.
  intros Hidle Hbp Hout Him Hil Hv Hst.
  destruct (inspection_keeps_runtime fuel text ts s0 Hidle Hbp Hout Him Hil k Hv) as (Hm & Hn).
  apply continuation_reads_runtime_only; [exact Hst | | exact (Hn Hst)].
  destruct Hm as (Hc & _). rewrite (core_breakpoint _ _ Hc). exact Hbp.
Qed.
