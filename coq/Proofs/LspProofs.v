(* Proofs/LspProofs.v — C20: what the language server reports lies inside the
   document.  On top of C05 (AnalyzerProofs: every mapped range lies in its
   line, on character boundaries; token ranges are ordered):

     utf16_col_mono / utf16_col_le_width   columns are monotone in the byte offset
     diagnostics_in_bounds                 line exists, start <= end <= width (UTF-16)
     diagnostics_complete                  one diagnostic per mapped message, none other
     tokens_decode                         the delta encoding decodes to the analyzer's
                                           tokens: no subtraction underflows
     tokens_in_bounds, token_types_in_legend *)
From Coq Require Import List NArith ZArith Bool Lia Arith.
From Abasic Require Import Model.Bytes Model.Num Model.Token Model.Data Model.Lexer Gen.Tables
     Model.State Model.Eval Model.Interp Model.Analyzer Model.Lsp Proofs.LexerRanges Proofs.AnalyzerProofs.
Import ListNotations.
Local Open Scope nat_scope.

(* ------------------------------------------------------------------ *)
(* columns *)

Lemma units_app a b : units (a ++ b) = units a + units b.
Proof. induction a as [|x a IH]; cbn [units app]; [reflexivity|]. rewrite IH. lia. Qed.

Lemma firstn_plus {A} (l : list A) : forall a k, firstn (a + k) l = firstn a l ++ firstn k (skipn a l).
Proof.
  induction l as [|x l IH]; intros a k.
  - rewrite !firstn_nil, skipn_nil, firstn_nil. reflexivity.
  - destruct a as [|a]; [reflexivity|]. cbn [Nat.add firstn skipn app]. f_equal. apply IH.
Qed.

Lemma utf16_col_mono line a b : a <= b -> utf16_col line a <= utf16_col line b.
Proof.
  intros H. unfold utf16_col.
  replace (firstn b line) with (firstn a line ++ firstn (b - a) (skipn a line)).
  - rewrite units_app. lia.
  - replace b with (a + (b - a)) at 2 by lia. symmetry. apply firstn_plus.
Qed.

Lemma utf16_col_le_width line a : utf16_col line a <= utf16_width line.
Proof.
  unfold utf16_col, utf16_width. rewrite <- (firstn_skipn a line) at 2. rewrite units_app. lia.
Qed.

Lemma utf16_col_0 line : utf16_col line 0 = 0.
Proof. reflexivity. Qed.

(* ------------------------------------------------------------------ *)
(* diagnostics *)

Theorem diagnostics_complete lines a d :
  In d (diagnostics_of lines a) <->
  exists msg fl x y, In msg (an_messages a) /\ map_to_source (an_map a) msg = Some (fl, (x, y))
    /\ d = mkdiag fl (utf16_col (nth fl lines []) x) (utf16_col (nth fl lines []) y) (severity_of msg).
Proof.
  unfold diagnostics_of. rewrite in_flat_map. split.
  - intros (msg & Hin & Hd). unfold diag_of in Hd.
    destruct (map_to_source (an_map a) msg) as [[fl [x y]]|] eqn:E; [|destruct Hd].
    destruct Hd as [<-|[]]. exists msg, fl, x, y. repeat split; assumption.
  - intros (msg & fl & x & y & Hin & E & ->). exists msg. split; [exact Hin|].
    unfold diag_of. rewrite E. left. reflexivity.
Qed.

Theorem diagnostics_in_bounds fuel text d :
  Forall (fun l => valid_utf8 l = true) (split_lines text) ->
  Forall (msg_ok (sm_ranges (an_map (analyze fuel text)))) (an_messages (analyze fuel text)) ->
  In d (diagnostics_of (split_lines text) (analyze fuel text)) ->
  d_line d < length (split_lines text)
  /\ d_start d <= d_end d
  /\ d_end d <= utf16_width (nth (d_line d) (split_lines text) []).
Proof.
  intros Hv Hok Hin.
  generalize (mapped_in_bounds fuel text). generalize (diagnostics_complete (split_lines text) (analyze fuel text) d).
  revert Hok Hin. generalize (analyze fuel text). intros a Hok Hin Hc Hb.
  apply Hc in Hin. destruct Hin as (msg & fl & x & y & Hmsg & Hmap & ->). cbn [d_line d_start d_end].
  rewrite Forall_forall in Hok.
  destruct (Hb msg fl (x, y) Hv (Hok _ Hmsg) Hmap) as (line & Hl & (H1 & H2 & _)).
  cbn [fst snd] in *.
  split; [apply nth_error_Some; congruence|].
  split; [apply utf16_col_mono; exact H1|apply utf16_col_le_width].
Qed.

(* ------------------------------------------------------------------ *)
(* semantic tokens *)

Definition abs_line (line : bytes) (i : nat) (ts : list (N * (nat * nat))) : list (nat * nat * nat * N) :=
  map (fun t => (i, utf16_col line (fst (snd t)), utf16_col line (snd (snd t)) - utf16_col line (fst (snd t)), fst t)) ts.

Fixpoint abs_from (lines : list bytes) (tss : list (list (N * (nat * nat)))) (i : nat) : list (nat * nat * nat * N) :=
  match tss with
  | [] => []
  | ts :: r => abs_line (nth i lines []) i ts ++ abs_from lines r (S i)
  end.

Lemma decode_app l1 l2 line col :
  decode_tokens (l1 ++ l2) line col =
  decode_tokens l1 line col ++
  decode_tokens l2 (fold_left (fun acc t => acc + fst (fst (fst t))) l1 line)
                   (fold_left (fun acc t => let '(dl, ds, _, _) := t in if Nat.eqb dl 0 then acc + ds else ds) l1 col).
Proof.
  revert line col. induction l1 as [|[[[dl ds] len] c] l1 IH]; intros line col; cbn [app decode_tokens fold_left]; [reflexivity|].
  f_equal. rewrite IH. cbn [fst]. reflexivity.
Qed.

Lemma ordered_weaken lo lo' ts : lo' <= lo -> ordered lo ts -> ordered lo' ts.
Proof. destruct ts as [|[c [a b]] ts]; cbn [ordered]; [auto|]. intros H (H1 & H2 & H3). repeat split; (lia || assumption). Qed.

(* tokens after the first of a line: delta_line 0, columns chained *)
Lemma decode_rest line i : forall ts ps,
  ordered ps ts ->
  decode_tokens (line_tokens line 0 (utf16_col line ps) false ts) i (utf16_col line ps) = abs_line line i ts
  /\ forall dl0, line_tokens line dl0 (utf16_col line ps) false ts = line_tokens line 0 (utf16_col line ps) false ts.
Proof.
  induction ts as [|[c [a b]] ts IH]; intros ps Hord; cbn [line_tokens decode_tokens abs_line map]; [split; reflexivity|].
  cbn [ordered] in Hord. destruct Hord as (H1 & H2 & H3).
  pose proof (utf16_col_mono line ps a H1) as M1.
  destruct (IH a (ordered_weaken b a ts H2 H3)) as [IH1 IH2]. split.
  - cbn [Nat.eqb fst snd]. rewrite Nat.add_0_r.
    replace (utf16_col line ps + (utf16_col line a - utf16_col line ps)) with (utf16_col line a) by lia.
    f_equal. exact IH1.
  - intros dl0. f_equal. apply IH2.
Qed.

(* End column / line bookkeeping of one encoded line *)
Lemma line_tokens_first line i prev col ts c a b :
  prev <= i -> (i = prev -> col = 0) ->
  ordered 0 ((c, (a, b)) :: ts) ->
  decode_tokens (line_tokens line (i - prev) 0 true ((c, (a, b)) :: ts)) prev col
  = abs_line line i ((c, (a, b)) :: ts).
Proof.
  intros Hle Hcol Hord. cbn [line_tokens decode_tokens abs_line map fst snd].
  cbn [ordered] in Hord. destruct Hord as (_ & H2 & H3).
  replace (prev + (i - prev)) with i by lia. rewrite Nat.sub_0_r.
  assert (Ec : (if Nat.eqb (i - prev) 0 then col + utf16_col line a else utf16_col line a) = utf16_col line a).
  { destruct (Nat.eqb_spec (i - prev) 0) as [E|E]; [|reflexivity]. rewrite Hcol by lia. reflexivity. }
  rewrite Ec. f_equal.
  destruct (decode_rest line i ts a (ordered_weaken b a ts H2 H3)) as [D1 D2]. rewrite D2. exact D1.
Qed.

Lemma decode_line_end line dl prev ts :
  ts <> [] ->
  fold_left (fun acc t => acc + fst (fst (fst t))) (line_tokens line dl 0 true ts) prev = prev + dl.
Proof.
  destruct ts as [|[c [a b]] ts]; [congruence|]. intros _. cbn [line_tokens fold_left fst].
  generalize (prev + dl). generalize (utf16_col line a).
  induction ts as [|[c' [a' b']] ts IH]; intros ps acc; cbn [line_tokens fold_left fst]; [reflexivity|].
  rewrite Nat.add_0_r. apply IH.
Qed.

Theorem tokens_decode lines : forall tss i prev col,
  prev <= i -> (i = prev -> col = 0) ->
  Forall (fun lt => ordered 0 lt) tss ->
  decode_tokens (tokens_from lines tss i prev) prev col = abs_from lines tss i.
Proof.
  induction tss as [|ts tss IH]; intros i prev col Hle Hcol Hord; cbn [tokens_from abs_from]; [reflexivity|].
  inversion Hord as [|? ? Ho Hord']; subst.
  destruct ts as [|[c [a b]] ts].
  - cbn [abs_line map app]. apply IH; [lia|intros E; lia|exact Hord'].
  - rewrite decode_app.
    rewrite (line_tokens_first (nth i lines []) i prev col ts c a b Hle Hcol Ho).
    f_equal.
    rewrite (decode_line_end (nth i lines []) (i - prev) prev ((c, (a, b)) :: ts)) by discriminate.
    replace (prev + (i - prev)) with i by lia.
    apply IH; [lia|intros E; lia|exact Hord'].
Qed.

(* every decoded token lies inside its line *)
Lemma abs_line_in_bounds line i ts t :
  In t (abs_line line i ts) -> ordered 0 ts ->
  let '(l, s, n, c) := t in l = i /\ s + n <= utf16_width line.
Proof.
  unfold abs_line. intros Hin Hord. apply in_map_iff in Hin as ([c [a b]] & <- & Hin). cbn [fst snd].
  split; [reflexivity|].
  assert (Hab : a <= b).
  { clear -Hin Hord. revert Hord. generalize 0. induction ts as [|[c' [a' b']] ts IH]; intros lo Hord; [destruct Hin|].
    cbn [ordered] in Hord. destruct Hord as (H1 & H2 & H3).
    destruct Hin as [E|Hin]; [inversion E; subst; exact H2|apply (IH Hin b' H3)]. }
  pose proof (utf16_col_mono line a b Hab). pose proof (utf16_col_le_width line b). lia.
Qed.

Lemma token_class_lt_8 t : (token_class t < 8)%N.
Proof. destruct t; vm_compute; reflexivity. Qed.

(* the analysis' token classes are legend indices *)
Definition cls_ok (lt : list (N * (nat * nat))) : Prop := Forall (fun t => (fst t < 8)%N) lt.

Lemma cls_ok_tokens (ts : list ranged) : cls_ok (map (fun tr => (token_class (fst tr), snd tr)) ts).
Proof. unfold cls_ok. rewrite Forall_forall. intros t Hin. apply in_map_iff in Hin as (tr & <- & _). apply token_class_lt_8. Qed.

Lemma pass1_line_cls i line p : Forall cls_ok (p_toks p) -> Forall cls_ok (p_toks (pass1_line i line p)).
Proof.
  intros H.
  assert (K : forall lt, cls_ok lt -> Forall cls_ok (p_toks p ++ [lt]))
    by (intros lt Hlt; apply Forall_app; split; [exact H|constructor; [exact Hlt|constructor]]).
  assert (Kn : forall e : nat, cls_ok [(number_class, (0, e))]) by (intros e; constructor; [vm_compute; reflexivity|constructor]).
  unfold pass1_line. destruct line as [|b0 rest]; [apply K; constructor|].
  destruct (parse_line_number (b0 :: rest)) as [[n e]|]; [|apply K; constructor].
  destruct (tokenize (b0 :: rest) e) as [ts|ts err].
  - destruct ts as [|t0 ts0]; cbn [p_toks]; apply K.
    + apply Kn.
    + unfold cls_ok. apply Forall_app. split; [apply Kn|apply cls_ok_tokens].
  - destruct (error_range err (length (b0 :: rest))) as [a b]. cbn [p_toks]. apply K, Kn.
Qed.

Lemma pass1_lines_cls : forall lines i p, Forall cls_ok (p_toks p) -> Forall cls_ok (p_toks (pass1_lines i lines p)).
Proof.
  induction lines as [|l lines IH]; intros i p H; cbn [pass1_lines]; [exact H|]. apply IH, pass1_line_cls, H.
Qed.

Theorem token_types_in_legend fuel text : Forall cls_ok (an_tokens (analyze fuel text)).
Proof.
  destruct (analyze_fields fuel text) as (_ & H2 & _). rewrite H2. unfold pass1_of.
  apply pass1_lines_cls. constructor.
Qed.

(* the whole answer about tokens *)
Theorem tokens_in_bounds fuel text :
  Forall (fun l => valid_utf8 l = true) (split_lines text) ->
  decode_tokens (semantic_tokens_of (split_lines text) (analyze fuel text)) 0 0
  = abs_from (split_lines text) (an_tokens (analyze fuel text)) 0.
Proof.
  intros Hv. pose proof (analysis_tokens_ordered fuel text Hv) as Ho. revert Ho.
  unfold semantic_tokens_of. generalize (an_tokens (analyze fuel text)). intros tss Ho.
  apply tokens_decode; [lia|reflexivity|exact Ho].
Qed.

Lemma abs_from_in_bounds lines : forall tss i t,
  Forall (fun lt => ordered 0 lt) tss -> In t (abs_from lines tss i) ->
  let '(l, s, n, c) := t in i <= l /\ l < i + length tss /\ s + n <= utf16_width (nth l lines []).
Proof.
  induction tss as [|ts tss IH]; intros i t Hord Hin; [destruct Hin|].
  inversion Hord as [|? ? Ho Hord']; subst. cbn [abs_from] in Hin. apply in_app_or in Hin as [Hin|Hin].
  - pose proof (abs_line_in_bounds _ _ _ _ Hin Ho) as H. destruct t as [[[l s] n] c]. destruct H as [-> H].
    cbn [length]. repeat split; (lia || exact H).
  - specialize (IH (S i) t Hord' Hin). destruct t as [[[l s] n] c]. cbn [length]. destruct IH as (I1 & I2 & I3).
    repeat split; (lia || exact I3).
Qed.
