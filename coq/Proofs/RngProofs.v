(** * Abasic.Proofs.RngProofs — the random number generator (random.rs)

    Part A: pure [N] arithmetic of the linear congruential generator, the
    state-level behaviour of [rng_rnd] and [randomize], and determinism.

    Part B: the float that is produced.  For every reduced state
    [s < MODULUS = 2^33], [latest_random s] is *exactly* the double
    [s * 2^-33] (no rounding happens), hence finite and in [[0, 1)].

    Everything here is axiom-free: the float facts are proved directly on the
    standard library's [SpecFloat] definitions (no Flocq, no reals).  Facts
    about the generated constants ([MODULUS], [MULTIPLIER], [INCREMENT]) are
    decided by computation, so they are re-checked whenever [Gen/Tables.v] is
    regenerated. *)

From Coq Require Import ZArith NArith List Bool Lia Floats.SpecFloat.
From Abasic Require Import Model.Bytes Model.Num Model.Token Model.Data Model.Lexer
     Gen.Tables Model.State Model.Eval Model.Interp.
Import ListNotations.

(* ================================================================== *)
(** * Part A — integer arithmetic, state, determinism *)

Section PartA.
Local Open Scope N_scope.

(** The constants, as decided by computation on the generated table. *)
Lemma MODULUS_pos : MODULUS <> 0.
Proof. unfold MODULUS; discriminate. Qed.

Lemma MODULUS_is_2_33 : MODULUS = 2 ^ 33.
Proof. vm_compute; reflexivity. Qed.

Lemma MULTIPLIER_value : MULTIPLIER = 1664525.
Proof. vm_compute; reflexivity. Qed.

Lemma INCREMENT_value : INCREMENT = 1013904223.
Proof. vm_compute; reflexivity. Qed.

(** 1. *)
Theorem rng_new_range : forall seed, rng_new seed < MODULUS.
Proof. intros seed; unfold rng_new; apply N.mod_lt, MODULUS_pos. Qed.

(** 2. *)
Theorem lcg_range : forall s, lcg s < MODULUS.
Proof. intros s; unfold lcg; apply N.mod_lt, MODULUS_pos. Qed.

(** 3. The Rust [u64] arithmetic cannot overflow once the state is reduced. *)
Theorem lcg_no_u64_overflow :
  forall s, s < MODULUS -> MULTIPLIER * s + INCREMENT < 2 ^ 64.
Proof.
  intros s H.
  assert (E : 2 ^ 64 = 18446744073709551616) by (vm_compute; reflexivity).
  rewrite E; clear E.
  unfold MODULUS in H; unfold MULTIPLIER, INCREMENT; lia.
Qed.

(** 4. Seeding with [seed mod MODULUS] gives the documented sequence of [seed]. *)
Theorem lcg_mod_invariant : forall s, lcg (s mod MODULUS) = lcg s.
Proof.
  intros s; unfold lcg.
  rewrite (N.add_mod (MULTIPLIER * (s mod MODULUS))) by apply MODULUS_pos.
  rewrite (N.mul_mod_idemp_r MULTIPLIER s MODULUS) by apply MODULUS_pos.
  rewrite <- N.add_mod by apply MODULUS_pos.
  reflexivity.
Qed.

(** 5. *)
Theorem lcg_documented :
  forall s, lcg s = (1664525 * s + 1013904223) mod 2 ^ 33.
Proof.
  intros s; unfold lcg.
  rewrite MODULUS_is_2_33, MULTIPLIER_value, INCREMENT_value; reflexivity.
Qed.

(** 6. [rng_rnd], case by case. *)
Theorem rng_rnd_negative :
  forall x st, f64_ltb x f64_zero = true ->
  rng_rnd x st = (Err EUnimplemented None, st).
Proof. intros x st H; unfold rng_rnd; rewrite H; reflexivity. Qed.

Theorem rng_rnd_zero :
  forall x st, f64_ltb x f64_zero = false -> f64_eqb x f64_zero = true ->
  rng_rnd x st = (Ok (latest_random (rng st)), st).
Proof. intros x st H1 H2; unfold rng_rnd; rewrite H1, H2; reflexivity. Qed.

Theorem rng_rnd_advance :
  forall x st, f64_ltb x f64_zero = false -> f64_eqb x f64_zero = false ->
  rng_rnd x st =
  (Ok (latest_random (lcg (rng st))), set_rng (lcg (rng st)) st).
Proof. intros x st H1 H2; unfold rng_rnd; rewrite H1, H2; reflexivity. Qed.

(** The three cases in one statement. *)
Theorem rng_rnd_spec :
  forall x st,
  rng_rnd x st =
  if f64_ltb x f64_zero then (Err EUnimplemented None, st)
  else if f64_eqb x f64_zero then (Ok (latest_random (rng st)), st)
  else (Ok (latest_random (lcg (rng st))), set_rng (lcg (rng st)) st).
Proof.
  intros x st.
  destruct (f64_ltb x f64_zero) eqn:H1; [apply rng_rnd_negative; assumption|].
  destruct (f64_eqb x f64_zero) eqn:H2;
    [apply rng_rnd_zero | apply rng_rnd_advance]; assumption.
Qed.

(** Setting the generator state touches no other field. *)
Lemma rng_set_rng : forall v st, rng (set_rng v st) = v.
Proof. reflexivity. Qed.

(** The invariant: the generator state is reduced. *)
Definition rng_ok (st : interp) : Prop := rng st < MODULUS.

Theorem randomize_spec :
  forall seed st, randomize seed st = (Ok tt, set_rng (rng_new seed) st).
Proof. reflexivity. Qed.

Theorem randomize_establishes_rng_ok :
  forall seed st, rng_ok (snd (randomize seed st)).
Proof. intros seed st; rewrite randomize_spec; apply rng_new_range. Qed.

Theorem rng_rnd_preserves_rng_ok :
  forall x st, rng_ok st -> rng_ok (snd (rng_rnd x st)).
Proof.
  intros x st H; rewrite rng_rnd_spec.
  destruct (f64_ltb x f64_zero); [exact H|].
  destruct (f64_eqb x f64_zero); [exact H|].
  unfold rng_ok; cbn [snd]; rewrite rng_set_rng; apply lcg_range.
Qed.

(** Both halves packaged. *)
Theorem rng_invariant :
  (forall seed st, rng_ok (snd (randomize seed st))) /\
  (forall x st, rng_ok st -> rng_ok (snd (rng_rnd x st))).
Proof.
  split; [apply randomize_establishes_rng_ok | apply rng_rnd_preserves_rng_ok].
Qed.

(** 7. Determinism / purity.

    [rnd_run args st] calls [rng_rnd] on the successive [args], threading the
    interpreter state, and collects the results.  [rnd_pure s args] is the
    same thing computed from the generator state alone. *)
Fixpoint rnd_run (args : list f64) (st : interp) : list (res f64) :=
  match args with
  | [] => []
  | x :: r => let '(v, st') := rng_rnd x st in v :: rnd_run r st'
  end.

Fixpoint rnd_pure (s : N) (args : list f64) : list (res f64) :=
  match args with
  | [] => []
  | x :: r =>
      if f64_ltb x f64_zero then Err EUnimplemented None :: rnd_pure s r
      else if f64_eqb x f64_zero then Ok (latest_random s) :: rnd_pure s r
      else Ok (latest_random (lcg s)) :: rnd_pure (lcg s) r
  end.

(** What a program observes after [randomize seed] in state [st0]. *)
Definition rnd_seq_from (st0 : interp) (seed : N) (args : list f64) : list (res f64) :=
  rnd_run args (snd (randomize seed st0)).

(** The same, as a function of the seed and the arguments only. *)
Definition rnd_seq (seed : N) (args : list f64) : list (res f64) :=
  rnd_pure (rng_new seed) args.

Theorem rnd_run_pure : forall args st, rnd_run args st = rnd_pure (rng st) args.
Proof.
  induction args as [|x r IH]; intros st; [reflexivity|].
  cbn [rnd_run rnd_pure]; rewrite rng_rnd_spec.
  destruct (f64_ltb x f64_zero); [rewrite IH; reflexivity|].
  destruct (f64_eqb x f64_zero); [rewrite IH; reflexivity|].
  rewrite IH, rng_set_rng; reflexivity.
Qed.

Theorem rnd_seq_from_pure :
  forall st0 seed args, rnd_seq_from st0 seed args = rnd_seq seed args.
Proof.
  intros; unfold rnd_seq_from, rnd_seq.
  rewrite rnd_run_pure, randomize_spec; cbn [snd]; rewrite rng_set_rng; reflexivity.
Qed.

Theorem rnd_seq_mod : forall seed args, rnd_seq (seed mod MODULUS) args = rnd_seq seed args.
Proof.
  intros; unfold rnd_seq, rng_new.
  rewrite N.mod_mod by apply MODULUS_pos; reflexivity.
Qed.

(** The observed sequence depends only on [seed mod MODULUS] and [args]:
    neither on the rest of the interpreter state nor on the unreduced seed. *)
Theorem rnd_seq_deterministic :
  forall st0 st1 seed0 seed1 args,
  seed0 mod MODULUS = seed1 mod MODULUS ->
  rnd_seq_from st0 seed0 args = rnd_seq_from st1 seed1 args.
Proof.
  intros st0 st1 seed0 seed1 args H.
  rewrite !rnd_seq_from_pure; unfold rnd_seq, rng_new; rewrite H; reflexivity.
Qed.

(** The successive generator states are the iterates of [lcg]. *)
Fixpoint lcg_iter (n : nat) (s : N) : N :=
  match n with O => s | S k => lcg (lcg_iter k s) end.

Lemma lcg_iter_mod :
  forall n s, (0 < n)%nat -> lcg_iter n (s mod MODULUS) = lcg_iter n s.
Proof.
  induction n as [|n IH]; intros s Hn; [inversion Hn|].
  destruct n as [|n]; cbn [lcg_iter].
  - apply lcg_mod_invariant.
  - cbn [lcg_iter] in IH; rewrite IH by (apply Nat.lt_0_succ); reflexivity.
Qed.

(** Non-vacuity: the documented first states from seed 0. *)
Example lcg_seed0_1 : lcg_iter 1 (rng_new 0) = 1013904223.
Proof. vm_compute; reflexivity. Qed.
Example lcg_seed0_2 : lcg_iter 2 (rng_new 0) = 5491403058.
Proof. vm_compute; reflexivity. Qed.
Example lcg_seed0_3 : lcg_iter 3 (rng_new 0) = 3519870697.
Proof. vm_compute; reflexivity. Qed.

End PartA.

(* ================================================================== *)
(** * Part B — the produced float *)

Section PartB.
Local Open Scope Z_scope.

(** ** Generic facts on [SpecFloat] at binary64 *)

Lemma fexp_normal : forall e, -1074 <= e - 53 -> fexp prec emax e = e - 53.
Proof. intros e H; unfold fexp, emin, prec, emax; lia. Qed.

Lemma digits2_pos_size : forall p, digits2_pos p = Pos.size p.
Proof. induction p as [p IH|p IH|]; cbn [digits2_pos Pos.size]; congruence. Qed.

Lemma digits2_pos_log2 : forall p, Z.pos (digits2_pos p) = Z.log2 (Z.pos p) + 1.
Proof.
  intros p; rewrite digits2_pos_size.
  destruct p as [p|p|]; cbn [Z.log2 Pos.size]; lia.
Qed.

Lemma digits2_pos_le : forall p d, 0 <= d -> Z.pos p < 2 ^ d -> Z.pos (digits2_pos p) <= d.
Proof.
  intros p d Hd H; rewrite digits2_pos_log2.
  apply Z.log2_lt_pow2 in H; lia.
Qed.

Lemma digits2_pos_shift : forall k p,
  Z.pos (digits2_pos (shift_pos k p)) = Z.pos (digits2_pos p) + Z.pos k.
Proof.
  intros k p; unfold shift_pos.
  induction k as [|k IH] using Pos.peano_ind.
  - cbn [Pos.iter digits2_pos]; lia.
  - rewrite Pos.iter_succ; cbn [digits2_pos]; lia.
Qed.

(** Rounding an exactly representable normal mantissa is the identity. *)
Lemma binary_round_aux_exact_normal : forall sx m e,
  Z.pos (digits2_pos m) = 53 -> -1074 <= e <= 971 ->
  binary_round_aux prec emax sx (Z.pos m) e loc_Exact = S754_finite sx m e.
Proof.
  intros sx m e Hd He.
  assert (Hs : shr_fexp prec emax (Z.pos m) e loc_Exact =
               ({| shr_m := Z.pos m; shr_r := false; shr_s := false |}, e)).
  { unfold shr_fexp; cbn [Zdigits2]; rewrite Hd, fexp_normal by lia.
    replace (53 + e - 53 - e) with 0 by lia; reflexivity. }
  unfold binary_round_aux; rewrite Hs.
  cbn [shr_m loc_of_shr_record round_nearest_even]; rewrite Hs; cbn [shr_m].
  assert (Hle : Zle_bool e (emax - prec) = true)
    by (apply Z.leb_le; unfold emax, prec; lia).
  rewrite Hle; reflexivity.
Qed.

(** The 53-bit normalisation of a mantissa of at most 53 bits. *)
Definition norm53 (p : positive) : positive :=
  match (Z.pos (digits2_pos p) - 53)%Z with
  | Zneg k => shift_pos k p
  | _ => p
  end.

Lemma norm53_digits : forall p,
  Z.pos (digits2_pos p) <= 53 -> Z.pos (digits2_pos (norm53 p)) = 53.
Proof.
  intros p H; unfold norm53.
  destruct (Z.pos (digits2_pos p) - 53) as [|k|k] eqn:E; try lia.
  rewrite digits2_pos_shift; lia.
Qed.

Lemma norm53_value : forall p,
  Z.pos (digits2_pos p) <= 53 ->
  Z.pos (norm53 p) = Z.pos p * 2 ^ (53 - Z.pos (digits2_pos p)).
Proof.
  intros p H; unfold norm53.
  destruct (Z.pos (digits2_pos p) - 53) as [|k|k] eqn:E; try lia.
  - replace (53 - Z.pos (digits2_pos p)) with 0 by lia; lia.
  - rewrite shift_pos_correct, Z.pow_pos_fold.
    replace (53 - Z.pos (digits2_pos p)) with (Z.pos k) by lia; lia.
Qed.

(** [binary_normalize] of a short mantissa when no underflow/overflow occurs:
    the mantissa is shifted up to 53 bits, nothing is rounded. *)
Lemma binary_round_small : forall sx p e,
  Z.pos (digits2_pos p) <= 53 ->
  -1074 <= Z.pos (digits2_pos p) + e - 53 <= 971 ->
  binary_round prec emax sx p e =
  S754_finite sx (norm53 p) (Z.pos (digits2_pos p) + e - 53).
Proof.
  intros sx p e Hd He.
  unfold binary_round; rewrite fexp_normal by lia.
  unfold shl_align, norm53.
  replace (Z.pos (digits2_pos p) + e - 53 - e) with (Z.pos (digits2_pos p) - 53) by lia.
  destruct (Z.pos (digits2_pos p) - 53) as [|k|k] eqn:E; try lia.
  - rewrite binary_round_aux_exact_normal by lia. f_equal; lia.
  - rewrite binary_round_aux_exact_normal;
      [reflexivity | rewrite digits2_pos_shift; lia | lia].
Qed.

Lemma div_eucl_div_mod : forall a b, Z.div_eucl a b = (a / b, a mod b).
Proof. intros a b; unfold Z.div, Z.modulo; destruct (Z.div_eucl a b); reflexivity. Qed.

(** Dividing a normal number by a power of two (mantissa [2^52]) shifts the
    exponent and keeps the mantissa, as long as the result is normal. *)
Lemma SFdiv_pow2 : forall sx mx ex ey,
  Z.pos (digits2_pos mx) = 53 ->
  -1074 <= ex - ey - 53 -> ex - ey - 52 <= 971 ->
  SFdiv prec emax (S754_finite sx mx ex) (S754_finite false 4503599627370496 ey) =
  S754_finite sx mx (ex - ey - 52).
Proof.
  intros sx mx ex ey Hd Hlo Hhi.
  unfold SFdiv, SFdiv_core_binary.
  cbn [Zdigits2]; rewrite Hd.
  assert (Hd2 : Z.pos (digits2_pos 4503599627370496) = 53) by (vm_compute; reflexivity).
  rewrite Hd2.
  replace (53 + ex - (53 + ey)) with (ex - ey) by lia.
  rewrite fexp_normal by lia.
  rewrite Z.min_l by lia.
  replace (ex - ey - (ex - ey - 53)) with 53 by lia.
  rewrite div_eucl_div_mod.
  assert (Hm : Z.shiftl (Z.pos mx) 53 = Z.pos mx~0 * 4503599627370496).
  { rewrite Z.shiftl_mul_pow2 by lia.
    change (2 ^ 53) with (2 * 4503599627370496); lia. }
  rewrite Hm, Z_div_mult by lia. rewrite Z_mod_mult.
  assert (Hl : new_location 4503599627370496 0 = loc_Exact) by (vm_compute; reflexivity).
  rewrite Hl.
  (* round the 54-bit quotient [2*mx] at exponent [ex-ey-53]: one exact shift *)
  assert (Hs : shr_fexp prec emax (Z.pos mx~0) (ex - ey - 53) loc_Exact =
               ({| shr_m := Z.pos mx; shr_r := false; shr_s := false |}, ex - ey - 52)).
  { unfold shr_fexp; cbn [Zdigits2 digits2_pos].
    replace (Z.pos (Pos.succ (digits2_pos mx))) with 54 by lia.
    rewrite fexp_normal by lia.
    replace (54 + (ex - ey - 53) - 53 - (ex - ey - 53)) with 1 by lia.
    cbn [shr shr_record_of_loc iter_pos shr_1 orb]; f_equal; lia. }
  assert (Hs' : shr_fexp prec emax (Z.pos mx) (ex - ey - 52) loc_Exact =
               ({| shr_m := Z.pos mx; shr_r := false; shr_s := false |}, ex - ey - 52)).
  { unfold shr_fexp; cbn [Zdigits2]; rewrite Hd, fexp_normal by lia.
    replace (53 + (ex - ey - 52) - 53 - (ex - ey - 52)) with 0 by lia; reflexivity. }
  unfold binary_round_aux; rewrite Hs.
  cbn [shr_m loc_of_shr_record round_nearest_even]; rewrite Hs'; cbn [shr_m].
  assert (Hle : Zle_bool (ex - ey - 52) (emax - prec) = true)
    by (apply Z.leb_le; unfold emax, prec; lia).
  rewrite Hle, xorb_false_r; reflexivity.
Qed.

(** ** The generator's float *)

(** [MODULUS as f64] is [2^52 * 2^-19 = 2^33] (decided by computation). *)
Lemma f64_of_MODULUS :
  f64_of_Z (Z.of_N MODULUS) = S754_finite false 4503599627370496 (-19).
Proof. vm_compute; reflexivity. Qed.

Lemma MODULUS_Z : Z.of_N MODULUS = 2 ^ 33.
Proof. vm_compute; reflexivity. Qed.

(** Closed form for a non-zero reduced state. *)
Lemma latest_random_pos : forall p,
  Z.pos p < 2 ^ 33 ->
  latest_random (N.pos p) =
  S754_finite false (norm53 p) (Z.pos (digits2_pos p) - 86).
Proof.
  intros p Hp.
  assert (Hd : Z.pos (digits2_pos p) <= 33) by (apply digits2_pos_le; lia).
  unfold latest_random, f64_div.
  rewrite f64_of_MODULUS.
  unfold f64_of_Z; cbn [Z.of_N binary_normalize].
  rewrite binary_round_small by lia.
  rewrite SFdiv_pow2 by (try apply norm53_digits; lia).
  f_equal; lia.
Qed.

(** 8'. Exactness: dividing by [2^33] never rounds.  [latest_random s] is the
    double obtained by normalising the exact dyadic [s * 2^-33]. *)
Theorem latest_random_exact : forall s,
  (s < MODULUS)%N ->
  latest_random s = binary_normalize prec emax (Z.of_N s) (-33) false.
Proof.
  intros s Hs.
  assert (Hz : Z.of_N s < 2 ^ 33) by (rewrite <- MODULUS_Z; lia).
  destruct s as [|p].
  - vm_compute; reflexivity.
  - cbn [Z.of_N] in Hz.
    assert (Hd : Z.pos (digits2_pos p) <= 33) by (apply digits2_pos_le; lia).
    rewrite latest_random_pos by assumption.
    cbn [Z.of_N binary_normalize].
    rewrite binary_round_small by lia.
    f_equal; lia.
Qed.

(** The same fact without reference to any rounding function: the result is
    [+0] for [s = 0], and otherwise a positive finite double [m * 2^e] with a
    full 53-bit mantissa, [-86 < e <= -53], and [m * 2^e = s * 2^-33] exactly
    (stated over the integers by clearing denominators: [e] is negative). *)
Theorem latest_random_value : forall s,
  (s < MODULUS)%N ->
  (s = 0%N /\ latest_random s = S754_zero false) \/
  (exists m e,
     latest_random s = S754_finite false m e /\
     Z.pos (digits2_pos m) = 53 /\
     -86 < e <= -53 /\
     Z.pos m * 2 ^ 33 = Z.of_N s * 2 ^ (- e)).
Proof.
  intros s Hs.
  assert (Hz : Z.of_N s < 2 ^ 33) by (rewrite <- MODULUS_Z; lia).
  destruct s as [|p].
  - left; split; [reflexivity | vm_compute; reflexivity].
  - right; cbn [Z.of_N] in Hz |- *.
    assert (Hd : Z.pos (digits2_pos p) <= 33) by (apply digits2_pos_le; lia).
    exists (norm53 p), (Z.pos (digits2_pos p) - 86).
    split; [apply latest_random_pos; assumption|].
    split; [apply norm53_digits; lia|].
    split; [lia|].
    rewrite norm53_value by lia.
    rewrite <- Z.mul_assoc, <- Z.pow_add_r by lia.
    f_equal; f_equal; lia.
Qed.

(** The result is a canonical binary64 value. *)
Theorem latest_random_valid : forall s,
  (s < MODULUS)%N -> valid_binary prec emax (latest_random s) = true.
Proof.
  intros s Hs.
  destruct (latest_random_value s Hs) as [[_ E]|(m & e & E & Hd & He & _)];
    rewrite E; [reflexivity|].
  unfold valid_binary, bounded, canonical_mantissa.
  rewrite Hd, fexp_normal by lia.
  apply andb_true_intro; split.
  - apply Zeq_is_eq_bool; lia.
  - apply Z.leb_le; unfold emax, prec; lia.
Qed.

(** 8. Range: finite, non-negative, strictly below one. *)
Theorem latest_random_range : forall s,
  (s < MODULUS)%N ->
  f64_leb f64_zero (latest_random s) = true /\
  f64_ltb (latest_random s) f64_one = true.
Proof.
  intros s Hs.
  destruct (latest_random_value s Hs) as [[_ E]|(m & e & E & _ & He & _)];
    rewrite E; [split; reflexivity|].
  split; [reflexivity|].
  unfold f64_ltb, SFltb, f64_one, SFcompare.
  assert (Hc : (e ?= -52) = Lt) by (apply Z.compare_lt_iff; lia).
  rewrite Hc; reflexivity.
Qed.

Corollary latest_random_finite : forall s,
  (s < MODULUS)%N ->
  match latest_random s with
  | S754_zero false | S754_finite false _ _ => True
  | _ => False
  end.
Proof.
  intros s Hs.
  destruct (latest_random_value s Hs) as [[_ E]|(m & e & E & _)]; rewrite E; exact I.
Qed.

(** ** Consequences for [RND] *)

(** Every successful [rng_rnd] from a reduced state returns a double in
    [[0, 1)]. *)
Theorem rng_rnd_range : forall x st v st',
  rng_ok st -> rng_rnd x st = (Ok v, st') ->
  f64_leb f64_zero v = true /\ f64_ltb v f64_one = true.
Proof.
  intros x st v st' Hok H; rewrite rng_rnd_spec in H.
  destruct (f64_ltb x f64_zero); [discriminate|].
  destruct (f64_eqb x f64_zero); inversion H; subst.
  - apply latest_random_range, Hok.
  - apply latest_random_range, lcg_range.
Qed.

(** Every number observed after [randomize seed] is in [[0, 1)]. *)
Theorem rnd_seq_range : forall seed args,
  Forall (fun r => match r with
                   | Ok v => f64_leb f64_zero v = true /\ f64_ltb v f64_one = true
                   | Err e l => e = EUnimplemented /\ l = None
                   | _ => False
                   end) (rnd_seq seed args).
Proof.
  intros seed args; unfold rnd_seq.
  assert (H : (rng_new seed < MODULUS)%N) by apply rng_new_range.
  revert H; generalize (rng_new seed); induction args as [|x r IH]; intros s Hs;
    cbn [rnd_pure]; [constructor|].
  destruct (f64_ltb x f64_zero); [constructor; [split; reflexivity | apply IH, Hs]|].
  destruct (f64_eqb x f64_zero); constructor.
  - apply latest_random_range, Hs.
  - apply IH, Hs.
  - apply latest_random_range, lcg_range.
  - apply IH, lcg_range.
Qed.

(** Non-vacuity checks (seed 0, [RND(1)] three times, then [RND(0)], [RND(-1)]). *)
Example rnd_seq_seed0 :
  rnd_seq 0 [f64_one; f64_one; f64_one; f64_zero; f64_neg f64_one] =
  [ Ok (f64_div (f64_of_Z 1013904223) (f64_of_Z 8589934592));
    Ok (f64_div (f64_of_Z 5491403058) (f64_of_Z 8589934592));
    Ok (f64_div (f64_of_Z 3519870697) (f64_of_Z 8589934592));
    Ok (f64_div (f64_of_Z 3519870697) (f64_of_Z 8589934592));
    Err EUnimplemented None ].
Proof. vm_compute; reflexivity. Qed.

Example latest_random_max :
  latest_random 8589934591 = S754_finite false 9007199253692416 (-53).
Proof. vm_compute; reflexivity. Qed.

(** The bound [s < MODULUS] matters: at [s = MODULUS] the result is [1.0]. *)
Example latest_random_at_modulus : latest_random MODULUS = f64_one.
Proof. vm_compute; reflexivity. Qed.

End PartB.

(* ================================================================== *)
(** * Assumptions *)

Print Assumptions rng_new_range.
Print Assumptions lcg_range.
Print Assumptions lcg_no_u64_overflow.
Print Assumptions lcg_mod_invariant.
Print Assumptions lcg_documented.
Print Assumptions rng_rnd_spec.
Print Assumptions rng_invariant.
Print Assumptions rnd_seq_deterministic.
Print Assumptions rnd_seq_from_pure.
Print Assumptions rnd_seq_mod.
Print Assumptions latest_random_exact.
Print Assumptions latest_random_value.
Print Assumptions latest_random_valid.
Print Assumptions latest_random_range.
Print Assumptions rng_rnd_range.
Print Assumptions rnd_seq_range.

(* ================================================================== *)
(** * Part C — the same exactness statement over the reals (Flocq's [SF2R])

    Only this part depends on Flocq and on the standard library's axiomatised
    reals; everything above is closed under the global context.  It is a
    corollary of [latest_random_value]: the real number denoted by
    [latest_random s] is exactly [s / 2^33]. *)

From Coq Require Import Reals.
From Flocq Require Import Core.Zaux Core.Raux Core.Defs Core.Float_prop
     IEEE754.BinarySingleNaN.

Theorem latest_random_real : forall s,
  (s < MODULUS)%N ->
  SF2R radix2 (latest_random s) = (IZR (Z.of_N s) / IZR (2 ^ 33))%R.
Proof.
  intros s Hs.
  destruct (latest_random_value s Hs) as [[E0 E]|(m & e & E & _ & He & Hv)]; rewrite E.
  - subst s; cbn [SF2R Z.of_N]; unfold Rdiv; rewrite Rmult_0_l; reflexivity.
  - cbn [SF2R SpecFloat.cond_Zopp cond_Zopp]; unfold F2R; cbn [Fnum Fexp].
    replace e with (- (- e))%Z at 1 by lia.
    rewrite bpow_opp, <- IZR_Zpower by lia.
    apply (f_equal IZR) in Hv; rewrite !mult_IZR in Hv.
    assert (H1 : IZR (2 ^ 33) <> 0%R) by (apply IZR_neq; discriminate).
    assert (H2 : IZR (radix2 ^ (- e)) <> 0%R).
    { apply IZR_neq; change (radix_val radix2) with 2%Z.
      apply Z.pow_nonzero; lia. }
    change (radix_val radix2) with 2%Z in *.
    field_simplify_eq; [|split; assumption].
    rewrite Hv; ring.
Qed.

Print Assumptions latest_random_real.
