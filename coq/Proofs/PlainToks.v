(* Proofs/PlainToks.v — what an accepted expression is made of.
   Every token the checker consumes while it accepts an expression (or a
   variable reference with its subscripts) is an operand, an operator, a
   parenthesis or a comma: never a keyword, a colon, ELSE, INPUT ...
   ([exprtok]).  A relation over the analyzer monad, walked over the
   expression analyzer; the steps whose answer decides what is consumed
   (the term's token, the operator tables) are done by hand. *)
From Coq Require Import List NArith ZArith Bool Lia.
From Abasic Require Import Model.Bytes Model.Num Model.Token Model.Data Model.Lexer Gen.Tables
     Model.State Model.Eval Model.Interp Model.Analyzer Proofs.CheckSound.
Import ListNotations.
Local Open Scope nat_scope.

Definition exprtok (t : token) : bool :=
  match t with
  | TString _ | TNumber _ | TSymbol _ | TLeftParen | TRightParen | TComma
  | TPlus | TMinus | TMultiply | TDivide | TCaret
  | TEquals | TNotEquals | TLessThan | TLessThanOrEqualTo | TGreaterThan | TGreaterThanOrEqualTo
  | TAnd | TOr | TNot => true
  | _ => false
  end.

Definition line_of (s : interp) : list token :=
  match loc_line (loc s) with
  | None => immediate s
  | Some n => match toks_get n (st_toks s) with Some ts => ts | None => [] end
  end.

Lemma token_eqb_exprtok t u : token_eqb t u = true -> exprtok t = exprtok u.
Proof. destruct t, u; cbn; intros H; try reflexivity; try discriminate H. Qed.

Section Phi.
  (* the class of tokens: anything that contains the expression tokens and cannot
     tell two tokens apart that the interpreter's own token comparison identifies *)
  Variable phi : token -> bool.
  Hypothesis Hsub : forall t, exprtok t = true -> phi t = true.
  Hypothesis Hresp : forall t u, token_eqb t u = true -> phi t = phi u.

(* [s'] is [s] with the cursor moved forward over expression tokens *)
Definition PL (s s' : interp) : Prop :=
  st_toks s' = st_toks s /\ immediate s' = immediate s /\ loc_line (loc s') = loc_line (loc s)
  /\ loc_idx (loc s) <= loc_idx (loc s')
  /\ forall q, loc_idx (loc s) <= q < loc_idx (loc s') -> exists t, nth_error (line_of s) q = Some t /\ phi t = true.

Lemma PL_refl s : PL s s.
Proof. repeat split; try reflexivity. intros q Hq. lia. Qed.

Lemma line_of_PL s s' : PL s s' -> line_of s' = line_of s.
Proof. intros (A1 & A2 & A3 & _). unfold line_of. rewrite A1, A2, A3. reflexivity. Qed.

Lemma PL_trans a b c : PL a b -> PL b c -> PL a c.
Proof.
  intros Hab Hbc. pose proof (line_of_PL _ _ Hab) as Hl.
  destruct Hab as (A1 & A2 & A3 & A4 & A5), Hbc as (B1 & B2 & B3 & B4 & B5).
  repeat split; try congruence; try lia.
  intros q Hq. destruct (Nat.lt_ge_cases q (loc_idx (loc b))) as [H|H].
  - apply A5. lia.
  - rewrite <- Hl. apply B5. lia.
Qed.

(* same cursor, other fields free *)
Lemma PL_same s s' : st_toks s' = st_toks s -> immediate s' = immediate s -> loc s' = loc s -> PL s s'.
Proof. intros H1 H2 H3. repeat split; try assumption; rewrite H3; try reflexivity. intros q Hq. lia. Qed.

(* one token forward *)
Lemma PL_step s t : nth_error (line_of s) (loc_idx (loc s)) = Some t -> phi t = true ->
  PL s (set_loc (mkloc (loc_line (loc s)) (S (loc_idx (loc s)))) (set_reads (S (reads s)) s)).
Proof.
  intros Hn Ht. destruct s as [? ? ? [ln ix] ? ? ? ? ? ? ? ? ? ? ? ? ? ? ?]. cbn in *.
  repeat split; try reflexivity; cbn; try lia.
  intros q Hq. assert (q = ix) by lia. subst q. exists t. split; assumption.
Qed.

(* ------------------------------------------------------------------ *)
(* the cursor primitives *)
Definition mpl {A} (m : M A) : Prop := forall s x s', m s = (Ok x, s') -> PL s s'.

Lemma peek_spec s x s' : peek_next_token s = (Ok x, s') ->
  x = nth_error (line_of s) (loc_idx (loc s)) /\ s' = set_reads (S (reads s)) s.
Proof.
  unfold peek_next_token, cur_tokens, tokens_for_line, line_of, bind, get, modify, ret. cbn.
  destruct (loc_line (loc s)) as [n|]; [destruct (toks_get n (st_toks s))|]; intros E; try discriminate E;
    injection E as <- <-; split; reflexivity.
Qed.

Lemma mpl_peek : mpl peek_next_token.
Proof. intros s x s' E. destruct (peek_spec _ _ _ E) as [_ ->]. apply PL_same; destruct s; reflexivity. Qed.

Lemma mpl_peek_is t : mpl (peek_is t).
Proof.
  intros s x s' E. unfold peek_is, bind in E. destruct (peek_next_token s) as [[y|? ?|?| |] s1] eqn:Ep; try discriminate E.
  injection E as _ <-. exact (mpl_peek _ _ _ Ep).
Qed.

(* reading the next token: it is the one under the cursor *)
Lemma next_token_spec s x s' : next_token s = (Ok x, s') ->
  match x with
  | Some t => nth_error (line_of s) (loc_idx (loc s)) = Some t
              /\ s' = set_loc (mkloc (loc_line (loc s)) (S (loc_idx (loc s)))) (set_reads (S (reads s)) s)
  | None => s' = set_reads (S (reads s)) s
  end.
Proof.
  unfold next_token, bind. destruct (peek_next_token s) as [[y|? ?|?| |] s1] eqn:Ep; try discriminate.
  destruct (peek_spec _ _ _ Ep) as [-> ->].
  destruct (nth_error (line_of s) (loc_idx (loc s))) as [t|] eqn:Et.
  - unfold advance, modify, ret. cbn. intros E. injection E as <- <-. split; [reflexivity | destruct s; reflexivity].
  - unfold ret. intros E. injection E as <- <-. reflexivity.
Qed.

Lemma mpl_expect u : phi u = true -> mpl (expect_next_token u).
Proof.
  intros Hu s x s' E. unfold expect_next_token, next_unwrapped_token, bind in E.
  destruct (next_token s) as [[y|? ?|?| |] s1] eqn:En; try discriminate E.
  pose proof (next_token_spec _ _ _ En) as Hs. destruct y as [t|].
  - destruct Hs as [Ht ->]. unfold ret in E. destruct (token_eqb t u) eqn:Eq; [|discriminate E].
    injection E as _ <-. apply (PL_step s t Ht). rewrite (Hresp _ _ Eq). exact Hu.
  - cbn in E. discriminate E.
Qed.

Lemma mpl_accept u : phi u = true -> mpl (accept_next_token u).
Proof.
  intros Hu s x s' E. unfold accept_next_token, bind in E.
  destruct (peek_next_token s) as [[y|? ?|?| |] s1] eqn:Ep; try discriminate E.
  destruct (peek_spec _ _ _ Ep) as [-> ->].
  destruct (nth_error (line_of s) (loc_idx (loc s))) as [t|] eqn:Et.
  - destruct (token_eqb t u) eqn:Eq.
    + unfold advance, modify, ret in E. cbn in E. injection E as _ <-.
      replace (set_loc _ _) with (set_loc (mkloc (loc_line (loc s)) (S (loc_idx (loc s)))) (set_reads (S (reads s)) s))
        by (destruct s; reflexivity).
      apply (PL_step s t Et). rewrite (Hresp _ _ Eq). exact Hu.
    + injection E as _ <-. apply PL_same; destruct s; reflexivity.
  - injection E as _ <-. apply PL_same; destruct s; reflexivity.
Qed.

Lemma mpl_try {B} (g : token -> option B) : (forall t b, g t = Some b -> phi t = true) -> mpl (try_next_token g).
Proof.
  intros Hg s x s' E. unfold try_next_token, bind in E.
  destruct (peek_next_token s) as [[y|? ?|?| |] s1] eqn:Ep; try discriminate E.
  destruct (peek_spec _ _ _ Ep) as [-> ->].
  destruct (nth_error (line_of s) (loc_idx (loc s))) as [t|] eqn:Et.
  - destruct (g t) as [b|] eqn:Eg.
    + unfold advance, modify, ret in E. cbn in E. injection E as _ <-.
      replace (set_loc _ _) with (set_loc (mkloc (loc_line (loc s)) (S (loc_idx (loc s)))) (set_reads (S (reads s)) s))
        by (destruct s; reflexivity).
      apply (PL_step s t Et). exact (Hg t b Eg).
    + injection E as _ <-. apply PL_same; destruct s; reflexivity.
  - injection E as _ <-. apply PL_same; destruct s; reflexivity.
Qed.

Lemma unary_exprtok t b : unary_of_token t = Some b -> phi t = true.
Proof. intros H. apply Hsub. destruct t; cbn in *; try discriminate H; reflexivity. Qed.
Lemma muldiv_exprtok t b : muldiv_of_token t = Some b -> phi t = true.
Proof. intros H. apply Hsub. destruct t; cbn in *; try discriminate H; reflexivity. Qed.
Lemma addsub_exprtok t b : addsub_of_token t = Some b -> phi t = true.
Proof. intros H. apply Hsub. destruct t; cbn in *; try discriminate H; reflexivity. Qed.
Lemma eq_exprtok t b : eq_of_token t = Some b -> phi t = true.
Proof. intros H. apply Hsub. destruct t; cbn in *; try discriminate H; reflexivity. Qed.

(* ------------------------------------------------------------------ *)
(* the analyzer monad *)
Definition apl {A} (a : MA A) : Prop := forall st x st', a st = (Ok x, st') -> PL (fst st) (fst st').

Lemma apl_ret {A} (x : A) : apl (aret x).
Proof. intros st y st' E. injection E as _ <-. apply PL_refl. Qed.
Lemma apl_fail {A} e : apl (@afail A e).
Proof. intros st y st' E. discriminate E. Qed.
Lemma apl_log sym l w : apl (log_access sym l w).
Proof. intros st y st' E. unfold log_access in E. injection E as _ <-. apply PL_refl. Qed.
Lemma apl_lift {A} (m : M A) : mpl m -> apl (lift m).
Proof.
  intros H st x st' E. unfold lift in E. destruct (m (fst st)) as [r p] eqn:Em. injection E as -> <-. exact (H _ _ _ Em).
Qed.
Lemma apl_bind {A B} (m : MA A) (f : A -> MA B) : apl m -> (forall x, apl (f x)) -> apl (abind m f).
Proof.
  intros Hm Hf st y st' E. unfold abind in E. destruct (m st) as [[x|? ?|?| |] st1] eqn:Em; try discriminate E.
  eapply PL_trans; [exact (Hm _ _ _ Em) | exact (Hf x _ _ _ E)].
Qed.
Lemma apl_repeat {S R} n (body : S -> MA (S + R)) : (forall acc, apl (body acc)) -> forall acc, apl (arepeat n body acc).
Proof.
  intros Hb. induction n as [|n IH]; intros acc; cbn [arepeat]; [intros st y st' E; discriminate E|].
  apply apl_bind; [apply Hb|]. intros [a|r]; [apply IH | apply apl_ret].
Qed.
Lemma apl_get {A} (f : interp -> A) : apl (lift (get f)).
Proof. apply apl_lift. intros s x s' E. injection E as _ <-. apply PL_refl. Qed.
Lemma apl_check t e : apl (check t e).
Proof. unfold check. destruct (vtype_eqb t e); [apply apl_ret | apply apl_fail]. Qed.
Lemma apl_prev_loc : apl prev_loc.
Proof. unfold prev_loc, aget_loc. apply apl_bind; [apply apl_get | intro; apply apl_ret]. Qed.

Ltac apl_step leaf :=
  lazymatch goal with
  | |- apl (aret _) => apply apl_ret
  | |- apl (afail _) => apply apl_fail
  | |- apl (log_access _ _ _) => apply apl_log
  | |- apl (check _ _) => apply apl_check
  | |- apl (check_number _) => apply apl_check
  | |- apl prev_loc => apply apl_prev_loc
  | |- apl (lift (get _)) => apply apl_get
  | |- apl (lift (peek_is _)) => apply apl_lift, mpl_peek_is
  | |- apl (lift peek_next_token) => apply apl_lift, mpl_peek
  | |- apl (lift (expect_next_token _)) => apply apl_lift, mpl_expect; first [reflexivity | apply Hsub; reflexivity]
  | |- apl (lift (accept_next_token _)) => apply apl_lift, mpl_accept; first [reflexivity | apply Hsub; reflexivity]
  | |- apl (abind _ _) => apply apl_bind; [| intro]
  | |- apl (arepeat _ _ _) => apply apl_repeat; intro
  | |- apl (match ?x with _ => _ end) => destruct x
  | |- apl (if ?b then _ else _) => destruct b
  | |- apl _ => solve [leaf]
  end.
Ltac apl_walk leaf := repeat (apl_step leaf).

Section APlainExpr.
  Variable fuel : nat.
  Variable rec : MA vtype.
  Hypothesis Hrec : apl rec.

  Ltac leaf := idtac; lazymatch goal with |- apl rec => exact Hrec end.

  Lemma apl_array_index : apl (an_array_index fuel rec).
  Proof. unfold an_array_index. apl_walk leaf. Qed.

  Lemma apl_unary_arg : apl (an_unary_number_function_arg rec).
  Proof. unfold an_unary_number_function_arg. apl_walk leaf. Qed.

  Lemma apl_check_arguments args : forall i n, apl (an_check_arguments rec args i n).
  Proof.
    induction args as [|a args IH]; intros i n; cbn [an_check_arguments]; [apply apl_ret|].
    apl_walk ltac:(idtac; lazymatch goal with |- apl (an_check_arguments _ _ _ _) => apply IH | _ => leaf end).
  Qed.

  Lemma apl_function_call name l : apl (an_function_call rec name l).
  Proof.
    unfold an_function_call, an_user_function_call.
    apl_walk ltac:(idtac; lazymatch goal with
                          | |- apl (an_unary_number_function_arg _) => apply apl_unary_arg
                          | |- apl (an_check_arguments _ _ _ _) => apply apl_check_arguments
                          | _ => leaf end).
  Qed.

  (* the term: its first token decides *)
  Lemma apl_term : apl (an_term fuel rec).
  Proof.
    intros st x st' E. unfold an_term in E. unfold abind at 1 in E. unfold lift at 1 in E.
    destruct (next_unwrapped_token (fst st)) as [[t|? ?|?| |] p1] eqn:En; try discriminate E.
    assert (H1 : phi t = true -> PL (fst st) p1).
    { intros Ht. unfold next_unwrapped_token, bind in En.
      destruct (next_token (fst st)) as [[y|? ?|?| |] s1] eqn:En2; try discriminate En.
      pose proof (next_token_spec _ _ _ En2) as Hs. destruct y as [t0|]; [|cbn in En; discriminate En].
      destruct Hs as [Ht0 ->]. unfold ret in En. injection En as <- <-. exact (PL_step _ _ Ht0 Ht). }
    cbn [fst snd] in E.
    destruct t; try discriminate E.
    - (* a name *)
      eapply PL_trans; [apply H1; apply Hsub; reflexivity|].
      refine ((_ : apl (l <-- prev_loc ;; p <-- lift (peek_is TLeftParen) ;; _)) (p1, snd st) x st' E).
      apl_walk ltac:(idtac; lazymatch goal with
                            | |- apl (an_function_call _ _ _) => apply apl_function_call
                            | |- apl (an_array_index _ _) => apply apl_array_index
                            | _ => leaf end).
    - unfold aret in E. injection E as _ <-. apply H1. apply Hsub. reflexivity.
    - unfold aret in E. injection E as _ <-. apply H1. apply Hsub. reflexivity.
  Qed.

  Lemma apl_paren : apl (an_paren fuel rec).
  Proof.
    unfold an_paren. apl_walk ltac:(idtac; lazymatch goal with |- apl (an_term _ _) => apply apl_term | _ => leaf end).
  Qed.

  Lemma apl_unary : apl (an_unary fuel rec).
  Proof.
    unfold an_unary. apply apl_bind; [apply apl_lift, mpl_try, unary_exprtok|]. intro.
    apl_walk ltac:(idtac; lazymatch goal with |- apl (an_paren _ _) => apply apl_paren | _ => leaf end).
  Qed.

  Lemma apl_tier {O} (get_op : MA (option O)) operand step :
    apl get_op -> apl operand -> (forall a b, apl (step a b)) -> apl (an_tier fuel get_op operand step).
  Proof.
    intros H1 H2 H3. unfold an_tier.
    apl_walk ltac:(first [exact H1 | exact H2 | apply H3]).
  Qed.

  Lemma apl_accept_as t : phi t = true -> apl (an_accept_as t).
  Proof. intros Ht. unfold an_accept_as. apply apl_bind; [apply apl_lift, mpl_accept, Ht | intro; apply apl_ret]. Qed.

  Lemma apl_or : apl (an_or fuel rec).
  Proof.
    unfold an_or, an_and, an_equality, an_addsub, an_muldiv, an_exponent.
    apply apl_tier; [apply apl_accept_as; apply Hsub; reflexivity | | intros; apply apl_ret].
    apply apl_tier; [apply apl_accept_as; apply Hsub; reflexivity | | intros; apply apl_ret].
    apply apl_tier; [apply apl_lift, mpl_try, eq_exprtok | | intros; apl_walk leaf].
    apply apl_tier; [apply apl_lift, mpl_try, addsub_exprtok | | intros; unfold both_numbers; apl_walk leaf].
    apply apl_tier; [apply apl_lift, mpl_try, muldiv_exprtok | | intros; unfold both_numbers; apl_walk leaf].
    apply apl_tier; [apply apl_accept_as; apply Hsub; reflexivity | apply apl_unary | intros; unfold both_numbers; apl_walk leaf].
  Qed.
End APlainExpr.

Theorem apl_analyze_expression fuel : forall n, apl (analyze_expression fuel n).
Proof.
  induction fuel as [|k IH]; intros n; cbn [analyze_expression]; [intros st x st' E; discriminate E|].
  destruct (Nat.eqb n max_nesting); [apply apl_fail|]. apply apl_or, IH.
Qed.

(* a variable reference with its subscripts *)
Lemma apl_optional_index fuel nest : apl (an_optional_array_index fuel nest).
Proof.
  unfold an_optional_array_index, aexpr.
  apl_walk ltac:(idtac; lazymatch goal with |- apl (an_array_index _ _) => apply apl_array_index, apl_analyze_expression end).
Qed.

Lemma apl_parse_lvalue fuel nest : apl (an_parse_lvalue fuel nest).
Proof.
  intros st x st' E. unfold an_parse_lvalue in E. unfold abind at 1 in E. unfold lift at 1 in E.
  destruct (next_token (fst st)) as [[t|? ?|?| |] p1] eqn:En; try discriminate E. cbn [fst snd] in E.
  pose proof (next_token_spec _ _ _ En) as Hs.
  destruct t as [t|]; [|discriminate E]. destruct Hs as [Ht ->].
  destruct t; try discriminate E.
  eapply PL_trans; [apply (PL_step _ _ Ht); apply Hsub; reflexivity|].
  refine ((_ : apl (l <-- prev_loc ;; ar <-- an_optional_array_index fuel nest ;; _)) (_, snd st) x st' E).
  apl_walk ltac:(idtac; lazymatch goal with |- apl (an_optional_array_index _ _) => apply apl_optional_index end).
Qed.

End Phi.

(* ------------------------------------------------------------------ *)
(* statements: everything a non-branching statement consumes is neither ELSE nor ":" *)
Definition plainT (t : token) : bool := match t with TElse | TColon => false | _ => true end.

Lemma plainT_sub t : exprtok t = true -> plainT t = true.
Proof. destruct t; cbn; intros H; try reflexivity; discriminate H. Qed.
Lemma plainT_resp t u : token_eqb t u = true -> plainT t = plainT u.
Proof. destruct t, u; cbn; intros H; try reflexivity; try discriminate H. Qed.

Notation PLp := (PL plainT).
Notation aplp := (apl plainT).

Ltac pstep leaf :=
  lazymatch goal with
  | |- apl _ (aret _) => apply apl_ret
  | |- apl _ (afail _) => apply apl_fail
  | |- apl _ (log_access _ _ _) => apply apl_log
  | |- apl _ (check _ _) => apply apl_check
  | |- apl _ (check_number _) => apply apl_check
  | |- apl _ prev_loc => apply apl_prev_loc
  | |- apl _ (lift (get _)) => apply apl_get
  | |- apl _ (lift (peek_is _)) => apply apl_lift, mpl_peek_is
  | |- apl _ (lift peek_next_token) => apply apl_lift, mpl_peek
  | |- apl _ (lift (expect_next_token _)) => apply apl_lift, (mpl_expect plainT plainT_resp); reflexivity
  | |- apl _ (lift (accept_next_token _)) => apply apl_lift, (mpl_accept plainT plainT_resp); reflexivity
  | |- apl _ (lift reset_data_cursor) =>
      apply apl_lift; intros ?s ?x ?s' ?E; unfold reset_data_cursor, modify in *;
      match goal with E : _ = (Ok _, _) |- _ => injection E as _ <- end; apply PL_same; destruct s; reflexivity
  | |- apl _ (abind _ _) => apply apl_bind; [| intro]
  | |- apl _ (arepeat _ _ _) => apply apl_repeat; intro
  | |- apl _ (match ?x with _ => _ end) => destruct x
  | |- apl _ (if ?b then _ else _) => destruct b
  | |- apl _ _ => solve [leaf]
  end.
Ltac pwalk leaf := repeat (pstep leaf).

(* the token a [next_token] consumes is the one under the cursor *)
Lemma apl_next_token_then {A} (k : option token -> MA A) :
  (forall t, plainT t = true -> aplp (k (Some t))) ->
  (forall t, plainT t = false -> forall st, match k (Some t) st with (Ok _, _) => False | _ => True end) ->
  aplp (k None) ->
  aplp (t <-- lift next_token ;; k t).
Proof.
  intros Hk Hbad Hnone st x st' E. unfold abind at 1 in E. unfold lift at 1 in E.
  destruct (next_token (fst st)) as [[t|? ?|?| |] p1] eqn:En; try discriminate E. cbn [fst snd] in E.
  pose proof (next_token_spec _ _ _ En) as Hs. destruct t as [t|].
  - destruct Hs as [Ht ->]. destruct (plainT t) eqn:Ep.
    + eapply PL_trans; [apply (PL_step plainT _ _ Ht Ep)|]. exact (Hk t Ep _ _ _ E).
    + exfalso. pose proof (Hbad t Ep (set_loc (mkloc (loc_line (loc (fst st))) (S (loc_idx (loc (fst st))))) (set_reads (S (reads (fst st))) (fst st)), snd st)) as Hb.
      rewrite E in Hb. exact Hb.
  - subst p1. eapply PL_trans; [|exact (Hnone _ _ _ E)]. apply PL_same; destruct (fst st); reflexivity.
Qed.

Section PlainStmt.
  Variable fuel nest : nat.

  Ltac leaf :=
    idtac;
    lazymatch goal with
    | |- apl _ (aexpr _ _) => apply (apl_analyze_expression plainT plainT_sub plainT_resp)
    | |- apl _ (analyze_expression _ _) => apply (apl_analyze_expression plainT plainT_sub plainT_resp)
    | |- apl _ (an_optional_array_index _ _) => apply (apl_optional_index plainT plainT_sub plainT_resp)
    | |- apl _ (an_parse_lvalue _ _) => apply (apl_parse_lvalue plainT plainT_sub plainT_resp)
    end.

  Lemma aplp_assign lv t : aplp (an_assign lv t).
  Proof. unfold an_assign. pwalk leaf. Qed.

  Lemma aplp_assignment sym : aplp (an_assignment fuel nest sym).
  Proof.
    unfold an_assignment.
    pwalk ltac:(idtac; lazymatch goal with |- apl _ (an_assign _ _) => apply aplp_assign | _ => leaf end).
  Qed.

  Lemma aplp_let : aplp (an_let fuel nest).
  Proof.
    unfold an_let. apply apl_next_token_then.
    - intros t _. destruct t; try apply apl_fail. apply aplp_assignment.
    - intros t Hp st. destruct t; try discriminate Hp; exact I.
    - apply apl_fail.
  Qed.

  Lemma aplp_dim : aplp (an_dim fuel nest).
  Proof. unfold an_dim. pwalk leaf. Qed.

  Lemma aplp_input : aplp (an_input fuel nest).
  Proof. unfold an_input. pwalk leaf. Qed.

  Lemma aplp_read : aplp (an_read fuel nest).
  Proof.
    unfold an_read.
    pwalk ltac:(idtac; lazymatch goal with |- apl _ (an_assign _ _) => apply aplp_assign | _ => leaf end).
  Qed.

  Lemma aplp_for : aplp (an_for fuel nest).
  Proof.
    unfold an_for. apply apl_next_token_then.
    - intros t _. destruct t; try apply apl_fail. pwalk leaf.
    - intros t Hp st. destruct t; try discriminate Hp; exact I.
    - apply apl_fail.
  Qed.

  Lemma aplp_next : aplp an_next.
  Proof.
    unfold an_next. apply apl_next_token_then.
    - intros t _. destruct t; try apply apl_fail. pwalk leaf.
    - intros t Hp st. destruct t; try discriminate Hp; exact I.
    - apply apl_fail.
  Qed.

  Lemma aplp_goto_or_gosub : aplp an_goto_or_gosub.
  Proof.
    unfold an_goto_or_gosub. apply apl_next_token_then.
    - intros t _. destruct t; try apply apl_fail. pwalk leaf.
    - intros t Hp st. destruct t; try discriminate Hp; exact I.
    - apply apl_fail.
  Qed.

  (* PRINT: ";" and "," are consumed after they were seen *)
  Lemma aplp_print : aplp (an_print fuel nest).
  Proof.
    unfold an_print. apply apl_repeat. intros [] st x st' E.
    unfold abind at 1 in E. unfold lift at 1 in E.
    destruct (peek_next_token (fst st)) as [[t|? ?|?| |] p1] eqn:Ep; try discriminate E. cbn [fst snd] in E.
    destruct (peek_spec _ _ _ Ep) as [-> ->].
    set (s1 := set_reads (S (reads (fst st))) (fst st)) in *.
    assert (H1 : PLp (fst st) s1) by (apply PL_same; destruct (fst st); reflexivity).
    assert (Hsame : nth_error (line_of s1) (loc_idx (loc s1)) = nth_error (line_of (fst st)) (loc_idx (loc (fst st))))
      by (destruct (fst st); reflexivity).
    assert (Hnext : forall (y : unit + unit) st2, (lift next_token ;;;; aret (@inl unit unit tt)) (s1, snd st) = (Ok y, st2) ->
              forall t0, nth_error (line_of (fst st)) (loc_idx (loc (fst st))) = Some t0 -> plainT t0 = true -> PLp s1 (fst st2)).
    { intros y st2 E2 t0 Ht0 Hp0. unfold abind, lift in E2. cbn [fst snd] in E2.
      destruct (next_token s1) as [[u|? ?|?| |] p2] eqn:En; try discriminate E2.
      pose proof (next_token_spec _ _ _ En) as Hs. rewrite Hsame, Ht0 in Hs.
      destruct u as [u|]; [|unfold aret in E2; injection E2 as _ <-; subst p2; apply PL_same; destruct s1; reflexivity].
      destruct Hs as [Hu ->]. unfold aret in E2. injection E2 as _ <-. cbn [fst].
      apply (PL_step plainT s1 u); [rewrite Hsame, Ht0; exact Hu|]. injection Hu as <-. exact Hp0. }
    destruct (nth_error (line_of (fst st)) (loc_idx (loc (fst st)))) as [t|] eqn:Et.
    - destruct t;
        try (unfold aret in E; injection E as _ <-; exact H1);
        try (eapply PL_trans; [exact H1|]; exact (Hnext _ _ E _ eq_refl eq_refl));
        (eapply PL_trans; [exact H1|];
         refine ((_ : aplp (aexpr fuel nest ;;;; aret (@inl unit unit tt))) (s1, snd st) x st' E); pwalk leaf).
    - unfold aret in E. injection E as _ <-. exact H1.
  Qed.

  (* every statement head but IF, DEF, INPUT and ":" *)
  Definition plain_head (t : option token) : bool :=
    match t with
    | Some (TIf | TDef | TColon | TElse) => false
    | _ => true
    end.

  Lemma aplp_dispatch arec t : plain_head t = true -> aplp (adispatch fuel nest arec t).
  Proof.
    intros H. destruct t as [t|]; [destruct t; try discriminate H|]; cbn [adispatch];
      first [ apply apl_ret | apply apl_fail | apply aplp_dim | apply aplp_input | apply aplp_print | apply aplp_goto_or_gosub | apply aplp_for
            | apply aplp_next | apply aplp_read | apply aplp_let | apply aplp_assignment
            | pwalk leaf ].
  Qed.
End PlainStmt.
