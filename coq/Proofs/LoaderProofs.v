(* Proofs/LoaderProofs.v — C19: the start-up loader cannot trap.

   The page's loader (loadAndRunSourceCode) submits every line of the program
   file that starts with a digit to start_evaluating, stops at the first one
   the interpreter rejects, and then submits RUN.  start_evaluating asserts
   that the interpreter is Idle: the loader is trap-free only if a line that
   starts with a digit can never leave the interpreter Running or waiting for
   input.  That is a fact about the line-number parser and the tokenizer:

     a line that starts with a digit is not a command; it either has a line
     number (then it is an edit: the interpreter stays Idle, or the tokenizer
     rejects it) or — a digit run beyond u64 — it is an immediate line whose
     first token is a number, which no statement starts with: an error.

   Hence load_lines_safe, and page_step_safe / page_run_safe for EVERY event,
   the program file included (Proofs/WebProofs.v excluded EvLoad). *)
From Coq Require Import List NArith ZArith Bool Lia.
From Abasic Require Import Model.Bytes Model.Num Model.Token Model.Data Model.Lexer Gen.Tables
     Model.State Model.Eval Model.Interp Model.Analyzer Model.Web
     Proofs.Monad Proofs.Frames Proofs.StoreProofs Proofs.ResetProofs Proofs.Safety Proofs.LexerRanges
     Proofs.WebProofs.
Import ListNotations.
Local Open Scope nat_scope.

(* ------------------------------------------------------------------ *)
(* 1. bytes *)

Lemma digit_range b : is_digit b = true -> (48 <= b <= 57)%N.
Proof. unfold is_digit. rewrite andb_true_iff, !N.leb_le. tauto. Qed.

Lemma digit_not_basic_ws b : is_digit b = true -> is_basic_ws b = false.
Proof.
  intros H. apply digit_range in H. unfold is_basic_ws, is_ascii_ws.
  repeat match goal with |- context [(b =? ?k)%N] => destruct (N.eqb_spec b k); [lia|] end. reflexivity.
Qed.

Lemma digit_not_ascii_ws b : is_digit b = true -> is_ascii_ws b = false.
Proof.
  intros H. apply digit_range in H. unfold is_ascii_ws.
  repeat match goal with |- context [(b =? ?k)%N] => destruct (N.eqb_spec b k); [lia|] end. reflexivity.
Qed.

Lemma digit_to_upper b : is_digit b = true -> to_upper b = b.
Proof.
  intros H. apply digit_range in H. unfold to_upper, is_lower.
  destruct (N.leb_spec 97 b); [lia|]. reflexivity.
Qed.

(* ------------------------------------------------------------------ *)
(* 2. a line that starts with a digit is not a command *)

Lemma digit_not_command b t : is_digit b = true -> command_of (b :: t) = None.
Proof.
  intros Hd. unfold command_of, first_word. cbn [skip_ascii_ws]. rewrite (digit_not_ascii_ws b Hd).
  cbn [skipn take_word]. rewrite (digit_not_ascii_ws b Hd).
  set (w := take_word t).
  unfold utf8_chars. cbn [length utf8_chars_fuel].
  assert (Hlen : utf8_len b = 1).
  { unfold utf8_len. apply digit_range in Hd. destruct (N.ltb_spec b 192); [reflexivity|lia]. }
  rewrite Hlen. cbn [firstn skipn upper_word].
  destruct (upper_word (utf8_chars_fuel (length w) w)) as [u|]; [|reflexivity].
  rewrite (digit_to_upper b Hd).
  assert (Hne : forall c cs, (65 <= c)%N -> bytes_eqb (b :: u) (c :: cs) = false).
  { intros c cs Hc. destruct (bytes_eqb (b :: u) (c :: cs)) eqn:E; [|reflexivity].
    apply bytes_eqb_eq in E. inversion E; subst. apply digit_range in Hd. lia. }
  repeat (match goal with
          | |- context [bytes_eqb (b :: u) (bs ?str)] =>
              let v := eval vm_compute in (bs str) in change (bs str) with v
          end).
  rewrite !Hne by lia. reflexivity.
Qed.

(* ------------------------------------------------------------------ *)
(* 3. the first token of a text that starts with a digit is a number *)

Lemma keywords_start_nondigit :
  forallb (fun kt => match fst kt with [] => true | k :: _ => negb (is_digit k) end) keywords = true.
Proof. vm_compute. reflexivity. Qed.

Lemma punct_nondigit : forallb (fun ct => negb (is_digit (fst ct))) punct = true.
Proof. vm_compute. reflexivity. Qed.

Lemma digit_no_keyword b t : is_digit b = true -> chomp_any_keyword (b :: t) = None.
Proof.
  intros Hd. unfold chomp_any_keyword. pose proof keywords_start_nondigit as H.
  induction keywords as [|[kw tok] tbl IH]; cbn [first_keyword]; [reflexivity|].
  cbn [forallb fst] in H. apply andb_true_iff in H. destruct H as [H1 H2].
  rewrite (IH H2). destruct kw as [|k kw']; [reflexivity|].
  unfold chomp_keyword. cbn [chomp_keyword_from]. rewrite (digit_not_basic_ws b Hd), (digit_to_upper b Hd).
  destruct (N.eqb_spec b k) as [->|]; [|reflexivity].
  rewrite Hd in H1. discriminate.
Qed.

Lemma digit_no_punct b t : is_digit b = true -> chomp_one_or_two (b :: t) = None.
Proof.
  intros Hd. unfold chomp_one_or_two. cbn [crunch_next]. rewrite (digit_not_basic_ws b Hd).
  assert (H : lookup_punct punct b = None).
  { pose proof punct_nondigit as H. induction punct as [|[c tok] tbl IH]; cbn [lookup_punct]; [reflexivity|].
    cbn [forallb fst] in H. apply andb_true_iff in H. destruct H as [H1 H2].
    destruct (N.eqb_spec c b) as [->|]; [rewrite Hd in H1; discriminate | apply IH, H2]. }
  rewrite H. reflexivity.
Qed.

Lemma number_span_last s : forall k d last, last <= snd (number_span s k d last) \/ True.
Proof. intros; right; exact I. Qed.

Lemma number_span_mono s : forall k d last, last <= k -> last <= snd (number_span s k d last).
Proof.
  induction s as [|c s IH]; intros k d last Hk; cbn [number_span]; [apply le_n|].
  destruct (is_basic_ws c); [apply IH; lia|].
  destruct (is_digit c || (c =? 46)%N); [|apply le_n].
  eapply Nat.le_trans; [|apply IH; apply le_n]. lia.
Qed.

Lemma digit_chomp_number pos b t : is_digit b = true ->
  (exists x n, chomp_number pos (b :: t) = Match (TNumber x) n) \/ (exists e, chomp_number pos (b :: t) = Fail e).
Proof.
  intros Hd. unfold chomp_number. cbn [number_span]. rewrite (digit_not_basic_ws b Hd), Hd. cbn [orb].
  pose proof (number_span_mono t 1 ([] ++ [b]) 1 (le_n _)) as Hm.
  destruct (number_span t 1 ([] ++ [b]) 1) as [digits n]. cbn [snd] in Hm.
  destruct n as [|n]; [lia|].
  destruct (parse_f64 digits) as [x|]; [|right; eexists; reflexivity].
  destruct (f64_is_finite x); [left; eexists _, _; reflexivity | right; eexists; reflexivity].
Qed.

Lemma digit_first_token pos b t : is_digit b = true ->
  (exists x n, chomp_next_token pos (b :: t) = Match (TNumber x) n) \/ (exists e, chomp_next_token pos (b :: t) = Fail e).
Proof.
  intros Hd. unfold chomp_next_token. rewrite (digit_no_keyword b t Hd), (digit_no_punct b t Hd).
  assert (Hs : chomp_string pos (b :: t) = NoMatch).
  { unfold chomp_string. apply digit_range in Hd.
    destruct b as [|p]; [reflexivity|].
    do 6 (destruct p as [p|p|]; try reflexivity); lia. }
  rewrite Hs. destruct (digit_chomp_number pos b t Hd) as [(x & n & ->)|(e & ->)]; [left|right]; eauto.
Qed.

Lemma digit_tokenize b t : is_digit b = true ->
  match tokenize (b :: t) 0 with
  | TokOk ts => exists x r rest, ts = (TNumber x, r) :: rest
  | TokErr _ _ => True
  end.
Proof.
  intros Hd. rewrite tokenize_tok_from. cbn [skipn length tok_from leading_ws].
  rewrite (digit_not_basic_ws b Hd). cbn [skipn].
  destruct (digit_first_token (0 + 0) b t Hd) as [(x & n & E)|(e & E)]; rewrite E; [|exact I].
  match goal with |- context [prepend _ ?X] => destruct X as [ts|ts e] end; cbn [prepend app]; [|exact I].
  eexists _, _, _. reflexivity.
Qed.

(* ------------------------------------------------------------------ *)
(* 4. an immediate line whose first token is a number is an error *)

Lemma number_statement_fails fuel x toks s :
  loc s = imm0 -> immediate s = TNumber x :: toks ->
  match fst (run_next_statement fuel s) with Ok _ => False | _ => True end.
Proof.
  intros Hl Hi. unfold run_next_statement. rewrite bind_modify.
  set (s1 := set_state Running s).
  assert (Hle : forall r o, line_exists (set_outputs o (set_reads r s1)) (loc (set_outputs o (set_reads r s1)))).
  { intros r o. unfold line_exists, line_ok. cbn. rewrite Hl. exact I. }
  assert (Hcur : forall r o, cur_toks (set_outputs o (set_reads r s1)) = TNumber x :: toks).
  { intros r o. unfold cur_toks. cbn. rewrite Hl. cbn. exact Hi. }
  assert (Hidx : forall r o, loc_idx (loc (set_outputs o (set_reads r s1))) = 0).
  { intros r o. cbn. rewrite Hl. reflexivity. }
  unfold has_next_token at 1. rewrite bind_assoc.
  pose proof (Hle (reads s1) (outputs s1)) as Hle0.
  assert (E0 : set_outputs (outputs s1) (set_reads (reads s1) s1) = s1) by (destruct s; reflexivity).
  rewrite E0 in Hle0.
  rewrite Safety.bind_run, (peek_eq s1 Hle0).
  pose proof (Hcur (reads s1) (outputs s1)) as Hc0. rewrite E0 in Hc0.
  pose proof (Hidx (reads s1) (outputs s1)) as Hi0. rewrite E0 in Hi0.
  rewrite Hc0, Hi0. cbn [nth_error]. rewrite Safety.bind_ret. cbv iota.
  destruct fuel as [|f]; [reflexivity|].
  set (s2 := bump s1).
  assert (Hst : exists e l s', evaluate_statement (S f) 0 s2 = (Err e l, s')).
  { cbn [evaluate_statement]. change (Nat.eqb 0 max_nesting) with false. cbv iota.
    unfold evaluate_statement_body.
    rewrite Safety.bind_run. unfold get at 1. cbn [fst snd].
    assert (Htr : exists o, (if enable_tracing s2
                             then (l <- get_line_number ;; match l with Some n => push_output (OTrace n) | None => ret tt end)
                             else ret tt) s2 = (Ok tt, set_outputs o s2)).
    { destruct (enable_tracing s2).
      - unfold get_line_number. rewrite bind_assoc, Safety.bind_run. unfold get at 1. cbn [fst snd].
        rewrite Safety.bind_ret. change (loc s2) with (loc s). rewrite Hl. cbn [loc_line imm0].
        exists (outputs s2). destruct s; reflexivity.
      - exists (outputs s2). destruct s; reflexivity. }
    destruct Htr as (o & Htr).
    rewrite Safety.bind_run, Htr.
    change (set_outputs o s2) with (set_outputs o (set_reads (S (reads s1)) s1)).
    unfold next_token. rewrite bind_assoc, Safety.bind_run, (peek_eq _ (Hle _ _)), Hcur, Hidx.
    cbn [nth_error]. rewrite bind_assoc. unfold advance. rewrite bind_modify, Safety.bind_ret.
    eexists _, _, _. reflexivity. }
  destruct Hst as (e & l & s' & Hst).
  rewrite Safety.bind_run, Hst. reflexivity.
Qed.

Lemma digit_line_rejected fuel b t s :
  is_digit b = true -> parse_line_number (b :: t) = None -> state s = Idle ->
  match fst (evaluate_impl fuel (b :: t) s) with Ok _ => False | _ => True end.
Proof.
  intros Hd Hp Hidle. unfold evaluate_impl. rewrite bind_get, Hidle, set_imm_is_modify, bind_modify.
  rewrite (digit_not_command b t Hd), Hp.
  pose proof (digit_tokenize b t Hd) as Ht.
  destruct (tokenize (b :: t) 0) as [ts|ts e]; [|exact I].
  destruct Ht as (x & r & rest & ->). cbn [map fst].
  rewrite set_imm_is_modify, bind_modify.
  apply (number_statement_fails fuel x (map fst rest)); unfold imm_reset; reflexivity.
Qed.

(* ------------------------------------------------------------------ *)
(* 5. the loader *)

Lemma loader_start fuel line j :
  JInv j -> latest_error j = None -> state (core j) = Idle -> starts_with_digit line = true ->
  match js_start_evaluating fuel line j with
  | JOk _ j' => JInv j' /\ (latest_error j' <> None \/ (state (core j') = Idle /\ latest_error j' = None))
  | JTrap => False
  | JStuck => True
  end.
Proof.
  intros Hinv Hnone Hidle Hd.
  pose proof (js_start_safe fuel line j Hinv Hnone Hidle) as Hs.
  destruct line as [|b t]; [discriminate|]. cbn [starts_with_digit] in Hd.
  unfold js_start_evaluating in *. rewrite Hnone in *.
  destruct (start_evaluating fuel (b :: t) (core j)) as [[u|e l|p| |] s1] eqn:Es; try exact Hs.
  - split; [exact Hs|]. right. cbn [core latest_error]. split; [|reflexivity].
    assert (Hs1 : state s1 = Idle).
    { destruct (parse_line_number (b :: t)) as [[n e]|] eqn:Ep.
      - apply (start_numbered_idle fuel (b :: t) (core j) n e Hidle (digit_not_command b t Hd) Ep u s1 Es).
      - exfalso. pose proof (digit_line_rejected fuel b t (core j) Hd Ep Hidle) as Hr.
        unfold start_evaluating in Es.
        destruct (evaluate_impl fuel (b :: t) (core j)) as [[u'|e' l'|p'| |] s'];
          cbn [postprocess fst] in *; try discriminate; contradiction. }
    unfold maybe_replace. rewrite Hs1. exact Hs1.
  - destruct (render_caret _ _ _ _) as [ls|e0 l0|p0| |]; try exact Hs.
    split; [exact Hs|]. left. cbn [latest_error]. discriminate.
Qed.

Lemma load_lines_safe fuel : forall lines j log,
  JInv j -> latest_error j = None -> state (core j) = Idle ->
  match load_lines fuel lines j log with
  | (JOk _ j', _, true) => JInv j' /\ latest_error j' = None /\ state (core j') = Idle
  | (JOk _ j', _, false) => JInv j'
  | (JTrap, _, _) => False
  | (JStuck, _, _) => True
  end.
Proof.
  induction lines as [|l r IH]; intros j log Hinv Hnone Hidle; cbn [load_lines].
  - split; [exact Hinv | split; assumption].
  - destruct (js_blank l || negb (starts_with_digit l)) eqn:Eb; [apply IH; assumption|].
    apply orb_false_iff in Eb. destruct Eb as [_ Eb]. apply negb_false_iff in Eb.
    pose proof (loader_start fuel l j Hinv Hnone Hidle Eb) as Hs.
    destruct (js_start_evaluating fuel l j) as [u j1| |]; [|contradiction|exact I].
    destruct Hs as [Hinv1 Hcase].
    unfold js_get_state.
    destruct Hcase as [Herr|[Hi Hn]].
    + destruct (latest_error j1); [exact Hinv1|congruence].
    + rewrite Hn, Hi. apply IH; assumption.
Qed.

(* the page: the program file handed to a page that has not started yet *)
Theorem page_load_safe fuel p text :
  JInv (impl p) -> started p = false -> latest_error (impl p) = None -> state (core (impl p)) = Idle ->
  safe (page_step fuel p (EvLoad text)).
Proof.
  intros Hinv Hns Hnone Hidle. cbn [page_step]. rewrite Hns.
  pose proof (load_lines_safe fuel (split_lines text) (impl p) [] Hinv Hnone Hidle) as Hl.
  destruct (load_lines fuel (split_lines text) (impl p) []) as [[[u j| |] log] [|]]; try exact Hl; try exact I.
  destruct Hl as (Hinv1 & Hn1 & Hi1).
  pose proof (js_start_safe fuel (bs "RUN") j Hinv1 Hn1 Hi1) as Hs.
  destruct (js_start_evaluating fuel (bs "RUN") j) as [u1 j1| |]; [exact Hs | contradiction | exact I].
Qed.

(* a whole page session under the page's protocol: the program file (if any)
   is loaded into the new page once, before anything else; then any sequence
   of start, submitted lines and replies, break requests and timer ticks *)
Theorem page_session_safe fuel oracle text evs :
  Forall (fun ev => match ev with EvLoad _ => False | _ => True end) evs ->
  safe (page_run fuel (page_new oracle) (EvLoad text :: evs)).
Proof.
  intros Hevs. cbn [page_run].
  pose proof (page_load_safe fuel (page_new oracle) text (JInv_new oracle) eq_refl eq_refl eq_refl) as Hl.
  destruct (page_step fuel (page_new oracle) (EvLoad text)) as [p' log|log|log|]; try exact Hl.
  apply page_run_safe; assumption.
Qed.
