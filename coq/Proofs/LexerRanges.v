(* LexerRanges.v — ranges produced by the tokenizer model (Model/Lexer.v).

   Main results (see the end of the file):
     1. tokenize_ranges_ok            ranges of a successful tokenization
     2. tokenize_err_ranges_ok        ranges / error position of a failed one
     3. tokenize_first_nonblank(_err) first byte of a token is not a blank
     4. tokenize_last_nonblank(_err), tokenize_remark_end(_err)
     5. tokenize_from_fuel            the fuel never cuts a tokenization short
     6. tokenize_char_boundaries(_err) ranges fall on UTF-8 character boundaries

   Facts about the generated tables (Gen/Tables.v) are decided by computation
   ([tables_ok]); nothing below depends on their concrete content. *)
From Coq Require Import List NArith ZArith Bool Lia Arith ZifyBool Sorted.
From Abasic Require Import Model.Bytes Model.Num Model.Token Model.Data Model.Lexer Gen.Tables.
Import ListNotations.
Local Open Scope nat_scope.

(* ------------------------------------------------------------------ *)
(* The statement: ordered, non-empty, non-overlapping ranges in [lo, hi]. *)

(* Every range is non-empty, lies in [lo, hi], and the following ones lie in
   what is left after it. *)
Fixpoint ranges_ok (lo hi : nat) (ts : list ranged) : Prop :=
  match ts with
  | [] => True
  | (_, (a, b)) :: ts' => lo <= a /\ a < b /\ b <= hi /\ ranges_ok b hi ts'
  end.

(* Readable consequences of [ranges_ok]. *)
Lemma ranges_ok_weaken lo lo' hi ts : lo' <= lo -> ranges_ok lo hi ts -> ranges_ok lo' hi ts.
Proof.
  destruct ts as [|[t [a b]] ts]; cbn [ranges_ok]; [auto|].
  intros Hl (H1 & H2 & H3 & H4). repeat split; auto; lia.
Qed.

Lemma ranges_ok_In lo hi ts :
  ranges_ok lo hi ts -> forall t a b, In (t, (a, b)) ts -> lo <= a /\ a < b /\ b <= hi.
Proof.
  revert lo; induction ts as [|[t0 [a0 b0]] ts IH]; intros lo H t a b HIn; [destruct HIn|].
  cbn [ranges_ok] in H. destruct H as (H1 & H2 & H3 & H4).
  destruct HIn as [E|HIn].
  - inversion E; subst. lia.
  - specialize (IH _ H4 _ _ _ HIn). lia.
Qed.

(* Consecutive ranges do not overlap (and hence, by transitivity, no two do). *)
Lemma ranges_ok_consecutive lo hi ts :
  ranges_ok lo hi ts ->
  forall l1 t1 a1 b1 t2 a2 b2 l2,
    ts = l1 ++ (t1, (a1, b1)) :: (t2, (a2, b2)) :: l2 -> b1 <= a2.
Proof.
  intros H l1; revert lo ts H; induction l1 as [|x l1 IH]; intros lo ts H t1 a1 b1 t2 a2 b2 l2 ->.
  - cbn in H. tauto.
  - destruct x as [t0 [a0 b0]]. cbn in H. destruct H as (_ & _ & _ & H).
    eapply IH; [exact H|reflexivity].
Qed.

Lemma ranges_ok_sorted lo hi ts :
  ranges_ok lo hi ts ->
  StronglySorted (fun x y => snd (snd x) <= fst (snd y)) ts.
Proof.
  revert lo; induction ts as [|[t0 [a0 b0]] ts IH]; intros lo H; [constructor|].
  cbn [ranges_ok] in H. destruct H as (H1 & H2 & H3 & H4). constructor; [eauto|].
  apply Forall_forall. intros [t [a b]] HIn. cbn.
  destruct (ranges_ok_In _ _ _ H4 _ _ _ HIn). lia.
Qed.

(* ------------------------------------------------------------------ *)
(* List helpers *)

Lemma skipn_skipn' {A} (n m : nat) (l : list A) : skipn n (skipn m l) = skipn (m + n) l.
Proof.
  revert l; induction m as [|m IH]; intros l; [reflexivity|].
  destruct l as [|x l]; [now rewrite !skipn_nil|]. cbn [skipn Nat.add]. apply IH.
Qed.

Lemma nth_error_skipn {A} (n m : nat) (l : list A) : nth_error (skipn n l) m = nth_error l (n + m).
Proof.
  revert l; induction n as [|n IH]; intros l; [reflexivity|].
  destruct l as [|x l]; [now destruct m|]. cbn [skipn Nat.add nth_error]. apply IH.
Qed.

Lemma skipn_nonempty_lt {A} (n : nat) (l : list A) x r : skipn n l = x :: r -> n < length l.
Proof.
  intros H. assert (L : length (skipn n l) = S (length r)) by now rewrite H.
  rewrite skipn_length in L. lia.
Qed.

(* ------------------------------------------------------------------ *)
(* What the matchers guarantee *)

(* A non-blank ASCII byte. *)
Definition nb_ascii (c : N) : Prop := is_basic_ws c = false /\ (c < 128)%N.

(* [n >= 1] and the byte at [n - 1] of [s] is a non-blank ASCII byte. *)
Definition ends_nb (s : bytes) (n : nat) : Prop :=
  exists m c, n = S m /\ nth_error s m = Some c /\ nb_ascii c.

Lemma ends_nb_bounds s n : ends_nb s n -> 1 <= n <= length s.
Proof.
  intros (m & c & -> & Hc & _). assert (m < length s) by (apply nth_error_Some; congruence). lia.
Qed.

Definition is_rem (t : token) : bool := match t with TRemark _ => true | _ => false end.
Definition is_data (t : token) : bool := match t with TData _ => true | _ => false end.

(* Specification of a token [t] matched over the first [n] bytes of [s]. *)
Definition tok_spec (s : bytes) (t : token) (n : nat) : Prop :=
  1 <= n <= length s /\
  (is_rem t = false -> is_data t = false -> ends_nb s n) /\
  (is_rem t = true -> n = length s) /\
  (is_data t = true ->
     exists k cs1 cs2, ends_nb s k /\ utf8_chars (skipn k s) = cs1 ++ cs2
                       /\ n = k + length (concat cs1)).

Lemma tok_spec_plain s t n :
  is_rem t = false -> is_data t = false -> ends_nb s n -> tok_spec s t n.
Proof.
  intros Hr Hd He. split; [exact (ends_nb_bounds _ _ He)|].
  split; [auto|]. split; congruence.
Qed.

(* ------------------------------------------------------------------ *)
(* The generated tables, decided by computation *)

Definition all_ascii (kw : bytes) : bool := forallb (fun b => (b <? 128)%N) kw.
Definition plain_tok (t : token) : bool := negb (is_rem t) && negb (is_data t).

Definition keywords_ok (tbl : list (bytes * token)) : bool :=
  forallb (fun e => all_ascii (fst e) && plain_tok (snd e)) tbl.
Definition punct_ok (tbl : list (N * token)) : bool :=
  forallb (fun e => (fst e <? 128)%N && plain_tok (snd e)) tbl.
Definition two_char_ok (tbl : list (token * N * token)) : bool :=
  forallb (fun e => (snd (fst e) <? 128)%N && plain_tok (snd e)) tbl.

Lemma tables_ok :
  keywords_ok keywords = true /\ punct_ok punct = true /\ two_char_ok two_char = true
  /\ all_ascii rem_keyword = true /\ all_ascii data_keyword = true.
Proof. vm_compute. repeat split; reflexivity. Qed.

Lemma plain_tok_true t : plain_tok t = true -> is_rem t = false /\ is_data t = false.
Proof. unfold plain_tok. destruct (is_rem t), (is_data t); cbn; intuition congruence. Qed.

(* ------------------------------------------------------------------ *)
(* Blanks *)

Lemma blank_ascii c : is_basic_ws c = true -> (c < 128)%N.
Proof. unfold is_basic_ws, is_ascii_ws. lia. Qed.

Lemma leading_ws_le s : leading_ws s <= length s.
Proof. induction s as [|b s IH]; cbn [leading_ws length]; [lia|]. destruct (is_basic_ws b); lia. Qed.

Lemma leading_ws_blank s i :
  i < leading_ws s -> exists c, nth_error s i = Some c /\ is_basic_ws c = true.
Proof.
  revert i; induction s as [|b s IH]; intros i; cbn [leading_ws]; [lia|].
  destruct (is_basic_ws b) eqn:Eb; [|lia].
  destruct i as [|i]; intros Hi; [exists b; auto|]. cbn [nth_error]. apply IH. lia.
Qed.

Lemma leading_ws_head s c r : skipn (leading_ws s) s = c :: r -> is_basic_ws c = false.
Proof.
  induction s as [|b s IH]; cbn [leading_ws]; [discriminate|].
  destruct (is_basic_ws b) eqn:Eb; cbn [skipn]; [exact IH|]. congruence.
Qed.

(* ------------------------------------------------------------------ *)
(* Per-matcher lemmas *)

Lemma crunch_next_spec s b n :
  crunch_next s = Some (b, n) ->
  is_basic_ws b = false /\ exists m, n = S m /\ nth_error s m = Some b.
Proof.
  revert n; induction s as [|x s IH]; intros n; cbn [crunch_next]; [discriminate|].
  destruct (is_basic_ws x) eqn:Ex.
  - destruct (crunch_next s) as [[c k]|] eqn:Ec; [|discriminate].
    intros H; inversion H; subst. destruct (IH _ eq_refl) as (Hb & m & -> & Hm).
    split; [auto|]. exists (S m). auto.
  - intros H; inversion H; subst. split; [auto|]. exists 0. auto.
Qed.

Lemma to_upper_ascii b k : (to_upper b =? k)%N = true -> (k < 128)%N -> (b < 128)%N.
Proof. unfold to_upper, is_lower. intros H K. destruct (_ && _) eqn:E in H; lia. Qed.

Lemma chomp_keyword_from_spec s : forall kw acc n,
  kw <> [] -> all_ascii kw = true ->
  chomp_keyword_from kw s acc = Some n ->
  exists m c, n = acc + S m /\ nth_error s m = Some c /\ nb_ascii c.
Proof.
  induction s as [|b s IH]; intros [|k kw] acc n Hne Ha; try congruence;
    cbn [chomp_keyword_from]; [discriminate|].
  cbn [all_ascii forallb] in Ha. apply andb_true_iff in Ha. destruct Ha as [Hk Ha].
  destruct (is_basic_ws b) eqn:Eb.
  - intros H. apply IH in H; [|congruence|cbn [all_ascii forallb]; now rewrite Hk].
    destruct H as (m & c & -> & Hc & Hn). exists (S m), c. split; [lia|auto].
  - destruct (to_upper b =? k)%N eqn:Ek; [|discriminate].
    destruct kw as [|k' kw].
    + destruct s; cbn [chomp_keyword_from]; intros H; inversion H; subst;
        exists 0, b; (repeat split; auto; [lia | eapply to_upper_ascii; eauto; lia]).
    + intros H. apply IH in H; [|congruence|exact Ha].
      destruct H as (m & c & -> & Hc & Hn). exists (S m), c. split; [lia|auto].
Qed.

Lemma chomp_keyword_spec kw s n :
  all_ascii kw = true -> chomp_keyword kw s = Some n -> ends_nb s n.
Proof.
  intros Ha H. destruct kw as [|k kw]; [discriminate|]. unfold chomp_keyword in H.
  apply chomp_keyword_from_spec in H; [|congruence|exact Ha].
  destruct H as (m & c & -> & Hc & Hn). exists m, c. auto.
Qed.

Lemma first_keyword_spec tbl s t n :
  keywords_ok tbl = true -> first_keyword tbl s = Some (t, n) ->
  plain_tok t = true /\ ends_nb s n.
Proof.
  induction tbl as [|[kw t0] tbl IH]; cbn [first_keyword keywords_ok forallb]; [discriminate|].
  intros Hok. apply andb_true_iff in Hok. destruct Hok as [Hk Hok].
  apply andb_true_iff in Hk. cbn [fst snd] in Hk. destruct Hk as [Ha Hp].
  destruct (chomp_keyword kw s) as [k|] eqn:Ek; [|exact (IH Hok)].
  intros H; inversion H; subst. split; [exact Hp|]. eapply chomp_keyword_spec; eauto.
Qed.

Lemma chomp_any_keyword_spec s t n : chomp_any_keyword s = Some (t, n) -> tok_spec s t n.
Proof.
  intros H. apply first_keyword_spec in H; [|apply tables_ok]. destruct H as [Hp He].
  apply plain_tok_true in Hp. destruct Hp. now apply tok_spec_plain.
Qed.

Lemma lookup_punct_spec tbl b t :
  punct_ok tbl = true -> lookup_punct tbl b = Some t -> plain_tok t = true /\ (b < 128)%N.
Proof.
  induction tbl as [|[c t0] tbl IH]; cbn [lookup_punct punct_ok forallb]; [discriminate|].
  intros Hok. apply andb_true_iff in Hok. destruct Hok as [Hk Hok]. cbn [fst snd] in Hk.
  destruct (c =? b)%N eqn:Ec; [|exact (IH Hok)].
  intros H; inversion H; subst. split; lia.
Qed.

Lemma lookup_two_spec tbl f b t :
  two_char_ok tbl = true -> lookup_two tbl f b = Some t -> plain_tok t = true /\ (b < 128)%N.
Proof.
  induction tbl as [|[[f0 c] t0] tbl IH]; cbn [lookup_two two_char_ok forallb]; [discriminate|].
  intros Hok. apply andb_true_iff in Hok. destruct Hok as [Hk Hok]. cbn [fst snd] in Hk.
  destruct (token_eqb f0 f && (c =? b)%N) eqn:Ec; [|exact (IH Hok)].
  intros H; inversion H; subst. split; lia.
Qed.

Lemma chomp_one_or_two_spec s t n : chomp_one_or_two s = Some (t, n) -> tok_spec s t n.
Proof.
  unfold chomp_one_or_two.
  destruct (crunch_next s) as [[b k]|] eqn:Ec; [|discriminate].
  destruct (lookup_punct punct b) as [t1|] eqn:Ep; [|discriminate].
  apply crunch_next_spec in Ec. destruct Ec as (Hb & m & -> & Hm).
  apply lookup_punct_spec in Ep; [|apply tables_ok]. destruct Ep as [Hp1 Hb1].
  assert (One : tok_spec s t1 (S m)).
  { apply plain_tok_true in Hp1. destruct Hp1. apply tok_spec_plain; auto.
    exists m, b. repeat split; auto. }
  destruct (crunch_next (skipn (S m) s)) as [[c j]|] eqn:Ec2.
  - destruct (lookup_two two_char t1 c) as [t2|] eqn:E2.
    + intros H; inversion H; subst.
      apply crunch_next_spec in Ec2. destruct Ec2 as (Hc & m2 & -> & Hm2).
      apply lookup_two_spec in E2; [|apply tables_ok]. destruct E2 as [Hp2 Hc2].
      apply plain_tok_true in Hp2. destruct Hp2. apply tok_spec_plain; auto.
      exists (S m + m2), c. rewrite nth_error_skipn in Hm2. repeat split; auto; lia.
    + intros H; inversion H; subst. exact One.
  - intros H; inversion H; subst. exact One.
Qed.

Lemma find_quote_spec s k : find_quote s = Some k -> nth_error s k = Some 34%N.
Proof.
  revert k; induction s as [|b s IH]; intros k; cbn [find_quote]; [discriminate|].
  destruct (N.eqb_spec b 34) as [->|Hb].
  - intros H; inversion H; subst. reflexivity.
  - destruct (find_quote s) as [j|]; [|discriminate].
    intros H; inversion H; subst. cbn [nth_error]. auto.
Qed.

(* [chomp_string] without the match on the literal 34. *)
Lemma chomp_string_eq pos s :
  chomp_string pos s =
  match s with
  | b :: t =>
      if (b =? 34)%N then
        match find_quote t with
        | Some k => Match (TString (firstn k t)) (k + 2)
        | None => Fail (UnterminatedStringLiteral pos)
        end
      else NoMatch
  | [] => NoMatch
  end.
Proof.
  destruct s as [|b t]; [reflexivity|].
  destruct (N.eqb_spec b 34) as [->|Hb]; [reflexivity|].
  unfold chomp_string. destruct b as [|p]; [reflexivity|].
  do 6 (try (destruct p as [p|p|]; try reflexivity)). congruence.
Qed.

Lemma nb_ascii_quote : nb_ascii 34%N.
Proof. split; [reflexivity|lia]. Qed.

Lemma chomp_string_spec pos s t n : chomp_string pos s = Match t n -> tok_spec s t n.
Proof.
  rewrite chomp_string_eq. destruct s as [|b r]; [discriminate|].
  destruct (b =? 34)%N; [|discriminate].
  destruct (find_quote r) as [k|] eqn:Ek; [|discriminate].
  intros H; inversion H; subst. apply tok_spec_plain; try reflexivity.
  apply find_quote_spec in Ek. exists (S k), 34%N.
  split; [lia|]. split; [exact Ek|apply nb_ascii_quote].
Qed.

Lemma chomp_string_fail pos s e :
  chomp_string pos s = Fail e -> e = UnterminatedStringLiteral pos.
Proof.
  rewrite chomp_string_eq. destruct s as [|b r]; [discriminate|].
  destruct (b =? 34)%N; [|discriminate].
  destruct (find_quote r) as [k|]; [discriminate|]. intros H; inversion H; reflexivity.
Qed.

Lemma number_span_spec s : forall skipped digits last d n,
  number_span s skipped digits last = (d, n) ->
  n = last \/ exists m c, n = skipped + S m /\ nth_error s m = Some c /\ nb_ascii c.
Proof.
  induction s as [|b s IH]; intros skipped digits last d n; cbn [number_span].
  - intros H; inversion H; auto.
  - destruct (is_basic_ws b) eqn:Eb.
    + intros H. apply IH in H. destruct H as [H|(m & c & -> & Hc & Hn)]; [auto|].
      right. exists (S m), c. split; [lia|auto].
    + destruct (is_digit b || (b =? 46)%N) eqn:Ed.
      * intros H. apply IH in H. destruct H as [->|(m & c & -> & Hc & Hn)].
        -- right. exists 0, b. repeat split; auto; [lia|]. unfold is_digit in Ed. lia.
        -- right. exists (S m), c. split; [lia|auto].
      * intros H; inversion H; auto.
Qed.

Lemma chomp_number_spec pos s t n : chomp_number pos s = Match t n -> tok_spec s t n.
Proof.
  unfold chomp_number. destruct (number_span s 0 [] 0) as [d k] eqn:Es.
  destruct k as [|k]; [discriminate|].
  destruct (parse_f64 d) as [x|]; [|discriminate].
  destruct (f64_is_finite x); [|discriminate].
  intros H; inversion H; subst. apply tok_spec_plain; try reflexivity.
  apply number_span_spec in Es. destruct Es as [Es|(m & c & E & Hc & Hn)]; [discriminate|].
  exists m, c. auto.
Qed.

Lemma chomp_number_fail pos s e :
  chomp_number pos s = Fail e -> exists n, n <= length s /\ e = InvalidNumber pos (pos + n).
Proof.
  unfold chomp_number. destruct (number_span s 0 [] 0) as [d k] eqn:Es.
  destruct k as [|k]; [discriminate|].
  assert (Hk : S k <= length s).
  { apply number_span_spec in Es. destruct Es as [Es|(m & c & E & Hc & _)]; [discriminate|].
    assert (m < length s) by (apply nth_error_Some; congruence). lia. }
  destruct (parse_f64 d) as [x|]; [destruct (f64_is_finite x); [discriminate|]|];
    intros H; inversion H; eauto.
Qed.

Lemma chomp_remark_spec s t n : chomp_remark s = Match t n -> tok_spec s t n.
Proof.
  unfold chomp_remark. destruct (chomp_keyword rem_keyword s) as [k|] eqn:Ek; [|discriminate].
  intros H; inversion H; subst.
  apply chomp_keyword_spec in Ek; [|apply tables_ok]. apply ends_nb_bounds in Ek.
  rewrite skipn_length.
  split; [lia|]. split; [discriminate|]. split; [intros _; lia|discriminate].
Qed.

Lemma chomp_remark_fail s e : chomp_remark s <> Fail e.
Proof. unfold chomp_remark. destruct (chomp_keyword rem_keyword s); discriminate. Qed.

(* The DATA parser consumes a whole number of characters. *)
Lemma dp_run_prefix cs : forall quoted cur elems n r m,
  dp_run cs quoted cur elems n = (r, m) ->
  exists cs1 cs2, cs = cs1 ++ cs2 /\ m = n + length (concat cs1).
Proof.
  induction cs as [|c cs IH]; intros quoted cur elems n r m; cbn [dp_run].
  - intros H; inversion H; subst. exists [], []. cbn. split; [reflexivity|lia].
  - assert (Stop : (dp_finish false cur elems, n) = (r, m) ->
                   exists cs1 cs2, c :: cs = cs1 ++ cs2 /\ m = n + length (concat cs1)).
    { intros H; inversion H; subst. exists [], (c :: cs). cbn. split; [reflexivity|lia]. }
    assert (Go : forall q cu el, dp_run cs q cu el (n + length c) = (r, m) ->
                   exists cs1 cs2, c :: cs = cs1 ++ cs2 /\ m = n + length (concat cs1)).
    { intros q cu el H. apply IH in H. destruct H as (cs1 & cs2 & -> & ->).
      exists (c :: cs1), cs2. cbn [concat app]. rewrite app_length. split; [reflexivity|lia]. }
    destruct quoted.
    + destruct (char_is c 34); apply Go.
    + destruct (char_is c 58); [exact Stop|].
      destruct (char_is c 44); [destruct (all_ws cur); apply Go|].
      destruct (char_is c 34); [destruct (all_ws cur); apply Go|]. apply Go.
Qed.

Lemma utf8_len_pos b : 1 <= utf8_len b.
Proof. unfold utf8_len. repeat destruct (_ <? _)%N; lia. Qed.

Lemma utf8_chars_fuel_concat fuel : forall s, length s <= fuel -> concat (utf8_chars_fuel fuel s) = s.
Proof.
  induction fuel as [|fuel IH]; intros s Hl; cbn [utf8_chars_fuel].
  - destruct s; [reflexivity|cbn in Hl; lia].
  - destruct s as [|b0 r]; [reflexivity|]. cbn [concat]. rewrite IH, firstn_skipn; [reflexivity|].
    rewrite skipn_length. pose proof (utf8_len_pos b0). cbn [length] in *. lia.
Qed.

Lemma utf8_chars_concat s : concat (utf8_chars s) = s.
Proof. apply utf8_chars_fuel_concat. lia. Qed.

Lemma chomp_data_spec s t n : chomp_data s = Match t n -> tok_spec s t n.
Proof.
  unfold chomp_data. destruct (chomp_keyword data_keyword s) as [k|] eqn:Ek; [|discriminate].
  destruct (parse_data (skipn k s)) as [elems m] eqn:Ep.
  intros H; inversion H; subst.
  apply chomp_keyword_spec in Ek; [|apply tables_ok]. pose proof (ends_nb_bounds _ _ Ek) as Hk.
  unfold parse_data in Ep. apply dp_run_prefix in Ep. destruct Ep as (cs1 & cs2 & Ecs & ->).
  assert (Hm : length (concat cs1) <= length (skipn k s)).
  { rewrite <- (utf8_chars_concat (skipn k s)). rewrite Ecs, concat_app, app_length. lia. }
  rewrite skipn_length in Hm. cbn [Nat.add].
  split; [lia|]. split; [discriminate|]. split; [discriminate|].
  intros _. exists k, cs1, cs2. auto.
Qed.

Lemma chomp_data_fail s e : chomp_data s <> Fail e.
Proof.
  unfold chomp_data. destruct (chomp_keyword data_keyword s); [|discriminate].
  destruct (parse_data _); discriminate.
Qed.

Lemma symbol_span_spec s : forall chars consumed pending c' n,
  symbol_span s chars consumed pending = (c', n) ->
  (n = consumed /\ c' = chars) \/
  (c' <> [] /\ exists m c, n = consumed + pending + S m /\ nth_error s m = Some c /\ nb_ascii c).
Proof.
  induction s as [|b s IH]; intros chars consumed pending c' n; cbn [symbol_span].
  - intros H; inversion H; auto.
  - destruct (is_basic_ws b) eqn:Eb.
    + intros H. apply IH in H. destruct H as [H|(Hne & m & c & -> & Hc & Hn)]; [auto|].
      right. split; [auto|]. exists (S m), c. split; [lia|auto].
    + destruct (negb _) eqn:Ev; [intros H; inversion H; auto|].
      assert (Hb : nb_ascii b).
      { split; [auto|]. apply negb_false_iff in Ev.
        destruct chars; unfold is_alnum, is_alpha, is_upper, is_lower, is_digit in Ev; lia. }
      assert (Stop : (chars ++ [to_upper b], consumed + pending + 1) = (c', n) ->
                (n = consumed /\ c' = chars) \/
                (c' <> [] /\ exists m c, n = consumed + pending + S m
                                         /\ nth_error (b :: s) m = Some c /\ nb_ascii c)).
      { intros H; inversion H; subst. right. split; [now destruct chars|].
        exists 0, b. repeat split; try apply Hb; lia. }
      destruct (b =? 36)%N; [exact Stop|].
      destruct (chomp_any_keyword s); [exact Stop|].
      intros H. apply IH in H. destruct H as [[-> ->]|(Hne & m & c & -> & Hc & Hn)].
      * apply Stop. reflexivity.
      * right. split; [auto|]. exists (S m), c. split; [lia|auto].
Qed.

Lemma chomp_symbol_spec s t n : chomp_symbol s = Match t n -> tok_spec s t n.
Proof.
  unfold chomp_symbol. destruct (symbol_span s [] 0 0) as [chars k] eqn:Es.
  destruct chars as [|x chars]; [discriminate|].
  intros H; inversion H; subst. apply tok_spec_plain; try reflexivity.
  apply symbol_span_spec in Es. destruct Es as [[_ E]|(_ & m & c & E & Hc & Hn)]; [discriminate|].
  exists m, c. auto.
Qed.

Lemma chomp_symbol_fail s e : chomp_symbol s <> Fail e.
Proof.
  unfold chomp_symbol. destruct (symbol_span s [] 0 0) as [[|x chars] k]; discriminate.
Qed.

(* The dispatcher *)
Definition err_at (pos : nat) (s : bytes) (e : tok_error) : Prop :=
  e = IllegalCharacter pos \/ e = UnterminatedStringLiteral pos
  \/ exists n, n <= length s /\ e = InvalidNumber pos (pos + n).

Lemma chomp_next_token_spec pos s :
  match chomp_next_token pos s with
  | Match t n => tok_spec s t n
  | Fail e => err_at pos s e
  | NoMatch => True
  end.
Proof.
  unfold chomp_next_token.
  destruct (chomp_any_keyword s) as [[t n]|] eqn:E1; [now apply chomp_any_keyword_spec|].
  destruct (chomp_one_or_two s) as [[t n]|] eqn:E2; [now apply chomp_one_or_two_spec|].
  destruct (chomp_string pos s) as [|t n|e] eqn:E3;
    [|now apply chomp_string_spec in E3|apply chomp_string_fail in E3; right; left; exact E3].
  destruct (chomp_number pos s) as [|t n|e] eqn:E4;
    [|now apply chomp_number_spec in E4|apply chomp_number_fail in E4; right; right; exact E4].
  destruct (chomp_remark s) as [|t n|e] eqn:E5;
    [|now apply chomp_remark_spec in E5|now apply chomp_remark_fail in E5].
  destruct (chomp_data s) as [|t n|e] eqn:E6;
    [|now apply chomp_data_spec in E6|now apply chomp_data_fail in E6].
  destruct (chomp_symbol s) as [|t n|e] eqn:E7;
    [left; reflexivity|now apply chomp_symbol_spec in E7|now apply chomp_symbol_fail in E7].
Qed.

(* ------------------------------------------------------------------ *)
(* 5. Fuel adequacy *)

Lemma tokenize_from_fuel_irrelevant : forall f1 f2 pos s acc,
  length s < f1 -> length s < f2 ->
  tokenize_from f1 pos s acc = tokenize_from f2 pos s acc.
Proof.
  induction f1 as [|f1 IH]; intros f2 pos s acc H1 H2; [lia|].
  destruct f2 as [|f2]; [lia|]. cbn [tokenize_from].
  destruct (skipn (leading_ws s) s) as [|c r] eqn:Es; [reflexivity|]. rewrite <- Es.
  pose proof (chomp_next_token_spec (pos + leading_ws s) (skipn (leading_ws s) s)) as Hs.
  destruct (chomp_next_token _ _) as [|t n|e]; try reflexivity.
  destruct Hs as [Hn _]. rewrite skipn_length in Hn.
  apply IH; rewrite !skipn_length; lia.
Qed.

Theorem tokenize_from_fuel : forall fuel pos s acc,
  length s < fuel ->
  tokenize_from fuel pos s acc = tokenize_from (S (length s)) pos s acc.
Proof. intros. apply tokenize_from_fuel_irrelevant; lia. Qed.

(* ------------------------------------------------------------------ *)
(* The driver without its accumulator *)

Definition prepend (l : list ranged) (r : tok_result) : tok_result :=
  match r with
  | TokOk ts => TokOk (l ++ ts)
  | TokErr ts e => TokErr (l ++ ts) e
  end.

Fixpoint tok_from (fuel : nat) (pos : nat) (s : bytes) : tok_result :=
  match fuel with
  | O => TokOk []
  | S fuel' =>
      let p1 := pos + leading_ws s in
      let s1 := skipn (leading_ws s) s in
      match s1 with
      | [] => TokOk []
      | _ =>
          match chomp_next_token p1 s1 with
          | Match t n => prepend [(t, (p1, p1 + n))] (tok_from fuel' (p1 + n) (skipn n s1))
          | Fail e => TokErr [] e
          | NoMatch => TokErr [] (IllegalCharacter p1)
          end
      end
  end.

Lemma tokenize_from_tok_from : forall fuel pos s acc,
  tokenize_from fuel pos s acc = prepend (rev acc) (tok_from fuel pos s).
Proof.
  induction fuel as [|fuel IH]; intros pos s acc; cbn [tokenize_from tok_from prepend].
  - now rewrite app_nil_r.
  - destruct (skipn (leading_ws s) s) as [|c r] eqn:Es; cbn [prepend]; [now rewrite app_nil_r|].
    destruct (chomp_next_token _ _) as [|t n|e]; cbn [prepend]; try now rewrite app_nil_r.
    rewrite IH. cbn [rev]. destruct (tok_from _ _ _); cbn [prepend]; now rewrite <- app_assoc.
Qed.

Lemma tokenize_tok_from line skip :
  tokenize line skip = tok_from (S (length (skipn skip line))) skip (skipn skip line).
Proof.
  unfold tokenize. rewrite tokenize_from_tok_from. cbn [rev app]. now destruct (tok_from _ _ _).
Qed.

(* ------------------------------------------------------------------ *)
(* The master invariant: the token list is a chain over [line]. *)

Section Chain.
Variable line : bytes.

(* Starting at [lo]: skip blanks, then a token satisfying [tok_spec], and so
   on; [E] holds of the position where the list stops. *)
Fixpoint chain (E : nat -> Prop) (lo : nat) (ts : list ranged) : Prop :=
  match ts with
  | [] => E lo
  | (t, (a, b)) :: ts' =>
      a = lo + leading_ws (skipn lo line) /\ a < b /\ b <= length line
      /\ tok_spec (skipn a line) t (b - a) /\ chain E b ts'
  end.

(* Where and what an error is: at the first non-blank byte after [lo]. *)
Definition err_here (e : tok_error) (lo : nat) : Prop :=
  let p := lo + leading_ws (skipn lo line) in p < length line /\ err_at p (skipn p line) e.

Lemma tok_from_chain : forall fuel pos,
  pos <= length line ->
  match tok_from fuel pos (skipn pos line) with
  | TokOk ts => chain (fun _ => True) pos ts
  | TokErr ts e => chain (err_here e) pos ts
  end.
Proof.
  induction fuel as [|fuel IH]; intros pos Hpos; cbn [tok_from]; [exact I|].
  set (w := leading_ws (skipn pos line)).
  assert (Hw : pos + w <= length line).
  { pose proof (leading_ws_le (skipn pos line)) as H. rewrite skipn_length in H. fold w in H. lia. }
  rewrite skipn_skipn'.
  destruct (skipn (pos + w) line) as [|c r] eqn:Es; [exact I|].
  assert (Hlt : pos + w < length line) by (eapply skipn_nonempty_lt; eauto).
  rewrite <- Es.
  pose proof (chomp_next_token_spec (pos + w) (skipn (pos + w) line)) as Hs.
  destruct (chomp_next_token _ _) as [|t n|e].
  - cbn [chain]. split; [exact Hlt|]. left. reflexivity.
  - pose proof Hs as [Hn _]. rewrite skipn_length in Hn.
    rewrite skipn_skipn'. specialize (IH (pos + w + n)).
    assert (Hd : pos + w + n - (pos + w) = n) by lia.
    destruct (tok_from fuel _ _) as [ts|ts e]; cbn [prepend app chain]; fold w;
      (split; [reflexivity|]); (split; [lia|]); (split; [lia|]); rewrite Hd;
      (split; [exact Hs|]); apply IH; lia.
  - cbn [chain]. split; [exact Hlt|exact Hs].
Qed.

Lemma tokenize_chain skip :
  skip <= length line ->
  match tokenize line skip with
  | TokOk ts => chain (fun _ => True) skip ts
  | TokErr ts e => chain (err_here e) skip ts
  end.
Proof. intros H. rewrite tokenize_tok_from. now apply tok_from_chain. Qed.

(* Consequences of a chain *)

Lemma chain_ranges_ok E : forall ts lo, chain E lo ts -> ranges_ok lo (length line) ts.
Proof.
  induction ts as [|[t [a b]] ts IH]; intros lo; cbn [chain ranges_ok]; [auto|].
  intros (-> & H1 & H2 & _ & H3). repeat split; auto; lia.
Qed.

Lemma chain_end E : forall ts lo,
  chain E lo ts ->
  exists lo', E lo' /\ lo <= lo' /\ forall t r, In (t, r) ts -> snd r <= lo'.
Proof.
  induction ts as [|[t [a b]] ts IH]; intros lo; cbn [chain].
  - intros H. exists lo. repeat split; auto. intros ? ? [].
  - intros (-> & H1 & H2 & _ & H3). destruct (IH _ H3) as (lo' & HE & Hle & Hin).
    exists lo'. repeat split; auto; [lia|].
    intros t' r' [Eq|HIn]; [inversion Eq; subst; cbn; lia|eauto].
Qed.

Lemma chain_In E : forall ts lo t a b,
  chain E lo ts -> In (t, (a, b)) ts ->
  exists lo', lo <= lo' /\ a = lo' + leading_ws (skipn lo' line) /\ a < b /\ b <= length line
              /\ tok_spec (skipn a line) t (b - a).
Proof.
  induction ts as [|[t0 [a0 b0]] ts IH]; intros lo t a b; cbn [chain]; [intros _ []|].
  intros (H0 & H1 & H2 & H3 & H4) [Eq|HIn].
  - inversion Eq; subst. exists lo. split; [lia|]. split; [reflexivity|].
    split; [assumption|]. split; assumption.
  - destruct (IH _ _ _ _ H4 HIn) as (lo' & Hle & H). exists lo'. split; [lia|exact H].
Qed.

Lemma chain_first_nonblank E ts lo t a b :
  chain E lo ts -> In (t, (a, b)) ts ->
  exists c, nth_error line a = Some c /\ is_basic_ws c = false.
Proof.
  intros Hc HIn. destruct (chain_In _ _ _ _ _ _ Hc HIn) as (lo' & _ & Ha & Hab & Hb & _).
  destruct (skipn a line) as [|c r] eqn:Es.
  - assert (L : length (skipn a line) = 0) by now rewrite Es. rewrite skipn_length in L. lia.
  - exists c. split.
    + rewrite <- (Nat.add_0_r a), <- nth_error_skipn, Es. reflexivity.
    + rewrite Ha, <- skipn_skipn' in Es. eapply leading_ws_head; eauto.
Qed.

Lemma chain_last_nonblank E ts lo t a b :
  chain E lo ts -> In (t, (a, b)) ts ->
  is_rem t = false -> is_data t = false ->
  exists c, nth_error line (b - 1) = Some c /\ is_basic_ws c = false.
Proof.
  intros Hc HIn Hr Hd. destruct (chain_In _ _ _ _ _ _ Hc HIn) as (lo' & _ & _ & Hab & Hb & Hs).
  destruct Hs as (_ & Hs & _). destruct (Hs Hr Hd) as (m & c & Hm & Hn & Hnb & _).
  exists c. rewrite nth_error_skipn in Hn. replace (b - 1) with (a + m) by lia. auto.
Qed.

Lemma chain_remark_end E ts lo c a b :
  chain E lo ts -> In (TRemark c, (a, b)) ts -> b = length line.
Proof.
  intros Hc HIn. destruct (chain_In _ _ _ _ _ _ Hc HIn) as (lo' & _ & _ & Hab & Hb & Hs).
  destruct Hs as (_ & _ & Hs & _). specialize (Hs eq_refl). rewrite skipn_length in Hs. lia.
Qed.

End Chain.

Lemma not_rem_data t :
  (forall c, t <> TRemark c) -> (forall d, t <> TData d) -> is_rem t = false /\ is_data t = false.
Proof. intros Hr Hd. destruct t; cbn; auto; [now destruct (Hr c)|now destruct (Hd d)]. Qed.

(* ------------------------------------------------------------------ *)
(* 1. Ranges of a successful tokenization *)

Theorem tokenize_ranges_ok : forall line skip ts,
  skip <= length line -> tokenize line skip = TokOk ts -> ranges_ok skip (length line) ts.
Proof.
  intros line skip ts Hs H. pose proof (tokenize_chain line skip Hs) as Hc. rewrite H in Hc.
  eapply chain_ranges_ok; eauto.
Qed.

(* 2. Ranges and error position of a failed tokenization *)

Theorem tokenize_err_ranges_ok : forall line skip ts e,
  skip <= length line -> tokenize line skip = TokErr ts e ->
  ranges_ok skip (length line) ts
  /\ (let '(a, b) := error_range e (length line) in skip <= a /\ a < length line /\ a <= b)
  /\ (forall t r, In (t, r) ts -> snd r <= fst (error_range e (length line))).
Proof.
  intros line skip ts e Hs H. pose proof (tokenize_chain line skip Hs) as Hc. rewrite H in Hc.
  split; [eapply chain_ranges_ok; eauto|].
  destruct (chain_end _ _ _ _ Hc) as (lo' & [Hlt He] & Hle & Hin).
  set (p := lo' + leading_ws (skipn lo' line)) in *.
  assert (Hfst : fst (error_range e (length line)) = p).
  { destruct He as [->|[->|[n [Hn ->]]]]; reflexivity. }
  split.
  - destruct He as [->|[->|[n [Hn ->]]]]; cbn [error_range]; lia.
  - intros t r HIn. rewrite Hfst. specialize (Hin _ _ HIn). lia.
Qed.

(* 2b. The end of the error range never exceeds the line *)
Theorem tokenize_err_end : forall line skip ts e,
  skip <= length line -> tokenize line skip = TokErr ts e ->
  snd (error_range e (length line)) <= length line.
Proof.
  intros line skip ts e Hs H. pose proof (tokenize_chain line skip Hs) as Hc. rewrite H in Hc.
  destruct (chain_end _ _ _ _ Hc) as (lo' & [Hlt He] & _ & _).
  destruct He as [->|[->|[n [Hn ->]]]]; cbn [error_range snd]; try lia.
  rewrite skipn_length in Hn. lia.
Qed.

(* 3. The first byte of every token is not a blank *)

Theorem tokenize_first_nonblank : forall line skip ts,
  skip <= length line -> tokenize line skip = TokOk ts ->
  forall t a b, In (t, (a, b)) ts ->
  exists c, nth_error line a = Some c /\ is_basic_ws c = false.
Proof.
  intros line skip ts Hs H t a b HIn. pose proof (tokenize_chain line skip Hs) as Hc.
  rewrite H in Hc. eapply chain_first_nonblank; eauto.
Qed.

Theorem tokenize_first_nonblank_err : forall line skip ts e,
  skip <= length line -> tokenize line skip = TokErr ts e ->
  forall t a b, In (t, (a, b)) ts ->
  exists c, nth_error line a = Some c /\ is_basic_ws c = false.
Proof.
  intros line skip ts e Hs H t a b HIn. pose proof (tokenize_chain line skip Hs) as Hc.
  rewrite H in Hc. eapply chain_first_nonblank; eauto.
Qed.

(* 4. The last byte of every token but REM / DATA is not a blank; a REM
      token extends to the end of the line *)

Theorem tokenize_last_nonblank : forall line skip ts,
  skip <= length line -> tokenize line skip = TokOk ts ->
  forall t a b, In (t, (a, b)) ts ->
  (forall c, t <> TRemark c) -> (forall d, t <> TData d) ->
  exists c, nth_error line (b - 1) = Some c /\ is_basic_ws c = false.
Proof.
  intros line skip ts Hs H t a b HIn Hr Hd. pose proof (tokenize_chain line skip Hs) as Hc.
  rewrite H in Hc. destruct (not_rem_data t Hr Hd). eapply chain_last_nonblank; eauto.
Qed.

Theorem tokenize_last_nonblank_err : forall line skip ts e,
  skip <= length line -> tokenize line skip = TokErr ts e ->
  forall t a b, In (t, (a, b)) ts ->
  (forall c, t <> TRemark c) -> (forall d, t <> TData d) ->
  exists c, nth_error line (b - 1) = Some c /\ is_basic_ws c = false.
Proof.
  intros line skip ts e Hs H t a b HIn Hr Hd. pose proof (tokenize_chain line skip Hs) as Hc.
  rewrite H in Hc. destruct (not_rem_data t Hr Hd). eapply chain_last_nonblank; eauto.
Qed.

Theorem tokenize_remark_end : forall line skip ts,
  skip <= length line -> tokenize line skip = TokOk ts ->
  forall c a b, In (TRemark c, (a, b)) ts -> b = length line.
Proof.
  intros line skip ts Hs H c a b HIn. pose proof (tokenize_chain line skip Hs) as Hc.
  rewrite H in Hc. eapply chain_remark_end; eauto.
Qed.

Theorem tokenize_remark_end_err : forall line skip ts e,
  skip <= length line -> tokenize line skip = TokErr ts e ->
  forall c a b, In (TRemark c, (a, b)) ts -> b = length line.
Proof.
  intros line skip ts e Hs H c a b HIn. pose proof (tokenize_chain line skip Hs) as Hc.
  rewrite H in Hc. eapply chain_remark_end; eauto.
Qed.

(* ------------------------------------------------------------------ *)
(* 6. Character boundaries *)

(* One well-formed encoded character: a lead (non-continuation) byte whose
   announced length is the length of the sequence, then continuation bytes. *)
Definition good_char (c : bytes) : Prop :=
  match c with
  | [] => False
  | b0 :: tl => is_cont b0 = false /\ length c = utf8_len b0
                /\ Forall (fun b => is_cont b = true) tl
  end.

(* A string that is a sequence of such characters (weaker than, and implied
   by, [valid_utf8]). *)
Inductive Valid : bytes -> Prop :=
| Valid_nil : Valid []
| Valid_cons c r : good_char c -> Valid r -> Valid (c ++ r).

Lemma valid_utf8_fuel_Valid : forall fuel s, valid_utf8_fuel fuel s = true -> Valid s.
Proof.
  induction fuel as [|fuel IH]; intros s; cbn [valid_utf8_fuel].
  - destruct s; [constructor|discriminate].
  - destruct s as [|b0 r]; [constructor|].
    destruct (b0 <? 128)%N eqn:E1.
    { intros H. apply (Valid_cons [b0] r); [|auto].
      cbn. unfold is_cont, utf8_len. repeat split; [lia| |constructor].
      destruct (b0 <? 192)%N eqn:?; lia. }
    destruct (b0 <? 194)%N eqn:E2; [discriminate|].
    destruct (b0 <? 224)%N eqn:E3.
    { destruct r as [|b1 r]; [discriminate|]. intros H. apply andb_true_iff in H. destruct H as [H1 H].
      apply (Valid_cons [b0; b1] r); [|auto].
      cbn. unfold utf8_len. repeat split; [unfold is_cont; lia| |repeat constructor; try assumption; unfold is_cont; lia].
      destruct (b0 <? 192)%N eqn:?; [lia|]. rewrite E3. reflexivity. }
    destruct (b0 <? 240)%N eqn:E4.
    { destruct r as [|b1 [|b2 r]]; try discriminate. intros H.
      repeat (apply andb_true_iff in H; destruct H as [H ?]).
      apply (Valid_cons [b0; b1; b2] r); [|auto].
      cbn. unfold utf8_len. repeat split; [unfold is_cont; lia| |repeat constructor; try assumption; unfold is_cont; lia].
      destruct (b0 <? 192)%N eqn:?; [lia|]. rewrite E3, E4. reflexivity. }
    destruct (b0 <? 245)%N eqn:E5; [|discriminate].
    { destruct r as [|b1 [|b2 [|b3 r]]]; try discriminate. intros H.
      repeat (apply andb_true_iff in H; destruct H as [H ?]).
      apply (Valid_cons [b0; b1; b2; b3] r); [|auto].
      cbn. unfold utf8_len. repeat split; [unfold is_cont; lia| |repeat constructor; try assumption; unfold is_cont; lia].
      destruct (b0 <? 192)%N eqn:?; [lia|]. rewrite E3, E4. reflexivity. }
Qed.

Lemma valid_utf8_Valid s : valid_utf8 s = true -> Valid s.
Proof. apply valid_utf8_fuel_Valid. Qed.

(* [i] is the end of [s] or the index of a non-continuation byte. *)
Definition nc (s : bytes) (i : nat) : Prop :=
  i = length s \/ exists b, nth_error s i = Some b /\ is_cont b = false.

Lemma char_boundary_nc s i : char_boundary s i = true <-> i = 0 \/ nc s i.
Proof.
  unfold char_boundary, nc. destruct i as [|i]; [tauto|].
  destruct (nth_error s (S i)) as [b|] eqn:E.
  - rewrite negb_true_iff. split.
    + intros H. right. right. eauto.
    + intros [H|[H|(b' & Hb & H)]]; [discriminate| |congruence].
      assert (S i < length s) by (apply nth_error_Some; congruence). lia.
  - rewrite Nat.eqb_eq. split; [tauto|].
    intros [H|[H|(b' & Hb & H)]]; [discriminate|auto|discriminate].
Qed.

Lemma Valid_nc_0 s : Valid s -> nc s 0.
Proof.
  intros [|c r Hc Hr]; [left; reflexivity|]. destruct c as [|b0 tl]; [destruct Hc|].
  right. exists b0. split; [reflexivity|apply Hc].
Qed.

Lemma Valid_char_boundary_nc s i : Valid s -> (char_boundary s i = true <-> nc s i).
Proof.
  intros Hv. rewrite char_boundary_nc. split; [|tauto].
  intros [->|H]; [now apply Valid_nc_0|exact H].
Qed.

Lemma nc_app c r i : nc (c ++ r) (length c + i) <-> nc r i.
Proof.
  unfold nc. rewrite app_length, nth_error_app2 by lia.
  replace (length c + i - length c) with i by lia. split; (intros [H|H]; [left; lia|right; exact H]).
Qed.

Lemma nc_skipn k s i : k <= length s -> nc (skipn k s) i -> nc s (k + i).
Proof.
  unfold nc. rewrite skipn_length, nth_error_skipn. intros Hk [H|H]; [left; lia|right; exact H].
Qed.

Lemma firstn_app_exact {A} (c r : list A) : firstn (length c) (c ++ r) = c.
Proof. induction c as [|x c IH]; cbn; [now destruct r|now rewrite IH]. Qed.

Lemma skipn_app_exact {A} (c r : list A) i : skipn (length c + i) (c ++ r) = skipn i r.
Proof. induction c as [|x c IH]; cbn; auto. Qed.

Lemma good_char_inner c r k :
  good_char c -> 0 < k < length c -> ~ nc (c ++ r) k.
Proof.
  destruct c as [|b0 tl]; [intros []|]. intros (_ & _ & Hf) Hk [H|(b & Hb & Hn)].
  - rewrite app_length in H. lia.
  - destruct k as [|k]; [lia|]. cbn [app nth_error length] in *.
    rewrite nth_error_app1 in Hb by lia. apply nth_error_In in Hb.
    rewrite Forall_forall in Hf. apply Hf in Hb. congruence.
Qed.

(* B1: the position after an ASCII byte is a boundary. *)
Lemma Valid_after_ascii s : Valid s -> forall i b,
  nth_error s i = Some b -> (b < 128)%N -> nc s (S i).
Proof.
  induction 1 as [|c r Hc Hr IH]; intros i b Hi Hb; [now destruct i|].
  destruct (Nat.lt_ge_cases i (length c)) as [Hlt|Hge].
  - destruct c as [|b0 tl]; [destruct Hc|]. destruct Hc as (_ & Hlen & Hf).
    destruct i as [|i].
    + cbn in Hi. inversion Hi; subst b0.
      assert (L : length (b :: tl) = 1).
      { rewrite Hlen. unfold utf8_len. destruct (b <? 192)%N eqn:?; [reflexivity|lia]. }
      change 1 with (1 + 0) at 1. rewrite <- L at 1. apply nc_app. now apply Valid_nc_0.
    + cbn [app nth_error length] in *. rewrite nth_error_app1 in Hi by lia.
      apply nth_error_In in Hi. rewrite Forall_forall in Hf. apply Hf in Hi.
      unfold is_cont in Hi. lia.
  - rewrite nth_error_app2 in Hi by lia. specialize (IH _ _ Hi Hb).
    replace (S i) with (length c + S (i - length c)) by lia. now apply nc_app.
Qed.

(* B2: a valid string cut at a boundary is valid. *)
Lemma Valid_skipn s : Valid s -> forall k, nc s k -> Valid (skipn k s).
Proof.
  induction 1 as [|c r Hc Hr IH]; intros k Hk; [rewrite skipn_nil; constructor|].
  destruct k as [|k]; [now constructor|].
  destruct (Nat.lt_ge_cases (S k) (length c)) as [Hlt|Hge].
  - exfalso. eapply good_char_inner; eauto. lia.
  - replace (S k) with (length c + (S k - length c)) in * by lia.
    rewrite skipn_app_exact. apply IH. now apply nc_app in Hk.
Qed.

(* B3: every prefix of the character list ends at a boundary. *)
Lemma Valid_chars_prefix s : Valid s -> forall fuel cs1 cs2,
  utf8_chars_fuel fuel s = cs1 ++ cs2 -> nc s (length (concat cs1)).
Proof.
  induction 1 as [|c r Hc Hr IH]; intros fuel cs1 cs2 H.
  - destruct fuel; cbn in H; destruct cs1; try discriminate; left; reflexivity.
  - destruct cs1 as [|c1 cs1]; [apply Valid_nc_0; now constructor|].
    destruct fuel as [|fuel]; [discriminate|].
    destruct c as [|b0 tl] eqn:Ec; [destruct Hc|]. rewrite <- Ec in *.
    assert (Hlen : utf8_len b0 = length c) by (subst c; symmetry; apply Hc).
    cbn [utf8_chars_fuel] in H.
    assert (Hh : exists x, c ++ r = b0 :: x) by (subst c; cbn; eauto). destruct Hh as [x Hx].
    rewrite Hx in H. rewrite <- Hx in H. clear x Hx.
    rewrite Hlen, firstn_app_exact in H.
    replace (length c) with (length c + 0) in H by lia. rewrite skipn_app_exact in H.
    cbn [skipn app] in H. inversion H; subst c1.
    cbn [concat]. rewrite app_length. apply nc_app. eapply IH; eauto.
Qed.

Section Boundaries.
Variable line : bytes.
Hypothesis Hvalid : Valid line.

Lemma nc_le i : nc line i -> i <= length line.
Proof.
  intros [->|(b & Hb & _)]; [lia|].
  assert (i < length line) by (apply nth_error_Some; congruence). lia.
Qed.

Lemma nc_skip_blanks lo : nc line lo -> nc line (lo + leading_ws (skipn lo line)).
Proof.
  intros Hlo. destruct (leading_ws (skipn lo line)) as [|w] eqn:Ew; [now rewrite Nat.add_0_r|].
  destruct (leading_ws_blank (skipn lo line) w) as (c & Hc & Hb); [lia|].
  rewrite nth_error_skipn in Hc. apply blank_ascii in Hb.
  replace (lo + S w) with (S (lo + w)) by lia. eapply Valid_after_ascii; eauto.
Qed.

Lemma nc_ends_nb a n : ends_nb (skipn a line) n -> nc line (a + n).
Proof.
  intros (m & c & -> & Hc & _ & Hlt). rewrite nth_error_skipn in Hc.
  replace (a + S m) with (S (a + m)) by lia. eapply Valid_after_ascii; eauto.
Qed.

Lemma nc_tok_spec t a b :
  a < b -> b <= length line -> tok_spec (skipn a line) t (b - a) -> nc line b.
Proof.
  intros Hab Hb (Hn & Hplain & Hrem & Hdata).
  destruct (is_rem t) eqn:Er; [|destruct (is_data t) eqn:Ed].
  - specialize (Hrem eq_refl). rewrite skipn_length in Hrem. left. lia.
  - destruct (Hdata eq_refl) as (k & cs1 & cs2 & Hk & Hcs & Hnk).
    pose proof (ends_nb_bounds _ _ Hk) as Hkb. rewrite skipn_length in Hkb.
    pose proof (nc_ends_nb _ _ Hk) as Hak.
    rewrite skipn_skipn' in Hcs.
    pose proof (Valid_skipn _ Hvalid _ Hak) as Hv.
    pose proof (Valid_chars_prefix _ Hv _ _ _ Hcs) as Hp.
    apply nc_skipn in Hp; [|lia].
    replace b with (a + k + length (concat cs1)) by lia. exact Hp.
  - replace b with (a + (b - a)) by lia. apply nc_ends_nb. auto.
Qed.

Lemma chain_boundaries E : forall ts lo,
  nc line lo -> chain line E lo ts ->
  (forall t a b, In (t, (a, b)) ts -> nc line a /\ nc line b)
  /\ exists lo', E lo' /\ nc line lo'.
Proof.
  induction ts as [|[t0 [a0 b0]] ts IH]; intros lo Hlo; cbn [chain].
  - intros H. split; [intros ? ? ? []|eauto].
  - intros (Ha & Hab & Hb & Hs & Hc).
    assert (Na : nc line a0) by (rewrite Ha; now apply nc_skip_blanks).
    assert (Nb : nc line b0) by (eapply nc_tok_spec; eauto).
    destruct (IH _ Nb Hc) as [Hin Hend]. split; [|exact Hend].
    intros t a b [Eq|HIn]; [inversion Eq; subst; auto|eauto].
Qed.

End Boundaries.

Theorem tokenize_char_boundaries : forall line skip ts,
  valid_utf8 line = true -> char_boundary line skip = true ->
  skip <= length line -> tokenize line skip = TokOk ts ->
  forall t a b, In (t, (a, b)) ts ->
  char_boundary line a = true /\ char_boundary line b = true.
Proof.
  intros line skip ts Hv Hb Hs H t a b HIn. apply valid_utf8_Valid in Hv.
  pose proof (tokenize_chain line skip Hs) as Hc. rewrite H in Hc.
  apply (Valid_char_boundary_nc _ _ Hv) in Hb.
  destruct (chain_boundaries line Hv _ _ _ Hb Hc) as [Hin _].
  destruct (Hin _ _ _ HIn). split; now apply Valid_char_boundary_nc.
Qed.

(* For a failed tokenization, the error position is a boundary as well. *)
Theorem tokenize_char_boundaries_err : forall line skip ts e,
  valid_utf8 line = true -> char_boundary line skip = true ->
  skip <= length line -> tokenize line skip = TokErr ts e ->
  (forall t a b, In (t, (a, b)) ts ->
     char_boundary line a = true /\ char_boundary line b = true)
  /\ char_boundary line (fst (error_range e (length line))) = true.
Proof.
  intros line skip ts e Hv Hb Hs H. apply valid_utf8_Valid in Hv.
  pose proof (tokenize_chain line skip Hs) as Hc. rewrite H in Hc.
  apply (Valid_char_boundary_nc _ _ Hv) in Hb.
  destruct (chain_boundaries line Hv _ _ _ Hb Hc) as [Hin (lo' & [_ He] & Hlo')].
  split.
  - intros t a b HIn. destruct (Hin _ _ _ HIn). split; now apply Valid_char_boundary_nc.
  - apply Valid_char_boundary_nc; [exact Hv|]. apply (nc_skip_blanks line Hv) in Hlo'.
    destruct He as [->|[->|[n [Hn ->]]]]; exact Hlo'.
Qed.

(* ------------------------------------------------------------------ *)
Print Assumptions tokenize_ranges_ok.
Print Assumptions tokenize_err_ranges_ok.
Print Assumptions tokenize_err_end.
Print Assumptions tokenize_first_nonblank.
Print Assumptions tokenize_first_nonblank_err.
Print Assumptions tokenize_last_nonblank.
Print Assumptions tokenize_last_nonblank_err.
Print Assumptions tokenize_remark_end.
Print Assumptions tokenize_remark_end_err.
Print Assumptions tokenize_from_fuel.
Print Assumptions tokenize_char_boundaries.
Print Assumptions tokenize_char_boundaries_err.
