(* Proofs/ProgSound.v — C06, whole programs: if the checker accepts every line
   of a program, no run of it fails with a syntax error, a type mismatch or a
   jump to an undefined line.

   Scope of the theorem: programs whose lines contain no ELSE, INPUT or DEF
   token ([clean_tok]); IF..THEN nested to any depth, GOTO, GOSUB / RETURN,
   FOR / NEXT, END, STOP and every straight-line statement are covered.

   The invariant of a run ([Inv]): the interpreter is on the program, holds no
   user function, satisfies the name-suffix typing invariant, and its cursor,
   every return address on the GOSUB stack and every FOR loop's start are
   ACCEPTED positions — positions from which the checker's walk over the rest
   of the line succeeds ([AccAt]).  One turn of the interpreter from such a
   state is compared with the checker's walk from the accepted position: the
   statement-level lock step of Proofs/CheckSound.v for the straight-line
   statements, new cases here for IF and the transfers. *)
From Coq Require Import List NArith ZArith Bool Lia.
From Abasic Require Import Model.Bytes Model.Num Model.Token Model.Data Model.Lexer Gen.Tables
     Model.State Model.Eval Model.Interp Model.Analyzer Proofs.Monad Proofs.Frames Proofs.StoreProofs
     Proofs.Safety Proofs.Caps Proofs.ImmFrame Proofs.AnalyzerFrame Proofs.CheckSound Proofs.AnalyzerFns
     Proofs.AnalyzerSafety Proofs.AnalyzerTermination.
Import ListNotations.
Local Open Scope nat_scope.

(* ------------------------------------------------------------------ *)
(* 1. what expressions and straight-line statements leave alone: with no user
      function, the GOSUB stack, the FOR stack and the function table *)

Definition KS (s s' : interp) : Prop :=
  functions s = [] -> functions s' = [] /\ stack s' = stack s /\ loops s' = loops s.

Lemma KS_preorder : preorder KS.
Proof.
  split; [intros s H; repeat split; assumption|].
  intros a b c H1 H2 Ha. destruct (H1 Ha) as (Hb & E1 & E2). destruct (H2 Hb) as (Hc & E3 & E4).
  repeat split; congruence.
Qed.

Lemma KS_same s s' : functions s' = functions s -> stack s' = stack s -> loops s' = loops s -> KS s s'.
Proof. intros H1 H2 H3 H. repeat split; congruence. Qed.

Ltac ksleaf :=
  idtac;
  lazymatch goal with
  | |- mrel _ (modify _) =>
      apply (mrel_modify KS); intros s; apply KS_same; destruct s as [? ? ? [? ?] ? ? ? ? ? ? ? ? ? ? ? ? ? ? ?];
      cbn; repeat match goal with |- context [match ?x with _ => _ end] => destruct x end; reflexivity
  | |- mrel _ (tokens_for_line ?l) =>
      let s := fresh "s" in
      intros s; unfold tokens_for_line; destruct l; [destruct (toks_get _ (st_toks s))|]; apply (po_refl _ KS_preorder)
  end.

Ltac ksstep leaf :=
  cbv zeta;
  lazymatch goal with
  | |- mrel _ (ret _) => apply (mrel_ret _ KS_preorder)
  | |- mrel _ (fail _) => apply (mrel_fail _ KS_preorder)
  | |- mrel _ (fail_at _ _) => apply (mrel_fail_at _ KS_preorder)
  | |- mrel _ (panic _) => apply (mrel_panic _ KS_preorder)
  | |- mrel _ out_of_fuel => apply (mrel_out_of_fuel _ KS_preorder)
  | |- mrel _ oracle_miss => apply (mrel_oracle_miss _ KS_preorder)
  | |- mrel _ (get _) => apply (mrel_get _ KS_preorder)
  | |- mrel _ (lift_res _) => apply (mrel_lift_res _ KS_preorder)
  | |- mrel _ (bind _ _) => apply (mrel_bind _ KS_preorder); [| intro]
  | |- mrel _ (repeat_m _ _ _) => apply (mrel_repeat _ KS_preorder); intro
  | |- mrel _ (match ?x with _ => _ end) => destruct x
  | |- mrel _ (if ?b then _ else _) => destruct b
  | |- mrel _ (let '(_, _) := ?x in _) => destruct x
  | |- mrel _ _ => solve [leaf]
  end.
Ltac kswalk leaf := repeat (ksstep leaf).
Ltac ks0 := autounfold with prims; kswalk ksleaf.

Lemma KS_peek : mrel KS peek_next_token. Proof. ks0. Qed.
Lemma KS_has_next : mrel KS has_next_token. Proof. ks0. Qed.
Lemma KS_next_token : mrel KS next_token. Proof. ks0. Qed.
Lemma KS_next_unwrapped : mrel KS next_unwrapped_token. Proof. ks0. Qed.
Lemma KS_expect t : mrel KS (expect_next_token t). Proof. ks0. Qed.
Lemma KS_accept t : mrel KS (accept_next_token t). Proof. ks0. Qed.
Lemma KS_peek_is t : mrel KS (peek_is t). Proof. ks0. Qed.
Lemma KS_try {B} (g : token -> option B) : mrel KS (try_next_token g). Proof. ks0. Qed.
Lemma KS_discard : mrel KS discard_remaining_tokens. Proof. ks0. Qed.
Lemma KS_push_output o : mrel KS (push_output o). Proof. ks0. Qed.
Lemma KS_warn m : mrel KS (warn m). Proof. ks0. Qed.
Lemma KS_maybe_warn n : mrel KS (maybe_warn_undeclared_array n). Proof. ks0. Qed.
Lemma KS_find_var n : mrel KS (find_variable_value_in_stack n). Proof. ks0. Qed.
Lemma KS_variables_get n : mrel KS (variables_get n). Proof. ks0. Qed.
Lemma KS_variables_set n v : mrel KS (variables_set n v). Proof. ks0. Qed.
Lemma KS_rng_rnd x : mrel KS (rng_rnd x). Proof. ks0. Qed.
Lemma KS_arrays_get n i : mrel KS (arrays_get n i). Proof. ks0. Qed.
Lemma KS_arrays_set n i v : mrel KS (arrays_set n i v). Proof. ks0. Qed.
Lemma KS_arrays_create n i : mrel KS (arrays_create n i). Proof. ks0. Qed.
Lemma KS_reset_data : mrel KS reset_data_cursor. Proof. ks0. Qed.
Lemma KS_get_line_number : mrel KS get_line_number. Proof. ks0. Qed.
Lemma KS_is_else : mrel KS is_else_of_then_clause. Proof. ks0. Qed.
Lemma KS_expect_number v : mrel KS (expect_number v). Proof. unfold expect_number; ks0. Qed.
Lemma KS_eval_unary o v : mrel KS (eval_unary o v). Proof. unfold eval_unary; ks0. Qed.
Lemma KS_eval_addsub o a b : mrel KS (eval_addsub o a b). Proof. unfold eval_addsub; ks0. Qed.
Lemma KS_eval_muldiv o a b : mrel KS (eval_muldiv o a b). Proof. unfold eval_muldiv; ks0. Qed.
Lemma KS_eval_eq o a b : mrel KS (eval_eq o a b). Proof. unfold eval_eq; ks0. Qed.
Lemma KS_eval_and a b : mrel KS (eval_and a b). Proof. unfold eval_and; ks0. Qed.
Lemma KS_eval_or a b : mrel KS (eval_or a b). Proof. unfold eval_or; ks0. Qed.
Lemma KS_eval_pow a b : mrel KS (eval_pow a b). Proof. unfold eval_pow; ks0. Qed.

Lemma KS_next_data : mrel KS next_data_element.
Proof.
  intros s. unfold next_data_element.
  destruct (data_it s) as [d|].
  - destruct (data_next _ d). cbn [snd]. apply KS_same; destruct s; reflexivity.
  - destruct (data_chunks (st_keys s) (st_toks s)); try (apply (po_refl _ KS_preorder)).
    destruct (data_next _ _). cbn [snd]. apply KS_same; destruct s; reflexivity.
Qed.

Ltac ksleaf2 :=
  idtac;
  lazymatch goal with
  | |- mrel _ peek_next_token => apply KS_peek
  | |- mrel _ has_next_token => apply KS_has_next
  | |- mrel _ next_token => apply KS_next_token
  | |- mrel _ next_unwrapped_token => apply KS_next_unwrapped
  | |- mrel _ (expect_next_token _) => apply KS_expect
  | |- mrel _ (accept_next_token _) => apply KS_accept
  | |- mrel _ (peek_is _) => apply KS_peek_is
  | |- mrel _ (try_next_token _) => apply KS_try
  | |- mrel _ discard_remaining_tokens => apply KS_discard
  | |- mrel _ (push_output _) => apply KS_push_output
  | |- mrel _ (warn _) => apply KS_warn
  | |- mrel _ (maybe_warn_undeclared_array _) => apply KS_maybe_warn
  | |- mrel _ (find_variable_value_in_stack _) => apply KS_find_var
  | |- mrel _ (variables_get _) => apply KS_variables_get
  | |- mrel _ (variables_set _ _) => apply KS_variables_set
  | |- mrel _ (rng_rnd _) => apply KS_rng_rnd
  | |- mrel _ (arrays_get _ _) => apply KS_arrays_get
  | |- mrel _ (arrays_set _ _ _) => apply KS_arrays_set
  | |- mrel _ (arrays_create _ _) => apply KS_arrays_create
  | |- mrel _ reset_data_cursor => apply KS_reset_data
  | |- mrel _ get_line_number => apply KS_get_line_number
  | |- mrel _ is_else_of_then_clause => apply KS_is_else
  | |- mrel _ next_data_element => apply KS_next_data
  | |- mrel _ (expect_number _) => apply KS_expect_number
  | |- mrel _ (eval_unary _ _) => apply KS_eval_unary
  | |- mrel _ (eval_addsub _ _ _) => apply KS_eval_addsub
  | |- mrel _ (eval_muldiv _ _ _) => apply KS_eval_muldiv
  | |- mrel _ (eval_eq _ _ _) => apply KS_eval_eq
  | |- mrel _ (eval_and _ _) => apply KS_eval_and
  | |- mrel _ (eval_or _ _) => apply KS_eval_or
  | |- mrel _ (eval_pow _ _) => apply KS_eval_pow
  | |- mrel _ (accept_as _ _) => unfold accept_as; kswalk ksleaf2
  | |- mrel _ (tokens_for_line _) => ksleaf
  | |- mrel _ (modify _) => ksleaf
  end.

Section KSExpr.
  Variable fuel : nat.
  Variable rec : M value.
  Hypothesis Hrec : mrel KS rec.

  Ltac leafE := idtac; lazymatch goal with |- mrel _ rec => exact Hrec | _ => ksleaf2 end.

  Lemma KS_unary_arg : mrel KS (unary_number_function_arg rec).
  Proof. unfold unary_number_function_arg. kswalk leafE. Qed.

  Lemma KS_array_index : mrel KS (evaluate_array_index fuel rec).
  Proof. unfold evaluate_array_index. kswalk leafE. Qed.

  Lemma KS_function_call name : mrel KS (function_call rec name).
  Proof.
    unfold function_call.
    destruct (bytes_eqb name (bs "ABS")); [kswalk ltac:(idtac; lazymatch goal with |- mrel _ (unary_number_function_arg _) => apply KS_unary_arg | _ => leafE end)|].
    destruct (bytes_eqb name (bs "INT")); [kswalk ltac:(idtac; lazymatch goal with |- mrel _ (unary_number_function_arg _) => apply KS_unary_arg | _ => leafE end)|].
    destruct (bytes_eqb name (bs "RND")); [kswalk ltac:(idtac; lazymatch goal with |- mrel _ (unary_number_function_arg _) => apply KS_unary_arg | _ => leafE end)|].
    intros s Hfn. unfold user_function_call. rewrite bind_get, Hfn. cbn. repeat split; assumption.
  Qed.

  Ltac leafE2 :=
    idtac;
    lazymatch goal with
    | |- mrel _ (function_call _ _) => apply KS_function_call
    | |- mrel _ (evaluate_array_index _ _) => apply KS_array_index
    | _ => leafE
    end.

  Lemma KS_unary : mrel KS (unary_operator fuel rec).
  Proof. unfold unary_operator, parenthesized_expression, expression_term. kswalk leafE2. Qed.

  Lemma KS_tier {O} (g : M (option O)) (operand : M value) (ap : O -> value -> value -> M value) :
    mrel KS g -> mrel KS operand -> (forall o a b, mrel KS (ap o a b)) -> mrel KS (tier fuel g operand ap).
  Proof. intros Hg Ho Ha. unfold tier. kswalk ltac:(first [exact Hg | exact Ho | apply Ha]). Qed.

  Lemma KS_logical_or : mrel KS (logical_or_expression fuel rec).
  Proof.
    unfold logical_or_expression, logical_and_expression, equality_expression,
      plus_or_minus_expression, multiply_or_divide_expression, exponent_expression.
    repeat (apply KS_tier; [ksleaf2 | | intros; ksleaf2]).
    apply KS_unary.
  Qed.
End KSExpr.

Lemma KS_evaluate_expression fuel : forall n, mrel KS (evaluate_expression fuel n).
Proof.
  induction fuel as [|k IH]; intros n; cbn [evaluate_expression].
  - apply (mrel_out_of_fuel _ KS_preorder).
  - destruct (Nat.eqb n max_nesting); [apply (mrel_fail _ KS_preorder)|].
    apply KS_logical_or; apply IH.
Qed.

Section KSStmt.
  Variable fuel nest : nat.

  Ltac leafS :=
    idtac;
    lazymatch goal with
    | |- mrel _ (expr _ _) => apply KS_evaluate_expression
    | |- mrel _ (evaluate_expression _ _) => apply KS_evaluate_expression
    | |- mrel _ (evaluate_array_index _ _) => apply KS_array_index; apply KS_evaluate_expression
    | _ => ksleaf2
    end.

  Lemma KS_optional_index : mrel KS (parse_optional_array_index fuel nest).
  Proof. unfold parse_optional_array_index. kswalk leafS. Qed.

  Lemma KS_parse_lvalue : mrel KS (parse_lvalue fuel nest).
  Proof.
    unfold parse_lvalue.
    kswalk ltac:(idtac; lazymatch goal with |- mrel _ (parse_optional_array_index _ _) => apply KS_optional_index | _ => leafS end).
  Qed.

  Lemma KS_assign lv v : mrel KS (assign_value lv v).
  Proof. unfold assign_value. kswalk leafS. Qed.

  Ltac leafS2 :=
    idtac;
    lazymatch goal with
    | |- mrel _ (parse_optional_array_index _ _) => apply KS_optional_index
    | |- mrel _ (parse_lvalue _ _) => apply KS_parse_lvalue
    | |- mrel _ (assign_value _ _) => apply KS_assign
    | _ => leafS
    end.

  Lemma KS_assignment sym : mrel KS (evaluate_assignment_statement fuel nest sym).
  Proof. unfold evaluate_assignment_statement. kswalk leafS2. Qed.

  Lemma KS_let : mrel KS (evaluate_let_statement fuel nest).
  Proof.
    unfold evaluate_let_statement.
    kswalk ltac:(idtac; lazymatch goal with |- mrel _ (evaluate_assignment_statement _ _ _) => apply KS_assignment | _ => leafS2 end).
  Qed.

  Lemma KS_print : mrel KS (evaluate_print_statement fuel nest).
  Proof. unfold evaluate_print_statement. kswalk leafS2. Qed.

  Lemma KS_dim : mrel KS (evaluate_dim_statement fuel nest).
  Proof. unfold evaluate_dim_statement. kswalk leafS2. Qed.

  Lemma KS_read : mrel KS (evaluate_read_statement fuel nest).
  Proof. unfold evaluate_read_statement. kswalk leafS2. Qed.
End KSStmt.

(* ------------------------------------------------------------------ *)
(* 2. the program, accepted positions, the invariant *)

Definition cur_line (s : interp) : list token :=
  match loc_line (loc s) with
  | None => immediate s
  | Some n => match toks_get n (st_toks s) with Some ts => ts | None => [] end
  end.

Definition bumped (s : interp) : interp := set_reads (S (reads s)) s.

(* a peek: panics when the cursor's line is missing, otherwise answers the token under the cursor *)
Lemma bind_assoc_t {A B C} (m : M A) (f : A -> M B) (g : B -> M C) s :
  bind (bind m f) g s = bind m (fun a => bind (f a) g) s.
Proof. unfold bind; destruct (m s) as [[a| | | |] s1]; reflexivity. Qed.

Definition line_there (s : interp) : Prop := forall n, loc_line (loc s) = Some n -> toks_get n (st_toks s) <> None.

Lemma peek_cases s :
  (exists p, peek_next_token s = (Panic p, bumped s))
  \/ (peek_next_token s = (Ok (nth_error (cur_line s) (loc_idx (loc s))), bumped s) /\ line_there s).
Proof.
  unfold peek_next_token, cur_tokens, tokens_for_line, cur_line, line_there, bind, get, modify, ret, bumped. cbn.
  destruct (loc_line (loc s)) as [n|]; [|right; split; [reflexivity | discriminate]].
  destruct (toks_get n (st_toks s)) eqn:E; [right; split; [reflexivity|] | left; eexists; reflexivity].
  intros n' H. injection H as <-. congruence.
Qed.

Section Prog.
  Variable fa : nat.                          (* the checker's fuel *)
  Variable ptoks : list (N * list token).     (* the stored program *)
  Variable pkeys : list N.
  Hypothesis Hclean : forall n ts, toks_get n ptoks = Some ts -> clean_line ts = true.

  Definition onprog (s : interp) : Prop := st_toks s = ptoks /\ st_keys s = pkeys /\ immediate s = [].

  Lemma clean_at s i t : onprog s -> nth_error (cur_line s) i = Some t -> clean_tok t = true.
  Proof.
    intros (H1 & _ & H3) Hn. unfold cur_line in Hn. rewrite H1, H3 in Hn.
    destruct (loc_line (loc s)) as [n|]; [|destruct i; discriminate].
    destruct (toks_get n ptoks) as [ts|] eqn:E; [|destruct i; discriminate].
    pose proof (Hclean n ts E) as Hc. unfold clean_line in Hc. rewrite forallb_forall in Hc.
    apply Hc. eapply nth_error_In; eassumption.
  Qed.

  (* the checker's walk over the rest of a line succeeds *)
  Definition Accepts (st : astate) : Prop := exists stmts m st', walk_line fa stmts m st = (Ok None, st').
  Definition eq_but_reads (a b : interp) : Prop := set_reads 0 a = set_reads 0 b.
  Definition AccAt (l : location) : Prop :=
    exists sa acc, onprog sa /\ functions sa = [] /\ loc sa = l /\ Accepts (sa, acc).
  Definition AccFrom (sa : interp) : Prop := exists sa' acc', eq_but_reads sa sa' /\ Accepts (sa', acc').

  Lemma ebr_refl a : eq_but_reads a a. Proof. reflexivity. Qed.
  Lemma ebr_trans a b c : eq_but_reads a b -> eq_but_reads b c -> eq_but_reads a c.
  Proof. unfold eq_but_reads; congruence. Qed.
  Lemma ebr_bumped a : eq_but_reads a (bumped a). Proof. destruct a; reflexivity. Qed.
  Lemma ebr_sym a b : eq_but_reads a b -> eq_but_reads b a. Proof. unfold eq_but_reads; congruence. Qed.
  Lemma ebr_fields a b : eq_but_reads a b ->
    st_toks a = st_toks b /\ st_keys a = st_keys b /\ immediate a = immediate b /\ loc a = loc b /\ functions a = functions b.
  Proof.
    intros H. unfold eq_but_reads in H.
    repeat split; [exact (f_equal st_toks H) | exact (f_equal st_keys H) | exact (f_equal immediate H)
                  | exact (f_equal loc H) | exact (f_equal functions H)].
  Qed.

  Lemma AccFrom_ebr a b : eq_but_reads a b -> AccFrom b -> AccFrom a.
  Proof. intros H (c & acc & H1 & H2). exists c, acc. split; [eapply ebr_trans; eassumption | exact H2]. Qed.

  Definition FramesOK (s : interp) : Prop :=
    Forall (fun fr => AccAt (fr_ret fr)) (stack s) /\ Forall (fun lp => AccAt (lp_loc lp)) (loops s).

  Definition Good (s : interp) : Prop := onprog s /\ caps_inv s /\ functions s = [] /\ FramesOK s.

  (* the two cursors are together at an accepted position: the interpreter's is accepted *)
  Lemma AccAt_of_together s sa : R s sa -> onprog s -> AccFrom sa -> AccAt (loc s).
  Proof.
    intros ((C1 & C2 & C3 & C4) & _ & _ & Hfa) (O1 & O2 & O3) (sb & acc & He & Hacc).
    destruct (ebr_fields _ _ He) as (E1 & E2 & E3 & E4 & E5).
    exists sb, acc. split; [repeat split; congruence|]. split; [congruence|]. split; [congruence | exact Hacc].
  Qed.

  (* what a statement must establish *)
  Definition tsound (m : M unit) (a : MA unit) : Prop :=
    forall s sa acc sa' acc', R s sa -> onprog s -> FramesOK s ->
      a (sa, acc) = (Ok tt, (sa', acc')) -> AccFrom sa' ->
      match m s with
      | (Ok _, s') => functions s' = [] /\ FramesOK s' /\ AccAt (loc s')
      | (Err e _, _) => benign e
      | _ => True
      end.

  Lemma onprog_step {A} (m : M A) s :
    mrel (keeps st_toks) m -> mrel (keeps st_keys) m -> mrel IM m -> onprog s -> onprog (snd (m s)).
  Proof.
    intros Ht Hkk Hi (O1 & O2 & O3). pose proof (Ht s) as T. pose proof (Hkk s) as T2. pose proof (Hi s) as I1.
    unfold keeps, IM in *. rewrite O3 in I1.
    repeat split; try congruence. destruct (immediate (snd (m s))); [reflexivity | cbn in I1; lia].
  Qed.

  (* a statement that keeps the two cursors together and the frames alone *)
  Lemma tsound_of_sound m a :
    sound (fun _ _ => True) m a -> mrel KS m -> mrel (keeps st_toks) m -> mrel (keeps st_keys) m -> mrel IM m ->
    tsound m a.
  Proof.
    intros Hs Hk Ht Hkk Hi s sa acc sa' acc' HR Hon Hfr Ea Hacc.
    specialize (Hs s sa acc HR). rewrite Ea in Hs.
    pose proof (Hk s) as K. pose proof (Ht s) as T. pose proof (Hkk s) as T2. pose proof (Hi s) as I1.
    destruct (m s) as [[u|e l|p| |] s']; cbn [snd] in *; try exact Hs; try exact I.
    destruct Hs as [_ HR']. destruct (K (proj1 (proj2 (proj2 HR)))) as (F1 & F2 & F3).
    assert (Hon' : onprog s').
    { destruct Hon as (O1 & O2 & O3). unfold keeps in T, T2. unfold IM in I1. rewrite O3 in I1.
      repeat split; try congruence. destruct (immediate s'); [reflexivity | cbn in I1; lia]. }
    split; [exact F1|]. split; [unfold FramesOK; rewrite F2, F3; exact Hfr|].
    eapply AccAt_of_together; eassumption.
  Qed.

  (* every stored line is accepted from its first token *)
  Hypothesis G : forall n, toks_get n ptoks <> None -> AccAt (mkloc (Some n) 0).

  (* the shared step: both read the next token *)
  Lemma next_token_both s sa acc : R s sa -> onprog s -> FramesOK s ->
    fst (next_token s) = fst (next_token sa)
    /\ lift next_token (sa, acc) = (fst (next_token sa), (snd (next_token sa), acc))
    /\ R (snd (next_token s)) (snd (next_token sa)) /\ onprog (snd (next_token s)) /\ FramesOK (snd (next_token s)).
  Proof.
    intros HR Hon Hfr. destruct (cp_next_token s sa (proj1 HR)) as (E & HC & K1 & K2).
    split; [exact E|]. split; [unfold lift; cbn [fst snd]; destruct (next_token sa); reflexivity|].
    split; [eapply R_same_rt; eassumption|].
    pose proof (keeps_next_token st_toks rf_st_toks s) as T1. pose proof (keeps_next_token st_keys rf_st_keys s) as T2.
    pose proof (imm_next_token s) as I1. unfold keeps, IM in *.
    destruct Hon as (O1 & O2 & O3). rewrite O3 in I1.
    split.
    - repeat split; try congruence. destruct (immediate (snd (next_token s))); [reflexivity | cbn in I1; lia].
    - destruct K1 as (S1 & S2 & _). unfold FramesOK. rewrite S1, S2. exact Hfr.
  Qed.

  (* a position at the end of its line is accepted *)
  Lemma AccAt_end sa l : onprog sa -> functions sa = [] ->
    nth_error (cur_line (set_loc l sa)) (loc_idx l) = None ->
    (forall n, loc_line l = Some n -> toks_get n ptoks <> None) ->
    AccAt l.
  Proof.
    intros Hon Hfn Hnone Hline. exists (set_loc l sa), [].
    split; [destruct sa; exact Hon|]. split; [destruct sa; exact Hfn|]. split; [destruct sa; reflexivity|].
    exists 1, (mkmap [] []), (bumped (set_loc l sa), []). cbn [walk_line fst snd].
    unfold has_next_token. rewrite Safety.bind_run.
    destruct (peek_cases (set_loc l sa)) as [[p Hp] | Hp].
    - exfalso. unfold peek_next_token, cur_tokens, tokens_for_line, bind, get, modify, ret in Hp. cbn in Hp.
      destruct (loc_line l) as [n|] eqn:El; [|discriminate Hp].
      destruct Hon as (O1 & _). destruct sa; cbn in *. subst.
      destruct (toks_get n ptoks) eqn:Et; [discriminate Hp|]. exact (Hline n eq_refl Et).
    - destruct Hp as [Hp _]. rewrite Hp. replace (loc_idx (loc (set_loc l sa))) with (loc_idx l) by (destruct sa; reflexivity).
      rewrite Hnone. reflexivity.
  Qed.

  Lemma AccAt_imm0 sa : onprog sa -> functions sa = [] -> AccAt imm0.
  Proof.
    intros Hon Hfn. apply (AccAt_end sa imm0 Hon Hfn); [|discriminate].
    unfold cur_line. destruct Hon as (_ & _ & O3). destruct sa; cbn in *. subst. reflexivity.
  Qed.

  (* ---- GOTO and GOSUB ---- *)
  Lemma store_has_line s n : onprog s -> store_has n s = true -> toks_get n ptoks <> None.
  Proof. intros (O1 & _) H. unfold store_has in H. rewrite O1 in H. destruct (toks_get n ptoks); [discriminate | discriminate H]. Qed.

  Lemma goto_ok s n : store_has n s = true ->
    goto_line_number n s = (Ok tt, set_loc (mkloc (Some n) 0) (set_breakpoint None s)).
  Proof.
    intros H. unfold goto_line_number. rewrite bind_modify, bind_get.
    replace (store_has n (set_breakpoint None s)) with (store_has n s) by (destruct s; reflexivity).
    rewrite H. reflexivity.
  Qed.

  Lemma an_goto_inv sa acc sa' acc' : an_goto_or_gosub (sa, acc) = (Ok tt, (sa', acc')) ->
    exists x, next_token sa = (Ok (Some (TNumber x)), sa') /\ acc' = acc
              /\ store_has (Z.to_N (f64_to_u64_sat x)) sa' = true.
  Proof.
    unfold an_goto_or_gosub, abind, lift. cbn [fst snd].
    destruct (next_token sa) as [[t|e l|p| |] sa1]; try discriminate.
    destruct t as [t|]; [|discriminate]. destruct t; try discriminate.
    unfold get. cbn [fst snd]. destruct (store_has _ sa1) eqn:Eh; [|discriminate].
    unfold aret. intros E. injection E as <- <-. eexists. split; [reflexivity|]. split; [reflexivity | exact Eh].
  Qed.

  Lemma tsound_goto : tsound evaluate_goto_statement an_goto_or_gosub.
  Proof.
    intros s sa acc sa' acc' HR Hon Hfr Ea Hacc.
    destruct (an_goto_inv _ _ _ _ Ea) as (x & En & -> & Eh).
    destruct (next_token_both s sa acc HR Hon Hfr) as (E1 & _ & HR1 & Hon1 & Hfr1).
    rewrite En in *. cbn [fst snd] in *.
    unfold evaluate_goto_statement. rewrite Safety.bind_run.
    destruct (next_token s) as [r s1]. cbn [fst snd] in *. subst r.
    assert (Eh1 : store_has (Z.to_N (f64_to_u64_sat x)) s1 = true).
    { unfold store_has in *. destruct HR1 as ((C1 & _) & _). rewrite C1. exact Eh. }
    rewrite (goto_ok s1 _ Eh1).
    split; [destruct s1; apply HR1|]. split; [destruct s1; exact Hfr1|].
    apply G. exact (store_has_line _ _ Hon1 Eh1).
  Qed.

  Lemma tsound_gosub : tsound evaluate_gosub_statement an_goto_or_gosub.
  Proof.
    intros s sa acc sa' acc' HR Hon Hfr Ea Hacc.
    destruct (an_goto_inv _ _ _ _ Ea) as (x & En & -> & Eh).
    destruct (next_token_both s sa acc HR Hon Hfr) as (E1 & _ & HR1 & Hon1 & Hfr1).
    rewrite En in *. cbn [fst snd] in *.
    unfold evaluate_gosub_statement. rewrite Safety.bind_run.
    destruct (next_token s) as [r s1]. cbn [fst snd] in *. subst r.
    assert (Eh1 : store_has (Z.to_N (f64_to_u64_sat x)) s1 = true).
    { unfold store_has in *. destruct HR1 as ((C1 & _) & _). rewrite C1. exact Eh. }
    unfold gosub_line_number. rewrite bind_get.
    destruct (Nat.eqb (length (stack s1)) stack_limit); [exact I|].
    rewrite bind_get, Safety.bind_run, (goto_ok s1 _ Eh1). unfold modify.
    split; [destruct s1; apply HR1|]. split; [|apply G; exact (store_has_line _ _ Hon1 Eh1)].
    destruct Hfr1 as [F1 F2]. split; [|destruct s1; exact F2].
    replace (stack (set_stack _ _)) with (stack s1 ++ [mkframe (loc s1) []]) by (destruct s1; reflexivity).
    apply Forall_app. split; [exact F1|]. constructor; [|constructor]. cbn [fr_ret].
    eapply AccAt_of_together; eassumption.
  Qed.

  (* ---- RETURN, END, STOP: the checker has nothing to say ---- *)
  Lemma tsound_return : tsound return_to_last_gosub (aret tt).
  Proof.
    intros s sa acc sa' acc' HR Hon Hfr Ea Hacc.
    unfold return_to_last_gosub. rewrite bind_modify, bind_get.
    replace (stack (set_breakpoint None s)) with (stack s) by (destruct s; reflexivity).
    destruct (rev (stack s)) as [|fr rest] eqn:Er; [exact I|].
    unfold modify. destruct Hfr as [F1 F2].
    assert (Est : stack s = rev rest ++ [fr]).
    { rewrite <- (rev_involutive (stack s)), Er. reflexivity. }
    rewrite Est in F1. apply Forall_app in F1. destruct F1 as [F1a F1b].
    split; [destruct s; apply HR|]. split; [split; [destruct s; exact F1a | destruct s; exact F2]|].
    inversion F1b; subst. destruct s; assumption.
  Qed.

  Lemma tsound_end : tsound program_end (aret tt).
  Proof.
    intros s sa acc sa' acc' HR Hon Hfr Ea Hacc. injection Ea as <- <-.
    unfold program_end. rewrite set_imm_is_modify. unfold modify.
    assert (Hona : onprog sa).
    { destruct HR as ((C1 & C2 & C3 & C4) & _). destruct Hon as (O1 & O2 & O3). repeat split; congruence. }
    split; [unfold imm_reset; destruct (breakpoint s); destruct s; apply HR|].
    split; [|replace (loc (imm_reset [] s)) with imm0 by (unfold imm_reset; destruct (breakpoint s); destruct s; reflexivity);
             apply (AccAt_imm0 sa Hona); apply HR].
    destruct Hfr as [F1 F2]. unfold imm_reset.
    destruct (breakpoint s); (split; [destruct s; cbn; first [exact F1 | constructor] | destruct s; exact F2]).
  Qed.

  Lemma tsound_stop : tsound break_at_current_location (aret tt).
  Proof.
    intros s sa acc sa' acc' HR Hon Hfr Ea Hacc. injection Ea as <- <-.
    unfold break_at_current_location, get_line_number, push_output, program_break_at_current_location.
    rewrite bind_modify, Safety.bind_run, bind_get. unfold ret at 1. cbv iota beta.
    rewrite bind_modify, bind_get, bind_modify, set_imm_is_modify. unfold modify.
    assert (Hona : onprog sa).
    { destruct HR as ((C1 & C2 & C3 & C4) & _). destruct Hon as (O1 & O2 & O3). repeat split; congruence. }
    set (s2 := set_breakpoint _ _).
    assert (E2 : functions s2 = functions s /\ stack s2 = stack s /\ loops s2 = loops s) by (destruct s; repeat split).
    destruct E2 as (Ef & Es & El).
    split; [unfold imm_reset; destruct (breakpoint s2); destruct s2; cbn in *; rewrite Ef; apply HR|].
    split; [|replace (loc (imm_reset [] s2)) with imm0 by (unfold imm_reset; destruct (breakpoint s2); destruct s2; reflexivity);
             apply (AccAt_imm0 sa Hona); apply HR].
    destruct Hfr as [F1 F2]. rewrite <- Es in F1. rewrite <- El in F2. unfold imm_reset.
    destruct (breakpoint s2); (split; [destruct s2; cbn in *; first [exact F1 | constructor] | destruct s2; exact F2]).
  Qed.

  (* ---- NEXT ---- *)
  Lemma an_next_inv sa acc sa' acc' : an_next (sa, acc) = (Ok tt, (sa', acc')) ->
    exists sym, next_token sa = (Ok (Some (TSymbol sym)), sa') /\ type_of_name sym = TyNumber.
  Proof.
    unfold an_next, abind, lift. cbn [fst snd].
    destruct (next_token sa) as [[t|e l|p| |] sa1]; try discriminate.
    destruct t as [t|]; [|discriminate]. destruct t; try discriminate.
    unfold prev_loc, aget_loc, abind, lift, get, aret, log_access, check_number, check. cbn [fst snd].
    match goal with |- context [vtype_eqb (type_of_name ?n) _] =>
      destruct (vtype_eqb (type_of_name n) TyNumber) eqn:Ev; [|discriminate];
      unfold aret; intros E; injection E as <- _; exists n; split; [reflexivity|];
      destruct (type_of_name n); [discriminate | reflexivity]
    end.
  Qed.

  Lemma variables_get_kind sym s : caps_inv s ->
    variables_get sym s = (Ok (match alist_get sym (variables s) with Some v => v | None => default_value sym end), s)
    /\ kind (match alist_get sym (variables s) with Some v => v | None => default_value sym end) = type_of_name sym.
  Proof.
    intros (_ & _ & _ & K4 & _). split; [reflexivity|].
    destruct (alist_get sym (variables s)) as [v|] eqn:E; [|apply default_kind].
    apply kind_type_matches. apply (K4 sym v). apply alist_get_In. exact E.
  Qed.

  Lemma drop_loop_frames sym s : FramesOK s -> FramesOK (drop_loop sym s).
  Proof.
    intros [F1 F2]. unfold drop_loop. destruct (find_loop_rev sym (loops s)) as [i|]; [|split; assumption].
    split; [destruct s; exact F1|]. replace (loops (set_loops _ s)) with (firstn i (loops s)) by (destruct s; reflexivity).
    rewrite <- (firstn_skipn i (loops s)) in F2. apply Forall_app in F2. apply F2.
  Qed.

  Lemma tsound_next : tsound evaluate_next_statement an_next.
  Proof.
    intros s sa acc sa' acc' HR Hon Hfr Ea Hacc.
    destruct (an_next_inv _ _ _ _ Ea) as (sym & En & Hty).
    destruct (next_token_both s sa acc HR Hon Hfr) as (E1 & _ & HR1 & Hon1 & Hfr1).
    rewrite En in *. cbn [fst snd] in *.
    unfold evaluate_next_statement. rewrite Safety.bind_run.
    destruct (next_token s) as [r s1]. cbn [fst snd] in *. subst r.
    unfold end_loop. rewrite Safety.bind_run.
    destruct (variables_get_kind sym s1 (proj1 (proj2 HR1))) as [Ev Hk]. rewrite Ev.
    destruct (match alist_get sym (variables s1) with Some v => v | None => default_value sym end) as [b|x];
      [cbn in Hk; congruence|].
    rewrite Safety.bind_run, remove_loop_eq.
    pose proof (drop_loop_frames sym s1 Hfr1) as Hfd.
    destruct (drop_loop_fields sym s1) as (D1 & D2 & D3 & D4 & D5).
    set (s2 := drop_loop sym s1) in *.
    destruct (find_loop_rev sym (loops s1)) as [i|] eqn:Efl; [|exact I].
    destruct (nth_error (loops s1) i) as [li|] eqn:Eli; [|exact I].
    destruct (negb (bytes_eqb (lp_sym li) sym)); [exact I|]. cbv zeta.
    assert (Hli : AccAt (lp_loc li)).
    { destruct Hfr1 as [_ F2]. rewrite Forall_forall in F2. apply F2. eapply nth_error_In; eassumption. }
    assert (Htm : type_matches sym (VNum (f64_add x (lp_step li))) = true).
    { unfold type_matches, type_of_name in *. destruct (ends_with_dollar sym); [discriminate | reflexivity]. }
    assert (Hf2 : functions s2 = []).
    { unfold s2, drop_loop. destruct (find_loop_rev sym (loops s1)); destruct s1; apply HR1. }
    match goal with |- context [if ?c then modify _ else ret tt] => destruct c end.
    - rewrite bind_modify, variables_set_eq, Htm.
      split; [destruct s2; exact Hf2|]. split; [|destruct s2; exact Hli].
      destruct Hfd as [F1 F2]. split; [destruct s2; exact F1|].
      replace (loops (set_variables _ _)) with (loops s2 ++ [li]) by (destruct s2; reflexivity).
      apply Forall_app. split; [exact F2 | constructor; [exact Hli | constructor]].
    - rewrite Safety.bind_ret, variables_set_eq, Htm.
      split; [destruct s2; exact Hf2|]. split; [destruct Hfd; split; destruct s2; assumption|].
      replace (loc (set_variables _ s2)) with (loc s1) by (destruct s2; cbn in *; congruence).
      eapply AccAt_of_together; eassumption.
  Qed.

  (* ---- FOR: the loop it opens starts where the statement ends ---- *)
  Lemma bind_inv_KS {A B} (m : M A) (f : A -> M B) s y s' :
    mrel KS m -> functions s = [] -> bind m f s = (Ok y, s') ->
    exists x s1, functions s1 = [] /\ stack s1 = stack s /\ loops s1 = loops s /\ f x s1 = (Ok y, s').
  Proof.
    intros Hm Hfn E. rewrite Safety.bind_run in E. pose proof (Hm s Hfn) as K.
    destruct (m s) as [[x|e l|p| |] s1]; try discriminate E. cbn [snd] in K. destruct K as (K1 & K2 & K3).
    exists x, s1. repeat split; assumption.
  Qed.

  Lemma for_shape fi nest s s' : functions s = [] -> evaluate_for_statement fi nest s = (Ok tt, s') ->
    stack s' = stack s /\ forall lp, In lp (loops s') -> In lp (loops s) \/ lp_loc lp = loc s'.
  Proof.
    intros Hfn E. unfold evaluate_for_statement in E.
    apply bind_inv_KS in E; [|apply KS_next_token|exact Hfn]. destruct E as (t & s1 & F1 & S1 & L1 & E).
    destruct t as [t|]; [|discriminate E]. destruct t; try discriminate E.
    apply bind_inv_KS in E; [|apply KS_expect|exact F1]. destruct E as (u1 & s2 & F2 & S2 & L2 & E).
    apply bind_inv_KS in E; [|apply KS_evaluate_expression|exact F2]. destruct E as (v1 & s3 & F3 & S3 & L3 & E).
    apply bind_inv_KS in E; [|apply KS_expect_number|exact F3]. destruct E as (x1 & s4 & F4 & S4 & L4 & E).
    apply bind_inv_KS in E; [|apply KS_expect|exact F4]. destruct E as (u2 & s5 & F5 & S5 & L5 & E).
    apply bind_inv_KS in E; [|apply KS_evaluate_expression|exact F5]. destruct E as (v2 & s6 & F6 & S6 & L6 & E).
    apply bind_inv_KS in E; [|apply KS_expect_number|exact F6]. destruct E as (x2 & s7 & F7 & S7 & L7 & E).
    apply bind_inv_KS in E; [|apply KS_accept|exact F7]. destruct E as (st & s8 & F8 & S8 & L8 & E).
    apply bind_inv_KS in E; [| |exact F8].
    2:{ destruct st; [|apply (mrel_ret _ KS_preorder)].
        apply (mrel_bind _ KS_preorder); [apply KS_evaluate_expression | intro; apply KS_expect_number]. }
    destruct E as (x3 & s9 & F9 & S9 & L9 & E).
    rewrite start_loop_eq in E. cbv zeta in E.
    destruct (Nat.eqb (length (loops (drop_loop s0 s9))) stack_limit); [discriminate E|].
    rewrite variables_set_eq in E. destruct (type_matches s0 (VNum x1)); [|discriminate E].
    injection E as <-.
    destruct (drop_loop_fields s0 s9) as (_ & _ & _ & D4 & _).
    split.
    - transitivity (stack (drop_loop s0 s9)); [destruct (drop_loop s0 s9); reflexivity|].
      unfold drop_loop. destruct (find_loop_rev s0 (loops s9)); [destruct s9; cbn in *; congruence | congruence].
    - intros lp Hin.
      replace (loops (set_variables _ _)) with (loops (drop_loop s0 s9) ++ [mkloop (loc (drop_loop s0 s9)) s0 x2 x3]) in Hin
        by (destruct (drop_loop s0 s9); reflexivity).
      apply in_app_or in Hin. destruct Hin as [Hin | [<- | []]].
      + left. rewrite drop_loop_loops in Hin. unfold loops_below in Hin.
        assert (Hin9 : In lp (loops s9)).
        { destruct (find_loop_rev s0 (loops s9)) as [i|]; [|exact Hin].
          rewrite <- (firstn_skipn i (loops s9)). apply in_or_app. left. exact Hin. }
        congruence.
      + right. cbn [lp_loc]. destruct (drop_loop s0 s9); reflexivity.
  Qed.

  Lemma tsound_for fi f2 nest : tsound (evaluate_for_statement fi nest) (an_for f2 nest).
  Proof.
    intros s sa acc sa' acc' HR Hon Hfr Ea Hacc.
    pose proof (sound_for fi f2 nest nest s sa acc HR) as Hs. rewrite Ea in Hs.
    pose proof (for_shape fi nest s) as Hsh.
    pose proof (onprog_step (evaluate_for_statement fi nest) s
                  (keeps_for st_toks rf_st_toks fi nest) (keeps_for st_keys rf_st_keys fi nest) (imm_for fi nest) Hon) as Hon'.
    destruct (evaluate_for_statement fi nest s) as [[[]|e l|p| |] s']; cbn [snd] in *; try exact Hs; try exact I.
    destruct Hs as [_ HR']. destruct (Hsh s' (proj1 (proj2 (proj2 HR))) eq_refl) as [Hst Hlp].
    assert (Hacc' : AccAt (loc s')) by (eapply AccAt_of_together; eassumption).
    split; [apply HR'|]. split; [|exact Hacc'].
    destruct Hfr as [F1 F2]. split; [rewrite Hst; exact F1|].
    rewrite Forall_forall in *. intros lp Hin. destruct (Hlp lp Hin) as [H|H]; [apply F2; exact H | rewrite H; exact Hacc'].
  Qed.

  (* ---- IF ---- *)
  Definition advd (s : interp) : interp := set_loc (mkloc (loc_line (loc s)) (S (loc_idx (loc s)))) (bumped s).

  Lemma next_token_cases s :
    (exists p, next_token s = (Panic p, bumped s))
    \/ (line_there s /\
        next_token s = match nth_error (cur_line s) (loc_idx (loc s)) with
                       | Some t => (Ok (Some t), advd s)
                       | None => (Ok None, bumped s)
                       end).
  Proof.
    unfold next_token. rewrite Safety.bind_run.
    destruct (peek_cases s) as [[p Hp] | [Hp Hl]]; rewrite Hp; [left; eexists; reflexivity|].
    right. split; [exact Hl|]. destruct (nth_error (cur_line s) (loc_idx (loc s))); reflexivity.
  Qed.

  Lemma peek_is_else_clean s : onprog s ->
    (exists p, peek_is TElse s = (Panic p, bumped s)) \/ peek_is TElse s = (Ok false, bumped s).
  Proof.
    intros Hon. unfold peek_is. rewrite Safety.bind_run.
    destruct (peek_cases s) as [[p Hp] | [Hp _]]; rewrite Hp; [left; eexists; reflexivity|]. right.
    destruct (nth_error (cur_line s) (loc_idx (loc s))) as [t|] eqn:Et; [|reflexivity].
    pose proof (clean_at s _ t Hon Et) as Hc. destruct t; try reflexivity; discriminate Hc.
  Qed.

  Lemma accept_else_clean s : onprog s ->
    (exists p, accept_next_token TElse s = (Panic p, bumped s)) \/ accept_next_token TElse s = (Ok false, bumped s).
  Proof.
    intros Hon. unfold accept_next_token. rewrite Safety.bind_run.
    destruct (peek_cases s) as [[p Hp] | [Hp _]]; rewrite Hp; [left; eexists; reflexivity|]. right.
    destruct (nth_error (cur_line s) (loc_idx (loc s))) as [t|] eqn:Et; [|reflexivity].
    pose proof (clean_at s _ t Hon Et) as Hc. destruct t; try reflexivity; discriminate Hc.
  Qed.

  Definition scan_body (rec : M unit) : unit -> M (unit + unit) := fun _ : unit =>
    t <- next_token ;;
    match t with
    | None => ret (inr tt)
    | Some TColon => discard_remaining_tokens ;;; ret (inl tt)
    | Some TElse =>
        statement_or_goto_line_number rec ;;;
        e <- peek_is TElse ;; (if e then discard_remaining_tokens else ret tt) ;;; ret (inr tt)
    | Some _ => ret (inl tt)
    end.

  (* the scan of a false IF over a line without ELSE ends at the end of the line and changes nothing else *)
  Lemma scan_clean rec : forall n s, onprog s ->
    match repeat_m n (scan_body rec) tt s with
    | (Ok _, s') => functions s' = functions s /\ stack s' = stack s /\ loops s' = loops s /\ onprog s'
                    /\ line_there s' /\ nth_error (cur_line s') (loc_idx (loc s')) = None
    | (Err _ _, _) => False
    | _ => True
    end.
  Proof.
    induction n as [|n IH]; intros s Hon; cbn [repeat_m]; [exact I|].
    unfold scan_body at 1. rewrite bind_assoc_t, Safety.bind_run.
    destruct (next_token_cases s) as [[p Hp] | [Hl Hn]]; [rewrite Hp; exact I|]. rewrite Hn.
    assert (Hb : forall s0, s0 = bumped s \/ s0 = advd s -> onprog s0 /\ functions s0 = functions s /\ stack s0 = stack s
                             /\ loops s0 = loops s /\ cur_line s0 = cur_line s /\ line_there s0).
    { intros s0 [-> | ->]; destruct s as [? ? ? [? ?] ? ? ? ? ? ? ? ? ? ? ? ? ? ? ?]; repeat split; try apply Hon; exact Hl. }
    destruct (nth_error (cur_line s) (loc_idx (loc s))) as [t|] eqn:Et.
    - pose proof (clean_at s _ t Hon Et) as Hc.
      destruct (Hb (advd s) (or_intror eq_refl)) as (Ho & H1 & H2 & H3 & H4 & H5).
      assert (Hgo : match repeat_m n (scan_body rec) tt (advd s) with
                    | (Ok _, s') => functions s' = functions s /\ stack s' = stack s /\ loops s' = loops s /\ onprog s'
                                    /\ line_there s' /\ nth_error (cur_line s') (loc_idx (loc s')) = None
                    | (Err _ _, _) => False
                    | _ => True
                    end).
      { pose proof (IH (advd s) Ho) as H. destruct (repeat_m n (scan_body rec) tt (advd s)) as [[u|e l|p| |] s']; exact H. }
      destruct t; try discriminate Hc; try (rewrite Safety.bind_ret; exact Hgo).
      (* ":" : the rest of the line is discarded *)
      rewrite bind_assoc_t, Safety.bind_run. unfold discard_remaining_tokens. rewrite Safety.bind_run.
      assert (Ect : cur_tokens (advd s) = (Ok (cur_line s), advd s)).
      { unfold cur_tokens, tokens_for_line. rewrite bind_get. unfold cur_line in *. unfold line_there in H5.
        replace (loc_line (loc (advd s))) with (loc_line (loc s)) in * by (destruct s as [? ? ? [? ?] ? ? ? ? ? ? ? ? ? ? ? ? ? ? ?]; reflexivity).
        replace (st_toks (advd s)) with (st_toks s) in * by (destruct s; reflexivity).
        replace (immediate (advd s)) with (immediate s) by (destruct s; reflexivity).
        destruct (loc_line (loc s)) as [k|]; [|reflexivity].
        destruct (toks_get k (st_toks s)) eqn:Etk; [reflexivity | exfalso; exact (H5 k eq_refl Etk)]. }
      rewrite Ect. unfold modify at 1. cbv iota beta. rewrite Safety.bind_ret.
      set (sd := set_loc _ (advd s)).
      assert (Hd : onprog sd /\ functions sd = functions s /\ stack sd = stack s /\ loops sd = loops s).
      { unfold sd. destruct s as [? ? ? [? ?] ? ? ? ? ? ? ? ? ? ? ? ? ? ? ?]; repeat split; apply Hon. }
      destruct Hd as (Hod & D1 & D2 & D3).
      pose proof (IH sd Hod) as H. destruct (repeat_m n (scan_body rec) tt sd) as [[u|e l|p| |] s']; exact H.
    - rewrite Safety.bind_ret. cbv iota. unfold ret. cbn [fst snd].
      destruct (Hb (bumped s) (or_introl eq_refl)) as (Ho & H1 & H2 & H3 & H4 & H5).
      repeat split; try assumption; try apply Ho.
  Qed.

  Lemma onprog_AF sa sa' : AF sa sa' -> onprog sa -> onprog sa'.
  Proof. intros (A1 & A2 & A3 & _) (O1 & O2 & O3). repeat split; congruence. Qed.

  Lemma onprog_of_C s sa : C s sa -> onprog s -> onprog sa.
  Proof. intros (C1 & C2 & C3 & C4) (O1 & O2 & O3). repeat split; congruence. Qed.

  Lemma if_unfold fi nest rec : evaluate_if_statement fi nest rec =
    (c <- expr fi nest ;;
     expect_next_token TThen ;;;
     if to_bool c then
       statement_or_goto_line_number rec ;;;
       e <- peek_is TElse ;;
       if e then discard_remaining_tokens else ret tt
     else repeat_m fi (scan_body rec) tt).
  Proof. reflexivity. Qed.

  (* the THEN arm: a line number or a statement *)
  Lemma tsound_stmt_or_goto rec arec : tsound rec arec ->
    tsound (statement_or_goto_line_number rec) (an_statement_or_goto arec).
  Proof.
    intros Hrec s sa acc sa' acc' HR Hon Hfr Ea Hacc.
    unfold statement_or_goto_line_number, an_statement_or_goto in *. unfold abind, lift in Ea. cbn [fst snd] in Ea.
    destruct (cp_peek s sa (proj1 HR)) as (E & HC & K1 & K2).
    pose proof (onprog_step peek_next_token s (keeps_peek st_toks rf_st_toks) (keeps_peek st_keys rf_st_keys) imm_peek Hon) as Hon1.
    rewrite Safety.bind_run.
    destruct (peek_next_token s) as [r s1], (peek_next_token sa) as [r' sa1]. cbn [fst snd] in *. subst r'.
    destruct r as [t|e l|p| |]; try discriminate Ea; try exact I.
    assert (HR1 : R s1 sa1) by (eapply R_same_rt; eassumption).
    assert (Hfr1 : FramesOK s1) by (destruct K1 as (S1 & S2 & _); unfold FramesOK; rewrite S1, S2; exact Hfr).
    destruct t as [t|].
    - destruct t; try exact (Hrec s1 sa1 acc sa' acc' HR1 Hon1 Hfr1 Ea Hacc).
      exact (tsound_goto s1 sa1 acc sa' acc' HR1 Hon1 Hfr1 Ea Hacc).
    - exact (Hrec s1 sa1 acc sa' acc' HR1 Hon1 Hfr1 Ea Hacc).
  Qed.

  Lemma tsound_if fi f2 nest rec arec :
    tsound rec arec -> aorel arec ->
    mrel (keeps st_toks) rec -> mrel (keeps st_keys) rec -> mrel IM rec ->
    tsound (evaluate_if_statement fi nest rec) (an_if f2 nest arec).
  Proof.
    intros Hrec Haf Hk1 Hk2 Him s sa acc sa' acc' HR Hon Hfr Ea Hacc.
    rewrite if_unfold. unfold an_if in Ea.
    (* the condition *)
    unfold abind at 1 in Ea.
    pose proof (expression_check_sound fi f2 nest s sa acc HR) as Hx. unfold aexpr in Ea.
    pose proof (af_analyze_expression f2 nest (sa, acc)) as Haf1.
    destruct (analyze_expression f2 nest (sa, acc)) as [[ty|? ?|?| |] [sa1 acc1]]; try discriminate Ea. cbn [fst snd] in Haf1.
    rewrite Safety.bind_run. unfold expr.
    pose proof (KS_evaluate_expression fi nest s (proj1 (proj2 (proj2 HR)))) as Kx.
    pose proof (onprog_step (evaluate_expression fi nest) s (keeps_evaluate_expression st_toks rf_st_toks fi nest)
                  (keeps_evaluate_expression st_keys rf_st_keys fi nest) (imm_evaluate_expression fi nest) Hon) as Hon1.
    destruct (evaluate_expression fi nest s) as [[c|e l|p| |] s1]; cbn [snd] in *; try exact Hx; try exact I.
    destruct Hx as [_ HR1]. destruct Kx as (_ & Ks1 & Kl1).
    assert (Hfr1 : FramesOK s1) by (unfold FramesOK; rewrite Ks1, Kl1; exact Hfr).
    (* THEN *)
    unfold abind at 1 in Ea. unfold lift at 1 in Ea. cbn [fst snd] in Ea.
    destruct (cp_expect TThen s1 sa1 (proj1 HR1)) as (E2 & HC2 & K1 & K2).
    pose proof (onprog_step (expect_next_token TThen) s1 (keeps_expect st_toks rf_st_toks TThen)
                  (keeps_expect st_keys rf_st_keys TThen) (imm_expect TThen) Hon1) as Hon2.
    pose proof (raf_expect TThen sa1) as Haf2. unfold RAF in Haf2.
    rewrite Safety.bind_run.
    destruct (expect_next_token TThen s1) as [r2 s2], (expect_next_token TThen sa1) as [r2' sa2]. cbn [fst snd] in *. subst r2'.
    destruct r2 as [[]|e l|p| |]; try discriminate Ea; try exact I.
    assert (HR2 : R s2 sa2) by (eapply R_same_rt; eassumption).
    assert (Hfr2 : FramesOK s2) by (destruct K1 as (S1 & S2 & _); unfold FramesOK; rewrite S1, S2; exact Hfr1).
    assert (Hona2 : onprog sa2) by (eapply onprog_of_C; [apply HR2 | exact Hon2]).
    destruct (to_bool c).
    - (* the THEN arm is executed *)
      unfold abind at 1 in Ea.
      pose proof (af_statement_or_goto arec Haf (sa2, acc1)) as Haf3.
      destruct (an_statement_or_goto arec (sa2, acc1)) as [[[]|? ?|?| |] [sa3 acc3]] eqn:E3; try discriminate Ea.
      cbn [fst snd] in Haf3.
      assert (Hona3 : onprog sa3) by (eapply onprog_AF; eassumption).
      unfold abind at 1 in Ea. unfold lift at 1 in Ea. cbn [fst snd] in Ea.
      assert (Hacc3 : AccFrom sa3).
      { destruct (accept_else_clean sa3 Hona3) as [[p Hp] | Hp]; rewrite Hp in Ea; [discriminate Ea|].
        unfold aret in Ea. injection Ea as <- <-. eapply AccFrom_ebr; [apply ebr_bumped | exact Hacc]. }
      pose proof (tsound_stmt_or_goto rec arec Hrec s2 sa2 acc1 sa3 acc3 HR2 Hon2 Hfr2 E3 Hacc3) as H3.
      pose proof (onprog_step (statement_or_goto_line_number rec) s2
                    (keeps_stmt_or_goto st_toks rf_st_toks rec Hk1) (keeps_stmt_or_goto st_keys rf_st_keys rec Hk2)
                    (imm_stmt_or_goto rec Him) Hon2) as Hon3.
      rewrite Safety.bind_run.
      destruct (statement_or_goto_line_number rec s2) as [[[]|e l|p| |] s3]; cbn [snd] in *; try exact H3; try exact I.
      destruct H3 as (F3 & Fr3 & A3).
      rewrite Safety.bind_run.
      destruct (peek_is_else_clean s3 Hon3) as [[p Hp] | Hp]; rewrite Hp; [exact I|].
      unfold ret. cbn [fst snd].
      split; [destruct s3; exact F3|]. split; [destruct s3; exact Fr3 | destruct s3; exact A3].
    - (* the condition is false: the rest of the line is skipped *)
      pose proof (scan_clean rec fi s2 Hon2) as Hsc.
      destruct (repeat_m fi (scan_body rec) tt s2) as [[[]|e l|p| |] s3]; try contradiction; try exact I.
      destruct Hsc as (A1 & A2 & A3 & A4 & A5 & A6).
      split; [rewrite A1; apply HR2|]. split; [unfold FramesOK; rewrite A2, A3; exact Hfr2|].
      apply (AccAt_end sa2 (loc s3) Hona2 (proj2 (proj2 (proj2 HR2)))).
      + replace (cur_line (set_loc (loc s3) sa2)) with (cur_line s3); [exact A6|].
        unfold cur_line. destruct A4 as (B1 & B2 & B3). destruct Hona2 as (D1 & D2 & D3).
        destruct sa2; cbn in *. subst. rewrite B1, B3. reflexivity.
      + intros n Hn. destruct A4 as (B1 & _). rewrite <- B1. apply A5. exact Hn.
  Qed.

  (* ---- the dispatcher ---- *)
  Lemma straight_frames fi nest rec t : straight_head t = true -> t <> Some TFor ->
    mrel KS (edispatch fi nest rec t) /\ mrel (keeps st_toks) (edispatch fi nest rec t)
    /\ mrel (keeps st_keys) (edispatch fi nest rec t) /\ mrel IM (edispatch fi nest rec t).
  Proof.
    intros Hs Hf. destruct t as [t|]; [destruct t; try discriminate Hs; try congruence|]; cbn [edispatch];
      (split; [first [ apply KS_dim | apply KS_let | apply KS_print | apply KS_read | apply KS_reset_data
                     | apply KS_assignment | apply (mrel_ret _ KS_preorder) ]|]);
      (split; [first [ apply (keeps_dim st_toks rf_st_toks) | apply (keeps_let st_toks rf_st_toks)
                     | apply (keeps_print st_toks rf_st_toks) | apply (keeps_read st_toks rf_st_toks)
                     | apply (keeps_reset_data st_toks rf_st_toks) | apply (keeps_assignment st_toks rf_st_toks)
                     | apply (mrel_ret _ (keeps_preorder st_toks)) ]|]);
      (split; [first [ apply (keeps_dim st_keys rf_st_keys) | apply (keeps_let st_keys rf_st_keys)
                     | apply (keeps_print st_keys rf_st_keys) | apply (keeps_read st_keys rf_st_keys)
                     | apply (keeps_reset_data st_keys rf_st_keys) | apply (keeps_assignment st_keys rf_st_keys)
                     | apply (mrel_ret _ (keeps_preorder st_keys)) ]|]);
      first [ apply imm_dim | apply imm_let | apply imm_print | apply imm_read | apply imm_reset_data
            | apply imm_assignment | apply (mrel_ret _ IM_preorder) ].
  Qed.

  Definition trace_m : M unit :=
    tr <- get enable_tracing ;;
    (if tr then l <- get_line_number ;; match l with Some n => push_output (OTrace n) | None => ret tt end else ret tt).

  Lemma trace_quiet s : exists s0, trace_m s = (Ok tt, s0)
    /\ st_toks s0 = st_toks s /\ st_keys s0 = st_keys s /\ immediate s0 = immediate s /\ loc s0 = loc s
    /\ functions s0 = functions s /\ stack s0 = stack s /\ loops s0 = loops s
    /\ variables s0 = variables s /\ arrays s0 = arrays s.
  Proof.
    unfold trace_m. rewrite bind_get. destruct (enable_tracing s); [|exists s; repeat split].
    unfold get_line_number. rewrite Safety.bind_run, bind_get. unfold ret at 1. cbv iota beta.
    destruct (loc_line (loc s)); [|exists s; repeat split].
    eexists. split; [reflexivity|]. destruct s; repeat split.
  Qed.

  Lemma body_split fi nest rec s :
    evaluate_statement_body fi nest rec s = bind trace_m (fun _ => t <- next_token ;; edispatch fi nest rec t) s.
  Proof. rewrite evaluate_statement_body_dispatch. unfold trace_m. rewrite bind_assoc_t. reflexivity. Qed.

  Lemma tsound_statement_body fi f2 nest rec arec :
    tsound rec arec -> aorel arec ->
    mrel (keeps st_toks) rec -> mrel (keeps st_keys) rec -> mrel IM rec ->
    tsound (evaluate_statement_body fi nest rec) (an_statement_body f2 nest arec).
  Proof.
    intros Hrec Haf Hk1 Hk2 Him s sa acc sa' acc' HR Hon Hfr Ea Hacc.
    rewrite body_split. rewrite an_statement_body_dispatch in Ea.
    rewrite Safety.bind_run.
    destruct (trace_quiet s) as (s0 & Et & T1 & T2 & T3 & T4 & T5 & T6 & T7 & T8 & T9). rewrite Et.
    assert (HR0 : R s0 sa).
    { apply (R_ext s); try assumption. apply (caps_inv_ext s); try assumption. apply HR. }
    assert (Hon0 : onprog s0) by (destruct Hon as (O1 & O2 & O3); repeat split; congruence).
    assert (Hfr0 : FramesOK s0) by (unfold FramesOK; rewrite T6, T7; exact Hfr).
    destruct (next_token_both s0 sa acc HR0 Hon0 Hfr0) as (E1 & El & HR1 & Hon1 & Hfr1).
    unfold abind at 1 in Ea. rewrite El in Ea.
    destruct (next_token_cases s0) as [[p Hp] | [Hl Hn]].
    { rewrite Safety.bind_run, Hp. exact I. }
    rewrite Safety.bind_run.
    destruct (next_token s0) as [r s1] eqn:En0, (next_token sa) as [r' sa1]. cbn [fst snd] in *. subst r'.
    destruct r as [t|e l|p| |]; try discriminate Ea; try exact I.
    assert (Hcl : forall t0, t = Some t0 -> clean_tok t0 = true).
    { intros t0 Ht. subst t. destruct (nth_error (cur_line s0) (loc_idx (loc s0))) as [t1|] eqn:E1'; [|discriminate Hn].
      injection Hn as Ht _. subst t1. exact (clean_at s0 _ t0 Hon0 E1'). }
    destruct (straight_head t) eqn:Hst.
    - destruct t as [t|].
      + destruct t; try discriminate Hst;
          try (destruct (straight_frames fi nest rec _ Hst ltac:(discriminate)) as (F1 & F2 & F3 & F4);
               exact (tsound_of_sound _ _ (straight_statement_sound fi f2 nest rec arec _ Hst) F1 F2 F3 F4
                        s1 sa1 acc sa' acc' HR1 Hon1 Hfr1 Ea Hacc)).
        exact (tsound_for fi f2 nest s1 sa1 acc sa' acc' HR1 Hon1 Hfr1 Ea Hacc).
      + destruct (straight_frames fi nest rec None Hst ltac:(discriminate)) as (F1 & F2 & F3 & F4).
        exact (tsound_of_sound _ _ (straight_statement_sound fi f2 nest rec arec _ Hst) F1 F2 F3 F4
                 s1 sa1 acc sa' acc' HR1 Hon1 Hfr1 Ea Hacc).
    - destruct t as [t|]; [|discriminate Hst]. specialize (Hcl t eq_refl).
      destruct t; try discriminate Hst; try discriminate Hcl; cbn [edispatch adispatch] in *; try discriminate Ea.
      + exact (tsound_goto s1 sa1 acc sa' acc' HR1 Hon1 Hfr1 Ea Hacc).
      + exact (tsound_gosub s1 sa1 acc sa' acc' HR1 Hon1 Hfr1 Ea Hacc).
      + exact (tsound_return s1 sa1 acc sa' acc' HR1 Hon1 Hfr1 Ea Hacc).
      + exact (tsound_if fi f2 nest rec arec Hrec Haf Hk1 Hk2 Him s1 sa1 acc sa' acc' HR1 Hon1 Hfr1 Ea Hacc).
      + exact (tsound_end s1 sa1 acc sa' acc' HR1 Hon1 Hfr1 Ea Hacc).
      + exact (tsound_stop s1 sa1 acc sa' acc' HR1 Hon1 Hfr1 Ea Hacc).
      + exact (tsound_next s1 sa1 acc sa' acc' HR1 Hon1 Hfr1 Ea Hacc).
  Qed.

  (* ---- every statement, nested to any depth ---- *)
  Theorem tsound_statement : forall f2 fi n, tsound (evaluate_statement fi n) (analyze_statement f2 n).
  Proof.
    induction f2 as [|f2 IH]; intros fi n s sa acc sa' acc' HR Hon Hfr Ea Hacc; cbn [analyze_statement] in Ea; [discriminate Ea|].
    destruct fi as [|fi]; cbn [evaluate_statement]; [exact I|].
    destruct (Nat.eqb n max_nesting); [discriminate Ea|].
    apply (tsound_statement_body fi f2 (S n) (evaluate_statement fi (S n)) (analyze_statement f2 (S n))
             (IH fi (S n)) (af_analyze_statement f2 (S n))
             (keeps_evaluate_statement st_toks rf_st_toks fi (S n)) (keeps_evaluate_statement st_keys rf_st_keys fi (S n))
             (imm_evaluate_statement fi (S n)) s sa acc sa' acc' HR Hon Hfr Ea Hacc).
  Qed.

  (* ------------------------------------------------------------------ *)
  (* 3. one turn, then every turn *)
  Hypothesis Hkeys : forall n, In n pkeys -> toks_get n ptoks <> None.

  Definition Inv (s : interp) : Prop :=
    onprog s /\ caps_inv s /\ functions s = [] /\ FramesOK s /\ AccAt (loc s).

  Lemma Inv_ext s s' : Inv s ->
    st_toks s' = st_toks s -> st_keys s' = st_keys s -> immediate s' = immediate s -> loc s' = loc s ->
    functions s' = functions s -> stack s' = stack s -> loops s' = loops s ->
    variables s' = variables s -> arrays s' = arrays s -> Inv s'.
  Proof.
    intros ((O1 & O2 & O3) & Hc & Hf & (F1 & F2) & Ha) E1 E2 E3 E4 E5 E6 E7 E8 E9.
    split; [repeat split; congruence|]. split; [apply (caps_inv_ext s); assumption|]. split; [congruence|].
    split; [unfold FramesOK; rewrite E6, E7; split; assumption | rewrite E4; exact Ha].
  Qed.

  Lemma next_line_eq s :
    next_line s = match loc_line (loc s) with
                  | None => (Ok false, s)
                  | Some n => match store_after n s with
                              | Some n' => (Ok true, set_loc (mkloc (Some n') 0) s)
                              | None => (Ok false, s)
                              end
                  end.
  Proof.
    unfold next_line. rewrite bind_get. destruct (loc_line (loc s)) as [n|]; [|reflexivity].
    rewrite bind_get. destruct (store_after n s); reflexivity.
  Qed.

  (* what happens after the statement: the same line, the next line, or the end of the program *)
  Lemma tail_sound s : Inv s ->
    match (h2 <- has_next_token ;;
           if h2 then ret tt
           else n <- next_line ;; if n then ret tt else set_and_goto_immediate_line [] ;;; return_to_idle_state) s with
    | (Ok _, s') => Inv s'
    | (Err _ _, _) => False
    | _ => True
    end.
  Proof.
    intros HI. unfold has_next_token. rewrite bind_assoc_t, Safety.bind_run.
    destruct (peek_cases s) as [[p Hp] | [Hp Hl]]; rewrite Hp; [exact I|].
    assert (HIb : Inv (bumped s)) by (apply (Inv_ext s _ HI); destruct s; reflexivity).
    rewrite Safety.bind_ret.
    destruct (nth_error (cur_line s) (loc_idx (loc s))) as [t|]; [exact HIb|].
    rewrite Safety.bind_run, next_line_eq.
    destruct HIb as (Hon & Hc & Hf & Hfr & Ha).
    assert (Hidle : Inv (set_state Idle (imm_reset [] (bumped s)))).
    { destruct Ha as (sa & acc & Hona & Hfa & _ & _).
      split; [unfold imm_reset; destruct Hon as (O1 & O2 & O3); destruct (breakpoint (bumped s)); destruct s; repeat split; assumption|].
      split; [apply (caps_set_imm [] (bumped s)) in Hc; rewrite set_imm_is_modify in Hc; cbn [snd modify] in Hc;
              apply (caps_inv_ext (imm_reset [] (bumped s))); try reflexivity; exact Hc|].
      split; [unfold imm_reset; destruct (breakpoint (bumped s)); destruct s; exact Hf|].
      split.
      - destruct Hfr as [F1 F2]. unfold imm_reset.
        destruct (breakpoint (bumped s)); (split; [destruct s; cbn in *; first [exact F1 | constructor] | destruct s; exact F2]).
      - replace (loc (set_state Idle (imm_reset [] (bumped s)))) with imm0
          by (unfold imm_reset; destruct (breakpoint (bumped s)); destruct s; reflexivity).
        apply (AccAt_imm0 sa Hona Hfa). }
    destruct (loc_line (loc (bumped s))) as [n|] eqn:El.
    - destruct (store_after n (bumped s)) as [n'|] eqn:Ea'.
      + unfold ret.
        split; [destruct s; apply Hon|]. split; [apply (caps_inv_ext (bumped s)); try (destruct s; reflexivity); exact Hc|].
        split; [destruct s; exact Hf|]. split; [destruct Hfr; split; destruct s; assumption|].
        replace (loc (set_loc _ (bumped s))) with (mkloc (Some n') 0) by (destruct s; reflexivity).
        apply G, Hkeys. unfold store_after in Ea'. destruct Hon as (_ & O2 & _). rewrite O2 in Ea'.
        eapply keys_after_In; eassumption.
      + rewrite set_imm_is_modify, bind_modify. unfold return_to_idle_state, modify. exact Hidle.
    - rewrite set_imm_is_modify, bind_modify. unfold return_to_idle_state, modify. exact Hidle.
  Qed.

  (* ONE TURN from a state that satisfies the invariant: it does not fail with a
     syntax error, a type mismatch or an undefined line, and the invariant holds again *)
  Theorem turn_sound fi s : Inv s ->
    match run_next_statement fi s with
    | (Ok _, s') => Inv s'
    | (Err e _, _) => benign e
    | _ => True
    end.
  Proof.
    intros HI. unfold run_next_statement. rewrite bind_modify.
    set (sR := set_state Running s).
    assert (HIR : Inv sR) by (apply (Inv_ext s _ HI); destruct s; reflexivity).
    unfold has_next_token at 1. rewrite bind_assoc_t, Safety.bind_run.
    destruct (peek_cases sR) as [[p Hp] | [Hp Hl]]; rewrite Hp; [exact I|].
    assert (HIb : Inv (bumped sR)) by (apply (Inv_ext sR _ HIR); destruct sR; reflexivity).
    rewrite Safety.bind_ret.
    assert (Htail : forall s1, Inv s1 ->
              match (h2 <- has_next_token ;;
                     if h2 then ret tt
                     else n <- next_line ;; if n then ret tt else set_and_goto_immediate_line [] ;;; return_to_idle_state) s1 with
              | (Ok _, s') => Inv s'
              | (Err e _, _) => benign e
              | _ => True
              end).
    { intros s1 H1. pose proof (tail_sound s1 H1) as H.
      destruct ((h2 <- has_next_token ;; _) s1) as [[u|e l|p| |] s']; try exact H; try exact I. contradiction. }
    destruct (nth_error (cur_line sR) (loc_idx (loc sR))) as [t|] eqn:Et.
    2:{ rewrite Safety.bind_ret. apply Htail. exact HIb. }
    (* a statement starts here: follow the checker's walk from the accepted position *)
    destruct HIb as (Hon & Hc & Hf & Hfr & (sa & acc & Hona & Hfa & Hla & (stmts & m & st' & Hw))).
    destruct stmts as [|k]; [discriminate Hw|]. cbn [walk_line fst snd] in Hw.
    assert (HC : C (bumped sR) sa).
    { destruct Hon as (O1 & O2 & O3), Hona as (A1 & A2 & A3). repeat split; congruence. }
    assert (Hha : has_next_token sa = (Ok true, bumped sa)).
    { unfold has_next_token. rewrite Safety.bind_run.
      assert (Ecl : cur_line sa = cur_line sR /\ loc_idx (loc sa) = loc_idx (loc sR)).
      { destruct HC as (C1 & C2 & C3 & C4). unfold cur_line. rewrite <- C1, <- C3, <- C4. destruct s; split; reflexivity. }
      destruct Ecl as [Ec1 Ec2].
      destruct (peek_cases sa) as [[p Hp2] | [Hp2 _]].
      - exfalso. unfold peek_next_token, cur_tokens, tokens_for_line, bind, get, modify, ret in Hp2. cbn in Hp2.
        destruct HC as (C1 & _ & _ & C4). unfold line_there in Hl.
        replace (loc sa) with (loc sR) in Hp2 by (rewrite <- C4; destruct s; reflexivity).
        replace (st_toks sa) with (st_toks sR) in Hp2 by (rewrite <- C1; destruct s; reflexivity).
        destruct (loc_line (loc sR)) as [n|] eqn:El; [|discriminate Hp2].
        destruct (toks_get n (st_toks sR)) eqn:Etk; [discriminate Hp2 | exact (Hl n eq_refl Etk)].
      - rewrite Hp2, Ec1, Ec2, Et. reflexivity. }
    rewrite Hha in Hw.
    destruct (analyze_statement fa 0 (bumped sa, acc)) as [[[]|e l|p| |] st1] eqn:Ean;
      try discriminate Hw;
      try (destruct (populate_error_location e l (fst st1)) as [l0|]; [destruct (map_location_to_source m l0) as [[? ?]|]|]; discriminate Hw).
    destruct st1 as [sa1 acc1].
    assert (HRb : R (bumped sR) (bumped sa)).
    { split; [destruct HC as (C1 & C2 & C3 & C4); repeat split; destruct sa; assumption|].
      split; [exact Hc|]. split; [exact Hf | destruct sa; exact Hfa]. }
    assert (Hacc1 : AccFrom sa1).
    { exists sa1, acc1. split; [apply ebr_refl|]. exists k, m, st'. exact Hw. }
    pose proof (tsound_statement fa fi 0 (bumped sR) (bumped sa) acc sa1 acc1 HRb Hon Hfr Ean Hacc1) as Hst.
    pose proof (onprog_step (evaluate_statement fi 0) (bumped sR)
                  (keeps_evaluate_statement st_toks rf_st_toks fi 0) (keeps_evaluate_statement st_keys rf_st_keys fi 0)
                  (imm_evaluate_statement fi 0) Hon) as Hon1.
    pose proof (caps_evaluate_statement fi 0 (bumped sR) Hc) as Hc1.
    rewrite Safety.bind_run.
    destruct (evaluate_statement fi 0 (bumped sR)) as [[[]|e l|p| |] s1]; cbn [snd] in *; try exact Hst; try exact I.
    destruct Hst as (F1 & F2 & F3). apply Htail. split; [exact Hon1|]. split; [exact Hc1|]. split; [exact F1|]. split; [exact F2 | exact F3].
  Qed.

  (* EVERY TURN.  [Reach fi s0 s]: [s] is reached from [s0] by continue calls that succeeded *)
  Inductive Reach (fi : nat) (s0 : interp) : interp -> Prop :=
  | reach_refl : Reach fi s0 s0
  | reach_step s1 s2 : Reach fi s0 s1 -> state s1 = Running -> continue_evaluating fi s1 = (Ok tt, s2) -> Reach fi s0 s2.

  Definition turn_ok (fi : nat) (s : interp) : Prop :=
    match continue_evaluating fi s with (Err e _, _) => benign e | _ => True end.

  Lemma continue_sound fi s : Inv s -> state s = Running ->
    turn_ok fi s /\ (forall s', continue_evaluating fi s = (Ok tt, s') -> Inv s').
  Proof.
    intros HI Hst. unfold turn_ok, continue_evaluating. rewrite Hst. pose proof (turn_sound fi s HI) as H.
    destruct (run_next_statement fi s) as [[[]|e l|p| |] s1]; cbn [postprocess]; split; try exact H; try exact I;
      intros s' E; try discriminate E. injection E as <-. exact H.
  Qed.

  Theorem run_sound fi s0 s : Inv s0 -> Reach fi s0 s -> Inv s /\ (state s = Running -> turn_ok fi s).
  Proof.
    intros H0 Hr. induction Hr as [|s1 s2 Hr IH Hst E].
    - split; [exact H0|]. intros Hst. apply (continue_sound fi s0 H0 Hst).
    - destruct IH as [HI1 _]. destruct (continue_sound fi s1 HI1 Hst) as [_ Hn].
      pose proof (Hn s2 E) as HI2. split; [exact HI2|]. intros Hst2. apply (continue_sound fi s2 HI2 Hst2).
  Qed.

  (* RUN establishes the invariant and executes the first turn *)
  Lemma run_prefix_facts s : exists s1,
    run_from_first_numbered_line s = (Ok tt, s1) /\ functions s1 = [] /\ stack s1 = [] /\ loops s1 = []
    /\ st_toks s1 = st_toks s /\ st_keys s1 = st_keys s /\ immediate s1 = []
    /\ variables s1 = variables s /\ arrays s1 = arrays s
    /\ loc s1 = match hd_error (st_keys s) with Some n => mkloc (Some n) 0 | None => imm0 end.
  Proof.
    eexists. split.
    - unfold run_from_first_numbered_line, reset_runtime_state, reset_data_cursor, program_end, set_and_goto_immediate_line,
        bind, modify. cbn. reflexivity.
    - unfold store_first. destruct s as [tk ks ? ? bp ? ? ? ? ? ? ? ? ? ? ? ? ? ?]. cbn.
      destruct bp; cbn; destruct ks; cbn; repeat split.
  Qed.

  Theorem run_command_sound fi line s0 :
    state s0 = Idle -> st_toks s0 = ptoks -> st_keys s0 = pkeys -> caps_inv s0 -> command_of line = Some CRun ->
    match start_evaluating fi line s0 with
    | (Ok _, s1) => Inv s1
    | (Err e _, _) => benign e
    | _ => True
    end.
  Proof.
    intros Hidle Ht Hk Hc Hcmd. unfold start_evaluating, evaluate_impl.
    rewrite bind_get, Hidle, set_imm_is_modify, bind_modify, Hcmd. unfold process_command. rewrite !bind_modify.
    set (sp := set_arrays [] (set_variables [] (set_input None (imm_reset [] s0)))).
    destruct (run_prefix_facts sp) as (s1 & E & F1 & F2 & F3 & F4 & F5 & F6 & F7 & F8 & F9).
    rewrite Safety.bind_run, E.
    assert (HI : Inv s1).
    { assert (Hon1 : onprog s1).
      { repeat split; [rewrite F4 | rewrite F5 | exact F6]; unfold sp, imm_reset; destruct (breakpoint s0); destruct s0; assumption. }
      split; [exact Hon1|].
      split.
      { destruct Hc as (K1 & K2 & K3 & K4 & K5 & K6). unfold caps_inv. rewrite F2, F3, F7, F8.
        replace (variables sp) with (@nil (bytes * value)) by (unfold sp; reflexivity).
        replace (arrays sp) with (@nil (bytes * arr)) by (unfold sp; reflexivity).
        cbn. split; [lia|]. split; [lia|]. split; [constructor|]. split; [apply typed_alist_nil|]. split; [constructor | apply arrays_ok_nil]. }
      split; [exact F1|]. split; [unfold FramesOK; rewrite F2, F3; split; constructor|].
      rewrite F9. replace (st_keys sp) with pkeys by (unfold sp, imm_reset; destruct (breakpoint s0); destruct s0; symmetry; assumption).
      destruct (hd_error pkeys) as [n|] eqn:Eh.
      - apply G, Hkeys. destruct pkeys as [|n0 ks]; [discriminate Eh|]. injection Eh as ->. left. reflexivity.
      - apply (AccAt_imm0 s1 Hon1 F1). }
    pose proof (turn_sound fi s1 HI) as H.
    destruct (run_next_statement fi s1) as [[[]|e l|p| |] s2]; cbn [postprocess]; exact H.
  Qed.
End Prog.

(* ------------------------------------------------------------------ *)
(* 4. the premise "every stored line is accepted from its first token" is what
      an error-free walk of the checker over the program establishes *)

Definition is_error_msg (msg : message) : bool := match msg with MError _ _ _ => true | _ => false end.

Section Link.
  Variable T : list (N * list token).
  Variable keys : list N.
  Variable m : source_map.
  Variable fuel : nat.
  Hypothesis Hfuel : longest T + max_nesting < fuel.
  Hypothesis Hsorted : keys_sorted keys.
  Hypothesis HK : forall k, In k keys -> toks_get k T <> None.
  Hypothesis Hclean : forall n ts, toks_get n T = Some ts -> nodef_line ts = true.

  Lemma walk_line_msg_is_error : forall stmts st msg st',
    walk_line fuel stmts m st = (Ok (Some msg), st') -> is_error_msg msg = true.
  Proof.
    induction stmts as [|k IHk]; intros st msg st' Ew; cbn [walk_line] in Ew; [discriminate Ew|].
    destruct (has_next_token (fst st)) as [[[|]|? ?|?| |] p1]; try discriminate Ew.
    destruct (analyze_statement fuel 0 (p1, snd st)) as [[u|e l|p| |] st1]; try discriminate Ew.
    - exact (IHk st1 msg st' Ew).
    - destruct (populate_error_location e l (fst st1)) as [l0|]; [|discriminate Ew].
      destruct (map_location_to_source m l0) as [[fl r]|]; [|discriminate Ew].
      injection Ew as <- _. reflexivity.
  Qed.

  (* the walk only appends error messages *)
  Lemma walk_lines_appends : forall n msgs st r msgs' stf,
    walk_lines fuel n m msgs st = (r, msgs', stf) ->
    exists extra, msgs' = msgs ++ extra /\ forallb is_error_msg extra = true.
  Proof.
    induction n as [|n IH]; intros msgs st r msgs' stf E; cbn [walk_lines] in E.
    - injection E as _ <- _. exists []. split; [symmetry; apply app_nil_r | reflexivity].
    - destruct (walk_line fuel _ m st) as [[om|e l|p| |] st'] eqn:Ew;
        try (injection E as _ <- _; exists []; split; [symmetry; apply app_nil_r | reflexivity]).
      set (msgs1 := match om with Some msg => msgs ++ [msg] | None => msgs end) in *.
      assert (H1 : exists x, msgs1 = msgs ++ x /\ forallb is_error_msg x = true).
      { unfold msgs1. destruct om as [msg|]; [|exists []; split; [symmetry; apply app_nil_r | reflexivity]].
        exists [msg]. split; [reflexivity|].
        cbn. rewrite (walk_line_msg_is_error _ _ _ _ Ew). reflexivity. }
      destruct H1 as (x & -> & Hx).
      destruct (next_line (fst st')) as [[[|]|e l|p| |] p1];
        try (injection E as _ <- _; exists x; split; [reflexivity | exact Hx]).
      destruct (IH _ _ _ _ _ E) as (y & -> & Hy). exists (x ++ y). split; [rewrite app_assoc; reflexivity|].
      rewrite forallb_app, Hx, Hy. reflexivity.
  Qed.

  (* an error-free walk from the start of line [ln] accepts that line and every later one *)
  Lemma walk_accepts : forall n msgs st stf ln,
    WI T st -> st_keys (fst st) = keys -> immediate (fst st) = [] -> functions (fst st) = [] ->
    loc (fst st) = mkloc (Some ln) 0 ->
    walk_lines fuel n m msgs st = (Ok tt, msgs, stf) ->
    forall k, In k keys -> (ln <= k)%N -> AccAt fuel T keys (mkloc (Some k) 0).
  Proof.
    induction n as [|n IH]; intros msgs st stf ln HW Hk Him Hfn Hloc E k Hin Hle; cbn [walk_lines] in E; [discriminate E|].
    set (stmts := S (length (match fst (cur_tokens (fst st)) with Ok ts => ts | _ => [] end))) in *.
    assert (HT : st_toks (fst st) = T) by apply HW.
    assert (Hroom : room T (fst st) < stmts).
    { unfold stmts. destruct HW as (_ & _ & [Hok|[Hl Hi]]).
      - destruct Hok as (ln' & ts & Hl & Hg & Hb).
        unfold cur_tokens, bind, get, tokens_for_line. cbn [fst snd]. rewrite Hl, HT, Hg. cbn [fst].
        unfold room, line_toks. rewrite Hl, Hg. lia.
      - unfold room, line_toks. rewrite Hl. cbn. lia. }
    destruct (walk_line_nof T m fuel Hfuel stmts st HW Hroom) as [_ W2].
    pose proof (af_walk_line fuel m stmts st) as Haf. pose proof (fn_walk_line fuel m stmts st) as Hfns.
    destruct (walk_line fuel stmts m st) as [[om|e l|p| |] st'] eqn:Ew; try discriminate E.
    destruct (W2 om st' eq_refl) as (HW' & Hline & Hkeys'). cbn [fst snd] in Haf, Hfns.
    assert (Hcs : CleanStore (fst st)) by (split; [rewrite HT; exact Hclean | exact Him]).
    destruct Haf as (A1 & A2 & A3 & _). destruct Hfns as (_ & _ & _ & F4). specialize (F4 Hcs).
    assert (Hl' : loc_line (loc (fst st')) = Some ln) by (rewrite Hline, Hloc; reflexivity).
    rewrite (next_line_eq' (fst st') ln Hl') in E. rewrite Hkeys', Hk in E.
    (* no message was added for this line *)
    assert (Hom : om = None).
    { destruct om as [msg|]; [|reflexivity]. exfalso.
      destruct (keys_after ln keys) as [n'|].
      - destruct (walk_lines_appends _ _ _ _ _ _ E) as (x & Hx & _).
        apply (f_equal (@length message)) in Hx. rewrite !app_length in Hx. cbn [length] in Hx. lia.
      - injection E as E _. apply (f_equal (@length message)) in E. rewrite app_length in E. cbn [length] in E. lia. }
    subst om.
    assert (Hacc : AccAt fuel T keys (mkloc (Some ln) 0)).
    { exists (fst st), (snd st). split; [repeat split; assumption|]. split; [exact Hfn|]. split; [exact Hloc|].
      exists stmts, m, st'. destruct st; exact Ew. }
    destruct (N.eq_dec k ln) as [-> | Hne]; [exact Hacc|].
    pose proof (keys_after_spec ln keys Hsorted) as Hsp.
    destruct (keys_after ln keys) as [n'|] eqn:Eka.
    - destruct Hsp as (Hin' & Hlt & Hleast).
      apply (IH msgs (set_loc (mkloc (Some n') 0) (fst st'), snd st') stf n'); cbn [fst snd]; try assumption.
      + destruct HW' as (HT' & Hacc' & _). split; [exact HT' | split; [exact Hacc'|]]. left.
        pose proof (HK n' Hin') as Hne'. destruct (toks_get n' T) as [ts|] eqn:Eg; [|congruence].
        exists n', ts. cbn. repeat split; try assumption. lia.
      + destruct (fst st'); cbn in *; congruence.
      + destruct (fst st'); cbn in *; congruence.
      + destruct (fst st'); cbn in *; congruence.
      + destruct (fst st'); reflexivity.
      + apply Hleast; [exact Hin | lia].
    - exfalso. specialize (Hsp k Hin). lia.
  Qed.
End Link.

(* ------------------------------------------------------------------ *)
(* 5. THE THEOREM, over the checker itself *)

Definition clean_program (T : list (N * list token)) : Prop :=
  forall n ts, toks_get n T = Some ts -> clean_line ts = true.

Lemma an_walk fuel text :
  exists n r msgs st,
    walk_lines fuel n (p_map (pass1_of' text)) (p_msgs (pass1_of' text))
               (snd (run_from_first_numbered_line (p_prog (pass1_of' text))), []) = (r, msgs, st)
    /\ (an_result (analyze fuel text) = Ok tt -> r = Ok tt)
    /\ (forall msg, In msg msgs -> In msg (an_messages (analyze fuel text))).
Proof.
  unfold analyze. fold (pass1_of' text).
  destruct (walk_lines _ _ _ _ _) as [[r msgs] st] eqn:Ew.
  eexists _, r, msgs, st. split; [exact Ew|].
  destruct r as [[]|e l|pp| |]; cbn [an_result an_messages].
  - destruct (symbol_messages _ _); cbn [an_result an_messages]; (split; [reflexivity|]); intros msg H; [apply in_or_app; left|]; exact H.
  - split; [intros H; discriminate H | intros msg H; exact H].
  - split; [intros H; discriminate H | intros msg H; exact H].
  - split; [intros H; discriminate H | intros msg H; exact H].
  - split; [intros H; discriminate H | intros msg H; exact H].
Qed.

Definition nodef_program (T : list (N * list token)) : Prop :=
  forall n ts, toks_get n T = Some ts -> nodef_line ts = true.

Lemma clean_program_nodef T : clean_program T -> nodef_program T.
Proof. intros H n ts E. apply clean_nodef, (H n ts E). Qed.

Lemma accepted_lines_gen fuel (prog : interp) (m : source_map) nl msgs0 stf :
  wf prog -> longest (st_toks prog) + max_nesting < fuel -> nodef_program (st_toks prog) ->
  walk_lines fuel nl m msgs0 (snd (run_from_first_numbered_line prog), []) = (Ok tt, msgs0, stf) ->
  forall n, toks_get n (st_toks prog) <> None -> AccAt fuel (st_toks prog) (st_keys prog) (mkloc (Some n) 0).
Proof.
  intros Hwf Hfuel Hclean Ew n Hn.
  destruct (rffl_fields prog) as (F1 & F2 & F3 & F4).
  destruct (run_prefix_facts prog) as (s0' & E0 & G1 & _).
  assert (Es0 : snd (run_from_first_numbered_line prog) = s0') by (rewrite E0; reflexivity).
  destruct (wf_store _ Hwf) as (Hsorted & Hkeys & _).
  assert (Hin : In n (st_keys prog)) by (apply Hkeys; exact Hn).
  pose proof (store_first_spec prog (wf_store _ Hwf)) as Hfirst.
  destruct (store_first prog) as [ln|] eqn:Ef; [|rewrite Hfirst in Hin; destruct Hin].
  destruct Hfirst as (Hinl & Hleast).
  apply (walk_accepts (st_toks prog) (st_keys prog) m fuel
           Hfuel Hsorted (fun k Hk => proj1 (Hkeys k) Hk) Hclean
           nl msgs0 (snd (run_from_first_numbered_line prog), []) stf ln);
    cbn [fst snd]; try assumption.
  - split; [exact F1|]. split; [constructor|]. left. cbn [fst]. rewrite F4.
    pose proof (proj1 (Hkeys ln) Hinl) as Hne.
    destruct (toks_get ln (st_toks prog)) as [ts|] eqn:Eg; [|congruence].
    exists ln, ts. cbn. repeat split; try assumption. lia.
  - rewrite Es0. exact G1.
  - apply Hleast. exact Hin.
Qed.

Theorem accepted_lines fuel text :
  line_bound text < fuel ->
  forallb (fun msg => negb (is_error_msg msg)) (an_messages (analyze fuel text)) = true ->
  clean_program (st_toks (p_prog (pass1_of' text))) ->
  forall n, toks_get n (st_toks (p_prog (pass1_of' text))) <> None ->
    AccAt fuel (st_toks (p_prog (pass1_of' text))) (st_keys (p_prog (pass1_of' text))) (mkloc (Some n) 0).
Proof.
  intros Hfuel Hmsgs Hclean.
  pose proof (analysis_total fuel text Hfuel) as Hres.
  destruct (an_walk fuel text) as (nl & r & msgs & stf & Ew & Hr & Hin_msgs).
  specialize (Hr Hres). subst r.
  assert (HPP : PP (0 + length (split_lines text)) (pass1_of' text)) by (apply PP_lines, PP_init).
  destruct HPP as [Hwf _ _ _].
  destruct (walk_lines_appends (p_map (pass1_of' text)) fuel _ _ _ _ _ _ Ew) as (extra & Hx & Hex). subst msgs.
  assert (extra = []).
  { destruct extra as [|x xs]; [reflexivity|]. exfalso.
    rewrite forallb_forall in Hmsgs. specialize (Hmsgs x (Hin_msgs x ltac:(apply in_or_app; right; left; reflexivity))).
    cbn in Hex. destruct (is_error_msg x); discriminate. }
  subst extra. rewrite app_nil_r in Ew.
  exact (accepted_lines_gen fuel (p_prog (pass1_of' text)) (p_map (pass1_of' text)) nl (p_msgs (pass1_of' text)) stf
           Hwf Hfuel (clean_program_nodef _ Hclean) Ew).
Qed.

(* the same for programs that only have no DEF *)
Theorem accepted_lines_nodef fuel text :
  line_bound text < fuel ->
  forallb (fun msg => negb (is_error_msg msg)) (an_messages (analyze fuel text)) = true ->
  nodef_program (st_toks (p_prog (pass1_of' text))) ->
  forall n, toks_get n (st_toks (p_prog (pass1_of' text))) <> None ->
    AccAt fuel (st_toks (p_prog (pass1_of' text))) (st_keys (p_prog (pass1_of' text))) (mkloc (Some n) 0).
Proof.
  intros Hfuel Hmsgs Hclean.
  pose proof (analysis_total fuel text Hfuel) as Hres.
  destruct (an_walk fuel text) as (nl & r & msgs & stf & Ew & Hr & Hin_msgs).
  specialize (Hr Hres). subst r.
  assert (HPP : PP (0 + length (split_lines text)) (pass1_of' text)) by (apply PP_lines, PP_init).
  destruct HPP as [Hwf _ _ _].
  destruct (walk_lines_appends (p_map (pass1_of' text)) fuel _ _ _ _ _ _ Ew) as (extra & Hx & Hex). subst msgs.
  assert (extra = []).
  { destruct extra as [|x xs]; [reflexivity|]. exfalso.
    rewrite forallb_forall in Hmsgs. specialize (Hmsgs x (Hin_msgs x ltac:(apply in_or_app; right; left; reflexivity))).
    cbn in Hex. destruct (is_error_msg x); discriminate. }
  subst extra. rewrite app_nil_r in Ew.
  exact (accepted_lines_gen fuel (p_prog (pass1_of' text)) (p_map (pass1_of' text)) nl (p_msgs (pass1_of' text)) stf
           Hwf Hfuel Hclean Ew).
Qed.

(* No analysis error => RUN, and every turn after it, never fails with a syntax
   error, a type mismatch or an undefined line.  The interpreter is any idle
   one holding the program (loading = typing its lines: C15) and satisfying the
   caps / typing invariant (every reachable state does: C16). *)
Theorem program_sound fuel fi text :
  line_bound text < fuel ->
  forallb (fun msg => negb (is_error_msg msg)) (an_messages (analyze fuel text)) = true ->
  clean_program (st_toks (p_prog (pass1_of' text))) ->
  forall line s0, state s0 = Idle -> st_toks s0 = st_toks (p_prog (pass1_of' text)) ->
    st_keys s0 = st_keys (p_prog (pass1_of' text)) ->
    caps_inv s0 -> command_of line = Some CRun ->
    match start_evaluating fi line s0 with
    | (Ok _, s1) =>
        forall s, Reach fi s1 s -> state s = Running -> turn_ok fi s
    | (Err e _, _) => benign e
    | _ => True
    end.
Proof.
  intros Hfuel Hmsgs Hclean line s0 Hidle Ht Hk Hc Hcmd.
  pose proof (accepted_lines fuel text Hfuel Hmsgs Hclean) as G.
  assert (HPP : PP (0 + length (split_lines text)) (pass1_of' text)) by (apply PP_lines, PP_init).
  destruct HPP as [Hwf _ _ _]. destruct (wf_store _ Hwf) as (_ & Hkeys & _).
  pose proof (run_command_sound fuel (st_toks (p_prog (pass1_of' text))) (st_keys (p_prog (pass1_of' text))) Hclean G
                (fun n Hn => proj1 (Hkeys n) Hn) fi line s0 Hidle Ht Hk Hc Hcmd) as H.
  destruct (start_evaluating fi line s0) as [[[]|e l|p| |] s1]; try exact H; try exact I.
  intros s Hr Hst.
  exact (proj2 (run_sound fuel (st_toks (p_prog (pass1_of' text))) (st_keys (p_prog (pass1_of' text))) Hclean G
                  (fun n Hn => proj1 (Hkeys n) Hn) fi s1 s H Hr) Hst).
Qed.
