(* Proofs/WarnProofs.v — C17: when a warning is issued.

   The model (like the Rust) calls [warn] at exactly two sites: the read of a
   plain variable in an expression term, and the touch of an array cell
   (read in a term, write in an assignment / READ / INPUT target).  At each
   site, with any flags and from any state:

     a Warning record is appended  <->  warnings are enabled AND the name has
                                        never been assigned (is not in the
                                        variable store / array store),

   it is appended BEFORE the value is produced, it carries the current line
   number, and nothing else about the state changes.  With warnings disabled
   no Warning record is ever appended by any computation (C17_transparent's
   erasure argument, Proofs/FlagsSim.v). *)
From Coq Require Import List NArith ZArith Bool Lia.
From Abasic Require Import Model.Bytes Model.Num Model.Token Model.Data Model.Lexer Gen.Tables
     Model.State Model.Eval Model.Interp Proofs.Monad Proofs.ExprSem.
Import ListNotations.
Local Open Scope nat_scope.

Definition undeclared_variable_msg (sym : bytes) : bytes := bs "Use of undeclared variable '" ++ sym ++ bs "'.".
Definition undeclared_array_msg (name : bytes) : bytes := bs "Use of undeclared array '" ++ name ++ bs "'.".

(* the records one site appends *)
Definition warning_if (cond : bool) (msg : bytes) (s : interp) : list output :=
  if cond then [OWarning msg (loc_line (loc s))] else [].

Lemma warn_run msg s :
  warn msg s = (Ok tt, set_outputs (outputs s ++ warning_if (enable_warnings s) msg s) s).
Proof.
  unfold warn, warning_if, bind, get, get_line_number, push_output, modify, ret. cbn [fst snd].
  destruct (enable_warnings s); cbn [fst snd]; [reflexivity|].
  rewrite app_nil_r. destruct s; reflexivity.
Qed.

(* site 1: touching an array *)
Theorem array_touch_warns name s :
  maybe_warn_undeclared_array name s
  = (Ok tt, set_outputs (outputs s ++ warning_if (enable_warnings s && negb (alist_has name (arrays s)))
                                                  (undeclared_array_msg name) s) s).
Proof.
  unfold maybe_warn_undeclared_array. rewrite !bind_get_run.
  destruct (enable_warnings s) eqn:Ew; cbn [andb].
  - destruct (negb (alist_has name (arrays s))).
    + rewrite warn_run, Ew. reflexivity.
    + unfold ret, warning_if. rewrite app_nil_r. destruct s; reflexivity.
  - unfold ret, warning_if. rewrite app_nil_r. destruct s; reflexivity.
Qed.

(* site 2: the read of a plain variable (not shadowed by a function parameter) *)
Definition variable_read (sym : bytes) : M value :=
  w <- get enable_warnings ;;
  vs <- get variables ;;
  (if w && negb (alist_has sym vs) then warn (undeclared_variable_msg sym) else ret tt) ;;;
  variables_get sym.

Theorem variable_read_warns sym s :
  variable_read sym s
  = (Ok (match alist_get sym (variables s) with Some v => v | None => default_value sym end),
     set_outputs (outputs s ++ warning_if (enable_warnings s && negb (alist_has sym (variables s)))
                                          (undeclared_variable_msg sym) s) s).
Proof.
  unfold variable_read. rewrite !bind_get_run.
  destruct (enable_warnings s) eqn:Ew; cbn [andb].
  - destruct (negb (alist_has sym (variables s))).
    + unfold bind at 1. rewrite warn_run, Ew. reflexivity.
    + unfold bind, ret, variables_get, get, warning_if. cbn [fst snd]. rewrite app_nil_r. destruct s; reflexivity.
  - unfold bind, ret, variables_get, get, warning_if. cbn [fst snd]. rewrite app_nil_r. destruct s; reflexivity.
Qed.

(* ... and that is what an expression term does on a variable token that is
   not followed by "(" and not bound as a function parameter *)
Theorem term_reads_variable fuel (rec : M value) s toks sym i r o :
  fst (cur_tokens s) = Ok toks -> nth_error toks i = Some (TSymbol sym) ->
  (forall t, nth_error toks (S i) = Some t -> t <> TLeftParen) ->
  find_in_frames sym (rev (stack s)) = None ->
  expression_term fuel rec (at_idx s i r o) = variable_read sym (at_idx s (S i) (S (S r)) o).
Proof.
  intros Htoks Hn Hnp Hfr. unfold expression_term.
  assert (Hnu : next_unwrapped_token (at_idx s i r o) = (Ok (TSymbol sym), at_idx s (S i) (S r) o)).
  { unfold next_unwrapped_token. erewrite bind_ok by (apply (next_some s toks Htoks); exact Hn). reflexivity. }
  erewrite bind_ok by exact Hnu. cbv iota beta.
  erewrite bind_ok by apply (peek_is_at s toks Htoks).
  assert (Hp : match nth_error toks (S i) with Some t => token_eqb t TLeftParen | None => false end = false).
  { destruct (nth_error toks (S i)) as [t|] eqn:E; [|reflexivity].
    specialize (Hnp t eq_refl). destruct t; try reflexivity. congruence. }
  rewrite Hp. cbv iota.
  unfold find_variable_value_in_stack. rewrite bind_assoc, bind_get_run.
  change (stack (at_idx s (S i) (S (S r)) o)) with (stack s). rewrite Hfr.
  reflexivity.
Qed.
