(* Proofs/AnalyzerProofs.v — C05: the static analysis' bookkeeping.

   Pass 1 of [analyze] (one step per file line: tokenize, store, record token
   classes and source ranges) keeps the invariant [P1]:
     - one token list and one range record per file line (shape);
     - every recorded range of file line i (the line-number range, each token
       range, the error range) lies inside line i and on character boundaries;
     - every BASIC-line binding points at an existing file line;
     - token ranges of a line are ordered and do not overlap;
     - every tokenizer-error message names a file line that recorded an error
       range.
   Consequences for the finished analysis (the walk does not touch the map):
   shape (analysis_shape), ordered tokens (analysis_tokens_ordered), and every
   diagnostic that maps to a source range maps INTO its line, on character
   boundaries (mapped_in_bounds). *)
From Coq Require Import List NArith ZArith Bool Lia Arith.
From Abasic Require Import Model.Bytes Model.Num Model.Token Model.Data Model.Lexer Gen.Tables
     Model.State Model.Eval Model.Interp Model.Analyzer Proofs.LexerRanges.
Import ListNotations.
Local Open Scope nat_scope.

Definition range_ok (line : bytes) (r : nat * nat) : Prop :=
  fst r <= snd r /\ snd r <= length line
  /\ char_boundary line (fst r) = true /\ char_boundary line (snd r) = true.

Definition lr_ok (line : bytes) (lr : line_ranges) : Prop :=
  lr_length lr = length line
  /\ range_ok line (0, lr_number_end lr)
  /\ (forall trs, lr_token_ranges lr = Some trs -> Forall (range_ok line) trs)
  /\ (forall r, lr_error_range lr = Some r -> range_ok line r).

(* token class ranges of one file line: ordered, non-overlapping, non-empty *)
Fixpoint ordered (lo : nat) (l : list (N * (nat * nat))) : Prop :=
  match l with
  | [] => True
  | (_, (a, b)) :: r => lo <= a /\ a <= b /\ ordered b r
  end.

Definition msg_ok (ranges : list line_ranges) (msg : message) : Prop :=
  match msg with
  | MError fl (ESyntaxTok _) _ =>
      exists lr r, nth_error ranges fl = Some lr /\ lr_error_range lr = Some r
  | _ => True
  end.

(* ------------------------------------------------------------------ *)
(* the line-number prefix ends on a character boundary *)

Lemma digit_run_split s : exists r, s = digit_run s ++ r /\ Forall (fun b => is_digit b = true) (digit_run s).
Proof.
  induction s as [|b s IH]; cbn [digit_run]; [exists []; split; [reflexivity|constructor]|].
  destruct (is_digit b) eqn:E; [|exists (b :: s); split; [reflexivity|constructor]].
  destruct IH as (r & Hr & Hf). exists r. split; [cbn; congruence|constructor; assumption].
Qed.

Lemma skip_ascii_ws_le s : skip_ascii_ws s <= length s.
Proof. induction s as [|b s IH]; cbn [skip_ascii_ws length]; [lia|]. destruct (is_ascii_ws b); lia. Qed.

Lemma is_digit_ascii b : is_digit b = true -> (b < 128)%N.
Proof. unfold is_digit. intros H. apply andb_true_iff in H as [H1 H2]. apply N.leb_le in H2. apply N.le_lt_trans with (1 := H2). reflexivity. Qed.

Lemma parse_line_number_end line n e :
  valid_utf8 line = true -> parse_line_number line = Some (n, e) ->
  0 < e /\ e <= length line /\ char_boundary line e = true.
Proof.
  intros Hv. unfold parse_line_number.
  set (w := skip_ascii_ws line). set (ds := digit_run (skipn w line)).
  destruct ds as [|d ds'] eqn:Eds; [discriminate|].
  destruct (_ <=? U64_MAX)%N; [|discriminate]. intros H. inversion H; subst n e. clear H.
  destruct (digit_run_split (skipn w line)) as (r & Hr & Hf). fold ds in Hr, Hf. rewrite Eds in Hr, Hf.
  assert (Hw : w <= length line) by apply skip_ascii_ws_le.
  assert (Hlen : length line = w + length (d :: ds') + length r).
  { rewrite <- (firstn_skipn w line) at 1. rewrite app_length, firstn_length_le by exact Hw.
    rewrite Hr, app_length. lia. }
  cbn [length] in Hlen |- *. split; [lia|]. split; [lia|].
  apply valid_utf8_Valid in Hv. apply (Valid_char_boundary_nc _ _ Hv).
  (* the byte before position e is the last digit *)
  assert (Hlast : exists c, nth_error line (w + length (d :: ds') - 1) = Some c /\ is_digit c = true).
  { assert (Hn : nth_error (skipn w line) (length (d :: ds') - 1) = nth_error (d :: ds') (length (d :: ds') - 1)).
    { rewrite Hr. apply nth_error_app1. cbn [length]. lia. }
    rewrite nth_error_skipn in Hn.
    destruct (nth_error (d :: ds') (length (d :: ds') - 1)) as [c|] eqn:Ec.
    - exists c. replace (w + length (d :: ds') - 1) with (w + (length (d :: ds') - 1)) by (cbn [length]; lia).
      split; [exact Hn|]. rewrite Forall_forall in Hf. apply Hf. eapply nth_error_In; exact Ec.
    - apply nth_error_None in Ec. cbn [length] in Ec. lia. }
  destruct Hlast as (c & Hc & Hd).
  cbn [length] in Hc.
  replace (w + S (length ds')) with (S (w + S (length ds') - 1)) by lia.
  eapply Valid_after_ascii; [exact Hv|exact Hc|apply is_digit_ascii, Hd].
Qed.

(* ------------------------------------------------------------------ *)
(* ranges of a tokenization, as [range_ok] / [ordered] facts *)

Lemma ranges_ok_ordered lo hi ts :
  ranges_ok lo hi ts -> ordered lo (map (fun tr => (token_class (fst tr), snd tr)) ts).
Proof.
  revert lo. induction ts as [|[t [a b]] ts IH]; intros lo H; cbn [map ordered]; [exact I|].
  cbn [ranges_ok] in H. destruct H as (H1 & H2 & H3 & H4). cbn [fst snd].
  split; [exact H1|]. split; [lia|]. apply IH, H4.
Qed.

Lemma ranges_ok_In lo hi ts t a b : ranges_ok lo hi ts -> In (t, (a, b)) ts -> lo <= a /\ a < b /\ b <= hi.
Proof.
  revert lo. induction ts as [|[t' [a' b']] ts IH]; intros lo H Hin; [destruct Hin|].
  cbn [ranges_ok] in H. destruct H as (H1 & H2 & H3 & H4).
  destruct Hin as [E|Hin]; [inversion E; subst; lia|].
  destruct (IH _ H4 Hin) as (I1 & I2 & I3). lia.
Qed.

Lemma tokenize_range_ok line skip ts :
  valid_utf8 line = true -> char_boundary line skip = true -> skip <= length line ->
  tokenize line skip = TokOk ts -> Forall (range_ok line) (map snd ts).
Proof.
  intros Hv Hb Hs Ht. rewrite Forall_forall. intros [a b] Hin.
  apply in_map_iff in Hin as ([t [a' b']] & E & Hin). cbn [snd] in E. inversion E; subst a' b'.
  pose proof (tokenize_ranges_ok line skip ts Hs Ht) as Hr.
  destruct (ranges_ok_In _ _ _ _ _ _ Hr Hin) as (H1 & H2 & H3).
  destruct (tokenize_char_boundaries line skip ts Hv Hb Hs Ht t a b Hin) as [B1 B2].
  unfold range_ok. cbn [fst snd]. repeat split; (lia || assumption).
Qed.

Lemma widen_end_spec line : forall fuel e, e <= length line ->
  e <= widen_end fuel line e /\ widen_end fuel line e <= length line
  /\ (4 <= fuel -> valid_utf8 line = true -> True).
Proof.
  induction fuel as [|f IH]; intros e He; cbn [widen_end]; [repeat split; lia|].
  destruct (char_boundary line e) eqn:Eb; [repeat split; lia|].
  assert (e < length line).
  { unfold char_boundary in Eb. destruct e as [|e]; [discriminate|].
    destruct (nth_error line (S e)) as [b|] eqn:En.
    - apply nth_error_Some. congruence.
    - apply Nat.eqb_neq in Eb. lia. }
  destruct (IH (S e)) as (I1 & I2 & _); [lia|]. repeat split; lia.
Qed.

(* [widen_end] stops on a boundary, or at its fuel's end; on valid UTF-8 four
   steps always suffice — here we only need: IF it stopped on a boundary.  The
   error range is recorded as-is, so [range_ok] asks for the boundary itself:
   we prove it from validity (a character is at most 4 bytes long). *)
Lemma char_boundary_len line : char_boundary line (length line) = true.
Proof.
  unfold char_boundary. destruct (length line) as [|n] eqn:E; [reflexivity|].
  destruct (nth_error line (S n)) as [b|] eqn:En; [|apply Nat.eqb_refl].
  assert (S n < length line) by (apply nth_error_Some; congruence). lia.
Qed.

(* on valid UTF-8, a character boundary is at most three bytes away *)
Lemma good_char_len c : good_char c -> 1 <= length c <= 4.
Proof.
  destruct c as [|b0 tl]; [intros []|]. intros (_ & Hl & _). rewrite Hl. unfold utf8_len.
  destruct (b0 <? 192)%N, (b0 <? 224)%N, (b0 <? 240)%N; lia.
Qed.

Lemma boundary_within_3 s : Valid s -> forall e, e <= length s -> exists k, k <= 3 /\ nc s (e + k).
Proof.
  induction 1 as [|c r Hc Hr IH]; intros e He.
  - exists 0. split; [lia|]. left. cbn in *. lia.
  - pose proof (good_char_len c Hc) as Hl.
    destruct (Nat.lt_ge_cases e (length c)) as [Hlt|Hge].
    + destruct e as [|e].
      * exists 0. split; [lia|]. apply Valid_nc_0. constructor; assumption.
      * exists (length c - S e). split; [lia|].
        replace (S e + (length c - S e)) with (length c + 0) by lia. apply nc_app, Valid_nc_0, Hr.
    + rewrite app_length in He. destruct (IH (e - length c)) as (k & Hk & Hn); [lia|].
      exists k. split; [exact Hk|]. replace (e + k) with (length c + (e - length c + k)) by lia.
      apply nc_app, Hn.
Qed.

Lemma widen_end_boundary s : Valid s -> forall fuel e k, e <= length s -> k < fuel -> nc s (e + k) ->
  nc s (widen_end fuel s e).
Proof.
  intros Hv. induction fuel as [|f IH]; intros e k He Hk Hn; [lia|]. cbn [widen_end].
  destruct (char_boundary s e) eqn:Eb; [apply (Valid_char_boundary_nc _ _ Hv), Eb|].
  destruct k as [|k].
  - rewrite Nat.add_0_r in Hn. apply (Valid_char_boundary_nc _ _ Hv) in Hn. congruence.
  - assert (e < length s).
    { unfold char_boundary in Eb. destruct e as [|e]; [discriminate|].
      destruct (nth_error s (S e)) as [b|] eqn:En; [apply nth_error_Some; congruence|].
      apply Nat.eqb_neq in Eb. lia. }
    apply (IH (S e) k); [lia|lia|]. replace (S e + k) with (e + S k) by lia. exact Hn.
Qed.

Lemma widen4_ok s e : valid_utf8 s = true -> e <= length s ->
  e <= widen_end 4 s e /\ widen_end 4 s e <= length s /\ char_boundary s (widen_end 4 s e) = true.
Proof.
  intros Hv He. destruct (widen_end_spec s 4 e He) as (H1 & H2 & _). split; [exact H1|]. split; [exact H2|].
  apply valid_utf8_Valid in Hv. apply (Valid_char_boundary_nc _ _ Hv).
  destruct (boundary_within_3 s Hv e He) as (k & Hk & Hn). apply (widen_end_boundary s Hv 4 e k); (lia || assumption).
Qed.

(* ------------------------------------------------------------------ *)
(* the invariant of pass 1 *)

Record P1 (lines : list bytes) (p : pass1) : Prop := {
  p1_ranges : Forall2 lr_ok lines (sm_ranges (p_map p));
  p1_toks_len : length (p_toks p) = length lines;
  p1_toks : Forall (fun lt => ordered 0 lt) (p_toks p);
  p1_bind : Forall (fun kv => snd kv < length lines) (sm_lines (p_map p));
  p1_msgs : Forall (msg_ok (sm_ranges (p_map p))) (p_msgs p) }.

Lemma msg_ok_app ranges extra msg : msg_ok ranges msg -> msg_ok (ranges ++ extra) msg.
Proof.
  destruct msg as [fl l t|fl e l]; cbn; auto. destruct e; auto.
  intros (lr & r & H1 & H2). exists lr, r. split; [|exact H2]. rewrite nth_error_app1; [exact H1|].
  apply nth_error_Some. congruence.
Qed.

Lemma Forall_msg_ok_app ranges extra msgs :
  Forall (msg_ok ranges) msgs -> Forall (msg_ok (ranges ++ extra)) msgs.
Proof. apply Forall_impl. intros m. apply msg_ok_app. Qed.

Lemma lr_ok_empty line : line = [] \/ True -> range_ok line (0, 0).
Proof. intros _. unfold range_ok. cbn. repeat split; lia. Qed.

Lemma lr_ok_empty_ranges line : lr_ok line (mkranges 0 None None (length line)).
Proof.
  unfold lr_ok. cbn. split; [reflexivity|]. split; [unfold range_ok; cbn; repeat split; lia|].
  split; intros ? H; discriminate.
Qed.

Lemma Forall2_snoc {A B} (R : A -> B -> Prop) l1 l2 a b :
  Forall2 R l1 l2 -> R a b -> Forall2 R (l1 ++ [a]) (l2 ++ [b]).
Proof. intros H Hab. apply Forall2_app; [exact H|constructor; [exact Hab|constructor]]. Qed.

Lemma Forall_bind_mono n (l : list (N * nat)) :
  Forall (fun kv => snd kv < n) l -> Forall (fun kv => snd kv < S n) l.
Proof. apply Forall_impl. intros; lia. Qed.

(* empty_ranges records length 0; the model uses it for blank and unnumbered
   lines, whose recorded length is never read for them (no range of such a line
   is ever produced except the line-number range (0, 0)) — so the invariant for
   those lines is stated on the ranges only *)
Definition lr_ok' (line : bytes) (lr : line_ranges) : Prop :=
  range_ok line (0, lr_number_end lr)
  /\ (forall trs, lr_token_ranges lr = Some trs -> Forall (range_ok line) trs)
  /\ (forall r, lr_error_range lr = Some r -> range_ok line r).

Record P1' (lines : list bytes) (p : pass1) : Prop := {
  q_ranges : Forall2 lr_ok' lines (sm_ranges (p_map p));
  q_toks_len : length (p_toks p) = length lines;
  q_toks : Forall (fun lt => ordered 0 lt) (p_toks p);
  q_bind : Forall (fun kv => snd kv < length lines) (sm_lines (p_map p));
  q_msgs : Forall (msg_ok (sm_ranges (p_map p))) (p_msgs p) }.

Lemma lr_ok'_empty line : lr_ok' line empty_ranges.
Proof.
  unfold lr_ok', empty_ranges. cbn. split; [unfold range_ok; cbn; repeat split; lia|].
  split; intros ? H; discriminate.
Qed.

Lemma P1'_init : P1' [] (mkpass1 init_interp [] (mkmap [] []) []).
Proof. split; cbn; constructor. Qed.

Lemma P1'_step lines p line :
  valid_utf8 line = true -> P1' lines p -> P1' (lines ++ [line]) (pass1_line (length lines) line p).
Proof.
  intros Hv [Q1 Q2 Q3 Q4 Q5].
  assert (Hlen : length (sm_ranges (p_map p)) = length lines).
  { clear -Q1. induction Q1; cbn; congruence. }
  assert (K : forall lr lt msgs binds prog,
             lr_ok' line lr -> ordered 0 lt ->
             Forall (msg_ok (sm_ranges (p_map p) ++ [lr])) msgs ->
             Forall (fun kv => snd kv < length (lines ++ [line])) binds ->
             P1' (lines ++ [line]) (mkpass1 prog msgs (mkmap binds (sm_ranges (p_map p) ++ [lr])) (p_toks p ++ [lt]))).
  { intros lr lt msgs binds prog H1 H2 H3 H4. split; cbn [p_map p_toks p_msgs sm_ranges sm_lines].
    - apply Forall2_snoc; assumption.
    - rewrite !app_length, Q2. reflexivity.
    - apply Forall_app; split; [exact Q3|constructor; [exact H2|constructor]].
    - exact H4.
    - exact H3. }
  assert (Hb : Forall (fun kv => snd kv < length (lines ++ [line])) (sm_lines (p_map p))).
  { rewrite app_length. cbn [length]. rewrite Nat.add_1_r. apply Forall_bind_mono, Q4. }
  assert (Hm : forall lr, Forall (msg_ok (sm_ranges (p_map p) ++ [lr])) (p_msgs p))
    by (intros lr; apply Forall_msg_ok_app, Q5).
  assert (Hm1 : forall lr w, Forall (msg_ok (sm_ranges (p_map p) ++ [lr])) (p_msgs p ++ [MWarning (length lines) None w])).
  { intros lr w. apply Forall_app; split; [apply Hm|constructor; [exact I|constructor]]. }
  unfold pass1_line.
  destruct line as [|b0 rest] eqn:El; [apply K; [apply lr_ok'_empty|exact I|apply Hm|exact Hb]|].
  rewrite <- El in *. clear El.
  assert (Hdummy : match line with [] => True | _ => True end) by (destruct line; exact I).
  destruct (parse_line_number line) as [[n e]|] eqn:Ep.
  2:{ destruct line; (apply K; [apply lr_ok'_empty|exact I|apply Hm1|exact Hb]). }
  destruct (parse_line_number_end line n e Hv Ep) as (He0 & He & Hbe).
  assert (Hnum : range_ok line (0, e)) by (unfold range_ok; cbn; repeat split; (lia || assumption)).
  set (msgs0 := if store_has n (p_prog p) then _ else _).
  assert (Hm0 : forall lr, Forall (msg_ok (sm_ranges (p_map p) ++ [lr])) msgs0).
  { intros lr. subst msgs0. destruct (store_has n (p_prog p)); [apply Hm1|apply Hm]. }
  assert (Hout : match line with [] => False | _ => True end) by (destruct line; [cbn in He; lia|exact I]).
  destruct line as [|b1 rest1] eqn:El; [contradiction|]. rewrite <- El in *. clear Hout Hdummy.
  destruct (tokenize line e) as [ts|ts err] eqn:Et.
  - assert (Hr : Forall (range_ok line) (map snd ts)) by (eapply tokenize_range_ok; eauto).
    assert (Hord : ordered 0 ((number_class, (0, e)) :: map (fun tr => (token_class (fst tr), snd tr)) ts)).
    { cbn [ordered]. split; [lia|]. split; [lia|].
      eapply ranges_ok_ordered. eapply tokenize_ranges_ok; eauto. }
    assert (Hlr : lr_ok' line (mkranges e (Some (map snd ts)) None (length line))).
    { unfold lr_ok'. cbn. split; [exact Hnum|]. split; [intros trs H; inversion H; subst; exact Hr|intros ? H; discriminate]. }
    destruct ts as [|t0 ts0] eqn:Ets.
    + apply K; try assumption.
      apply Forall_app; split; [apply Hm0|constructor; [exact I|constructor]].
    + rewrite <- Ets in *. apply K; try assumption; [apply Hm0|].
      constructor; [cbn [snd]; rewrite Hlen, app_length; cbn [length]; lia|exact Hb].
  - destruct (error_range err (length line)) as [a b] eqn:Eer.
    destruct (tokenize_err_ranges_ok line e ts err He Et) as (_ & Hrng & _). rewrite Eer in Hrng.
    destruct Hrng as (R1 & R2 & R3).
    destruct (tokenize_char_boundaries_err line e ts err Hv Hbe He Et) as (_ & Hba). rewrite Eer in Hba. cbn [fst] in Hba.
    assert (Hble : b <= length line \/ length line < b) by lia.
    set (lr := mkranges e None (Some (a, widen_end 4 line b)) (length line)).
    assert (Hlr : lr_ok' line lr \/ length line < b).
    { destruct Hble as [Hble|Hble]; [left|right; exact Hble].
      destruct (widen4_ok line b Hv Hble) as (W1 & W2 & W3).
      unfold lr_ok', lr. cbn [lr_number_end lr_token_ranges lr_error_range].
      split; [exact Hnum|]. split; [intros ? H; discriminate|].
      intros r H. injection H as <-. unfold range_ok. cbn [fst snd]. split; [exact (Nat.le_trans _ _ _ R3 W1)|]. split; [exact W2|]. split; [exact Hba|exact W3]. }
    destruct Hlr as [Hlr|Hbad].
    + apply K; try assumption.
      * cbn [ordered]. split; [lia|]. split; [lia|exact I].
      * apply Forall_app; split; [apply Hm0|]. constructor; [|constructor].
        cbn. exists lr, (a, widen_end 4 line b). split; [|reflexivity].
        rewrite nth_error_app2 by lia. rewrite Hlen, Nat.sub_diag. reflexivity.
    + (* the end of an error range never exceeds the line *)
      exfalso. pose proof (tokenize_err_end line e ts err He Et) as Hend. rewrite Eer in Hend. cbn [snd] in Hend. lia.
Qed.

Lemma P1'_lines : forall lines done p,
  Forall (fun l => valid_utf8 l = true) lines -> P1' done p ->
  P1' (done ++ lines) (pass1_lines (length done) lines p).
Proof.
  induction lines as [|l lines IH]; intros done p Hv Hp; cbn [pass1_lines].
  - rewrite app_nil_r. exact Hp.
  - inversion Hv as [|? ? Hl Hv']; subst.
    replace (done ++ l :: lines) with ((done ++ [l]) ++ lines) by (rewrite <- app_assoc; reflexivity).
    replace (S (length done)) with (length (done ++ [l])) by (rewrite app_length; cbn; lia).
    apply IH; [exact Hv'|]. apply P1'_step; assumption.
Qed.

Definition pass1_of (text : bytes) : pass1 :=
  pass1_lines 0 (split_lines text) (mkpass1 init_interp [] (mkmap [] []) []).

Lemma pass1_inv text :
  Forall (fun l => valid_utf8 l = true) (split_lines text) -> P1' (split_lines text) (pass1_of text).
Proof. intros Hv. apply (P1'_lines (split_lines text) [] _ Hv P1'_init). Qed.

(* the walk only appends messages *)
Lemma walk_lines_appends fuel m : forall n msgs st r msgs' st',
  walk_lines fuel n m msgs st = (r, msgs', st') -> exists more, msgs' = msgs ++ more.
Proof.
  induction n as [|n IH]; intros msgs st r msgs' st'; cbn [walk_lines].
  - intros H; inversion H; subst. exists []. now rewrite app_nil_r.
  - destruct (walk_line fuel _ m st) as [[om|e l|pp| |] st1].
    + destruct (next_line (fst st1)) as [[[|]|e l|pp| |] p1].
      * intros H. apply IH in H. destruct H as (more & ->).
        destruct om as [msg|]; [exists ([msg] ++ more); now rewrite app_assoc|exists more; reflexivity].
      * intros H; inversion H; subst. destruct om as [msg|]; [exists [msg]; reflexivity|exists []; now rewrite app_nil_r].
      * intros H; inversion H; subst. destruct om as [msg|]; [exists [msg]; reflexivity|exists []; now rewrite app_nil_r].
      * intros H; inversion H; subst. destruct om as [msg|]; [exists [msg]; reflexivity|exists []; now rewrite app_nil_r].
      * intros H; inversion H; subst. destruct om as [msg|]; [exists [msg]; reflexivity|exists []; now rewrite app_nil_r].
      * intros H; inversion H; subst. destruct om as [msg|]; [exists [msg]; reflexivity|exists []; now rewrite app_nil_r].
    + intros H; inversion H; subst. exists []. now rewrite app_nil_r.
    + intros H; inversion H; subst. exists []. now rewrite app_nil_r.
    + intros H; inversion H; subst. exists []. now rewrite app_nil_r.
    + intros H; inversion H; subst. exists []. now rewrite app_nil_r.
Qed.

(* the finished analysis keeps pass 1's map and token lists *)
Lemma analyze_fields fuel text :
  an_map (analyze fuel text) = p_map (pass1_of text)
  /\ an_tokens (analyze fuel text) = p_toks (pass1_of text)
  /\ an_nlines (analyze fuel text) = length (split_lines text)
  /\ exists more, an_messages (analyze fuel text) = p_msgs (pass1_of text) ++ more.
Proof.
  unfold analyze. fold (pass1_of text).
  destruct (walk_lines _ _ _ _ _) as [[r msgs] st] eqn:Ew.
  destruct (walk_lines_appends _ _ _ _ _ _ _ _ Ew) as (more & ->).
  destruct r as [u|e l|pp| |]; cbn; try (repeat split; try reflexivity; exists more; reflexivity).
  destruct (symbol_messages _ _) as [sm|]; cbn; repeat split; try reflexivity.
  - exists (more ++ sm). now rewrite app_assoc.
  - exists more. reflexivity.
Qed.

(* ------------------------------------------------------------------ *)
(* the theorems *)

Theorem analysis_shape fuel text :
  Forall (fun l => valid_utf8 l = true) (split_lines text) ->
  length (an_tokens (analyze fuel text)) = length (split_lines text)
  /\ an_nlines (analyze fuel text) = length (split_lines text)
  /\ length (sm_ranges (an_map (analyze fuel text))) = length (split_lines text).
Proof.
  intros Hv. destruct (analyze_fields fuel text) as (H1 & H2 & H3 & _). rewrite H1, H2, H3.
  destruct (pass1_inv text Hv) as [Q1 Q2 Q3 Q4 Q5]. split; [exact Q2|]. split; [reflexivity|].
  clear -Q1. induction Q1; cbn; congruence.
Qed.

Theorem analysis_tokens_ordered fuel text :
  Forall (fun l => valid_utf8 l = true) (split_lines text) ->
  Forall (fun lt => ordered 0 lt) (an_tokens (analyze fuel text)).
Proof.
  intros Hv. destruct (analyze_fields fuel text) as (_ & H2 & _). rewrite H2.
  exact (q_toks _ _ (pass1_inv text Hv)).
Qed.

Lemma Forall2_nth {A B} (R : A -> B -> Prop) l1 l2 i b :
  Forall2 R l1 l2 -> nth_error l2 i = Some b -> exists a, nth_error l1 i = Some a /\ R a b.
Proof.
  intros H. revert i. induction H as [|x y l1 l2 Hxy _ IH]; intros i Hi; [destruct i; discriminate|].
  destruct i as [|i]; [inversion Hi; subst; exists x; split; [reflexivity|exact Hxy]|apply IH, Hi].
Qed.

Lemma map_location_in_bounds lines m l fl r :
  Forall2 lr_ok' lines (sm_ranges m) -> map_location_to_source m l = Some (fl, r) ->
  exists line, nth_error lines fl = Some line /\ range_ok line r.
Proof.
  intros HF. unfold map_location_to_source.
  destruct (loc_line l) as [n|]; [|discriminate].
  destruct (sm_lookup n (sm_lines m)) as [fl'|]; [|discriminate].
  destruct (nth_error (sm_ranges m) fl') as [lr|] eqn:En; [|discriminate].
  destruct (lr_token_ranges lr) as [trs|] eqn:Et; [|discriminate].
  destruct (nth_error trs _) as [r'|] eqn:Er; [|discriminate].
  intros H; inversion H; subst fl' r'.
  destruct (Forall2_nth _ _ _ _ _ HF En) as (line & Hl & (_ & Htr & _)).
  exists line. split; [exact Hl|]. specialize (Htr trs Et). rewrite Forall_forall in Htr.
  apply Htr. eapply nth_error_In; exact Er.
Qed.

(* every diagnostic that maps to a source range maps into its line *)
Theorem mapped_in_bounds fuel text msg fl r :
  Forall (fun l => valid_utf8 l = true) (split_lines text) ->
  let a := analyze fuel text in
  msg_ok (sm_ranges (an_map a)) msg ->
  map_to_source (an_map a) msg = Some (fl, r) ->
  exists line, nth_error (split_lines text) fl = Some line /\ range_ok line r.
Proof.
  intros Hv a Hok. subst a. destruct (analyze_fields fuel text) as (H1 & _). rewrite H1 in *.
  pose proof (q_ranges _ _ (pass1_inv text Hv)) as HF.
  set (m := p_map (pass1_of text)) in *.
  destruct msg as [mfl [l|] t|mfl e l]; cbn [map_to_source].
  - apply map_location_in_bounds, HF.
  - destruct (nth_error (sm_ranges m) mfl) as [lr|] eqn:En; [|discriminate].
    intros H; inversion H; subst. destruct (Forall2_nth _ _ _ _ _ HF En) as (line & Hl & (Hn & _)).
    exists line. split; assumption.
  - destruct e; try (destruct l as [l|]; [apply map_location_in_bounds, HF|discriminate]).
    cbn in Hok. destruct Hok as (lr & r' & En & Er). rewrite En, Er.
    intros H; inversion H; subst. destruct (Forall2_nth _ _ _ _ _ HF En) as (line & Hl & (_ & _ & He)).
    exists line. split; [exact Hl|]. apply He, Er.
Qed.

(* the messages of pass 1 — every tokenizer error among them — satisfy the
   side condition, and they are a prefix of the analysis' messages *)
Theorem pass1_messages_ok fuel text :
  Forall (fun l => valid_utf8 l = true) (split_lines text) ->
  exists more, an_messages (analyze fuel text) = p_msgs (pass1_of text) ++ more
               /\ Forall (msg_ok (sm_ranges (an_map (analyze fuel text)))) (p_msgs (pass1_of text)).
Proof.
  intros Hv. destruct (analyze_fields fuel text) as (H1 & _ & _ & (more & Hm)).
  exists more. split; [exact Hm|]. rewrite H1. exact (q_msgs _ _ (pass1_inv text Hv)).
Qed.

(* every binding of a BASIC line names an existing file line *)
Theorem bindings_in_file fuel text :
  Forall (fun l => valid_utf8 l = true) (split_lines text) ->
  Forall (fun kv => snd kv < length (split_lines text)) (sm_lines (an_map (analyze fuel text))).
Proof.
  intros Hv. destruct (analyze_fields fuel text) as (H1 & _). rewrite H1.
  exact (q_bind _ _ (pass1_inv text Hv)).
Qed.
