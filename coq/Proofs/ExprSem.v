(* Proofs/ExprSem.v — C02: the token-stream recursive-descent expression
   evaluator (Model/Eval.v, section Expression and [evaluate_expression])
   computes the value of the obvious fold [den] over an abstract syntax tree,
   for every expression tree and every legal parenthesisation.

   Layers:
     L1  cursor lemmas (peek/next/accept/try/expect on a known token list)
     L2  tiers 7 and 6: atoms, parentheses, ABS/INT, one unary operator
     L3  one left-folding binary tier, generically ([tbody], [body_op], [body_stop])
     L4  all tiers: [renders_sem], [expr_sem_gen], [expr_sem]
     L5  corollaries: redundant parentheses, the documented operator rules,
         non-vacuity examples.

   No fuel-monotonicity lemma is needed: every statement has the form
   "there is f0 such that for every fuel >= f0 ...", and the loop-generalised
   statement [LSem] counts the loop iterations that an operand consumes. *)
From Coq Require Import List NArith ZArith Bool Lia Arith.
From Abasic Require Import Model.Bytes Model.Num Model.Token Model.Data Model.Lexer Gen.Tables
     Model.State Model.Eval Model.Interp Proofs.Monad Proofs.Frames.
Import ListNotations.
Local Open Scope nat_scope.

(* ------------------------------------------------------------------ *)
(* Syntax trees, their token spellings, and the reference fold *)

Inductive binop :=
| BOr | BAnd | BCmp (o : eq_op) | BAddSub (o : addsub_op) | BMulDiv (o : muldiv_op) | BPow.

Inductive expr :=
| ENum (x : f64) | EStr (s : bytes) | EVar (name : bytes)
| EUn (op : unary_op) (e : expr)
| EBin (op : binop) (a b : expr)
| EAbs (e : expr) | EInt (e : expr)
| EParen (e : expr).

Definition tier_of (op : binop) : nat :=
  match op with
  | BOr => 0 | BAnd => 1 | BCmp _ => 2 | BAddSub _ => 3 | BMulDiv _ => 4 | BPow => 5
  end.

Definition eq_token (o : eq_op) : token :=
  match o with
  | OEqualTo => TEquals | OLessThan => TLessThan | OLessThanOrEqualTo => TLessThanOrEqualTo
  | OGreaterThan => TGreaterThan | OGreaterThanOrEqualTo => TGreaterThanOrEqualTo
  | ONotEqualTo => TNotEquals
  end.

Definition binop_token (op : binop) : token :=
  match op with
  | BOr => TOr
  | BAnd => TAnd
  | BCmp o => eq_token o
  | BAddSub OAdd => TPlus
  | BAddSub OSubtract => TMinus
  | BMulDiv OMultiply => TMultiply
  | BMulDiv ODivide => TDivide
  | BPow => TCaret
  end.

Definition unary_token (op : unary_op) : token :=
  match op with UPositive => TPlus | UNegative => TMinus | UNot => TNot end.

(* [Renders lvl e ts]: [ts] spells [e] and the grammar accepts it at tier [lvl]
   (0 = OR ... 5 = ^, 6 = unary, 7 = atoms). *)
Inductive Renders : nat -> expr -> list token -> Prop :=
| R_num x : Renders 7 (ENum x) [TNumber x]
| R_str b : Renders 7 (EStr b) [TString b]
| R_var name : Renders 7 (EVar name) [TSymbol name]
| R_paren e ts : Renders 0 e ts -> Renders 7 (EParen e) (TLeftParen :: ts ++ [TRightParen])
| R_abs e ts : Renders 0 e ts ->
    Renders 7 (EAbs e) (TSymbol (bs "ABS") :: TLeftParen :: ts ++ [TRightParen])
| R_int e ts : Renders 0 e ts ->
    Renders 7 (EInt e) (TSymbol (bs "INT") :: TLeftParen :: ts ++ [TRightParen])
| R_un op e ts : Renders 7 e ts -> Renders 6 (EUn op e) (unary_token op :: ts)
| R_bin op a b ta tb :
    Renders (tier_of op) a ta -> Renders (S (tier_of op)) b tb ->
    Renders (tier_of op) (EBin op a b) (ta ++ binop_token op :: tb)
| R_incl k e ts : k < 7 -> Renders (S k) e ts -> Renders k e ts.

(* The tier whose loop consumes a token, if any. *)
Definition tok_tier (t : token) : option nat :=
  match t with
  | TOr => Some 0
  | TAnd => Some 1
  | TEquals | TNotEquals | TLessThan | TLessThanOrEqualTo | TGreaterThan
  | TGreaterThanOrEqualTo => Some 2
  | TPlus | TMinus => Some 3
  | TMultiply | TDivide => Some 4
  | TCaret => Some 5
  | _ => None
  end.

(* [stops lvl rest]: the first token of [rest] (if any) is not a binary operator
   of tier >= lvl and is not "(" . *)
Definition stops (lvl : nat) (rest : list token) : bool :=
  match rest with
  | [] => true
  | TLeftParen :: _ => false
  | t :: _ => match tok_tier t with Some k => k <? lvl | None => true end
  end.

Fixpoint pdepth (e : expr) : nat :=
  match e with
  | ENum _ | EStr _ | EVar _ => 0
  | EUn _ a => pdepth a
  | EBin _ a b => Nat.max (pdepth a) (pdepth b)
  | EAbs a | EInt a | EParen a => S (pdepth a)
  end.

(* The operator applications of operators.rs, as they are in the model. *)
Definition apply_op (op : binop) : value -> value -> M value :=
  match op with
  | BOr => eval_or
  | BAnd => eval_and
  | BCmp o => eval_eq o
  | BAddSub o => eval_addsub o
  | BMulDiv o => eval_muldiv o
  | BPow => eval_pow
  end.

Definition lookup_var (s : interp) (name : bytes) : value :=
  match find_in_frames name (rev (stack s)) with
  | Some v => v
  | None => match alist_get name (variables s) with
            | Some v => v
            | None => default_value name
            end
  end.

(* The reference fold: strict, left operand first. *)
Fixpoint den (s : interp) (e : expr) : res value :=
  match e with
  | ENum x => Ok (VNum x)
  | EStr b => Ok (VStr b)
  | EVar name => Ok (lookup_var s name)
  | EUn op a =>
      match den s a with
      | Ok v => fst (eval_unary op v s)
      | other => other
      end
  | EBin op a b =>
      match den s a with
      | Ok v => match den s b with
                | Ok w => fst (apply_op op v w s)
                | other => other
                end
      | other => other
      end
  | EAbs a =>
      match den s a with
      | Ok (VNum x) => Ok (VNum (f64_abs x))
      | Ok (VStr _) => Err ETypeMismatch None
      | other => other
      end
  | EInt a =>
      match den s a with
      | Ok (VNum x) => Ok (VNum (f64_floor x))
      | Ok (VStr _) => Err ETypeMismatch None
      | other => other
      end
  | EParen a => den s a
  end.

(* ------------------------------------------------------------------ *)
(* Generic helpers *)

Lemma bind_ok {A B} (m : M A) (K : A -> M B) s0 a s1 :
  m s0 = (Ok a, s1) -> bind m K s0 = K a s1.
Proof. intros H; unfold bind; rewrite H; reflexivity. Qed.

Lemma bind_modify_run {B} g (K : unit -> M B) s : bind (modify g) K s = K tt (g s).
Proof. reflexivity. Qed.

Lemma bind_get_run {A B} (f : interp -> A) (K : A -> M B) s : bind (get f) K s = K (f s) s.
Proof. reflexivity. Qed.

Lemma bind_run {A B} (m : M A) (K : A -> M B) s0 R s1 :
  m s0 = (R, s1) ->
  bind m K s0 = match R with
                | Ok a => K a s1
                | Err e l => (Err e l, s1)
                | Panic p => (Panic p, s1)
                | OutOfFuel => (OutOfFuel, s1)
                | OracleMiss => (OracleMiss, s1)
                end.
Proof. intros H; unfold bind; rewrite H; destruct R; reflexivity. Qed.

Lemma repeat_m_S {St R} k (body : St -> M (St + R)) acc :
  repeat_m (S k) body acc =
  bind (body acc) (fun r => match r with inl acc' => repeat_m k body acc' | inr r => ret r end).
Proof. reflexivity. Qed.

Lemma evaluate_expression_S f n :
  evaluate_expression (S f) n =
  if Nat.eqb n max_nesting then fail EStackOverflow
  else logical_or_expression f (evaluate_expression f (S n)).
Proof. reflexivity. Qed.

Lemma skipn_cons_nth {A} (l : list A) i t l' :
  skipn i l = t :: l' -> nth_error l i = Some t /\ skipn (S i) l = l'.
Proof.
  revert l; induction i as [|i IH]; intros [|x l] H; cbn in H; try discriminate.
  - inversion H; subst; split; reflexivity.
  - apply IH in H. exact H.
Qed.

Lemma skipn_nil_nth {A} (l : list A) i : skipn i l = [] -> nth_error l i = None.
Proof.
  revert l; induction i as [|i IH]; intros [|x l] H; cbn in *; try discriminate; auto.
Qed.

Lemma skipn_app_len {A} (l a b : list A) i :
  skipn i l = a ++ b -> skipn (i + length a) l = b.
Proof.
  revert i; induction a as [|x a IH]; intros i H; cbn in *.
  - rewrite Nat.add_0_r; exact H.
  - apply skipn_cons_nth in H. destruct H as [_ H]. apply IH in H.
    rewrite Nat.add_succ_r. exact H.
Qed.

(* ------------------------------------------------------------------ *)
(* L1: the token cursor on a known token list.

   [at_idx s i r o] is the state [s] with the cursor at token index [i] of the
   current line, read counter [r] and output list [o]; these are the only
   components an expression evaluation changes. *)

Definition at_idx (s : interp) (i r : nat) (o : list output) : interp :=
  set_outputs o (set_reads r (set_loc (mkloc (loc_line (loc s)) i) s)).

Lemma at_idx_at_idx s i r o i' r' o' :
  at_idx (at_idx s i r o) i' r' o' = at_idx s i' r' o'.
Proof. reflexivity. Qed.

Lemma at_idx_self s : at_idx s (loc_idx (loc s)) (reads s) (outputs s) = s.
Proof. destruct s as [? ? ? [? ?] ? ? ? ? ? ? ? ? ? ? ? ? ? ? ?]; reflexivity. Qed.

Section Cursor.
  Variable s : interp.
  Variable toks : list token.
  Hypothesis Htoks : fst (cur_tokens s) = Ok toks.

  Lemma cur_tokens_at i r o : cur_tokens (at_idx s i r o) = (Ok toks, at_idx s i r o).
  Proof.
    revert Htoks. unfold cur_tokens, bind, get, tokens_for_line. cbn.
    destruct (loc_line (loc s)); cbn.
    - destruct (toks_get n (st_toks s)); cbn; congruence.
    - congruence.
  Qed.

  Lemma peek_at i r o :
    peek_next_token (at_idx s i r o) = (Ok (nth_error toks i), at_idx s i (S r) o).
  Proof.
    unfold peek_next_token. rewrite bind_modify_run.
    change (set_reads (S (reads (at_idx s i r o))) (at_idx s i r o)) with (at_idx s i (S r) o).
    erewrite bind_ok by apply cur_tokens_at. reflexivity.
  Qed.

  Lemma advance_at i r o : advance (at_idx s i r o) = (Ok tt, at_idx s (S i) r o).
  Proof. reflexivity. Qed.

  Lemma next_some i r o t : nth_error toks i = Some t ->
    next_token (at_idx s i r o) = (Ok (Some t), at_idx s (S i) (S r) o).
  Proof.
    intros H. unfold next_token. erewrite bind_ok by apply peek_at. rewrite H.
    erewrite bind_ok by apply advance_at. reflexivity.
  Qed.

  Lemma next_unwrapped_some i r o t : nth_error toks i = Some t ->
    next_unwrapped_token (at_idx s i r o) = (Ok t, at_idx s (S i) (S r) o).
  Proof.
    intros H. unfold next_unwrapped_token. erewrite bind_ok by (apply next_some; eassumption).
    reflexivity.
  Qed.

  Lemma expect_ok i r o t e : nth_error toks i = Some t -> token_eqb t e = true ->
    expect_next_token e (at_idx s i r o) = (Ok tt, at_idx s (S i) (S r) o).
  Proof.
    intros H E. unfold expect_next_token.
    erewrite bind_ok by (apply next_unwrapped_some; eassumption). rewrite E. reflexivity.
  Qed.

  Lemma accept_yes i r o t e : nth_error toks i = Some t -> token_eqb t e = true ->
    accept_next_token e (at_idx s i r o) = (Ok true, at_idx s (S i) (S r) o).
  Proof.
    intros H E. unfold accept_next_token. erewrite bind_ok by apply peek_at. rewrite H, E.
    erewrite bind_ok by apply advance_at. reflexivity.
  Qed.

  Lemma accept_no i r o e :
    (forall t, nth_error toks i = Some t -> token_eqb t e = false) ->
    accept_next_token e (at_idx s i r o) = (Ok false, at_idx s i (S r) o).
  Proof.
    intros H. unfold accept_next_token. erewrite bind_ok by apply peek_at.
    destruct (nth_error toks i) as [t|]; [rewrite (H t eq_refl)|]; reflexivity.
  Qed.

  Lemma peek_is_at i r o e :
    peek_is e (at_idx s i r o) =
    (Ok (match nth_error toks i with Some t => token_eqb t e | None => false end),
     at_idx s i (S r) o).
  Proof. unfold peek_is. erewrite bind_ok by apply peek_at. reflexivity. Qed.

  Lemma try_some {A} (f : token -> option A) i r o t a :
    nth_error toks i = Some t -> f t = Some a ->
    try_next_token f (at_idx s i r o) = (Ok (Some a), at_idx s (S i) (S r) o).
  Proof.
    intros H E. unfold try_next_token. erewrite bind_ok by apply peek_at. rewrite H, E.
    erewrite bind_ok by apply advance_at. reflexivity.
  Qed.

  Lemma try_none {A} (f : token -> option A) i r o :
    (forall t, nth_error toks i = Some t -> f t = None) ->
    try_next_token f (at_idx s i r o) = (Ok None, at_idx s i (S r) o).
  Proof.
    intros H. unfold try_next_token. erewrite bind_ok by apply peek_at.
    destruct (nth_error toks i) as [t|]; [rewrite (H t eq_refl)|]; reflexivity.
  Qed.

  Lemma accept_as_yes {O} (x : O) i r o t e :
    nth_error toks i = Some t -> token_eqb t e = true ->
    accept_as e x (at_idx s i r o) = (Ok (Some x), at_idx s (S i) (S r) o).
  Proof.
    intros H E. unfold accept_as. erewrite bind_ok by (eapply accept_yes; eassumption).
    reflexivity.
  Qed.

  Lemma accept_as_no {O} (x : O) i r o e :
    (forall t, nth_error toks i = Some t -> token_eqb t e = false) ->
    accept_as e x (at_idx s i r o) = (Ok None, at_idx s i (S r) o).
  Proof.
    intros H. unfold accept_as. erewrite bind_ok by (apply accept_no; assumption).
    reflexivity.
  Qed.
End Cursor.

(* ------------------------------------------------------------------ *)
(* The tiers of the evaluator, indexed by number; one left-folding tier *)

Lemma bind_assoc {A B C} (m : M A) (f : A -> M B) (g : B -> M C) s :
  bind (bind m f) g s = bind m (fun a => bind (f a) g) s.
Proof. unfold bind; destruct (m s) as [[a| | | |] s1]; reflexivity. Qed.

(* The body of the loop of [tier]. *)
Definition tbody {O} (get_op : M (option O)) (operand : M value)
    (apply : O -> value -> value -> M value) (v : value) : M (value + value) :=
  o <- get_op ;;
  match o with
  | None => ret (inr v)
  | Some op => w <- operand ;; v' <- apply op v w ;; ret (inl v')
  end.

Lemma tier_tbody {O} F (g : M (option O)) operand ap :
  tier F g operand ap = bind operand (repeat_m F (tbody g operand ap)).
Proof. reflexivity. Qed.

(* [ev k F n]: the evaluator of tier [k], with loop fuel and recursion fuel [F],
   at nesting counter [n] (so that a parenthesis calls
   [evaluate_expression F (S n)]). *)
Definition ev (k F n : nat) : M value :=
  let rec := evaluate_expression F (S n) in
  match k with
  | 0 => logical_or_expression F rec
  | 1 => logical_and_expression F rec
  | 2 => equality_expression F rec
  | 3 => plus_or_minus_expression F rec
  | 4 => multiply_or_divide_expression F rec
  | 5 => exponent_expression F rec
  | 6 => unary_operator F rec
  | _ => parenthesized_expression F rec
  end.

Definition body (k F n : nat) : value -> M (value + value) :=
  match k with
  | 0 => tbody (accept_as TOr tt) (ev 1 F n) (fun _ => eval_or)
  | 1 => tbody (accept_as TAnd tt) (ev 2 F n) (fun _ => eval_and)
  | 2 => tbody (try_next_token eq_of_token) (ev 3 F n) eval_eq
  | 3 => tbody (try_next_token addsub_of_token) (ev 4 F n) eval_addsub
  | 4 => tbody (try_next_token muldiv_of_token) (ev 5 F n) eval_muldiv
  | _ => tbody (accept_as TCaret tt) (ev 6 F n) (fun _ => eval_pow)
  end.

Lemma ev_tier k F n : k <= 5 ->
  ev k F n = bind (ev (S k) F n) (repeat_m F (body k F n)).
Proof. intros H. do 6 (destruct k as [|k]; [reflexivity|]). lia. Qed.

Lemma ev_6 F n : ev 6 F n = unary_operator F (evaluate_expression F (S n)).
Proof. reflexivity. Qed.

Lemma ev_7 F n : ev 7 F n = parenthesized_expression F (evaluate_expression F (S n)).
Proof. reflexivity. Qed.

Lemma evaluate_expression_ev F n : n < max_nesting ->
  evaluate_expression (S F) n = ev 0 F n.
Proof.
  intros H. rewrite evaluate_expression_S.
  destruct (Nat.eqb_spec n max_nesting); [lia | reflexivity].
Qed.

(* Token facts *)
Lemma stops_mono k k' rest : stops k rest = true -> k <= k' -> stops k' rest = true.
Proof.
  intros H Hk. destruct rest as [|t rest]; [reflexivity|].
  destruct t; cbn [stops tok_tier] in *; auto; apply Nat.ltb_lt in H; apply Nat.ltb_lt; lia.
Qed.

Lemma stops_op op l : stops (S (tier_of op)) (binop_token op :: l) = true.
Proof. destruct op as [| |[]|[]|[]|]; reflexivity. Qed.

Lemma unary_of_unary_token op : unary_of_token (unary_token op) = Some op.
Proof. destruct op; reflexivity. Qed.

Lemma renders7_head e ts : Renders 7 e ts ->
  exists t ts', ts = t :: ts' /\ unary_of_token t = None.
Proof.
  intros H. inversion H; subst; try (eexists; eexists; split; [reflexivity | reflexivity]).
  - destruct op; discriminate.
  - lia.
Qed.

(* ------------------------------------------------------------------ *)
(* The semantic statements, relative to a base state [s] whose current line
   has tokens [toks]. *)

Definition is_warning (x : output) : Prop :=
  match x with OWarning _ _ => True | _ => False end.

Definition num_of (R : res value) : res f64 :=
  match R with
  | Ok (VNum x) => Ok x
  | Ok (VStr _) => Err ETypeMismatch None
  | Err e l => Err e l
  | Panic p => Panic p
  | OutOfFuel => OutOfFuel
  | OracleMiss => OracleMiss
  end.

Section Sem.
  Variable s : interp.
  Variable toks : list token.
  Hypothesis Htoks : fst (cur_tokens s) = Ok toks.

  (* what may happen to the output list: nothing, or (warnings on) some
     warning records are appended *)
  Definition W (o o' : list output) : Prop :=
    if enable_warnings s then exists l, o' = o ++ l /\ Forall is_warning l else o' = o.

  Lemma W_refl o : W o o.
  Proof.
    unfold W. destruct (enable_warnings s); [|reflexivity].
    exists []. rewrite app_nil_r. split; [reflexivity | constructor].
  Qed.

  Lemma W_trans o1 o2 o3 : W o1 o2 -> W o2 o3 -> W o1 o3.
  Proof.
    unfold W. destruct (enable_warnings s); [|congruence].
    intros (l1 & -> & H1) (l2 & -> & H2). exists (l1 ++ l2). rewrite app_assoc.
    split; [reflexivity | apply Forall_app; split; assumption].
  Qed.

  (* [p] is outcome [R] in a state that differs from [s] only in the cursor
     index, the read counter and the outputs; on success the cursor is [iend]. *)
  Definition lands {A} (p : res A * interp) (R : res A) (iend : nat) (o : list output) : Prop :=
    exists i' r' o', p = (R, at_idx s i' r' o') /\ (forall v, R = Ok v -> i' = iend) /\ W o o'.

  (* operators are pure *)
  Lemma apply_op_at op v w i r o :
    apply_op op v w (at_idx s i r o) = (fst (apply_op op v w s), at_idx s i r o).
  Proof.
    destruct op as [| |c|a|m|]; cbn [apply_op]; try reflexivity.
    - unfold eval_eq; destruct v, w; reflexivity.
    - unfold eval_addsub; destruct v, w; reflexivity.
    - unfold eval_muldiv; destruct v, w, m; try reflexivity.
      destruct (f64_eqb x0 f64_zero); reflexivity.
    - unfold eval_pow; destruct v, w; try reflexivity.
      rewrite !bind_get_run. change (pow_oracle (at_idx s i r o)) with (pow_oracle s).
      destruct (pow_lookup _ _ _); reflexivity.
  Qed.

  Lemma eval_unary_at op v i r o :
    eval_unary op v (at_idx s i r o) = (fst (eval_unary op v s), at_idx s i r o).
  Proof. destruct op, v; reflexivity. Qed.

  (* ---- L3: one step of a binary tier ---- *)

  Lemma body_op op F n v i r o :
    nth_error toks i = Some (binop_token op) ->
    body (tier_of op) F n v (at_idx s i r o) =
    bind (ev (S (tier_of op)) F n)
         (fun w => bind (apply_op op v w) (fun v' => ret (inl v'))) (at_idx s (S i) (S r) o).
  Proof.
    intros H. destruct op as [| |c|a|m|]; cbn [tier_of body apply_op]; unfold tbody.
    - erewrite bind_ok by (eapply accept_as_yes; [eassumption | eassumption | reflexivity]).
      reflexivity.
    - erewrite bind_ok by (eapply accept_as_yes; [eassumption | eassumption | reflexivity]).
      reflexivity.
    - erewrite bind_ok by (eapply try_some; [eassumption | eassumption | destruct c; reflexivity]).
      reflexivity.
    - erewrite bind_ok by (eapply try_some; [eassumption | eassumption | destruct a; reflexivity]).
      reflexivity.
    - erewrite bind_ok by (eapply try_some; [eassumption | eassumption | destruct m; reflexivity]).
      reflexivity.
    - erewrite bind_ok by (eapply accept_as_yes; [eassumption | eassumption | reflexivity]).
      reflexivity.
  Qed.

  Lemma stops_nth k i : stops k (skipn i toks) = true ->
    forall t, nth_error toks i = Some t ->
      t <> TLeftParen /\ match tok_tier t with Some k' => k' < k | None => True end.
  Proof.
    intros H t Ht. destruct (skipn i toks) as [|t' l] eqn:E.
    - apply skipn_nil_nth in E. congruence.
    - apply skipn_cons_nth in E. destruct E as [E _]. rewrite E in Ht. inversion Ht; subst t'.
      destruct t; cbn [stops tok_tier] in *; try discriminate;
        (split; [discriminate | try exact I; apply Nat.ltb_lt; assumption]).
  Qed.

  Lemma body_stop k F n v i r o : k <= 5 -> stops k (skipn i toks) = true ->
    body k F n v (at_idx s i r o) = (Ok (inr v), at_idx s i (S r) o).
  Proof.
    intros Hk Hs. pose proof (stops_nth _ _ Hs) as Hn.
    do 6 (destruct k as [|k];
      [ cbn [body]; unfold tbody;
        erewrite bind_ok by
          (first [eapply accept_as_no | eapply try_none];
           [eassumption |
            intros t Ht; destruct (Hn t Ht) as [_ Hlt];
            destruct t; cbn [tok_tier] in Hlt; try reflexivity; lia]);
        reflexivity | ]).
    lia.
  Qed.

  Lemma loop_op op F n j v i r o :
    nth_error toks i = Some (binop_token op) ->
    repeat_m (S j) (body (tier_of op) F n) v (at_idx s i r o) =
    bind (ev (S (tier_of op)) F n)
      (fun w => bind (apply_op op v w) (fun v' => repeat_m j (body (tier_of op) F n) v'))
      (at_idx s (S i) (S r) o).
  Proof.
    intros H. rewrite repeat_m_S. unfold bind at 1. rewrite body_op by assumption. unfold bind.
    destruct (ev _ F n _) as [[w| | | |] s1]; try reflexivity.
    destruct (apply_op op v w s1) as [[v'| | | |] s2]; reflexivity.
  Qed.

  Lemma loop_stop k F n j v i r o : k <= 5 -> stops k (skipn i toks) = true ->
    repeat_m (S j) (body k F n) v (at_idx s i r o) = (Ok v, at_idx s i (S r) o).
  Proof.
    intros Hk Hs. rewrite repeat_m_S. erewrite bind_ok by (apply body_stop; assumption).
    reflexivity.
  Qed.

  (* ---- the two statements ---- *)

  (* [Sem k e ts]: the tier-[k] evaluator, started at a spelling [ts] of [e]
     followed by something that no loop of tier >= k consumes, returns [den s e]. *)
  Definition Sem (k : nat) (e : expr) (ts : list token) : Prop :=
    forall n i rest, skipn i toks = ts ++ rest -> stops k rest = true ->
      n + pdepth e < max_nesting ->
    exists f0, forall F, f0 <= F -> forall r o,
      lands (ev k F n (at_idx s i r o)) (den s e) (i + length ts) o.

  (* [LSem k e ts] (k <= 5), the loop-generalised statement: evaluating the
     operand at the head of [ts] and then running the loop of tier [k] is the same
     as running the loop of tier [k] from the value [den s e] after [ts]; [d] is the
     number of loop iterations that [ts] accounts for. *)
  Definition LSem (k : nat) (e : expr) (ts : list token) : Prop :=
    forall n i rest, skipn i toks = ts ++ rest -> stops (S k) rest = true ->
      n + pdepth e < max_nesting ->
    exists d f0, forall F, f0 <= F -> forall j r o,
      match den s e with
      | Ok v => exists r' o',
          bind (ev (S k) F n) (repeat_m (d + j) (body k F n)) (at_idx s i r o) =
          repeat_m j (body k F n) v (at_idx s (i + length ts) r' o') /\ W o o'
      | R => lands (bind (ev (S k) F n) (repeat_m (d + j) (body k F n)) (at_idx s i r o)) R 0 o
      end.

  Definition P (k : nat) (e : expr) (ts : list token) : Prop :=
    if k <=? 5 then LSem k e ts else Sem k e ts.

  Lemma lands_err {A} (R : res A) i r o o0 iend :
    (forall v, R <> Ok v) -> W o0 o -> lands (R, at_idx s i r o) R iend o0.
  Proof.
    intros H HW. exists i, r, o. split; [reflexivity|]. split; [|assumption].
    intros v E. destruct (H v E).
  Qed.

  Lemma lands_any {A} p (R : res A) i1 i2 o :
    (forall v, R <> Ok v) -> lands p R i1 o -> lands p R i2 o.
  Proof.
    intros H (i' & r' & o' & E & _ & HW). exists i', r', o'. split; [assumption|].
    split; [|assumption]. intros v Ev. destruct (H v Ev).
  Qed.

  Lemma LSem_Sem k e ts : k <= 5 -> LSem k e ts -> Sem k e ts.
  Proof.
    intros Hk HL n i rest Hsk Hst Hn.
    destruct (HL n i rest Hsk (stops_mono _ _ _ Hst (Nat.le_succ_diag_r k)) Hn) as (d & f0 & H).
    exists (Nat.max f0 (S d)). intros F HF r o.
    rewrite ev_tier by assumption.
    specialize (H F ltac:(lia) (F - d) r o).
    replace (d + (F - d)) with F in H by lia.
    destruct (den s e) as [v|er l|p| |];
      try (eapply lands_any; [discriminate | exact H]).
    destruct H as (r' & o' & H & HW). rewrite H.
    destruct (F - d) as [|j] eqn:E; [lia|].
    rewrite loop_stop; [| assumption |].
    - exists (i + length ts), (S r'), o'. split; [reflexivity|]. split; [reflexivity | assumption].
    - rewrite (skipn_app_len _ _ _ _ Hsk). assumption.
  Qed.

  Lemma Sem_LSem k e ts : k <= 5 -> Sem (S k) e ts -> LSem k e ts.
  Proof.
    intros Hk HS n i rest Hsk Hst Hn.
    destruct (HS n i rest Hsk Hst Hn) as (f0 & H).
    exists 0, f0. intros F HF j r o.
    destruct (H F HF r o) as (i' & r' & o' & E & Hi & HW).
    erewrite bind_run by exact E.
    destruct (den s e) as [v|er l|p| |].
    - rewrite (Hi v eq_refl). exists r', o'. split; [reflexivity | assumption].
    - apply lands_err; [discriminate | assumption].
    - apply lands_err; [discriminate | assumption].
    - apply lands_err; [discriminate | assumption].
    - apply lands_err; [discriminate | assumption].
  Qed.

  Lemma P_Sem k e ts : P k e ts -> Sem k e ts.
  Proof.
    unfold P. destruct (Nat.leb_spec k 5); [apply LSem_Sem; assumption | auto].
  Qed.

  (* ---- L2: tiers 7 and 6 ---- *)

  Lemma paren_no F rec i r o t :
    nth_error toks i = Some t -> token_eqb t TLeftParen = false ->
    parenthesized_expression F rec (at_idx s i r o) = expression_term F rec (at_idx s i (S r) o).
  Proof.
    intros H E. unfold parenthesized_expression.
    erewrite bind_ok by (eapply accept_no; [eassumption | intros t' Ht'; congruence]).
    reflexivity.
  Qed.

  Lemma sem_num x : Sem 7 (ENum x) [TNumber x].
  Proof.
    intros n i rest Hsk Hst Hn. exists 0. intros F _ r o.
    apply skipn_cons_nth in Hsk. destruct Hsk as [Hnth _].
    rewrite ev_7. erewrite paren_no by (try eassumption; reflexivity).
    unfold expression_term.
    erewrite bind_ok by (eapply next_unwrapped_some; eassumption).
    exists (S i), (S (S r)), o. split; [reflexivity|]. split; [|apply W_refl].
    intros; cbn [length]; lia.
  Qed.

  Lemma sem_str b : Sem 7 (EStr b) [TString b].
  Proof.
    intros n i rest Hsk Hst Hn. exists 0. intros F _ r o.
    apply skipn_cons_nth in Hsk. destruct Hsk as [Hnth _].
    rewrite ev_7. erewrite paren_no by (try eassumption; reflexivity).
    unfold expression_term.
    erewrite bind_ok by (eapply next_unwrapped_some; eassumption).
    exists (S i), (S (S r)), o. split; [reflexivity|]. split; [|apply W_refl].
    intros; cbn [length]; lia.
  Qed.

  Lemma warn_at msg i r o :
    exists o', warn msg (at_idx s i r o) = (Ok tt, at_idx s i r o') /\ W o o'.
  Proof.
    unfold warn, W. rewrite bind_get_run.
    change (enable_warnings (at_idx s i r o)) with (enable_warnings s).
    destruct (enable_warnings s).
    - exists (o ++ [OWarning msg (loc_line (loc s))]). split; [reflexivity|].
      eexists; split; [reflexivity|]. repeat constructor.
    - exists o. split; reflexivity.
  Qed.

  Lemma find_var_at name i r o :
    find_variable_value_in_stack name (at_idx s i r o) =
    (Ok (find_in_frames name (rev (stack s))), at_idx s i r o).
  Proof. reflexivity. Qed.

  Lemma sem_var name : Sem 7 (EVar name) [TSymbol name].
  Proof.
    intros n i rest Hsk Hst Hn. exists 0. intros F _ r o.
    apply skipn_cons_nth in Hsk. destruct Hsk as [Hnth Hsk].
    rewrite ev_7. erewrite paren_no by (try eassumption; reflexivity).
    unfold expression_term.
    erewrite bind_ok by (eapply next_unwrapped_some; eassumption).
    cbv beta iota. erewrite bind_ok by (eapply peek_is_at; eassumption).
    assert (Hp : match nth_error toks (S i) with
                 | Some t => token_eqb t TLeftParen | None => false end = false).
    { destruct (nth_error toks (S i)) as [t|] eqn:E; [|reflexivity].
      rewrite <- Hsk in Hst. destruct (stops_nth _ _ Hst t E) as [Hne _].
      destruct t; try reflexivity. congruence. }
    rewrite Hp.
    erewrite bind_ok by apply find_var_at.
    cbn [den]. unfold lookup_var.
    destruct (find_in_frames name (rev (stack s))) as [v|].
    - exists (S i), (S (S (S r))), o. split; [reflexivity|]. split; [|apply W_refl].
      intros; cbn [length]; lia.
    - rewrite !bind_get_run.
      match goal with |- context [bind (if ?c then warn ?m else ret tt)] =>
        assert (Hw : exists o', (if c then warn m else ret tt) (at_idx s (S i) (S (S (S r))) o)
                                = (Ok tt, at_idx s (S i) (S (S (S r))) o') /\ W o o')
      end.
      { match goal with |- context [if ?c then _ else _] => destruct c end.
        - apply warn_at.
        - exists o. split; [reflexivity | apply W_refl]. }
      destruct Hw as (o' & Hw & HW). erewrite bind_ok by exact Hw.
      exists (S i), (S (S (S r))), o'. split; [reflexivity|]. split; [|assumption].
      intros; cbn [length]; lia.
  Qed.

  Lemma lands_ok {A} (v : A) i r o o0 iend :
    i = iend -> W o0 o -> lands (Ok v, at_idx s i r o) (Ok v) iend o0.
  Proof.
    intros H HW. exists i, r, o. split; [reflexivity|]. split; [intros; assumption | assumption].
  Qed.

  (* the recursive call made by a parenthesis, ABS( or INT( *)
  Lemma rec_lands e ts n i rest :
    Sem 0 e ts -> skipn i toks = ts ++ TRightParen :: rest -> S n + pdepth e < max_nesting ->
    exists f0, forall F, f0 <= F -> forall r o,
      lands (evaluate_expression F (S n) (at_idx s i r o)) (den s e) (i + length ts) o.
  Proof.
    intros HS Hsk Hn. destruct (HS (S n) i (TRightParen :: rest) Hsk eq_refl Hn) as (f0 & H).
    exists (S f0). intros F HF r o. destruct F as [|F]; [lia|].
    rewrite evaluate_expression_ev by lia. apply H; lia.
  Qed.

  Lemma paren_lands F rec i r o ts rest R :
    skipn i toks = TLeftParen :: ts ++ TRightParen :: rest ->
    (forall r o, lands (rec (at_idx s (S i) r o)) R (S i + length ts) o) ->
    lands (parenthesized_expression F rec (at_idx s i r o)) R (S (S (i + length ts))) o.
  Proof.
    intros Hsk Hrec. apply skipn_cons_nth in Hsk. destruct Hsk as [Hnth Hsk].
    unfold parenthesized_expression.
    erewrite bind_ok by (eapply accept_yes; [eassumption | eassumption | reflexivity]).
    destruct (Hrec (S r) o) as (i' & r' & o' & E & Hi & HW).
    erewrite bind_run by exact E.
    destruct R as [v| | | |]; try (apply lands_err; [discriminate | assumption]).
    rewrite (Hi v eq_refl). apply skipn_app_len in Hsk. apply skipn_cons_nth in Hsk.
    destruct Hsk as [Hn2 _].
    erewrite bind_ok by (eapply expect_ok; [eassumption | eassumption | reflexivity]).
    apply lands_ok; [reflexivity | assumption].
  Qed.

  Lemma fn_arg_lands rec i r o ts rest R :
    skipn i toks = TLeftParen :: ts ++ TRightParen :: rest ->
    (forall r o, lands (rec (at_idx s (S i) r o)) R (S i + length ts) o) ->
    lands (unary_number_function_arg rec (at_idx s i r o)) (num_of R) (S (S (i + length ts))) o.
  Proof.
    intros Hsk Hrec. apply skipn_cons_nth in Hsk. destruct Hsk as [Hnth Hsk].
    unfold unary_number_function_arg.
    erewrite bind_ok by (eapply expect_ok; [eassumption | eassumption | reflexivity]).
    destruct (Hrec (S r) o) as (i' & r' & o' & E & Hi & HW).
    erewrite bind_run by exact E.
    destruct R as [[b|x]| | | |]; cbn [num_of];
      try (apply lands_err; [discriminate | assumption]).
    rewrite (Hi _ eq_refl). apply skipn_app_len in Hsk. apply skipn_cons_nth in Hsk.
    destruct Hsk as [Hn2 _].
    change (bind (expect_number (VNum x)) ?K ?s0) with (K x s0). cbv beta.
    erewrite bind_ok by (eapply expect_ok; [eassumption | eassumption | reflexivity]).
    apply lands_ok; [reflexivity | assumption].
  Qed.

  Lemma sem_paren e ts : Sem 0 e ts -> Sem 7 (EParen e) (TLeftParen :: ts ++ [TRightParen]).
  Proof.
    intros HS n i rest Hsk Hst Hn. cbn [pdepth] in Hn.
    cbn [app] in Hsk. rewrite <- app_assoc in Hsk. cbn [app] in Hsk.
    pose proof (proj2 (skipn_cons_nth _ _ _ _ Hsk)) as Hsk2.
    destruct (rec_lands e ts n (S i) rest HS Hsk2 ltac:(lia)) as (f0 & H).
    exists f0. intros F HF r o. rewrite ev_7. cbn [den].
    replace (i + length (TLeftParen :: ts ++ [TRightParen])) with (S (S (i + length ts)))
      by (cbn [length]; rewrite app_length; cbn [length]; lia).
    eapply paren_lands; [eassumption|]. intros r0 o0. apply H; assumption.
  Qed.

  Lemma function_call_abs rec :
    function_call rec (bs "ABS") =
    (x <- unary_number_function_arg rec ;; ret (Some (VNum (f64_abs x)))).
  Proof. reflexivity. Qed.

  Lemma function_call_int rec :
    function_call rec (bs "INT") =
    (x <- unary_number_function_arg rec ;; ret (Some (VNum (f64_floor x)))).
  Proof. reflexivity. Qed.

  Lemma sem_fn name (g : f64 -> f64) e ts :
    (forall rec, function_call rec name =
                 (x <- unary_number_function_arg rec ;; ret (Some (VNum (g x))))) ->
    Sem 0 e ts ->
    forall n i rest,
      skipn i toks = (TSymbol name :: TLeftParen :: ts ++ [TRightParen]) ++ rest ->
      S n + pdepth e < max_nesting ->
    exists f0, forall F, f0 <= F -> forall r o,
      lands (ev 7 F n (at_idx s i r o))
            (match den s e with
             | Ok (VNum x) => Ok (VNum (g x))
             | Ok (VStr _) => Err ETypeMismatch None
             | other => other
             end)
            (i + length (TSymbol name :: TLeftParen :: ts ++ [TRightParen])) o.
  Proof.
    intros Hfc HS n i rest Hsk Hn.
    cbn [app] in Hsk. rewrite <- app_assoc in Hsk. cbn [app] in Hsk.
    apply skipn_cons_nth in Hsk. destruct Hsk as [Hnth Hsk].
    pose proof (skipn_cons_nth _ _ _ _ Hsk) as [Hnth1 Hsk2].
    destruct (rec_lands e ts n (S (S i)) rest HS Hsk2 Hn) as (f0 & H).
    exists f0. intros F HF r o. rewrite ev_7.
    erewrite paren_no by (try eassumption; reflexivity).
    unfold expression_term.
    erewrite bind_ok by (eapply next_unwrapped_some; eassumption).
    cbv beta iota. erewrite bind_ok by (eapply peek_is_at; eassumption).
    rewrite Hnth1. change (token_eqb TLeftParen TLeftParen) with true. cbv iota.
    rewrite Hfc, bind_assoc.
    replace (i + length (TSymbol name :: TLeftParen :: ts ++ [TRightParen]))
      with (S (S (S i + length ts)))
      by (cbn [length]; rewrite app_length; cbn [length]; lia).
    destruct (fn_arg_lands (evaluate_expression F (S n)) (S i) (S (S (S r))) o ts rest (den s e) Hsk
                (fun r0 o0 => H F HF r0 o0)) as (i' & r' & o' & E & Hi & HW).
    erewrite bind_run by exact E.
    destruct (den s e) as [[b|x]| | | |]; cbn [num_of] in *;
      try (apply lands_err; [discriminate | assumption]).
    apply lands_ok; [apply (Hi _ eq_refl) | assumption].
  Qed.

  Lemma sem_abs e ts : Sem 0 e ts ->
    Sem 7 (EAbs e) (TSymbol (bs "ABS") :: TLeftParen :: ts ++ [TRightParen]).
  Proof.
    intros HS n i rest Hsk Hst Hn. cbn [pdepth] in Hn. cbn [den].
    eapply (sem_fn _ f64_abs); eauto using function_call_abs. lia.
  Qed.

  Lemma sem_int e ts : Sem 0 e ts ->
    Sem 7 (EInt e) (TSymbol (bs "INT") :: TLeftParen :: ts ++ [TRightParen]).
  Proof.
    intros HS n i rest Hsk Hst Hn. cbn [pdepth] in Hn. cbn [den].
    eapply (sem_fn _ f64_floor); eauto using function_call_int. lia.
  Qed.

  Lemma sem_un op e ts : Sem 7 e ts -> Sem 6 (EUn op e) (unary_token op :: ts).
  Proof.
    intros HS n i rest Hsk Hst Hn. cbn [pdepth] in Hn. cbn [app] in Hsk.
    apply skipn_cons_nth in Hsk. destruct Hsk as [Hnth Hsk].
    destruct (HS n (S i) rest Hsk (stops_mono _ _ _ Hst (Nat.le_succ_diag_r 6)) Hn) as (f0 & H).
    exists f0. intros F HF r o. rewrite ev_6. unfold unary_operator.
    erewrite bind_ok by (eapply try_some; [eassumption | eassumption | apply unary_of_unary_token]).
    destruct (H F HF (S r) o) as (i' & r' & o' & E & Hi & HW). rewrite ev_7 in E.
    erewrite bind_run by exact E. cbn [den].
    destruct (den s e) as [v| | | |]; try (apply lands_err; [discriminate | assumption]).
    rewrite eval_unary_at.
    destruct (fst (eval_unary op v s)) as [v'| | | |];
      try (apply lands_err; [discriminate | assumption]).
    apply lands_ok; [|assumption]. rewrite (Hi v eq_refl). cbn [length]. lia.
  Qed.

  Lemma sem_incl6 e ts : Renders 7 e ts -> Sem 7 e ts -> Sem 6 e ts.
  Proof.
    intros HR HS n i rest Hsk Hst Hn.
    destruct (renders7_head _ _ HR) as (t & ts' & Hts & Hu).
    destruct (HS n i rest Hsk (stops_mono _ _ _ Hst (Nat.le_succ_diag_r 6)) Hn) as (f0 & H).
    exists f0. intros F HF r o. rewrite ev_6. unfold unary_operator.
    assert (Hnth : nth_error toks i = Some t).
    { subst ts. cbn [app] in Hsk. apply skipn_cons_nth in Hsk. tauto. }
    erewrite bind_ok by (eapply try_none; [eassumption | intros t' Ht'; congruence]).
    destruct (H F HF (S r) o) as (i' & r' & o' & E & Hi & HW). rewrite ev_7 in E.
    erewrite bind_run by exact E.
    destruct (den s e) as [v| | | |]; try (apply lands_err; [discriminate | assumption]).
    apply lands_ok; [apply (Hi v eq_refl) | assumption].
  Qed.

  (* ---- L4: a binary node at its own tier, then all tiers ---- *)

  Lemma lsem_bin op a b ta tb :
    LSem (tier_of op) a ta -> Sem (S (tier_of op)) b tb ->
    LSem (tier_of op) (EBin op a b) (ta ++ binop_token op :: tb).
  Proof.
    intros Ha Hb n i rest Hsk Hst Hn. cbn [pdepth] in Hn.
    rewrite <- app_assoc in Hsk. cbn [app] in Hsk.
    destruct (Ha n i _ Hsk (stops_op op _) ltac:(lia)) as (da & fa & HA).
    pose proof (skipn_app_len _ _ _ _ Hsk) as Hsk1.
    apply skipn_cons_nth in Hsk1. destruct Hsk1 as [Hnth Hsk2].
    destruct (Hb n _ rest Hsk2 Hst ltac:(lia)) as (fb & HB).
    exists (S da), (Nat.max fa fb). intros F HF j r o.
    specialize (HA F ltac:(lia) (S j) r o).
    replace (da + S j) with (S da + j) in HA by lia.
    cbn [den].
    destruct (den s a) as [va|er l|p| |]; try exact HA.
    destruct HA as (r1 & o1 & HA & HW1). rewrite HA.
    rewrite loop_op by assumption.
    destruct (HB F ltac:(lia) (S r1) o1) as (i2 & r2 & o2 & E & Hi & HW2).
    erewrite bind_run by exact E.
    pose proof (W_trans _ _ _ HW1 HW2) as HW.
    destruct (den s b) as [vb|er l|p| |]; try (apply lands_err; [discriminate | assumption]).
    erewrite bind_run by apply apply_op_at.
    destruct (fst (apply_op op va vb s)) as [v'|er l|p| |];
      try (apply lands_err; [discriminate | assumption]).
    exists r2, o2. split; [|assumption].
    rewrite (Hi vb eq_refl). f_equal. f_equal.
    rewrite app_length. cbn [length]. lia.
  Qed.

  Theorem renders_P k e ts : Renders k e ts -> P k e ts.
  Proof.
    induction 1 as [x|b|name|e ts _ IH|e ts _ IH|e ts _ IH|op e ts _ IH
                   |op a b ta tb _ IHa _ IHb|k e ts Hk HR IH].
    - apply sem_num.
    - apply sem_str.
    - apply sem_var.
    - apply sem_paren, P_Sem, IH.
    - apply sem_abs, P_Sem, IH.
    - apply sem_int, P_Sem, IH.
    - apply sem_un, IH.
    - assert (Hk : tier_of op <= 5) by (destruct op; cbn; lia).
      unfold P in *. apply Nat.leb_le in Hk. rewrite Hk in *.
      apply lsem_bin; [exact IHa | apply P_Sem; exact IHb].
    - apply P_Sem in IH. unfold P. destruct (Nat.leb_spec k 5).
      + apply Sem_LSem; assumption.
      + assert (k = 6) by lia. subst k. apply sem_incl6; assumption.
  Qed.

  Theorem renders_sem k e ts : Renders k e ts -> Sem k e ts.
  Proof. intros H. apply P_Sem, renders_P, H. Qed.

  (* The evaluator entry point, relative to the base state. *)
  Theorem expr_sem_at e ts : Renders 0 e ts ->
    forall n i rest, skipn i toks = ts ++ rest -> stops 0 rest = true ->
      n + pdepth e < max_nesting ->
    exists fuel0, forall fuel, fuel0 <= fuel -> forall r o,
      lands (evaluate_expression fuel n (at_idx s i r o)) (den s e) (i + length ts) o.
  Proof.
    intros HR n i rest Hsk Hst Hn.
    destruct (renders_sem _ _ _ HR n i rest Hsk Hst Hn) as (f0 & H).
    exists (S f0). intros fuel Hf r o. destruct fuel as [|F]; [lia|].
    rewrite evaluate_expression_ev by lia. apply H. lia.
  Qed.
End Sem.

(* ------------------------------------------------------------------ *)
(* L4: the main theorems *)

Lemma skipn_length_app {A} (pre l : list A) : skipn (length pre) (pre ++ l) = l.
Proof. induction pre as [|x pre IH]; [reflexivity | exact IH]. Qed.

(* General version (warnings on or off): the result is the fold; on success the
   cursor is just after the expression; nothing but the cursor index, the read
   counter and the outputs changes; the outputs only grow, by warning records,
   and not at all when warnings are off. *)
Theorem expr_sem_gen : forall e ts, Renders 0 e ts ->
  forall s pre rest n,
    fst (cur_tokens s) = Ok (pre ++ ts ++ rest) -> loc_idx (loc s) = length pre ->
    stops 0 rest = true ->
    n + pdepth e < max_nesting ->
  exists fuel0, forall fuel, fuel0 <= fuel ->
    let '(r, s') := evaluate_expression fuel n s in
    r = den s e
    /\ (forall v, r = Ok v -> loc s' = mkloc (loc_line (loc s)) (length pre + length ts))
    /\ set_outputs [] (set_reads 0 (set_loc (loc s) s')) = set_outputs [] (set_reads 0 s)
    /\ (if enable_warnings s
        then exists l, outputs s' = outputs s ++ l /\ Forall is_warning l
        else outputs s' = outputs s).
Proof.
  intros e ts HR s pre rest n Htoks Hidx Hst Hn.
  destruct (expr_sem_at s _ Htoks e ts HR n (length pre) rest (skipn_length_app _ _) Hst Hn)
    as (f0 & H).
  exists f0. intros fuel Hf. specialize (H fuel Hf (reads s) (outputs s)).
  rewrite <- Hidx in *. rewrite at_idx_self in H.
  destruct H as (i' & r' & o' & E & Hi & HW). rewrite E.
  split; [reflexivity|]. split; [|split].
  - intros v Hv. rewrite (Hi v Hv). reflexivity.
  - reflexivity.
  - exact HW.
Qed.

(* Warnings off: the statement of C02. *)
Theorem expr_sem : forall e ts, Renders 0 e ts ->
  forall s pre rest n, enable_warnings s = false ->
    fst (cur_tokens s) = Ok (pre ++ ts ++ rest) -> loc_idx (loc s) = length pre ->
    stops 0 rest = true ->
    n + pdepth e < max_nesting ->
  exists fuel0, forall fuel, fuel0 <= fuel ->
    let '(r, s') := evaluate_expression fuel n s in
    r = den s e
    /\ (forall v, r = Ok v ->
          s' = set_reads (reads s')
                 (set_loc (mkloc (loc_line (loc s)) (length pre + length ts)) s))
    /\ (* on every outcome nothing but the cursor index and the read counter changed *)
       set_reads 0 (set_loc (loc s) s') = set_reads 0 s.
Proof.
  intros e ts HR s pre rest n Hw Htoks Hidx Hst Hn.
  destruct (expr_sem_at s _ Htoks e ts HR n (length pre) rest (skipn_length_app _ _) Hst Hn)
    as (f0 & H).
  exists f0. intros fuel Hf. specialize (H fuel Hf (reads s) (outputs s)).
  rewrite <- Hidx in *. rewrite at_idx_self in H.
  destruct H as (i' & r' & o' & E & Hi & HW). rewrite E.
  unfold W in HW. rewrite Hw in HW. subst o'.
  split; [reflexivity|]. split.
  - intros v Hv. rewrite (Hi v Hv).
    destruct s as [? ? ? [? ?] ? ? ? ? ? ? ? ? ? ? ? ? ? ? ?]; reflexivity.
  - destruct s as [? ? ? [? ?] ? ? ? ? ? ? ? ? ? ? ? ? ? ? ?]; reflexivity.
Qed.

(* ------------------------------------------------------------------ *)
(* L5: corollaries *)

(* -- redundant parentheses never change a result -- *)

Fixpoint erase_parens (e : expr) : expr :=
  match e with
  | EParen a => erase_parens a
  | EUn op a => EUn op (erase_parens a)
  | EBin op a b => EBin op (erase_parens a) (erase_parens b)
  | EAbs a => EAbs (erase_parens a)
  | EInt a => EInt (erase_parens a)
  | ENum _ | EStr _ | EVar _ => e
  end.

Lemma den_erase_parens s e : den s (erase_parens e) = den s e.
Proof.
  induction e as [x|b|name|op a IHa|op a IHa b IHb|a IHa|a IHa|a IHa];
    cbn [erase_parens den]; rewrite ?IHa, ?IHb; reflexivity.
Qed.

Theorem den_parens s e1 e2 : erase_parens e1 = erase_parens e2 -> den s e1 = den s e2.
Proof.
  intros H. rewrite <- (den_erase_parens s e1), <- (den_erase_parens s e2), H. reflexivity.
Qed.

(* [den] reads only the variables, the call stack and the power oracle. *)
Lemma apply_op_ext op v w s1 s2 : pow_oracle s1 = pow_oracle s2 ->
  fst (apply_op op v w s1) = fst (apply_op op v w s2).
Proof.
  intros H. destruct op as [| |c|a|m|]; cbn [apply_op]; try reflexivity.
  - unfold eval_eq; destruct v, w; reflexivity.
  - unfold eval_addsub; destruct v, w; reflexivity.
  - unfold eval_muldiv; destruct v, w, m; try reflexivity.
    destruct (f64_eqb x0 f64_zero); reflexivity.
  - unfold eval_pow; destruct v, w; try reflexivity.
    rewrite !bind_get_run, H. destruct (pow_lookup _ _ _); reflexivity.
Qed.

Lemma den_ext s1 s2 e :
  variables s1 = variables s2 -> stack s1 = stack s2 -> pow_oracle s1 = pow_oracle s2 ->
  den s1 e = den s2 e.
Proof.
  intros Hv Hs Ho.
  induction e as [x|b|name|op a IHa|op a IHa b IHb|a IHa|a IHa|a IHa];
    cbn [den]; rewrite ?IHa, ?IHb; try reflexivity.
  - unfold lookup_var. rewrite Hv, Hs. reflexivity.
  - destruct (den s2 a) as [v| | | |]; try reflexivity. destruct op, v; reflexivity.
  - destruct (den s2 a) as [v| | | |]; try reflexivity.
    destruct (den s2 b) as [w| | | |]; try reflexivity.
    apply apply_op_ext; assumption.
Qed.

(* Two spellings that differ only in redundant parentheses, evaluated in states
   with the same variables, call stack and oracle (for instance the same
   program state with two different immediate lines), give the same outcome:
   the same value or the same error. *)
Theorem expr_parens : forall e1 e2 ts1 ts2,
  Renders 0 e1 ts1 -> Renders 0 e2 ts2 -> erase_parens e1 = erase_parens e2 ->
  forall s1 s2 pre1 pre2 rest1 rest2 n1 n2,
    variables s1 = variables s2 -> stack s1 = stack s2 -> pow_oracle s1 = pow_oracle s2 ->
    fst (cur_tokens s1) = Ok (pre1 ++ ts1 ++ rest1) -> loc_idx (loc s1) = length pre1 ->
    stops 0 rest1 = true -> n1 + pdepth e1 < max_nesting ->
    fst (cur_tokens s2) = Ok (pre2 ++ ts2 ++ rest2) -> loc_idx (loc s2) = length pre2 ->
    stops 0 rest2 = true -> n2 + pdepth e2 < max_nesting ->
  exists fuel0, forall fuel, fuel0 <= fuel ->
    fst (evaluate_expression fuel n1 s1) = fst (evaluate_expression fuel n2 s2).
Proof.
  intros e1 e2 ts1 ts2 R1 R2 He s1 s2 pre1 pre2 rest1 rest2 n1 n2 Hv Hs Ho T1 I1 S1 N1 T2 I2 S2 N2.
  destruct (expr_sem_gen e1 ts1 R1 s1 pre1 rest1 n1 T1 I1 S1 N1) as (f1 & H1).
  destruct (expr_sem_gen e2 ts2 R2 s2 pre2 rest2 n2 T2 I2 S2 N2) as (f2 & H2).
  exists (Nat.max f1 f2). intros fuel Hf.
  specialize (H1 fuel ltac:(lia)). specialize (H2 fuel ltac:(lia)).
  destruct (evaluate_expression fuel n1 s1) as [r1 s1'].
  destruct (evaluate_expression fuel n2 s2) as [r2 s2'].
  destruct H1 as [-> _]. destruct H2 as [-> _]. cbn [fst].
  rewrite (den_ext s1 s2 e1 Hv Hs Ho). apply den_parens, He.
Qed.

(* -- the documented rules, read off [den] -- *)

Section DenFacts.
  Variable s : interp.
  Variables a b : expr.

  (* errors of the left operand win, then errors of the right operand *)
  Lemma den_left_error op e l : den s a = Err e l -> den s (EBin op a b) = Err e l.
  Proof. intros H; cbn [den]; rewrite H; reflexivity. Qed.

  Lemma den_right_error op v e l :
    den s a = Ok v -> den s b = Err e l -> den s (EBin op a b) = Err e l.
  Proof. intros H1 H2; cbn [den]; rewrite H1, H2; reflexivity. Qed.

  (* comparisons yield 1 or 0: numeric, or byte-wise lexicographic on strings *)
  Lemma den_cmp_num o x y : den s a = Ok (VNum x) -> den s b = Ok (VNum y) ->
    den s (EBin (BCmp o) a b) = Ok (from_bool (cmp_num o x y)).
  Proof. intros H1 H2; cbn [den]; rewrite H1, H2; reflexivity. Qed.

  Lemma den_cmp_str o x y : den s a = Ok (VStr x) -> den s b = Ok (VStr y) ->
    den s (EBin (BCmp o) a b) = Ok (from_bool (cmp_str o x y)).
  Proof. intros H1 H2; cbn [den]; rewrite H1, H2; reflexivity. Qed.

  (* logical operators yield 1 or 0; non-zero numbers and non-empty strings are true *)
  Lemma den_and v w : den s a = Ok v -> den s b = Ok w ->
    den s (EBin BAnd a b) = Ok (VNum (if to_bool v && to_bool w then f64_one else f64_zero)).
  Proof. intros H1 H2; cbn [den]; rewrite H1, H2; reflexivity. Qed.

  Lemma den_or v w : den s a = Ok v -> den s b = Ok w ->
    den s (EBin BOr a b) = Ok (VNum (if to_bool v || to_bool w then f64_one else f64_zero)).
  Proof. intros H1 H2; cbn [den]; rewrite H1, H2; reflexivity. Qed.

  Lemma den_not v : den s a = Ok v ->
    den s (EUn UNot a) = Ok (VNum (if to_bool v then f64_zero else f64_one)).
  Proof. intros H; cbn [den]; rewrite H. destruct (to_bool v) eqn:E; cbn; rewrite E; reflexivity. Qed.

  Lemma to_bool_num x : to_bool (VNum x) = negb (f64_eqb x f64_zero).
  Proof. reflexivity. Qed.

  Lemma to_bool_str x : to_bool (VStr x) = negb (Nat.eqb (length x) 0).
  Proof. destruct x; reflexivity. Qed.

  (* arithmetic *)
  Lemma den_add x y : den s a = Ok (VNum x) -> den s b = Ok (VNum y) ->
    den s (EBin (BAddSub OAdd) a b) = Ok (VNum (f64_add x y)).
  Proof. intros H1 H2; cbn [den]; rewrite H1, H2; reflexivity. Qed.

  Lemma den_sub x y : den s a = Ok (VNum x) -> den s b = Ok (VNum y) ->
    den s (EBin (BAddSub OSubtract) a b) = Ok (VNum (f64_sub x y)).
  Proof. intros H1 H2; cbn [den]; rewrite H1, H2; reflexivity. Qed.

  Lemma den_mul x y : den s a = Ok (VNum x) -> den s b = Ok (VNum y) ->
    den s (EBin (BMulDiv OMultiply) a b) = Ok (VNum (f64_mul x y)).
  Proof. intros H1 H2; cbn [den]; rewrite H1, H2; reflexivity. Qed.

  Lemma den_div x y : den s a = Ok (VNum x) -> den s b = Ok (VNum y) ->
    f64_eqb y f64_zero = false ->
    den s (EBin (BMulDiv ODivide) a b) = Ok (VNum (f64_div x y)).
  Proof.
    intros H1 H2 Hz; cbn [den]; rewrite H1, H2. cbn [apply_op]. unfold eval_muldiv.
    rewrite Hz. reflexivity.
  Qed.

  (* dividing by +0 or -0 is DIVISION BY ZERO *)
  Lemma den_div_zero x y : den s a = Ok (VNum x) -> den s b = Ok (VNum y) ->
    f64_eqb y f64_zero = true ->
    den s (EBin (BMulDiv ODivide) a b) = Err EDivisionByZero None.
  Proof.
    intros H1 H2 Hz; cbn [den]; rewrite H1, H2. cbn [apply_op]. unfold eval_muldiv.
    rewrite Hz. reflexivity.
  Qed.

  Lemma neg_zero_is_zero :
    f64_eqb f64_zero f64_zero = true /\ f64_eqb (f64_neg f64_zero) f64_zero = true.
  Proof. split; vm_compute; reflexivity. Qed.

  Lemma den_neg x : den s a = Ok (VNum x) -> den s (EUn UNegative a) = Ok (VNum (f64_neg x)).
  Proof. intros H; cbn [den]; rewrite H; reflexivity. Qed.

  Lemma den_pos v : den s a = Ok v -> den s (EUn UPositive a) = Ok v.
  Proof. intros H; cbn [den]; rewrite H; reflexivity. Qed.

  Lemma den_abs x : den s a = Ok (VNum x) -> den s (EAbs a) = Ok (VNum (f64_abs x)).
  Proof. intros H; cbn [den]; rewrite H; reflexivity. Qed.

  Lemma den_int x : den s a = Ok (VNum x) -> den s (EInt a) = Ok (VNum (f64_floor x)).
  Proof. intros H; cbn [den]; rewrite H; reflexivity. Qed.

  (* mixing string and numeric operands is TYPE MISMATCH (AND/OR accept both) *)
  Definition strict_op (op : binop) : bool :=
    match op with BOr | BAnd => false | _ => true end.

  Lemma den_mixed_sn op x y : strict_op op = true ->
    den s a = Ok (VStr x) -> den s b = Ok (VNum y) ->
    den s (EBin op a b) = Err ETypeMismatch None.
  Proof.
    intros Hop H1 H2; cbn [den]; rewrite H1, H2.
    destruct op as [| |c|o|o|]; try discriminate; reflexivity.
  Qed.

  Lemma den_mixed_ns op x y : strict_op op = true ->
    den s a = Ok (VNum x) -> den s b = Ok (VStr y) ->
    den s (EBin op a b) = Err ETypeMismatch None.
  Proof.
    intros Hop H1 H2; cbn [den]; rewrite H1, H2.
    destruct op as [| |c|o|o|]; try discriminate; reflexivity.
  Qed.

  (* arithmetic on two strings is TYPE MISMATCH as well (no concatenation) *)
  Lemma den_arith_str op x y : strict_op op = true -> (forall c, op <> BCmp c) ->
    den s a = Ok (VStr x) -> den s b = Ok (VStr y) ->
    den s (EBin op a b) = Err ETypeMismatch None.
  Proof.
    intros Hop Hc H1 H2; cbn [den]; rewrite H1, H2.
    destruct op as [| |c|o|o|]; try discriminate; try reflexivity.
    destruct (Hc c eq_refl).
  Qed.

  Lemma den_neg_str x : den s a = Ok (VStr x) -> den s (EUn UNegative a) = Err ETypeMismatch None.
  Proof. intros H; cbn [den]; rewrite H; reflexivity. Qed.

  Lemma den_abs_str x : den s a = Ok (VStr x) -> den s (EAbs a) = Err ETypeMismatch None.
  Proof. intros H; cbn [den]; rewrite H; reflexivity. Qed.

  Lemma den_int_str x : den s a = Ok (VStr x) -> den s (EInt a) = Err ETypeMismatch None.
  Proof. intros H; cbn [den]; rewrite H; reflexivity. Qed.

  Lemma den_paren : den s (EParen a) = den s a.
  Proof. reflexivity. Qed.
End DenFacts.

(* ------------------------------------------------------------------ *)
(* Non-vacuity: concrete token lists, their derivations, their values *)

Lemma Renders_le k k' e ts : k' <= k -> k <= 7 -> Renders k e ts -> Renders k' e ts.
Proof.
  induction 1 as [|m Hle IH]; intros Hk H; [exact H|].
  apply IH; [lia|]. apply R_incl; [lia | exact H].
Qed.

(* The theorem instantiated on an immediate line that is exactly the expression. *)
Corollary expr_sem_immediate e ts : Renders 0 e ts -> pdepth e < max_nesting ->
  let s := set_immediate ts init_interp in
  exists fuel0, forall fuel, fuel0 <= fuel ->
    fst (evaluate_expression fuel 0 s) = den s e
    /\ (forall v, den s e = Ok v -> loc_idx (loc (snd (evaluate_expression fuel 0 s))) = length ts).
Proof.
  intros HR Hd s.
  destruct (expr_sem_gen e ts HR s [] [] 0) as (f0 & H);
    try reflexivity; try (cbn [app]; rewrite app_nil_r; reflexivity); try assumption.
  exists f0. intros fuel Hf. specialize (H fuel Hf).
  destruct (evaluate_expression fuel 0 s) as [r s']. destruct H as (-> & Hloc & _).
  split; [reflexivity|]. intros v Hv. cbn [snd]. rewrite (Hloc v Hv). reflexivity.
Qed.

(* Every tree has a spelling: parenthesise every compound operand.  Together with
   [den_parens] and [expr_sem]: the fold of any tree is what the evaluator
   computes on some token list (up to the nesting cap). *)
Fixpoint full_parens (e : expr) : expr :=
  match e with
  | ENum _ | EStr _ | EVar _ => e
  | EUn op a => EParen (EUn op (full_parens a))
  | EBin op a b => EParen (EBin op (full_parens a) (full_parens b))
  | EAbs a => EAbs (full_parens a)
  | EInt a => EInt (full_parens a)
  | EParen a => full_parens a
  end.

Lemma erase_full_parens e : erase_parens (full_parens e) = erase_parens e.
Proof.
  induction e as [x|b|name|op a IHa|op a IHa b IHb|a IHa|a IHa|a IHa];
    cbn [erase_parens full_parens]; rewrite ?IHa, ?IHb; reflexivity.
Qed.

Lemma full_parens_renders e : exists ts, Renders 7 (full_parens e) ts.
Proof.
  induction e as [x|b|name|op a [ta IHa]|op a [ta IHa] b [tb IHb]|a [ta IHa]|a [ta IHa]|a IHa];
    cbn [full_parens].
  - eexists; constructor.
  - eexists; constructor.
  - eexists; constructor.
  - eexists. apply R_paren. apply (Renders_le 6); [lia | lia |]. apply R_un. exact IHa.
  - assert (Hk : tier_of op <= 5) by (destruct op; cbn; lia).
    eexists. apply R_paren. apply (Renders_le (tier_of op)); [lia | lia |].
    apply R_bin; (eapply (Renders_le 7); [lia | lia | eassumption]).
  - eexists. apply R_abs. apply (Renders_le 7); [lia | lia | exact IHa].
  - eexists. apply R_int. apply (Renders_le 7); [lia | lia | exact IHa].
  - exact IHa.
Qed.

Theorem every_tree_spelled e :
  exists e' ts, erase_parens e' = erase_parens e /\ Renders 0 e' ts
                /\ forall s, den s e' = den s e.
Proof.
  destruct (full_parens_renders e) as [ts H].
  exists (full_parens e), ts. split; [apply erase_full_parens|]. split.
  - apply (Renders_le 7); [lia | lia | exact H].
  - intros s. apply den_parens, erase_full_parens.
Qed.

Module Examples.
  Definition num (z : Z) : f64 := f64_of_Z z.
  Definition run (ts : list token) : res value :=
    fst (evaluate_expression 20 0 (set_immediate ts init_interp)).

  Ltac up k := apply (Renders_le k); [cbn; lia | cbn; lia |].
  Ltac atom := up 7; constructor.

  (* NOT 1 = 1   is   (NOT 1) = 1   =   0 *)
  Definition t1 := [TNot; TNumber (num 1); TEquals; TNumber (num 1)].
  Definition e1 := EBin (BCmp OEqualTo) (EUn UNot (ENum (num 1))) (ENum (num 1)).
  Example r1 : Renders 0 e1 t1.
  Proof.
    up 2. apply (R_bin (BCmp OEqualTo) _ _ [TNot; TNumber (num 1)] [TNumber (num 1)]).
    - up 6. apply (R_un UNot). constructor.
    - atom.
  Qed.
  Example v1 : run t1 = Ok (VNum f64_zero) /\ den init_interp e1 = Ok (VNum f64_zero).
  Proof. split; vm_compute; reflexivity. Qed.

  (* 8 / 4 / 2 AND 1 OR 0   is   (((8 / 4) / 2) AND 1) OR 0   =   1 *)
  Definition t2 := [TNumber (num 8); TDivide; TNumber (num 4); TDivide; TNumber (num 2);
                    TAnd; TNumber (num 1); TOr; TNumber (num 0)].
  Definition e2 :=
    EBin BOr
      (EBin BAnd
         (EBin (BMulDiv ODivide) (EBin (BMulDiv ODivide) (ENum (num 8)) (ENum (num 4)))
               (ENum (num 2)))
         (ENum (num 1)))
      (ENum (num 0)).
  Example r2 : Renders 0 e2 t2.
  Proof.
    apply (R_bin BOr _ _
             [TNumber (num 8); TDivide; TNumber (num 4); TDivide; TNumber (num 2);
              TAnd; TNumber (num 1)] [TNumber (num 0)]); [|atom].
    up 1.
    apply (R_bin BAnd _ _
             [TNumber (num 8); TDivide; TNumber (num 4); TDivide; TNumber (num 2)]
             [TNumber (num 1)]); [|atom].
    up 4.
    apply (R_bin (BMulDiv ODivide) _ _ [TNumber (num 8); TDivide; TNumber (num 4)]
             [TNumber (num 2)]); [|atom].
    apply (R_bin (BMulDiv ODivide) _ _ [TNumber (num 8)] [TNumber (num 4)]); atom.
  Qed.
  Example v2 : run t2 = Ok (VNum f64_one) /\ den init_interp e2 = Ok (VNum f64_one).
  Proof. split; vm_compute; reflexivity. Qed.

  (* -2 * 2   is   (-2) * 2   =   -4 *)
  Definition t3 := [TMinus; TNumber (num 2); TMultiply; TNumber (num 2)].
  Definition e3 := EBin (BMulDiv OMultiply) (EUn UNegative (ENum (num 2))) (ENum (num 2)).
  Example r3 : Renders 0 e3 t3.
  Proof.
    up 4. apply (R_bin (BMulDiv OMultiply) _ _ [TMinus; TNumber (num 2)] [TNumber (num 2)]).
    - up 6. apply (R_un UNegative). constructor.
    - atom.
  Qed.
  Example v3 : run t3 = Ok (VNum (num (-4))) /\ den init_interp e3 = Ok (VNum (num (-4))).
  Proof. split; vm_compute; reflexivity. Qed.

  (* (1 + 2) * 3   =   9 *)
  Definition t4 := [TLeftParen; TNumber (num 1); TPlus; TNumber (num 2); TRightParen;
                    TMultiply; TNumber (num 3)].
  Definition e4 :=
    EBin (BMulDiv OMultiply) (EParen (EBin (BAddSub OAdd) (ENum (num 1)) (ENum (num 2))))
         (ENum (num 3)).
  Example r4 : Renders 0 e4 t4.
  Proof.
    up 4.
    apply (R_bin (BMulDiv OMultiply) _ _
             [TLeftParen; TNumber (num 1); TPlus; TNumber (num 2); TRightParen]
             [TNumber (num 3)]); [|atom].
    up 7. apply (R_paren _ [TNumber (num 1); TPlus; TNumber (num 2)]).
    up 3. apply (R_bin (BAddSub OAdd) _ _ [TNumber (num 1)] [TNumber (num 2)]); atom.
  Qed.
  Example v4 : run t4 = Ok (VNum (num 9)) /\ den init_interp e4 = Ok (VNum (num 9)).
  Proof. split; vm_compute; reflexivity. Qed.

  (* the same through the theorem: for every sufficient fuel *)
  Example v4_all_fuel : exists fuel0, forall fuel, fuel0 <= fuel ->
    fst (evaluate_expression fuel 0 (set_immediate t4 init_interp)) = Ok (VNum (num 9)).
  Proof.
    destruct (expr_sem_immediate e4 t4 r4) as (f0 & H); [vm_compute; lia|].
    exists f0. intros fuel Hf. destruct (H fuel Hf) as [-> _]. vm_compute. reflexivity.
  Qed.

  (* redundant parentheses: ((1) + (2)) * 3 has the same erasure as (1 + 2) * 3 *)
  Definition e4' :=
    EBin (BMulDiv OMultiply)
         (EParen (EBin (BAddSub OAdd) (EParen (ENum (num 1))) (EParen (ENum (num 2)))))
         (EParen (ENum (num 3))).
  Example v4' : forall s, den s e4' = den s e4.
  Proof. intros s. apply den_parens. reflexivity. Qed.

  (* error kinds: 1 / 0 and "A" + 1 *)
  Example v5 :
    run [TNumber (num 1); TDivide; TNumber (num 0)] = Err EDivisionByZero None
    /\ run [TString (bs "A"); TPlus; TNumber (num 1)] = Err ETypeMismatch None
    /\ run [TString (bs "A"); TLessThan; TString (bs "B")] = Ok (VNum f64_one).
  Proof. repeat split; vm_compute; reflexivity. Qed.
End Examples.

Print Assumptions renders_sem.
Print Assumptions expr_sem_gen.
Print Assumptions expr_sem.
Print Assumptions expr_parens.
Print Assumptions den_parens.
Print Assumptions every_tree_spelled.
Print Assumptions Examples.v4_all_fuel.
