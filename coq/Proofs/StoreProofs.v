(* Proofs/StoreProofs.v — the program store (program_lines.rs) as a
   last-writer-wins map: invariant, refinement to an abstract map over all
   host-call histories, listing order, successor order. *)
From Coq Require Import List NArith ZArith Bool Lia Sorted.
From Abasic Require Import Model.Bytes Model.Num Model.Token Model.Data Model.Lexer Gen.Tables
     Model.State Model.Eval Model.Interp Proofs.Monad Proofs.Frames.
Import ListNotations.
Open Scope N_scope.

(* ------------------------------------------------------------------ *)
(* The two indexes *)

Lemma toks_get_remove_same n l : toks_get n (toks_remove n l) = None.
Proof.
  induction l as [|[k v] l IH]; cbn [toks_remove toks_get]; [reflexivity|].
  destruct (k =? n) eqn:E; [exact IH|]. cbn [toks_get]. rewrite E. exact IH.
Qed.

Lemma toks_get_remove_other n k l : k <> n -> toks_get k (toks_remove n l) = toks_get k l.
Proof.
  intros Hne. induction l as [|[k' v] l IH]; cbn [toks_remove toks_get]; [reflexivity|].
  destruct (k' =? n) eqn:E.
  - apply N.eqb_eq in E. subst k'. destruct (n =? k) eqn:E2; [apply N.eqb_eq in E2; congruence|exact IH].
  - cbn [toks_get]. destruct (k' =? k); [reflexivity|exact IH].
Qed.

Lemma toks_get_set n v k l :
  toks_get k (toks_set n v l) = if n =? k then Some v else toks_get k l.
Proof.
  unfold toks_set; cbn [toks_get]. destruct (n =? k) eqn:E; [reflexivity|].
  apply toks_get_remove_other. apply N.eqb_neq in E. congruence.
Qed.

Definition keys_sorted (l : list N) : Prop := StronglySorted N.lt l.

Lemma keys_insert_In n k l : In k (keys_insert n l) <-> k = n \/ In k l.
Proof.
  induction l as [|x l IH]; cbn [keys_insert].
  - cbn; intuition.
  - destruct (n <? x) eqn:E1; [cbn; intuition|].
    destruct (n =? x) eqn:E2.
    + apply N.eqb_eq in E2; subst; cbn; intuition.
    + cbn [In]. rewrite IH. intuition.
Qed.

Lemma keys_insert_sorted n l : keys_sorted l -> keys_sorted (keys_insert n l).
Proof.
  unfold keys_sorted. induction l as [|x l IH]; intros Hs; cbn [keys_insert].
  - repeat constructor.
  - inversion Hs as [|? ? Hs' Hall]; subst.
    destruct (n <? x) eqn:E1.
    + apply N.ltb_lt in E1. constructor; [exact Hs|].
      constructor; [exact E1|]. eapply Forall_impl; [|exact Hall]. intros; cbn in *; lia.
    + destruct (n =? x) eqn:E2; [exact Hs|].
      apply N.ltb_ge in E1. apply N.eqb_neq in E2.
      constructor; [apply IH; exact Hs'|].
      apply Forall_forall. intros k Hk. apply keys_insert_In in Hk.
      destruct Hk as [->|Hk]; [lia|]. rewrite Forall_forall in Hall. apply Hall; exact Hk.
Qed.

Lemma keys_remove_In n k l : keys_sorted l -> (In k (keys_remove n l) <-> k <> n /\ In k l).
Proof.
  unfold keys_sorted. induction l as [|x l IH]; intros Hs; cbn [keys_remove].
  - cbn; intuition.
  - inversion Hs as [|? ? Hs' Hall]; subst. rewrite Forall_forall in Hall.
    destruct (x =? n) eqn:E.
    + apply N.eqb_eq in E; subst. cbn [In]. split.
      * intros Hk. split; [specialize (Hall _ Hk); lia|auto].
      * intros [Hne [->|Hk]]; [congruence|exact Hk].
    + apply N.eqb_neq in E. cbn [In]. rewrite (IH Hs'). intuition; subst; auto.
Qed.

Lemma keys_remove_sorted n l : keys_sorted l -> keys_sorted (keys_remove n l).
Proof.
  unfold keys_sorted. induction l as [|x l IH]; intros Hs; cbn [keys_remove]; [constructor|].
  inversion Hs as [|? ? Hs' Hall]; subst.
  destruct (x =? n); [exact Hs'|].
  constructor; [apply IH; exact Hs'|].
  apply Forall_forall. intros k Hk. apply (keys_remove_In n k l Hs') in Hk.
  rewrite Forall_forall in Hall. apply Hall. tauto.
Qed.

(* The store invariant: the set is strictly ascending, both indexes hold the
   same keys, and no stored line is empty. *)
Definition store_ok (s : interp) : Prop :=
  keys_sorted (st_keys s)
  /\ (forall n, In n (st_keys s) <-> toks_get n (st_toks s) <> None)
  /\ (forall n, toks_get n (st_toks s) <> Some []).

Lemma store_ok_init : store_ok init_interp.
Proof.
  unfold store_ok, init_interp; cbn. split; [constructor|]. split; [|congruence].
  intros n; split; [tauto|congruence].
Qed.

Lemma store_set_ok n v s : store_ok s -> store_ok (store_set n v s).
Proof.
  intros (Hs & Hk & He). unfold store_set, store_ok. destruct v as [|t v].
  - cbn [st_keys st_toks set_store]. split; [apply keys_remove_sorted; exact Hs|]. split.
    + intros k. rewrite (keys_remove_In n k _ Hs). destruct (N.eq_dec k n) as [->|Hne].
      * rewrite toks_get_remove_same. intuition.
      * rewrite (toks_get_remove_other n k _ Hne), Hk. intuition.
    + intros k. destruct (N.eq_dec k n) as [->|Hne].
      * rewrite toks_get_remove_same. congruence.
      * rewrite (toks_get_remove_other n k _ Hne). apply He.
  - cbn [st_keys st_toks set_store]. split; [apply keys_insert_sorted; exact Hs|]. split.
    + intros k. rewrite keys_insert_In, toks_get_set. destruct (n =? k) eqn:E.
      * apply N.eqb_eq in E. subst. intuition congruence.
      * apply N.eqb_neq in E. rewrite Hk. intuition congruence.
    + intros k. rewrite toks_get_set. destruct (n =? k); [congruence|apply He].
Qed.

(* ------------------------------------------------------------------ *)
(* Abstract specification: a map from line number to tokens *)

Definition amap := N -> option (list token).
Definition abs (s : interp) : amap := fun k => toks_get k (st_toks s).
Definition aempty : amap := fun _ => None.
Definition aupd (m : amap) (n : N) (v : list token) : amap :=
  fun k => if n =? k then (match v with [] => None | _ => Some v end) else m k.

Lemma abs_store_set n v s k : abs (store_set n v s) k = aupd (abs s) n v k.
Proof.
  unfold abs, aupd, store_set. destruct v as [|t v]; cbn [st_toks set_store].
  - destruct (n =? k) eqn:E.
    + apply N.eqb_eq in E; subst. apply toks_get_remove_same.
    + apply toks_get_remove_other. apply N.eqb_neq in E. congruence.
  - apply toks_get_set.
Qed.

(* What a submitted line means for the store (line-number parser + tokenizer;
   commands are recognised first). *)
Definition edit_of (line : bytes) : option (N * list token) :=
  match command_of line with
  | Some _ => None
  | None =>
      match parse_line_number line with
      | None => None
      | Some (n, e) =>
          match tokenize line e with
          | TokOk ts => Some (n, map fst ts)
          | TokErr _ _ => None
          end
      end
  end.

Definition spec_step (m : amap) (op : hostop) : amap :=
  match op with
  | HLine text => match edit_of text with Some (n, v) => aupd m n v | None => m end
  | HReplace | HNew => aempty
  | _ => m
  end.

(* ------------------------------------------------------------------ *)
(* Frames: the evaluators never touch the store *)

Lemma rf_st_toks : runtime_frame st_toks. Proof. split; reflexivity. Qed.
Lemma rf_st_keys : runtime_frame st_keys. Proof. split; reflexivity. Qed.

Definition same_store (s s' : interp) : Prop := st_toks s' = st_toks s /\ st_keys s' = st_keys s.

Lemma same_store_run fuel : mrel same_store (run_next_statement fuel).
Proof.
  intros s; split; [apply (keeps_run_next_statement st_toks rf_st_toks)
                   |apply (keeps_run_next_statement st_keys rf_st_keys)].
Qed.

Lemma same_store_preorder : preorder same_store.
Proof. split; unfold same_store; intros; intuition congruence. Qed.

Lemma same_store_of_keeps {A} (m : M A) :
  mrel (keeps st_toks) m -> mrel (keeps st_keys) m -> mrel same_store m.
Proof. intros H1 H2 s; split; [apply H1|apply H2]. Qed.

Lemma same_store_modify f :
  (forall s, st_toks (f s) = st_toks s) -> (forall s, st_keys (f s) = st_keys s) ->
  mrel same_store (modify f).
Proof. intros H1 H2 s; split; cbn; auto. Qed.

Lemma same_store_process_command fuel c : mrel same_store (process_command fuel c).
Proof.
  pose proof same_store_preorder as PO.
  destruct c; cbn [process_command].
  - apply (mrel_bind _ PO); [apply same_store_modify; reflexivity|intros _].
    apply (mrel_bind _ PO); [apply same_store_modify; reflexivity|intros _].
    apply (mrel_bind _ PO); [apply same_store_modify; reflexivity|intros _].
    apply (mrel_bind _ PO); [|intros _; apply same_store_run].
    apply same_store_of_keeps; [apply (keeps_run_from_first _ rf_st_toks)|apply (keeps_run_from_first _ rf_st_keys)].
  - apply (mrel_bind _ PO); [intros s0; split; reflexivity|intros ls].
    apply same_store_modify; reflexivity.
  - apply same_store_modify; reflexivity.
  - apply (mrel_bind _ PO); [|intros _; apply same_store_run].
    apply same_store_of_keeps; [apply (keeps_continue_bp _ rf_st_toks)|apply (keeps_continue_bp _ rf_st_keys)].
  - apply same_store_modify; reflexivity.
  - apply same_store_modify; reflexivity.
  - apply same_store_of_keeps; [apply (keeps_push_output _ rf_st_toks)|apply (keeps_push_output _ rf_st_keys)].
  - apply same_store_of_keeps; [apply (keeps_push_output _ rf_st_toks)|apply (keeps_push_output _ rf_st_keys)].
Qed.

Lemma same_store_set_imm ts : mrel same_store (set_and_goto_immediate_line ts).
Proof.
  intros s; split; [apply (keeps_set_imm st_toks rf_st_toks) | apply (keeps_set_imm st_keys rf_st_keys)].
Qed.

(* set_numbered_line is store_set followed by store-preserving resets *)
Lemma set_numbered_line_store n ts s :
  st_toks (snd (set_numbered_line n ts s)) = st_toks (store_set n ts s)
  /\ st_keys (snd (set_numbered_line n ts s)) = st_keys (store_set n ts s).
Proof.
  split; [apply (keeps_set_numbered_line st_toks rf_st_toks) | apply (keeps_set_numbered_line st_keys rf_st_keys)].
Qed.

Lemma postprocess_store {A} (r : res A * interp) :
  st_toks (snd (postprocess r)) = st_toks (snd r) /\ st_keys (snd (postprocess r)) = st_keys (snd r).
Proof. destruct r as [[a|e l|p| |] s]; split; reflexivity. Qed.

Lemma make_row_store r line s :
  st_toks (snd (make_row r line s)) = st_toks s /\ st_keys (snd (make_row r line s)) = st_keys s.
Proof. unfold make_row, take_outputs. split; reflexivity. Qed.

(* Effect of start_evaluating on the store, for an Idle state *)
Lemma bind_modify {B} g (K : unit -> M B) s : bind (modify g) K s = K tt (g s).
Proof. reflexivity. Qed.

Lemma bind_get {A B} (f : interp -> A) (K : A -> M B) s : bind (get f) K s = K (f s) s.
Proof. reflexivity. Qed.

Definition imm_reset (ts : list token) (s : interp) : interp :=
  set_loc imm0 (set_immediate ts (match breakpoint s with None => set_stack [] s | Some _ => s end)).

Lemma set_imm_is_modify ts : set_and_goto_immediate_line ts = modify (imm_reset ts).
Proof. reflexivity. Qed.

Lemma imm_reset_same_store ts s : same_store s (imm_reset ts s).
Proof. unfold imm_reset, same_store. destruct (breakpoint s); split; reflexivity. Qed.

Lemma evaluate_impl_store fuel line s :
  state s = Idle ->
  let s' := snd (evaluate_impl fuel line s) in
  match edit_of line with
  | Some (n, v) => st_toks s' = st_toks (store_set n v s) /\ st_keys s' = st_keys (store_set n v s)
  | None => same_store s s'
  end.
Proof.
  intros Hidle. cbn zeta. unfold evaluate_impl, edit_of.
  rewrite bind_get, Hidle.
  rewrite set_imm_is_modify, bind_modify.
  pose proof (imm_reset_same_store [] s) as H0. set (s0 := imm_reset [] s) in *.
  destruct (command_of line) as [c|].
  - pose proof (same_store_process_command fuel c s0) as H1.
    eapply (po_trans _ same_store_preorder); eauto.
  - destruct (parse_line_number line) as [[n e]|].
    + destruct (tokenize line e) as [ts|ts err].
      * pose proof (set_numbered_line_store n (map fst ts) s0) as [Ha Hb].
        destruct H0 as [H0a H0b].
        rewrite Ha, Hb. unfold store_set.
        destruct (map fst ts); cbn [st_toks st_keys set_store]; rewrite H0a, H0b; split; reflexivity.
      * unfold fail; cbn [snd]. exact H0.
    + destruct (tokenize line 0) as [ts|ts err].
      * rewrite set_imm_is_modify, bind_modify.
        pose proof (imm_reset_same_store (map fst ts) s0) as H1.
        pose proof (same_store_run fuel (imm_reset (map fst ts) s0)) as H2.
        eapply (po_trans _ same_store_preorder); [exact H0|].
        eapply (po_trans _ same_store_preorder); [exact H1|exact H2].
      * unfold fail; cbn [snd]. exact H0.
Qed.

Lemma same_store_abs s s' : same_store s s' -> forall k, abs s' k = abs s k.
Proof. intros [H _] k. unfold abs. rewrite H. reflexivity. Qed.

Lemma same_store_ok s s' : same_store s s' -> store_ok s -> store_ok s'.
Proof. intros [H1 H2]. unfold store_ok. rewrite H1, H2. tauto. Qed.

(* One host call refines the abstract step, and keeps the invariant. *)
Lemma step_store fuel s op :
  legal s op = true ->
  let s' := snd (step fuel s op) in
  (forall k, abs s' k = spec_step (abs s) op k) /\ (store_ok s -> store_ok s').
Proof.
  intros Hlegal. unfold step. rewrite Hlegal. cbn [negb].
  destruct op as [text| |text| |seed| |w t|]; cbn [spec_step].
  - (* HLine *)
    unfold legal in Hlegal. destruct (state s) eqn:Hst; try discriminate.
    unfold start_evaluating.
    assert (Hidle : state (set_reads 0 s) = Idle) by exact Hst.
    pose proof (evaluate_impl_store fuel text (set_reads 0 s) Hidle) as H. cbn zeta in H.
    destruct (postprocess (evaluate_impl fuel text (set_reads 0 s))) as [r s1] eqn:E1.
    pose proof (postprocess_store (evaluate_impl fuel text (set_reads 0 s))) as [Hp1 Hp2].
    rewrite E1 in Hp1, Hp2. cbn [snd] in Hp1, Hp2.
    destruct (make_row r (Some text) s1) as [rw s2] eqn:E2.
    pose proof (make_row_store r (Some text) s1) as [Hm1 Hm2]. rewrite E2 in Hm1, Hm2. cbn [snd] in *.
    destruct (edit_of text) as [[n v]|].
    + destruct H as [Ha Hb]. split.
      * intros k. unfold abs at 1. rewrite Hm1, Hp1, Ha. fold (abs (store_set n v (set_reads 0 s)) k).
        rewrite abs_store_set. reflexivity.
      * intros Hok. pose proof (store_set_ok n v (set_reads 0 s) Hok) as Hok'.
        unfold store_ok in *. rewrite Hm1, Hm2, Hp1, Hp2, Ha, Hb. exact Hok'.
    + assert (Hss : same_store s s2).
      { destruct H as [Ha Hb]. split; [rewrite Hm1, Hp1, Ha|rewrite Hm2, Hp2, Hb]; reflexivity. }
      split; [apply same_store_abs; exact Hss | apply same_store_ok; exact Hss].
  - (* HCont *)
    unfold continue_evaluating. destruct (state (set_reads 0 s)) eqn:Hst;
      try (cbn; split; [intros; reflexivity|tauto]).
    pose proof (same_store_run fuel (set_reads 0 s)) as H.
    destruct (postprocess (run_next_statement fuel (set_reads 0 s))) as [r s1] eqn:E1.
    pose proof (postprocess_store (run_next_statement fuel (set_reads 0 s))) as [Hp1 Hp2].
    rewrite E1 in Hp1, Hp2. cbn [snd] in Hp1, Hp2.
    destruct (make_row r None s1) as [rw s2] eqn:E2.
    pose proof (make_row_store r None s1) as [Hm1 Hm2]. rewrite E2 in Hm1, Hm2. cbn [snd] in *.
    assert (Hss : same_store s s2).
    { destruct H as [Ha Hb]. split; [rewrite Hm1, Hp1, Ha|rewrite Hm2, Hp2, Hb]; reflexivity. }
    split; [apply same_store_abs; exact Hss | apply same_store_ok; exact Hss].
  - (* HReply *)
    unfold provide_input. destruct (state (set_reads 0 s));
      cbn; (split; [intros; reflexivity|tauto]).
  - (* HBreak *)
    unfold host_break.
    assert (H : same_store (set_reads 0 s) (snd (break_at_current_location (set_reads 0 s)))).
    { split; [apply (keeps_break st_toks rf_st_toks) | apply (keeps_break st_keys rf_st_keys)]. }
    destruct (break_at_current_location (set_reads 0 s)) as [r s1] eqn:E1. cbn [snd] in H.
    destruct (make_row r None s1) as [rw s2] eqn:E2.
    pose proof (make_row_store r None s1) as [Hm1 Hm2]. rewrite E2 in Hm1, Hm2. cbn [snd] in *.
    assert (Hss : same_store s s2).
    { destruct H as [Ha Hb]. split; [rewrite Hm1, Ha|rewrite Hm2, Hb]; reflexivity. }
    split; [apply same_store_abs; exact Hss | apply same_store_ok; exact Hss].
  - (* HRand *)
    cbn. split; [intros; reflexivity|tauto].
  - (* HReplace *)
    cbn. split; [intros; reflexivity|]. intros _. apply store_ok_init.
  - (* HFlags *)
    cbn. split; [intros; reflexivity|tauto].
  - (* HNew *)
    cbn. split; [intros; reflexivity|]. intros _. apply store_ok_init.
Qed.

(* ------------------------------------------------------------------ *)
(* Histories *)

Fixpoint run_state (fuel : nat) (s : interp) (ops : list hostop) : interp :=
  match ops with
  | [] => s
  | op :: r => run_state fuel (snd (step fuel s op)) r
  end.

(* the abstract run skips calls the protocol does not allow (the interpreter
   is not called for them) *)
Fixpoint spec_run (fuel : nat) (s : interp) (m : amap) (ops : list hostop) : amap :=
  match ops with
  | [] => m
  | op :: r =>
      spec_run fuel (snd (step fuel s op)) (if legal s op then spec_step m op else m) r
  end.

Lemma step_illegal fuel s op : legal s op = false -> snd (step fuel s op) = s.
Proof. intros H. unfold step. rewrite H. reflexivity. Qed.

Theorem store_refines_spec fuel ops : forall s m,
  (forall k, abs s k = m k) ->
  forall k, abs (run_state fuel s ops) k = spec_run fuel s m ops k.
Proof.
  induction ops as [|op ops IH]; intros s m Hm k; cbn [run_state spec_run]; [apply Hm|].
  apply IH. intros k'. destruct (legal s op) eqn:Hl.
  - destruct (step_store fuel s op Hl) as [H _]. rewrite H.
    destruct op; cbn [spec_step]; try apply Hm; try reflexivity.
    destruct (edit_of text) as [[n v]|]; [|apply Hm].
    unfold aupd. rewrite Hm. reflexivity.
  - rewrite (step_illegal _ _ _ Hl). apply Hm.
Qed.

Theorem store_ok_reachable fuel ops : forall s, store_ok s -> store_ok (run_state fuel s ops).
Proof.
  induction ops as [|op ops IH]; intros s Hok; cbn [run_state]; [exact Hok|].
  apply IH. destruct (legal s op) eqn:Hl.
  - apply (step_store fuel s op Hl); exact Hok.
  - rewrite (step_illegal _ _ _ Hl). exact Hok.
Qed.

(* ------------------------------------------------------------------ *)
(* Successor and listing order *)

Lemma keys_after_spec n l : keys_sorted l ->
  match keys_after n l with
  | Some m => In m l /\ n < m /\ forall k, In k l -> n < k -> m <= k
  | None => forall k, In k l -> k <= n
  end.
Proof.
  unfold keys_sorted. induction l as [|x l IH]; intros Hs; cbn [keys_after].
  - intros k [].
  - inversion Hs as [|? ? Hs' Hall]; subst. rewrite Forall_forall in Hall.
    destruct (n <? x) eqn:E.
    + apply N.ltb_lt in E. split; [left; reflexivity|]. split; [exact E|].
      intros k [->|Hk] _; [lia|]. specialize (Hall _ Hk). lia.
    + apply N.ltb_ge in E. specialize (IH Hs'). destruct (keys_after n l) as [m|].
      * destruct IH as (Hin & Hlt & Hleast). split; [right; exact Hin|]. split; [exact Hlt|].
        intros k [->|Hk] Hnk; [lia|apply Hleast; assumption].
      * intros k [->|Hk]; [exact E|apply IH; exact Hk].
Qed.

(* first = least key *)
Lemma store_first_spec s : store_ok s ->
  match store_first s with
  | Some m => In m (st_keys s) /\ forall k, In k (st_keys s) -> m <= k
  | None => st_keys s = []
  end.
Proof.
  intros (Hs & _ & _). unfold store_first, keys_sorted in *. destruct (st_keys s) as [|x l]; cbn; [reflexivity|].
  inversion Hs as [|? ? Hs' Hall]; subst. rewrite Forall_forall in Hall.
  split; [left; reflexivity|]. intros k [->|Hk]; [lia|]. specialize (Hall _ Hk). lia.
Qed.

(* LIST never hits the unwrap and prints the bindings in ascending key order *)
Lemma list_lines_ok keys toks :
  (forall n, In n keys -> toks_get n toks <> None) ->
  exists ls, list_lines keys toks = Ok ls
    /\ ls = map (fun n => show_N n ++ [32] ++
                  show_listing (match toks_get n toks with Some ts => ts | None => [] end) ++ [10]) keys.
Proof.
  induction keys as [|n keys IH]; intros H; cbn [list_lines map].
  - eexists; split; reflexivity.
  - destruct (toks_get n toks) as [ts|] eqn:E; [|exfalso; apply (H n); [left; reflexivity|exact E]].
    destruct IH as (ls & Hl & Heq); [intros k Hk; apply H; right; exact Hk|].
    rewrite Hl. eexists; split; [reflexivity|]. rewrite Heq. reflexivity.
Qed.

Theorem list_output_ordered s : store_ok s ->
  exists ls, list_lines (st_keys s) (st_toks s) = Ok ls
    /\ length ls = length (st_keys s) /\ keys_sorted (st_keys s).
Proof.
  intros (Hs & Hk & _).
  destruct (list_lines_ok (st_keys s) (st_toks s)) as (ls & Hl & Heq).
  - intros n Hn. apply Hk; exact Hn.
  - exists ls. split; [exact Hl|]. split; [rewrite Heq; apply map_length|exact Hs].
Qed.

(* parse_line_number: value below 2^64, leading blanks and zeros accepted *)
Lemma parse_line_number_range line n e : parse_line_number line = Some (n, e) -> n <= U64_MAX.
Proof.
  unfold parse_line_number. destruct (digit_run _); [discriminate|].
  destruct (_ <=? U64_MAX) eqn:E; [|discriminate]. intros H; inversion H; subst. apply N.leb_le; exact E.
Qed.
