(* Proofs/TraceProofs.v — C17: the trace is the path.

   With tracing on, a host call that executes a statement of numbered line n
   pushes `Trace n` as its FIRST record, every other Trace record of the call
   names n too (an IF's selected statement traces again), and a call on the
   immediate line pushes no Trace record at all.  So the Trace records of a
   run, read in order with immediate repeats collapsed, are the numbered lines
   the calls executed statements of, in order: the path of execution. *)
From Coq Require Import List NArith ZArith Bool Lia.
From Abasic Require Import Model.Bytes Model.Num Model.Token Model.Data Model.Lexer Gen.Tables
     Model.State Model.Eval Model.Interp Proofs.Monad Proofs.Frames Proofs.StoreProofs Proofs.Safety
     Proofs.FlagsSim Proofs.TurnProofs.
Import ListNotations.
Local Open Scope nat_scope.

Definition is_trace (o : output) : bool := match o with OTrace _ => true | _ => false end.

(* the statement dispatch and the rest of the call, after the trace prefix *)
Theorem traced_turn fuel s n t :
  wf s -> enable_tracing s = true -> loc_line (loc s) = Some n ->
  nth_error (cur_toks s) (loc_idx (loc s)) = Some t ->
  exists rest, outputs (snd (run_next_statement (S fuel) s)) = outputs s ++ OTrace n :: rest
               /\ Forall (trace_ok (Some n)) rest /\ length (filter shows rest) <= 1.
Proof.
  intros Hwf Htr HL Hnth.
  assert (Hwf0 : wf (set_state Running s)) by (revert Hwf; apply wf_ext; reflexivity).
  assert (Hwf1 : wf (bump (set_state Running s))) by (revert Hwf0; apply wf_ext; reflexivity).
  unfold run_next_statement. rewrite bind_modify.
  unfold has_next_token at 1. rewrite bind_assoc', Safety.bind_run, (peek_eq _ (wf_loc _ Hwf0)).
  change (cur_toks (set_state Running s)) with (cur_toks s).
  change (loc_idx (loc (set_state Running s))) with (loc_idx (loc s)). rewrite Hnth.
  rewrite Safety.bind_ret. cbv iota.
  cbn [evaluate_statement]. change (Nat.eqb 0 max_nesting) with false. cbv iota.
  unfold evaluate_statement_body.
  remember (bump (set_state Running s)) as s1 eqn:Es1.
  assert (HL1 : loc_line (loc s1) = Some n) by (subst s1; exact HL).
  destruct (trace_prefix (Some n) s1 HL1) as (tp & Ht & _ & _).
  assert (Etp : tp = [OTrace n]).
  { revert Ht. rewrite bind_get. assert (E1 : enable_tracing s1 = true) by (subst s1; exact Htr). rewrite E1.
    unfold get_line_number. rewrite bind_assoc', bind_get, Safety.bind_ret. rewrite HL1.
    unfold push_output, modify. intros H. inversion H as [H1].
    assert (Ho : outputs (set_outputs (outputs s1 ++ [OTrace n]) s1) = outputs (set_outputs (outputs s1 ++ tp) s1))
      by (rewrite H1; reflexivity).
    cbn [outputs set_outputs] in Ho. apply app_inv_head in Ho. symmetry. exact Ho. }
  subst tp.
  rewrite Safety.bind_run. rewrite <- bind_assoc'. rewrite Safety.bind_run, Ht.
  remember (set_outputs (outputs s1 ++ [OTrace n]) s1) as s2 eqn:Es2.
  assert (Hwf2 : wf s2) by (subst s2; revert Hwf1; subst s1; apply wf_ext; reflexivity).
  assert (HL2 : loc_line (loc s2) = Some n) by (subst s2; exact HL1).
  assert (Ho2 : outputs s2 = outputs s ++ [OTrace n]) by (rewrite Es2, Es1; reflexivity).
  pose proof (sq_dispatch fuel 1 (Some n) (evaluate_statement fuel 1) (sq_evaluate_statement fuel (Some n) 1) s2 HL2 Hwf2)
    as (new1 & Hn1 & Cn1 & Tn1).
  match type of Hn1 with outputs (snd (?D s2)) = _ => destruct (D s2) as [[u|e l|p| |] s3] end; cbn [fst snd] in *.
  - assert (HA : orel RQ (h2 <- has_next_token ;;
                          if h2 then ret tt
                          else n0 <- next_line ;; if n0 then ret tt else set_and_goto_immediate_line [] ;;; return_to_idle_state))
.
    { apply (orel_bind _ RQ_ocat); [apply rq_has_next | intros h2].
      destruct h2; [apply (orel_ret _ RQ_ocat)|].
      apply (orel_bind _ RQ_ocat); [apply rq_next_line | intros n0].
      destruct n0; [apply (orel_ret _ RQ_ocat)|].
      apply (orel_bind _ RQ_ocat); [apply rq_set_imm | intros _].
      unfold return_to_idle_state. apply rq_modify_frame. reflexivity. }
    destruct (HA s3) as (w & Hw & Ww).
    exists (new1 ++ w). rewrite Hw, Hn1, Ho2, <- !app_assoc. cbn [app].
    split; [reflexivity|]. split; [apply Forall_app; split; [exact Tn1 | apply warnings_trace_ok, Ww]|].
    rewrite filter_app, (filter_shows_warnings w Ww), app_nil_r. exact Cn1.
  - exists new1. rewrite Hn1, Ho2, <- app_assoc. split; [reflexivity | split; assumption].
  - exists new1. rewrite Hn1, Ho2, <- app_assoc. split; [reflexivity | split; assumption].
  - exists new1. rewrite Hn1, Ho2, <- app_assoc. split; [reflexivity | split; assumption].
  - exists new1. rewrite Hn1, Ho2, <- app_assoc. split; [reflexivity | split; assumption].
Qed.

Lemma no_trace_on_immediate l : Forall (trace_ok None) l -> filter is_trace l = [].
Proof.
  induction 1 as [|o l Ho Hl IH]; [reflexivity|]. cbn [filter].
  destruct o; cbn [is_trace]; try exact IH. cbn in Ho. discriminate Ho.
Qed.

(* a call on the immediate line pushes no Trace record *)
Theorem immediate_turn_untraced fuel s :
  wf s -> loc_line (loc s) = None ->
  exists new, outputs (snd (run_next_statement fuel s)) = outputs s ++ new /\ filter is_trace new = [].
Proof.
  intros Hwf HL. destruct (one_statement_per_turn fuel s Hwf) as (new & Hn & _ & Tn).
  exists new. split; [exact Hn|]. rewrite HL in Tn. apply no_trace_on_immediate, Tn.
Qed.

(* the Trace records of a traced call on line n, collapsed, are [n] *)
Fixpoint collapse (l : list N) : list N :=
  match l with
  | [] => []
  | x :: r => match collapse r with
              | y :: r' => if (x =? y)%N then y :: r' else x :: y :: r'
              | [] => [x]
              end
  end.

Definition traces (l : list output) : list N :=
  flat_map (fun o => match o with OTrace n => [n] | _ => [] end) l.

Lemma traces_same n l : Forall (trace_ok (Some n)) l -> Forall (fun m => m = n) (traces l).
Proof.
  induction 1 as [|o l Ho Hl IH]; [constructor|]. unfold traces in *. cbn [flat_map].
  destruct o; cbn [app]; try exact IH. constructor; [cbn in Ho; congruence | exact IH].
Qed.

Lemma collapse_const n l : Forall (fun m => m = n) l -> collapse (n :: l) = [n].
Proof.
  induction 1 as [|m l Hm Hl IH]; [reflexivity|]. subst m.
  change (collapse (n :: n :: l)) with (match collapse (n :: l) with y :: r' => if (n =? y)%N then y :: r' else n :: y :: r' | [] => [n] end).
  rewrite IH. rewrite N.eqb_refl. reflexivity.
Qed.

Theorem traced_turn_path fuel s n t :
  wf s -> enable_tracing s = true -> loc_line (loc s) = Some n ->
  nth_error (cur_toks s) (loc_idx (loc s)) = Some t ->
  exists new, outputs (snd (run_next_statement (S fuel) s)) = outputs s ++ new /\ collapse (traces new) = [n].
Proof.
  intros Hwf Htr HL Hn. destruct (traced_turn fuel s n t Hwf Htr HL Hn) as (rest & Ho & Tr & _).
  exists (OTrace n :: rest). split; [exact Ho|].
  change (traces (OTrace n :: rest)) with (n :: traces rest). apply collapse_const, traces_same, Tr.
Qed.
