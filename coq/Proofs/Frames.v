(* Proofs/Frames.v — frame lemmas: which fields of the state each primitive,
   evaluator and API function can change.  [keeps f] is "projection [f] is
   unchanged"; the lemmas are proved once, generically, for every projection
   that a given set of setters does not touch. *)
From Coq Require Import List NArith ZArith Bool Lia.
From Abasic Require Import Model.Bytes Model.Num Model.Token Model.Data Model.Lexer Gen.Tables
     Model.State Model.Eval Model.Interp Proofs.Monad.
Import ListNotations.

Definition keeps {A} (f : interp -> A) : interp -> interp -> Prop := fun s s' => f s' = f s.

Lemma keeps_preorder {A} (f : interp -> A) : preorder (keeps f).
Proof. split; unfold keeps; intros; congruence. Qed.

#[global] Hint Unfold
  cur_tokens peek_next_token has_next_token advance next_token next_unwrapped_token
  expect_next_token accept_next_token peek_is try_next_token discard_remaining_tokens
  rewind_before_token get_line_number set_and_goto_immediate_line remove_loop_with_name
  program_break_at_current_location continue_from_breakpoint variables_set variables_get
  start_loop end_loop reset_data_cursor program_end reset_runtime_state
  run_from_first_numbered_line goto_line_number gosub_line_number return_to_last_gosub
  define_function push_function_call pop_function_call find_variable_value_in_stack
  next_line arrays_create maybe_create_default_array arrays_get arrays_set rng_rnd
  push_output warn maybe_warn_undeclared_array
  expect_number accept_as
  rewind_program_and_await_input break_at_current_location return_to_idle_state
  is_else_of_then_clause : prims.

(* set_numbered_line = store_set, then runtime resets *)
Definition set_numbered_tail : M unit :=
  modify (set_breakpoint None) ;;; reset_data_cursor ;;; modify (set_functions []) ;;;
  modify (set_stack []) ;;; modify (set_loops []) ;;; program_end.

Lemma set_numbered_line_split n ts :
  set_numbered_line n ts = (modify (store_set n ts) ;;; set_numbered_tail).
Proof. reflexivity. Qed.

(* A projection is "loose from the runtime setters" when none of the setters
   the evaluators use changes it.  Stated as one record so that each frame
   below is a one-line instance. *)
Record runtime_frame {A} (f : interp -> A) : Prop := {
  rf_immediate : forall v s, f (set_immediate v s) = f s;
  rf_loc : forall v s, f (set_loc v s) = f s;
  rf_breakpoint : forall v s, f (set_breakpoint v s) = f s;
  rf_stack : forall v s, f (set_stack v s) = f s;
  rf_loops : forall v s, f (set_loops v s) = f s;
  rf_data_it : forall v s, f (set_data_it v s) = f s;
  rf_functions : forall v s, f (set_functions v s) = f s;
  rf_input : forall v s, f (set_input v s) = f s;
  rf_outputs : forall v s, f (set_outputs v s) = f s;
  rf_state : forall v s, f (set_state v s) = f s;
  rf_rng : forall v s, f (set_rng v s) = f s;
  rf_variables : forall v s, f (set_variables v s) = f s;
  rf_arrays : forall v s, f (set_arrays v s) = f s;
  rf_reads : forall v s, f (set_reads v s) = f s }.

Ltac rf_rewrite H :=
  repeat first
    [ rewrite (rf_immediate _ H) | rewrite (rf_loc _ H) | rewrite (rf_breakpoint _ H)
    | rewrite (rf_stack _ H) | rewrite (rf_loops _ H) | rewrite (rf_data_it _ H)
    | rewrite (rf_functions _ H) | rewrite (rf_input _ H) | rewrite (rf_outputs _ H)
    | rewrite (rf_state _ H) | rewrite (rf_rng _ H) | rewrite (rf_variables _ H)
    | rewrite (rf_arrays _ H) | rewrite (rf_reads _ H) ].

Section RuntimeFrame.
  Context {A : Type} (f : interp -> A).
  Hypothesis RF : runtime_frame f.

  Let PO := keeps_preorder f.

  Ltac leaf :=
    first
      [ apply (mrel_modify (keeps f)); intros; unfold keeps;
        repeat match goal with |- context [match ?x with _ => _ end] => destruct x end;
        rf_rewrite RF; reflexivity
      | assumption
      | match goal with H : forall _, mrel _ _ |- _ => apply H end ].

  Ltac walk := autounfold with prims; mrel_walk PO leaf.

  Lemma keeps_tokens_for_line l : mrel (keeps f) (tokens_for_line l).
  Proof.
    intros s; unfold tokens_for_line, keeps. destruct l as [n|]; [|reflexivity].
    destruct (toks_get n (st_toks s)); reflexivity.
  Qed.
  Hint Resolve keeps_tokens_for_line : core.

  Ltac leaf2 := first [ apply keeps_tokens_for_line | leaf ].
  Ltac walk2 := autounfold with prims; mrel_walk PO leaf2.

  Lemma keeps_peek : mrel (keeps f) peek_next_token. Proof. walk2. Qed.
  Lemma keeps_has_next : mrel (keeps f) has_next_token. Proof. walk2. Qed.
  Lemma keeps_next_token : mrel (keeps f) next_token. Proof. walk2. Qed.
  Lemma keeps_next_unwrapped : mrel (keeps f) next_unwrapped_token. Proof. walk2. Qed.
  Lemma keeps_expect t : mrel (keeps f) (expect_next_token t). Proof. walk2. Qed.
  Lemma keeps_accept t : mrel (keeps f) (accept_next_token t). Proof. walk2. Qed.
  Lemma keeps_peek_is t : mrel (keeps f) (peek_is t). Proof. walk2. Qed.
  Lemma keeps_try {B} (g : token -> option B) : mrel (keeps f) (try_next_token g). Proof. walk2. Qed.
  Lemma keeps_discard : mrel (keeps f) discard_remaining_tokens. Proof. walk2. Qed.

  Lemma keeps_rewind_loop i t : mrel (keeps f) (rewind_loop i t).
  Proof. induction i as [|i IH]; cbn [rewind_loop]; walk2. Qed.

  Ltac leaf3 := first [ apply keeps_rewind_loop | leaf2 ].
  Ltac walk3 := autounfold with prims; mrel_walk PO leaf3.

  Lemma keeps_rewind t : mrel (keeps f) (rewind_before_token t). Proof. walk3. Qed.
  Lemma keeps_set_imm ts : mrel (keeps f) (set_and_goto_immediate_line ts). Proof. walk3. Qed.
  Lemma keeps_remove_loop sym : mrel (keeps f) (remove_loop_with_name sym). Proof. walk3. Qed.
  Lemma keeps_program_break : mrel (keeps f) program_break_at_current_location. Proof. walk3. Qed.
  Lemma keeps_continue_bp : mrel (keeps f) continue_from_breakpoint. Proof. walk3. Qed.
  Lemma keeps_variables_set n v : mrel (keeps f) (variables_set n v). Proof. walk3. Qed.
  Lemma keeps_variables_get n : mrel (keeps f) (variables_get n). Proof. walk3. Qed.
  Lemma keeps_start_loop sym a b c : mrel (keeps f) (start_loop sym a b c). Proof. walk3. Qed.
  Lemma keeps_end_loop sym : mrel (keeps f) (end_loop sym). Proof. walk3. Qed.
  Lemma keeps_reset_data : mrel (keeps f) reset_data_cursor. Proof. walk3. Qed.
  Lemma keeps_program_end : mrel (keeps f) program_end. Proof. walk3. Qed.
  Lemma keeps_reset_runtime : mrel (keeps f) reset_runtime_state. Proof. walk3. Qed.
  Lemma keeps_run_from_first : mrel (keeps f) run_from_first_numbered_line. Proof. walk3. Qed.
  Lemma keeps_goto n : mrel (keeps f) (goto_line_number n). Proof. walk3. Qed.
  Lemma keeps_gosub n : mrel (keeps f) (gosub_line_number n). Proof. walk3. Qed.
  Lemma keeps_return : mrel (keeps f) return_to_last_gosub. Proof. walk3. Qed.
  Lemma keeps_define_function n a : mrel (keeps f) (define_function n a). Proof. walk3. Qed.
  Lemma keeps_push_fn n b : mrel (keeps f) (push_function_call n b). Proof. walk3. Qed.
  Lemma keeps_pop_fn : mrel (keeps f) pop_function_call. Proof. walk3. Qed.
  Lemma keeps_find_var n : mrel (keeps f) (find_variable_value_in_stack n). Proof. walk3. Qed.
  Lemma keeps_next_line : mrel (keeps f) next_line. Proof. walk3. Qed.
  Lemma keeps_arrays_create n i : mrel (keeps f) (arrays_create n i). Proof. walk3. Qed.
  Lemma keeps_maybe_default n d : mrel (keeps f) (maybe_create_default_array n d). Proof. walk3. Qed.
  Lemma keeps_arrays_get n i : mrel (keeps f) (arrays_get n i). Proof. walk3. Qed.
  Lemma keeps_arrays_set n i v : mrel (keeps f) (arrays_set n i v). Proof. walk3. Qed.
  Lemma keeps_rng_rnd x : mrel (keeps f) (rng_rnd x). Proof. walk3. Qed.
  Lemma keeps_push_output o : mrel (keeps f) (push_output o). Proof. walk3. Qed.
  Lemma keeps_warn m : mrel (keeps f) (warn m). Proof. walk3. Qed.
  Lemma keeps_maybe_warn n : mrel (keeps f) (maybe_warn_undeclared_array n). Proof. walk3. Qed.

  Lemma keeps_set_numbered_tail : mrel (keeps f) set_numbered_tail.
  Proof. unfold set_numbered_tail; walk3. Qed.

  Lemma keeps_set_numbered_line n ts s :
    f (snd (set_numbered_line n ts s)) = f (store_set n ts s).
  Proof.
    rewrite set_numbered_line_split. unfold bind at 1. unfold modify at 1.
    apply (keeps_set_numbered_tail (store_set n ts s)).
  Qed.

  Lemma keeps_next_data : mrel (keeps f) next_data_element.
  Proof.
    intros s; unfold next_data_element, keeps.
    destruct (data_it s) as [d|].
    - destruct (data_next _ d); cbn [snd]. apply (rf_data_it _ RF).
    - destruct (data_chunks (st_keys s) (st_toks s)); try reflexivity.
      destruct (data_next _ _); cbn [snd]. apply (rf_data_it _ RF).
  Qed.

  (* operators *)
  Lemma keeps_eval_unary o v : mrel (keeps f) (eval_unary o v).
  Proof. unfold eval_unary; walk3. Qed.
  Lemma keeps_eval_addsub o a b : mrel (keeps f) (eval_addsub o a b).
  Proof. unfold eval_addsub; walk3. Qed.
  Lemma keeps_eval_muldiv o a b : mrel (keeps f) (eval_muldiv o a b).
  Proof. unfold eval_muldiv; walk3. Qed.
  Lemma keeps_eval_eq o a b : mrel (keeps f) (eval_eq o a b).
  Proof. unfold eval_eq; walk3. Qed.
  Lemma keeps_eval_and a b : mrel (keeps f) (eval_and a b).
  Proof. unfold eval_and; walk3. Qed.
  Lemma keeps_eval_or a b : mrel (keeps f) (eval_or a b).
  Proof. unfold eval_or; walk3. Qed.
  Lemma keeps_eval_pow a b : mrel (keeps f) (eval_pow a b).
  Proof. unfold eval_pow; walk3. Qed.

  Lemma keeps_expect_number v : mrel (keeps f) (expect_number v).
  Proof. unfold expect_number; walk3. Qed.

  Ltac leaf4 :=
    first
      [ apply keeps_expect_number | apply keeps_next_data | apply keeps_rewind | apply keeps_set_imm | apply keeps_remove_loop
      | apply keeps_program_break | apply keeps_continue_bp | apply keeps_variables_set
      | apply keeps_variables_get | apply keeps_start_loop | apply keeps_end_loop
      | apply keeps_reset_data | apply keeps_program_end | apply keeps_reset_runtime
      | apply keeps_run_from_first | apply keeps_goto | apply keeps_gosub | apply keeps_return
      | apply keeps_define_function | apply keeps_push_fn | apply keeps_pop_fn | apply keeps_find_var
      | apply keeps_next_line | apply keeps_arrays_create | apply keeps_maybe_default
      | apply keeps_arrays_get | apply keeps_arrays_set | apply keeps_rng_rnd | apply keeps_push_output
      | apply keeps_warn | apply keeps_maybe_warn
      | apply keeps_peek | apply keeps_has_next | apply keeps_next_token | apply keeps_next_unwrapped
      | apply keeps_expect | apply keeps_accept | apply keeps_peek_is | apply keeps_try | apply keeps_discard
      | apply keeps_eval_unary | apply keeps_eval_addsub | apply keeps_eval_muldiv | apply keeps_eval_eq
      | apply keeps_eval_and | apply keeps_eval_or | apply keeps_eval_pow
      | leaf3 ].
  Ltac walk4 := mrel_walk PO leaf4.

  (* ---- expressions ---- *)
  Section Expr.
    Variable fuel : nat.
    Variable rec : M value.
    Hypothesis Hrec : mrel (keeps f) rec.

    Lemma keeps_bind_arguments args i n b : mrel (keeps f) (bind_arguments rec args i n b).
    Proof.
      revert i b; induction args as [|a args IH]; intros i b; cbn [bind_arguments]; walk4.
      apply IH.
    Qed.

    Lemma keeps_call_body : mrel (keeps f) (call_body rec).
    Proof.
      intros s. unfold call_body. pose proof (Hrec s) as H1.
      destruct (rec s) as [[v|e l|p| |] s1]; cbn [snd] in *; try exact H1.
      - pose proof (keeps_pop_fn s1) as H2.
        destruct (pop_function_call s1) as [[u|e l|p| |] s2]; cbn [snd] in *;
          unfold keeps in *; congruence.
      - pose proof (keeps_pop_fn s1) as H2.
        destruct (pop_function_call s1) as [[u|e2 l2|p| |] s2]; cbn [snd] in *;
          unfold keeps in *; congruence.
    Qed.

    Ltac leafE := first [ apply keeps_bind_arguments | apply keeps_call_body | leaf4 ].
    Ltac walkE := mrel_walk PO leafE.

    Lemma keeps_array_index : mrel (keeps f) (evaluate_array_index fuel rec).
    Proof. unfold evaluate_array_index; walkE. Qed.

    Lemma keeps_function_call name : mrel (keeps f) (function_call rec name).
    Proof. unfold function_call; walkE. Qed.

    Lemma keeps_unary : mrel (keeps f) (unary_operator fuel rec).
    Proof.
      unfold unary_operator, parenthesized_expression, expression_term.
      mrel_walk PO ltac:(first [ apply keeps_function_call | apply keeps_array_index | leafE ]).
    Qed.

    Lemma keeps_tier {O} (g : M (option O)) (operand : M value) (ap : O -> value -> value -> M value) :
      mrel (keeps f) g -> mrel (keeps f) operand -> (forall o a b, mrel (keeps f) (ap o a b)) ->
      mrel (keeps f) (tier fuel g operand ap).
    Proof. intros Hg Ho Ha. unfold tier; walkE; auto. Qed.

    Lemma keeps_accept_as {O} t (o : O) : mrel (keeps f) (accept_as t o).
    Proof. unfold accept_as; walkE. Qed.

    Lemma keeps_logical_or : mrel (keeps f) (logical_or_expression fuel rec).
    Proof.
      unfold logical_or_expression, logical_and_expression, equality_expression,
        plus_or_minus_expression, multiply_or_divide_expression, exponent_expression.
      repeat (apply keeps_tier;
              [ first [apply keeps_accept_as | apply keeps_try] | | intros; leaf4 ]).
      apply keeps_unary.
    Qed.
  End Expr.

  Lemma keeps_evaluate_expression fuel : forall n, mrel (keeps f) (evaluate_expression fuel n).
  Proof.
    induction fuel as [|k IH]; intros n; cbn [evaluate_expression].
    - apply (mrel_out_of_fuel _ PO).
    - destruct (Nat.eqb n max_nesting); [apply (mrel_fail _ PO)|].
      apply keeps_logical_or; apply IH.
  Qed.

  (* ---- statements ---- *)
  Section Stmt.
    Variable fuel : nat.
    Variable nest : nat.
    Variable rec : M unit.
    Hypothesis Hrec : mrel (keeps f) rec.

    Ltac leaf5 :=
      first [ apply keeps_evaluate_expression
            | apply keeps_array_index; apply keeps_evaluate_expression
            | intros ?s0; unfold keeps; reflexivity
            | leaf4 ].
    Ltac walk5 := mrel_walk PO leaf5.

    Lemma keeps_optional_index : mrel (keeps f) (parse_optional_array_index fuel nest).
    Proof. unfold parse_optional_array_index, expr; walk5. Qed.

    Lemma keeps_parse_lvalue : mrel (keeps f) (parse_lvalue fuel nest).
    Proof. unfold parse_lvalue; mrel_walk PO ltac:(first [apply keeps_optional_index | leaf5]). Qed.

    Lemma keeps_assign lv v : mrel (keeps f) (assign_value lv v).
    Proof. unfold assign_value; walk5. Qed.

    Ltac leaf6 := first [ apply keeps_parse_lvalue | apply keeps_optional_index | apply keeps_assign | leaf5 ].
    Ltac walk6 := mrel_walk PO leaf6.

    Lemma keeps_await : mrel (keeps f) rewind_program_and_await_input.
    Proof. unfold rewind_program_and_await_input; walk6. Qed.

    Lemma keeps_break : mrel (keeps f) break_at_current_location.
    Proof. unfold break_at_current_location; walk6. Qed.

    Lemma keeps_goto_stmt : mrel (keeps f) evaluate_goto_statement.
    Proof. unfold evaluate_goto_statement; walk6. Qed.

    Lemma keeps_gosub_stmt : mrel (keeps f) evaluate_gosub_statement.
    Proof. unfold evaluate_gosub_statement; walk6. Qed.

    Lemma keeps_stmt_or_goto : mrel (keeps f) (statement_or_goto_line_number rec).
    Proof. unfold statement_or_goto_line_number; mrel_walk PO ltac:(first [apply keeps_goto_stmt | leaf6]). Qed.

    Lemma keeps_if : mrel (keeps f) (evaluate_if_statement fuel nest rec).
    Proof. unfold evaluate_if_statement, expr; mrel_walk PO ltac:(first [apply keeps_stmt_or_goto | leaf6]). Qed.

    Lemma keeps_assignment sym : mrel (keeps f) (evaluate_assignment_statement fuel nest sym).
    Proof. unfold evaluate_assignment_statement, expr; walk6. Qed.

    Lemma keeps_let : mrel (keeps f) (evaluate_let_statement fuel nest).
    Proof. unfold evaluate_let_statement; mrel_walk PO ltac:(first [apply keeps_assignment | leaf6]). Qed.

    Lemma keeps_read : mrel (keeps f) (evaluate_read_statement fuel nest).
    Proof. unfold evaluate_read_statement; walk6. Qed.

    Lemma keeps_take_input : mrel (keeps f) take_input.
    Proof. unfold take_input; walk6. Qed.

    Lemma keeps_input : mrel (keeps f) (evaluate_input_statement fuel nest).
    Proof.
      unfold evaluate_input_statement;
        mrel_walk PO ltac:(first [apply keeps_take_input | apply keeps_await | leaf6]).
    Qed.

    Lemma keeps_dim : mrel (keeps f) (evaluate_dim_statement fuel nest).
    Proof. unfold evaluate_dim_statement; walk6. Qed.

    Lemma keeps_print : mrel (keeps f) (evaluate_print_statement fuel nest).
    Proof. unfold evaluate_print_statement, expr; walk6. Qed.

    Lemma keeps_for : mrel (keeps f) (evaluate_for_statement fuel nest).
    Proof. unfold evaluate_for_statement, expr; walk6. Qed.

    Lemma keeps_next_stmt : mrel (keeps f) evaluate_next_statement.
    Proof. unfold evaluate_next_statement; walk6. Qed.

    Lemma keeps_def : mrel (keeps f) (evaluate_def_statement fuel).
    Proof. unfold evaluate_def_statement; walk6. Qed.

    Lemma keeps_statement_body : mrel (keeps f) (evaluate_statement_body fuel nest rec).
    Proof.
      unfold evaluate_statement_body;
      mrel_walk PO ltac:(
        first [ apply keeps_break | apply keeps_dim | apply keeps_print | apply keeps_input
              | apply keeps_if | apply keeps_goto_stmt | apply keeps_gosub_stmt | apply keeps_for
              | apply keeps_next_stmt | apply keeps_def | apply keeps_read | apply keeps_let
              | apply keeps_assignment | leaf6 ]).
    Qed.
  End Stmt.

  Lemma keeps_evaluate_statement fuel : forall n, mrel (keeps f) (evaluate_statement fuel n).
  Proof.
    induction fuel as [|k IH]; intros n; cbn [evaluate_statement].
    - apply (mrel_out_of_fuel _ PO).
    - destruct (Nat.eqb n max_nesting); [apply (mrel_fail _ PO)|].
      apply keeps_statement_body; apply IH.
  Qed.

  Lemma keeps_run_next_statement fuel : mrel (keeps f) (run_next_statement fuel).
  Proof.
    unfold run_next_statement, return_to_idle_state.
    mrel_walk PO ltac:(first [ apply keeps_evaluate_statement | leaf4 ]).
  Qed.
End RuntimeFrame.
