(* Proofs/WebProofs.v — C19: the Web adapter under the page's protocol.

   1. The adapter's calls, one by one, under the precondition the page
      establishes before making them (the core is well-formed — C01 — no error
      is latched, the core is in the state the page just observed): no trap,
      and the invariant [JInv] is re-established.
   2. The page: every user event (submit, break key, timer tick) and the
      start-up handler preserve the invariant and never trap or throw
      (page_step_safe), hence neither does any sequence of them (page_run_safe).
   3. Faithfulness: what the adapter exposes is the image of what the core
      yields (by definition of the model functions; stated as equations), and
      NEW yields the fresh interpreter.
   4. The transliteration is the script: the call skeleton regenerated from
      main.ts (Gen/Tables.v) is the one modelled (skeleton_tie). *)
From Coq Require Import List NArith ZArith Bool Lia.
From Coq Require String.
From Abasic Require Import Model.Bytes Model.Num Model.Token Model.Data Model.Lexer Gen.Tables
     Model.State Model.Eval Model.Interp Model.Analyzer Model.Web
     Proofs.Monad Proofs.Frames Proofs.StoreProofs Proofs.ResetProofs Proofs.Safety.
Import ListNotations.
Local Open Scope nat_scope.

(* the adapter's invariant between calls *)
Record JInv (j : js) : Prop := {
  ji_wf : wf (core j);
  ji_state : state (core j) <> NewInterpreterRequested;
  ji_err : latest_error j <> None -> state (core j) = Idle }.

Lemma JInv_new oracle : JInv (js_new oracle).
Proof. split; cbn; [apply wf_fresh|discriminate|congruence]. Qed.

Lemma wf_maybe_replace s : wf s -> wf (maybe_replace s).
Proof. intros H. unfold maybe_replace. destruct (state s); try exact H. apply wf_fresh. Qed.

Lemma state_maybe_replace s : state (maybe_replace s) <> NewInterpreterRequested.
Proof.
  unfold maybe_replace. destruct (state s) eqn:E; try (rewrite E; discriminate). cbn. discriminate.
Qed.

(* ------------------------------------------------------------------ *)
(* 1. the adapter calls *)

Lemma js_start_safe fuel line j :
  JInv j -> latest_error j = None -> state (core j) = Idle ->
  match js_start_evaluating fuel line j with
  | JOk _ j' => JInv j'
  | JTrap => False
  | JStuck => True
  end.
Proof.
  intros [Hwf Hst Herr] Hnone Hidle. unfold js_start_evaluating. rewrite Hnone.
  unfold start_evaluating.
  pose proof (tr_postprocess _ (tr_evaluate_impl fuel line (core j) Hwf Hidle)) as [A1 A2 A3].
  pose proof (postprocess_err (evaluate_impl fuel line (core j))) as Hpe.
  destruct (postprocess (evaluate_impl fuel line (core j))) as [[u|e l|p| |] s1]; cbn [fst snd] in *.
  - split; cbn [core latest_error]; [apply wf_maybe_replace, A1|apply state_maybe_replace|congruence].
  - destruct (render_caret_ok e l (Some line) s1) as (ls & Hls).
    { intros l0 ->. eapply A3; reflexivity. }
    rewrite Hls. split; cbn [core latest_error]; [exact A1| |intros _; eapply Hpe; reflexivity].
    rewrite (Hpe e l s1 eq_refl). discriminate.
  - exact (A2 p eq_refl).
  - exact I.
  - exact I.
Qed.

Lemma js_continue_safe fuel j :
  JInv j -> latest_error j = None -> state (core j) = Running ->
  match js_continue_evaluating fuel j with
  | JOk _ j' => JInv j'
  | JTrap => False
  | JStuck => True
  end.
Proof.
  intros [Hwf Hst Herr] Hnone Hrun. unfold js_continue_evaluating. rewrite Hnone.
  unfold continue_evaluating. rewrite Hrun.
  pose proof (tr_postprocess _ (tr_of_sr (run_next_statement fuel) (core j) (sr_run_next_statement fuel) Hwf)) as [A1 A2 A3].
  pose proof (postprocess_err (run_next_statement fuel (core j))) as Hpe.
  destruct (postprocess (run_next_statement fuel (core j))) as [[u|e l|p| |] s1]; cbn [fst snd] in *.
  - split; cbn [core latest_error]; [apply wf_maybe_replace, A1|apply state_maybe_replace|congruence].
  - destruct (render_caret_ok e l None s1) as (ls & Hls).
    { intros l0 ->. eapply A3; reflexivity. }
    rewrite Hls. split; cbn [core latest_error]; [exact A1| |intros _; eapply Hpe; reflexivity].
    rewrite (Hpe e l s1 eq_refl). discriminate.
  - exact (A2 p eq_refl).
  - exact I.
  - exact I.
Qed.

Lemma js_provide_safe text j :
  JInv j -> latest_error j = None -> state (core j) = AwaitingInput ->
  exists j', js_provide_input text j = JOk tt j' /\ JInv j' /\ latest_error j' = None.
Proof.
  intros [Hwf Hst Herr] Hnone Haw. unfold js_provide_input, provide_input. rewrite Haw.
  eexists. split; [reflexivity|]. split; [|exact Hnone].
  split; cbn [core latest_error]; [revert Hwf; apply wf_ext; reflexivity|cbn; discriminate|congruence].
Qed.

Lemma host_break_state s : fst (host_break s) = Ok tt /\ state (snd (host_break s)) = Idle.
Proof.
  unfold host_break, break_at_current_location, program_break_at_current_location.
  rewrite bind_modify. unfold get_line_number. rewrite bind_assoc, bind_get, Safety.bind_ret.
  unfold push_output. rewrite bind_modify, bind_get, bind_modify, set_imm_is_modify. unfold modify. cbn [fst snd].
  split; [reflexivity|]. unfold imm_reset. cbn. destruct (numbered_of (loc s)); reflexivity.
Qed.

Lemma js_break_safe j :
  JInv j -> latest_error j = None ->
  exists j', js_break j = JOk tt j' /\ JInv j' /\ latest_error j' = None.
Proof.
  intros [Hwf Hst Herr] Hnone. unfold js_break.
  pose proof (tr_of_sr break_at_current_location (core j) sr_break Hwf) as [A1 A2 A3].
  destruct (host_break_state (core j)) as [B1 B2]. unfold host_break in *.
  destruct (break_at_current_location (core j)) as [r s1]. cbn [fst snd] in *. subst r.
  eexists. split; [reflexivity|]. split; [|exact Hnone].
  split; cbn [core latest_error]; [exact A1|rewrite B2; discriminate|congruence].
Qed.

Lemma js_get_state_safe j : JInv j -> exists st, js_get_state j = JOk st j
  /\ (st = JErrored <-> latest_error j <> None)
  /\ (st = JIdle -> state (core j) = Idle) /\ (st = JRunning -> state (core j) = Running)
  /\ (st = JAwaitingInput -> state (core j) = AwaitingInput).
Proof.
  intros [Hwf Hst Herr]. unfold js_get_state. destruct (latest_error j) as [e|] eqn:E.
  - exists JErrored. repeat split; try discriminate; congruence.
  - destruct (state (core j)) eqn:Es; try congruence;
      eexists; (split; [reflexivity|]); repeat split; try discriminate; try congruence; intros H; congruence.
Qed.

(* ------------------------------------------------------------------ *)
(* 2. the page *)

Definition safe (r : pres) : Prop :=
  match r with
  | POk p _ => JInv (impl p)
  | PStuck => True
  | PThrow _ | PTrap _ => False
  end.

Lemma JInv_take_output j : JInv j -> JInv (snd (js_take_output j)).
Proof.
  intros [Hwf Hst Herr]. unfold js_take_output. cbn [snd].
  split; cbn [core latest_error]; [revert Hwf; apply wf_ext; reflexivity|exact Hst|exact Herr].
Qed.

(* handleCurrentState with no error latched: one pass *)
Lemma hcs_safe_none fuel : forall k p log, 1 <= k -> JInv (impl p) -> latest_error (impl p) = None ->
  safe (handle_current_state fuel k p log).
Proof.
  intros k p log Hk Hinv Hnone. destruct k as [|k]; [lia|].
  cbn [handle_current_state]. unfold js_take_output at 1.
  set (j1 := mkjs (set_outputs [] (core (impl p))) (latest_error (impl p))).
  assert (Hinv1 : JInv j1) by (apply (JInv_take_output (impl p) Hinv)).
  assert (Hn1 : latest_error j1 = None) by exact Hnone.
  destruct (js_get_state_safe j1 Hinv1) as (st & Hgs & Herr & Hi & Hr & Ha). rewrite Hgs.
  destruct st.
  - destruct (negb (fully_interactive p)); cbn [safe impl]; exact Hinv1.
  - pose proof (js_continue_safe fuel j1 Hinv1 Hn1 (Hr eq_refl)) as Hc.
    destruct (js_continue_evaluating fuel j1) as [u j3| |]; cbn [safe impl]; try exact Hc; exact I.
  - cbn [safe impl]. exact Hinv1.
  - exfalso. apply (proj1 Herr eq_refl). exact Hn1.
Qed.

(* ... and with an error possibly latched: it is taken and shown first *)
Lemma hcs_safe fuel : forall k p log, 2 <= k -> JInv (impl p) -> safe (handle_current_state fuel k p log).
Proof.
  intros k p log Hk Hinv. destruct (latest_error (impl p)) as [e|] eqn:E; [|apply hcs_safe_none; [lia|exact Hinv|exact E]].
  destruct k as [|k]; [lia|].
  cbn [handle_current_state]. unfold js_take_output at 1.
  set (j1 := mkjs (set_outputs [] (core (impl p))) (latest_error (impl p))).
  assert (Hinv1 : JInv j1) by (apply (JInv_take_output (impl p) Hinv)).
  unfold js_get_state. subst j1. cbn [latest_error]. rewrite E.
  unfold js_take_error. cbn [fst snd latest_error].
  apply hcs_safe_none; [lia| |reflexivity].
  cbn [impl]. destruct Hinv1 as [A1 A2 A3]. split; cbn [core latest_error] in *; [exact A1|exact A2|congruence].
Qed.

Lemma do_break_safe fuel p log : JInv (impl p) -> safe (do_break fuel p log).
Proof.
  intros Hinv. unfold do_break.
  destruct (js_get_state_safe (impl p) Hinv) as (st & Hgs & Herr & Hi & Hr & Ha). rewrite Hgs.
  assert (Hnone : st <> JErrored -> latest_error (impl p) = None).
  { intros Hne. destruct (latest_error (impl p)) eqn:E; [|reflexivity]. exfalso. apply Hne, Herr. congruence. }
  destruct st; cbn [safe impl]; try exact Hinv.
  - destruct (js_break_safe (impl p) Hinv (Hnone ltac:(discriminate))) as (j2 & Hb & Hinv2 & _). rewrite Hb.
    apply hcs_safe; [lia|exact Hinv2].
  - destruct (js_break_safe (impl p) Hinv (Hnone ltac:(discriminate))) as (j2 & Hb & Hinv2 & _). rewrite Hb.
    apply hcs_safe; [lia|exact Hinv2].
Qed.

(* every event the page can receive after start-up, and start-up itself *)
Theorem page_step_safe fuel p ev :
  JInv (impl p) -> (match ev with EvLoad _ => False | _ => True end) -> safe (page_step fuel p ev).
Proof.
  intros Hinv Hev. destruct ev as [text| |text| |]; [contradiction| | | |]; cbn [page_step].
  - apply hcs_safe; [lia|exact Hinv].
  - destruct (negb (input_enabled p) || negb (started p)); [exact Hinv|].
    destruct (js_get_state_safe (impl p) Hinv) as (st & Hgs & Herr & Hi & Hr & Ha). rewrite Hgs.
    assert (Hnone : st <> JErrored -> latest_error (impl p) = None).
    { intros Hne. destruct (latest_error (impl p)) eqn:E; [|reflexivity]. exfalso. apply Hne, Herr. congruence. }
    destruct ((match st with JIdle => false | _ => true end) && bytes_eqb text break_alias).
    + apply do_break_safe. exact Hinv.
    + destruct st; cbn [safe impl]; try exact Hinv.
      * pose proof (js_start_safe fuel text (impl p) Hinv (Hnone ltac:(discriminate)) (Hi eq_refl)) as Hs.
        destruct (js_start_evaluating fuel text (impl p)) as [u j2| |]; [|contradiction|exact I].
        apply hcs_safe; [lia|exact Hs].
      * destruct (js_provide_safe text (impl p) Hinv (Hnone ltac:(discriminate)) (Ha eq_refl)) as (j2 & Hp & Hinv2 & _).
        rewrite Hp. apply hcs_safe; [lia|exact Hinv2].
  - destruct (negb (input_enabled p) || negb (started p)); [exact Hinv|]. apply do_break_safe, Hinv.
  - destruct (pending_ticks p); [exact Hinv|]. apply hcs_safe; [lia|exact Hinv].
Qed.

(* any sequence of them *)
Fixpoint page_run (fuel : nat) (p : page) (evs : list event) : pres :=
  match evs with
  | [] => POk p []
  | ev :: r => match page_step fuel p ev with
               | POk p' _ => page_run fuel p' r
               | other => other
               end
  end.

Theorem page_run_safe fuel : forall evs p,
  JInv (impl p) -> Forall (fun ev => match ev with EvLoad _ => False | _ => True end) evs ->
  safe (page_run fuel p evs).
Proof.
  induction evs as [|ev evs IH]; intros p Hinv Hevs; cbn [page_run]; [exact Hinv|].
  inversion Hevs as [|? ? Hev Hevs']; subst.
  pose proof (page_step_safe fuel p ev Hinv Hev) as Hs.
  destruct (page_step fuel p ev) as [p' log|log|log|]; try exact Hs. apply IH; assumption.
Qed.

(* the loader: numbered lines are submitted until the interpreter rejects one *)
Definition loader_line_ok (l : bytes) : Prop :=
  js_blank l = true \/ starts_with_digit l = false \/ parse_line_number l <> None.

Lemma start_numbered_idle fuel line s n e :
  state s = Idle -> command_of line = None -> parse_line_number line = Some (n, e) ->
  forall u s1, start_evaluating fuel line s = (Ok u, s1) -> state s1 = Idle.
Proof.
  intros Hidle Hc Hp u s1. unfold start_evaluating, evaluate_impl. rewrite bind_get, Hidle.
  rewrite set_imm_is_modify, bind_modify, Hc, Hp.
  destruct (tokenize line e) as [ts|ts err]; [|cbn; discriminate].
  unfold set_numbered_line, reset_data_cursor, program_end. rewrite set_imm_is_modify.
  unfold modify, bind, postprocess. cbn [fst snd]. intros H; inversion H; subst.
  unfold imm_reset, store_set. destruct (map fst ts); cbn; destruct (breakpoint s); exact Hidle.
Qed.

(* ------------------------------------------------------------------ *)
(* 3. faithfulness: what the adapter exposes is the image of the core's *)

Theorem js_outputs_are_core_outputs j :
  fst (js_take_output j) = map (fun o => (out_type o, display_output o)) (outputs (core j))
  /\ outputs (core (snd (js_take_output j))) = [].
Proof. split; reflexivity. Qed.

Theorem js_state_is_core_state j st :
  js_get_state j = JOk st j ->
  match st with
  | JErrored => latest_error j <> None
  | JIdle => latest_error j = None /\ state (core j) = Idle
  | JRunning => latest_error j = None /\ state (core j) = Running
  | JAwaitingInput => latest_error j = None /\ state (core j) = AwaitingInput
  end.
Proof.
  unfold js_get_state. destruct (latest_error j) as [e|]; [intros H; inversion H; discriminate|].
  destruct (state (core j)); intros H; inversion H; split; reflexivity.
Qed.

(* the error the adapter latches: the core's message, then the source line
   and the caret the core renders for that error *)
Theorem js_start_error_text fuel line j e l s1 :
  latest_error j = None -> start_evaluating fuel line (core j) = (Err e l, s1) ->
  forall ls, render_caret e l (Some line) s1 = Ok ls ->
  js_start_evaluating fuel line j = JOk tt (mkjs s1 (Some (join [nl] (display_error e l :: ls)))).
Proof. intros Hn Hs ls Hc. unfold js_start_evaluating. rewrite Hn, Hs, Hc. reflexivity. Qed.

Theorem js_continue_error_text fuel j e l s1 :
  latest_error j = None -> continue_evaluating fuel (core j) = (Err e l, s1) ->
  forall ls, render_caret e l None s1 = Ok ls ->
  js_continue_evaluating fuel j = JOk tt (mkjs s1 (Some (join [nl] (display_error e l :: ls)))).
Proof. intros Hn Hs ls Hc. unfold js_continue_evaluating. rewrite Hn, Hs, Hc. reflexivity. Qed.

(* a successful call leaves the core exactly as the core call left it — unless
   it asked for a new interpreter *)
Theorem js_start_ok_is_core fuel line j u s1 :
  latest_error j = None -> start_evaluating fuel line (core j) = (Ok u, s1) ->
  js_start_evaluating fuel line j = JOk tt (mkjs (maybe_replace s1) None).
Proof. intros Hn Hs. unfold js_start_evaluating. rewrite Hn, Hs. reflexivity. Qed.

(* NEW yields the fresh interpreter *)
Lemma command_of_NEW : command_of (bs "NEW") = Some CNew.
Proof. vm_compute. reflexivity. Qed.

Theorem js_new_is_fresh fuel j :
  latest_error j = None -> state (core j) = Idle ->
  js_start_evaluating fuel (bs "NEW") j = JOk tt (js_new (pow_oracle (core j))).
Proof.
  intros Hn Hidle. unfold js_start_evaluating. rewrite Hn.
  unfold start_evaluating, evaluate_impl. rewrite bind_get, Hidle, set_imm_is_modify, bind_modify, command_of_NEW.
  cbn [process_command]. unfold modify, postprocess, maybe_replace, js_new. cbn [fst snd state set_state].
  f_equal. f_equal. unfold imm_reset. destruct (breakpoint (core j)); reflexivity.
Qed.

(* ------------------------------------------------------------------ *)
(* 4. the transliteration is the script (regenerated from main.ts each run) *)

Import String.StringSyntax.
Local Open Scope string_scope.

Theorem skeleton_tie :
  page_skeleton =
  [ ("loadAndRunSourceCode", "this.isFullyInteractive continue continue impl.start_evaluating impl.get_state S.Errored return impl.start_evaluating");
    ("start", "this.isFullyInteractive this.handleCurrentState");
    ("canProcessUserInput", "impl.get_state return S.Idle S.AwaitingInput");
    ("canBreak", "impl.get_state return S.Idle");
    ("submitUserInput", "impl.get_state S.Idle impl.start_evaluating S.AwaitingInput impl.provide_input throw this.handleCurrentState");
    ("breakAtCurrentLocation", "impl.get_state S.AwaitingInput S.Running this.isFullyInteractive impl.break_at_current_location this.handleCurrentState");
    ("showOutput", "impl.take_latest_output O.Print O.Trace O.Break O.ExtraIgnored O.Reenter O.Warning");
    ("handleCurrentState", "this.showOutput impl.get_state S.Idle this.isFullyInteractive clearPromptAndDisableInput return S.AwaitingInput S.Errored impl.take_latest_error throw this.handleCurrentState S.Running impl.continue_evaluating setTimeout this.handleCurrentState") ]
  /\ page_handlers = [ "return"; "breakAtCurrentLocation"; "canBreak"; "alias:f09f92a5"; "breakAtCurrentLocation"; "return";
                       "canProcessUserInput"; "return"; "submitUserInput" ]
  /\ web_state_map = [ ("Idle", "Idle"); ("Running", "Running"); ("AwaitingInput", "AwaitingInput"); ("NewInterpreterRequested", "PANIC") ]
  /\ web_output_map = [ ("Print", "Print"); ("Break", "Break"); ("Warning", "Warning"); ("Trace", "Trace");
                        ("ExtraIgnored", "ExtraIgnored"); ("Reenter", "Reenter") ].
Proof. repeat split; reflexivity. Qed.
