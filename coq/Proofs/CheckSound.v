(* Proofs/CheckSound.v — C06: what the static checker accepts the interpreter
   does not reject.

   A heterogeneous two-run argument over ANY token stream and ANY cursor
   position (no syntax trees, no well-formedness assumption): the expression
   analyzer (Model/Analyzer.v, monad MA, result a type) and the expression
   evaluator (Model/Eval.v, monad M, result a value) walk the same tokens in
   lock step.  If the analyzer succeeds with type t, then the evaluator, from
   any state that satisfies the name-suffix typing invariant of C16 and holds
   no user-defined functions, either returns a value of type t with the
   cursor where the analyzer left it, or fails with an error that is neither
   a syntax error nor a type mismatch (division by zero, bad subscript,
   illegal quantity, out of memory ...). *)
From Coq Require Import List NArith ZArith Bool Lia.
From Abasic Require Import Model.Bytes Model.Num Model.Token Model.Data Model.Lexer Gen.Tables
     Model.State Model.Eval Model.Interp Model.Analyzer Proofs.Monad Proofs.Frames Proofs.Caps.
Import ListNotations.
Local Open Scope nat_scope.

Definition kind (v : value) : vtype := match v with VStr _ => TyString | VNum _ => TyNumber end.

(* errors the checker is responsible for *)
Definition benign (e : ierror) : Prop :=
  match e with
  | ETypeMismatch | EUnexpectedToken | EExpectedToken _ | EUnexpectedEnd | ESyntaxTok _ => False
  | _ => True
  end.

Lemma kind_type_matches name v : type_matches name v = true -> kind v = type_of_name name.
Proof. unfold type_matches, type_of_name. destruct v, (ends_with_dollar name); cbn; congruence. Qed.

Lemma default_kind name : kind (default_value name) = type_of_name name.
Proof. unfold default_value, type_of_name. destruct (ends_with_dollar name); reflexivity. Qed.

(* the two runs look at the same program through the same cursor *)
Definition C (s sa : interp) : Prop :=
  st_toks s = st_toks sa /\ st_keys s = st_keys sa /\ immediate s = immediate sa /\ loc s = loc sa.

Definition R (s sa : interp) : Prop :=
  C s sa /\ caps_inv s /\ functions s = [] /\ functions sa = [].

Definition sound {A B} (P : A -> B -> Prop) (m : M A) (a : MA B) : Prop :=
  forall s sa acc, R s sa ->
    match a (sa, acc) with
    | (Ok y, (sa', acc')) =>
        match m s with
        | (Ok x, s') => P x y /\ R s' sa'
        | (Err e _, _) => benign e
        | _ => True
        end
    | _ => True
    end.

Lemma sound_bind {A B A' B'} (P : A -> A' -> Prop) (Q : B -> B' -> Prop) (m : M A) (a : MA A') f g :
  sound P m a -> (forall x y, P x y -> sound Q (f x) (g y)) -> sound Q (bind m f) (abind a g).
Proof.
  intros H1 H2 s sa acc HR. specialize (H1 s sa acc HR). unfold abind, bind.
  destruct (a (sa, acc)) as [[y|e l|pp| |] [sa1 acc1]]; try exact I.
  destruct (m s) as [[x|e l|pp| |] s1].
  - destruct H1 as [HP HR1]. apply (H2 x y HP s1 sa1 acc1 HR1).
  - destruct (g y (sa1, acc1)) as [[z|? ?|?| |] [? ?]]; try exact I. exact H1.
  - destruct (g y (sa1, acc1)) as [[z|? ?|?| |] [? ?]]; exact I.
  - destruct (g y (sa1, acc1)) as [[z|? ?|?| |] [? ?]]; exact I.
  - destruct (g y (sa1, acc1)) as [[z|? ?|?| |] [? ?]]; exact I.
Qed.

Lemma sound_ret {A B} (P : A -> B -> Prop) x y : P x y -> sound P (ret x) (aret y).
Proof. intros H s sa acc HR. cbn. split; assumption. Qed.

Lemma sound_afail {A B} (P : A -> B -> Prop) (m : M A) e : sound P m (afail e).
Proof. intros s sa acc HR. exact I. Qed.

Lemma sound_weaken {A B} (P Q : A -> B -> Prop) m a : (forall x y, P x y -> Q x y) -> sound P m a -> sound Q m a.
Proof.
  intros HPQ H s sa acc HR. specialize (H s sa acc HR).
  destruct (a (sa, acc)) as [[y|e l|pp| |] [sa1 acc1]]; try exact I.
  destruct (m s) as [[x|e l|pp| |] s1]; try exact H. destruct H as [HP HR1]. split; [apply HPQ; exact HP | exact HR1].
Qed.

(* ---- cursor primitives: the analyzer runs the very same code ---- *)

Definition same_rt (s s' : interp) : Prop :=
  stack s' = stack s /\ loops s' = loops s /\ variables s' = variables s /\ arrays s' = arrays s
  /\ functions s' = functions s.

Definition cursor_prim {A} (p : M A) : Prop :=
  forall s sa, C s sa ->
    fst (p s) = fst (p sa) /\ C (snd (p s)) (snd (p sa)) /\ same_rt s (snd (p s)) /\ same_rt sa (snd (p sa)).

Lemma same_rt_refl s : same_rt s s.
Proof. repeat split. Qed.

Lemma same_rt_trans a b c : same_rt a b -> same_rt b c -> same_rt a c.
Proof. unfold same_rt. intros (A1 & A2 & A3 & A4 & A5) (B1 & B2 & B3 & B4 & B5). repeat split; congruence. Qed.

Lemma cp_ret {A} (x : A) : cursor_prim (ret x).
Proof. intros s sa HC. cbn. split; [reflexivity|]. split; [exact HC|]. split; apply same_rt_refl. Qed.

Lemma cp_fail {A} e : cursor_prim (@fail A e).
Proof. intros s sa HC. cbn. split; [reflexivity|]. split; [exact HC|]. split; apply same_rt_refl. Qed.

Lemma cp_fail_at {A} e l : cursor_prim (@fail_at A e l).
Proof. intros s sa HC. cbn. split; [reflexivity|]. split; [exact HC|]. split; apply same_rt_refl. Qed.

Lemma cp_bind {A B} (m : M A) (f : A -> M B) : cursor_prim m -> (forall x, cursor_prim (f x)) -> cursor_prim (bind m f).
Proof.
  intros Hm Hf s sa HC. destruct (Hm s sa HC) as (E & HC1 & K1 & K2). unfold bind.
  destruct (m s) as [r1 s1], (m sa) as [r2 sa1]. cbn [fst snd] in *. subst r2.
  destruct r1 as [x|e l|pp| |]; try (split; [reflexivity|]; split; [exact HC1|]; split; assumption).
  destruct (Hf x s1 sa1 HC1) as (E' & HC2 & K3 & K4).
  split; [exact E'|]. split; [exact HC2|]. split; eapply same_rt_trans; eassumption.
Qed.

Lemma cp_get_loc : cursor_prim (get loc).
Proof.
  intros s sa (C1 & C2 & C3 & C4). cbn. split; [rewrite C4; reflexivity|]. split; [repeat split; assumption|].
  split; apply same_rt_refl.
Qed.

Lemma cp_bump : cursor_prim (modify (fun s => set_reads (S (reads s)) s)).
Proof.
  intros s sa (C1 & C2 & C3 & C4). cbn. split; [reflexivity|]. split; [repeat split; assumption|].
  split; repeat split.
Qed.

Lemma cp_advance : cursor_prim advance.
Proof.
  intros s sa (C1 & C2 & C3 & C4). unfold advance, modify. cbn. rewrite C4. split; [reflexivity|].
  split; [repeat split; assumption|]. split; repeat split.
Qed.

Lemma cp_cur_tokens : cursor_prim cur_tokens.
Proof.
  intros s sa (C1 & C2 & C3 & C4). unfold cur_tokens, bind, get, tokens_for_line. cbn [fst snd].
  rewrite C4, C1, C3. destruct (loc_line (loc sa)) as [n|]; [destruct (toks_get n (st_toks sa))|];
    cbn [fst snd]; (split; [reflexivity|]; split; [repeat split; assumption|]; split; apply same_rt_refl).
Qed.

Ltac cp_step :=
  lazymatch goal with
  | |- cursor_prim (bind _ _) => apply cp_bind; [|intro]
  | |- cursor_prim (ret _) => apply cp_ret
  | |- cursor_prim (fail _) => apply cp_fail
  | |- cursor_prim (fail_at _ _) => apply cp_fail_at
  | |- cursor_prim (get loc) => apply cp_get_loc
  | |- cursor_prim advance => apply cp_advance
  | |- cursor_prim cur_tokens => apply cp_cur_tokens
  | |- cursor_prim (modify _) => apply cp_bump
  | |- cursor_prim (if ?b then _ else _) => destruct b
  | |- cursor_prim (match ?x with _ => _ end) => destruct x
  end.
Ltac cp_walk := repeat cp_step.

Lemma cp_peek : cursor_prim peek_next_token.
Proof. unfold peek_next_token. cp_walk. Qed.
Lemma cp_next_token : cursor_prim next_token.
Proof. unfold next_token. apply cp_bind; [apply cp_peek|intro]. cp_walk. Qed.
Lemma cp_next_unwrapped : cursor_prim next_unwrapped_token.
Proof. unfold next_unwrapped_token. apply cp_bind; [apply cp_next_token|intro]. cp_walk. Qed.
Lemma cp_expect t : cursor_prim (expect_next_token t).
Proof. unfold expect_next_token. apply cp_bind; [apply cp_next_unwrapped|intro]. cp_walk. Qed.
Lemma cp_accept t : cursor_prim (accept_next_token t).
Proof. unfold accept_next_token. apply cp_bind; [apply cp_peek|intro]. cp_walk. Qed.
Lemma cp_peek_is t : cursor_prim (peek_is t).
Proof. unfold peek_is. apply cp_bind; [apply cp_peek|intro]. cp_walk. Qed.
Lemma cp_try {A} (g : token -> option A) : cursor_prim (try_next_token g).
Proof. unfold try_next_token. apply cp_bind; [apply cp_peek|intro]. cp_walk. Qed.

Lemma R_same_rt s sa s' sa' : R s sa -> C s' sa' -> same_rt s s' -> same_rt sa sa' -> R s' sa'.
Proof.
  intros (HC & Hcaps & Hf1 & Hf2) HC' (K1 & K2 & K3 & K4 & K5) (_ & _ & _ & _ & K5').
  split; [exact HC'|]. split; [apply (caps_inv_ext s); assumption|]. split; congruence.
Qed.

(* a cursor primitive against its lifted self *)
Lemma sound_cursor {A} (p : M A) : cursor_prim p -> sound eq p (lift p).
Proof.
  intros Hp s sa acc HR. destruct (Hp s sa (proj1 HR)) as (E & HC1 & K1 & K2).
  unfold lift. cbn [fst snd]. destruct (p sa) as [r2 sa1], (p s) as [r1 s1]. cbn [fst snd] in *. subst r2.
  destruct r1 as [x|e l|pp| |]; try exact I.
  split; [reflexivity|]. eapply R_same_rt; eassumption.
Qed.

(* ---- one-sided steps ---- *)

(* an evaluator step the analyzer has no counterpart for *)
Definition equiet {A} (Q : A -> Prop) (e : M A) : Prop :=
  forall s sa, R s sa ->
    match e s with
    | (Ok x, s') => R s' sa /\ Q x
    | (Err er _, _) => benign er
    | _ => True
    end.

(* an analyzer step that leaves its interpreter component alone *)
Definition aquiet {B} (Q : B -> Prop) (b : MA B) : Prop :=
  forall sa acc,
    match b (sa, acc) with
    | (Ok y, (sa', acc')) => sa' = sa /\ Q y
    | _ => True
    end.

Lemma sound_left {A B B'} (Q : A -> Prop) (P : B -> B' -> Prop) (e : M A) (m : A -> M B) (a : MA B') :
  equiet Q e -> (forall x, Q x -> sound P (m x) a) -> sound P (bind e m) a.
Proof.
  intros He Hm s sa acc HR. specialize (He s sa HR). unfold bind.
  destruct (e s) as [[x|er l|pp| |] s1].
  - destruct He as [HR1 HQ]. apply (Hm x HQ s1 sa acc HR1).
  - destruct (a (sa, acc)) as [[y|? ?|?| |] [? ?]]; try exact I. exact He.
  - destruct (a (sa, acc)) as [[y|? ?|?| |] [? ?]]; exact I.
  - destruct (a (sa, acc)) as [[y|? ?|?| |] [? ?]]; exact I.
  - destruct (a (sa, acc)) as [[y|? ?|?| |] [? ?]]; exact I.
Qed.

Lemma sound_right {A B B'} (Q : B -> Prop) (P : A -> B' -> Prop) (m : M A) (b : MA B) (a : B -> MA B') :
  aquiet Q b -> (forall y, Q y -> sound P m (a y)) -> sound P m (abind b a).
Proof.
  intros Hb Ha s sa acc HR. specialize (Hb sa acc). unfold abind.
  destruct (b (sa, acc)) as [[y|? ?|?| |] [sa1 acc1]]; try exact I.
  destruct Hb as [-> HQ]. apply (Ha y HQ s sa acc1 HR).
Qed.

Lemma sound_quiet {A B} (Q : A -> Prop) (Q' : B -> Prop) (P : A -> B -> Prop) (e : M A) (b : MA B) :
  equiet Q e -> aquiet Q' b -> (forall x y, Q x -> Q' y -> P x y) -> sound P e b.
Proof.
  intros He Hb HP s sa acc HR. specialize (He s sa HR). specialize (Hb sa acc).
  destruct (b (sa, acc)) as [[y|? ?|?| |] [sa1 acc1]]; try exact I. destruct Hb as [-> HQ'].
  destruct (e s) as [[x|er l|pp| |] s1]; try exact I; [|exact He].
  destruct He as [HR1 HQ]. split; [apply HP; assumption | exact HR1].
Qed.

Lemma sound_fail_benign {A B} (P : A -> B -> Prop) e (a : MA B) : benign e -> sound P (@fail A e) a.
Proof. intros He s sa acc HR. destruct (a (sa, acc)) as [[y|? ?|?| |] [? ?]]; try exact I. exact He. Qed.

Lemma sound_afail_bind {A B B'} (P : A -> B' -> Prop) (m : M A) e (g : B -> MA B') : sound P m (abind (afail e) g).
Proof. intros s sa acc HR. exact I. Qed.

Lemma aquiet_ret {B} (Q : B -> Prop) y : Q y -> aquiet Q (aret y).
Proof. intros H sa acc. cbn. split; [reflexivity | exact H]. Qed.

Lemma aquiet_log sym l w : aquiet (fun _ => True) (log_access sym l w).
Proof. intros sa acc. cbn. split; [reflexivity | exact I]. Qed.

Lemma aquiet_prev_loc : aquiet (fun _ => True) prev_loc.
Proof. intros sa acc. cbn. split; [reflexivity | exact I]. Qed.

Lemma aquiet_bind {B B'} (Q : B -> Prop) (Q' : B' -> Prop) (b : MA B) (g : B -> MA B') :
  aquiet Q b -> (forall y, Q y -> aquiet Q' (g y)) -> aquiet Q' (abind b g).
Proof.
  intros Hb Hg sa acc. specialize (Hb sa acc). unfold abind.
  destruct (b (sa, acc)) as [[y|? ?|?| |] [sa1 acc1]]; try exact I. destruct Hb as [-> HQ].
  apply (Hg y HQ sa acc1).
Qed.

Lemma aquiet_check t e : aquiet (fun y => y = e /\ t = e) (check t e).
Proof.
  intros sa acc. unfold check. destruct t, e; cbn; try exact I; (split; [reflexivity | split; reflexivity]).
Qed.

(* loops: both sides iterate in lock step (or one of them runs out of its own fuel) *)
Definition sumrel {S S' T T'} (J : S -> S' -> Prop) (P : T -> T' -> Prop) (x : S + T) (y : S' + T') : Prop :=
  match x, y with
  | inl a, inl b => J a b
  | inr a, inr b => P a b
  | _, _ => False
  end.

Lemma sound_repeat {S S' T T'} (J : S -> S' -> Prop) (P : T -> T' -> Prop)
      (body : S -> M (S + T)) (abody : S' -> MA (S' + T')) :
  (forall x y, J x y -> sound (sumrel J P) (body x) (abody y)) ->
  forall f1 f2 x y, J x y -> sound P (repeat_m f1 body x) (arepeat f2 abody y).
Proof.
  intros Hb. induction f1 as [|f1 IH]; intros f2 x y HI.
  - intros s sa acc HR. cbn [repeat_m]. destruct (arepeat f2 abody y (sa, acc)) as [[z|? ?|?| |] [? ?]]; exact I.
  - destruct f2 as [|f2]; [intros s sa acc HR; exact I|].
    cbn [repeat_m arepeat]. apply (sound_bind (sumrel J P)); [apply Hb; exact HI|].
    intros [x1|t1] [y1|t1']; cbn [sumrel]; intros H; try contradiction.
    + apply IH. exact H.
    + apply sound_ret. exact H.
Qed.

(* ---- evaluator-only steps: what the store holds has the kind its name says ---- *)

Lemma R_ext s s' sa :
  R s sa -> st_toks s' = st_toks s -> st_keys s' = st_keys s -> immediate s' = immediate s -> loc s' = loc s ->
  functions s' = functions s -> caps_inv s' -> R s' sa.
Proof.
  intros ((C1 & C2 & C3 & C4) & _ & Hf1 & Hf2) E1 E2 E3 E4 E5 Hc.
  split; [repeat split; congruence|]. split; [exact Hc|]. split; congruence.
Qed.

Lemma find_in_frames_typed name frames v :
  Forall (fun fr => typed_alist (fr_vars fr)) frames -> find_in_frames name frames = Some v -> type_matches name v = true.
Proof.
  induction 1 as [|fr frames Hfr _ IH]; cbn [find_in_frames]; [discriminate|].
  destruct (alist_get name (fr_vars fr)) as [x|] eqn:E.
  - intros H. inversion H; subst. apply (Hfr name v). apply alist_get_In. exact E.
  - exact IH.
Qed.

Lemma equiet_ret {A} (Q : A -> Prop) x : Q x -> equiet Q (ret x).
Proof. intros H s sa HR. cbn. split; assumption. Qed.

Lemma equiet_bind {A B} (Q : A -> Prop) (Q' : B -> Prop) (e : M A) (f : A -> M B) :
  equiet Q e -> (forall x, Q x -> equiet Q' (f x)) -> equiet Q' (bind e f).
Proof.
  intros He Hf s sa HR. specialize (He s sa HR). unfold bind.
  destruct (e s) as [[x|er l|pp| |] s1]; try exact I; [|exact He].
  destruct He as [HR1 HQ]. apply (Hf x HQ s1 sa HR1).
Qed.

(* reading a variable: a frame's binding or the store's (or the default) *)
Lemma equiet_variable sym :
  equiet (fun v => kind v = type_of_name sym)
    (sv <- find_variable_value_in_stack sym ;;
     match sv with
     | Some v => ret v
     | None =>
         w <- get enable_warnings ;;
         vs <- get variables ;;
         (if w && negb (alist_has sym vs)
          then warn (bs "Use of undeclared variable '" ++ sym ++ bs "'.")
          else ret tt) ;;;
         variables_get sym
     end).
Proof.
  intros s sa HR. destruct HR as (HC & Hcaps & Hf1 & Hf2).
  pose proof Hcaps as (K1 & K2 & K3 & K4 & K5 & K6).
  assert (HR : R s sa) by (split; [exact HC|]; split; [exact Hcaps|]; split; assumption).
  unfold find_variable_value_in_stack, bind, get, ret. cbn [fst snd].
  destruct (find_in_frames sym (rev (stack s))) as [v|] eqn:Ef.
  - split; [exact HR|].
    apply kind_type_matches. apply (find_in_frames_typed sym (rev (stack s))); [|exact Ef].
    apply Forall_rev. exact K5.
  - assert (Hval : kind (match alist_get sym (variables s) with Some v => v | None => default_value sym end) = type_of_name sym).
    { destruct (alist_get sym (variables s)) as [v|] eqn:E; [|apply default_kind].
      apply kind_type_matches. apply (K4 sym v). apply alist_get_In. exact E. }
    destruct (enable_warnings s && negb (alist_has sym (variables s))).
    + unfold warn, bind, get, get_line_number, push_output, modify, ret, variables_get. cbn [fst snd].
      destruct (enable_warnings s); cbn [fst snd]; (split; [|exact Hval]);
        (apply (R_ext s); try reflexivity; [exact HR|]; apply (caps_inv_ext s); try reflexivity; exact Hcaps).
    + unfold variables_get, bind, get, ret. cbn [fst snd]. split; [exact HR | exact Hval].
Qed.

Lemma equiet_rng x : equiet (fun _ : f64 => True) (rng_rnd x).
Proof.
  intros s sa HR. unfold rng_rnd.
  destruct (f64_ltb x f64_zero); [exact I|].
  destruct (f64_eqb x f64_zero).
  - cbn. split; [exact HR | exact I].
  - cbn. split; [|exact I]. apply (R_ext s); try reflexivity; [exact HR|].
    apply (caps_inv_ext s); try reflexivity. apply HR.
Qed.

Lemma cell_kind name a v : arr_ok name a -> In v (ar_cells a) -> kind v = type_of_name name.
Proof.
  intros (_ & _ & _ & Hs & Hc) Hin. rewrite Forall_forall in Hc. specialize (Hc v Hin).
  unfold type_of_name. rewrite <- Hs. destruct v; cbn in *; rewrite Hc; reflexivity.
Qed.

Lemma array_create_benign name idx er l : array_create_value name idx = Err er l -> benign er.
Proof.
  unfold array_create_value. destruct idx as [|i0 idx']; [intros H; inversion H; exact I|].
  destruct (existsb _ _); [intros H; inversion H; exact I|].
  destruct (checked_product _ _) as [total|]; [|intros H; inversion H; exact I].
  destruct (max_dim_total <? total)%N; intros H; inversion H; exact I.
Qed.

(* touching an array cell *)
Lemma equiet_array_cell sym idx :
  equiet (fun v => kind v = type_of_name sym) (maybe_warn_undeclared_array sym ;;; arrays_get sym idx).
Proof.
  intros s sa HR.
  pose proof (caps_maybe_warn sym s) as W. pose proof (caps_arrays_get sym idx) as G.
  unfold bind at 1.
  destruct (maybe_warn_undeclared_array sym s) as [r1 s1] eqn:E1. cbn [snd] in W.
  assert (HR1 : r1 = Ok tt /\ R s1 sa).
  { revert E1. unfold maybe_warn_undeclared_array, warn, bind, get, get_line_number, push_output, modify, ret. cbn [fst snd].
    destruct (enable_warnings s && negb (alist_has sym (arrays s))); [destruct (enable_warnings s)|];
      intros E; injection E as <- <-; (split; [reflexivity|]);
      (apply (R_ext s); try reflexivity; [exact HR|]; apply (caps_inv_ext s); try reflexivity; apply HR). }
  destruct HR1 as [-> HR1].
  specialize (G s1). unfold inv_rel in G.
  destruct (arrays_get sym idx s1) as [r2 s2] eqn:E2. cbn [snd] in G.
  assert (Hcaps2 : caps_inv s2) by (apply G; apply HR1).
  (* the frame and the result of arrays_get *)
  revert E2. unfold arrays_get, maybe_create_default_array.
  unfold bind at 1. unfold bind at 1. unfold get at 1. cbn [fst snd].
  destruct (alist_has sym (arrays s1)) eqn:Eh.
  - cbn [ret fst snd]. unfold bind at 1, get at 1. cbn [fst snd].
    destruct (alist_get sym (arrays s1)) as [a|] eqn:Ea; [|intros E; inversion E; exact I].
    unfold lift_res, bind. cbn [fst snd].
    destruct (array_linear_index a idx) as [i|er l|pp| |] eqn:Ei; intros E; inversion E; subst; try exact I.
    + destruct (nth_error (ar_cells a) (N.to_nat i)) as [v|] eqn:En; inversion H0; subst; [|exact I].
      split; [exact HR1|]. apply (cell_kind sym a).
      * destruct HR1 as (_ & (_ & _ & _ & _ & _ & Ka) & _). apply (Ka sym a). apply alist_get_In. exact Ea.
      * eapply nth_error_In. exact En.
    + unfold array_linear_index in Ei. destruct (negb (Nat.eqb (length idx) (length (ar_dims a)))); [inversion Ei; exact I|].
      destruct (linear_index idx (ar_dims a) 0 1); inversion Ei. exact I.
  - unfold lift_res, bind at 1. cbn [fst snd].
    destruct (array_create_value sym (repeat DEFAULT_ARRAY_SIZE (length idx))) as [a0|er l|pp| |] eqn:Ec;
      try (intros E; inversion E; subst; exact I).
    2:{ intros E; inversion E; subst. exact (array_create_benign _ _ _ _ Ec). }
    (* the array is created with the default size, then read *)
    unfold modify. cbn [fst snd].
    set (s1' := set_arrays (alist_set sym a0 (arrays s1)) s1).
    assert (HR1' : R s1' sa).
    { apply (R_ext s1); try reflexivity; [exact HR1|].
      apply caps_set_arrays; [apply HR1|]. apply arrays_ok_set; [apply HR1|].
      apply (array_create_value_ok _ _ _ Ec). }
    unfold bind at 1, get at 1. cbn [fst snd].
    destruct (alist_get sym (arrays s1')) as [a|] eqn:Ea; [|intros E; inversion E; exact I].
    unfold lift_res, bind. cbn [fst snd].
    destruct (array_linear_index a idx) as [i|er l|pp| |] eqn:Ei; intros E; inversion E; subst; try exact I.
    + destruct (nth_error (ar_cells a) (N.to_nat i)) as [v|] eqn:En; inversion H0; subst; [|exact I].
      split; [exact HR1'|]. apply (cell_kind sym a).
      * destruct HR1' as (_ & (_ & _ & _ & _ & _ & Ka) & _). apply (Ka sym a). apply alist_get_In. exact Ea.
      * eapply nth_error_In. exact En.
    + unfold array_linear_index in Ei. destruct (negb (Nat.eqb (length idx) (length (ar_dims a)))); [inversion Ei; exact I|].
      destruct (linear_index idx (ar_dims a) 0 1); inversion Ei. exact I.
Qed.

(* ------------------------------------------------------------------ *)
(* The expression walkers, in lock step *)

Definition K (v : value) (t : vtype) : Prop := kind v = t.

Section Lockstep.
  Variables f1 f2 : nat.
  Variable rec : M value.
  Variable arec : MA vtype.
  Hypothesis Hrec : sound K rec arec.

  Lemma sound_array_index : sound (fun _ _ => True) (evaluate_array_index f1 rec) (an_array_index f2 arec).
  Proof.
    unfold evaluate_array_index, an_array_index.
    apply (sound_bind eq); [apply sound_cursor, cp_expect|]. intros _ _ _.
    apply (sound_bind (fun _ _ => True)).
    - apply (sound_repeat (fun _ _ => True)); [|exact I]. intros acc arity _.
      apply (sound_bind K); [exact Hrec|]. intros v t Hk. unfold K in Hk.
      destruct v as [b|x]; cbn [kind] in Hk; subst t.
      + apply sound_afail_bind.
      + unfold check_number, check. cbn [vtype_eqb].
        apply (sound_right (fun _ => True)); [apply aquiet_ret; exact I|]. intros _ _.
        destruct (f64_to_i64_sat x <? 0)%Z; [apply sound_fail_benign; exact I|].
        apply (sound_bind eq); [apply sound_cursor, cp_accept|]. intros c c' <-.
        apply sound_ret. destruct c; exact I.
    - intros idx n _. apply (sound_bind eq); [apply sound_cursor, cp_expect|]. intros _ _ _.
      apply sound_ret. exact I.
  Qed.

  Lemma sound_unary_arg : sound (fun _ t => t = TyNumber) (unary_number_function_arg rec) (an_unary_number_function_arg arec).
  Proof.
    unfold unary_number_function_arg, an_unary_number_function_arg.
    apply (sound_bind eq); [apply sound_cursor, cp_expect|]. intros _ _ _.
    apply (sound_bind K); [exact Hrec|]. intros v t Hk. unfold K in Hk.
    destruct v as [b|x]; cbn [kind] in Hk; subst t.
    - apply sound_afail_bind.
    - unfold check_number, check. cbn [vtype_eqb expect_number].
      apply (sound_bind (fun _ t => t = TyNumber)); [apply sound_ret; reflexivity|]. intros x0 t ->.
      apply (sound_bind eq); [apply sound_cursor, cp_expect|]. intros _ _ _.
      apply sound_ret. reflexivity.
  Qed.

  Definition Ko (v : option value) (t : option vtype) : Prop :=
    match v, t with Some v, Some t => kind v = t | None, None => True | _, _ => False end.

  Lemma sound_function_call name l : sound Ko (function_call rec name) (an_function_call arec name l).
  Proof.
    unfold function_call, an_function_call.
    destruct (bytes_eqb name (bs "ABS")); cbn [orb].
    { apply (sound_bind (fun _ t => t = TyNumber)); [apply sound_unary_arg|]. intros x t ->. apply sound_ret. reflexivity. }
    destruct (bytes_eqb name (bs "INT")); cbn [orb].
    { apply (sound_bind (fun _ t => t = TyNumber)); [apply sound_unary_arg|]. intros x t ->. apply sound_ret. reflexivity. }
    destruct (bytes_eqb name (bs "RND")).
    { apply (sound_bind (fun _ t => t = TyNumber)); [apply sound_unary_arg|]. intros x t ->.
      apply (sound_left (fun _ => True)); [apply equiet_rng|]. intros r _. apply sound_ret. reflexivity. }
    (* no user-defined functions on either side *)
    intros s sa acc HR. unfold user_function_call, an_user_function_call, abind, lift, bind, get. cbn [fst snd].
    destruct HR as (HC & Hcaps & Hf1 & Hf2). rewrite Hf1, Hf2. cbn.
    split; [exact I|]. split; [exact HC|]. split; [exact Hcaps|]. split; assumption.
  Qed.

  Lemma sound_term : sound K (expression_term f1 rec) (an_term f2 arec).
  Proof.
    unfold expression_term, an_term.
    apply (sound_bind eq); [apply sound_cursor, cp_next_unwrapped|]. intros t t' <-.
    destruct t; try apply sound_afail; try (apply sound_ret; reflexivity).
    (* a symbol *)
    lazymatch goal with |- context [type_of_name ?n] => set (name := n) end.
    apply (sound_right (fun _ => True)); [apply aquiet_prev_loc|]. intros l _.
    apply (sound_bind eq); [apply sound_cursor, cp_peek_is|]. intros p p' <-.
    destruct p.
    - apply (sound_bind Ko); [apply sound_function_call|]. intros fv ft Hko.
      destruct fv as [v|], ft as [t|]; cbn [Ko] in Hko; try contradiction.
      + apply sound_ret. exact Hko.
      + apply (sound_bind (fun _ _ => True)); [apply sound_array_index|]. intros idx n _.
        apply (sound_quiet (fun v => kind v = type_of_name name) (fun t => t = type_of_name name)).
        * apply equiet_array_cell.
        * eapply aquiet_bind; [apply aquiet_log | intros; apply aquiet_ret; reflexivity].
        * intros v t Hv ->. exact Hv.
    - apply (sound_quiet (fun v => kind v = type_of_name name) (fun t => t = type_of_name name)).
      + apply equiet_variable.
      + eapply aquiet_bind; [apply aquiet_log | intros; apply aquiet_ret; reflexivity].
      + intros v t Hv ->. exact Hv.
  Qed.

  Lemma sound_paren : sound K (parenthesized_expression f1 rec) (an_paren f2 arec).
  Proof.
    unfold parenthesized_expression, an_paren.
    apply (sound_bind eq); [apply sound_cursor, cp_accept|]. intros p p' <-.
    destruct p; [|apply sound_term].
    apply (sound_bind K); [exact Hrec|]. intros v t Hk.
    apply (sound_bind eq); [apply sound_cursor, cp_expect|]. intros _ _ _.
    apply sound_ret. exact Hk.
  Qed.

  Lemma sound_unary : sound K (unary_operator f1 rec) (an_unary f2 arec).
  Proof.
    unfold unary_operator, an_unary.
    apply (sound_bind eq); [apply sound_cursor, cp_try|]. intros op op' <-.
    apply (sound_bind K); [apply sound_paren|]. intros v t Hk. unfold K in Hk.
    destruct op as [[| |]|]; cbn [eval_unary].
    - apply sound_ret. exact Hk.
    - destruct v as [b|x]; cbn [kind] in Hk; subst t; unfold check_number, check; cbn [vtype_eqb].
      + apply sound_afail.
      + apply sound_ret. reflexivity.
    - apply sound_ret. unfold K. destruct (negb (to_bool v)); reflexivity.
    - apply sound_ret. exact Hk.
  Qed.

  (* one tier against one tier *)
  Lemma sound_tier {O O'} (g : M (option O)) (ag : MA (option O')) (operand : M value) (aoperand : MA vtype)
        (ap : O -> value -> value -> M value) (astep : vtype -> vtype -> MA vtype) :
    sound (fun o o' => match o, o' with Some _, Some _ => True | None, None => True | _, _ => False end) g ag ->
    sound K operand aoperand ->
    (forall o v w tv tw, K v tv -> K w tw -> sound K (ap o v w) (astep tv tw)) ->
    sound K (tier f1 g operand ap) (an_tier f2 ag aoperand astep).
  Proof.
    intros Hg Ho Hap. unfold tier, an_tier.
    apply (sound_bind K); [exact Ho|]. intros v0 t0 H0.
    apply (sound_repeat K); [|exact H0]. intros v t Hvt.
    apply (sound_bind _ _ _ _ _ _ Hg). intros o o' Hoo.
    destruct o as [o|], o' as [o'|]; try contradiction.
    - apply (sound_bind K); [exact Ho|]. intros w tw Hw.
      apply (sound_bind K); [apply Hap; assumption|]. intros v' t' Hv'.
      apply sound_ret. exact Hv'.
    - apply sound_ret. exact Hvt.
  Qed.
End Lockstep.

(* ---- the operators ---- *)

(* an operator that, on two numbers, changes nothing and yields a number or a benign error *)
Definition numop (ap : value -> value -> M value) : Prop :=
  forall a b s, match ap (VNum a) (VNum b) s with
                | (Ok v, s') => s' = s /\ kind v = TyNumber
                | (Err e _, _) => benign e
                | _ => True
                end.

Lemma sound_both_numbers ap v w tv tw : numop ap -> K v tv -> K w tw -> sound K (ap v w) (both_numbers tv tw).
Proof.
  intros Hn Hv Hw s sa acc HR. unfold K in Hv, Hw. unfold both_numbers, check_number, check, abind, aret, afail.
  destruct v as [b|a]; cbn [kind] in Hv; subst tv; cbn [vtype_eqb]; [exact I|].
  destruct w as [b'|b]; cbn [kind] in Hw; subst tw; cbn [vtype_eqb]; [exact I|].
  specialize (Hn a b s). destruct (ap (VNum a) (VNum b) s) as [[x|e l|pp| |] s1]; try exact I; [|exact Hn].
  destruct Hn as [-> Hk]. split; [exact Hk | exact HR].
Qed.

Lemma numop_addsub o : numop (eval_addsub o).
Proof. intros a b s. cbn. split; reflexivity. Qed.

Lemma numop_muldiv o : numop (eval_muldiv o).
Proof. intros a b s. destruct o; cbn; [split; reflexivity|]. destruct (f64_eqb b f64_zero); cbn; [exact I | split; reflexivity]. Qed.

Lemma numop_pow : numop eval_pow.
Proof.
  intros a b s. unfold eval_pow, bind, get. cbn [fst snd].
  destruct (pow_lookup (f64_bits a) (f64_bits b) (pow_oracle s)); cbn; [split; reflexivity | exact I].
Qed.

Lemma sound_eq o v w tv tw : K v tv -> K w tw -> sound K (eval_eq o v w) (check tv tw ;;;; aret TyNumber).
Proof.
  intros Hv Hw s sa acc HR. unfold K in Hv, Hw. unfold check, abind, aret, afail.
  destruct v as [a|a], w as [b|b]; cbn [kind] in Hv, Hw; subst tv tw; cbn [vtype_eqb]; try exact I;
    cbn; (split; [destruct (_ : bool); reflexivity | exact HR]).
Qed.

Lemma sound_bool (f : value -> value -> bool) v w : sound K (ret (from_bool (f v w))) (aret TyNumber).
Proof. apply sound_ret. unfold K, from_bool. reflexivity. Qed.

Definition optrel {O O'} (o : option O) (o' : option O') : Prop :=
  match o, o' with Some _, Some _ => True | None, None => True | _, _ => False end.

Lemma sound_accept_as t : sound optrel (accept_as t tt) (an_accept_as t).
Proof.
  unfold accept_as, an_accept_as.
  apply (sound_bind eq); [apply sound_cursor, cp_accept|]. intros b b' <-.
  apply sound_ret. destruct b; exact I.
Qed.

Lemma sound_try {O} (g : token -> option O) : sound optrel (try_next_token g) (lift (try_next_token g)).
Proof.
  apply (sound_weaken eq); [|apply sound_cursor, cp_try]. intros x y <-. destruct x; exact I.
Qed.

Section Tiers.
  Variables f1 f2 : nat.
  Variable rec : M value.
  Variable arec : MA vtype.
  Hypothesis Hrec : sound K rec arec.

  Lemma sound_logical_or : sound K (logical_or_expression f1 rec) (an_or f2 arec).
  Proof.
    unfold logical_or_expression, an_or, logical_and_expression, an_and, equality_expression, an_equality,
      plus_or_minus_expression, an_addsub, multiply_or_divide_expression, an_muldiv, exponent_expression, an_exponent.
    apply sound_tier; [apply sound_accept_as| |intros; unfold eval_or; apply sound_ret; reflexivity].
    apply sound_tier; [apply sound_accept_as| |intros; unfold eval_and; apply sound_ret; reflexivity].
    apply sound_tier; [apply sound_try| |intros; apply sound_eq; assumption].
    apply sound_tier; [apply sound_try| |intros; apply sound_both_numbers; [apply numop_addsub | assumption | assumption]].
    apply sound_tier; [apply sound_try| |intros; apply sound_both_numbers; [apply numop_muldiv | assumption | assumption]].
    apply sound_tier; [apply sound_accept_as| |intros; apply sound_both_numbers; [apply numop_pow | assumption | assumption]].
    apply sound_unary. exact Hrec.
  Qed.
End Tiers.

(* The checker is sound for expressions: any token stream, any cursor, any
   fuels, any nesting level. *)
Theorem expression_check_sound2 : forall f1 f2 n1 n2, sound K (evaluate_expression f1 n1) (analyze_expression f2 n2).
Proof.
  induction f1 as [|f1 IH]; intros f2 n1 n2.
  - intros s sa acc HR. cbn [evaluate_expression].
    destruct (analyze_expression f2 n2 (sa, acc)) as [[y|? ?|?| |] [? ?]]; exact I.
  - destruct f2 as [|f2]; [intros s sa acc HR; exact I|].
    cbn [evaluate_expression analyze_expression].
    destruct (Nat.eqb n2 max_nesting); [apply sound_afail|].
    destruct (Nat.eqb n1 max_nesting).
    { intros s sa acc HR. destruct (an_or f2 (analyze_expression f2 (S n2)) (sa, acc)) as [[y|? ?|?| |] [? ?]]; exact I. }
    apply sound_logical_or. apply IH.
Qed.

Theorem expression_check_sound : forall f1 f2 n, sound K (evaluate_expression f1 n) (analyze_expression f2 n).
Proof. intros f1 f2 n. apply expression_check_sound2. Qed.

(* spelled out *)
Corollary checked_expression_does_not_fail_on_types : forall f1 f2 n s sa acc t sa' acc',
  R s sa -> analyze_expression f2 n (sa, acc) = (Ok t, (sa', acc')) ->
  match evaluate_expression f1 n s with
  | (Ok v, s') => kind v = t /\ loc s' = loc sa' /\ caps_inv s'
  | (Err e _, _) => benign e
  | _ => True                       (* the model's own out-of-fuel / oracle-miss / panic answers *)
  end.
Proof.
  intros f1 f2 n s sa acc t sa' acc' HR Ha.
  pose proof (expression_check_sound f1 f2 n s sa acc HR) as H. rewrite Ha in H.
  destruct (evaluate_expression f1 n s) as [[v|e l|pp| |] s']; try exact I; [|exact H].
  destruct H as [Hk ((_ & _ & _ & Hl) & Hc & _)]. split; [exact Hk|]. split; [exact Hl | exact Hc].
Qed.

(* ------------------------------------------------------------------ *)
(* Statements that neither branch nor jump: the same lock step *)

(* storing a value whose kind is the kind of the target's name *)
Lemma equiet_assign sym (idx : option (list N)) v :
  kind v = type_of_name sym -> equiet (fun _ : unit => True) (assign_value (mklv sym idx) v).
Proof.
  intros Hk s sa HR.
  assert (Htm : type_matches sym v = true).
  { unfold type_matches, type_of_name in *. destruct v, (ends_with_dollar sym); cbn in *; congruence. }
  unfold assign_value. cbn [lv_index lv_sym]. destruct idx as [idx|].
  2:{ unfold variables_set. rewrite Htm. cbn. split; [|exact I].
      apply (R_ext s); try reflexivity; [exact HR|].
      apply caps_set_variables; [apply HR|]. apply typed_alist_set; [apply HR | exact Htm]. }
  pose proof (caps_arrays_set sym idx v) as G.
  unfold bind at 1.
  destruct (maybe_warn_undeclared_array sym s) as [r1 s1] eqn:E1.
  assert (HR1 : r1 = Ok tt /\ R s1 sa).
  { revert E1. unfold maybe_warn_undeclared_array, warn, bind, get, get_line_number, push_output, modify, ret. cbn [fst snd].
    destruct (enable_warnings s && negb (alist_has sym (arrays s))); [destruct (enable_warnings s)|];
      intros E; injection E as <- <-; (split; [reflexivity|]);
      (apply (R_ext s); try reflexivity; [exact HR|]; apply (caps_inv_ext s); try reflexivity; apply HR). }
  destruct HR1 as [-> HR1].
  specialize (G s1). unfold inv_rel in G.
  destruct (arrays_set sym idx v s1) as [r2 s2] eqn:E2. cbn [snd] in G.
  assert (Hcaps2 : caps_inv s2) by (apply G; apply HR1).
  revert E2. unfold arrays_set. rewrite Htm. cbn [negb]. unfold maybe_create_default_array.
  unfold bind at 1. unfold bind at 1. unfold get at 1. cbn [fst snd].
  assert (Hfin : forall (sx : interp) rx,
            R sx sa ->
            (ars <- get arrays ;;
             match alist_get sym ars with
             | None => panic PArrayUnwrap
             | Some a =>
                 if negb (Bool.eqb (ar_str a) (match v with VStr _ => true | VNum _ => false end))
                 then fail ETypeMismatch
                 else
                   i <- lift_res (array_linear_index a idx) ;;
                   if Nat.ltb (N.to_nat i) (length (ar_cells a))
                   then modify (fun s0 => set_arrays
                          (alist_set sym (mkarr (ar_str a) (ar_dims a) (list_update (ar_cells a) (N.to_nat i) v)) (arrays s0)) s0)
                   else panic PCellIndex
             end) sx = (rx, s2) ->
            match rx with
            | Ok _ => R s2 sa /\ True
            | Err er _ => benign er
            | _ => True
            end).
  { intros sx rx HRx. unfold bind at 1, get at 1. cbn [fst snd].
    destruct (alist_get sym (arrays sx)) as [a|] eqn:Ea; [|intros E; inversion E; exact I].
    assert (Hok : arr_ok sym a).
    { destruct HRx as (_ & (_ & _ & _ & _ & _ & Ka) & _). apply (Ka sym a). apply alist_get_In. exact Ea. }
    destruct Hok as (_ & _ & _ & Hs & _).
    assert (Hb : Bool.eqb (ar_str a) (match v with VStr _ => true | VNum _ => false end) = true).
    { rewrite Hs. unfold type_of_name in Hk. destruct v, (ends_with_dollar sym); cbn in *; congruence. }
    rewrite Hb. cbn [negb]. unfold lift_res, bind. cbn [fst snd].
    destruct (array_linear_index a idx) as [i|er l|pp| |] eqn:Ei; try (intros E; inversion E; exact I).
    - destruct (Nat.ltb (N.to_nat i) (length (ar_cells a))); intros E; inversion E; subst; [|exact I].
      split; [|exact I]. apply (R_ext sx); try reflexivity; [exact HRx | exact Hcaps2].
    - intros E; inversion E; subst.
      unfold array_linear_index in Ei. destruct (negb (Nat.eqb (length idx) (length (ar_dims a)))); [inversion Ei; exact I|].
      destruct (linear_index idx (ar_dims a) 0 1); inversion Ei. exact I. }
  destruct (alist_has sym (arrays s1)) eqn:Eh.
  - cbn [ret fst snd]. intros E. exact (Hfin s1 r2 HR1 E).
  - unfold lift_res, bind at 1. cbn [fst snd].
    destruct (array_create_value sym (repeat DEFAULT_ARRAY_SIZE (length idx))) as [a0|er l|pp| |] eqn:Ec;
      try (intros E; inversion E; subst; exact I).
    2:{ intros E; inversion E; subst. exact (array_create_benign _ _ _ _ Ec). }
    unfold modify. cbn [fst snd]. intros E.
    apply (Hfin (set_arrays (alist_set sym a0 (arrays s1)) s1) r2); [|exact E].
    apply (R_ext s1); try reflexivity; [exact HR1|].
    apply caps_set_arrays; [apply HR1|]. apply arrays_ok_set; [apply HR1|].
    apply (array_create_value_ok _ _ _ Ec).
Qed.

Lemma sound_then_quiet {A B B'} (P : A -> B' -> Prop) (m : M A) (f : A -> M B) (a : MA B') :
  sound P m a -> (forall x, equiet (fun _ => True) (f x)) -> sound (fun _ _ => True) (bind m f) a.
Proof.
  intros Hm Hf s sa acc HR. specialize (Hm s sa acc HR). unfold bind.
  destruct (a (sa, acc)) as [[y|? ?|?| |] [sa1 acc1]]; try exact I.
  destruct (m s) as [[x|e l|pp| |] s1]; try exact I; [|exact Hm].
  destruct Hm as [_ HR1]. specialize (Hf x s1 sa1 HR1).
  destruct (f x s1) as [[z|e l|pp| |] s2]; try exact I; [|exact Hf].
  destruct Hf as [HR2 _]. split; [exact I | exact HR2].
Qed.

Definition orel' {A B} (x : option A) (y : option B) : Prop :=
  match x, y with Some _, Some _ => True | None, None => True | _, _ => False end.

Section StmtLock.
  Variables f1 f2 nest nest2 : nat.

  Let expr1 : M value := evaluate_expression f1 nest.
  Let aexpr2 : MA vtype := analyze_expression f2 nest2.

  Lemma sound_expr : sound K expr1 aexpr2.
  Proof. apply expression_check_sound2. Qed.

  Lemma sound_optional_index : sound orel' (parse_optional_array_index f1 nest) (an_optional_array_index f2 nest2).
  Proof.
    unfold parse_optional_array_index, an_optional_array_index.
    apply (sound_bind eq); [apply sound_cursor, cp_peek_is|]. intros p p' <-.
    destruct p; cbn [negb].
    - apply (sound_bind (fun _ _ => True)); [apply sound_array_index; apply sound_expr|]. intros i n _.
      apply sound_ret. exact I.
    - apply sound_ret. exact I.
  Qed.

  (* v = e  /  v(i, j) = e *)
  Lemma sound_assignment sym :
    sound (fun _ _ => True) (evaluate_assignment_statement f1 nest sym) (an_assignment f2 nest2 sym).
  Proof.
    unfold evaluate_assignment_statement, an_assignment.
    apply (sound_right (fun _ => True)); [apply aquiet_prev_loc|]. intros l _.
    apply (sound_bind orel'); [apply sound_optional_index|]. intros idx ar Hia.
    apply (sound_bind eq); [apply sound_cursor, cp_expect|]. intros _ _ _.
    apply (sound_bind K); [apply sound_expr|]. intros v t Hk. unfold K in Hk.
    unfold an_assign. cbn [alv_sym alv_loc].
    apply (sound_right (fun _ => True)); [apply aquiet_log|]. intros _ _.
    (* the check decides: only when the kinds agree does the interpreter store *)
    intros s sa acc HR. unfold abind, check.
    destruct (vtype_eqb (type_of_name sym) t) eqn:Ev; [|exact I].
    assert (Ht : t = type_of_name sym) by (destruct t, (type_of_name sym); cbn in Ev; congruence).
    cbn. pose proof (equiet_assign sym idx v ltac:(congruence) s sa HR) as H.
    destruct (assign_value {| lv_sym := sym; lv_index := idx |} v s) as [[u|e l0|pp| |] s1]; try exact I; [|exact H].
    destruct H as [HR1 _]. split; [exact I | exact HR1].
  Qed.

  Lemma sound_let : sound (fun _ _ => True) (evaluate_let_statement f1 nest) (an_let f2 nest2).
  Proof.
    unfold evaluate_let_statement, an_let.
    apply (sound_bind eq); [apply sound_cursor, cp_next_token|]. intros t t' <-.
    destruct t as [t|]; [|apply sound_afail].
    destruct t; try apply sound_afail. apply sound_assignment.
  Qed.

  (* PRINT: every item an expression the checker accepted *)
  Lemma sound_print : sound (fun _ _ => True) (evaluate_print_statement f1 nest) (an_print f2 nest2).
  Proof.
    unfold evaluate_print_statement, an_print.
    apply (sound_then_quiet (fun _ _ => True)).
    - apply (sound_repeat (fun _ _ => True)); [|exact I]. intros [semi text] [] _.
      apply (sound_bind eq); [apply sound_cursor, cp_peek|]. intros t t' <-.
      destruct t as [t|]; [|apply sound_ret; exact I].
      destruct t;
        try (apply (sound_bind K); [apply sound_expr|]; intros v ty _; apply sound_ret; exact I);
        try (apply sound_ret; exact I);
        try (apply (sound_bind eq); [apply sound_cursor, cp_next_token|]; intros ? ? _; apply sound_ret; exact I).
    - intros [semi text] s sa HR. cbn. split; [|exact I].
      apply (R_ext s); try reflexivity; [exact HR|]. apply (caps_inv_ext s); try reflexivity. apply HR.
  Qed.

  (* DIM *)
  Lemma sound_parse_lvalue :
    sound (fun lv alv => lv_sym lv = alv_sym alv) (parse_lvalue f1 nest) (an_parse_lvalue f2 nest2).
  Proof.
    unfold parse_lvalue, an_parse_lvalue.
    apply (sound_bind eq); [apply sound_cursor, cp_next_token|]. intros t t' <-.
    destruct t as [t|]; [|apply sound_afail].
    destruct t; try apply sound_afail.
    apply (sound_right (fun _ => True)); [apply aquiet_prev_loc|]. intros l _.
    apply (sound_bind orel'); [apply sound_optional_index|]. intros idx ar _.
    apply sound_ret. reflexivity.
  Qed.
End StmtLock.

(* spelled out for the two commonest statements *)
Definition stmt_ok (r : res unit * interp) : Prop :=
  match r with
  | (Ok _, s') => caps_inv s'
  | (Err e _, _) => benign e
  | _ => True
  end.

Corollary checked_assignment_does_not_fail_on_types : forall f1 f2 nest sym s sa acc sa' acc',
  R s sa -> an_assignment f2 nest sym (sa, acc) = (Ok tt, (sa', acc')) ->
  stmt_ok (evaluate_assignment_statement f1 nest sym s).
Proof.
  intros f1 f2 nest sym s sa acc sa' acc' HR Ha.
  pose proof (sound_assignment f1 f2 nest nest sym s sa acc HR) as H. rewrite Ha in H. unfold stmt_ok.
  destruct (evaluate_assignment_statement f1 nest sym s) as [[u|e l|pp| |] s']; try exact I; [|exact H].
  destruct H as [_ (_ & Hc & _)]. exact Hc.
Qed.

Corollary checked_print_does_not_fail_on_types : forall f1 f2 nest s sa acc sa' acc',
  R s sa -> an_print f2 nest (sa, acc) = (Ok tt, (sa', acc')) ->
  stmt_ok (evaluate_print_statement f1 nest s).
Proof.
  intros f1 f2 nest s sa acc sa' acc' HR Ha.
  pose proof (sound_print f1 f2 nest nest s sa acc HR) as H. rewrite Ha in H. unfold stmt_ok.
  destruct (evaluate_print_statement f1 nest s) as [[u|e l|pp| |] s']; try exact I; [|exact H].
  destruct H as [_ (_ & Hc & _)]. exact Hc.
Qed.

(* ---- FOR, DIM, READ ---- *)

Lemma drop_loop_fields sym s :
  st_toks (drop_loop sym s) = st_toks s /\ st_keys (drop_loop sym s) = st_keys s
  /\ immediate (drop_loop sym s) = immediate s /\ loc (drop_loop sym s) = loc s
  /\ functions (drop_loop sym s) = functions s.
Proof. unfold drop_loop. destruct (find_loop_rev sym (loops s)); repeat split; reflexivity. Qed.

Lemma equiet_start_loop sym a b c : type_of_name sym = TyNumber -> equiet (fun _ : unit => True) (start_loop sym a b c).
Proof.
  intros Hty s sa HR. pose proof (caps_start_loop sym a b c s) as G. unfold inv_rel in G.
  assert (Htm : type_matches sym (VNum a) = true).
  { unfold type_matches, type_of_name in *. destruct (ends_with_dollar sym); [discriminate | reflexivity]. }
  destruct (drop_loop_fields sym s) as (D1 & D2 & D3 & D4 & D5).
  rewrite start_loop_eq in *. cbv zeta in *.
  destruct (Nat.eqb (length (loops (drop_loop sym s))) stack_limit); [exact I|].
  rewrite variables_set_eq in *. rewrite Htm in *. cbn [snd] in G. split; [|exact I].
  apply (R_ext s); [exact HR | exact D1 | exact D2 | exact D3 | exact D4 | exact D5 | apply G; apply HR].
Qed.

Lemma equiet_arrays_create name idx : equiet (fun _ : unit => True) (arrays_create name idx).
Proof.
  intros s sa HR. pose proof (caps_arrays_create name idx s) as G. unfold inv_rel in G.
  unfold arrays_create in *. rewrite StoreProofs.bind_get in *.
  destruct (alist_has name (arrays s)); [exact I|].
  unfold bind, lift_res in *.
  destruct (array_create_value name idx) as [a|e l|p| |] eqn:E; try exact I.
  - cbn [modify snd fst] in *. split; [|exact I].
    apply (R_ext s); try reflexivity; [exact HR|]. apply G. apply HR.
  - exact (array_create_benign _ _ _ _ E).
Qed.

Lemma sound_ext_l {A B} (P : A -> B -> Prop) (m m' : M A) a : (forall s, m s = m' s) -> sound P m' a -> sound P m a.
Proof. intros E H s sa acc HR. rewrite E. apply H. exact HR. Qed.

Lemma bind_assoc_m {A B C'} (m : M A) (f : A -> M B) (g : B -> M C') s :
  bind (bind m f) g s = bind m (fun a => bind (f a) g) s.
Proof. unfold bind. destruct (m s) as [[a| | | |] s1]; reflexivity. Qed.

Section StmtLock2.
  Variables f1 f2 nest nest2 : nat.

  Lemma sound_number_expr :
    sound (fun _ _ => True) (fv <- evaluate_expression f1 nest ;; expect_number fv)
                            (a <-- analyze_expression f2 nest2 ;; check_number a).
  Proof.
    apply (sound_bind K); [apply expression_check_sound2|]. intros v t Hk. unfold K in Hk.
    destruct v as [b|x]; cbn [kind] in Hk; subst t; unfold check_number, check; cbn [vtype_eqb expect_number].
    - apply sound_afail.
    - apply sound_ret. exact I.
  Qed.

  Lemma sound_for : sound (fun _ _ => True) (evaluate_for_statement f1 nest) (an_for f2 nest2).
  Proof.
    unfold evaluate_for_statement, an_for.
    apply (sound_bind eq); [apply sound_cursor, cp_next_token|]. intros t t' <-.
    destruct t as [t|]; [|apply sound_afail].
    destruct t; try apply sound_afail.
    lazymatch goal with |- context [type_of_name ?n] => set (sym := n) end.
    apply (sound_right (fun _ => True)); [apply aquiet_prev_loc|]. intros l _.
    apply (sound_right (fun _ => True)); [apply aquiet_log|]. intros _ _.
    (* the loop variable must be numeric *)
    unfold check_number at 1, check at 1.
    destruct (vtype_eqb (type_of_name sym) TyNumber) eqn:Ev; [|apply sound_afail_bind].
    assert (Hty : type_of_name sym = TyNumber) by (destruct (type_of_name sym); [discriminate | reflexivity]).
    apply (sound_right (fun _ => True)); [apply aquiet_ret; exact I|]. intros _ _.
    apply (sound_bind eq); [apply sound_cursor, cp_expect|]. intros _ _ _.
    apply (sound_bind K); [apply expression_check_sound2|]. intros v1 t1 Hk1. unfold K in Hk1.
    destruct v1 as [b1|x1]; cbn [kind] in Hk1; subst t1; unfold check_number at 1, check at 1; cbn [vtype_eqb expect_number];
      [apply sound_afail_bind|].
    apply (sound_bind (fun _ _ => True)); [apply sound_ret; exact I|]. intros from ? _.
    apply (sound_bind eq); [apply sound_cursor, cp_expect|]. intros _ _ _.
    apply (sound_bind K); [apply expression_check_sound2|]. intros v2 t2 Hk2. unfold K in Hk2.
    destruct v2 as [b2|x2]; cbn [kind] in Hk2; subst t2; unfold check_number at 1, check at 1; cbn [vtype_eqb expect_number];
      [apply sound_afail_bind|].
    apply (sound_bind (fun _ _ => True)); [apply sound_ret; exact I|]. intros to ? _.
    apply (sound_bind eq); [apply sound_cursor, cp_accept|]. intros st st' <-.
    destruct st.
    - eapply sound_ext_l; [intros s0; apply bind_assoc_m|].
      apply (sound_bind K); [apply expression_check_sound2|]. intros v3 t3 Hk3. unfold K in Hk3.
      destruct v3 as [b3|x3]; cbn [kind] in Hk3; subst t3; unfold check_number, check; cbn [vtype_eqb expect_number];
        [apply sound_afail_bind|].
      apply (sound_bind (fun _ _ => True)); [apply sound_ret; exact I|]. intros step ? _.
      apply (sound_quiet (fun _ => True) (fun _ => True)); [apply equiet_start_loop; exact Hty | apply aquiet_ret; exact I | intros; exact I].
    - apply (sound_left (fun _ => True)); [apply equiet_ret; exact I|]. intros step _.
      apply (sound_quiet (fun _ => True) (fun _ => True)); [apply equiet_start_loop; exact Hty | apply aquiet_ret; exact I | intros; exact I].
  Qed.
  Lemma sound_dim : sound (fun _ _ => True) (evaluate_dim_statement f1 nest) (an_dim f2 nest2).
  Proof.
    unfold evaluate_dim_statement, an_dim.
    apply (sound_bind (fun lv alv => lv_sym lv = alv_sym alv)); [apply sound_parse_lvalue|]. intros lv alv _.
    destruct (lv_index lv) as [idx|].
    - apply (sound_quiet (fun _ => True) (fun _ => True)); [apply equiet_arrays_create | apply aquiet_log | intros; exact I].
    - apply (sound_quiet (fun _ => True) (fun _ => True)); [apply equiet_ret; exact I | apply aquiet_log | intros; exact I].
  Qed.

  Lemma equiet_next_data : equiet (fun _ : option data_elem => True) next_data_element.
  Proof.
    intros s sa HR. pose proof (caps_next_data s) as G. unfold inv_rel in G.
    unfold next_data_element in *.
    destruct (data_it s) as [d|].
    - destruct (data_next _ d) as [e d']. cbn [snd] in G. split; [|exact I].
      apply (R_ext s); try reflexivity; [exact HR|]. apply G. apply HR.
    - destruct (data_chunks (st_keys s) (st_toks s)) as [cs|e l|pp| |]; try exact I.
      destruct (data_next _ _) as [e d']. cbn [snd] in G. split; [|exact I].
      apply (R_ext s); try reflexivity; [exact HR|]. apply G. apply HR.
  Qed.

  Lemma coerce_kind' name e v : coerce_data name e = Ok v -> kind v = type_of_name name.
  Proof.
    unfold coerce_data, type_of_name. destruct (ends_with_dollar name), e; intros H; inversion H; reflexivity.
  Qed.

  Lemma coerce_benign name e er l : coerce_data name e = Err er l -> benign er.
  Proof.
    unfold coerce_data. destruct (ends_with_dollar name), e; intros H; inversion H; exact I.
  Qed.

  Lemma aquiet_an_assign alv : aquiet (fun _ : unit => True) (an_assign alv (type_of_name (alv_sym alv))).
  Proof.
    intros sa acc. unfold an_assign, abind, log_access, check, aret. cbn [fst snd].
    destruct (type_of_name (alv_sym alv)); cbn; split; [reflexivity | exact I | reflexivity | exact I].
  Qed.

  Lemma sound_read : sound (fun _ _ => True) (evaluate_read_statement f1 nest) (an_read f2 nest2).
  Proof.
    unfold evaluate_read_statement, an_read.
    apply (sound_repeat (fun _ _ => True)); [|exact I]. intros [] [] _.
    apply (sound_bind (fun lv alv => lv_sym lv = alv_sym alv)); [apply sound_parse_lvalue|]. intros lv alv Hsym.
    (* the interpreter fetches, converts and stores; the checker records the write *)
    apply (sound_left (fun _ => True)); [apply equiet_next_data|]. intros e _.
    destruct e as [e|]; [|apply sound_fail_benign; exact I].
    unfold lift_res.
    destruct (coerce_data (lv_sym lv) e) as [v|er l|pp| |] eqn:Ec.
    - apply (sound_left (fun x => x = v)); [intros s sa HR; cbn; split; [exact HR | reflexivity]|]. intros v0 ->.
      apply (sound_left (fun _ => True)).
      { destruct lv as [sym idx]. cbn [lv_sym] in *. apply equiet_assign. apply (coerce_kind' _ _ _ Ec). }
      intros _ _.
      apply (sound_right (fun _ => True)); [apply aquiet_an_assign|]. intros _ _.
      apply (sound_bind eq); [apply sound_cursor, cp_accept|]. intros c c' <-.
      apply sound_ret. destruct c; exact I.
    - intros s sa acc HR. unfold bind. cbn.
      match goal with |- match ?x with _ => _ end => destruct x as [[y|? ?|?| |] [? ?]] end; try exact I.
      exact (coerce_benign _ _ _ _ Ec).
    - intros s sa acc HR. unfold bind. cbn.
      match goal with |- match ?x with _ => _ end => destruct x as [[y|? ?|?| |] [? ?]] end; exact I.
    - intros s sa acc HR. unfold bind. cbn.
      match goal with |- match ?x with _ => _ end => destruct x as [[y|? ?|?| |] [? ?]] end; exact I.
    - intros s sa acc HR. unfold bind. cbn.
      match goal with |- match ?x with _ => _ end => destruct x as [[y|? ?|?| |] [? ?]] end; exact I.
  Qed.
End StmtLock2.

(* ---- every statement that neither branches nor jumps ---- *)

(* the two dispatchers, on the token the cursor has just passed *)
Definition edispatch (f nest : nat) (rec : M unit) (t : option token) : M unit :=
  match t with
  | Some TStop => break_at_current_location
  | Some TDim => evaluate_dim_statement f nest
  | Some TPrint | Some TQuestionMark => evaluate_print_statement f nest
  | Some TInput => evaluate_input_statement f nest
  | Some TIf => evaluate_if_statement f nest rec
  | Some TGoto => evaluate_goto_statement
  | Some TGosub => evaluate_gosub_statement
  | Some TReturn => return_to_last_gosub
  | Some TEnd => program_end
  | Some TFor => evaluate_for_statement f nest
  | Some TNext => evaluate_next_statement
  | Some TRestore => reset_data_cursor
  | Some TDef => evaluate_def_statement f
  | Some TRead => evaluate_read_statement f nest
  | Some (TRemark _) => ret tt
  | Some TColon => ret tt
  | Some (TData _) => ret tt
  | Some TLet => evaluate_let_statement f nest
  | Some (TSymbol sym) => evaluate_assignment_statement f nest sym
  | Some TElse => b <- is_else_of_then_clause ;; if b then discard_remaining_tokens else fail EUnexpectedToken
  | Some _ => fail EUnexpectedToken
  | None => ret tt
  end.

Lemma evaluate_statement_body_dispatch f nest rec :
  evaluate_statement_body f nest rec =
  (tr <- get enable_tracing ;;
   (if tr then l <- get_line_number ;; match l with Some n => push_output (OTrace n) | None => ret tt end else ret tt) ;;;
   t <- next_token ;; edispatch f nest rec t).
Proof. reflexivity. Qed.

Definition adispatch (f nest : nat) (rec : MA unit) (t : option token) : MA unit :=
  match t with
  | Some TStop => aret tt
  | Some TDim => an_dim f nest
  | Some TPrint | Some TQuestionMark => an_print f nest
  | Some TInput => an_input f nest
  | Some TIf => an_if f nest rec
  | Some TGoto | Some TGosub => an_goto_or_gosub
  | Some TReturn => aret tt
  | Some TEnd => aret tt
  | Some TFor => an_for f nest
  | Some TNext => an_next
  | Some TRestore => lift reset_data_cursor
  | Some TDef => an_def f nest
  | Some TRead => an_read f nest
  | Some (TRemark _) => aret tt
  | Some TColon => aret tt
  | Some (TData _) => aret tt
  | Some TLet => an_let f nest
  | Some (TSymbol sym) => an_assignment f nest sym
  | Some _ => afail EUnexpectedToken
  | None => aret tt
  end.

Lemma an_statement_body_dispatch f nest rec :
  an_statement_body f nest rec = (t <-- lift next_token ;; adispatch f nest rec t).
Proof. reflexivity. Qed.

Definition straight_head (t : option token) : bool :=
  match t with
  | None => true
  | Some (TDim | TPrint | TQuestionMark | TFor | TRestore | TRead | TRemark _ | TColon | TData _ | TLet | TSymbol _) => true
  | Some _ => false
  end.

(* whichever of  v = e, LET, PRINT, ?, DIM, FOR, READ, RESTORE, REM, DATA, ":"
   the dispatchers have just seen: accepted by the checker => executed without
   a syntax error or a type mismatch, the two cursors together again behind it *)
Theorem straight_statement_sound2 : forall f1 f2 nest nest2 rec arec t, straight_head t = true ->
  sound (fun _ _ => True) (edispatch f1 nest rec t) (adispatch f2 nest2 arec t).
Proof.
  intros f1 f2 nest nest2 rec arec t Hst.
  destruct t as [t|]; [|apply sound_ret; exact I].
  destruct t; try discriminate Hst; cbn [edispatch adispatch]; try (apply sound_ret; exact I);
    try apply sound_print; try apply sound_let; try apply sound_dim; try apply sound_for; try apply sound_read;
    try apply sound_assignment.
Qed.

Theorem straight_statement_sound : forall f1 f2 nest rec arec t, straight_head t = true ->
  sound (fun _ _ => True) (edispatch f1 nest rec t) (adispatch f2 nest arec t).
Proof. intros f1 f2 nest. apply straight_statement_sound2. Qed.

