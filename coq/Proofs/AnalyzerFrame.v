(* Proofs/AnalyzerFrame.v — the static analysis only moves the cursor.

   [AF s s']: the analyzer fork of the evaluators changes nothing of the
   interpreter state but the cursor, the hook counter, the function table and
   the DATA cursor — in particular not the stored program.  Consequences:
   analysis_keeps_program (the program after analysis is the program pass 1
   stored) and C15's load = type-in theorem (Proofs/LoadProofs.v). *)
From Coq Require Import List NArith ZArith Bool Lia.
From Abasic Require Import Model.Bytes Model.Num Model.Token Model.Data Model.Lexer Gen.Tables
     Model.State Model.Eval Model.Interp Model.Analyzer Proofs.Monad Proofs.Frames Proofs.StoreProofs
     Proofs.Safety.
Import ListNotations.
Local Open Scope nat_scope.

Definition AF (s s' : interp) : Prop :=
  st_toks s' = st_toks s /\ st_keys s' = st_keys s /\ immediate s' = immediate s
  /\ breakpoint s' = breakpoint s /\ stack s' = stack s /\ loops s' = loops s
  /\ input s' = input s /\ outputs s' = outputs s /\ state s' = state s /\ rng s' = rng s
  /\ variables s' = variables s /\ arrays s' = arrays s
  /\ enable_warnings s' = enable_warnings s /\ enable_tracing s' = enable_tracing s
  /\ pow_oracle s' = pow_oracle s.

Lemma AF_refl s : AF s s.
Proof. unfold AF. repeat split. Qed.

Lemma AF_trans a b c : AF a b -> AF b c -> AF a c.
Proof. unfold AF. intuition congruence. Qed.

Definition RAF (s : interp) (r : res unit) (s' : interp) : Prop := AF s s'.

Lemma RAF_ocat : ocat RAF.
Proof. split; unfold RAF; intros; try apply AF_refl. eapply AF_trans; eassumption. Qed.

Lemma raf_modify f : (forall s, AF s (f s)) -> orel RAF (modify f).
Proof. intros H. apply orel_modify. exact H. Qed.

Ltac raf_frame := apply raf_modify; intros; unfold AF; repeat split; reflexivity.

Lemma raf_tokens_for_line l : orel RAF (tokens_for_line l).
Proof.
  intros s. unfold tokens_for_line.
  destruct l as [n|]; [destruct (toks_get n (st_toks s))|]; apply AF_refl.
Qed.

Lemma raf_lift_res {A} (r : res A) : orel RAF (lift_res r).
Proof. intros s. apply AF_refl. Qed.
Lemma raf_fail_at {A} e l : orel RAF (@fail_at A e l).
Proof. intros s. apply AF_refl. Qed.
Lemma raf_panic {A} p : orel RAF (@panic A p).
Proof. intros s. apply AF_refl. Qed.

Create HintDb rafdb discriminated.
#[local] Hint Resolve raf_tokens_for_line raf_lift_res raf_fail_at raf_panic : rafdb.
Ltac raf_leaf := first [ solve [ auto 3 with rafdb nocore ] | solve [ raf_frame ] ].
Ltac raf_walk := orel_walk RAF_ocat raf_leaf.

Lemma raf_cur_tokens : orel RAF cur_tokens. Proof. unfold cur_tokens; raf_walk. Qed.
#[local] Hint Resolve raf_cur_tokens : rafdb.
Lemma raf_peek : orel RAF peek_next_token. Proof. unfold peek_next_token; raf_walk. Qed.
#[local] Hint Resolve raf_peek : rafdb.
Lemma raf_has_next : orel RAF has_next_token. Proof. unfold has_next_token; raf_walk. Qed.
Lemma raf_advance : orel RAF advance. Proof. unfold advance; raf_walk. Qed.
#[local] Hint Resolve raf_has_next raf_advance : rafdb.
Lemma raf_next_token : orel RAF next_token. Proof. unfold next_token; raf_walk. Qed.
#[local] Hint Resolve raf_next_token : rafdb.
Lemma raf_next_unwrapped : orel RAF next_unwrapped_token. Proof. unfold next_unwrapped_token; raf_walk. Qed.
#[local] Hint Resolve raf_next_unwrapped : rafdb.
Lemma raf_expect t : orel RAF (expect_next_token t). Proof. unfold expect_next_token; raf_walk. Qed.
Lemma raf_accept t : orel RAF (accept_next_token t). Proof. unfold accept_next_token; raf_walk. Qed.
Lemma raf_peek_is t : orel RAF (peek_is t). Proof. unfold peek_is; raf_walk. Qed.
Lemma raf_try {B} (g : token -> option B) : orel RAF (try_next_token g). Proof. unfold try_next_token; raf_walk. Qed.
Lemma raf_define_function n a : orel RAF (define_function n a). Proof. unfold define_function; raf_walk. Qed.
Lemma raf_reset_data : orel RAF reset_data_cursor. Proof. unfold reset_data_cursor; raf_walk. Qed.
Lemma raf_get {A} (f : interp -> A) : orel RAF (get f). Proof. apply (orel_get _ RAF_ocat). Qed.
Lemma raf_next_line : orel RAF next_line. Proof. unfold next_line; raf_walk. Qed.
#[local] Hint Resolve raf_expect raf_accept raf_peek_is raf_try raf_define_function
  raf_reset_data raf_get raf_next_line : rafdb.

(* ------------------------------------------------------------------ *)
(* the analyzer monad *)

Definition aorel {A} (m : MA A) : Prop := forall s, AF (fst s) (fst (snd (m s))).

Lemma aorel_ret {A} (a : A) : aorel (aret a).
Proof. intros s. apply AF_refl. Qed.
Lemma aorel_fail {A} e : aorel (@afail A e).
Proof. intros s. apply AF_refl. Qed.
Lemma aorel_log sym l w : aorel (log_access sym l w).
Proof. intros s. apply AF_refl. Qed.
Lemma aorel_lift {A} (m : M A) : orel RAF m -> aorel (lift m).
Proof. intros H s. unfold lift. specialize (H (fst s)). destruct (m (fst s)) as [r p]. exact H. Qed.
Lemma aorel_bind {A B} (m : MA A) (f : A -> MA B) :
  aorel m -> (forall a, aorel (f a)) -> aorel (abind m f).
Proof.
  intros Hm Hf s. unfold abind. specialize (Hm s).
  destruct (m s) as [[a|e l|p| |] s1]; cbn [fst snd] in *; try exact Hm.
  eapply AF_trans; [exact Hm|apply Hf].
Qed.
Lemma aorel_out_of_fuel {A} : aorel (fun s : astate => (@OutOfFuel A, s)).
Proof. intros s. apply AF_refl. Qed.
Lemma aorel_repeat {S R} n (body : S -> MA (S + R)) :
  (forall acc, aorel (body acc)) -> forall acc, aorel (arepeat n body acc).
Proof.
  intros Hb. induction n as [|n IH]; intros acc; cbn [arepeat].
  - apply aorel_out_of_fuel.
  - apply aorel_bind; [apply Hb|]. intros [acc'|r]; [apply IH|apply aorel_ret].
Qed.

Ltac aorel_step leaf :=
  lazymatch goal with
  | |- aorel (aret _) => apply aorel_ret
  | |- aorel (afail _) => apply aorel_fail
  | |- aorel (log_access _ _ _) => apply aorel_log
  | |- aorel (lift _) => apply aorel_lift; solve [ auto 3 with rafdb nocore ]
  | |- aorel (abind _ _) => first [ solve [leaf] | apply aorel_bind; [| intro] ]
  | |- aorel (arepeat _ _ _) => apply aorel_repeat; intro
  | |- aorel (match ?x with _ => _ end) => destruct x
  | |- _ => solve [leaf]
  end.
Ltac aorel_walk leaf := repeat (aorel_step leaf).
Ltac no_leaf := fail.

Lemma aorel_check t e : aorel (check t e).
Proof. unfold check; aorel_walk no_leaf. Qed.
Lemma aorel_check_number t : aorel (check_number t).
Proof. apply aorel_check. Qed.
Lemma aorel_get_loc : aorel aget_loc.
Proof. unfold aget_loc; aorel_walk no_leaf. Qed.
Lemma aorel_prev_loc : aorel prev_loc.
Proof. unfold prev_loc. apply aorel_bind; [apply aorel_get_loc|intro; apply aorel_ret]. Qed.
Lemma aorel_enter_nesting n : aorel (enter_nesting n).
Proof. unfold enter_nesting; aorel_walk no_leaf. Qed.

Ltac base_leaf :=
  first [ apply aorel_check_number | apply aorel_check | apply aorel_prev_loc | apply aorel_get_loc
        | apply aorel_enter_nesting ].

Section AExprF.
  Variable fuel : nat.
  Variable rec : MA vtype.
  Hypothesis Hrec : aorel rec.

  Ltac leaf := first [ apply Hrec | base_leaf ].

  Lemma af_array_index : aorel (an_array_index fuel rec).
  Proof. unfold an_array_index; aorel_walk leaf. Qed.
  Lemma af_unary_arg : aorel (an_unary_number_function_arg rec).
  Proof. unfold an_unary_number_function_arg; aorel_walk leaf. Qed.
  Lemma af_check_arguments args : forall i n, aorel (an_check_arguments rec args i n).
  Proof. induction args as [|a args IH]; intros i n; cbn [an_check_arguments]; aorel_walk ltac:(first [apply IH|leaf]). Qed.
  Lemma af_user_function_call name l : aorel (an_user_function_call rec name l).
  Proof. unfold an_user_function_call; aorel_walk ltac:(first [apply af_check_arguments|leaf]). Qed.
  Lemma af_function_call name l : aorel (an_function_call rec name l).
  Proof. unfold an_function_call; aorel_walk ltac:(first [apply af_unary_arg|apply af_user_function_call|leaf]). Qed.
  Lemma af_term : aorel (an_term fuel rec).
  Proof. unfold an_term; aorel_walk ltac:(first [apply af_function_call|apply af_array_index|leaf]). Qed.
  Lemma af_paren : aorel (an_paren fuel rec).
  Proof. unfold an_paren; aorel_walk ltac:(first [apply af_term|leaf]). Qed.
  Lemma af_unary : aorel (an_unary fuel rec).
  Proof. unfold an_unary; aorel_walk ltac:(first [apply af_term|apply af_paren|leaf]). Qed.
  Lemma af_tier {O} (get_op : MA (option O)) operand comb :
    aorel get_op -> aorel operand -> (forall a b, aorel (comb a b)) -> aorel (an_tier fuel get_op operand comb).
  Proof. intros H1 H2 H3. unfold an_tier; aorel_walk ltac:(first [apply H1|apply H2|apply H3|leaf]). Qed.
  Lemma af_both_numbers v w : aorel (both_numbers v w).
  Proof. unfold both_numbers; aorel_walk leaf. Qed.
  Lemma af_accept_as t : aorel (an_accept_as t).
  Proof. unfold an_accept_as; aorel_walk leaf. Qed.
  Lemma af_or : aorel (an_or fuel rec).
  Proof.
    unfold an_or, an_and, an_equality, an_addsub, an_muldiv, an_exponent.
    repeat (apply af_tier;
            [ first [apply af_accept_as | apply aorel_lift; auto 3 with rafdb nocore]
            | | intros; first [apply af_both_numbers | aorel_walk leaf] ]).
    apply af_unary.
  Qed.
End AExprF.

Lemma af_analyze_expression fuel : forall n, aorel (analyze_expression fuel n).
Proof.
  induction fuel as [|k IH]; intros n; cbn [analyze_expression].
  - apply aorel_out_of_fuel.
  - destruct (Nat.eqb n max_nesting); [apply aorel_fail|]. apply af_or, IH.
Qed.

Section AStmtF.
  Variable fuel nest : nat.
  Variable rec : MA unit.
  Hypothesis Hrec : aorel rec.

  Lemma af_aexpr : aorel (aexpr fuel nest).
  Proof. apply af_analyze_expression. Qed.

  Ltac leaf := first [ apply af_aexpr | apply Hrec | base_leaf ].

  Lemma af_optional_index : aorel (an_optional_array_index fuel nest).
  Proof. unfold an_optional_array_index; aorel_walk ltac:(first [apply af_array_index; apply af_aexpr|leaf]). Qed.
  Lemma af_goto_or_gosub : aorel an_goto_or_gosub.
  Proof. unfold an_goto_or_gosub; aorel_walk leaf. Qed.
  Lemma af_statement_or_goto : aorel (an_statement_or_goto rec).
  Proof. unfold an_statement_or_goto; aorel_walk ltac:(first [apply af_goto_or_gosub|leaf]). Qed.
  Lemma af_if : aorel (an_if fuel nest rec).
  Proof. unfold an_if; aorel_walk ltac:(first [apply af_statement_or_goto|leaf]). Qed.
  Lemma af_assign lv t : aorel (an_assign lv t).
  Proof. unfold an_assign; aorel_walk leaf. Qed.
  Lemma af_assignment sym : aorel (an_assignment fuel nest sym).
  Proof. unfold an_assignment; aorel_walk ltac:(first [apply af_optional_index|apply af_assign|leaf]). Qed.
  Lemma af_let : aorel (an_let fuel nest).
  Proof. unfold an_let; aorel_walk ltac:(first [apply af_assignment|leaf]). Qed.
  Lemma af_parse_lvalue : aorel (an_parse_lvalue fuel nest).
  Proof. unfold an_parse_lvalue; aorel_walk ltac:(first [apply af_optional_index|leaf]). Qed.
  Lemma af_read : aorel (an_read fuel nest).
  Proof. unfold an_read; aorel_walk ltac:(first [apply af_parse_lvalue|apply af_assign|leaf]). Qed.
  Lemma af_input : aorel (an_input fuel nest).
  Proof. unfold an_input; aorel_walk ltac:(first [apply af_parse_lvalue|leaf]). Qed.
  Lemma af_dim : aorel (an_dim fuel nest).
  Proof. unfold an_dim; aorel_walk ltac:(first [apply af_parse_lvalue|leaf]). Qed.
  Lemma af_print : aorel (an_print fuel nest).
  Proof. unfold an_print; aorel_walk leaf. Qed.
  Lemma af_for : aorel (an_for fuel nest).
  Proof. unfold an_for; aorel_walk leaf. Qed.
  Lemma af_next : aorel an_next.
  Proof. unfold an_next; aorel_walk leaf. Qed.
  Lemma af_def : aorel (an_def fuel nest).
  Proof. unfold an_def; aorel_walk leaf. Qed.

  Lemma af_statement_body : aorel (an_statement_body fuel nest rec).
  Proof.
    unfold an_statement_body.
    aorel_walk ltac:(first [ apply af_dim | apply af_print | apply af_input | apply af_if | apply af_goto_or_gosub
                           | apply af_for | apply af_next | apply af_def | apply af_read | apply af_let
                           | apply af_assignment | leaf ]).
  Qed.
End AStmtF.

Lemma af_analyze_statement fuel : forall n, aorel (analyze_statement fuel n).
Proof.
  induction fuel as [|k IH]; intros n; cbn [analyze_statement].
  - apply aorel_out_of_fuel.
  - destruct (Nat.eqb n max_nesting); [apply aorel_fail|]. apply af_statement_body, IH.
Qed.

(* ------------------------------------------------------------------ *)
(* the walk over the stored lines *)

Lemma af_walk_line fuel m : forall stmts st, AF (fst st) (fst (snd (walk_line fuel stmts m st))).
Proof.
  induction stmts as [|k IH]; intros st; cbn [walk_line]; [apply AF_refl|].
  pose proof (raf_has_next (fst st)) as H1.
  destruct (has_next_token (fst st)) as [[[|]|e l|p| |] p1]; cbn [fst snd forget] in *; try exact H1.
  pose proof (af_analyze_statement fuel 0 (p1, snd st)) as H2.
  destruct (analyze_statement fuel 0 (p1, snd st)) as [[u|e l|p| |] st']; cbn [fst snd] in *;
    try (eapply AF_trans; [exact H1|exact H2]).
  - eapply AF_trans; [exact H1|]. eapply AF_trans; [exact H2|apply IH].
  - destruct (populate_error_location e l (fst st')) as [l0|]; [|eapply AF_trans; [exact H1|exact H2]].
    destruct (map_location_to_source m l0) as [[fl r]|]; cbn [fst snd]; (eapply AF_trans; [exact H1|exact H2]).
Qed.

Lemma af_walk_lines fuel m : forall n msgs st,
  AF (fst st) (fst (snd (walk_lines fuel n m msgs st))).
Proof.
  induction n as [|n IH]; intros msgs st; cbn [walk_lines]; [apply AF_refl|].
  pose proof (af_walk_line fuel m (S (length (match fst (cur_tokens (fst st)) with Ok ts => ts | _ => [] end))) st) as H1.
  destruct (walk_line fuel _ m st) as [[om|e l|p| |] st']; cbn [fst snd] in *; try exact H1.
  pose proof (raf_next_line (fst st')) as H2.
  destruct (next_line (fst st')) as [[[|]|e l|p| |] p1]; cbn [fst snd forget] in *;
    try (eapply AF_trans; [exact H1|exact H2]).
  eapply AF_trans; [exact H1|]. eapply AF_trans; [exact H2|]. apply (IH _ (p1, snd st')).
Qed.

Lemma af_walk_lines_eq fuel m n msgs p acc r msgs' st' :
  walk_lines fuel n m msgs (p, acc) = (r, msgs', st') -> AF p (fst st').
Proof. intros H. pose proof (af_walk_lines fuel m n msgs (p, acc)) as H0. rewrite H in H0. exact H0. Qed.
