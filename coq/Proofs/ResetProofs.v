(* Proofs/ResetProofs.v — RUN starts from a clean slate (C10); a successful
   edit invalidates every runtime reference, a rejected edit invalidates
   nothing (C11). *)
From Coq Require Import List NArith ZArith Bool Lia.
From Abasic Require Import Model.Bytes Model.Num Model.Token Model.Data Model.Lexer Gen.Tables
     Model.State Model.Eval Model.Interp Proofs.Monad Proofs.Frames Proofs.StoreProofs.
Import ListNotations.

(* ------------------------------------------------------------------ *)
(* C10 *)

(* Everything RUN does before the first statement, as one explicit state:
   built from the store, the generator state, the two flags, the (model-only)
   oracle and counters, and the not-yet-taken output -- nothing else. *)
Definition clean (s : interp) : interp :=
  mkinterp (st_toks s) (st_keys s) []
           (match store_first s with Some n => mkloc (Some n) 0 | None => imm0 end)
           None [] [] None [] None (outputs s) (state s) (rng s) [] []
           (enable_warnings s) (enable_tracing s) (pow_oracle s) (reads s).

Lemma command_of_RUN : command_of (bs "RUN") = Some CRun.
Proof. vm_compute. reflexivity. Qed.

Lemma evaluate_impl_RUN fuel s :
  state s = Idle ->
  evaluate_impl fuel (bs "RUN") s = run_next_statement fuel (clean s).
Proof.
  intros Hidle. unfold evaluate_impl. rewrite bind_get, Hidle.
  rewrite set_imm_is_modify, bind_modify, command_of_RUN.
  cbn [process_command].
  rewrite !bind_modify.
  unfold run_from_first_numbered_line, reset_runtime_state, reset_data_cursor, program_end.
  rewrite !set_imm_is_modify.
  repeat (unfold bind at 1; unfold modify at 1).
  f_equal.
  unfold clean, imm_reset, store_first.
  destruct s; cbn. destruct breakpoint; cbn; destruct st_keys; reflexivity.
Qed.

(* the part of the state a RUN can depend on *)
Definition persistent_eq (s1 s2 : interp) : Prop :=
  st_toks s1 = st_toks s2 /\ st_keys s1 = st_keys s2 /\ rng s1 = rng s2
  /\ enable_warnings s1 = enable_warnings s2 /\ enable_tracing s1 = enable_tracing s2
  /\ pow_oracle s1 = pow_oracle s2.

Lemma clean_eq s1 s2 :
  persistent_eq s1 s2 -> state s1 = state s2 -> outputs s1 = outputs s2 -> reads s1 = reads s2 ->
  clean s1 = clean s2.
Proof.
  intros (H1 & H2 & H3 & H4 & H5 & H6) Hs Ho Hr. unfold clean, store_first.
  rewrite H1, H2, H3, H4, H5, H6, Hs, Ho, Hr. reflexivity.
Qed.

Lemma set_reads_persistent r s : persistent_eq (set_reads r s) s.
Proof. repeat split. Qed.

(* Two idle interpreters that hold the same program, generator state and
   flags (and whose pending output has been taken) answer RUN identically:
   same row, same complete resulting state -- whatever else their histories
   left behind (variables, arrays, loops, stack, functions, data cursor,
   breakpoint, pending reply, immediate line, cursor). *)
Theorem run_clean_slate : forall fuel s1 s2,
  state s1 = Idle -> state s2 = Idle -> persistent_eq s1 s2 -> outputs s1 = outputs s2 ->
  step fuel s1 (HLine (bs "RUN")) = step fuel s2 (HLine (bs "RUN")).
Proof.
  intros fuel s1 s2 Hi1 Hi2 Hp Ho.
  unfold step, legal. rewrite Hi1, Hi2. cbn [negb].
  unfold start_evaluating.
  rewrite (evaluate_impl_RUN fuel (set_reads 0 s1)) by exact Hi1.
  rewrite (evaluate_impl_RUN fuel (set_reads 0 s2)) by exact Hi2.
  rewrite (clean_eq (set_reads 0 s1) (set_reads 0 s2)); [reflexivity| | | |].
  - destruct Hp as (H1 & H2 & H3 & H4 & H5 & H6). repeat split; assumption.
  - cbn. congruence.
  - exact Ho.
  - reflexivity.
Qed.

(* and every later call too: the two sessions stay identical *)
Theorem run_clean_slate_history : forall fuel ops s1 s2,
  state s1 = Idle -> state s2 = Idle -> persistent_eq s1 s2 -> outputs s1 = outputs s2 ->
  run_ops fuel s1 (HLine (bs "RUN") :: ops) = run_ops fuel s2 (HLine (bs "RUN") :: ops).
Proof.
  intros fuel ops s1 s2 Hi1 Hi2 Hp Ho. cbn [run_ops].
  rewrite (run_clean_slate fuel s1 s2 Hi1 Hi2 Hp Ho). reflexivity.
Qed.

(* ------------------------------------------------------------------ *)
(* C11 *)

Lemma imm_reset_idem ts s : imm_reset ts (imm_reset [] s) = imm_reset ts s.
Proof. unfold imm_reset. destruct s; cbn. destruct breakpoint; reflexivity. Qed.

(* evaluate_impl looks at an idle state only through its normal form *)
Lemma evaluate_impl_normal fuel line s :
  state s = Idle -> evaluate_impl fuel line (imm_reset [] s) = evaluate_impl fuel line s.
Proof.
  intros Hidle. unfold evaluate_impl. rewrite !bind_get.
  replace (state (imm_reset [] s)) with (state s)
    by (unfold imm_reset; destruct (breakpoint s); reflexivity).
  rewrite Hidle. rewrite set_imm_is_modify, !bind_modify, imm_reset_idem. reflexivity.
Qed.

Lemma set_state_same s : set_state (state s) s = s.
Proof. destruct s; reflexivity. Qed.

(* A rejected edit (tokenization error) returns the error and leaves exactly
   the normal form of the state -- which every line entry computes first
   anyway -- so no later call can tell that it happened. *)
Definition rejected (line : bytes) : Prop :=
  command_of line = None /\
  exists ts e, tokenize line (match parse_line_number line with Some (_, k) => k | None => 0 end) = TokErr ts e.

Theorem rejected_edit_state : forall fuel line s,
  state s = Idle -> rejected line ->
  exists e, start_evaluating fuel line s = (Err (ESyntaxTok e) (Some imm0), imm_reset [] s).
Proof.
  intros fuel line s Hidle (Hc & ts & e & Ht). exists e.
  unfold start_evaluating, evaluate_impl. rewrite bind_get, Hidle.
  rewrite set_imm_is_modify, bind_modify, Hc.
  destruct (parse_line_number line) as [[n k]|]; rewrite Ht; unfold fail, postprocess;
    cbn [populate_error_location]; f_equal;
    try (unfold imm_reset; destruct (breakpoint s); reflexivity).
  all: rewrite <- Hidle at 1;
    replace (state s) with (state (imm_reset [] s))
      by (unfold imm_reset; destruct (breakpoint s); reflexivity);
    apply set_state_same.
Qed.

Theorem rejected_edit_invisible : forall fuel line s,
  state s = Idle -> rejected line ->
  let s' := snd (start_evaluating fuel line s) in
  state s' = Idle
  /\ (forall fuel' line', start_evaluating fuel' line' s' = start_evaluating fuel' line' s)
  /\ st_toks s' = st_toks s /\ st_keys s' = st_keys s /\ breakpoint s' = breakpoint s
  /\ loops s' = loops s /\ functions s' = functions s /\ data_it s' = data_it s
  /\ variables s' = variables s /\ arrays s' = arrays s /\ rng s' = rng s /\ input s' = input s
  /\ (breakpoint s <> None -> stack s' = stack s).
Proof.
  intros fuel line s Hidle Hrej. cbn zeta.
  destruct (rejected_edit_state fuel line s Hidle Hrej) as [e He]. rewrite He. cbn [snd].
  assert (Hst : state (imm_reset [] s) = Idle)
    by (unfold imm_reset; destruct (breakpoint s); exact Hidle).
  split; [exact Hst|]. split.
  - intros fuel' line'. unfold start_evaluating. rewrite evaluate_impl_normal by exact Hidle. reflexivity.
  - unfold imm_reset. destruct (breakpoint s) eqn:Hb; cbn; repeat split; try reflexivity; try congruence.
Qed.

(* A successful numbered edit: everything that refers into the program is
   dropped; variables and arrays are kept. *)
Theorem edit_invalidates : forall fuel line s n v,
  state s = Idle -> edit_of line = Some (n, v) ->
  let '(r, s') := start_evaluating fuel line s in
  r = Ok tt
  /\ breakpoint s' = None /\ stack s' = [] /\ loops s' = [] /\ functions s' = [] /\ data_it s' = None
  /\ loc s' = imm0 /\ immediate s' = [] /\ state s' = Idle
  /\ variables s' = variables s /\ arrays s' = arrays s /\ rng s' = rng s /\ input s' = input s
  /\ outputs s' = outputs s
  /\ st_toks s' = st_toks (store_set n v s) /\ st_keys s' = st_keys (store_set n v s).
Proof.
  intros fuel line s n v Hidle Hedit.
  unfold start_evaluating, evaluate_impl. rewrite bind_get, Hidle.
  rewrite set_imm_is_modify, bind_modify.
  unfold edit_of in Hedit.
  destruct (command_of line); [discriminate|].
  destruct (parse_line_number line) as [[n' k]|]; [|discriminate].
  destruct (tokenize line k) as [ts|ts e]; [|discriminate].
  inversion Hedit; subst n' v.
  rewrite set_numbered_line_split.
  unfold set_numbered_tail, reset_data_cursor, program_end.
  rewrite !set_imm_is_modify.
  repeat (unfold bind at 1; unfold modify at 1).
  unfold postprocess.
  unfold imm_reset, store_set. destruct s; cbn in *.
  destruct breakpoint; destruct (map fst ts); cbn; repeat split; reflexivity || assumption.
Qed.

(* Probe: CONT after an edit cannot resume anything. *)
Lemma command_of_CONT : command_of (bs "CONT") = Some CCont.
Proof. vm_compute. reflexivity. Qed.

Lemma bind_assoc {A B C} (m : M A) (f : A -> M B) (g : B -> M C) s :
  bind (bind m f) g s = bind m (fun a => bind (f a) g) s.
Proof. unfold bind. destruct (m s) as [[a|e l|p| |] s1]; reflexivity. Qed.

Theorem cont_without_breakpoint : forall fuel s,
  state s = Idle -> breakpoint s = None ->
  fst (start_evaluating fuel (bs "CONT") s) = Err ECannotContinue (Some imm0).
Proof.
  intros fuel s Hidle Hbp.
  unfold start_evaluating, evaluate_impl. rewrite bind_get, Hidle.
  rewrite set_imm_is_modify, bind_modify, command_of_CONT.
  cbn [process_command]. unfold continue_from_breakpoint.
  rewrite set_imm_is_modify, bind_assoc, bind_modify, bind_assoc, bind_get.
  assert (H : breakpoint (imm_reset [] (imm_reset [] s)) = None)
    by (unfold imm_reset; destruct s; cbn in *; subst; reflexivity).
  rewrite H. unfold bind, fail, postprocess. cbn [fst populate_error_location].
  unfold imm_reset. destruct s; cbn in *; subst; reflexivity.
Qed.

Corollary cont_after_edit : forall fuel fuel' line s n v,
  state s = Idle -> edit_of line = Some (n, v) ->
  fst (start_evaluating fuel' (bs "CONT") (snd (start_evaluating fuel line s)))
  = Err ECannotContinue (Some imm0).
Proof.
  intros fuel fuel' line s n v Hidle Hedit.
  pose proof (edit_invalidates fuel line s n v Hidle Hedit) as H.
  destruct (start_evaluating fuel line s) as [r s'].
  destruct H as (_ & Hbp & _ & _ & _ & _ & _ & _ & Hst & _).
  apply cont_without_breakpoint; assumption.
Qed.
