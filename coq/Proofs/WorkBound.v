(* Proofs/WorkBound.v — C09, the work bound: with no user function defined, the
   number of token-cursor reads (the hook counter [reads]) of ONE host call is
   bounded linearly by the length of the line the cursor is on.

   Potential argument.  [room s] is the number of tokens left on the line.
   Every read that consumes a token is paid by that token (KA = 11 reads per
   token); the reads that consume nothing (a peek that finds no operator, an
   accept that finds no parenthesis ...) are counted along each path through
   an evaluator and shown to be covered by the tokens that path did consume,
   up to a constant.  [Jc m B]: from a well-formed state without user
   functions, [m] ends with  reads' <= reads + KA * (room - room') + B result
   (and, on failure, reads' <= reads + KA * room + B result). *)
From Coq Require Import List NArith ZArith Bool Lia.
From Abasic Require Import Model.Bytes Model.Num Model.Token Model.Data Model.Lexer Gen.Tables
     Model.State Model.Eval Model.Interp Proofs.Monad Proofs.Frames Proofs.StoreProofs Proofs.Safety
     Proofs.ImmFrame Proofs.Termination.
Import ListNotations.
Local Open Scope Z_scope.

Definition KA : Z := 11.
Definition SB : Z := 2.   (* what one statement may cost beyond (KA+1) * room + idx *)
Definition EF : Z := 3.   (* what a failing expression may cost beyond the tokens it consumed *)
Definition zr (s : interp) : Z := Z.of_nat (reads s).
Definition zm (s : interp) : Z := Z.of_nat (room s).
Definition zi (s : interp) : Z := Z.of_nat (loc_idx (loc s)).

Definition Jpost {A} (B : res A -> Z) (s : interp) (x : res A * interp) : Prop :=
  match fst x with
  | Ok _ => zr (snd x) <= zr s + KA * (zm s - zm (snd x)) + B (fst x) /\ zi (snd x) <= zi s + (zm s - zm (snd x))
  | _ => zr (snd x) <= zr s + KA * zm s + B (fst x)
  end.

Definition Jc {A} (m : M A) (B : res A -> Z) : Prop :=
  forall s, wf s -> functions s = [] -> Jpost B s (m s).

Definition ob {A} (bo be : Z) : res A -> Z := fun r => match r with Ok _ => bo | _ => be end.

Lemma zm_nonneg s : 0 <= zm s. Proof. unfold zm; lia. Qed.

Lemma Jpost_weaken {A} (B1 B2 : res A -> Z) s x : (forall r, B1 r <= B2 r) -> Jpost B1 s x -> Jpost B2 s x.
Proof.
  intros H. unfold Jpost. destruct x as [r s']. cbn [fst snd]. pose proof (H r).
  destruct r; intros; try lia.
Qed.

(* continue from an intermediate state reached with cost [c] *)
Lemma Jpost_trans {A} (B : res A -> Z) s s1 c x :
  zr s1 <= zr s + KA * (zm s - zm s1) + c -> zi s1 <= zi s + (zm s - zm s1) ->
  Jpost (fun r => B r - c) s1 x -> Jpost B s x.
Proof.
  unfold Jpost. destruct x as [r s']. cbn [fst snd]. intros H1 H2. pose proof (zm_nonneg s1). unfold KA in *.
  destruct r; intros; lia.
Qed.

Lemma Jc_weaken {A} (m : M A) B1 B2 : (forall r, B1 r <= B2 r) -> Jc m B1 -> Jc m B2.
Proof. intros H Hm s Hwf Hfn. eapply Jpost_weaken; [exact H | apply Hm; assumption]. Qed.

(* ------------------------------------------------------------------ *)
(* what an Ok step of an expression-level evaluator preserves *)
Lemma er_next {A} (m : M A) s a s' : orel ERw m -> wf s -> functions s = [] -> m s = (Ok a, s') ->
  wf s' /\ functions s' = [].
Proof.
  intros Hm Hwf Hfn E. pose proof (Hm s Hwf) as H. rewrite E in H. cbn [fst snd forget] in H.
  destruct H as [A1 A2 A3 A4 A5 A6 A7 A8 A9]. split; [exact A1 | congruence].
Qed.

(* [Nx m]: after an Ok step the next one may be taken *)
Definition Nx {A} (m : M A) : Prop :=
  forall s x s1, wf s -> functions s = [] -> m s = (Ok x, s1) -> wf s1 /\ functions s1 = [].

Lemma Nx_of_er {A} (m : M A) : orel ERw m -> Nx m.
Proof. intros H s x s1 Hwf Hfn E. exact (er_next m s x s1 H Hwf Hfn E). Qed.

Lemma Nx_ret {A} (a : A) : Nx (ret a).
Proof. intros s x s1 Hwf Hfn E. injection E as _ <-. split; assumption. Qed.
Lemma Nx_fail {A} e : Nx (@fail A e). Proof. intros s x s1 _ _ E. discriminate E. Qed.
Lemma Nx_panic {A} p : Nx (@panic A p). Proof. intros s x s1 _ _ E. discriminate E. Qed.
Lemma Nx_lift_res {A} (r : res A) : Nx (lift_res r).
Proof. intros s x s1 Hwf Hfn E. unfold lift_res in E. injection E as _ <-. split; assumption. Qed.
Lemma Nx_get {A} (f : interp -> A) : Nx (get f).
Proof. intros s x s1 Hwf Hfn E. injection E as _ <-. split; assumption. Qed.
Lemma Nx_bind {A B} (m : M A) (f : A -> M B) : Nx m -> (forall a, Nx (f a)) -> Nx (bind m f).
Proof.
  intros Hm Hf s x s2 Hwf Hfn E. rewrite Safety.bind_run in E.
  destruct (m s) as [[a|e l|p| |] s1] eqn:E1; try discriminate E.
  destruct (Hm s a s1 Hwf Hfn E1) as [Hwf1 Hfn1]. exact (Hf a s1 x s2 Hwf1 Hfn1 E).
Qed.
Lemma Nx_repeat {S R} (body : S -> M (S + R)) : (forall acc, Nx (body acc)) -> forall n acc, Nx (repeat_m n body acc).
Proof.
  intros Hb. induction n as [|n IH]; intros acc; cbn [repeat_m]; [intros s x s1 _ _ E; discriminate E|].
  apply Nx_bind; [apply Hb|]. intros [a|r]; [apply IH | apply Nx_ret].
Qed.

Ltac nxstep leaf :=
  cbv zeta;
  lazymatch goal with
  | |- Nx (ret _) => apply Nx_ret
  | |- Nx (fail _) => apply Nx_fail
  | |- Nx (panic _) => apply Nx_panic
  | |- Nx (lift_res _) => apply Nx_lift_res
  | |- Nx (get _) => apply Nx_get
  | |- Nx (bind _ _) => apply Nx_bind; [| intro]
  | |- Nx (repeat_m _ _ _) => apply Nx_repeat; intro
  | |- Nx (match ?x with _ => _ end) => destruct x
  | |- Nx (if ?b then _ else _) => destruct b
  | |- Nx (let '(_, _) := ?x in _) => destruct x
  | |- Nx _ => solve [leaf]
  end.
Ltac nxwalk leaf := repeat (nxstep leaf).

(* ------------------------------------------------------------------ *)
(* the cursor primitives, exactly *)

Lemma zr_bump s : zr (bump s) = zr s + 1. Proof. unfold zr, bump. cbn. lia. Qed.
Lemma zm_bump s : zm (bump s) = zm s. Proof. reflexivity. Qed.
Lemma zi_bump s : zi (bump s) = zi s. Proof. reflexivity. Qed.

Definition adv (s : interp) : interp := set_loc (mkloc (loc_line (loc s)) (S (loc_idx (loc s)))) (bump s).

Lemma adv_facts s t : nth_error (cur_toks s) (loc_idx (loc s)) = Some t ->
  zr (adv s) = zr s + 1 /\ zm (adv s) = zm s - 1 /\ zi (adv s) = zi s + 1.
Proof.
  intros H. assert (Hlt : (loc_idx (loc s) < length (cur_toks s))%nat) by (apply nth_error_Some; congruence).
  unfold zr, zm, zi, adv, room. change (cur_toks (set_loc _ (bump s))) with (cur_toks s).
  cbn [loc set_loc loc_idx reads bump set_reads]. repeat split; lia.
Qed.

Lemma Jc_peek : Jc peek_next_token (fun _ => 1).
Proof.
  intros s Hwf _. rewrite (peek_eq s (wf_loc _ Hwf)). unfold Jpost. cbn [fst snd].
  rewrite zr_bump, zm_bump, zi_bump. unfold KA. lia.
Qed.

Lemma Jc_has_next : Jc has_next_token (fun _ => 1).
Proof.
  intros s Hwf _. unfold has_next_token. rewrite Safety.bind_run, (peek_eq s (wf_loc _ Hwf)). unfold Jpost. cbn [fst snd ret].
  rewrite zr_bump, zm_bump, zi_bump. unfold KA. lia.
Qed.

Lemma Jc_peek_is t : Jc (peek_is t) (fun _ => 1).
Proof.
  intros s Hwf _. unfold peek_is. rewrite Safety.bind_run, (peek_eq s (wf_loc _ Hwf)). unfold Jpost. cbn [fst snd ret].
  rewrite zr_bump, zm_bump, zi_bump. unfold KA. lia.
Qed.

Lemma Jc_next_token : Jc next_token (fun r => match r with Ok (Some _) => 1 - KA | _ => 1 end).
Proof.
  intros s Hwf _. rewrite (next_token_w s Hwf). unfold Jpost.
  destruct (nth_error (cur_toks s) (loc_idx (loc s))) as [t|] eqn:Et; cbn [fst snd].
  - fold (adv s). destruct (adv_facts s t Et) as (A & B & C). rewrite A, B, C. unfold KA. lia.
  - rewrite zr_bump, zm_bump, zi_bump. unfold KA. lia.
Qed.

Lemma Jc_next_unwrapped : Jc next_unwrapped_token (ob (1 - KA) 1).
Proof.
  intros s Hwf _. unfold next_unwrapped_token. rewrite Safety.bind_run, (next_token_w s Hwf). unfold Jpost.
  destruct (nth_error (cur_toks s) (loc_idx (loc s))) as [t|] eqn:Et; cbn [fst snd ret ob].
  - fold (adv s). destruct (adv_facts s t Et) as (A & B & C). rewrite A, B, C. unfold KA. lia.
  - rewrite bind_get. cbn [fail_at fst snd ob]. rewrite zr_bump. pose proof (zm_nonneg s). unfold KA. lia.
Qed.

Lemma Jc_expect t : Jc (expect_next_token t) (ob (1 - KA) 1).
Proof.
  intros s Hwf _. unfold expect_next_token, next_unwrapped_token.
  rewrite !Safety.bind_run, (next_token_w s Hwf). unfold Jpost.
  destruct (nth_error (cur_toks s) (loc_idx (loc s))) as [t'|] eqn:Et; cbn [fst snd ret ob].
  - fold (adv s). destruct (adv_facts s t' Et) as (A & B & C).
    destruct (token_eqb t' t); cbn [fst snd ret fail ob]; rewrite ?A, ?B, ?C; pose proof (zm_nonneg s); unfold KA; lia.
  - rewrite bind_get. cbn [fail_at fst snd ob]. rewrite zr_bump. pose proof (zm_nonneg s). unfold KA. lia.
Qed.

Lemma Jc_accept t : Jc (accept_next_token t) (fun r => match r with Ok true => 1 - KA | _ => 1 end).
Proof.
  intros s Hwf _. rewrite (accept_w t s Hwf). unfold Jpost.
  destruct (nth_error (cur_toks s) (loc_idx (loc s))) as [t'|] eqn:Et; [destruct (token_eqb t' t)|]; cbn [fst snd].
  - fold (adv s). destruct (adv_facts s t' Et) as (A & B & C). rewrite A, B, C. unfold KA. lia.
  - rewrite zr_bump, zm_bump, zi_bump. unfold KA. lia.
  - rewrite zr_bump, zm_bump, zi_bump. unfold KA. lia.
Qed.

Lemma Jc_try {B} (g : token -> option B) :
  Jc (try_next_token g) (fun r => match r with Ok (Some _) => 1 - KA | _ => 1 end).
Proof.
  intros s Hwf _. rewrite (try_w g s Hwf). unfold Jpost.
  destruct (nth_error (cur_toks s) (loc_idx (loc s))) as [t'|] eqn:Et; [destruct (g t')|]; cbn [fst snd].
  - fold (adv s). destruct (adv_facts s t' Et) as (A & B' & C). rewrite A, B', C. unfold KA. lia.
  - rewrite zr_bump, zm_bump, zi_bump. unfold KA. lia.
  - rewrite zr_bump, zm_bump, zi_bump. unfold KA. lia.
Qed.

Lemma Jc_accept_as {O} t (o : O) : Jc (accept_as t o) (fun r => match r with Ok (Some _) => 1 - KA | _ => 1 end).
Proof.
  intros s Hwf Hfn. unfold accept_as. rewrite Safety.bind_run. pose proof (Jc_accept t s Hwf Hfn) as H.
  destruct (accept_next_token t s) as [[[|]|e l|p| |] s1]; exact H.
Qed.

(* ------------------------------------------------------------------ *)
(* steps that read nothing and leave the cursor alone *)
Definition Z0 (s s' : interp) : Prop :=
  reads s' = reads s /\ loc s' = loc s /\ st_toks s' = st_toks s /\ immediate s' = immediate s
  /\ functions s' = functions s.

Lemma Z0_preorder : preorder Z0.
Proof.
  split; [intros s; repeat split|].
  intros x y z (A1 & A2 & A3 & A4 & A5) (B1 & B2 & B3 & B4 & B5). repeat split; congruence.
Qed.

Lemma Jc_of_Z0 {A} (m : M A) : mrel Z0 m -> Jc m (fun _ => 0).
Proof.
  intros H s Hwf Hfn. destruct (H s) as (A1 & A2 & A3 & A4 & A5). unfold Jpost.
  assert (Er : zr (snd (m s)) = zr s) by (unfold zr; rewrite A1; reflexivity).
  assert (Em : zm (snd (m s)) = zm s) by (unfold zm, room, cur_toks; rewrite A2, A3, A4; reflexivity).
  assert (Ei : zi (snd (m s)) = zi s) by (unfold zi; rewrite A2; reflexivity).
  pose proof (zm_nonneg s). unfold KA.
  destruct (fst (m s)); lia.
Qed.

Ltac z0leaf :=
  idtac;
  lazymatch goal with
  | |- mrel _ (modify _) =>
      apply (mrel_modify Z0); intros s; destruct s as [? ? ? [? ?] ? ? ? ? ? ? ? ? ? ? ? ? ? ? ?];
      cbn; repeat match goal with |- context [match ?x with _ => _ end] => destruct x end; repeat split; reflexivity
  | |- mrel _ (tokens_for_line ?l) =>
      let s := fresh "s" in
      intros s; unfold tokens_for_line; destruct l; [destruct (toks_get _ (st_toks s))|]; apply (po_refl _ Z0_preorder)
  end.

Ltac zstep leaf :=
  lazymatch goal with
  | |- mrel _ (ret _) => apply (mrel_ret _ Z0_preorder)
  | |- mrel _ (fail _) => apply (mrel_fail _ Z0_preorder)
  | |- mrel _ (fail_at _ _) => apply (mrel_fail_at _ Z0_preorder)
  | |- mrel _ (panic _) => apply (mrel_panic _ Z0_preorder)
  | |- mrel _ out_of_fuel => apply (mrel_out_of_fuel _ Z0_preorder)
  | |- mrel _ oracle_miss => apply (mrel_oracle_miss _ Z0_preorder)
  | |- mrel _ (get _) => apply (mrel_get _ Z0_preorder)
  | |- mrel _ (lift_res _) => apply (mrel_lift_res _ Z0_preorder)
  | |- mrel _ (bind _ _) => apply (mrel_bind _ Z0_preorder); [| intro]
  | |- mrel _ (repeat_m _ _ _) => apply (mrel_repeat _ Z0_preorder); intro
  | |- mrel _ (match ?x with _ => _ end) => destruct x
  | |- mrel _ (if ?b then _ else _) => destruct b
  | |- mrel _ (let '(_, _) := ?x in _) => destruct x
  | |- mrel _ _ => solve [leaf]
  end.
Ltac zwalk := repeat (zstep z0leaf).

Lemma Z0_find_var n : mrel Z0 (find_variable_value_in_stack n). Proof. unfold find_variable_value_in_stack. zwalk. Qed.
Lemma Z0_variables_get n : mrel Z0 (variables_get n). Proof. unfold variables_get. zwalk. Qed.
Lemma Z0_variables_set n v : mrel Z0 (variables_set n v). Proof. unfold variables_set. zwalk. Qed.
Lemma Z0_push_output o : mrel Z0 (push_output o). Proof. unfold push_output. zwalk. Qed.
Lemma Z0_warn m : mrel Z0 (warn m). Proof. unfold warn, get_line_number, push_output. zwalk. Qed.
Lemma Z0_maybe_warn n : mrel Z0 (maybe_warn_undeclared_array n).
Proof. unfold maybe_warn_undeclared_array, warn, get_line_number, push_output. zwalk. Qed.
Lemma Z0_rng_rnd x : mrel Z0 (rng_rnd x). Proof. unfold rng_rnd. zwalk. Qed.
Lemma Z0_expect_number v : mrel Z0 (expect_number v). Proof. unfold expect_number. zwalk. Qed.
Lemma Z0_eval_unary o v : mrel Z0 (eval_unary o v). Proof. unfold eval_unary. zwalk. Qed.
Lemma Z0_eval_addsub o a b : mrel Z0 (eval_addsub o a b). Proof. unfold eval_addsub. zwalk. Qed.
Lemma Z0_eval_muldiv o a b : mrel Z0 (eval_muldiv o a b). Proof. unfold eval_muldiv. zwalk. Qed.
Lemma Z0_eval_eq o a b : mrel Z0 (eval_eq o a b). Proof. unfold eval_eq. zwalk. Qed.
Lemma Z0_eval_and a b : mrel Z0 (eval_and a b). Proof. unfold eval_and. zwalk. Qed.
Lemma Z0_eval_or a b : mrel Z0 (eval_or a b). Proof. unfold eval_or. zwalk. Qed.
Lemma Z0_eval_pow a b : mrel Z0 (eval_pow a b). Proof. unfold eval_pow. zwalk. Qed.
Lemma Z0_maybe_default n d : mrel Z0 (maybe_create_default_array n d). Proof. unfold maybe_create_default_array. zwalk. Qed.
Lemma Z0_arrays_get n i : mrel Z0 (arrays_get n i). Proof. unfold arrays_get, maybe_create_default_array. zwalk. Qed.
Lemma Z0_arrays_set n i v : mrel Z0 (arrays_set n i v). Proof. unfold arrays_set, maybe_create_default_array. zwalk. Qed.
Lemma Z0_arrays_create n i : mrel Z0 (arrays_create n i). Proof. unfold arrays_create. zwalk. Qed.

(* ------------------------------------------------------------------ *)
(* symbolic execution of an evaluator, one bind at a time *)

Lemma Jpost_ret {A} (B : res A -> Z) s (x : A) : 0 <= B (Ok x) -> Jpost B s (ret x s).
Proof. intros H. unfold Jpost, ret. cbn [fst snd]. unfold KA. lia. Qed.
Lemma Jpost_fail {A} (B : res A -> Z) s e : 0 <= B (Err e None) -> Jpost B s (@fail A e s).
Proof. intros H. unfold Jpost, fail. cbn [fst snd]. pose proof (zm_nonneg s). unfold KA. lia. Qed.
Lemma Jpost_fail_at {A} (B : res A -> Z) s e l : 0 <= B (Err e (Some l)) -> Jpost B s (@fail_at A e l s).
Proof. intros H. unfold Jpost, fail_at. cbn [fst snd]. pose proof (zm_nonneg s). unfold KA. lia. Qed.
Lemma Jpost_panic {A} (B : res A -> Z) s p : 0 <= B (Panic p) -> Jpost B s (@panic A p s).
Proof. intros H. unfold Jpost, panic. cbn [fst snd]. pose proof (zm_nonneg s). unfold KA. lia. Qed.
Lemma Jpost_out_of_fuel {A} (B : res A -> Z) s : 0 <= B OutOfFuel -> Jpost B s (@out_of_fuel A s).
Proof. intros H. unfold Jpost, out_of_fuel. cbn [fst snd]. pose proof (zm_nonneg s). unfold KA. lia. Qed.
Lemma Jpost_oracle_miss {A} (B : res A -> Z) s : 0 <= B OracleMiss -> Jpost B s (@oracle_miss A s).
Proof. intros H. unfold Jpost, oracle_miss. cbn [fst snd]. pose proof (zm_nonneg s). unfold KA. lia. Qed.
Lemma Jpost_lift_res {A} (B : res A -> Z) s (r : res A) : 0 <= B r -> Jpost B s (lift_res r s).
Proof. intros H. unfold Jpost, lift_res. cbn [fst snd]. pose proof (zm_nonneg s). unfold KA. destruct r; lia. Qed.

(* the side condition of a step: B1 r <= B r for every result *)
Ltac jarith :=
  cbv beta iota; unfold ob, KA, EF, SB in *; cbv beta iota;
  repeat (match goal with |- context [match ?v with _ => _ end] => is_var v; destruct v end; cbv beta iota);
  lia.

Ltac jside := let r := fresh "r" in intros r; destruct r; jarith.

(* [jlook m k]: find the cost lemma of [m] and pass it to [k] *)
Ltac jlook_base m k :=
  lazymatch m with
  | peek_next_token => k Jc_peek
  | has_next_token => k Jc_has_next
  | peek_is ?t => k (Jc_peek_is t)
  | next_token => k Jc_next_token
  | next_unwrapped_token => k Jc_next_unwrapped
  | expect_next_token ?t => k (Jc_expect t)
  | accept_next_token ?t => k (Jc_accept t)
  | try_next_token ?g => k (Jc_try g)
  | accept_as ?t ?o => k (Jc_accept_as t o)
  | find_variable_value_in_stack ?n => k (Jc_of_Z0 _ (Z0_find_var n))
  | variables_get ?n => k (Jc_of_Z0 _ (Z0_variables_get n))
  | variables_set ?n ?v => k (Jc_of_Z0 _ (Z0_variables_set n v))
  | push_output ?o => k (Jc_of_Z0 _ (Z0_push_output o))
  | warn ?m => k (Jc_of_Z0 _ (Z0_warn m))
  | maybe_warn_undeclared_array ?n => k (Jc_of_Z0 _ (Z0_maybe_warn n))
  | rng_rnd ?x => k (Jc_of_Z0 _ (Z0_rng_rnd x))
  | expect_number ?v => k (Jc_of_Z0 _ (Z0_expect_number v))
  | eval_unary ?o ?v => k (Jc_of_Z0 _ (Z0_eval_unary o v))
  | eval_addsub ?o ?a ?b => k (Jc_of_Z0 _ (Z0_eval_addsub o a b))
  | eval_muldiv ?o ?a ?b => k (Jc_of_Z0 _ (Z0_eval_muldiv o a b))
  | eval_eq ?o ?a ?b => k (Jc_of_Z0 _ (Z0_eval_eq o a b))
  | eval_and ?a ?b => k (Jc_of_Z0 _ (Z0_eval_and a b))
  | eval_or ?a ?b => k (Jc_of_Z0 _ (Z0_eval_or a b))
  | eval_pow ?a ?b => k (Jc_of_Z0 _ (Z0_eval_pow a b))
  | arrays_get ?n ?i => k (Jc_of_Z0 _ (Z0_arrays_get n i))
  | arrays_set ?n ?i ?v => k (Jc_of_Z0 _ (Z0_arrays_set n i v))
  | arrays_create ?n ?i => k (Jc_of_Z0 _ (Z0_arrays_create n i))
  | get ?f => k (Jc_of_Z0 _ (mrel_get Z0 Z0_preorder f))
  | lift_res ?r => k (Jc_of_Z0 _ (mrel_lift_res Z0 Z0_preorder r))
  end.

Ltac er_base := first [ er_any | apply er_accept_as | apply (orel_get _ ERw_ocat) ].

(* one step.  [look] and [ert] are the lemma tables of the caller. *)
Ltac jstep look ert :=
  cbv beta zeta;
  lazymatch goal with
  | |- Jpost _ _ (bind (bind _ _) _ _) => rewrite bind_assoc_t
  | |- Jpost _ _ (bind (if ?b then _ else _) _ _) => destruct b
  | |- Jpost _ _ (bind (match ?x with _ => _ end) _ _) => destruct x
  | |- Jpost _ _ (bind (ret _) _ _) => rewrite Safety.bind_ret
  | |- Jpost _ _ (bind (get _) _ _) => rewrite StoreProofs.bind_get
  | Hwf : wf ?s, Hfn : functions ?s = [] |- Jpost ?B ?s (bind ?m ?f ?s) =>
      let HJ := fresh "HJ" in let Her := fresh "Her" in let E := fresh "E" in
      let x := fresh "x" in let s1 := fresh "s" in let Hwf1 := fresh "Hwf" in let Hfn1 := fresh "Hfn" in
      look m ltac:(fun L => pose proof (L s Hwf Hfn) as HJ);
      assert (Her : Nx m) by (first [ apply Nx_of_er; ert | ert ]);
      rewrite Safety.bind_run;
      destruct (m s) as [[x|?e ?l|?p| |] s1] eqn:E;
      [ destruct (Her s x s1 Hwf Hfn E) as [Hwf1 Hfn1];
        unfold Jpost in HJ; cbn [fst snd] in HJ;
        let H1 := fresh "H" in let H2 := fresh "H" in destruct HJ as [H1 H2];
        apply (Jpost_trans B s s1 _ _ H1 H2); clear H1 H2 E Her
      | unfold Jpost in *; cbn [fst snd] in *; jarith
      | unfold Jpost in *; cbn [fst snd] in *; jarith
      | unfold Jpost in *; cbn [fst snd] in *; jarith
      | unfold Jpost in *; cbn [fst snd] in *; jarith ]
  | |- Jpost _ _ (ret _ _) => apply Jpost_ret; jarith
  | |- Jpost _ _ (fail _ _) => apply Jpost_fail; jarith
  | |- Jpost _ _ (fail_at _ _ _) => apply Jpost_fail_at; jarith
  | |- Jpost _ _ (panic _ _) => apply Jpost_panic; jarith
  | |- Jpost _ _ (out_of_fuel _) => apply Jpost_out_of_fuel; jarith
  | |- Jpost _ _ (oracle_miss _) => apply Jpost_oracle_miss; jarith
  | |- Jpost _ _ (lift_res _ _) => apply Jpost_lift_res; jarith
  | |- Jpost _ _ ((if ?b then _ else _) _) => destruct b
  | |- Jpost _ _ ((match ?x with _ => _ end) _) => destruct x
  | Hwf : wf ?s, Hfn : functions ?s = [] |- Jpost ?B ?s (?m ?s) =>
      look m ltac:(fun L => eapply Jpost_weaken; [| apply (L s Hwf Hfn)]); jside
  end.
Ltac jrun look ert := repeat (jstep look ert).

(* ------------------------------------------------------------------ *)
(* loops: an iteration that goes on has consumed what it read *)
Lemma Jc_repeat_nx {S R} (body : S -> M (S + R)) (bo be : Z) :
  (forall acc, Nx (body acc)) ->
  (forall acc, Jc (body acc) (fun r => match r with Ok (inl _) => 0 | Ok (inr _) => bo | _ => be end)) ->
  0 <= be ->
  forall n acc, Jc (repeat_m n body acc) (ob bo be).
Proof.
  intros Her Hb Hbe. induction n as [|n IH]; intros acc s Hwf Hfn; cbn [repeat_m].
  - apply Jpost_out_of_fuel. unfold ob. exact Hbe.
  - pose proof (Hb acc s Hwf Hfn) as HJ. rewrite Safety.bind_run.
    destruct (body acc s) as [[[a|r]|e l|p| |] s1] eqn:E;
      try (unfold Jpost in *; cbn [fst snd] in *; jarith).
    + destruct (Her acc s _ s1 Hwf Hfn E) as [Hwf1 Hfn1].
      unfold Jpost in HJ; cbn [fst snd] in HJ. destruct HJ as [H1 H2].
      apply (Jpost_trans _ s s1 _ _ H1 H2). eapply Jpost_weaken; [| apply (IH a s1 Hwf1 Hfn1)]. jside.
    + unfold Jpost in *; cbn [fst snd ret] in *. jarith.
Qed.

Lemma Jc_repeat {S R} (body : S -> M (S + R)) (bo be : Z) :
  (forall acc, orel ERw (body acc)) ->
  (forall acc, Jc (body acc) (fun r => match r with Ok (inl _) => 0 | Ok (inr _) => bo | _ => be end)) ->
  0 <= be ->
  forall n acc, Jc (repeat_m n body acc) (ob bo be).
Proof. intros H. apply Jc_repeat_nx. intros acc. apply Nx_of_er, H. Qed.

(* ------------------------------------------------------------------ *)
(* expressions.  Failure costs at most EF more than the tokens consumed; a
   successful operand of tier k costs at most  KA * consumed - 6 + k. *)
Section ExprCost.
  Variable fuel : nat.
  Variable rec : M value.
  Hypothesis Her : orel ERw rec.
  Hypothesis HJrec : Jc rec (ob 0 EF).

  Ltac ert := first [ er_base | exact Her | apply er_function_call; exact Her | apply er_array_index; exact Her
                    | apply er_unary_arg; exact Her | apply er_unary; exact Her ].
  Ltac look m k := lazymatch m with rec => k HJrec | _ => jlook_base m k end.

  Lemma Jc_unary_arg : Jc (unary_number_function_arg rec) (ob (2 - 2 * KA) EF).
  Proof. intros s Hwf Hfn. unfold unary_number_function_arg. jrun look ert. Qed.

  Lemma Jc_array_index : Jc (evaluate_array_index fuel rec) (ob (3 - 2 * KA) EF).
  Proof.
    intros s Hwf Hfn. unfold evaluate_array_index.
    match goal with |- context [repeat_m fuel ?b _] => set (body := b) end.
    assert (Hbe : forall acc, orel ERw (body acc)).
    { intros acc. unfold body. cbv zeta. Safety.orel_walk ERw_ocat ltac:(first [exact Her | er_base]). }
    assert (Hb : forall acc, Jc (body acc) (fun r => match r with Ok (inl _) => 0 | Ok (inr _) => 1 | _ => EF end)).
    { intros acc s0 Hwf0 Hfn0. unfold body. jrun look ert. }
    pose proof (Jc_repeat body 1 EF Hbe Hb ltac:(unfold EF; lia) fuel) as Hloop.
    assert (Hle : forall acc, orel ERw (repeat_m fuel body acc)) by (intros acc; apply (orel_repeat _ ERw_ocat); exact Hbe).
    jrun ltac:(fun m k => lazymatch m with repeat_m fuel body ?acc => k (Hloop acc) | _ => look m k end)
         ltac:(first [apply Hle | ert]).
  Qed.

  Lemma user_fn_none name s : functions s = [] -> user_function_call rec name s = (Ok None, s).
  Proof. intros H. unfold user_function_call. rewrite bind_get, H. reflexivity. Qed.

  Lemma Jc_function_call name :
    Jc (function_call rec name) (fun r => match r with Ok (Some _) => 2 - 2 * KA | Ok None => 0 | _ => EF end).
  Proof.
    intros s Hwf Hfn. unfold function_call.
    pose (look' := 0).
    destruct (bytes_eqb name (bs "ABS"));
      [jrun ltac:(fun m k => lazymatch m with unary_number_function_arg rec => k Jc_unary_arg | _ => look m k end) ert|].
    destruct (bytes_eqb name (bs "INT"));
      [jrun ltac:(fun m k => lazymatch m with unary_number_function_arg rec => k Jc_unary_arg | _ => look m k end) ert|].
    destruct (bytes_eqb name (bs "RND"));
      [jrun ltac:(fun m k => lazymatch m with unary_number_function_arg rec => k Jc_unary_arg | _ => look m k end) ert|].
    rewrite (user_fn_none name s Hfn). unfold Jpost. cbn [fst snd]. unfold KA. lia.
  Qed.

  Ltac look2 m k :=
    lazymatch m with
    | unary_number_function_arg rec => k Jc_unary_arg
    | evaluate_array_index fuel rec => k Jc_array_index
    | function_call rec ?n => k (Jc_function_call n)
    | _ => look m k
    end.

  Lemma Jc_term : Jc (expression_term fuel rec) (ob (2 - KA) 1).
  Proof. intros s Hwf Hfn. unfold expression_term. jrun look2 ert. Qed.

  Lemma er_term' : orel ERw (expression_term fuel rec).
  Proof. apply er_term; exact Her. Qed.

  Lemma Jc_paren : Jc (parenthesized_expression fuel rec) (ob (3 - KA) 2).
  Proof.
    intros s Hwf Hfn. unfold parenthesized_expression.
    jrun ltac:(fun m k => lazymatch m with expression_term fuel rec => k Jc_term | _ => look2 m k end)
         ltac:(first [apply er_term' | ert]).
  Qed.

  Lemma Jc_unary : Jc (unary_operator fuel rec) (ob (4 - KA) EF).
  Proof.
    intros s Hwf Hfn. unfold unary_operator.
    jrun ltac:(fun m k => lazymatch m with parenthesized_expression fuel rec => k Jc_paren | _ => look2 m k end)
         ltac:(first [apply er_paren; exact Her | ert]).
  Qed.

  Lemma Jc_tier {O} (get_op : M (option O)) (operand : M value) (ap : O -> value -> value -> M value) bo :
    orel ERw get_op -> orel ERw operand -> (forall o x y, orel ERw (ap o x y)) ->
    Jc get_op (fun r => match r with Ok (Some _) => 1 - KA | _ => 1 end) ->
    Jc operand (ob bo EF) -> (forall o x y, Jc (ap o x y) (fun _ => 0)) -> bo <= 0 ->
    Jc (tier fuel get_op operand ap) (ob (bo + 1) EF).
  Proof.
    intros Eg Eo Ea Jg Jo Ja Hbo s Hwf Hfn. unfold tier.
    match goal with |- context [repeat_m fuel ?b _] => set (body := b) end.
    assert (Hbe : forall acc, orel ERw (body acc)).
    { intros acc. unfold body. Safety.orel_walk ERw_ocat ltac:(first [exact Eg | exact Eo | apply Ea | er_base]). }
    assert (Hb : forall acc, Jc (body acc) (fun r => match r with Ok (inl _) => 0 | Ok (inr _) => 1 | _ => EF end)).
    { intros acc s0 Hwf0 Hfn0. unfold body.
      jrun ltac:(fun m k => lazymatch m with get_op => k Jg | operand => k Jo | ap ?o ?x ?y => k (Ja o x y) | _ => look m k end)
           ltac:(first [exact Eg | exact Eo | apply Ea | ert]). }
    pose proof (Jc_repeat body 1 EF Hbe Hb ltac:(unfold EF; lia) fuel) as Hloop.
    assert (Hle : forall acc, orel ERw (repeat_m fuel body acc)) by (intros acc; apply (orel_repeat _ ERw_ocat); exact Hbe).
    jrun ltac:(fun m k => lazymatch m with repeat_m fuel body ?acc => k (Hloop acc) | operand => k Jo | _ => look m k end)
         ltac:(first [apply Hle | exact Eo | ert]).
  Qed.

  Lemma Jc_tier' {O} (get_op : M (option O)) (operand : M value) (ap : O -> value -> value -> M value) bo bo' :
    bo' = bo + 1 ->
    orel ERw get_op -> orel ERw operand -> (forall o x y, orel ERw (ap o x y)) ->
    Jc get_op (fun r => match r with Ok (Some _) => 1 - KA | _ => 1 end) ->
    Jc operand (ob bo EF) -> (forall o x y, Jc (ap o x y) (fun _ => 0)) -> bo <= 0 ->
    Jc (tier fuel get_op operand ap) (ob bo' EF).
  Proof. intros ->. apply Jc_tier. Qed.

  Lemma Jc_logical_or : Jc (logical_or_expression fuel rec) (ob (-1) EF).
  Proof.
    unfold logical_or_expression, logical_and_expression, equality_expression,
      plus_or_minus_expression, multiply_or_divide_expression, exponent_expression.
    assert (E6 : orel ERw (unary_operator fuel rec)) by (apply er_unary; exact Her).
    assert (Z : forall (m : M value), mrel Z0 m -> Jc m (fun _ => 0)) by (intros m; apply Jc_of_Z0).
    assert (J6 : Jc (unary_operator fuel rec) (ob (-7) EF)).
    { eapply Jc_weaken; [|exact Jc_unary]. intros r; destruct r; unfold ob, KA; lia. }
    pose (ert := 0).
    assert (E5 : orel ERw (tier fuel (accept_as TCaret tt) (unary_operator fuel rec) (fun _ : unit => eval_pow)))
      by (apply er_tier; [apply er_accept_as | exact E6 | intros; apply er_eval_pow]).
    assert (J5 : Jc (tier fuel (accept_as TCaret tt) (unary_operator fuel rec) (fun _ : unit => eval_pow)) (ob (-6) EF)).
    { apply (Jc_tier' _ _ _ (-7)); [lia | apply er_accept_as | exact E6 | intros; apply er_eval_pow | apply Jc_accept_as
                                   | exact J6 | intros; apply Z, Z0_eval_pow | lia]. }
    set (t5 := tier fuel (accept_as TCaret tt) (unary_operator fuel rec) (fun _ : unit => eval_pow)) in *.
    assert (E4 : orel ERw (tier fuel (try_next_token muldiv_of_token) t5 eval_muldiv))
      by (apply er_tier; [apply er_try | exact E5 | intros; apply er_eval_muldiv]).
    assert (J4 : Jc (tier fuel (try_next_token muldiv_of_token) t5 eval_muldiv) (ob (-5) EF)).
    { apply (Jc_tier' _ _ _ (-6)); [lia | apply er_try | exact E5 | intros; apply er_eval_muldiv | apply Jc_try
                                   | exact J5 | intros; apply Z, Z0_eval_muldiv | lia]. }
    set (t4 := tier fuel (try_next_token muldiv_of_token) t5 eval_muldiv) in *.
    assert (E3 : orel ERw (tier fuel (try_next_token addsub_of_token) t4 eval_addsub))
      by (apply er_tier; [apply er_try | exact E4 | intros; apply er_eval_addsub]).
    assert (J3 : Jc (tier fuel (try_next_token addsub_of_token) t4 eval_addsub) (ob (-4) EF)).
    { apply (Jc_tier' _ _ _ (-5)); [lia | apply er_try | exact E4 | intros; apply er_eval_addsub | apply Jc_try
                                   | exact J4 | intros; apply Z, Z0_eval_addsub | lia]. }
    set (t3 := tier fuel (try_next_token addsub_of_token) t4 eval_addsub) in *.
    assert (E2 : orel ERw (tier fuel (try_next_token eq_of_token) t3 eval_eq))
      by (apply er_tier; [apply er_try | exact E3 | intros; apply er_eval_eq]).
    assert (J2 : Jc (tier fuel (try_next_token eq_of_token) t3 eval_eq) (ob (-3) EF)).
    { apply (Jc_tier' _ _ _ (-4)); [lia | apply er_try | exact E3 | intros; apply er_eval_eq | apply Jc_try
                                   | exact J3 | intros; apply Z, Z0_eval_eq | lia]. }
    set (t2 := tier fuel (try_next_token eq_of_token) t3 eval_eq) in *.
    assert (E1 : orel ERw (tier fuel (accept_as TAnd tt) t2 (fun _ : unit => eval_and)))
      by (apply er_tier; [apply er_accept_as | exact E2 | intros; apply er_eval_and]).
    assert (J1 : Jc (tier fuel (accept_as TAnd tt) t2 (fun _ : unit => eval_and)) (ob (-2) EF)).
    { apply (Jc_tier' _ _ _ (-3)); [lia | apply er_accept_as | exact E2 | intros; apply er_eval_and | apply Jc_accept_as
                                   | exact J2 | intros; apply Z, Z0_eval_and | lia]. }
    apply (Jc_tier' _ _ _ (-2)); [lia | apply er_accept_as | exact E1 | intros; apply er_eval_or | apply Jc_accept_as
                                 | exact J1 | intros; apply Z, Z0_eval_or | lia].
  Qed.
End ExprCost.

Theorem Jc_evaluate_expression fuel : forall n, Jc (evaluate_expression fuel n) (ob (-1) EF).
Proof.
  induction fuel as [|k IH]; intros n s Hwf Hfn; cbn [evaluate_expression].
  - apply Jpost_out_of_fuel. unfold ob, EF. lia.
  - destruct (Nat.eqb n max_nesting); [apply Jpost_fail; unfold ob, EF; lia|].
    apply (Jc_logical_or k _ (er_evaluate_expression k (S n))); [|assumption|assumption].
    eapply Jc_weaken; [|exact (IH (S n))]. intros r; destruct r; unfold ob; lia.
Qed.

(* ------------------------------------------------------------------ *)
(* statements, the part that stays on the line *)

Lemma Z0_assign lv v : mrel Z0 (assign_value lv v).
Proof. unfold assign_value, maybe_warn_undeclared_array, warn, get_line_number, push_output, arrays_set, variables_set, maybe_create_default_array. zwalk. Qed.

Lemma Jc_discard : Jc discard_remaining_tokens (fun _ => 0).
Proof.
  intros s Hwf _. unfold discard_remaining_tokens. rewrite Safety.bind_run, (cur_tokens_eq s (wf_loc _ Hwf)).
  unfold modify, Jpost. cbn [fst snd].
  set (s' := set_loc _ s).
  assert (Er : zr s' = zr s) by reflexivity.
  assert (Em : zm s' = 0).
  { unfold zm, room, s'. change (cur_toks (set_loc _ s)) with (cur_toks s). cbn [loc set_loc loc_idx]. lia. }
  assert (Ei : zi s' = Z.of_nat (length (cur_toks s))) by reflexivity.
  rewrite Er, Em, Ei. unfold zm, zi, room, KA. lia.
Qed.

(* a peek whose answer the continuation depends on, and the read that follows it *)
Lemma Jpost_peek {A} (B : res A -> Z) (k : option token -> M A) s : wf s ->
  (wf (bump s) -> functions (bump s) = functions s ->
   Jpost (fun r => B r - 1) (bump s) (k (nth_error (cur_toks s) (loc_idx (loc s))) (bump s))) ->
  Jpost B s (bind peek_next_token k s).
Proof.
  intros Hwf H. rewrite Safety.bind_run, (peek_eq s (wf_loc _ Hwf)).
  apply (Jpost_trans B s (bump s) 1); [rewrite zr_bump, zm_bump; unfold KA; lia | rewrite zi_bump, zm_bump; lia|].
  apply H; [apply wf_set_reads; exact Hwf | reflexivity].
Qed.

Lemma Jpost_next_some {A} (B : res A -> Z) (k : option token -> M A) s t : wf s ->
  nth_error (cur_toks s) (loc_idx (loc s)) = Some t ->
  (wf (adv s) -> functions (adv s) = functions s -> Jpost (fun r => B r - (1 - KA)) (adv s) (k (Some t) (adv s))) ->
  Jpost B s (bind next_token k s).
Proof.
  intros Hwf Et H. rewrite Safety.bind_run, (next_token_w s Hwf), Et. fold (adv s).
  destruct (adv_facts s t Et) as (A1 & A2 & A3).
  apply (Jpost_trans B s (adv s) (1 - KA)); [rewrite A1, A2; unfold KA; lia | rewrite A3, A2; lia|].
  apply H; [|reflexivity]. unfold adv. apply wf_set_loc; [apply wf_set_reads; exact Hwf|].
  exact (wf_loc _ Hwf).
Qed.

Section StmtLine.
  Variable fuel nest : nat.

  Lemma Jc_expr : Jc (expr fuel nest) (ob (-1) EF).
  Proof. apply Jc_evaluate_expression. Qed.

  Lemma Jc_st_array_index : Jc (evaluate_array_index fuel (expr fuel nest)) (ob (3 - 2 * KA) EF).
  Proof.
    apply Jc_array_index; [apply er_expr|]. eapply Jc_weaken; [|apply Jc_expr]. intros r; destruct r; unfold ob; lia.
  Qed.

  Ltac ert :=
    first [ er_base | apply er_expr | apply er_array_index_expr | apply er_optional_index | apply er_parse_lvalue
          | apply er_assign ].
  Ltac look m k :=
    lazymatch m with
    | expr fuel nest => k Jc_expr
    | evaluate_array_index fuel (expr fuel nest) => k Jc_st_array_index
    | assign_value ?lv ?v => k (Jc_of_Z0 _ (Z0_assign lv v))
    | discard_remaining_tokens => k Jc_discard
    | _ => jlook_base m k
    end.

  Lemma Jc_optional_index : Jc (parse_optional_array_index fuel nest) (ob 1 (EF + 1)).
  Proof. intros s Hwf Hfn. unfold parse_optional_array_index. jrun look ert. Qed.

  Lemma Jc_parse_lvalue : Jc (parse_lvalue fuel nest) (ob (2 - KA) 1).
  Proof.
    intros s Hwf Hfn. unfold parse_lvalue.
    jrun ltac:(fun m k => lazymatch m with parse_optional_array_index fuel nest => k Jc_optional_index | _ => look m k end) ert.
  Qed.

  Ltac look2 m k :=
    lazymatch m with
    | parse_optional_array_index fuel nest => k Jc_optional_index
    | parse_lvalue fuel nest => k Jc_parse_lvalue
    | _ => look m k
    end.

  Lemma Jc_dim : Jc (evaluate_dim_statement fuel nest) (ob (2 - KA) 1).
  Proof. intros s Hwf Hfn. unfold evaluate_dim_statement. jrun look2 ert. Qed.

  Lemma Jc_assignment sym : Jc (evaluate_assignment_statement fuel nest sym) (ob (1 - KA) (EF + 1)).
  Proof. intros s Hwf Hfn. unfold evaluate_assignment_statement. jrun look2 ert. Qed.

  Lemma Jc_let : Jc (evaluate_let_statement fuel nest) (ob (2 - 2 * KA) 1).
  Proof.
    intros s Hwf Hfn. unfold evaluate_let_statement.
    jrun ltac:(fun m k => lazymatch m with evaluate_assignment_statement fuel nest ?y => k (Jc_assignment y) | _ => look2 m k end) ert.
  Qed.

  Lemma Jc_print : Jc (evaluate_print_statement fuel nest) (ob 1 (EF + 1)).
  Proof.
    intros s Hwf Hfn. unfold evaluate_print_statement.
    match goal with |- context [repeat_m fuel ?b _] => set (body := b) end.
    assert (Hbe : forall acc, orel ERw (body acc)).
    { intros [semi text]. unfold body. Safety.orel_walk ERw_ocat ltac:(first [apply er_expr | er_base]). }
    assert (Hb : forall acc, Jc (body acc) (fun r => match r with Ok (inl _) => 0 | Ok (inr _) => 1 | _ => EF + 1 end)).
    { intros [semi text] s0 Hwf0 Hfn0. unfold body. apply Jpost_peek; [exact Hwf0|]. intros Hwf1 Hfn1. rewrite Hfn0 in Hfn1.
      destruct (nth_error (cur_toks s0) (loc_idx (loc s0))) as [t|] eqn:Et; [|jrun look2 ert].
      assert (Et1 : nth_error (cur_toks (bump s0)) (loc_idx (loc (bump s0))) = Some t) by exact Et.
      destruct t; try solve [jrun look2 ert];
        (apply (Jpost_next_some _ _ _ _ Hwf1 Et1); intros Hwf2 Hfn2; jrun look2 ert). }
    pose proof (Jc_repeat body 1 (EF + 1) Hbe Hb ltac:(unfold EF; lia) fuel) as Hloop.
    assert (Hle : forall acc, orel ERw (repeat_m fuel body acc)) by (intros acc; apply (orel_repeat _ ERw_ocat); exact Hbe).
    jrun ltac:(fun m k => lazymatch m with repeat_m fuel body ?acc => k (Hloop acc) | _ => look2 m k end)
         ltac:(first [apply Hle | ert]).
  Qed.
End StmtLine.

(* ------------------------------------------------------------------ *)
(* tails: what runs after the cursor may have left the line costs a constant *)
Definition Kpost {A} (c : Z) (s : interp) (x : res A * interp) : Prop := zr (snd x) <= zr s + c.
Definition Kc {A} (m : M A) (c : Z) : Prop := forall s, Kpost c s (m s).

Lemma Kpost_trans {A} c c1 s s1 (x : res A * interp) : zr s1 <= zr s + c1 -> Kpost (c - c1) s1 x -> Kpost c s x.
Proof. unfold Kpost. lia. Qed.

Lemma KR_preorder : preorder (keeps reads). Proof. apply keeps_preorder. Qed.

Lemma Kc_of_keeps {A} (m : M A) : mrel (keeps reads) m -> Kc m 0.
Proof. intros H s. unfold Kpost, zr. rewrite (H s). lia. Qed.

Ltac krleaf :=
  idtac;
  lazymatch goal with
  | |- mrel _ (modify _) =>
      apply (mrel_modify (keeps reads)); intros s; unfold keeps; destruct s as [? ? ? [? ?] ? ? ? ? ? ? ? ? ? ? ? ? ? ? ?];
      cbn; repeat match goal with |- context [match ?x with _ => _ end] => destruct x end; reflexivity
  | |- mrel _ (tokens_for_line ?l) =>
      let s := fresh "s" in
      intros s; unfold tokens_for_line, keeps; destruct l; [destruct (toks_get _ (st_toks s))|]; reflexivity
  end.
Ltac krstep leaf :=
  lazymatch goal with
  | |- mrel _ (ret _) => apply (mrel_ret _ KR_preorder)
  | |- mrel _ (fail _) => apply (mrel_fail _ KR_preorder)
  | |- mrel _ (fail_at _ _) => apply (mrel_fail_at _ KR_preorder)
  | |- mrel _ (panic _) => apply (mrel_panic _ KR_preorder)
  | |- mrel _ out_of_fuel => apply (mrel_out_of_fuel _ KR_preorder)
  | |- mrel _ oracle_miss => apply (mrel_oracle_miss _ KR_preorder)
  | |- mrel _ (get _) => apply (mrel_get _ KR_preorder)
  | |- mrel _ (lift_res _) => apply (mrel_lift_res _ KR_preorder)
  | |- mrel _ (bind _ _) => apply (mrel_bind _ KR_preorder); [| intro]
  | |- mrel _ (repeat_m _ _ _) => apply (mrel_repeat _ KR_preorder); intro
  | |- mrel _ (match ?x with _ => _ end) => destruct x
  | |- mrel _ (if ?b then _ else _) => destruct b
  | |- mrel _ (let '(_, _) := ?x in _) => destruct x
  | |- mrel _ _ => solve [leaf]
  end.
Ltac krwalk := cbv zeta; repeat (krstep krleaf).

Lemma KR_set_imm ts : mrel (keeps reads) (set_and_goto_immediate_line ts).
Proof. unfold set_and_goto_immediate_line. krwalk. Qed.
Lemma KR_goto n : mrel (keeps reads) (goto_line_number n).
Proof. unfold goto_line_number. krwalk. Qed.
Lemma KR_gosub n : mrel (keeps reads) (gosub_line_number n).
Proof. unfold gosub_line_number, goto_line_number. krwalk. Qed.
Lemma KR_return : mrel (keeps reads) return_to_last_gosub.
Proof. unfold return_to_last_gosub. krwalk. Qed.
Lemma KR_program_end : mrel (keeps reads) program_end.
Proof. unfold program_end, set_and_goto_immediate_line. krwalk. Qed.
Lemma KR_break : mrel (keeps reads) break_at_current_location.
Proof.
  unfold break_at_current_location, get_line_number, push_output, program_break_at_current_location, set_and_goto_immediate_line.
  krwalk.
Qed.
Lemma KR_start_loop sym a b c : mrel (keeps reads) (start_loop sym a b c).
Proof. unfold start_loop, remove_loop_with_name, variables_set. krwalk. Qed.
Lemma KR_end_loop sym : mrel (keeps reads) (end_loop sym).
Proof. unfold end_loop, remove_loop_with_name, variables_get, variables_set. krwalk. Qed.
Lemma KR_reset_data : mrel (keeps reads) reset_data_cursor.
Proof. unfold reset_data_cursor. krwalk. Qed.
Lemma KR_define_function n a : mrel (keeps reads) (define_function n a).
Proof. unfold define_function. krwalk. Qed.
Lemma KR_next_line : mrel (keeps reads) next_line.
Proof. unfold next_line. krwalk. Qed.
Lemma KR_discard : mrel (keeps reads) discard_remaining_tokens.
Proof. unfold discard_remaining_tokens, cur_tokens. krwalk. Qed.
Lemma KR_idle : mrel (keeps reads) return_to_idle_state.
Proof. unfold return_to_idle_state. krwalk. Qed.

Lemma Kc_peek : Kc peek_next_token 1.
Proof.
  intros s. unfold peek_next_token, cur_tokens, tokens_for_line, bind, get, modify, ret, Kpost. cbn.
  destruct (loc_line (loc s)) as [n|]; [destruct (toks_get n (st_toks s))|]; cbn; unfold zr; cbn; lia.
Qed.
Lemma Kc_peek_is t : Kc (peek_is t) 1.
Proof.
  intros s. unfold peek_is. rewrite Safety.bind_run. pose proof (Kc_peek s) as H.
  destruct (peek_next_token s) as [[x|e l|p| |] s1]; exact H.
Qed.
Lemma Kc_has_next : Kc has_next_token 1.
Proof.
  intros s. unfold has_next_token. rewrite Safety.bind_run. pose proof (Kc_peek s) as H.
  destruct (peek_next_token s) as [[x|e l|p| |] s1]; exact H.
Qed.

(* [klook m k]: the tail lemma of [m] *)
Ltac klook_base m k :=
  lazymatch m with
  | peek_next_token => k Kc_peek
  | peek_is ?t => k (Kc_peek_is t)
  | has_next_token => k Kc_has_next
  | set_and_goto_immediate_line ?ts => k (Kc_of_keeps _ (KR_set_imm ts))
  | goto_line_number ?n => k (Kc_of_keeps _ (KR_goto n))
  | gosub_line_number ?n => k (Kc_of_keeps _ (KR_gosub n))
  | return_to_last_gosub => k (Kc_of_keeps _ KR_return)
  | program_end => k (Kc_of_keeps _ KR_program_end)
  | break_at_current_location => k (Kc_of_keeps _ KR_break)
  | start_loop ?s ?a ?b ?c => k (Kc_of_keeps _ (KR_start_loop s a b c))
  | end_loop ?s => k (Kc_of_keeps _ (KR_end_loop s))
  | reset_data_cursor => k (Kc_of_keeps _ KR_reset_data)
  | define_function ?n ?a => k (Kc_of_keeps _ (KR_define_function n a))
  | next_line => k (Kc_of_keeps _ KR_next_line)
  | discard_remaining_tokens => k (Kc_of_keeps _ KR_discard)
  | return_to_idle_state => k (Kc_of_keeps _ KR_idle)
  | modify ?f => k (Kc_of_keeps _ ltac:(krleaf) : Kc (modify f) 0)
  end.

Ltac karith := unfold Kpost, ret, fail, fail_at, panic, out_of_fuel, oracle_miss in *; cbn [fst snd] in *; jarith.

Ltac kstep look :=
  cbv beta iota zeta;
  lazymatch goal with
  | |- Kpost _ _ (bind (bind _ _) _ _) => rewrite bind_assoc_t
  | |- Kpost _ _ (bind (if ?b then _ else _) _ _) => destruct b
  | |- Kpost _ _ (bind (match ?x with _ => _ end) _ _) => destruct x
  | |- Kpost _ _ (bind (ret _) _ _) => rewrite Safety.bind_ret
  | |- Kpost _ _ (bind (get _) _ _) => rewrite StoreProofs.bind_get
  | |- Kpost ?c ?s (bind ?m ?f ?s) =>
      let HK := fresh "HK" in let x := fresh "x" in let s1 := fresh "s" in
      look m ltac:(fun L => pose proof (L s) as HK);
      rewrite Safety.bind_run; unfold Kpost in HK;
      destruct (m s) as [[x|?e ?l|?p| |] s1];
      [ cbn [snd] in HK; apply (Kpost_trans c _ s s1 _ HK); clear HK
      | cbn [snd] in HK; karith | cbn [snd] in HK; karith | cbn [snd] in HK; karith | cbn [snd] in HK; karith ]
  | |- Kpost _ _ ((if ?b then _ else _) _) => destruct b
  | |- Kpost _ _ ((match ?x with _ => _ end) _) => destruct x
  | |- Kpost _ _ (ret _ _) => karith
  | |- Kpost _ _ (fail _ _) => karith
  | |- Kpost _ _ (fail_at _ _ _) => karith
  | |- Kpost _ _ (panic _ _) => karith
  | |- Kpost _ _ (out_of_fuel _) => karith
  | |- Kpost _ _ (oracle_miss _) => karith
  | |- Kpost ?c ?s (?m ?s) =>
      let HK := fresh "HK" in look m ltac:(fun L => pose proof (L s) as HK); unfold Kpost in *; jarith
  end.
Ltac krun look := repeat (kstep look).

(* ------------------------------------------------------------------ *)
(* statements: total cost against the room at entry *)
Definition Spost {A} (b : Z) (s : interp) (x : res A * interp) : Prop :=
  zr (snd x) <= zr s + (KA + 1) * zm s + zi s + b.
Definition Sb {A} (m : M A) (b : Z) : Prop := forall s, wf s -> functions s = [] -> Spost b s (m s).

Lemma zi_nonneg s : 0 <= zi s. Proof. unfold zi; lia. Qed.

Lemma Spost_of_J {A} (B : res A -> Z) b s (x : res A * interp) : (forall r, B r <= b) -> Jpost B s x -> Spost b s x.
Proof.
  intros HB. unfold Jpost, Spost. destruct x as [r s']. cbn [fst snd]. pose proof (HB r).
  pose proof (zm_nonneg s). pose proof (zm_nonneg s'). pose proof (zi_nonneg s). unfold KA in *.
  destruct r; intros; lia.
Qed.

Lemma Spost_trans {A} b s s1 c (x : res A * interp) :
  zr s1 <= zr s + KA * (zm s - zm s1) + c -> zi s1 <= zi s + (zm s - zm s1) ->
  Spost (b - c) s1 x -> Spost b s x.
Proof. unfold Spost. pose proof (zm_nonneg s1). unfold KA. intros. lia. Qed.

Lemma Spost_of_K {A} b c s (x : res A * interp) : c <= b -> Kpost c s x -> Spost b s x.
Proof. unfold Spost, Kpost. pose proof (zm_nonneg s). pose proof (zi_nonneg s). unfold KA. intros. lia. Qed.

Lemma Spost_then_K {A} b b1 s s1 (x : res A * interp) :
  zr s1 <= zr s + (KA + 1) * zm s + zi s + b1 -> Kpost (b - b1) s1 x -> Spost b s x.
Proof. unfold Spost, Kpost. intros. lia. Qed.

Lemma Spost_weaken {A} b1 b2 s (x : res A * interp) : b1 <= b2 -> Spost b1 s x -> Spost b2 s x.
Proof. unfold Spost. intros. lia. Qed.

Lemma Sb_of_Jc {A} (m : M A) B b : (forall r, B r <= b) -> Jc m B -> Sb m b.
Proof. intros HB H s Hwf Hfn. eapply Spost_of_J; [exact HB | apply H; assumption]. Qed.

Ltac nonneg :=
  repeat match goal with
         | s : interp |- _ =>
             lazymatch goal with
             | H : 0 <= zm s |- _ => fail
             | _ => pose proof (zm_nonneg s); pose proof (zi_nonneg s)
             end
         end.
Ltac sarith := unfold Spost, Kpost, Jpost in *; cbn [fst snd] in *; nonneg; jarith.

(* [look]: on-line lemmas (Jc), [ert]: their Nx side, [slook]: statement lemmas (Sb), [klook]: tails *)
Ltac sstep look ert slook klook :=
  cbv beta iota zeta;
  lazymatch goal with
  | |- Spost _ _ (bind (bind _ _) _ _) => rewrite bind_assoc_t
  | |- Spost _ _ (bind (if ?b then _ else _) _ _) => destruct b
  | |- Spost _ _ (bind (match ?x with _ => _ end) _ _) => destruct x
  | |- Spost _ _ (bind (ret _) _ _) => rewrite Safety.bind_ret
  | |- Spost _ _ (bind (get _) _ _) => rewrite StoreProofs.bind_get
  | Hwf : wf ?s, Hfn : functions ?s = [] |- Spost ?b ?s (bind ?m ?f ?s) =>
      first
      [ (* an on-line step *)
        let HJ := fresh "HJ" in let Her := fresh "Her" in let E := fresh "E" in
        let x := fresh "x" in let s1 := fresh "s" in let Hwf1 := fresh "Hwf" in let Hfn1 := fresh "Hfn" in
        look m ltac:(fun L => pose proof (L s Hwf Hfn) as HJ);
        assert (Her : Nx m) by (first [ apply Nx_of_er; ert | ert ]);
        rewrite Safety.bind_run;
        destruct (m s) as [[x|?e ?l|?p| |] s1] eqn:E;
        [ destruct (Her s x s1 Hwf Hfn E) as [Hwf1 Hfn1];
          unfold Jpost in HJ; cbn [fst snd] in HJ;
          let H1 := fresh "H" in let H2 := fresh "H" in destruct HJ as [H1 H2];
          apply (Spost_trans b s s1 _ _ H1 H2); clear H1 H2 E Her
        | sarith | sarith | sarith | sarith ]
      | (* a statement that may leave the line: only a tail may follow *)
        let HS := fresh "HS" in let x := fresh "x" in let s1 := fresh "s" in
        slook m ltac:(fun L => pose proof (L s Hwf Hfn) as HS);
        rewrite Safety.bind_run; unfold Spost in HS;
        destruct (m s) as [[x|?e ?l|?p| |] s1]; cbn [snd] in HS;
        [ apply (Spost_then_K b _ s s1 _ HS); clear HS; krun klook
        | sarith | sarith | sarith | sarith ]
      | (* a tail from here on *)
        apply (Spost_of_K b b); [lia | krun klook ] ]
  | |- Spost _ _ ((if ?b then _ else _) _) => destruct b
  | |- Spost _ _ ((match ?x with _ => _ end) _) => destruct x
  | |- Spost _ _ (pair _ _) => sarith
  | |- Spost _ _ (ret _ _) => unfold Spost, ret; cbn [fst snd]; sarith
  | |- Spost _ _ (fail _ _) => unfold Spost, fail; cbn [fst snd]; sarith
  | |- Spost _ _ (fail_at _ _ _) => unfold Spost, fail_at; cbn [fst snd]; sarith
  | |- Spost _ _ (panic _ _) => unfold Spost, panic; cbn [fst snd]; sarith
  | |- Spost _ _ (out_of_fuel _) => unfold Spost, out_of_fuel; cbn [fst snd]; sarith
  | |- Spost _ _ (oracle_miss _) => unfold Spost, oracle_miss; cbn [fst snd]; sarith
  | Hwf : wf ?s, Hfn : functions ?s = [] |- Spost ?b ?s (?m ?s) =>
      first
      [ look m ltac:(fun L => eapply Spost_of_J; [| apply (L s Hwf Hfn)]); jside
      | slook m ltac:(fun L => eapply Spost_weaken; [| apply (L s Hwf Hfn)]); jarith
      | klook m ltac:(fun L => eapply Spost_of_K; [| apply (L s)]); jarith
      | apply (Spost_of_K b b); [lia | krun klook ] ]
  end.
Ltac srun look ert slook klook := repeat (sstep look ert slook klook).

(* ------------------------------------------------------------------ *)
(* the statements *)

Lemma rewind_cost t : forall i s, zr (snd (rewind_loop i t s)) <= zr s + Z.of_nat i.
Proof.
  induction i as [|i IH]; intros s; cbn [rewind_loop]; [unfold panic; cbn [snd]; lia|].
  rewrite bind_modify. rewrite Safety.bind_run.
  set (s1 := set_loc _ s). pose proof (Kc_peek_is t s1) as H. unfold Kpost in H.
  assert (E : zr s1 = zr s) by reflexivity.
  destruct (peek_is t s1) as [[b|e l|p| |] s2]; cbn [snd] in *; try lia.
  destruct b; [unfold ret; cbn [snd]; lia|]. specialize (IH s2). lia.
Qed.

Lemma await_cost s : zr (snd (rewind_program_and_await_input s)) <= zr s + zi s.
Proof.
  unfold rewind_program_and_await_input, rewind_before_token. rewrite Safety.bind_run, bind_get.
  pose proof (rewind_cost TInput (loc_idx (loc s)) s) as H.
  destruct (rewind_loop (loc_idx (loc s)) TInput s) as [[u|e l|p| |] s1]; cbn [snd] in *; unfold zi; try lia.
  unfold modify. cbn [snd]. change (zr (set_state AwaitingInput s1)) with (zr s1). lia.
Qed.

Lemma Spost_await b s : 0 <= b -> Spost b s (rewind_program_and_await_input s).
Proof. intros Hb. unfold Spost. pose proof (await_cost s). pose proof (zm_nonneg s). unfold KA. lia. Qed.

Lemma Z0_next_data : mrel Z0 next_data_element.
Proof.
  intros s. unfold next_data_element.
  destruct (data_it s) as [d|].
  - destruct (data_next _ d). cbn [snd]. destruct s; repeat split.
  - destruct (data_chunks (st_keys s) (st_toks s)); try (apply (po_refl _ Z0_preorder)).
    destruct (data_next _ _). cbn [snd]. destruct s; repeat split.
Qed.
Lemma Z0_take_input : mrel Z0 take_input. Proof. unfold take_input. zwalk. Qed.
Lemma Z0_is_else : mrel Z0 is_else_of_then_clause. Proof. unfold is_else_of_then_clause, cur_tokens. zwalk. Qed.

Lemma Nx_next_data : Nx next_data_element.
Proof.
  intros s x s1 Hwf Hfn E. pose proof (sr_next_data s Hwf) as H. pose proof (Z0_next_data s) as HZ. rewrite E in *.
  cbn [fst snd forget] in *. destruct H as [A1 _ _ _ _]. destruct HZ as (_ & _ & _ & _ & Hf). split; [exact A1 | congruence].
Qed.

Lemma Nx_discard : Nx discard_remaining_tokens.
Proof.
  intros s x s1 Hwf Hfn E. pose proof (sr_discard s Hwf) as H. rewrite E in H. cbn [fst snd forget] in H.
  destruct H as [A1 _ _ _ _]. split; [exact A1|].
  unfold discard_remaining_tokens in E. rewrite Safety.bind_run, (cur_tokens_eq s (wf_loc _ Hwf)) in E.
  unfold modify in E. injection E as _ <-. exact Hfn.
Qed.

Lemma Sb_await : Sb rewind_program_and_await_input 0.
Proof. intros s _ _. apply Spost_await. lia. Qed.

Section StmtCost.
  Variable fuel nest : nat.
  Variable rec : M unit.
  Hypothesis HSrec : Sb rec SB.

  Ltac ert :=
    first [ er_base | apply er_expr | apply er_array_index_expr | apply er_optional_index | apply er_parse_lvalue
          | apply er_assign | apply er_take_input | apply er_is_else | apply Nx_lift_res | apply Nx_next_data
          | apply Nx_discard ].
  Ltac look m k :=
    lazymatch m with
    | next_data_element => k (Jc_of_Z0 _ Z0_next_data)
    | take_input => k (Jc_of_Z0 _ Z0_take_input)
    | is_else_of_then_clause => k (Jc_of_Z0 _ Z0_is_else)
    | expr fuel nest => k (Jc_expr fuel nest)
    | parse_optional_array_index fuel nest => k (Jc_optional_index fuel nest)
    | parse_lvalue fuel nest => k (Jc_parse_lvalue fuel nest)
    | assign_value ?lv ?v => k (Jc_of_Z0 _ (Z0_assign lv v))
    | discard_remaining_tokens => k Jc_discard
    | evaluate_dim_statement fuel nest => k (Jc_dim fuel nest)
    | evaluate_print_statement fuel nest => k (Jc_print fuel nest)
    | evaluate_let_statement fuel nest => k (Jc_let fuel nest)
    | evaluate_assignment_statement fuel nest ?y => k (Jc_assignment fuel nest y)
    | _ => jlook_base m k
    end.
  Ltac slook m k := lazymatch m with rec => k HSrec end.
  Ltac klook m k := klook_base m k.

  Lemma Sb_goto_stmt : Sb evaluate_goto_statement 1.
  Proof. intros s Hwf Hfn. unfold evaluate_goto_statement. srun look ert slook klook. Qed.

  Lemma Sb_gosub_stmt : Sb evaluate_gosub_statement 1.
  Proof. intros s Hwf Hfn. unfold evaluate_gosub_statement. srun look ert slook klook. Qed.

  Lemma Sb_stmt_or_goto : Sb (statement_or_goto_line_number rec) (SB + 1).
  Proof.
    intros s Hwf Hfn. unfold statement_or_goto_line_number.
    srun look ert ltac:(fun m k => lazymatch m with evaluate_goto_statement => k Sb_goto_stmt | _ => slook m k end) klook.
  Qed.

  Lemma Sb_next_stmt : Sb evaluate_next_statement 1.
  Proof. intros s Hwf Hfn. unfold evaluate_next_statement. srun look ert slook klook. Qed.

  Lemma Sb_for : Sb (evaluate_for_statement fuel nest) 1.
  Proof. intros s Hwf Hfn. unfold evaluate_for_statement. srun look ert slook klook. Qed.

  Lemma Jc_else : Jc (b <- is_else_of_then_clause ;; if b then discard_remaining_tokens else fail EUnexpectedToken) (fun _ => 0).
  Proof. intros s Hwf Hfn. jrun look ert. Qed.

  Lemma Jc_read : Jc (evaluate_read_statement fuel nest) (ob 1 (EF + 2)).
  Proof.
    unfold evaluate_read_statement.
    match goal with |- context [repeat_m fuel ?b _] => set (body := b) end.
    assert (Hbe : forall acc, Nx (body acc)).
    { intros []. unfold body. nxwalk ltac:(first [apply Nx_of_er; ert | ert]). }
    assert (Hb : forall acc, Jc (body acc) (fun r => match r with Ok (inl _) => 0 | Ok (inr _) => 1 | _ => EF + 2 end)).
    { intros [] s0 Hwf0 Hfn0. unfold body. jrun look ert. }
    apply (Jc_repeat_nx body 1 (EF + 2) Hbe Hb). unfold EF; lia.
  Qed.

  Lemma Sb_input : Sb (evaluate_input_statement fuel nest) 1.
  Proof.
    intros s Hwf Hfn. unfold evaluate_input_statement.
    srun look ert ltac:(fun m k => lazymatch m with rewind_program_and_await_input => k Sb_await | _ => slook m k end) klook.
  Qed.

  (* DEF: the parameter list on the line, then the definition and the skipped body *)
  Definition def_skip : unit -> M (unit + unit) := fun _ : unit =>
    t <- next_token ;;
    match t with
    | None => ret (inr tt)
    | Some TColon => ret (inr tt)
    | Some _ => ret (inl tt)
    end.
  Definition def_tail (name : bytes) (args : list bytes) : M unit :=
    define_function name args ;;; repeat_m fuel def_skip tt.

  Lemma skip_cost : forall n s, wf s -> zr (snd (repeat_m n def_skip tt s)) <= zr s + KA * zm s + 1.
  Proof.
    induction n as [|n IH]; intros s Hwf; cbn [repeat_m]; [unfold out_of_fuel; cbn [snd]; pose proof (zm_nonneg s); unfold KA; lia|].
    unfold def_skip at 1. rewrite bind_assoc_t, Safety.bind_run, (next_token_w s Hwf).
    destruct (nth_error (cur_toks s) (loc_idx (loc s))) as [t|] eqn:Et.
    - fold (adv s). destruct (adv_facts s t Et) as (A1 & A2 & A3).
      assert (Hwfa : wf (adv s)) by (unfold adv; apply wf_set_loc; [apply wf_set_reads; exact Hwf | exact (wf_loc _ Hwf)]).
      pose proof (IH (adv s) Hwfa) as H. pose proof (zm_nonneg (adv s)).
      destruct t; rewrite Safety.bind_ret; cbv iota; try (rewrite A1, A2 in H; unfold KA in *; lia);
        unfold ret; cbn [snd]; rewrite A1; pose proof (zm_nonneg s); unfold KA in *; lia.
    - rewrite Safety.bind_ret. cbv iota. unfold ret. cbn [snd]. rewrite zr_bump. pose proof (zm_nonneg s). unfold KA. lia.
  Qed.

  Lemma Sb_def_tail name args : Sb (def_tail name args) 1.
  Proof.
    intros s Hwf _. unfold def_tail, Spost. rewrite Safety.bind_run.
    pose proof (sr_define_function name args s Hwf) as Hsr. pose proof (KR_define_function name args s) as Hk.
    assert (Hroom : zm (snd (define_function name args s)) = zm s /\ zi (snd (define_function name args s)) = zi s).
    { unfold define_function. rewrite bind_get. destruct (loc_line (loc s)); [|split; reflexivity].
      unfold modify. cbn [snd]. split; reflexivity. }
    destruct (define_function name args s) as [[u|e l|p| |] s1]; cbn [fst snd forget] in *; unfold keeps in Hk;
      pose proof (zm_nonneg s); pose proof (zi_nonneg s);
      try (unfold zr; rewrite Hk; unfold KA; lia).
    destruct Hsr as [Hwf1 _ _ _ _]. pose proof (skip_cost fuel s1 Hwf1) as Hsk. destruct Hroom as [R1 R2].
    rewrite R1 in Hsk. unfold zr in *. rewrite Hk in Hsk. unfold KA in *. lia.
  Qed.

  Lemma def_unfold : evaluate_def_statement fuel =
    (t <- next_token ;;
     match t with
     | Some (TSymbol name) =>
         expect_next_token TLeftParen ;;;
         args <- repeat_m fuel (fun acc : list bytes =>
                   a <- next_token ;;
                   match a with
                   | Some (TSymbol arg) =>
                       let acc' := acc ++ [arg] in
                       d <- next_token ;;
                       match d with
                       | Some TComma => ret (inl acc')
                       | Some TRightParen => ret (inr acc')
                       | _ => fail EUnexpectedToken
                       end
                   | _ => fail EUnexpectedToken
                   end) [] ;;
         expect_next_token TEquals ;;;
         def_tail name args
     | _ => fail EUnexpectedToken
     end).
  Proof. reflexivity. Qed.

  Lemma Sb_def : Sb (evaluate_def_statement fuel) 2.
  Proof.
    intros s Hwf Hfn. rewrite def_unfold.
    match goal with |- context [repeat_m fuel ?b _] => set (body := b) end.
    assert (Hbe : forall acc, orel ERw (body acc)).
    { intros acc. unfold body. cbv zeta. Safety.orel_walk ERw_ocat ltac:(first [er_base]). }
    assert (Hb : forall acc, Jc (body acc) (fun r => match r with Ok (inl _) => 0 | Ok (inr _) => 0 | _ => 1 end)).
    { intros acc s0 Hwf0 Hfn0. unfold body. jrun look ert. }
    pose proof (Jc_repeat body 0 1 Hbe Hb ltac:(lia) fuel) as Hloop.
    assert (Hle : forall acc, orel ERw (repeat_m fuel body acc)) by (intros acc; apply (orel_repeat _ ERw_ocat); exact Hbe).
    srun ltac:(fun m k => lazymatch m with repeat_m fuel body ?acc => k (Hloop acc) | _ => look m k end)
         ltac:(first [apply Hle | ert])
         ltac:(fun m k => lazymatch m with def_tail ?n ?a => k (Sb_def_tail n a) | _ => slook m k end) klook.
  Qed.

  (* IF: the scan for ELSE after a false condition *)
  Definition if_scan : unit -> M (unit + unit) := fun _ : unit =>
    t <- next_token ;;
    match t with
    | None => ret (inr tt)
    | Some TColon => discard_remaining_tokens ;;; ret (inl tt)
    | Some TElse =>
        statement_or_goto_line_number rec ;;;
        e <- peek_is TElse ;; (if e then discard_remaining_tokens else ret tt) ;;; ret (inr tt)
    | Some _ => ret (inl tt)
    end.

  Lemma Sb_if_scan : forall n, Sb (repeat_m n if_scan tt) (SB + 2).
  Proof.
    induction n as [|n IH]; intros s Hwf Hfn; cbn [repeat_m]; [unfold Spost, out_of_fuel; cbn [snd]; sarith|].
    unfold if_scan at 1.
    srun look ert
      ltac:(fun m k => lazymatch m with
                       | statement_or_goto_line_number rec => k Sb_stmt_or_goto
                       | repeat_m n if_scan tt => k IH
                       | _ => slook m k end) klook.
  Qed.

  Lemma if_unfold : evaluate_if_statement fuel nest rec =
    (c <- expr fuel nest ;;
     expect_next_token TThen ;;;
     if to_bool c then
       statement_or_goto_line_number rec ;;;
       e <- peek_is TElse ;;
       if e then discard_remaining_tokens else ret tt
     else repeat_m fuel if_scan tt).
  Proof. reflexivity. Qed.

  Lemma Sb_if : Sb (evaluate_if_statement fuel nest rec) (SB + EF).
  Proof.
    intros s Hwf Hfn. rewrite if_unfold.
    srun look ert
      ltac:(fun m k => lazymatch m with
                       | statement_or_goto_line_number rec => k Sb_stmt_or_goto
                       | repeat_m fuel if_scan tt => k (Sb_if_scan fuel)
                       | _ => slook m k end) klook.
  Qed.

  Lemma Z0_get_line_number : mrel Z0 get_line_number.
  Proof. unfold get_line_number. zwalk. Qed.

  Lemma Sb_statement_body : Sb (evaluate_statement_body fuel nest rec) SB.
  Proof.
    intros s Hwf Hfn. unfold evaluate_statement_body.
    srun ltac:(fun m k => lazymatch m with
                          | get_line_number => k (Jc_of_Z0 _ Z0_get_line_number)
                          | evaluate_read_statement fuel nest => k Jc_read
                          | _ => look m k end)
         ltac:(first [apply er_get_line_number | ert])
         ltac:(fun m k => lazymatch m with
                          | evaluate_input_statement fuel nest => k Sb_input
                          | evaluate_if_statement fuel nest rec => k Sb_if
                          | evaluate_goto_statement => k Sb_goto_stmt
                          | evaluate_gosub_statement => k Sb_gosub_stmt
                          | evaluate_for_statement fuel nest => k Sb_for
                          | evaluate_next_statement => k Sb_next_stmt
                          | evaluate_def_statement fuel => k Sb_def
                          | _ => slook m k end)
         klook.
  Qed.
End StmtCost.

Theorem Sb_evaluate_statement fuel : forall n, Sb (evaluate_statement fuel n) SB.
Proof.
  induction fuel as [|k IH]; intros n s Hwf Hfn; cbn [evaluate_statement].
  - unfold Spost, out_of_fuel. cbn [snd]. sarith.
  - destruct (Nat.eqb n max_nesting); [unfold Spost, fail; cbn [snd]; sarith|].
    apply Sb_statement_body; [apply IH | assumption | assumption].
Qed.

(* one turn *)
Lemma Sb_run_next_statement fuel : Sb (run_next_statement fuel) (SB + 2).
Proof.
  intros s Hwf Hfn. unfold run_next_statement. rewrite bind_modify.
  set (s0 := set_state Running s).
  assert (Hwf0 : wf s0) by (revert Hwf; apply wf_ext; reflexivity).
  assert (Hfn0 : functions s0 = []) by exact Hfn.
  apply (Spost_weaken (SB + 2) (SB + 2) s); [lia|].
  change (Spost (SB + 2) s0 ((h <- has_next_token ;;
           (if h then evaluate_statement fuel 0 else ret tt) ;;;
           h2 <- has_next_token ;;
           if h2 then ret tt
           else n <- next_line ;; if n then ret tt else set_and_goto_immediate_line [] ;;; return_to_idle_state) s0)).
  srun ltac:(fun m k => jlook_base m k) ltac:(er_base)
       ltac:(fun m k => lazymatch m with evaluate_statement fuel 0 => k (Sb_evaluate_statement fuel 0) end)
       ltac:(fun m k => klook_base m k).
Qed.

(* ------------------------------------------------------------------ *)
(* THE WORK BOUND, in the hook counter's own terms.  [room s] = tokens left on
   the line the cursor is on, [loc_idx (loc s)] = tokens before the cursor
   (they can only cost a read when INPUT rewinds over them). *)
Local Open Scope nat_scope.

Theorem work_bound_turn fuel s : wf s -> functions s = [] ->
  reads (snd (run_next_statement fuel s)) <= reads s + 12 * room s + loc_idx (loc s) + 4.
Proof.
  intros Hwf Hfn. pose proof (Sb_run_next_statement fuel s Hwf Hfn) as H.
  unfold Spost, zr, zm, zi, KA, SB in H. lia.
Qed.

Lemma postprocess_reads {A} (x : res A * interp) : reads (snd (postprocess x)) = reads (snd x).
Proof. destruct x as [[a|e l|p| |] s]; reflexivity. Qed.

Theorem work_bound_continue fuel s : wf s -> functions s = [] -> state s = Running ->
  reads (snd (continue_evaluating fuel s)) <= reads s + 12 * room s + loc_idx (loc s) + 4.
Proof.
  intros Hwf Hfn Hst. unfold continue_evaluating. rewrite Hst, postprocess_reads. apply work_bound_turn; assumption.
Qed.

(* a line of statements typed at the prompt: the line executed is the typed one *)
Theorem work_bound_immediate fuel line ts s : wf s -> functions s = [] -> state s = Idle ->
  command_of line = None -> parse_line_number line = None -> tokenize line 0 = TokOk ts ->
  reads (snd (start_evaluating fuel line s)) <= reads s + 12 * length ts + 4.
Proof.
  intros Hwf Hfn Hidle Hc Hp Ht. unfold start_evaluating. rewrite postprocess_reads. unfold evaluate_impl.
  rewrite bind_get, Hidle, set_imm_is_modify, bind_modify, Hc, Hp, Ht, set_imm_is_modify, bind_modify.
  set (s1 := imm_reset (map fst ts) (imm_reset [] s)).
  assert (Hwf1 : wf s1).
  { unfold s1. pose proof (sr_set_imm [] s Hwf) as [A _ _ _ _]. rewrite set_imm_is_modify in A. cbn [snd modify] in A.
    pose proof (sr_set_imm (map fst ts) _ A) as [B _ _ _ _]. rewrite set_imm_is_modify in B. exact B. }
  assert (Hfn1 : functions s1 = []) by (unfold s1, imm_reset; destruct s; cbn in *; destruct breakpoint; cbn; exact Hfn).
  assert (Hr : reads s1 = reads s) by (unfold s1, imm_reset; destruct s; cbn; destruct breakpoint; reflexivity).
  assert (Hroom : room s1 = length ts).
  { unfold room, cur_toks, s1, imm_reset. destruct s; cbn. destruct breakpoint; cbn; rewrite map_length, Nat.sub_0_r; reflexivity. }
  assert (Hidx : loc_idx (loc s1) = 0) by (unfold s1, imm_reset; destruct s; cbn; destruct breakpoint; reflexivity).
  pose proof (work_bound_turn fuel s1 Hwf1 Hfn1) as H. rewrite Hr, Hroom, Hidx in H. lia.
Qed.

(* RUN: the function table is emptied by RUN itself; the line executed is the
   first stored line ([lim]: the longest token list in the interpreter) *)
Lemma run_from_first_facts s : exists s1,
  run_from_first_numbered_line s = (Ok tt, s1) /\ functions s1 = [] /\ reads s1 = reads s
  /\ loc_idx (loc s1) = 0 /\ st_toks s1 = st_toks s /\ immediate s1 = [].
Proof.
  eexists. split.
  - unfold run_from_first_numbered_line, reset_runtime_state, reset_data_cursor, program_end, set_and_goto_immediate_line,
      bind, modify. cbn. reflexivity.
  - unfold store_first. destruct s as [tk ks ? ? bp ? ? ? ? ? ? ? ? ? ? ? ? ? ?]. cbn.
    destruct bp; cbn; destruct ks; cbn; repeat split.
Qed.

Theorem work_bound_run fuel line s : wf s -> state s = Idle -> command_of line = Some CRun ->
  reads (snd (start_evaluating fuel line s)) <= reads s + 12 * lim s + 4.
Proof.
  intros Hwf Hidle Hc. unfold start_evaluating. rewrite postprocess_reads. unfold evaluate_impl.
  rewrite bind_get, Hidle, set_imm_is_modify, bind_modify, Hc. unfold process_command.
  rewrite !bind_modify.
  set (s0 := set_arrays [] (set_variables [] (set_input None (imm_reset [] s)))).
  assert (Hwf0 : wf s0).
  { pose proof (sr_set_imm [] s Hwf) as [A _ _ _ _]. rewrite set_imm_is_modify in A. cbn [snd modify] in A.
    unfold s0. revert A. generalize (imm_reset [] s). intros s' [W1 W2 W3 W4 W5 W6 W7 W8]. split; try assumption.
    cbn. constructor. }
  destruct (run_from_first_facts s0) as (s1 & E & Hfn1 & Hr1 & Hi1 & Ht1 & Him1).
  pose proof (sr_run_from_first s0 Hwf0) as Hsr. rewrite E in Hsr. cbn [fst snd forget] in Hsr. destruct Hsr as [Hwf1 _ _ _ _].
  rewrite Safety.bind_run, E.
  pose proof (work_bound_turn fuel s1 Hwf1 Hfn1) as H. pose proof (room_lim s1) as Hl.
  assert (Hlim : lim s1 <= lim s).
  { unfold lim. rewrite Ht1, Him1. unfold s0, imm_reset. destruct s; cbn. destruct breakpoint; cbn; lia. }
  assert (Hr0 : reads s0 = reads s) by (unfold s0, imm_reset; destruct s; cbn; destruct breakpoint; reflexivity).
  rewrite Hi1, Hr1, Hr0 in H. lia.
Qed.

(* CONT: the line executed is the one the breakpoint is on *)
Lemma imm_reset_some ts s p : breakpoint s = Some p -> imm_reset ts s = set_loc imm0 (set_immediate ts s).
Proof. intros H. unfold imm_reset. rewrite H. reflexivity. Qed.

Theorem work_bound_cont fuel line s n i ts : wf s -> functions s = [] -> state s = Idle ->
  command_of line = Some CCont -> breakpoint s = Some (n, i) -> toks_get n (st_toks s) = Some ts ->
  reads (snd (start_evaluating fuel line s)) <= reads s + 12 * (length ts - i) + i + 4.
Proof.
  intros Hwf Hfn Hidle Hc Hbp Hts. unfold start_evaluating. rewrite postprocess_reads. unfold evaluate_impl.
  rewrite bind_get, Hidle, set_imm_is_modify, bind_modify, Hc. unfold process_command.
  set (s0 := imm_reset [] s).
  assert (E0 : s0 = set_loc imm0 (set_immediate [] s)) by (apply (imm_reset_some [] s _ Hbp)).
  assert (Hwf0 : wf s0).
  { pose proof (sr_set_imm [] s Hwf) as [A _ _ _ _]. rewrite set_imm_is_modify in A. exact A. }
  assert (Hbp0 : breakpoint s0 = Some (n, i)) by (rewrite E0; destruct s; exact Hbp).
  pose proof (sr_continue_bp s0 Hwf0) as Hsr.
  rewrite Safety.bind_run.
  assert (Ec : continue_from_breakpoint s0 =
               (Ok tt, set_breakpoint None (set_loc (loc_of_numbered (n, i)) (set_loc imm0 (set_immediate [] s0))))).
  { unfold continue_from_breakpoint. rewrite set_imm_is_modify, bind_modify, (imm_reset_some [] s0 _ Hbp0), bind_get.
    replace (breakpoint (set_loc imm0 (set_immediate [] s0))) with (Some (n, i)) by (rewrite <- Hbp0; destruct s0; reflexivity).
    reflexivity. }
  rewrite Ec in *. cbn [fst snd forget] in Hsr. destruct Hsr as [Hwf1 _ _ _ _].
  set (s1 := set_breakpoint None _) in *.
  assert (Hfn1 : functions s1 = []) by (unfold s1; rewrite E0; destruct s; exact Hfn).
  assert (Hr1 : reads s1 = reads s) by (unfold s1; rewrite E0; destruct s; reflexivity).
  assert (Hroom : room s1 = length ts - i).
  { unfold room, cur_toks, s1. rewrite E0. destruct s; cbn in *. rewrite Hts. reflexivity. }
  assert (Hidx : loc_idx (loc s1) = i) by (unfold s1; rewrite E0; destruct s; reflexivity).
  pose proof (work_bound_turn fuel s1 Hwf1 Hfn1) as H. rewrite Hr1, Hroom, Hidx in H. exact H.
Qed.
