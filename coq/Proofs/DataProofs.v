(* Proofs/DataProofs.v — C12 (second sentence): whitespace around DATA items
   is insignificant.

   The DATA / INPUT item parser (Model/Data.v, data.rs:78-201) is a
   character-level state machine.  Results:

     dp_run_n_irrelevant   the item list does not depend on the byte counter
     dp_run_cur_eq         leading blanks of the pending item are irrelevant
     dp_blank_leading      a blank at the START of an item (after the keyword,
                           after a comma, before an opening quote, after a
                           closing quote) changes no item
     dp_blank_trailing     a blank BEFORE a comma, the terminating colon or the
                           end of the text changes no item
     dp_run_app            prefix congruence: the parser state after a prefix
     data_blank            the two facts, anywhere in a text
     parse_data_blank      the same for [parse_data] on bytes (ASCII blank
                           inserted on a character boundary)                     *)
From Coq Require Import List NArith ZArith Bool Lia Arith.
From Abasic Require Import Model.Bytes Model.Num Model.Token Model.Data.
Import ListNotations.
Local Open Scope nat_scope.

(* ------------------------------------------------------------------ *)
(* 0. white-space characters are none of the three special characters *)

Lemma char_ws_not_special w : char_ws w = true ->
  char_is w 34 = false /\ char_is w 44 = false /\ char_is w 58 = false.
Proof.
  unfold char_ws, char_is. destruct w as [|x [|y r]]; try (intros; repeat split; reflexivity).
  cbn [code_point]. intros H. repeat split.
  - destruct (N.eqb_spec x 34) as [->|]; [vm_compute in H; discriminate|reflexivity].
  - destruct (N.eqb_spec x 44) as [->|]; [vm_compute in H; discriminate|reflexivity].
  - destruct (N.eqb_spec x 58) as [->|]; [vm_compute in H; discriminate|reflexivity].
Qed.

(* ------------------------------------------------------------------ *)
(* 1. drop_ws / trim_chars algebra *)

Lemma all_ws_app a b : all_ws (a ++ b) = all_ws a && all_ws b.
Proof. unfold all_ws. apply forallb_app. Qed.

Lemma drop_ws_all a : all_ws a = true -> drop_ws a = [].
Proof.
  induction a as [|c r IH]; cbn [all_ws forallb drop_ws]; [reflexivity|].
  intros H. apply andb_true_iff in H as [H1 H2]. rewrite H1. apply IH, H2.
Qed.

Lemma drop_ws_nil_all a : drop_ws a = [] -> all_ws a = true.
Proof.
  induction a as [|c r IH]; cbn [all_ws forallb drop_ws]; [reflexivity|].
  destruct (char_ws c); [intros H; apply IH, H|discriminate].
Qed.

Lemma drop_ws_app a b :
  drop_ws (a ++ b) = if all_ws a then drop_ws b else drop_ws a ++ b.
Proof.
  induction a as [|c r IH]; cbn [all_ws forallb drop_ws app]; [reflexivity|].
  destruct (char_ws c); cbn [andb]; [exact IH|reflexivity].
Qed.

Definition cur_eq (c1 c2 : list uchar) : Prop := drop_ws c1 = drop_ws c2.

Lemma cur_eq_all_ws c1 c2 : cur_eq c1 c2 -> all_ws c1 = all_ws c2.
Proof.
  unfold cur_eq. intros H.
  destruct (all_ws c1) eqn:E1.
  - symmetry. apply drop_ws_nil_all. rewrite <- H. apply drop_ws_all, E1.
  - destruct (all_ws c2) eqn:E2; [|reflexivity].
    rewrite (drop_ws_all c2 E2) in H. apply drop_ws_nil_all in H. congruence.
Qed.

Lemma cur_eq_snoc c1 c2 c : cur_eq c1 c2 -> cur_eq (c1 ++ [c]) (c2 ++ [c]).
Proof.
  intros H. pose proof (cur_eq_all_ws _ _ H) as Ha. unfold cur_eq in *.
  rewrite !drop_ws_app, Ha, H. reflexivity.
Qed.

Lemma cur_eq_trim c1 c2 : cur_eq c1 c2 -> trim_chars c1 = trim_chars c2.
Proof. unfold cur_eq, trim_chars. intros ->. reflexivity. Qed.

Lemma cur_eq_elem c1 c2 : cur_eq c1 c2 -> elem_unquoted c1 = elem_unquoted c2.
Proof. intros H. unfold elem_unquoted. rewrite (cur_eq_trim _ _ H). reflexivity. Qed.

Lemma cur_eq_ws_snoc cur w : char_ws w = true -> all_ws cur = true -> cur_eq (cur ++ [w]) cur.
Proof.
  intros Hw Hc. unfold cur_eq. rewrite drop_ws_app, Hc. cbn [drop_ws]. rewrite Hw.
  symmetry. apply drop_ws_all, Hc.
Qed.

Lemma trim_chars_ws_snoc cur w : char_ws w = true -> trim_chars (cur ++ [w]) = trim_chars cur.
Proof.
  intros Hw. unfold trim_chars. rewrite drop_ws_app.
  destruct (all_ws cur) eqn:E.
  - cbn [drop_ws]. rewrite Hw, (drop_ws_all cur E). reflexivity.
  - rewrite rev_app_distr. cbn [rev app drop_ws]. rewrite Hw. reflexivity.
Qed.

Lemma elem_unquoted_ws_snoc cur w : char_ws w = true -> elem_unquoted (cur ++ [w]) = elem_unquoted cur.
Proof. intros Hw. unfold elem_unquoted. rewrite (trim_chars_ws_snoc _ _ Hw). reflexivity. Qed.

Lemma all_ws_ws_snoc cur w : char_ws w = true -> all_ws (cur ++ [w]) = all_ws cur.
Proof. intros Hw. rewrite all_ws_app. cbn [all_ws forallb]. rewrite Hw. now rewrite !andb_true_r. Qed.

(* ------------------------------------------------------------------ *)
(* 2. the item list does not depend on the byte counter, nor on leading
      blanks of the pending unquoted item *)

Lemma dp_run_n_irrelevant : forall cs q cur elems n m,
  fst (dp_run cs q cur elems n) = fst (dp_run cs q cur elems m).
Proof.
  induction cs as [|c cs IH]; intros q cur elems n m; cbn [dp_run]; [reflexivity|].
  destruct q.
  - destruct (char_is c 34); apply IH.
  - destruct (char_is c 58); [reflexivity|].
    destruct (char_is c 44); [destruct (all_ws cur); apply IH|].
    destruct (char_is c 34); [destruct (all_ws cur); apply IH|apply IH].
Qed.

Lemma dp_finish_cur_eq c1 c2 elems : cur_eq c1 c2 -> dp_finish false c1 elems = dp_finish false c2 elems.
Proof.
  intros H. unfold dp_finish. rewrite (cur_eq_all_ws _ _ H), (cur_eq_elem _ _ H). reflexivity.
Qed.

Lemma dp_run_cur_eq : forall cs c1 c2 elems n m, cur_eq c1 c2 ->
  fst (dp_run cs false c1 elems n) = fst (dp_run cs false c2 elems m).
Proof.
  induction cs as [|c cs IH]; intros c1 c2 elems n m H; cbn [dp_run fst].
  - apply dp_finish_cur_eq, H.
  - destruct (char_is c 58); [cbn [fst]; apply dp_finish_cur_eq, H|].
    rewrite (cur_eq_all_ws _ _ H), (cur_eq_elem _ _ H).
    destruct (char_is c 44).
    { destruct (all_ws c2); [apply IH, H|apply dp_run_n_irrelevant]. }
    destruct (char_is c 34).
    { destruct (all_ws c2); [apply dp_run_n_irrelevant|apply IH, cur_eq_snoc, H]. }
    apply IH, cur_eq_snoc, H.
Qed.

(* ------------------------------------------------------------------ *)
(* 3. the two blank-insensitivity facts, on an arbitrary parser state *)

(* a blank where an item starts *)
Lemma dp_blank_leading w cs cur elems n m :
  char_ws w = true -> all_ws cur = true ->
  fst (dp_run (w :: cs) false cur elems n) = fst (dp_run cs false cur elems m).
Proof.
  intros Hw Hc. destruct (char_ws_not_special w Hw) as (H34 & H44 & H58).
  cbn [dp_run]. rewrite H58, H44, H34. apply dp_run_cur_eq, cur_eq_ws_snoc; assumption.
Qed.

(* what follows is a comma, the terminating colon, or nothing *)
Definition sep_next (cs : list uchar) : bool :=
  match cs with
  | [] => true
  | c :: _ => char_is c 44 || char_is c 58
  end.

Lemma dp_finish_ws_snoc cur w elems : char_ws w = true ->
  dp_finish false (cur ++ [w]) elems = dp_finish false cur elems.
Proof.
  intros Hw. unfold dp_finish. rewrite (all_ws_ws_snoc _ _ Hw), (elem_unquoted_ws_snoc _ _ Hw). reflexivity.
Qed.

Lemma dp_blank_trailing w cs cur elems n m :
  char_ws w = true -> sep_next cs = true ->
  fst (dp_run (w :: cs) false cur elems n) = fst (dp_run cs false cur elems m).
Proof.
  intros Hw Hs. destruct (char_ws_not_special w Hw) as (H34 & H44 & H58).
  cbn [dp_run]. rewrite H58, H44, H34.
  destruct cs as [|c cs]; cbn [dp_run fst].
  - apply dp_finish_ws_snoc, Hw.
  - cbn [sep_next] in Hs. destruct (char_is c 58); [cbn [fst]; apply dp_finish_ws_snoc, Hw|].
    rewrite orb_false_r in Hs. rewrite Hs.
    rewrite (all_ws_ws_snoc _ _ Hw), (elem_unquoted_ws_snoc _ _ Hw).
    destruct (all_ws cur) eqn:Ea; [|apply dp_run_n_irrelevant].
    apply dp_run_cur_eq, cur_eq_ws_snoc; assumption.
Qed.

(* ------------------------------------------------------------------ *)
(* 4. prefix congruence *)

Definition dstate := (bool * list uchar * list data_elem)%type.

(* the parser state after a prefix; [None] when a terminating colon was met *)
Fixpoint dp_steps (cs : list uchar) (q : bool) (cur : list uchar) (elems : list data_elem) : option dstate :=
  match cs with
  | [] => Some (q, cur, elems)
  | c :: cs' =>
    if q then
      if char_is c 34 then dp_steps cs' false [] (elems ++ [elem_quoted cur])
      else dp_steps cs' true (cur ++ [c]) elems
    else if char_is c 58 then None
    else if char_is c 44 then
      if all_ws cur then dp_steps cs' false cur elems
      else dp_steps cs' false [] (elems ++ [elem_unquoted cur])
    else if char_is c 34 then
      if all_ws cur then dp_steps cs' true [] elems
      else dp_steps cs' false (cur ++ [c]) elems
    else dp_steps cs' false (cur ++ [c]) elems
  end.

Lemma dp_run_app : forall cs1 cs2 q cur elems n,
  fst (dp_run (cs1 ++ cs2) q cur elems n) =
  match dp_steps cs1 q cur elems with
  | Some (q', cur', elems') => fst (dp_run cs2 q' cur' elems' 0)
  | None => fst (dp_run cs1 q cur elems n)
  end.
Proof.
  induction cs1 as [|c cs1 IH]; intros cs2 q cur elems n; cbn [app dp_steps].
  - apply dp_run_n_irrelevant.
  - cbn [dp_run]. destruct q.
    + destruct (char_is c 34); apply IH.
    + destruct (char_is c 58); [reflexivity|].
      destruct (char_is c 44); [destruct (all_ws cur); apply IH|].
      destruct (char_is c 34); [destruct (all_ws cur); apply IH|apply IH].
Qed.

(* ------------------------------------------------------------------ *)
(* 5. a blank anywhere an item starts or ends *)

Theorem data_blank : forall cs1 cs2 w cur elems,
  char_ws w = true ->
  dp_steps cs1 false [] [] = Some (false, cur, elems) ->       (* not inside a quoted item *)
  all_ws cur = true \/ sep_next cs2 = true ->                  (* an item starts here, or ends here *)
  fst (dp_run (cs1 ++ w :: cs2) false [] [] 0) = fst (dp_run (cs1 ++ cs2) false [] [] 0).
Proof.
  intros cs1 cs2 w cur elems Hw Hst Hpos.
  rewrite !dp_run_app, Hst.
  destruct Hpos as [H|H]; [apply dp_blank_leading|apply dp_blank_trailing]; assumption.
Qed.

(* Inside a quoted item a blank IS significant (the protected region). *)
Example blank_in_quotes_matters :
  fst (dp_run (map (fun b => [b]) [34; 97; 32; 34]%N) false [] [] 0)
  <> fst (dp_run (map (fun b => [b]) [34; 97; 34]%N) false [] [] 0).
Proof. vm_compute. discriminate. Qed.

(* ------------------------------------------------------------------ *)
(* 6. bytes: utf8_chars of a text assembled from whole characters *)

Definition whole_char (c : bytes) : Prop :=
  match c with b0 :: _ => length c = utf8_len b0 | [] => False end.

Lemma utf8_len_pos b : 1 <= utf8_len b.
Proof. unfold utf8_len. destruct (b <? 192)%N, (b <? 224)%N, (b <? 240)%N; lia. Qed.

Lemma utf8_chars_fuel_enough : forall f1 f2 s, length s <= f1 -> length s <= f2 ->
  utf8_chars_fuel f1 s = utf8_chars_fuel f2 s.
Proof.
  induction f1 as [|f1 IH]; intros f2 s H1 H2.
  - destruct s; [|cbn in H1; lia]. destruct f2; reflexivity.
  - destruct s as [|b0 r]; [destruct f2; reflexivity|].
    destruct f2 as [|f2]; [cbn in H2; lia|].
    cbn [utf8_chars_fuel]. f_equal. pose proof (utf8_len_pos b0) as Hl.
    apply IH; rewrite skipn_length; cbn [length] in *; lia.
Qed.

Lemma utf8_chars_cons c s : whole_char c -> utf8_chars (c ++ s) = c :: utf8_chars s.
Proof.
  unfold whole_char, utf8_chars. destruct c as [|b0 r]; [tauto|]. intros Hc.
  cbn [app length utf8_chars_fuel]. rewrite <- Hc.
  change (b0 :: r ++ s) with ((b0 :: r) ++ s).
  rewrite firstn_app, Nat.sub_diag, firstn_all, firstn_O, app_nil_r.
  rewrite skipn_app, Nat.sub_diag, skipn_all, skipn_O. cbn [app].
  f_equal. apply utf8_chars_fuel_enough; rewrite ?app_length; lia.
Qed.

Lemma utf8_chars_concat cs s : Forall whole_char cs -> utf8_chars (concat cs ++ s) = cs ++ utf8_chars s.
Proof.
  induction 1 as [|c cs Hc _ IH]; cbn [concat app]; [reflexivity|].
  rewrite <- app_assoc, (utf8_chars_cons c _ Hc), IH. reflexivity.
Qed.

Lemma whole_char_ascii b : (b < 128)%N -> whole_char [b].
Proof. intros H. unfold whole_char, utf8_len. cbn [length]. destruct (N.ltb_spec b 192); [reflexivity|lia]. Qed.

(* ASCII blanks of the tokenizer are white space for the item parser too *)
Lemma basic_ws_char_ws w : is_basic_ws w = true -> char_ws [w] = true /\ (w < 128)%N.
Proof.
  unfold is_basic_ws, is_ascii_ws. intros H. apply andb_true_iff in H as [H _].
  repeat (apply orb_true_iff in H as [H|H]); apply N.eqb_eq in H; subst w; split; (reflexivity || lia).
Qed.

(* [parse_data] on bytes: a space, tab, form feed or carriage return inserted
   after a prefix made of whole characters. *)
Theorem parse_data_blank : forall cs1 s2 w cur elems,
  Forall whole_char cs1 -> is_basic_ws w = true ->
  dp_steps cs1 false [] [] = Some (false, cur, elems) ->
  all_ws cur = true \/ sep_next (utf8_chars s2) = true ->
  fst (parse_data (concat cs1 ++ w :: s2)) = fst (parse_data (concat cs1 ++ s2)).
Proof.
  intros cs1 s2 w cur elems Hcs Hw Hst Hpos. destruct (basic_ws_char_ws w Hw) as [Hcw Hlt].
  unfold parse_data. rewrite !utf8_chars_concat by assumption.
  change (w :: s2) with ([w] ++ s2). rewrite (utf8_chars_cons [w] s2 (whole_char_ascii w Hlt)).
  apply (data_blank cs1 (utf8_chars s2) [w] cur elems); assumption.
Qed.

(* non-vacuity: `DATA 1 , "a" , b :` against `DATA 1,"a",b:` — every blank of
   the padded text is removable by [parse_data_blank], one at a time. *)
Example padded_equals_tight :
  fst (parse_data (bs " 1 , ""a"" , b c  : PRINT")) = fst (parse_data (bs "1,""a"",b c:PRINT")).
Proof. vm_compute. reflexivity. Qed.

Example padded_step :
  let cs1 := map (fun b => [b]) (bs "1") in
  Forall whole_char cs1 /\ dp_steps cs1 false [] [] = Some (false, cs1, [])
  /\ sep_next (utf8_chars (bs ",2")) = true.
Proof. vm_compute. repeat split; repeat constructor. Qed.
