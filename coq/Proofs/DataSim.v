(* Proofs/DataSim.v — the DATA iterator as a position in the flat list of
   DATA items (C03: READ consumes DATA items in line order, then statement
   order; C11/C14: what READ sees depends on the stored program only).

   [data_next] walks chunks (one per DATA statement, with its location); the
   reference interpreter indexes a flat list.  [dpos d] is the flat position
   of an iterator; [data_next_spec]: from a well-formed iterator the next
   item is the one at that position of the flat list, the position advances
   by one, and the iterator then stands in the chunk the item came from (the
   location a DATA TYPE MISMATCH is reported at). *)
From Coq Require Import List NArith ZArith Bool Lia.
From Abasic Require Import Model.Bytes Model.Num Model.Token Model.Data Model.State.
Import ListNotations.
Local Open Scope nat_scope.

Lemma nth_error_Some_lt {A} (l : list A) i x : nth_error l i = Some x -> i < length l.
Proof. intros H. apply nth_error_Some. rewrite H. discriminate. Qed.

Definition chunk := (location * list data_elem)%type.

(* the items with the location of their DATA statement *)
Definition flatl (cs : list chunk) : list (data_elem * location) :=
  concat (map (fun c : chunk => map (fun e => (e, fst c)) (snd c)) cs).

Definition dpos (d : data_iter) : nat := length (flatl (firstn (di_ci d) (di_chunks d))) + di_ii d.

Definition wf_it (d : data_iter) : Prop :=
  match nth_error (di_chunks d) (di_ci d) with
  | Some (_, items) => di_ii d <= length items
  | None => di_ci d = length (di_chunks d) /\ di_ii d = 0
  end.

Lemma wf_it_start cs : wf_it (mkdi cs 0 0).
Proof. unfold wf_it. cbn. destruct cs as [|[l items] cs]; cbn; [split; reflexivity | lia]. Qed.

Lemma dpos_start cs : dpos (mkdi cs 0 0) = 0.
Proof. reflexivity. Qed.

Lemma flatl_app a b : flatl (a ++ b) = flatl a ++ flatl b.
Proof. unfold flatl. rewrite map_app, concat_app. reflexivity. Qed.

Lemma flatl_split cs ci l items :
  nth_error cs ci = Some (l, items) ->
  flatl cs = flatl (firstn ci cs) ++ map (fun e => (e, l)) items ++ flatl (skipn (S ci) cs).
Proof.
  intros H. rewrite <- (firstn_skipn ci cs) at 1. rewrite flatl_app. f_equal.
  assert (E : skipn ci cs = (l, items) :: skipn (S ci) cs).
  { clear -H. revert cs H. induction ci as [|ci IH]; intros [|c cs] H; cbn in *; try discriminate.
    - inversion H. reflexivity.
    - apply IH. exact H. }
  rewrite E. unfold flatl at 1. cbn [map concat fst snd]. reflexivity.
Qed.

Lemma firstn_S_snoc {A} (l : list A) i x : nth_error l i = Some x -> firstn (S i) l = firstn i l ++ [x].
Proof.
  revert l. induction i as [|i IH]; intros [|y l] H; cbn in *; try discriminate.
  - inversion H. reflexivity.
  - rewrite (IH l H). reflexivity.
Qed.

Theorem data_next_spec : forall fuel d,
  wf_it d -> length (di_chunks d) - di_ci d < fuel ->
  let '(r, d') := data_next fuel d in
  di_chunks d' = di_chunks d /\ wf_it d'
  /\ match nth_error (flatl (di_chunks d)) (dpos d) with
     | Some (e, l) => r = Some e /\ dpos d' = S (dpos d)
                      /\ exists items, nth_error (di_chunks d) (di_ci d') = Some (l, items)
     | None => r = None /\ dpos d' = dpos d
     end.
Proof.
  induction fuel as [|fuel IH]; intros d Hwf Hf; [lia|].
  cbn [data_next]. unfold wf_it in Hwf.
  destruct (nth_error (di_chunks d) (di_ci d)) as [[l items]|] eqn:Ec.
  - destruct (nth_error items (di_ii d)) as [e|] eqn:Ei.
    + (* an item of this chunk *)
      cbn [di_chunks di_ci di_ii]. split; [reflexivity|]. split.
      { unfold wf_it. cbn [di_chunks di_ci di_ii]. rewrite Ec.
        apply nth_error_Some_lt in Ei. lia. }
      unfold dpos. cbn [di_chunks di_ci di_ii].
      rewrite (flatl_split _ _ _ _ Ec), nth_error_app2 by lia.
      replace (length (flatl (firstn (di_ci d) (di_chunks d))) + di_ii d - length (flatl (firstn (di_ci d) (di_chunks d))))
        with (di_ii d) by lia.
      rewrite nth_error_app1 by (rewrite map_length; apply nth_error_Some_lt in Ei; exact Ei).
      rewrite nth_error_map, Ei. cbn [option_map].
      split; [reflexivity|]. split; [lia|]. exists items. exact Ec.
    + (* this chunk is exhausted: on to the next *)
      assert (Hii : di_ii d = length items) by (apply nth_error_None in Ei; lia).
      set (d1 := mkdi (di_chunks d) (S (di_ci d)) 0).
      assert (Hlt : di_ci d < length (di_chunks d)) by (apply nth_error_Some_lt in Ec; exact Ec).
      assert (Hwf1 : wf_it d1).
      { unfold wf_it, d1. cbn [di_chunks di_ci di_ii].
        destruct (nth_error (di_chunks d) (S (di_ci d))) as [[l1 it1]|] eqn:E1; [lia|].
        apply nth_error_None in E1. split; [lia | reflexivity]. }
      assert (Hpos : dpos d1 = dpos d).
      { unfold dpos, d1. cbn [di_chunks di_ci di_ii].
        rewrite (firstn_S_snoc _ _ _ Ec), flatl_app, app_length. unfold flatl at 2. cbn [map concat fst snd].
        rewrite app_nil_r, map_length. lia. }
      specialize (IH d1 Hwf1). cbn [di_chunks di_ci] in IH. specialize (IH ltac:(unfold d1; cbn; lia)).
      destruct (data_next fuel d1) as [r d'].
      change (di_chunks d1) with (di_chunks d) in IH. rewrite Hpos in IH. exact IH.
  - (* past the last chunk *)
    destruct Hwf as [Hci Hii]. split; [reflexivity|]. split; [unfold wf_it; rewrite Ec; split; assumption|].
    assert (Hn : nth_error (flatl (di_chunks d)) (dpos d) = None).
    { apply nth_error_None. unfold dpos. rewrite Hci, Hii, firstn_all. lia. }
    rewrite Hn. split; reflexivity.
Qed.
