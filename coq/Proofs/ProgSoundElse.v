(* Proofs/ProgSoundElse.v — C06, whole programs WITH ELSE and INPUT.
   The theorem of Proofs/ProgSound.v without the "no ELSE" and "no INPUT"
   restrictions: if the checker accepts every line of a program that contains
   no DEF token, no run of it — the replies the host gives at INPUT included —
   fails with a syntax error, a type mismatch or a jump to an undefined line.

   What changes with ELSE:
   - a position the interpreter can come to is now ACCEPTED (the checker's walk
     over the rest of the line succeeds from it) or holds an ELSE that follows
     a THEN with no ":" in between ([ElseOK]: the statement dispatcher skips the
     rest of the line there) — [Land];
   - the end of a THEN / ELSE clause is a position AFTER which the line goes on
     as the checker saw it ([After], inductive): accepted, or an ELSE followed
     by a clause the checker accepted whose end is again such a position;
   - a false IF scans for the first ELSE: the scan is followed along the
     checker's own run over the same tokens ([ScanAt]); everything a
     non-branching statement consumes is neither ELSE nor ":" (PlainToks.v).

   What changes with INPUT:
   - INPUT without a pending reply goes back to its own token and waits; with a
     reply it stores it (or answers REENTER and goes back again).  The tokens of
     its target are expression tokens, so the scan back finds this INPUT
     ([rewind_loop_input], [rewind_await]);
   - the statement is re-executed at nesting 0 wherever it stands: the position
     of an INPUT that is the clause of an IF is a third kind of landing position
     ([InputOK]: the statement the checker accepted there, with the end of the
     clause behind it); statement-level lemmas carry the hypothesis "if the
     statement starts with INPUT, execution may stand at its start" ([tsoundES]);
   - runs are sequences of turns and [provide_input] steps ([ReachI]). *)
From Coq Require Import List NArith ZArith Bool Lia.
From Abasic Require Import Model.Bytes Model.Num Model.Token Model.Data Model.Lexer Gen.Tables
     Model.State Model.Eval Model.Interp Model.Analyzer Proofs.Monad Proofs.Frames Proofs.StoreProofs
     Proofs.Safety Proofs.Caps Proofs.ImmFrame Proofs.AnalyzerFrame Proofs.CheckSound Proofs.AnalyzerFns
     Proofs.AnalyzerSafety Proofs.AnalyzerTermination Proofs.PlainToks Proofs.ProgSound.
Import ListNotations.
Local Open Scope nat_scope.

Definition clean2_tok (t : token) : bool := match t with TInput | TDef => false | _ => true end.
Definition clean2_line (ts : list token) : bool := forallb clean2_tok ts.

(* [then_before] over a longer prefix: tokens that are not ":" keep it true *)
Lemma then_before_app pre ts :
  then_before (rev pre) = true -> forallb (fun t => negb (token_eqb t TColon)) ts = true ->
  then_before (rev (pre ++ ts)) = true.
Proof.
  revert pre. induction ts as [|t ts IH]; intros pre H Hc; [rewrite app_nil_r; exact H|].
  cbn [forallb] in Hc. apply andb_prop in Hc as [Ht Hc].
  replace (pre ++ t :: ts) with ((pre ++ [t]) ++ ts) by (rewrite <- app_assoc; reflexivity).
  apply IH; [|exact Hc]. rewrite rev_app_distr. cbn [rev app then_before].
  destruct t; try exact H; try reflexivity. discriminate Ht.
Qed.

Lemma firstn_S_nth {A} (l : list A) i t : nth_error l i = Some t -> firstn (S i) l = firstn i l ++ [t].
Proof.
  revert i. induction l as [|x l IH]; intros i H; [destruct i; discriminate|].
  destruct i as [|i]; [cbn in H; injection H as ->; reflexivity|].
  cbn [firstn app]. f_equal. apply IH. exact H.
Qed.

(* the turns of a run, with the replies the host gives while the program waits at an INPUT *)
Inductive ReachI (fi : nat) (s0 : interp) : interp -> Prop :=
| reachI_refl : ReachI fi s0 s0
| reachI_step s1 s2 : ReachI fi s0 s1 -> state s1 = Running -> continue_evaluating fi s1 = (Ok tt, s2) -> ReachI fi s0 s2
| reachI_reply s1 s2 text : ReachI fi s0 s1 -> provide_input text s1 = (Ok tt, s2) -> ReachI fi s0 s2.

Lemma ReachI_of_Reach fi s0 s : Reach fi s0 s -> ReachI fi s0 s.
Proof. intros H. induction H as [|s1 s2 _ IH Hst E]; [apply reachI_refl | exact (reachI_step fi s0 s1 s2 IH Hst E)]. Qed.

Section ProgE.
  Variable fa : nat.
  Variable ptoks : list (N * list token).
  Variable pkeys : list N.
  Hypothesis Hclean : forall n ts, toks_get n ptoks = Some ts -> nodef_line ts = true.
  Hypothesis G : forall n, toks_get n ptoks <> None -> AccAt fa ptoks pkeys (mkloc (Some n) 0).
  Hypothesis Hkeys : forall n, In n pkeys -> toks_get n ptoks <> None.

  Notation onprog := (onprog ptoks pkeys).
  Notation AccAt := (AccAt fa ptoks pkeys).

  Definition toks_at (l : location) : list token :=
    match loc_line l with
    | Some n => match toks_get n ptoks with Some ts => ts | None => [] end
    | None => []
    end.

  Lemma cur_line_onprog s : onprog s -> cur_line s = toks_at (loc s).
  Proof. intros (O1 & _ & O3). unfold cur_line, toks_at. rewrite O1, O3. reflexivity. Qed.

  Lemma clean2_at s i t : onprog s -> nth_error (cur_line s) i = Some t -> nodef_tok t = true.
  Proof.
    intros Hon Hn. rewrite (cur_line_onprog s Hon) in Hn. unfold toks_at in Hn.
    destruct (loc_line (loc s)) as [n|]; [|destruct i; discriminate].
    destruct (toks_get n ptoks) as [ts|] eqn:E; [|destruct i; discriminate].
    pose proof (Hclean n ts E) as Hc. unfold nodef_line in Hc. rewrite forallb_forall in Hc.
    apply Hc. eapply nth_error_In; eassumption.
  Qed.

  (* an ELSE where a statement would start, behind a THEN with no ":" in between:
     the dispatcher abandons the line there *)
  Definition ThenB (l : location) : Prop := then_before (rev (firstn (loc_idx l) (toks_at l))) = true.
  Definition ElseOK (l : location) : Prop :=
    (exists n, loc_line l = Some n /\ toks_get n ptoks <> None)
    /\ nth_error (toks_at l) (loc_idx l) = Some TElse /\ ThenB l.

  (* the end of a clause *)
  Inductive After : location -> Prop :=
  | After_acc l : AccAt l -> After l
  | After_else l sa acc f n sa' acc' :
      nth_error (toks_at l) (loc_idx l) = Some TElse ->
      onprog sa -> functions sa = [] -> loc sa = mkloc (loc_line l) (S (loc_idx l)) ->
      an_statement_or_goto (analyze_statement f n) (sa, acc) = (Ok tt, (sa', acc')) ->
      After (loc sa') -> After l.

  (* an INPUT that stands as the clause of an IF: the statement the checker accepted
     there (at whatever nesting), re-executed as a statement of its own when the reply comes *)
  Definition InputOK (l : location) : Prop :=
    nth_error (toks_at l) (loc_idx l) = Some TInput /\ ThenB l /\
    exists sa acc f n sa' acc', onprog sa /\ functions sa = [] /\ loc sa = l
      /\ analyze_statement f n (sa, acc) = (Ok tt, (sa', acc')) /\ After (loc sa') /\ ThenB (loc sa').

  Definition Land (l : location) : Prop := AccAt l \/ ElseOK l \/ InputOK l.

  Definition FramesL (s : interp) : Prop :=
    Forall (fun fr => Land (fr_ret fr)) (stack s) /\ Forall (fun lp => Land (lp_loc lp)) (loops s).

  (* ThenB moves forward over tokens that are not ":" *)
  Lemma ThenB_forward l l' :
    loc_line l' = loc_line l -> loc_idx l <= loc_idx l' -> ThenB l ->
    (forall q, loc_idx l <= q < loc_idx l' -> exists t, nth_error (toks_at l) q = Some t /\ token_eqb t TColon = false) ->
    ThenB l'.
  Proof.
    intros Hl Hi Hb Hq. unfold ThenB in *.
    assert (Et : toks_at l' = toks_at l) by (unfold toks_at; rewrite Hl; reflexivity). rewrite Et.
    remember (loc_idx l' - loc_idx l) as d eqn:Ed.
    assert (Ei : loc_idx l' = loc_idx l + d) by lia. rewrite Ei. rewrite Ei in Hq. clear Ei Ed Hi Et Hl.
    induction d as [|d IH]; [rewrite Nat.add_0_r; exact Hb|].
    replace (loc_idx l + S d) with (S (loc_idx l + d)) by lia.
    destruct (Hq (loc_idx l + d) ltac:(lia)) as (t & Ht & Hc).
    rewrite (firstn_S_nth _ _ _ Ht). apply then_before_app.
    - apply IH. intros q Hq'. apply Hq. lia.
    - cbn. rewrite Hc. reflexivity.
  Qed.

  (* ------------------------------------------------------------------ *)
  (* execution with the checker alongside *)
  Definition TBs (s : interp) : Prop := ThenB (loc s).

  Definition tsoundE (top : bool) (m : M unit) (a : MA unit) : Prop :=
    forall s sa acc sa' acc', R s sa -> onprog s -> FramesL s -> (top = false -> TBs s) ->
      a (sa, acc) = (Ok tt, (sa', acc')) -> After (loc sa') -> (top = true -> AccAt (loc sa')) ->
      match m s with
      | (Ok _, s') => functions s' = [] /\ FramesL s' /\ (C s' sa' \/ Land (loc s'))
      | (Err e _, _) => benign e
      | _ => True
      end.

  (* at statement level: an INPUT re-executes itself when the reply arrives, so the place
     where the statement starts has to be one where execution may stand *)
  Definition tsoundES (top : bool) (m : M unit) (a : MA unit) : Prop :=
    forall s sa acc sa' acc', R s sa -> onprog s -> FramesL s -> (top = false -> TBs s) ->
      (nth_error (cur_line s) (loc_idx (loc s)) = Some TInput -> Land (loc s)) ->
      a (sa, acc) = (Ok tt, (sa', acc')) -> After (loc sa') -> (top = true -> AccAt (loc sa')) ->
      match m s with
      | (Ok _, s') => functions s' = [] /\ FramesL s' /\ (C s' sa' \/ Land (loc s'))
      | (Err e _, _) => benign e
      | _ => True
      end.

  Lemma line_of_loc s n : onprog s -> loc_line (loc s) = Some n -> line_there s -> toks_get n ptoks <> None.
  Proof. intros (O1 & _) Hl Ht. rewrite <- O1. exact (Ht n Hl). Qed.

  (* the end of a clause the interpreter stands at, as a landing position *)
  Lemma land_of_after l : After l -> ThenB l -> Land l.
  Proof.
    intros Ha Hb. destruct Ha as [l Hacc | l sa acc f n sa' acc' Ht _ _ _ _ _]; [left; exact Hacc|].
    right. left. split; [|split; [exact Ht | exact Hb]].
    unfold toks_at in Ht. destruct (loc_line l) as [k|]; [|destruct (loc_idx l); discriminate Ht].
    exists k. split; [reflexivity|]. destruct (toks_get k ptoks); [discriminate | destruct (loc_idx l); discriminate Ht].
  Qed.

  Lemma land_here (top : bool) s sa : R s sa -> After (loc sa) -> (top = true -> AccAt (loc sa)) -> (top = false -> TBs s) -> Land (loc s).
  Proof.
    intros HR Ha Htop Htb. assert (El : loc s = loc sa) by apply HR.
    destruct top; [left; rewrite El; apply Htop; reflexivity|].
    rewrite <- El in Ha. apply (land_of_after _ Ha). apply Htb. reflexivity.
  Qed.

  Lemma next_token_bothL s sa acc : R s sa -> onprog s -> FramesL s ->
    fst (next_token s) = fst (next_token sa)
    /\ lift next_token (sa, acc) = (fst (next_token sa), (snd (next_token sa), acc))
    /\ R (snd (next_token s)) (snd (next_token sa)) /\ onprog (snd (next_token s)) /\ FramesL (snd (next_token s)).
  Proof.
    intros HR Hon Hfr. destruct (cp_next_token s sa (proj1 HR)) as (E & HC & K1 & K2).
    split; [exact E|]. split; [unfold lift; cbn [fst snd]; destruct (next_token sa); reflexivity|].
    split; [eapply R_same_rt; eassumption|].
    split; [apply (onprog_step ptoks pkeys next_token s (keeps_next_token st_toks rf_st_toks)
                     (keeps_next_token st_keys rf_st_keys) imm_next_token Hon)|].
    destruct K1 as (S1 & S2 & _). unfold FramesL. rewrite S1, S2. exact Hfr.
  Qed.

  (* reading one token that is not ":" keeps ThenB *)
  Lemma TBs_advd s t : nth_error (cur_line s) (loc_idx (loc s)) = Some t -> token_eqb t TColon = false ->
    onprog s -> TBs s -> TBs (advd s).
  Proof.
    intros Ht Hc Hon Hb. unfold TBs in *.
    apply (ThenB_forward (loc s)); [destruct s as [? ? ? [? ?] ? ? ? ? ? ? ? ? ? ? ? ? ? ? ?]; reflexivity
                                  | destruct s as [? ? ? [? ?] ? ? ? ? ? ? ? ? ? ? ? ? ? ? ?]; cbn; lia | exact Hb |].
    intros q Hq. assert (q = loc_idx (loc s)) by (destruct s as [? ? ? [? ?] ? ? ? ? ? ? ? ? ? ? ? ? ? ? ?]; cbn in *; lia). subst q.
    exists t. split; [rewrite <- (cur_line_onprog s Hon); exact Ht | exact Hc].
  Qed.

  (* ---- GOTO, GOSUB ---- *)
  Lemma tsoundE_goto (top : bool) : tsoundE top evaluate_goto_statement an_goto_or_gosub.
  Proof.
    intros s sa acc sa' acc' HR Hon Hfr Htb Ea Haft Htop.
    destruct (an_goto_inv _ _ _ _ Ea) as (x & En & -> & Eh).
    destruct (next_token_bothL s sa acc HR Hon Hfr) as (E1 & _ & HR1 & Hon1 & Hfr1).
    rewrite En in *. cbn [fst snd] in *.
    unfold evaluate_goto_statement. rewrite Safety.bind_run.
    destruct (next_token s) as [r s1]. cbn [fst snd] in *. subst r.
    assert (Eh1 : store_has (Z.to_N (f64_to_u64_sat x)) s1 = true).
    { unfold store_has in *. destruct HR1 as ((C1 & _) & _). rewrite C1. exact Eh. }
    rewrite (goto_ok s1 _ Eh1).
    split; [destruct s1; apply HR1|]. split; [destruct s1; exact Hfr1|].
    right. left. apply G. exact (store_has_line ptoks pkeys _ _ Hon1 Eh1).
  Qed.

  Lemma tsoundE_gosub (top : bool) : tsoundE top evaluate_gosub_statement an_goto_or_gosub.
  Proof.
    intros s sa acc sa' acc' HR Hon Hfr Htb Ea Haft Htop.
    destruct (an_goto_inv _ _ _ _ Ea) as (x & En & -> & Eh).
    destruct (next_token_bothL s sa acc HR Hon Hfr) as (E1 & _ & HR1 & Hon1 & Hfr1).
    unfold evaluate_gosub_statement. rewrite Safety.bind_run.
    destruct (next_token_cases s) as [[p Hp] | [Hlt Hn]]; [rewrite Hp; exact I|].
    rewrite En in *. cbn [fst snd] in *.
    destruct (next_token s) as [r s1] eqn:Ens. cbn [fst snd] in *. subst r.
    destruct (nth_error (cur_line s) (loc_idx (loc s))) as [t|] eqn:Et; [|discriminate Hn].
    injection Hn as Ht Hs1. subst t s1.
    assert (Eh1 : store_has (Z.to_N (f64_to_u64_sat x)) (advd s) = true).
    { unfold store_has in *. destruct HR1 as ((C1 & _) & _). rewrite C1. exact Eh. }
    unfold gosub_line_number. rewrite bind_get.
    destruct (Nat.eqb (length (stack (advd s))) stack_limit); [exact I|].
    rewrite bind_get, Safety.bind_run, (goto_ok (advd s) _ Eh1). unfold modify.
    split; [destruct s; apply HR1|]. split; [|right; left; apply G; exact (store_has_line ptoks pkeys _ _ Hon1 Eh1)].
    destruct Hfr1 as [F1 F2]. split; [|destruct s; exact F2].
    replace (stack (set_stack _ _)) with (stack (advd s) ++ [mkframe (loc (advd s)) []]) by (destruct s; reflexivity).
    apply Forall_app. split; [exact F1|]. constructor; [|constructor]. cbn [fr_ret].
    apply (land_here top (advd s) sa' HR1 Haft Htop).
    intros Hn1. apply (TBs_advd s (TNumber x) Et eq_refl Hon (Htb Hn1)).
  Qed.

  (* ---- RETURN, END, STOP ---- *)
  Lemma tsoundE_return (top : bool) : tsoundE top return_to_last_gosub (aret tt).
  Proof.
    intros s sa acc sa' acc' HR Hon Hfr Htb Ea Haft Htop.
    unfold return_to_last_gosub. rewrite bind_modify, bind_get.
    replace (stack (set_breakpoint None s)) with (stack s) by (destruct s; reflexivity).
    destruct (rev (stack s)) as [|fr rest] eqn:Er; [exact I|].
    unfold modify. destruct Hfr as [F1 F2].
    assert (Est : stack s = rev rest ++ [fr]).
    { rewrite <- (rev_involutive (stack s)), Er. reflexivity. }
    rewrite Est in F1. apply Forall_app in F1. destruct F1 as [F1a F1b].
    split; [destruct s; apply HR|]. split; [split; [destruct s; exact F1a | destruct s; exact F2]|].
    right. inversion F1b; subst. destruct s; assumption.
  Qed.

  Lemma onprog_of_R s sa : R s sa -> onprog s -> onprog sa.
  Proof. intros HR. apply (onprog_of_C ptoks pkeys). apply HR. Qed.

  Lemma tsoundE_end (top : bool) : tsoundE top program_end (aret tt).
  Proof.
    intros s sa acc sa' acc' HR Hon Hfr Htb Ea Haft Htop. injection Ea as <- <-.
    unfold program_end. rewrite set_imm_is_modify. unfold modify.
    pose proof (onprog_of_R s sa HR Hon) as Hona.
    split; [unfold imm_reset; destruct (breakpoint s); destruct s; apply HR|].
    split; [|right; left; replace (loc (imm_reset [] s)) with imm0 by (unfold imm_reset; destruct (breakpoint s); destruct s; reflexivity);
             apply (AccAt_imm0 fa ptoks pkeys sa Hona); apply HR].
    destruct Hfr as [F1 F2]. unfold imm_reset.
    destruct (breakpoint s); (split; [destruct s; cbn; first [exact F1 | constructor] | destruct s; exact F2]).
  Qed.

  Lemma tsoundE_stop (top : bool) : tsoundE top break_at_current_location (aret tt).
  Proof.
    intros s sa acc sa' acc' HR Hon Hfr Htb Ea Haft Htop. injection Ea as <- <-.
    unfold break_at_current_location, get_line_number, push_output, program_break_at_current_location.
    rewrite bind_modify, Safety.bind_run, bind_get. unfold ret at 1. cbv iota beta.
    rewrite bind_modify, bind_get, bind_modify, set_imm_is_modify. unfold modify.
    pose proof (onprog_of_R s sa HR Hon) as Hona.
    set (s2 := set_breakpoint _ _).
    assert (E2 : functions s2 = functions s /\ stack s2 = stack s /\ loops s2 = loops s) by (destruct s; repeat split).
    destruct E2 as (Ef & Es & El).
    split; [unfold imm_reset; destruct (breakpoint s2); destruct s2; cbn in *; rewrite Ef; apply HR|].
    split; [|right; left; replace (loc (imm_reset [] s2)) with imm0 by (unfold imm_reset; destruct (breakpoint s2); destruct s2; reflexivity);
             apply (AccAt_imm0 fa ptoks pkeys sa Hona); apply HR].
    destruct Hfr as [F1 F2]. rewrite <- Es in F1. rewrite <- El in F2. unfold imm_reset.
    destruct (breakpoint s2); (split; [destruct s2; cbn in *; first [exact F1 | constructor] | destruct s2; exact F2]).
  Qed.

  (* ---- NEXT ---- *)
  Lemma drop_loop_framesL sym s : FramesL s -> FramesL (drop_loop sym s).
  Proof.
    intros [F1 F2]. unfold drop_loop. destruct (find_loop_rev sym (loops s)) as [i|]; [|split; assumption].
    split; [destruct s; exact F1|]. replace (loops (set_loops _ s)) with (firstn i (loops s)) by (destruct s; reflexivity).
    rewrite <- (firstn_skipn i (loops s)) in F2. apply Forall_app in F2. apply F2.
  Qed.

  Lemma tsoundE_next (top : bool) : tsoundE top evaluate_next_statement an_next.
  Proof.
    intros s sa acc sa' acc' HR Hon Hfr Htb Ea Haft Htop.
    destruct (an_next_inv _ _ _ _ Ea) as (sym & En & Hty).
    destruct (next_token_bothL s sa acc HR Hon Hfr) as (E1 & _ & HR1 & Hon1 & Hfr1).
    rewrite En in *. cbn [fst snd] in *.
    unfold evaluate_next_statement. rewrite Safety.bind_run.
    destruct (next_token s) as [r s1]. cbn [fst snd] in *. subst r.
    unfold end_loop. rewrite Safety.bind_run.
    destruct (variables_get_kind sym s1 (proj1 (proj2 HR1))) as [Ev Hk]. rewrite Ev.
    destruct (match alist_get sym (variables s1) with Some v => v | None => default_value sym end) as [b|x];
      [cbn in Hk; congruence|].
    rewrite Safety.bind_run, remove_loop_eq.
    pose proof (drop_loop_framesL sym s1 Hfr1) as Hfd.
    destruct (drop_loop_fields sym s1) as (D1 & D2 & D3 & D4 & D5).
    set (s2 := drop_loop sym s1) in *.
    destruct (find_loop_rev sym (loops s1)) as [i|] eqn:Efl; [|exact I].
    destruct (nth_error (loops s1) i) as [li|] eqn:Eli; [|exact I].
    destruct (negb (bytes_eqb (lp_sym li) sym)); [exact I|]. cbv zeta.
    assert (Hli : Land (lp_loc li)).
    { destruct Hfr1 as [_ F2]. rewrite Forall_forall in F2. apply F2. eapply nth_error_In; eassumption. }
    assert (Htm : type_matches sym (VNum (f64_add x (lp_step li))) = true).
    { unfold type_matches, type_of_name in *. destruct (ends_with_dollar sym); [discriminate | reflexivity]. }
    assert (Hf2 : functions s2 = []).
    { unfold s2, drop_loop. destruct (find_loop_rev sym (loops s1)); destruct s1; apply HR1. }
    match goal with |- context [if ?c then modify _ else ret tt] => destruct c end.
    - rewrite bind_modify, variables_set_eq, Htm.
      split; [destruct s2; exact Hf2|]. split; [|right; destruct s2; exact Hli].
      destruct Hfd as [F1 F2]. split; [destruct s2; exact F1|].
      replace (loops (set_variables _ _)) with (loops s2 ++ [li]) by (destruct s2; reflexivity).
      apply Forall_app. split; [exact F2 | constructor; [exact Hli | constructor]].
    - rewrite Safety.bind_ret, variables_set_eq, Htm.
      split; [destruct s2; exact Hf2|]. split; [destruct Hfd; split; destruct s2; assumption|].
      left. destruct HR1 as ((C1 & C2 & C3 & C4) & _).
      repeat split; destruct s2; cbn in *; congruence.
  Qed.

  (* ---- FOR ---- *)
  Lemma TBs_of_PL s sa s' sa' : loc s = loc sa -> loc s' = loc sa' -> onprog sa -> PL plainT sa sa' -> TBs s -> TBs s'.
  Proof.
    intros E1 E2 Hon (P1 & P2 & P3 & P4 & P5) Hb. unfold TBs in *. rewrite E1 in Hb. rewrite E2.
    apply (ThenB_forward (loc sa)); [exact P3 | exact P4 | exact Hb|].
    intros q Hq. destruct (P5 q Hq) as (t & Ht & Hp). exists t.
    split; [|destruct t; try reflexivity; discriminate Hp].
    replace (toks_at (loc sa)) with (line_of sa); [exact Ht|].
    unfold line_of, toks_at. destruct Hon as (O1 & _ & O3). rewrite O1, O3. reflexivity.
  Qed.

  Lemma tsoundE_for (top : bool) fi f2 nest nest2 : tsoundE top (evaluate_for_statement fi nest) (an_for f2 nest2).
  Proof.
    intros s sa acc sa' acc' HR Hon Hfr Htb Ea Haft Htop.
    pose proof (sound_for fi f2 nest nest2 s sa acc HR) as Hs. rewrite Ea in Hs.
    pose proof (for_shape fi nest s) as Hsh.
    pose proof (aplp_for f2 nest2 (sa, acc) tt (sa', acc') Ea) as Hpl. cbn [fst] in Hpl.
    destruct (evaluate_for_statement fi nest s) as [[[]|e l|p| |] s']; cbn [snd] in *; try exact Hs; try exact I.
    destruct Hs as [_ HR']. destruct (Hsh s' (proj1 (proj2 (proj2 HR))) eq_refl) as [Hst Hlp].
    assert (Hland : Land (loc s')).
    { apply (land_here top s' sa' HR' Haft Htop). intros Hn1.
      apply (TBs_of_PL s sa s' sa'); [apply HR | apply HR' | exact (onprog_of_R s sa HR Hon) | exact Hpl | exact (Htb Hn1)]. }
    split; [apply HR'|]. split; [|left; apply HR'].
    destruct Hfr as [F1 F2]. split; [rewrite Hst; exact F1|].
    rewrite Forall_forall in *. intros lp Hin. destruct (Hlp lp Hin) as [H|H]; [apply F2; exact H | rewrite H; exact Hland].
  Qed.

  (* ---- INPUT ---- *)
  Lemma peek_ok s : line_there s -> peek_next_token s = (Ok (nth_error (cur_line s) (loc_idx (loc s))), bumped s).
  Proof.
    intros H. unfold peek_next_token, cur_tokens, tokens_for_line, cur_line, line_there, bind, get, modify, ret, bumped in *. cbn.
    destruct (loc_line (loc s)) as [n|]; [|reflexivity].
    destruct (toks_get n (st_toks s)) eqn:E; [reflexivity | exfalso; exact (H n eq_refl E)].
  Qed.

  (* going back to the INPUT token *)
  Lemma rewind_loop_input : forall d i s, line_there s ->
    nth_error (cur_line s) i = Some TInput ->
    (forall q, i < q -> q < i + S d -> nth_error (cur_line s) q <> Some TInput) ->
    exists s', rewind_loop (i + S d) TInput s = (Ok tt, s') /\ eq_but_reads (set_loc (mkloc (loc_line (loc s)) i) s) s'.
  Proof.
    induction d as [|d IH]; intros i s Hl Hi Hq.
    - replace (i + 1) with (S i) by lia. cbn [rewind_loop]. rewrite bind_modify.
      set (s1 := set_loc _ s).
      assert (Hl1 : line_there s1) by (unfold s1; destruct s as [? ? ? [? ?] ? ? ? ? ? ? ? ? ? ? ? ? ? ? ?]; exact Hl).
      assert (Hc1 : cur_line s1 = cur_line s) by (unfold s1; destruct s as [? ? ? [? ?] ? ? ? ? ? ? ? ? ? ? ? ? ? ? ?]; reflexivity).
      assert (Hi1 : loc_idx (loc s1) = i) by (unfold s1; destruct s; reflexivity).
      unfold peek_is. rewrite bind_assoc_t, Safety.bind_run, (peek_ok s1 Hl1), Hc1, Hi1, Hi.
      rewrite Safety.bind_ret. cbn [token_eqb]. exists (bumped s1). split; [reflexivity | apply ebr_bumped].
    - replace (i + S (S d)) with (S (i + S d)) by lia. cbn [rewind_loop]. rewrite bind_modify.
      set (s1 := set_loc _ s).
      assert (Hl1 : line_there s1) by (unfold s1; destruct s as [? ? ? [? ?] ? ? ? ? ? ? ? ? ? ? ? ? ? ? ?]; exact Hl).
      assert (Hc1 : cur_line s1 = cur_line s) by (unfold s1; destruct s as [? ? ? [? ?] ? ? ? ? ? ? ? ? ? ? ? ? ? ? ?]; reflexivity).
      assert (Hi1 : loc_idx (loc s1) = i + S d) by (unfold s1; destruct s; reflexivity).
      unfold peek_is. rewrite bind_assoc_t, Safety.bind_run, (peek_ok s1 Hl1), Hc1, Hi1.
      rewrite Safety.bind_ret.
      assert (Hne : match nth_error (cur_line s) (i + S d) with Some t => token_eqb t TInput | None => false end = false).
      { pose proof (Hq (i + S d) ltac:(lia) ltac:(lia)) as Hn.
        destruct (nth_error (cur_line s) (i + S d)) as [t|]; [|reflexivity].
        destruct t; try reflexivity. exfalso. apply Hn. reflexivity. }
      rewrite Hne.
      assert (Hlb : line_there (bumped s1)) by (destruct s1; exact Hl1).
      assert (Hcb : cur_line (bumped s1) = cur_line s) by (rewrite <- Hc1; destruct s1; reflexivity).
      destruct (IH i (bumped s1) Hlb ltac:(rewrite Hcb; exact Hi) ltac:(intros q H1 H2; rewrite Hcb; apply Hq; lia)) as (s' & E & Hebr).
      exists s'. split; [exact E|].
      eapply ebr_trans; [|exact Hebr]. unfold eq_but_reads, s1. destruct s as [? ? ? [? ?] ? ? ? ? ? ? ? ? ? ? ? ? ? ? ?]. reflexivity.
  Qed.

  Lemma rewind_await s i d : line_there s -> loc_idx (loc s) = i + S d ->
    nth_error (cur_line s) i = Some TInput ->
    (forall q, i < q -> q < i + S d -> nth_error (cur_line s) q <> Some TInput) ->
    exists s', rewind_program_and_await_input s = (Ok tt, s')
      /\ loc s' = mkloc (loc_line (loc s)) i /\ functions s' = functions s /\ stack s' = stack s /\ loops s' = loops s.
  Proof.
    intros Hl Hidx Hi Hq. unfold rewind_program_and_await_input, rewind_before_token.
    rewrite bind_assoc_t, bind_get, Hidx.
    destruct (rewind_loop_input d i s Hl Hi Hq) as (s1 & E & Hebr).
    rewrite Safety.bind_run, E. unfold modify.
    eexists. split; [reflexivity|]. unfold eq_but_reads in Hebr.
    pose proof (f_equal loc Hebr) as H1. pose proof (f_equal functions Hebr) as H2.
    pose proof (f_equal stack Hebr) as H3. pose proof (f_equal loops Hebr) as H4.
    destruct s, s1; cbn in *. repeat split; congruence.
  Qed.

  Lemma R_ext9 s s' sa : R s sa ->
    st_toks s' = st_toks s -> st_keys s' = st_keys s -> immediate s' = immediate s -> loc s' = loc s ->
    functions s' = functions s -> stack s' = stack s -> loops s' = loops s ->
    variables s' = variables s -> arrays s' = arrays s -> R s' sa.
  Proof.
    intros HR E1 E2 E3 E4 E5 E6 E7 E8 E9. apply (R_ext s); try assumption. apply (caps_inv_ext s); try assumption. apply HR.
  Qed.

  Lemma tsoundE_input (top : bool) fi f2 nest nest2 : forall s sa acc sa' acc',
    R s sa -> onprog s -> FramesL s -> line_there s ->
    loc_idx (loc s) <> 0 -> nth_error (cur_line s) (pred (loc_idx (loc s))) = Some TInput ->
    Land (mkloc (loc_line (loc s)) (pred (loc_idx (loc s)))) ->
    an_input f2 nest2 (sa, acc) = (Ok tt, (sa', acc')) ->
    match evaluate_input_statement fi nest s with
    | (Ok _, s') => functions s' = [] /\ FramesL s' /\ (C s' sa' \/ Land (loc s'))
    | (Err e _, _) => benign e
    | _ => True
    end.
  Proof.
    intros s sa acc sa' acc' HR Hon Hfr Hl Hnz Hin Hland Ea.
    assert (Hfn : functions s = []) by apply HR.
    unfold evaluate_input_statement, take_input. rewrite bind_assoc_t, bind_get.
    destruct (input s) as [text|] eqn:Ei.
    2:{ (* no reply yet: back to the INPUT token, wait *)
        rewrite Safety.bind_ret.
        destruct (rewind_await s (pred (loc_idx (loc s))) 0 Hl ltac:(lia) Hin ltac:(intros; lia)) as (s' & E & L1 & L2 & L3 & L4).
        rewrite E. split; [congruence|]. split; [unfold FramesL; rewrite L3, L4; exact Hfr | right; rewrite L1; exact Hland]. }
    rewrite bind_assoc_t, bind_modify. destruct (parse_data text) as [elems n]. rewrite Safety.bind_ret.
    set (st := set_input None s).
    assert (HRt : R st sa) by (apply (R_ext9 s); try (destruct s; reflexivity); exact HR).
    unfold an_input in Ea. unfold abind at 1 in Ea.
    pose proof (sound_parse_lvalue fi f2 nest nest2 st sa acc HRt) as Hs.
    pose proof (apl_parse_lvalue exprtok (fun t H => H) token_eqb_exprtok f2 nest2 (sa, acc)) as Hpl.
    destruct (an_parse_lvalue f2 nest2 (sa, acc)) as [[alv|? ?|?| |] [sa2 acc2]]; try discriminate Ea.
    specialize (Hpl alv (sa2, acc2) eq_refl). cbn [fst snd] in *.
    unfold log_access in Ea. injection Ea as Esa Eacc. subst sa2.
    pose proof (KS_parse_lvalue fi nest st) as Kp.
    rewrite Safety.bind_run.
    destruct (parse_lvalue fi nest st) as [[lv|e l|p| |] s2] eqn:Epl; cbn [snd] in *; try exact Hs; try exact I.
    destruct Hs as [Hsym HR2].
    destruct (Kp ltac:(destruct s; exact Hfn)) as (K1 & K2 & K3).
    assert (Hfr2 : FramesL s2).
    { unfold FramesL. rewrite K2, K3. replace (stack st) with (stack s) by (destruct s; reflexivity).
      replace (loops st) with (loops s) by (destruct s; reflexivity). exact Hfr. }
    destruct elems as [|first rest]; [exact I|].
    destruct (coerce_data (lv_sym lv) first) as [v|er l|pp| |] eqn:Ec; try exact I.
    - (* the reply fits: store it *)
      pose proof (coerce_kind' _ _ _ Ec) as Hk.
      destruct lv as [sym idx]. cbn [lv_sym] in *.
      pose proof (equiet_assign sym idx v Hk s2 sa' HR2) as Hq.
      pose proof (KS_assign (mklv sym idx) v s2) as Ka.
      rewrite Safety.bind_run.
      destruct (assign_value (mklv sym idx) v s2) as [[[]|e l|p| |] s3]; cbn [snd] in *; try exact Hq; try exact I.
      destruct Hq as [HR3 _]. destruct (Ka K1) as (A1 & A2 & A3).
      assert (Hfr3 : FramesL s3) by (unfold FramesL; rewrite A2, A3; exact Hfr2).
      destruct (match rest with [] => Nat.ltb n (length text) | _ :: _ => true end).
      + unfold push_output, modify. split; [destruct s3; exact A1|]. split; [destruct s3; exact Hfr3|].
        left. destruct HR3 as [HC3 _]. destruct s3; exact HC3.
      + unfold ret. split; [exact A1|]. split; [exact Hfr3 | left; apply HR3].
    - (* the reply does not fit: ask again, back to the INPUT token *)
      destruct er; try exact (coerce_benign _ _ _ _ Ec).
      all: try (pose proof (coerce_benign _ _ _ _ Ec) as Hb; exact Hb).
      unfold push_output. rewrite bind_modify.
      set (s3 := set_outputs _ s2).
      assert (Hloc2 : loc s2 = loc sa') by apply HR2.
      assert (Hloca : loc sa = loc s) by (symmetry; apply HR).
      destruct Hpl as (P1 & P2 & P3 & P4 & P5).
      assert (Hline : loc_line (loc s3) = loc_line (loc s)) by (unfold s3; destruct s2; cbn in *; congruence).
      assert (Hcl3 : cur_line s3 = cur_line s).
      { assert (Hont : onprog st) by (unfold st; destruct s; exact Hon).
        pose proof (onprog_step ptoks pkeys (parse_lvalue fi nest) st
                      (keeps_parse_lvalue st_toks rf_st_toks fi nest) (keeps_parse_lvalue st_keys rf_st_keys fi nest)
                      (imm_parse_lvalue fi nest) Hont) as Hon2. rewrite Epl in Hon2. cbn [snd] in Hon2.
        assert (Hon3 : onprog s3) by (unfold s3; destruct s2; exact Hon2).
        rewrite (cur_line_onprog s3 Hon3), (cur_line_onprog s Hon). unfold toks_at. rewrite Hline. reflexivity. }
      assert (Hl3 : line_there s3).
      { unfold line_there in *. rewrite Hline. intros k Hk.
        replace (st_toks s3) with (st_toks s); [exact (Hl k Hk)|].
        destruct HR2 as [(C1 & _) _]. destruct HR as [(D1 & _) _]. unfold s3. destruct s2; cbn in *. congruence. }
      set (i := pred (loc_idx (loc s))).
      assert (Hidx : exists d, loc_idx (loc s3) = i + S d).
      { exists (loc_idx (loc sa') - loc_idx (loc sa)). replace (loc s3) with (loc sa') by (unfold s3; destruct s2; cbn in *; congruence).
        rewrite Hloca in *. unfold i. lia. }
      destruct Hidx as (d & Hidx).
      destruct (rewind_await s3 i d Hl3 Hidx ltac:(rewrite Hcl3; exact Hin)) as (s4 & E & L1 & L2 & L3 & L4).
      { intros q H1 H2. rewrite Hcl3.
        assert (Hq : loc_idx (loc sa) <= q < loc_idx (loc sa')).
        { replace (loc s3) with (loc sa') in Hidx by (unfold s3; destruct s2; cbn in *; congruence). rewrite Hloca. unfold i in *. lia. }
        destruct (P5 q Hq) as (t & Ht & Hx).
        replace (line_of sa) with (cur_line s) in Ht.
        2:{ destruct HR as [(D1 & D2 & D3 & D4) _]. unfold line_of, cur_line. rewrite D1, D3, D4. reflexivity. }
        rewrite Ht. intros Habs. injection Habs as ->. discriminate Hx. }
      rewrite E.
      split; [rewrite L2; unfold s3; destruct s2; exact K1|].
      split; [unfold FramesL; rewrite L3, L4; unfold s3; destruct s2; exact Hfr2|].
      right. rewrite L1, Hline. exact Hland.
  Qed.

  (* ---- statements that keep the two cursors together and the frames alone ---- *)
  Lemma tsoundE_of_sound (top : bool) m a :
    sound (fun _ _ => True) m a -> mrel KS m -> tsoundE top m a.
  Proof.
    intros Hs Hk s sa acc sa' acc' HR Hon Hfr Htb Ea Haft Htop.
    specialize (Hs s sa acc HR). rewrite Ea in Hs. pose proof (Hk s) as K.
    destruct (m s) as [[u|e l|p| |] s']; cbn [snd] in *; try exact Hs; try exact I.
    destruct Hs as [_ HR']. destruct (K (proj1 (proj2 (proj2 HR)))) as (F1 & F2 & F3).
    split; [exact F1|]. split; [unfold FramesL; rewrite F2, F3; exact Hfr | left; apply HR'].
  Qed.

  (* the probe after a clause that has run *)
  Definition probe : M unit := e <- peek_is TElse ;; if e then discard_remaining_tokens else ret tt.

  Lemma probe_assoc {B C} (k : M B) (g : B -> M C) s :
    bind (bind (peek_is TElse) (fun e => bind (if e then discard_remaining_tokens else ret tt) (fun _ => k))) g s
    = bind probe (fun _ => bind k g) s.
  Proof.
    unfold probe, bind. destruct (peek_is TElse s) as [[e|? ?|?| |] s1]; try reflexivity.
    destruct e; [destruct (discard_remaining_tokens s1) as [[[]|? ?|?| |] s2] | unfold ret]; reflexivity.
  Qed.

  Lemma Land_end s : onprog s -> functions s = [] -> line_there s ->
    Land (mkloc (loc_line (loc s)) (length (cur_line s))).
  Proof.
    intros Hon Hfn Hlt. left. apply (AccAt_end fa ptoks pkeys s _ Hon Hfn).
    - replace (cur_line (set_loc _ s)) with (cur_line s) by (destruct s as [? ? ? [? ?] ? ? ? ? ? ? ? ? ? ? ? ? ? ? ?]; reflexivity).
      cbn [loc_idx]. apply nth_error_None. apply le_n.
    - cbn [loc_line]. intros n Hn. destruct Hon as (O1 & _). rewrite <- O1. exact (Hlt n Hn).
  Qed.

  (* after the clause: together with the checker at the clause's end, or landed somewhere *)
  Lemma probe_sound s sa : onprog s -> functions s = [] -> FramesL s ->
    (C s sa /\ functions sa = [] \/ Land (loc s)) ->
    match probe s with
    | (Ok _, s') =>
        functions s' = [] /\ FramesL s' /\ onprog s'
        /\ ((C s' (bumped sa) /\ C s sa /\ nth_error (cur_line s) (loc_idx (loc s)) <> Some TElse) \/ Land (loc s'))
    | (Err _ _, _) => False
    | _ => True
    end.
  Proof.
    intros Hon Hfn Hfr Hpos. unfold probe, peek_is. rewrite bind_assoc_t, Safety.bind_run.
    destruct (peek_cases s) as [[p Hp] | [Hp Hlt]]; rewrite Hp; [exact I|]. rewrite Safety.bind_ret.
    assert (Hb : onprog (bumped s) /\ functions (bumped s) = [] /\ FramesL (bumped s) /\ loc (bumped s) = loc s)
      by (destruct s; repeat split; first [apply Hon | exact Hfn | apply Hfr]).
    destruct Hb as (Hon' & Hfn' & Hfr' & Hloc').
    destruct (nth_error (cur_line s) (loc_idx (loc s))) as [t|] eqn:Et.
    - destruct (token_eqb t TElse) eqn:Eq.
      + (* ELSE: the rest of the line is skipped *)
        unfold discard_remaining_tokens. rewrite Safety.bind_run.
        assert (Ect : cur_tokens (bumped s) = (Ok (cur_line s), bumped s)).
        { unfold cur_tokens, tokens_for_line. rewrite bind_get. unfold cur_line, line_there in *.
          replace (loc_line (loc (bumped s))) with (loc_line (loc s)) by (destruct s; reflexivity).
          replace (st_toks (bumped s)) with (st_toks s) by (destruct s; reflexivity).
          replace (immediate (bumped s)) with (immediate s) by (destruct s; reflexivity).
          destruct (loc_line (loc s)) as [k|]; [|reflexivity].
          destruct (toks_get k (st_toks s)) eqn:Etk; [reflexivity | exfalso; exact (Hlt k eq_refl Etk)]. }
        rewrite Ect. unfold modify.
        split; [destruct s; exact Hfn|]. split; [destruct s; exact Hfr|]. split; [destruct s; exact Hon|].
        right. replace (loc (set_loc _ (bumped s))) with (mkloc (loc_line (loc s)) (length (cur_line s))) by (destruct s; reflexivity).
        apply (Land_end s Hon Hfn Hlt).
      + unfold ret. cbn [fst snd].
        split; [exact Hfn'|]. split; [exact Hfr'|]. split; [exact Hon'|].
        destruct Hpos as [[HC Hfa] | HL]; [left | right; rewrite Hloc'; exact HL].
        split; [destruct HC as (C1 & C2 & C3 & C4); repeat split; destruct s, sa; assumption|].
        split; [exact HC|]. intros E. injection E as ->. discriminate Eq.
    - unfold ret. cbn [fst snd].
      split; [exact Hfn'|]. split; [exact Hfr'|]. split; [exact Hon'|].
      destruct Hpos as [[HC Hfa] | HL]; [left | right; rewrite Hloc'; exact HL].
      split; [destruct HC as (C1 & C2 & C3 & C4); repeat split; destruct s, sa; assumption|].
      split; [exact HC | discriminate].
  Qed.

  (* the checker keeps the program and, there being no DEF, the empty function table *)
  Lemma clean_store sa : onprog sa -> CleanStore sa.
  Proof. intros (O1 & _ & O3). split; [|exact O3]. rewrite O1. exact Hclean. Qed.

  Lemma keepA {A} (a : MA A) sa acc : aofn a -> onprog sa -> functions sa = [] ->
    onprog (fst (snd (a (sa, acc)))) /\ functions (fst (snd (a (sa, acc)))) = [].
  Proof.
    intros Ha Hon Hfn. pose proof (Ha (sa, acc)) as (A1 & A2 & A3 & A4). cbn [fst] in *.
    destruct Hon as (O1 & O2 & O3).
    split; [repeat split; congruence|]. rewrite A4; [exact Hfn|]. apply clean_store. repeat split; assumption.
  Qed.

  Lemma keepM {A} (m : M A) sa : orel RFN m -> onprog sa -> functions sa = [] ->
    onprog (snd (m sa)) /\ functions (snd (m sa)) = [].
  Proof.
    intros Hm Hon Hfn. pose proof (Hm sa) as (A1 & A2 & A3 & A4).
    destruct Hon as (O1 & O2 & O3).
    split; [repeat split; congruence|]. rewrite A4; [exact Hfn|]. apply clean_store. repeat split; assumption.
  Qed.

  (* ------------------------------------------------------------------ *)
  (* one level of statements: [rec] is the interpreter's statement evaluator one level down *)
  (* the tokens of an accepted INPUT statement *)
  Lemma input_stmt_plain f2 n2 sa acc sa' acc' :
    analyze_statement f2 n2 (sa, acc) = (Ok tt, (sa', acc')) ->
    nth_error (cur_line sa) (loc_idx (loc sa)) = Some TInput -> PL plainT sa sa'.
  Proof.
    intros Ea Et. destruct f2 as [|f2]; cbn [analyze_statement] in Ea; [discriminate Ea|].
    destruct (Nat.eqb n2 max_nesting); [discriminate Ea|].
    rewrite an_statement_body_dispatch in Ea. unfold abind at 1 in Ea. unfold lift at 1 in Ea. cbn [fst snd] in Ea.
    destruct (next_token_cases sa) as [[p Hp] | [Hlt Hn]]; [rewrite Hp in Ea; discriminate Ea|].
    rewrite Hn, Et in Ea. cbn [fst snd adispatch] in Ea.
    pose proof (aplp_input f2 (S n2) (advd sa, acc) tt (sa', acc') Ea) as Hpl. cbn [fst] in Hpl.
    eapply PL_trans; [|exact Hpl]. apply (PL_step plainT sa TInput); [|reflexivity].
    replace (line_of sa) with (cur_line sa) by (unfold line_of, cur_line; reflexivity). exact Et.
  Qed.

  Section Level.
    Variable rec : M unit.
    Hypothesis Hrec : forall f n, tsoundES false rec (analyze_statement f n).
    Hypothesis Hk1 : mrel (keeps st_toks) rec.
    Hypothesis Hk2 : mrel (keeps st_keys) rec.
    Hypothesis Him : mrel IM rec.
    Hypothesis Hcaps : mrel (inv_rel caps_inv) rec.

    Lemma tsoundE_stmt_or_goto f n :
      tsoundE false (statement_or_goto_line_number rec) (an_statement_or_goto (analyze_statement f n)).
    Proof.
      intros s sa acc sa' acc' HR Hon Hfr Htb Ea Haft Htop.
      unfold statement_or_goto_line_number, an_statement_or_goto in *. unfold abind, lift in Ea. cbn [fst snd] in Ea.
      destruct (cp_peek s sa (proj1 HR)) as (E & HC & K1 & K2).
      pose proof (onprog_step ptoks pkeys peek_next_token s (keeps_peek st_toks rf_st_toks) (keeps_peek st_keys rf_st_keys) imm_peek Hon) as Hon1.
      rewrite Safety.bind_run.
      destruct (peek_cases s) as [[p Hp] | [Hp Hlt]]; [rewrite Hp; exact I|].
      rewrite Hp in *. cbn [fst snd] in *.
      destruct (peek_next_token sa) as [r' sa1]. cbn [fst snd] in *. subst r'.
      assert (HR1 : R (bumped s) sa1) by (eapply R_same_rt; eassumption).
      assert (Hfr1 : FramesL (bumped s)) by (destruct s; exact Hfr).
      assert (Htb1 : false = false -> TBs (bumped s)) by (intros H; destruct s; exact (Htb H)).
      assert (Hin : analyze_statement f n (sa1, acc) = (Ok tt, (sa', acc')) ->
                    nth_error (cur_line (bumped s)) (loc_idx (loc (bumped s))) = Some TInput -> Land (loc (bumped s))).
      { intros Ea' Hti. right. right.
        assert (Hona1 : onprog sa1) by (apply (onprog_of_R (bumped s) sa1 HR1 Hon1)).
        assert (Hl1 : loc sa1 = loc (bumped s)) by (symmetry; apply HR1).
        assert (Hcl : cur_line sa1 = cur_line (bumped s)) by (rewrite (cur_line_onprog _ Hona1), (cur_line_onprog _ Hon1), Hl1; reflexivity).
        split; [rewrite <- (cur_line_onprog _ Hon1); exact Hti|].
        split; [exact (Htb1 eq_refl)|].
        exists sa1, acc, f, n, sa', acc'.
        split; [exact Hona1|]. split; [apply HR1|]. split; [exact Hl1|]. split; [exact Ea'|]. split; [exact Haft|].
        pose proof (input_stmt_plain f n sa1 acc sa' acc' Ea' ltac:(rewrite Hcl, Hl1; exact Hti)) as Hpl.
        exact (TBs_of_PL (bumped s) sa1 sa' sa' (eq_sym Hl1) eq_refl Hona1 Hpl (Htb1 eq_refl)). }
      destruct (nth_error (cur_line s) (loc_idx (loc s))) as [t|].
      - destruct t; try exact (Hrec f n (bumped s) sa1 acc sa' acc' HR1 Hon1 Hfr1 Htb1 (Hin Ea) Ea Haft Htop).
        exact (tsoundE_goto false (bumped s) sa1 acc sa' acc' HR1 Hon1 Hfr1 Htb1 Ea Haft Htop).
      - exact (Hrec f n (bumped s) sa1 acc sa' acc' HR1 Hon1 Hfr1 Htb1 (Hin Ea) Ea Haft Htop).
    Qed.

    Lemma onprog_stmt_or_goto s : onprog s -> onprog (snd (statement_or_goto_line_number rec s)).
    Proof.
      apply (onprog_step ptoks pkeys (statement_or_goto_line_number rec) s
               (keeps_stmt_or_goto st_toks rf_st_toks rec Hk1) (keeps_stmt_or_goto st_keys rf_st_keys rec Hk2)
               (imm_stmt_or_goto rec Him)).
    Qed.

    (* ---- the scan of a false IF ---- *)
    Definition ScanOK (s : interp) : Prop :=
      forall k, match repeat_m k (scan_body rec) tt s with
                | (Ok _, s') => functions s' = [] /\ FramesL s' /\ Land (loc s')
                | (Err e _, _) => benign e
                | _ => True
                end.

    Definition GoodS (s : interp) : Prop := onprog s /\ caps_inv s /\ functions s = [] /\ FramesL s /\ TBs s.
    Definition ScanAt (l : location) : Prop := forall s, GoodS s -> loc s = l -> ScanOK s.

    Lemma GoodS_ext s s' : GoodS s ->
      st_toks s' = st_toks s -> st_keys s' = st_keys s -> immediate s' = immediate s -> loc s' = loc s ->
      functions s' = functions s -> stack s' = stack s -> loops s' = loops s ->
      variables s' = variables s -> arrays s' = arrays s -> GoodS s'.
    Proof.
      intros ((O1 & O2 & O3) & Hc & Hf & (F1 & F2) & Ht) E1 E2 E3 E4 E5 E6 E7 E8 E9.
      split; [repeat split; congruence|]. split; [apply (caps_inv_ext s); assumption|]. split; [congruence|].
      split; [unfold FramesL; rewrite E6, E7; split; assumption | unfold TBs in *; rewrite E4; exact Ht].
    Qed.

    (* the scan arrives at an ELSE behind which the checker accepted a clause *)
    Lemma scan_else l sa acc f n sa' acc' :
      nth_error (toks_at l) (loc_idx l) = Some TElse ->
      onprog sa -> functions sa = [] -> loc sa = mkloc (loc_line l) (S (loc_idx l)) ->
      an_statement_or_goto (analyze_statement f n) (sa, acc) = (Ok tt, (sa', acc')) ->
      After (loc sa') -> ScanAt l.
    Proof.
      intros Ht Hona Hfa Hla Ea Haft s (Hon & Hc & Hfn & Hfr & Htb) Hl k.
      destruct k as [|k]; [exact I|]. cbn [repeat_m]. unfold scan_body at 1. rewrite bind_assoc_t, Safety.bind_run.
      destruct (next_token_cases s) as [[p Hp] | [Hlt Hn]]; [rewrite Hp; exact I|]. rewrite Hn.
      rewrite (cur_line_onprog s Hon), Hl, Ht.
      rewrite bind_assoc_t, Safety.bind_run.
      assert (HRa : R (advd s) sa).
      { split; [|split; [apply (caps_inv_ext s); try (destruct s; reflexivity); exact Hc | split; [destruct s; exact Hfn | exact Hfa]]].
        destruct Hon as (O1 & O2 & O3), Hona as (A1 & A2 & A3).
        repeat split; try (destruct s; cbn in *; congruence). }
      assert (Hona' : onprog (advd s)) by (destruct s; exact Hon).
      assert (Hfr' : FramesL (advd s)) by (destruct s; exact Hfr).
      assert (Htb' : false = false -> TBs (advd s)).
      { intros _. apply (TBs_advd s TElse); [rewrite (cur_line_onprog s Hon), Hl; exact Ht | reflexivity | exact Hon | exact Htb]. }
      pose proof (tsoundE_stmt_or_goto f n (advd s) sa acc sa' acc' HRa Hona' Hfr' Htb' Ea Haft
                    (fun H => ltac:(discriminate H))) as H3.
      pose proof (onprog_stmt_or_goto (advd s) Hona') as Hon3.
      destruct (statement_or_goto_line_number rec (advd s)) as [[[]|e l0|p| |] s3]; cbn [snd] in *; try exact H3; try exact I.
      destruct H3 as (F3 & Fr3 & Pos3).
      rewrite probe_assoc, Safety.bind_run.
      assert (Hpos : C s3 sa' /\ functions sa' = [] \/ Land (loc s3)).
      { destruct Pos3 as [HC|HL]; [left | right; exact HL]. split; [exact HC|].
        pose proof (keepA (an_statement_or_goto (analyze_statement f n)) sa acc
                      (fn_statement_or_goto _ (fn_analyze_statement f n)) Hona Hfa) as [_ K]. rewrite Ea in K. exact K. }
      pose proof (probe_sound s3 sa' Hon3 F3 Fr3 Hpos) as H4.
      destruct (probe s3) as [[[]|e l0|p| |] s4]; try contradiction; try exact I.
      destruct H4 as (F4 & Fr4 & Hon4 & Pos4).
      rewrite Safety.bind_ret. cbv iota. unfold ret.
      split; [exact F4|]. split; [exact Fr4|].
      destruct Pos4 as [(HC4 & HC3 & Hne) | HL]; [|exact HL].
      (* no ELSE behind the clause: the checker's walk goes on from there *)
      assert (El : loc s4 = loc sa') by (destruct HC4 as (_ & _ & _ & C4); rewrite C4; destruct sa'; reflexivity).
      rewrite El. remember (loc sa') as lz eqn:Elz.
      destruct Haft as [l1 Hacc | l1 sb accb f' n' sb' accb' Ht1 _ _ _ _ _]; [left; exact Hacc|].
      exfalso. apply Hne. rewrite (cur_line_onprog s3 Hon3).
      destruct HC3 as (_ & _ & _ & C4'). rewrite C4', <- Elz. exact Ht1.
    Qed.

    (* the scan passes over tokens that are neither ELSE nor ":" *)
    Lemma scan_skip : forall d s, GoodS s ->
      (forall q, loc_idx (loc s) <= q < loc_idx (loc s) + d -> exists t, nth_error (cur_line s) q = Some t /\ plainT t = true) ->
      ScanAt (mkloc (loc_line (loc s)) (loc_idx (loc s) + d)) -> ScanOK s.
    Proof.
      induction d as [|d IH]; intros s Hg Hq Hat.
      - apply (Hat s Hg). rewrite Nat.add_0_r. destruct (loc s); reflexivity.
      - intros k. destruct k as [|k]; [exact I|]. cbn [repeat_m]. unfold scan_body at 1. rewrite bind_assoc_t, Safety.bind_run.
        destruct (next_token_cases s) as [[p Hp] | [Hlt Hn]]; [rewrite Hp; exact I|]. rewrite Hn.
        destruct (Hq (loc_idx (loc s)) ltac:(lia)) as (t & Ht & Hp). rewrite Ht.
        assert (Hg' : GoodS (advd s)).
        { destruct Hg as (Hon & Hc & Hfn & Hfr & Htb).
          split; [destruct s; exact Hon|]. split; [apply (caps_inv_ext s); try (destruct s; reflexivity); exact Hc|].
          split; [destruct s; exact Hfn|]. split; [destruct s; exact Hfr|].
          apply (TBs_advd s t Ht); [destruct t; try reflexivity; discriminate Hp | exact Hon | exact Htb]. }
        assert (Hgo : match repeat_m k (scan_body rec) tt (advd s) with
                      | (Ok _, s') => functions s' = [] /\ FramesL s' /\ Land (loc s')
                      | (Err e _, _) => benign e
                      | _ => True
                      end).
        { apply (IH (advd s) Hg').
          - intros q Hq'. replace (cur_line (advd s)) with (cur_line s) by (destruct s as [? ? ? [? ?] ? ? ? ? ? ? ? ? ? ? ? ? ? ? ?]; reflexivity).
            apply Hq. destruct s as [? ? ? [? ?] ? ? ? ? ? ? ? ? ? ? ? ? ? ? ?]; cbn in *; lia.
          - replace (mkloc (loc_line (loc (advd s))) (loc_idx (loc (advd s)) + d))
              with (mkloc (loc_line (loc s)) (loc_idx (loc s) + S d)); [exact Hat|].
            destruct s as [? ? ? [? ?] ? ? ? ? ? ? ? ? ? ? ? ? ? ? ?]; cbn. f_equal. lia. }
        destruct t; try discriminate Hp; rewrite Safety.bind_ret; exact Hgo.
    Qed.

    Lemma scan_range s sa sa' : GoodS s -> loc s = loc sa -> onprog sa -> PL plainT sa sa' -> ScanAt (loc sa') -> ScanOK s.
    Proof.
      intros Hg El Hona (P1 & P2 & P3 & P4 & P5) Hat.
      apply (scan_skip (loc_idx (loc sa') - loc_idx (loc sa)) s Hg).
      - intros q Hq. rewrite El in Hq. destruct (P5 q ltac:(lia)) as (t & Ht & Hp). exists t. split; [|exact Hp].
        rewrite (cur_line_onprog s (proj1 Hg)), El.
        replace (toks_at (loc sa)) with (line_of sa); [exact Ht|].
        unfold line_of, toks_at. destruct Hona as (O1 & _ & O3). rewrite O1, O3. reflexivity.
      - rewrite El. replace (mkloc (loc_line (loc sa)) (loc_idx (loc sa) + (loc_idx (loc sa') - loc_idx (loc sa)))) with (loc sa'); [exact Hat|].
        destruct (loc sa') as [l' i'], (loc sa) as [l0 i0]. cbn in *. subst l'. f_equal. lia.
    Qed.

    (* a ":" ends the scan: the rest of the line is discarded *)
    Lemma scan_colon s : GoodS s -> nth_error (cur_line s) (loc_idx (loc s)) = Some TColon -> ScanOK s.
    Proof.
      intros (Hon & Hc & Hfn & Hfr & Htb) Ht k.
      destruct k as [|k]; [exact I|]. cbn [repeat_m]. unfold scan_body at 1. rewrite bind_assoc_t, Safety.bind_run.
      destruct (next_token_cases s) as [[p Hp] | [Hlt Hn]]; [rewrite Hp; exact I|]. rewrite Hn, Ht.
      rewrite bind_assoc_t, Safety.bind_run. unfold discard_remaining_tokens. rewrite Safety.bind_run.
      assert (Ect : cur_tokens (advd s) = (Ok (cur_line s), advd s)).
      { unfold cur_tokens, tokens_for_line. rewrite bind_get. unfold cur_line, line_there in *.
        replace (loc_line (loc (advd s))) with (loc_line (loc s)) by (destruct s as [? ? ? [? ?] ? ? ? ? ? ? ? ? ? ? ? ? ? ? ?]; reflexivity).
        replace (st_toks (advd s)) with (st_toks s) by (destruct s; reflexivity).
        replace (immediate (advd s)) with (immediate s) by (destruct s; reflexivity).
        destruct (loc_line (loc s)) as [k0|]; [|reflexivity].
        destruct (toks_get k0 (st_toks s)) eqn:Etk; [reflexivity | exfalso; exact (Hlt k0 eq_refl Etk)]. }
      rewrite Ect. unfold modify at 1. cbv iota beta. rewrite Safety.bind_ret. cbv iota.
      set (sd := set_loc _ (advd s)).
      destruct k as [|k]; [exact I|]. cbn [repeat_m]. unfold scan_body at 1. rewrite bind_assoc_t, Safety.bind_run.
      destruct (next_token_cases sd) as [[p Hp] | [Hlt' Hn']]; [rewrite Hp; exact I|]. rewrite Hn'.
      assert (Hnone : nth_error (cur_line sd) (loc_idx (loc sd)) = None).
      { unfold sd. destruct s as [? ? ? [? ?] ? ? ? ? ? ? ? ? ? ? ? ? ? ? ?]. cbn. apply nth_error_None. apply le_n. }
      rewrite Hnone, Safety.bind_ret. cbv iota. unfold ret.
      split; [unfold sd; destruct s; exact Hfn|]. split; [unfold sd; destruct s; exact Hfr|].
      replace (loc (bumped sd)) with (mkloc (loc_line (loc s)) (length (cur_line s)))
        by (unfold sd; destruct s as [? ? ? [? ?] ? ? ? ? ? ? ? ? ? ? ? ? ? ? ?]; reflexivity).
      apply (Land_end s Hon Hfn Hlt).
    Qed.

    Lemma ScanAt_loc l l' : l = l' -> ScanAt l -> ScanAt l'.
    Proof. intros ->. exact (fun H => H). Qed.

    Lemma PL_bumped sa : PL plainT sa (bumped sa).
    Proof. apply PL_same; destruct sa; reflexivity. Qed.

    (* the ELSE frame of an IF: what stands behind the THEN clause *)
    Lemma frame_after f n sa3 acc3 sa' acc' :
      onprog sa3 -> functions sa3 = [] ->
      (e <-- lift (accept_next_token TElse) ;; if e then an_statement_or_goto (analyze_statement f n) else aret tt) (sa3, acc3)
        = (Ok tt, (sa', acc')) ->
      After (loc sa') -> ScanAt (loc sa') -> After (loc sa3) /\ ScanAt (loc sa3).
    Proof.
      intros Hon Hfn E Haft Hat. unfold abind at 1 in E. unfold lift at 1 in E. cbn [fst snd] in E.
      destruct (keepM (accept_next_token TElse) sa3 (rfn_accept TElse) Hon Hfn) as [Hon4 Hfn4].
      unfold accept_next_token in *. rewrite Safety.bind_run in *.
      destruct (peek_cases sa3) as [[p Hp] | [Hp Hlt]]; rewrite Hp in *; [discriminate E|].
      destruct (nth_error (cur_line sa3) (loc_idx (loc sa3))) as [t|] eqn:Et.
      - destruct (token_eqb t TElse) eqn:Eq.
        + assert (t = TElse) by (destruct t; try discriminate Eq; reflexivity). subst t.
          unfold advance in *. rewrite bind_modify in *. unfold ret at 1 in E. unfold ret at 1 in Hon4. unfold ret at 1 in Hfn4.
          cbn [fst snd] in *.
          set (sa4 := set_loc _ (bumped sa3)) in *.
          assert (Ht : nth_error (toks_at (loc sa3)) (loc_idx (loc sa3)) = Some TElse) by (rewrite <- (cur_line_onprog sa3 Hon); exact Et).
          assert (Hl4 : loc sa4 = mkloc (loc_line (loc sa3)) (S (loc_idx (loc sa3)))) by (unfold sa4; destruct sa3; reflexivity).
          split; [exact (After_else (loc sa3) sa4 acc3 f n sa' acc' Ht Hon4 Hfn4 Hl4 E Haft)
                 | exact (scan_else (loc sa3) sa4 acc3 f n sa' acc' Ht Hon4 Hfn4 Hl4 E Haft)].
        + unfold ret, aret in E. injection E as <- <-.
          replace (loc (bumped sa3)) with (loc sa3) in * by (destruct sa3; reflexivity). split; assumption.
      - unfold ret, aret in E. injection E as <- <-.
        replace (loc (bumped sa3)) with (loc sa3) in * by (destruct sa3; reflexivity). split; assumption.
    Qed.

    (* the scan follows the checker over one accepted statement *)
    Lemma scan_stmt : forall f2 n2 sa acc sa' acc', onprog sa -> functions sa = [] ->
      analyze_statement f2 n2 (sa, acc) = (Ok tt, (sa', acc')) -> After (loc sa') -> ScanAt (loc sa') -> ScanAt (loc sa).
    Proof.
      induction f2 as [|f2 IH]; intros n2 sa acc sa' acc' Hon Hfn Ea Haft Hat; cbn [analyze_statement] in Ea; [discriminate Ea|].
      destruct (Nat.eqb n2 max_nesting); [discriminate Ea|].
      rewrite an_statement_body_dispatch in Ea. unfold abind at 1 in Ea. unfold lift at 1 in Ea. cbn [fst snd] in Ea.
      destruct (keepM next_token sa rfn_next_token Hon Hfn) as [Hon1 Hfn1].
      destruct (next_token_cases sa) as [[p Hp] | [Hlt Hn]]; [rewrite Hp in Ea; discriminate Ea|].
      rewrite Hn in *.
      destruct (nth_error (cur_line sa) (loc_idx (loc sa))) as [t|] eqn:Et; cbn [fst snd] in *.
      2:{ (* end of the line *) cbn [adispatch] in Ea. unfold aret in Ea. injection Ea as <- <-.
          apply (ScanAt_loc (loc (bumped sa))); [destruct sa; reflexivity | exact Hat]. }
      assert (Hcl : nodef_tok t = true) by (apply (clean2_at sa _ t Hon Et)).
      assert (Hl1 : loc (advd sa) = mkloc (loc_line (loc sa)) (S (loc_idx (loc sa)))) by (destruct sa; reflexivity).
      assert (Hstep : plainT t = true -> PL plainT sa (advd sa)).
      { intros Hp. apply (PL_step plainT sa t); [|exact Hp].
        replace (line_of sa) with (cur_line sa) by (unfold line_of, cur_line; reflexivity). exact Et. }
      destruct (plain_head (Some t)) eqn:Hph.
      - (* a statement that consumes neither ELSE nor ":" *)
        pose proof (aplp_dispatch f2 (S n2) (analyze_statement f2 (S n2)) (Some t) Hph (advd sa, acc) tt (sa', acc') Ea) as Hpl.
        cbn [fst] in Hpl.
        intros s Hg El. apply (scan_range s sa sa' Hg El Hon); [|exact Hat].
        eapply PL_trans; [apply Hstep; destruct t; try reflexivity; discriminate Hph | exact Hpl].
      - destruct t; try discriminate Hph; try discriminate Hcl; cbn [adispatch] in Ea; try discriminate Ea.
        + (* ":" *) intros s Hg El. apply (scan_colon s Hg).
          rewrite (cur_line_onprog s (proj1 Hg)), El, <- (cur_line_onprog sa Hon). exact Et.
        + (* IF *)
          unfold an_if in Ea. unfold abind at 1 in Ea.
          pose proof (apl_analyze_expression plainT plainT_sub plainT_resp f2 (S n2) (advd sa, acc)) as Hx.
          destruct (keepA (aexpr f2 (S n2)) (advd sa) acc (fn_analyze_expression f2 (S n2)) Hon1 Hfn1) as [Hon2 Hfn2].
          unfold aexpr in *.
          destruct (analyze_expression f2 (S n2) (advd sa, acc)) as [[ty|? ?|?| |] [sa2 acc2]]; try discriminate Ea.
          specialize (Hx ty (sa2, acc2) eq_refl). cbn [fst snd] in *.
          unfold abind at 1 in Ea. unfold lift at 1 in Ea. cbn [fst snd] in Ea.
          pose proof (mpl_expect plainT plainT_resp TThen eq_refl sa2) as Hx2.
          destruct (keepM (expect_next_token TThen) sa2 (rfn_expect TThen) Hon2 Hfn2) as [Hon3 Hfn3].
          destruct (expect_next_token TThen sa2) as [[[]|? ?|?| |] sa3]; try discriminate Ea.
          specialize (Hx2 tt sa3 eq_refl). cbn [fst snd] in *.
          (* the THEN clause *)
          unfold abind at 1 in Ea.
          destruct (keepA (an_statement_or_goto (analyze_statement f2 (S n2))) sa3 acc2
                      (fn_statement_or_goto _ (fn_analyze_statement f2 (S n2))) Hon3 Hfn3) as [Hon4 Hfn4].
          destruct (an_statement_or_goto (analyze_statement f2 (S n2)) (sa3, acc2)) as [[[]|? ?|?| |] [sa4 acc4]] eqn:Earm;
            try discriminate Ea. cbn [fst snd] in *.
          destruct (frame_after f2 (S n2) sa4 acc4 sa' acc' Hon4 Hfn4 Ea Haft Hat) as [Haft4 Hat4].
          (* scanning over the clause *)
          assert (Hat3 : ScanAt (loc sa3)).
          { unfold an_statement_or_goto in Earm. unfold abind at 1 in Earm. unfold lift at 1 in Earm. cbn [fst snd] in Earm.
            destruct (peek_cases sa3) as [[p Hp3] | [Hp3 Hlt3]]; rewrite Hp3 in Earm; [discriminate Earm|]. cbn [fst snd] in Earm.
            assert (Honb : onprog (bumped sa3)) by (destruct sa3; exact Hon3).
            assert (Hfnb : functions (bumped sa3) = []) by (destruct sa3; exact Hfn3).
            assert (Hvia : (exists acc0, analyze_statement f2 (S n2) (bumped sa3, acc0) = (Ok tt, (sa4, acc4))) -> ScanAt (loc sa3)).
            { intros (acc0 & E0). apply (ScanAt_loc (loc (bumped sa3))); [destruct sa3; reflexivity|].
              exact (IH (S n2) (bumped sa3) acc0 sa4 acc4 Honb Hfnb E0 Haft4 Hat4). }
            destruct (nth_error (cur_line sa3) (loc_idx (loc sa3))) as [t1|]; [|apply Hvia; eexists; exact Earm].
            destruct t1; try (apply Hvia; eexists; exact Earm).
            (* a line number *)
            pose proof (aplp_goto_or_gosub (bumped sa3, acc2) tt (sa4, acc4) Earm) as Hplg. cbn [fst] in Hplg.
            intros s Hg El. apply (scan_range s sa3 sa4 Hg El Hon3); [|exact Hat4].
            eapply PL_trans; [apply PL_bumped | exact Hplg]. }
          intros s Hg El. apply (scan_range s sa sa3 Hg El Hon); [|exact Hat3].
          eapply PL_trans; [apply Hstep; reflexivity|]. eapply PL_trans; [exact Hx | exact Hx2].
    Qed.

    (* ... over the rest of an accepted line *)
    Lemma scan_walk : forall stmts sa acc m st', onprog sa -> functions sa = [] ->
      walk_line fa stmts m (sa, acc) = (Ok None, st') -> ScanAt (loc sa).
    Proof.
      induction stmts as [|k IH]; intros sa acc m st' Hon Hfn Hw; [discriminate Hw|].
      assert (Hacc : AccAt (loc sa)).
      { exists sa, acc. split; [exact Hon|]. split; [exact Hfn|]. split; [reflexivity|]. exists (S k), m, st'. exact Hw. }
      cbn [walk_line fst snd] in Hw. unfold has_next_token in Hw. rewrite Safety.bind_run in Hw.
      destruct (peek_cases sa) as [[p Hp] | [Hp Hlt]]; rewrite Hp in Hw; [discriminate Hw|].
      destruct (nth_error (cur_line sa) (loc_idx (loc sa))) as [t|] eqn:Et.
      - unfold ret in Hw.
        assert (Honb : onprog (bumped sa)) by (destruct sa; exact Hon).
        assert (Hfnb : functions (bumped sa) = []) by (destruct sa; exact Hfn).
        destruct (keepA (analyze_statement fa 0) (bumped sa) acc (fn_analyze_statement fa 0) Honb Hfnb) as [Hon1 Hfn1].
        destruct (analyze_statement fa 0 (bumped sa, acc)) as [[[]|e l|p| |] [sa1 acc1]] eqn:Ean;
          try discriminate Hw;
          try (destruct (populate_error_location e l (fst (sa1, acc1))) as [l0|]; [destruct (map_location_to_source m l0) as [[? ?]|]|]; discriminate Hw).
        cbn [fst snd] in *.
        pose proof (IH sa1 acc1 m st' Hon1 Hfn1 Hw) as Hat1.
        assert (Hacc1 : AccAt (loc sa1)).
        { exists sa1, acc1. split; [exact Hon1|]. split; [exact Hfn1|]. split; [reflexivity|]. exists k, m, st'. exact Hw. }
        apply (ScanAt_loc (loc (bumped sa))); [destruct sa; reflexivity|].
        exact (scan_stmt fa 0 (bumped sa) acc sa1 acc1 Honb Hfnb Ean (After_acc _ Hacc1) Hat1).
      - (* the line ends here *)
        intros s (Hons & Hc & Hfns & Hfr & Htb) El kk.
        destruct kk as [|kk]; [exact I|]. cbn [repeat_m]. unfold scan_body at 1. rewrite bind_assoc_t, Safety.bind_run.
        destruct (next_token_cases s) as [[p Hp'] | [Hlt' Hn]]; [rewrite Hp'; exact I|]. rewrite Hn.
        rewrite (cur_line_onprog s Hons), El, <- (cur_line_onprog sa Hon), Et.
        rewrite Safety.bind_ret. cbv iota. unfold ret.
        split; [destruct s; exact Hfns|]. split; [destruct s; exact Hfr|].
        left. replace (loc (bumped s)) with (loc sa) by (rewrite <- El; destruct s; reflexivity). exact Hacc.
    Qed.

    Lemma scan_after l : After l -> ScanAt l.
    Proof.
      intros [l0 (sa & acc & Hon & Hfn & Hl & (stmts & m & st' & Hw)) | l0 sa acc f n sa' acc' Ht Hon Hfn Hl Ea Haft].
      - rewrite <- Hl. exact (scan_walk stmts sa acc m st' Hon Hfn Hw).
      - exact (scan_else l0 sa acc f n sa' acc' Ht Hon Hfn Hl Ea Haft).
    Qed.

    (* ---- IF ---- *)
    Lemma ThenB_after_then s : onprog s -> loc_idx (loc s) <> 0 ->
      nth_error (cur_line s) (Nat.pred (loc_idx (loc s))) = Some TThen -> TBs s.
    Proof.
      intros Hon Hnz Ht. unfold TBs, ThenB. rewrite <- (cur_line_onprog s Hon).
      destruct (loc_idx (loc s)) as [|i] eqn:Ei; [congruence|]. cbn [Nat.pred] in Ht.
      rewrite (firstn_S_nth _ _ _ Ht), rev_app_distr. reflexivity.
    Qed.

    Lemma tsoundE_if (top : bool) fi f2 nestE nestA fa' na' :
      tsoundE top (evaluate_if_statement fi nestE rec) (an_if f2 nestA (analyze_statement fa' na')).
    Proof.
      intros s sa acc sa' acc' HR Hon Hfr Htb Ea Haft Htop.
      rewrite (if_unfold fi nestE rec). unfold an_if in Ea.
      (* the condition *)
      unfold abind at 1 in Ea.
      pose proof (expression_check_sound2 fi f2 nestE nestA s sa acc HR) as Hx. unfold aexpr in Ea.
      pose proof (onprog_of_R s sa HR Hon) as Hona.
      destruct (keepA (analyze_expression f2 nestA) sa acc (fn_analyze_expression f2 nestA) Hona (proj2 (proj2 (proj2 HR)))) as [Hona1 Hfna1].
      destruct (analyze_expression f2 nestA (sa, acc)) as [[ty|? ?|?| |] [sa1 acc1]]; try discriminate Ea. cbn [fst snd] in *.
      rewrite Safety.bind_run. unfold expr.
      pose proof (KS_evaluate_expression fi nestE s (proj1 (proj2 (proj2 HR)))) as Kx.
      pose proof (onprog_step ptoks pkeys (evaluate_expression fi nestE) s (keeps_evaluate_expression st_toks rf_st_toks fi nestE)
                    (keeps_evaluate_expression st_keys rf_st_keys fi nestE) (imm_evaluate_expression fi nestE) Hon) as Hon1.
      destruct (evaluate_expression fi nestE s) as [[c|e l|p| |] s1]; cbn [snd] in *; try exact Hx; try exact I.
      destruct Hx as [_ HR1]. destruct Kx as (_ & Ks1 & Kl1).
      assert (Hfr1 : FramesL s1) by (unfold FramesL; rewrite Ks1, Kl1; exact Hfr).
      (* THEN *)
      unfold abind at 1 in Ea. unfold lift at 1 in Ea. cbn [fst snd] in Ea.
      destruct (cp_expect TThen s1 sa1 (proj1 HR1)) as (E2 & HC2 & K1 & K2).
      pose proof (onprog_step ptoks pkeys (expect_next_token TThen) s1 (keeps_expect st_toks rf_st_toks TThen)
                    (keeps_expect st_keys rf_st_keys TThen) (imm_expect TThen) Hon1) as Hon2.
      destruct (keepM (expect_next_token TThen) sa1 (rfn_expect TThen) Hona1 Hfna1) as [Hona2 Hfna2].
      rewrite Safety.bind_run.
      assert (Hthen : forall s2, expect_next_token TThen s1 = (Ok tt, s2) -> TBs s2).
      { intros s2 E. unfold expect_next_token, next_unwrapped_token in E. rewrite !Safety.bind_run in E.
        destruct (next_token_cases s1) as [[p Hp] | [Hlt Hn]]; [rewrite Hp in E; discriminate E|]. rewrite Hn in E.
        destruct (nth_error (cur_line s1) (loc_idx (loc s1))) as [t|] eqn:Et; [|rewrite bind_get in E; discriminate E].
        unfold ret at 1 in E. cbv iota beta in E. destruct (token_eqb t TThen) eqn:Eq; [|discriminate E].
        unfold ret in E. injection E as <-. assert (t = TThen) by (destruct t; try discriminate Eq; reflexivity). subst t.
        apply (ThenB_after_then (advd s1)); [destruct s1; exact Hon1 | destruct s1 as [? ? ? [? ?] ? ? ? ? ? ? ? ? ? ? ? ? ? ? ?]; discriminate|].
        destruct s1 as [? ? ? [? ?] ? ? ? ? ? ? ? ? ? ? ? ? ? ? ?]. exact Et. }
      destruct (expect_next_token TThen s1) as [r2 s2], (expect_next_token TThen sa1) as [r2' sa2]. cbn [fst snd] in *. subst r2'.
      destruct r2 as [[]|e l|p| |]; try discriminate Ea; try exact I.
      assert (HR2 : R s2 sa2) by (eapply R_same_rt; eassumption).
      assert (Hfr2 : FramesL s2) by (destruct K1 as (S1 & S2 & _); unfold FramesL; rewrite S1, S2; exact Hfr1).
      pose proof (Hthen s2 eq_refl) as Htb2.
      (* the clause and what stands behind it *)
      unfold abind at 1 in Ea.
      destruct (keepA (an_statement_or_goto (analyze_statement fa' na')) sa2 acc1
                  (fn_statement_or_goto _ (fn_analyze_statement fa' na')) Hona2 Hfna2) as [Hona3 Hfna3].
      destruct (an_statement_or_goto (analyze_statement fa' na') (sa2, acc1)) as [[[]|? ?|?| |] [sa3 acc3]] eqn:E3; try discriminate Ea.
      cbn [fst snd] in *.
      destruct (frame_after fa' na' sa3 acc3 sa' acc' Hona3 Hfna3 Ea Haft (scan_after _ Haft)) as [Haft3 Hat3].
      destruct (to_bool c).
      - (* the THEN clause is executed *)
        pose proof (tsoundE_stmt_or_goto fa' na' s2 sa2 acc1 sa3 acc3 HR2 Hon2 Hfr2 (fun _ => Htb2) E3 Haft3
                      (fun H => ltac:(discriminate H))) as H3.
        pose proof (onprog_stmt_or_goto s2 Hon2) as Hon3.
        rewrite Safety.bind_run.
        destruct (statement_or_goto_line_number rec s2) as [[[]|e l|p| |] s3]; cbn [snd] in *; try exact H3; try exact I.
        destruct H3 as (F3 & Fr3 & Pos3). fold probe.
        assert (Hpos : C s3 sa3 /\ functions sa3 = [] \/ Land (loc s3)).
        { destruct Pos3 as [HC|HL]; [left; split; assumption | right; exact HL]. }
        pose proof (probe_sound s3 sa3 Hon3 F3 Fr3 Hpos) as H4.
        destruct (probe s3) as [[[]|e l|p| |] s4]; try contradiction; try exact I.
        destruct H4 as (F4 & Fr4 & Hon4 & Pos4).
        split; [exact F4|]. split; [exact Fr4|].
        destruct Pos4 as [(HC4 & HC3 & Hne) | HL]; [left | right; exact HL].
        (* the checker saw no ELSE either *)
        unfold abind at 1 in Ea. unfold lift at 1 in Ea. cbn [fst snd] in Ea.
        unfold accept_next_token in Ea. rewrite Safety.bind_run in Ea.
        destruct (peek_cases sa3) as [[p Hp] | [Hp _]]; rewrite Hp in Ea; [discriminate Ea|].
        assert (Etok : nth_error (cur_line sa3) (loc_idx (loc sa3)) = nth_error (cur_line s3) (loc_idx (loc s3))).
        { rewrite (cur_line_onprog sa3 Hona3), (cur_line_onprog s3 Hon3). destruct HC3 as (_ & _ & _ & C4). rewrite C4. reflexivity. }
        rewrite Etok in Ea.
        destruct (nth_error (cur_line s3) (loc_idx (loc s3))) as [t|].
        + destruct (token_eqb t TElse) eqn:Eq.
          * exfalso. apply Hne. destruct t; try discriminate Eq; reflexivity.
          * unfold ret, aret in Ea. injection Ea as <- _. exact HC4.
        + unfold ret, aret in Ea. injection Ea as <- _. exact HC4.
      - (* the condition is false: the scan *)
        assert (Hg2 : GoodS s2).
        { split; [exact Hon2|]. split; [apply HR2|]. split; [apply HR2|]. split; [exact Hfr2 | exact Htb2]. }
        assert (Hat2 : ScanAt (loc sa2)).
        { unfold an_statement_or_goto in E3. unfold abind at 1 in E3. unfold lift at 1 in E3. cbn [fst snd] in E3.
          destruct (peek_cases sa2) as [[p Hp3] | [Hp3 Hlt3]]; rewrite Hp3 in E3; [discriminate E3|]. cbn [fst snd] in E3.
          assert (Honb : onprog (bumped sa2)) by (destruct sa2; exact Hona2).
          assert (Hfnb : functions (bumped sa2) = []) by (destruct sa2; exact Hfna2).
          assert (Hvia : (exists acc0, analyze_statement fa' na' (bumped sa2, acc0) = (Ok tt, (sa3, acc3))) -> ScanAt (loc sa2)).
          { intros (acc0 & E0). apply (ScanAt_loc (loc (bumped sa2))); [destruct sa2; reflexivity|].
            exact (scan_stmt fa' na' (bumped sa2) acc0 sa3 acc3 Honb Hfnb E0 Haft3 Hat3). }
          destruct (nth_error (cur_line sa2) (loc_idx (loc sa2))) as [t1|]; [|apply Hvia; eexists; exact E3].
          destruct t1; try (apply Hvia; eexists; exact E3).
          pose proof (aplp_goto_or_gosub (bumped sa2, acc1) tt (sa3, acc3) E3) as Hplg. cbn [fst] in Hplg.
          intros s0 Hg El. apply (scan_range s0 sa2 sa3 Hg El Hona2); [|exact Hat3].
          eapply PL_trans; [apply PL_bumped | exact Hplg]. }
        pose proof (Hat2 s2 Hg2 (proj2 (proj2 (proj2 (proj1 HR2)))) fi) as Hsc.
        destruct (repeat_m fi (scan_body rec) tt s2) as [[[]|e l|p| |] s3]; try exact Hsc; try exact I.
        destruct Hsc as (A1 & A2 & A3). split; [exact A1|]. split; [exact A2 | right; exact A3].
    Qed.
  End Level.

  (* ---- the dispatcher, every statement ---- *)
  Lemma tsoundE_body (top : bool) fi f2 nestE nestA rec fa' na' :
    (forall f n, tsoundES false rec (analyze_statement f n)) ->
    mrel (keeps st_toks) rec -> mrel (keeps st_keys) rec -> mrel IM rec -> mrel (inv_rel caps_inv) rec ->
    tsoundES top (evaluate_statement_body fi nestE rec) (an_statement_body f2 nestA (analyze_statement fa' na')).
  Proof.
    intros Hrec Hk1 Hk2 Him Hcaps s sa acc sa' acc' HR Hon Hfr Htb Hin Ea Haft Htop.
    rewrite body_split. rewrite an_statement_body_dispatch in Ea. rewrite Safety.bind_run.
    destruct (trace_quiet s) as (s0 & Et & T1 & T2 & T3 & T4 & T5 & T6 & T7 & T8 & T9). rewrite Et.
    assert (HR0 : R s0 sa).
    { apply (R_ext s); try assumption. apply (caps_inv_ext s); try assumption. apply HR. }
    assert (Hon0 : onprog s0) by (destruct Hon as (O1 & O2 & O3); repeat split; congruence).
    assert (Hfr0 : FramesL s0) by (unfold FramesL; rewrite T6, T7; exact Hfr).
    assert (Htb0 : top = false -> TBs s0) by (intros H; unfold TBs; rewrite T4; exact (Htb H)).
    assert (Hin0 : nth_error (cur_line s0) (loc_idx (loc s0)) = Some TInput -> Land (loc s0)).
    { rewrite (cur_line_onprog s0 Hon0), T4, <- (cur_line_onprog s Hon). exact Hin. }
    destruct (next_token_bothL s0 sa acc HR0 Hon0 Hfr0) as (E1 & El & HR1 & Hon1 & Hfr1).
    unfold abind at 1 in Ea. rewrite El in Ea.
    destruct (next_token_cases s0) as [[p Hp] | [Hl Hn]].
    { rewrite Safety.bind_run, Hp. exact I. }
    rewrite Safety.bind_run.
    destruct (next_token s0) as [r s1] eqn:En0, (next_token sa) as [r' sa1]. cbn [fst snd] in *. subst r'.
    destruct r as [t|e l|p| |]; try discriminate Ea; try exact I.
    destruct t as [t|].
    2:{ (* the end of the line *) cbn [edispatch adispatch] in *. unfold aret in Ea. injection Ea as <- <-. unfold ret.
        split; [apply HR1|]. split; [exact Hfr1 | left; apply HR1]. }
    destruct (nth_error (cur_line s0) (loc_idx (loc s0))) as [t1|] eqn:E1'; [|discriminate Hn].
    injection Hn as Ht Hs1. subst t1 s1.
    pose proof (clean2_at s0 _ t Hon0 E1') as Hcl.
    assert (Htb1 : token_eqb t TColon = false -> top = false -> TBs (advd s0)).
    { intros Hc Hn1. apply (TBs_advd s0 t E1' Hc Hon0 (Htb0 Hn1)). }
    destruct (straight_head (Some t)) eqn:Hst.
    - destruct t; try discriminate Hst;
        try (destruct (straight_frames fi nestE rec _ Hst ltac:(discriminate)) as (F1 & _);
             exact (tsoundE_of_sound top _ _ (straight_statement_sound2 fi f2 nestE nestA rec (analyze_statement fa' na') _ Hst) F1
                      (advd s0) sa1 acc sa' acc' HR1 Hon1 Hfr1 (Htb1 eq_refl) Ea Haft Htop)).
      + (* ":" *) cbn [edispatch adispatch] in *. unfold aret in Ea. injection Ea as <- <-. unfold ret.
        split; [apply HR1|]. split; [exact Hfr1 | left; apply HR1].
      + (* FOR *) exact (tsoundE_for top fi f2 nestE nestA (advd s0) sa1 acc sa' acc' HR1 Hon1 Hfr1 (Htb1 eq_refl) Ea Haft Htop).
    - destruct t; try discriminate Hst; try discriminate Hcl; cbn [edispatch adispatch] in *; try discriminate Ea.
      + (* INPUT *)
        apply (tsoundE_input top fi f2 nestE nestA (advd s0) sa1 acc sa' acc' HR1 Hon1 Hfr1); try exact Ea.
        * destruct s0 as [? ? ? [? ?] ? ? ? ? ? ? ? ? ? ? ? ? ? ? ?]; exact Hl.
        * destruct s0 as [? ? ? [? ?] ? ? ? ? ? ? ? ? ? ? ? ? ? ? ?]; cbn; discriminate.
        * replace (cur_line (advd s0)) with (cur_line s0) by (destruct s0 as [? ? ? [? ?] ? ? ? ? ? ? ? ? ? ? ? ? ? ? ?]; reflexivity).
          replace (pred (loc_idx (loc (advd s0)))) with (loc_idx (loc s0)) by (destruct s0 as [? ? ? [? ?] ? ? ? ? ? ? ? ? ? ? ? ? ? ? ?]; reflexivity).
          exact E1'.
        * replace (mkloc (loc_line (loc (advd s0))) (pred (loc_idx (loc (advd s0))))) with (loc s0)
            by (destruct s0 as [? ? ? [? ?] ? ? ? ? ? ? ? ? ? ? ? ? ? ? ?]; reflexivity).
          exact (Hin0 eq_refl).
      + exact (tsoundE_goto top (advd s0) sa1 acc sa' acc' HR1 Hon1 Hfr1 (Htb1 eq_refl) Ea Haft Htop).
      + exact (tsoundE_gosub top (advd s0) sa1 acc sa' acc' HR1 Hon1 Hfr1 (Htb1 eq_refl) Ea Haft Htop).
      + exact (tsoundE_return top (advd s0) sa1 acc sa' acc' HR1 Hon1 Hfr1 (Htb1 eq_refl) Ea Haft Htop).
      + exact (tsoundE_if rec Hrec Hk1 Hk2 Him top fi f2 nestE nestA fa' na'
                 (advd s0) sa1 acc sa' acc' HR1 Hon1 Hfr1 (Htb1 eq_refl) Ea Haft Htop).
      + exact (tsoundE_end top (advd s0) sa1 acc sa' acc' HR1 Hon1 Hfr1 (Htb1 eq_refl) Ea Haft Htop).
      + exact (tsoundE_stop top (advd s0) sa1 acc sa' acc' HR1 Hon1 Hfr1 (Htb1 eq_refl) Ea Haft Htop).
      + exact (tsoundE_next top (advd s0) sa1 acc sa' acc' HR1 Hon1 Hfr1 (Htb1 eq_refl) Ea Haft Htop).
  Qed.

  Theorem tsoundE_statement : forall fi n1 top f2 n2, tsoundES top (evaluate_statement fi n1) (analyze_statement f2 n2).
  Proof.
    induction fi as [|fi IH]; intros n1 top f2 n2 s sa acc sa' acc' HR Hon Hfr Htb Hin Ea Haft Htop; [exact I|].
    destruct f2 as [|f2]; [discriminate Ea|]. cbn [analyze_statement] in Ea. cbn [evaluate_statement].
    destruct (Nat.eqb n2 max_nesting); [discriminate Ea|].
    destruct (Nat.eqb n1 max_nesting); [exact I|].
    apply (tsoundE_body top fi f2 (S n1) (S n2) (evaluate_statement fi (S n1)) f2 (S n2)
             (fun f n => IH (S n1) false f n)
             (keeps_evaluate_statement st_toks rf_st_toks fi (S n1)) (keeps_evaluate_statement st_keys rf_st_keys fi (S n1))
             (imm_evaluate_statement fi (S n1)) (caps_evaluate_statement fi (S n1)) s sa acc sa' acc' HR Hon Hfr Htb Hin Ea Haft Htop).
  Qed.

  (* ------------------------------------------------------------------ *)
  (* one turn, every turn *)
  Definition InvL (s : interp) : Prop :=
    onprog s /\ caps_inv s /\ functions s = [] /\ FramesL s /\ Land (loc s).

  Lemma InvL_ext s s' : InvL s ->
    st_toks s' = st_toks s -> st_keys s' = st_keys s -> immediate s' = immediate s -> loc s' = loc s ->
    functions s' = functions s -> stack s' = stack s -> loops s' = loops s ->
    variables s' = variables s -> arrays s' = arrays s -> InvL s'.
  Proof.
    intros ((O1 & O2 & O3) & Hc & Hf & (F1 & F2) & Ha) E1 E2 E3 E4 E5 E6 E7 E8 E9.
    split; [repeat split; congruence|]. split; [apply (caps_inv_ext s); assumption|]. split; [congruence|].
    split; [unfold FramesL; rewrite E6, E7; split; assumption | rewrite E4; exact Ha].
  Qed.

  Lemma tail_soundL s : onprog s -> caps_inv s -> functions s = [] -> FramesL s -> Land (loc s) ->
    match (h2 <- has_next_token ;;
           if h2 then ret tt
           else n <- next_line ;; if n then ret tt else set_and_goto_immediate_line [] ;;; return_to_idle_state) s with
    | (Ok _, s') => InvL s'
    | (Err _ _, _) => False
    | _ => True
    end.
  Proof.
    intros Hon0 Hc0 Hf0 Hfr0 Ha0.
    assert (HI : InvL s) by (split; [exact Hon0 | split; [exact Hc0 | split; [exact Hf0 | split; assumption]]]).
    unfold has_next_token. rewrite bind_assoc_t, Safety.bind_run.
    destruct (peek_cases s) as [[p Hp] | [Hp Hl]]; rewrite Hp; [exact I|].
    assert (HIb : InvL (bumped s)) by (apply (InvL_ext s _ HI); destruct s; reflexivity).
    rewrite Safety.bind_ret.
    destruct (nth_error (cur_line s) (loc_idx (loc s))) as [t|]; [exact HIb|].
    rewrite Safety.bind_run, next_line_eq.
    destruct HIb as (Hon & Hc & Hf & Hfr & Ha).
    assert (Hidle : InvL (set_state Idle (imm_reset [] (bumped s)))).
    { split; [unfold imm_reset; destruct Hon as (O1 & O2 & O3); destruct (breakpoint (bumped s)); destruct s; repeat split; assumption|].
      split; [apply (caps_set_imm [] (bumped s)) in Hc; rewrite set_imm_is_modify in Hc; cbn [snd modify] in Hc;
              apply (caps_inv_ext (imm_reset [] (bumped s))); try reflexivity; exact Hc|].
      split; [unfold imm_reset; destruct (breakpoint (bumped s)); destruct s; exact Hf|].
      split.
      - destruct Hfr as [F1 F2]. unfold imm_reset.
        destruct (breakpoint (bumped s)); (split; [destruct s; cbn in *; first [exact F1 | constructor] | destruct s; exact F2]).
      - left. replace (loc (set_state Idle (imm_reset [] (bumped s)))) with imm0
          by (unfold imm_reset; destruct (breakpoint (bumped s)); destruct s; reflexivity).
        apply (AccAt_imm0 fa ptoks pkeys (bumped s) Hon Hf). }
    destruct (loc_line (loc (bumped s))) as [n|] eqn:El.
    - destruct (store_after n (bumped s)) as [n'|] eqn:Ea'.
      + unfold ret.
        split; [destruct s; apply Hon|]. split; [apply (caps_inv_ext (bumped s)); try (destruct s; reflexivity); exact Hc|].
        split; [destruct s; exact Hf|]. split; [destruct Hfr; split; destruct s; assumption|].
        left. replace (loc (set_loc _ (bumped s))) with (mkloc (Some n') 0) by (destruct s; reflexivity).
        apply G, Hkeys. unfold store_after in Ea'. destruct Hon as (_ & O2 & _). rewrite O2 in Ea'.
        eapply keys_after_In; eassumption.
      + rewrite set_imm_is_modify, bind_modify. unfold return_to_idle_state, modify. exact Hidle.
    - rewrite set_imm_is_modify, bind_modify. unfold return_to_idle_state, modify. exact Hidle.
  Qed.

  Theorem turn_soundL fi s : InvL s ->
    match run_next_statement fi s with
    | (Ok _, s') => InvL s'
    | (Err e _, _) => benign e
    | _ => True
    end.
  Proof.
    intros HI. unfold run_next_statement. rewrite bind_modify.
    set (sR := set_state Running s).
    assert (HIR : InvL sR) by (apply (InvL_ext s _ HI); destruct s; reflexivity).
    unfold has_next_token at 1. rewrite bind_assoc_t, Safety.bind_run.
    destruct (peek_cases sR) as [[p Hp] | [Hp Hl]]; rewrite Hp; [exact I|].
    assert (HIb : InvL (bumped sR)) by (apply (InvL_ext sR _ HIR); destruct sR; reflexivity).
    rewrite Safety.bind_ret.
    assert (Htail : forall s1, onprog s1 -> caps_inv s1 -> functions s1 = [] -> FramesL s1 -> Land (loc s1) ->
              match (h2 <- has_next_token ;;
                     if h2 then ret tt
                     else n <- next_line ;; if n then ret tt else set_and_goto_immediate_line [] ;;; return_to_idle_state) s1 with
              | (Ok _, s') => InvL s'
              | (Err e _, _) => benign e
              | _ => True
              end).
    { intros s1 H1 H2 H3 H4 H5. pose proof (tail_soundL s1 H1 H2 H3 H4 H5) as H.
      destruct ((h2 <- has_next_token ;; _) s1) as [[u|e l|p| |] s']; try exact H; try exact I. contradiction. }
    destruct (nth_error (cur_line sR) (loc_idx (loc sR))) as [t|] eqn:Et.
    2:{ rewrite Safety.bind_ret. destruct HIb as (A & B & C0 & D & E). apply Htail; assumption. }
    destruct HIb as (Hon & Hc & Hf & Hfr & Hland).
    pose proof (onprog_step ptoks pkeys (evaluate_statement fi 0) (bumped sR)
                  (keeps_evaluate_statement st_toks rf_st_toks fi 0) (keeps_evaluate_statement st_keys rf_st_keys fi 0)
                  (imm_evaluate_statement fi 0) Hon) as Hon1.
    pose proof (caps_evaluate_statement fi 0 (bumped sR) Hc) as Hc1.
    rewrite Safety.bind_run.
    pose proof Hland as HlandB.
    destruct Hland as [(sa & acc & Hona & Hfa & Hla & (stmts & m & st' & Hw))
                      | [(Hline & Htok & Hthen)
                        | (Htok & Hthen & sa & acc & f & n & sa' & acc' & Hona & Hfa & Hla & Ean & Haft & Hthen')]].
    3:{ (* an INPUT standing as a clause: the statement the checker accepted there, on its own *)
        assert (HRb : R (bumped sR) sa).
        { split; [destruct Hon as (O1 & O2 & O3), Hona as (A1 & A2 & A3); repeat split; congruence|].
          split; [exact Hc|]. split; [exact Hf | exact Hfa]. }
        pose proof (tsoundE_statement fi 0 false f n (bumped sR) sa acc sa' acc' HRb Hon Hfr
                      (fun _ => Hthen) (fun _ => HlandB) Ean Haft (fun H => ltac:(discriminate H))) as Hst.
        destruct (evaluate_statement fi 0 (bumped sR)) as [[[]|e l|p| |] s1]; cbn [snd] in *; try exact Hst; try exact I.
        destruct Hst as (F1 & F2 & F3). apply Htail; try assumption.
        destruct F3 as [HC1 | HL]; [|exact HL].
        destruct HC1 as (_ & _ & _ & C4). rewrite C4. apply (land_of_after _ Haft Hthen'). }
    - (* an accepted position: follow the checker's walk *)
      destruct stmts as [|k]; [discriminate Hw|]. cbn [walk_line fst snd] in Hw.
      assert (HC : C (bumped sR) sa).
      { destruct Hon as (O1 & O2 & O3), Hona as (A1 & A2 & A3). repeat split; congruence. }
      assert (Hha : has_next_token sa = (Ok true, bumped sa)).
      { unfold has_next_token. rewrite Safety.bind_run.
        assert (Ecl : cur_line sa = cur_line sR /\ loc_idx (loc sa) = loc_idx (loc sR)).
        { destruct HC as (C1 & C2 & C3 & C4). unfold cur_line. rewrite <- C1, <- C3, <- C4. destruct s; split; reflexivity. }
        destruct Ecl as [Ec1 Ec2].
        destruct (peek_cases sa) as [[p Hp2] | [Hp2 _]].
        - exfalso. unfold peek_next_token, cur_tokens, tokens_for_line, bind, get, modify, ret in Hp2. cbn in Hp2.
          destruct HC as (C1 & _ & _ & C4). unfold line_there in Hl.
          replace (loc sa) with (loc sR) in Hp2 by (rewrite <- C4; destruct s; reflexivity).
          replace (st_toks sa) with (st_toks sR) in Hp2 by (rewrite <- C1; destruct s; reflexivity).
          destruct (loc_line (loc sR)) as [n|] eqn:El; [|discriminate Hp2].
          destruct (toks_get n (st_toks sR)) eqn:Etk; [discriminate Hp2 | exact (Hl n eq_refl Etk)].
        - rewrite Hp2, Ec1, Ec2, Et. reflexivity. }
      rewrite Hha in Hw.
      assert (Honb : onprog (bumped sa)) by (destruct sa; exact Hona).
      assert (Hfnb : functions (bumped sa) = []) by (destruct sa; exact Hfa).
      destruct (keepA (analyze_statement fa 0) (bumped sa) acc (fn_analyze_statement fa 0) Honb Hfnb) as [Hona1 Hfna1].
      destruct (analyze_statement fa 0 (bumped sa, acc)) as [[[]|e l|p| |] st1] eqn:Ean;
        try discriminate Hw;
        try (destruct (populate_error_location e l (fst st1)) as [l0|]; [destruct (map_location_to_source m l0) as [[? ?]|]|]; discriminate Hw).
      destruct st1 as [sa1 acc1]. cbn [fst snd] in *.
      assert (HRb : R (bumped sR) (bumped sa)).
      { split; [destruct HC as (C1 & C2 & C3 & C4); repeat split; destruct sa; assumption|].
        split; [exact Hc|]. split; [exact Hf | exact Hfnb]. }
      assert (Hacc1 : AccAt (loc sa1)).
      { exists sa1, acc1. split; [exact Hona1|]. split; [exact Hfna1|]. split; [reflexivity|]. exists k, m, st'. exact Hw. }
      pose proof (tsoundE_statement fi 0 true fa 0 (bumped sR) (bumped sa) acc sa1 acc1 HRb Hon Hfr
                    (fun H => ltac:(discriminate H)) (fun _ => HlandB) Ean (After_acc _ Hacc1) (fun _ => Hacc1)) as Hst.
      destruct (evaluate_statement fi 0 (bumped sR)) as [[[]|e l|p| |] s1]; cbn [snd] in *; try exact Hst; try exact I.
      destruct Hst as (F1 & F2 & F3). apply Htail; try assumption.
      destruct F3 as [HC1 | HL]; [|exact HL]. left. destruct HC1 as (_ & _ & _ & C4). rewrite C4. exact Hacc1.
    - (* an ELSE behind a THEN clause that transferred control: the rest of the line is skipped *)
      destruct fi as [|fi]; [exact I|]. cbn [evaluate_statement]. change (Nat.eqb 0 max_nesting) with false. cbv iota.
      rewrite body_split, Safety.bind_run.
      destruct (trace_quiet (bumped sR)) as (s0 & Etr & T1 & T2 & T3 & T4 & T5 & T6 & T7 & T8 & T9). rewrite Etr.
      assert (Hon0 : onprog s0) by (destruct Hon as (O1 & O2 & O3); repeat split; congruence).
      rewrite Safety.bind_run.
      destruct (next_token_cases s0) as [[p Hp0] | [Hl0 Hn0]]; [rewrite Hp0; exact I|]. rewrite Hn0.
      assert (Et0 : nth_error (cur_line s0) (loc_idx (loc s0)) = Some TElse).
      { rewrite (cur_line_onprog s0 Hon0), T4. exact Htok. }
      rewrite Et0. cbn [edispatch].
      assert (Ehelse : is_else_of_then_clause (advd s0) = (Ok true, advd s0)).
      { destruct Hline as (n & Hn & Hne).
        destruct (toks_get n ptoks) as [ts|] eqn:Etg; [|congruence].
        unfold ThenB, toks_at in Hthen. rewrite Hn, Etg in Hthen.
        assert (Hn0' : loc_line (loc s0) = Some n) by (rewrite T4; exact Hn).
        assert (Hi0 : loc_idx (loc s0) = loc_idx (loc (bumped sR))) by (rewrite T4; reflexivity).
        assert (Ept : toks_get n (st_toks s0) = Some ts) by (destruct Hon0 as (O1 & _ & _); rewrite O1; exact Etg).
        clear Etr T1 T2 T3 T4 T5 T6 T7 T8 T9 Hn0 Et0 Hl0.
        unfold is_else_of_then_clause, cur_tokens, tokens_for_line, bind, get, ret.
        destruct s0 as [tk ? ? [ln ix] ? ? ? ? ? ? ? ? ? ? ? ? ? ? ?]. cbn in Hn0', Hi0, Ept |- *. subst ln. rewrite Ept. cbn.
        replace (then_before (rev (firstn ix ts))) with true; [reflexivity|]. symmetry. rewrite Hi0. exact Hthen. }
      rewrite Safety.bind_run, Ehelse.
      unfold discard_remaining_tokens. rewrite Safety.bind_run.
      assert (Ect : cur_tokens (advd s0) = (Ok (cur_line s0), advd s0)).
      { unfold cur_tokens, tokens_for_line. rewrite bind_get. unfold cur_line, line_there in *.
        replace (loc_line (loc (advd s0))) with (loc_line (loc s0)) by (destruct s0 as [? ? ? [? ?] ? ? ? ? ? ? ? ? ? ? ? ? ? ? ?]; reflexivity).
        replace (st_toks (advd s0)) with (st_toks s0) by (destruct s0; reflexivity).
        replace (immediate (advd s0)) with (immediate s0) by (destruct s0; reflexivity).
        destruct (loc_line (loc s0)) as [k0|]; [|reflexivity].
        destruct (toks_get k0 (st_toks s0)) eqn:Etk; [reflexivity | exfalso; exact (Hl0 k0 eq_refl Etk)]. }
      rewrite Ect. unfold modify.
      set (sd := set_loc _ (advd s0)).
      assert (Hf0 : functions s0 = []) by congruence.
      apply Htail.
      + unfold sd. destruct s0; exact Hon0.
      + apply (caps_inv_ext (bumped sR)); try (unfold sd; destruct s0; cbn in *; congruence).
      + unfold sd. destruct s0; exact Hf0.
      + unfold FramesL, sd. replace (stack (set_loc _ (advd s0))) with (stack (bumped sR)) by (destruct s0; cbn in *; congruence).
        replace (loops (set_loc _ (advd s0))) with (loops (bumped sR)) by (destruct s0; cbn in *; congruence). exact Hfr.
      + replace (loc sd) with (mkloc (loc_line (loc s0)) (length (cur_line s0)))
          by (unfold sd; destruct s0 as [? ? ? [? ?] ? ? ? ? ? ? ? ? ? ? ? ? ? ? ?]; reflexivity).
        apply (Land_end s0 Hon0 Hf0 Hl0).
  Qed.

  Lemma continue_soundL fi s : InvL s -> state s = Running ->
    turn_ok fi s /\ (forall s', continue_evaluating fi s = (Ok tt, s') -> InvL s').
  Proof.
    intros HI Hst. unfold turn_ok, continue_evaluating. rewrite Hst. pose proof (turn_soundL fi s HI) as H.
    destruct (run_next_statement fi s) as [[[]|e l|p| |] s1]; cbn [postprocess]; split; try exact H; try exact I;
      intros s' E; try discriminate E. injection E as <-. exact H.
  Qed.

  Theorem run_soundL fi s0 s : InvL s0 -> Reach fi s0 s -> InvL s /\ (state s = Running -> turn_ok fi s).
  Proof.
    intros H0 Hr. induction Hr as [|s1 s2 Hr IH Hst E].
    - split; [exact H0|]. intros Hst. apply (continue_soundL fi s0 H0 Hst).
    - destruct IH as [HI1 _]. destruct (continue_soundL fi s1 HI1 Hst) as [_ Hn].
      pose proof (Hn s2 E) as HI2. split; [exact HI2|]. intros Hst2. apply (continue_soundL fi s2 HI2 Hst2).
  Qed.

  Theorem run_soundI fi s0 s : InvL s0 -> ReachI fi s0 s -> InvL s /\ (state s = Running -> turn_ok fi s).
  Proof.
    intros H0 Hr. induction Hr as [|s1 s2 Hr IH Hst E|s1 s2 text Hr IH E].
    - split; [exact H0|]. intros Hst. apply (continue_soundL fi s0 H0 Hst).
    - destruct IH as [HI1 _]. destruct (continue_soundL fi s1 HI1 Hst) as [_ Hn].
      pose proof (Hn s2 E) as HI2. split; [exact HI2|]. intros Hst2. apply (continue_soundL fi s2 HI2 Hst2).
    - destruct IH as [HI1 _]. assert (HI2 : InvL s2).
      { unfold provide_input in E. destruct (state s1); try discriminate E. injection E as <-.
        apply (InvL_ext s1 _ HI1); destruct s1; reflexivity. }
      split; [exact HI2|]. intros Hst2. apply (continue_soundL fi s2 HI2 Hst2).
  Qed.

  Theorem run_command_soundL fi line s0 :
    state s0 = Idle -> st_toks s0 = ptoks -> st_keys s0 = pkeys -> caps_inv s0 -> command_of line = Some CRun ->
    match start_evaluating fi line s0 with
    | (Ok _, s1) => InvL s1
    | (Err e _, _) => benign e
    | _ => True
    end.
  Proof.
    intros Hidle Ht Hk Hc Hcmd. unfold start_evaluating, evaluate_impl.
    rewrite bind_get, Hidle, set_imm_is_modify, bind_modify, Hcmd. unfold process_command. rewrite !bind_modify.
    set (sp := set_arrays [] (set_variables [] (set_input None (imm_reset [] s0)))).
    destruct (run_prefix_facts sp) as (s1 & E & F1 & F2 & F3 & F4 & F5 & F6 & F7 & F8 & F9).
    rewrite Safety.bind_run, E.
    assert (HI : InvL s1).
    { assert (Hon1 : onprog s1).
      { repeat split; [rewrite F4 | rewrite F5 | exact F6]; unfold sp, imm_reset; destruct (breakpoint s0); destruct s0; assumption. }
      split; [exact Hon1|].
      split.
      { destruct Hc as (K1 & K2 & K3 & K4 & K5 & K6). unfold caps_inv. rewrite F2, F3, F7, F8.
        replace (variables sp) with (@nil (bytes * value)) by (unfold sp; reflexivity).
        replace (arrays sp) with (@nil (bytes * arr)) by (unfold sp; reflexivity).
        cbn. split; [lia|]. split; [lia|]. split; [constructor|]. split; [apply typed_alist_nil|]. split; [constructor | apply arrays_ok_nil]. }
      split; [exact F1|]. split; [unfold FramesL; rewrite F2, F3; split; constructor|].
      left. rewrite F9. replace (st_keys sp) with pkeys by (unfold sp, imm_reset; destruct (breakpoint s0); destruct s0; symmetry; assumption).
      destruct (hd_error pkeys) as [n|] eqn:Eh.
      - apply G, Hkeys. destruct pkeys as [|n0 ks]; [discriminate Eh|]. injection Eh as ->. left. reflexivity.
      - apply (AccAt_imm0 fa ptoks pkeys s1 Hon1 F1). }
    pose proof (turn_soundL fi s1 HI) as H.
    destruct (run_next_statement fi s1) as [[[]|e l|p| |] s2]; cbn [postprocess]; exact H.
  Qed.
End ProgE.

(* ------------------------------------------------------------------ *)
(* THE THEOREM with ELSE *)
Definition clean2_program (T : list (N * list token)) : Prop :=
  forall n ts, toks_get n T = Some ts -> clean2_line ts = true.

Lemma clean2_nodef T : clean2_program T -> nodef_program T.
Proof.
  intros H n ts E. pose proof (H n ts E) as Hc. unfold clean2_line, nodef_line in *. rewrite forallb_forall in *.
  intros t Ht. specialize (Hc t Ht). destruct t; try reflexivity; discriminate Hc.
Qed.

(* THE THEOREM with ELSE and INPUT: only DEF is excluded; the run includes the host's replies *)
Theorem program_sound_input fuel fi text :
  line_bound text < fuel ->
  forallb (fun msg => negb (is_error_msg msg)) (an_messages (analyze fuel text)) = true ->
  nodef_program (st_toks (p_prog (pass1_of' text))) ->
  forall line s0, state s0 = Idle -> st_toks s0 = st_toks (p_prog (pass1_of' text)) ->
    st_keys s0 = st_keys (p_prog (pass1_of' text)) ->
    caps_inv s0 -> command_of line = Some CRun ->
    match start_evaluating fi line s0 with
    | (Ok _, s1) => forall s, ReachI fi s1 s -> state s = Running -> turn_ok fi s
    | (Err e _, _) => benign e
    | _ => True
    end.
Proof.
  intros Hfuel Hmsgs Hclean line s0 Hidle Ht Hk Hc Hcmd.
  pose proof (accepted_lines_nodef fuel text Hfuel Hmsgs Hclean) as G.
  assert (HPP : PP (0 + length (split_lines text)) (pass1_of' text)) by (apply PP_lines, PP_init).
  destruct HPP as [Hwf _ _ _]. destruct (wf_store _ Hwf) as (_ & Hkeys & _).
  pose proof (run_command_soundL fuel (st_toks (p_prog (pass1_of' text))) (st_keys (p_prog (pass1_of' text))) Hclean G
                (fun n Hn => proj1 (Hkeys n) Hn) fi line s0 Hidle Ht Hk Hc Hcmd) as H.
  destruct (start_evaluating fi line s0) as [[[]|e l|p| |] s1]; try exact H; try exact I.
  intros s Hr Hst.
  exact (proj2 (run_soundI fuel (st_toks (p_prog (pass1_of' text))) (st_keys (p_prog (pass1_of' text))) Hclean G
                  (fun n Hn => proj1 (Hkeys n) Hn) fi s1 s H Hr) Hst).
Qed.

Theorem program_sound_else fuel fi text :
  line_bound text < fuel ->
  forallb (fun msg => negb (is_error_msg msg)) (an_messages (analyze fuel text)) = true ->
  clean2_program (st_toks (p_prog (pass1_of' text))) ->
  forall line s0, state s0 = Idle -> st_toks s0 = st_toks (p_prog (pass1_of' text)) ->
    st_keys s0 = st_keys (p_prog (pass1_of' text)) ->
    caps_inv s0 -> command_of line = Some CRun ->
    match start_evaluating fi line s0 with
    | (Ok _, s1) => forall s, Reach fi s1 s -> state s = Running -> turn_ok fi s
    | (Err e _, _) => benign e
    | _ => True
    end.
Proof.
  intros Hfuel Hmsgs Hclean line s0 Hidle Ht Hk Hc Hcmd.
  pose proof (program_sound_input fuel fi text Hfuel Hmsgs (clean2_nodef _ Hclean) line s0 Hidle Ht Hk Hc Hcmd) as H.
  destruct (start_evaluating fi line s0) as [[[]|e l|p| |] s1]; try exact H; try exact I.
  intros s Hr Hst. exact (H s (ReachI_of_Reach fi s1 s Hr) Hst).
Qed.
