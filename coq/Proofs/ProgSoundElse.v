(* Proofs/ProgSoundElse.v — C06, whole programs WITH ELSE.
   The theorem of Proofs/ProgSound.v without the "no ELSE" restriction: if the
   checker accepts every line of a program that contains no INPUT and no DEF
   token, no run of it fails with a syntax error, a type mismatch or a jump to
   an undefined line.

   What changes with ELSE:
   - a position the interpreter can come to is now ACCEPTED (the checker's walk
     over the rest of the line succeeds from it) or holds an ELSE that follows
     a THEN with no ":" in between ([ElseOK]: the statement dispatcher skips the
     rest of the line there) — [Land];
   - the end of a THEN / ELSE clause is a position AFTER which the line goes on
     as the checker saw it ([After], inductive): accepted, or an ELSE followed
     by a clause the checker accepted whose end is again such a position;
   - a false IF scans for the first ELSE: the scan is followed along the
     checker's own run over the same tokens ([ScanAt]); everything a
     non-branching statement consumes is neither ELSE nor ":" (PlainToks.v). *)
From Coq Require Import List NArith ZArith Bool Lia.
From Abasic Require Import Model.Bytes Model.Num Model.Token Model.Data Model.Lexer Gen.Tables
     Model.State Model.Eval Model.Interp Model.Analyzer Proofs.Monad Proofs.Frames Proofs.StoreProofs
     Proofs.Safety Proofs.Caps Proofs.ImmFrame Proofs.AnalyzerFrame Proofs.CheckSound Proofs.AnalyzerFns
     Proofs.AnalyzerSafety Proofs.AnalyzerTermination Proofs.PlainToks Proofs.ProgSound.
Import ListNotations.
Local Open Scope nat_scope.

Definition clean2_tok (t : token) : bool := match t with TInput | TDef => false | _ => true end.
Definition clean2_line (ts : list token) : bool := forallb clean2_tok ts.

(* [then_before] over a longer prefix: tokens that are not ":" keep it true *)
Lemma then_before_app pre ts :
  then_before (rev pre) = true -> forallb (fun t => negb (token_eqb t TColon)) ts = true ->
  then_before (rev (pre ++ ts)) = true.
Proof.
  revert pre. induction ts as [|t ts IH]; intros pre H Hc; [rewrite app_nil_r; exact H|].
  cbn [forallb] in Hc. apply andb_prop in Hc as [Ht Hc].
  replace (pre ++ t :: ts) with ((pre ++ [t]) ++ ts) by (rewrite <- app_assoc; reflexivity).
  apply IH; [|exact Hc]. rewrite rev_app_distr. cbn [rev app then_before].
  destruct t; try exact H; try reflexivity. discriminate Ht.
Qed.

Lemma firstn_S_nth {A} (l : list A) i t : nth_error l i = Some t -> firstn (S i) l = firstn i l ++ [t].
Proof.
  revert i. induction l as [|x l IH]; intros i H; [destruct i; discriminate|].
  destruct i as [|i]; [cbn in H; injection H as ->; reflexivity|].
  cbn [firstn app]. f_equal. apply IH. exact H.
Qed.

Section ProgE.
  Variable fa : nat.
  Variable ptoks : list (N * list token).
  Variable pkeys : list N.
  Hypothesis Hclean : forall n ts, toks_get n ptoks = Some ts -> clean2_line ts = true.
  Hypothesis G : forall n, toks_get n ptoks <> None -> AccAt fa ptoks pkeys (mkloc (Some n) 0).
  Hypothesis Hkeys : forall n, In n pkeys -> toks_get n ptoks <> None.

  Notation onprog := (onprog ptoks pkeys).
  Notation AccAt := (AccAt fa ptoks pkeys).

  Definition toks_at (l : location) : list token :=
    match loc_line l with
    | Some n => match toks_get n ptoks with Some ts => ts | None => [] end
    | None => []
    end.

  Lemma cur_line_onprog s : onprog s -> cur_line s = toks_at (loc s).
  Proof. intros (O1 & _ & O3). unfold cur_line, toks_at. rewrite O1, O3. reflexivity. Qed.

  Lemma clean2_at s i t : onprog s -> nth_error (cur_line s) i = Some t -> clean2_tok t = true.
  Proof.
    intros Hon Hn. rewrite (cur_line_onprog s Hon) in Hn. unfold toks_at in Hn.
    destruct (loc_line (loc s)) as [n|]; [|destruct i; discriminate].
    destruct (toks_get n ptoks) as [ts|] eqn:E; [|destruct i; discriminate].
    pose proof (Hclean n ts E) as Hc. unfold clean2_line in Hc. rewrite forallb_forall in Hc.
    apply Hc. eapply nth_error_In; eassumption.
  Qed.

  (* an ELSE where a statement would start, behind a THEN with no ":" in between:
     the dispatcher abandons the line there *)
  Definition ThenB (l : location) : Prop := then_before (rev (firstn (loc_idx l) (toks_at l))) = true.
  Definition ElseOK (l : location) : Prop :=
    (exists n, loc_line l = Some n /\ toks_get n ptoks <> None)
    /\ nth_error (toks_at l) (loc_idx l) = Some TElse /\ ThenB l.
  Definition Land (l : location) : Prop := AccAt l \/ ElseOK l.

  Definition FramesL (s : interp) : Prop :=
    Forall (fun fr => Land (fr_ret fr)) (stack s) /\ Forall (fun lp => Land (lp_loc lp)) (loops s).

  (* the end of a clause *)
  Inductive After : location -> Prop :=
  | After_acc l : AccAt l -> After l
  | After_else l sa acc f n sa' acc' :
      nth_error (toks_at l) (loc_idx l) = Some TElse ->
      onprog sa -> functions sa = [] -> loc sa = mkloc (loc_line l) (S (loc_idx l)) ->
      an_statement_or_goto (analyze_statement f n) (sa, acc) = (Ok tt, (sa', acc')) ->
      After (loc sa') -> After l.

  (* ThenB moves forward over tokens that are not ":" *)
  Lemma ThenB_forward l l' :
    loc_line l' = loc_line l -> loc_idx l <= loc_idx l' -> ThenB l ->
    (forall q, loc_idx l <= q < loc_idx l' -> exists t, nth_error (toks_at l) q = Some t /\ token_eqb t TColon = false) ->
    ThenB l'.
  Proof.
    intros Hl Hi Hb Hq. unfold ThenB in *.
    assert (Et : toks_at l' = toks_at l) by (unfold toks_at; rewrite Hl; reflexivity). rewrite Et.
    remember (loc_idx l' - loc_idx l) as d eqn:Ed.
    assert (Ei : loc_idx l' = loc_idx l + d) by lia. rewrite Ei. rewrite Ei in Hq. clear Ei Ed Hi Et Hl.
    induction d as [|d IH]; [rewrite Nat.add_0_r; exact Hb|].
    replace (loc_idx l + S d) with (S (loc_idx l + d)) by lia.
    destruct (Hq (loc_idx l + d) ltac:(lia)) as (t & Ht & Hc).
    rewrite (firstn_S_nth _ _ _ Ht). apply then_before_app.
    - apply IH. intros q Hq'. apply Hq. lia.
    - cbn. rewrite Hc. reflexivity.
  Qed.

  (* ------------------------------------------------------------------ *)
  (* execution with the checker alongside *)
  Definition TBs (s : interp) : Prop := ThenB (loc s).

  Definition tsoundE (n1 : nat) (m : M unit) (a : MA unit) : Prop :=
    forall s sa acc sa' acc', R s sa -> onprog s -> FramesL s -> (n1 <> 0 -> TBs s) ->
      a (sa, acc) = (Ok tt, (sa', acc')) -> After (loc sa') -> (n1 = 0 -> AccAt (loc sa')) ->
      match m s with
      | (Ok _, s') => functions s' = [] /\ FramesL s' /\ (C s' sa' \/ Land (loc s'))
      | (Err e _, _) => benign e
      | _ => True
      end.

  Lemma line_of_loc s n : onprog s -> loc_line (loc s) = Some n -> line_there s -> toks_get n ptoks <> None.
  Proof. intros (O1 & _) Hl Ht. rewrite <- O1. exact (Ht n Hl). Qed.

  (* the end of a clause the interpreter stands at, as a landing position *)
  Lemma land_of_after l : After l -> ThenB l -> Land l.
  Proof.
    intros Ha Hb. destruct Ha as [l Hacc | l sa acc f n sa' acc' Ht _ _ _ _ _]; [left; exact Hacc|].
    right. split; [|split; [exact Ht | exact Hb]].
    unfold toks_at in Ht. destruct (loc_line l) as [k|]; [|destruct (loc_idx l); discriminate Ht].
    exists k. split; [reflexivity|]. destruct (toks_get k ptoks); [discriminate | destruct (loc_idx l); discriminate Ht].
  Qed.

  Lemma land_here n1 s sa : R s sa -> After (loc sa) -> (n1 = 0 -> AccAt (loc sa)) -> (n1 <> 0 -> TBs s) -> Land (loc s).
  Proof.
    intros HR Ha Htop Htb. assert (El : loc s = loc sa) by apply HR.
    destruct n1 as [|n1]; [left; rewrite El; apply Htop; reflexivity|].
    rewrite <- El in Ha. apply (land_of_after _ Ha). apply Htb. discriminate.
  Qed.

  Lemma next_token_bothL s sa acc : R s sa -> onprog s -> FramesL s ->
    fst (next_token s) = fst (next_token sa)
    /\ lift next_token (sa, acc) = (fst (next_token sa), (snd (next_token sa), acc))
    /\ R (snd (next_token s)) (snd (next_token sa)) /\ onprog (snd (next_token s)) /\ FramesL (snd (next_token s)).
  Proof.
    intros HR Hon Hfr. destruct (cp_next_token s sa (proj1 HR)) as (E & HC & K1 & K2).
    split; [exact E|]. split; [unfold lift; cbn [fst snd]; destruct (next_token sa); reflexivity|].
    split; [eapply R_same_rt; eassumption|].
    split; [apply (onprog_step ptoks pkeys next_token s (keeps_next_token st_toks rf_st_toks)
                     (keeps_next_token st_keys rf_st_keys) imm_next_token Hon)|].
    destruct K1 as (S1 & S2 & _). unfold FramesL. rewrite S1, S2. exact Hfr.
  Qed.

  (* reading one token that is not ":" keeps ThenB *)
  Lemma TBs_advd s t : nth_error (cur_line s) (loc_idx (loc s)) = Some t -> token_eqb t TColon = false ->
    onprog s -> TBs s -> TBs (advd s).
  Proof.
    intros Ht Hc Hon Hb. unfold TBs in *.
    apply (ThenB_forward (loc s)); [destruct s as [? ? ? [? ?] ? ? ? ? ? ? ? ? ? ? ? ? ? ? ?]; reflexivity
                                  | destruct s as [? ? ? [? ?] ? ? ? ? ? ? ? ? ? ? ? ? ? ? ?]; cbn; lia | exact Hb |].
    intros q Hq. assert (q = loc_idx (loc s)) by (destruct s as [? ? ? [? ?] ? ? ? ? ? ? ? ? ? ? ? ? ? ? ?]; cbn in *; lia). subst q.
    exists t. split; [rewrite <- (cur_line_onprog s Hon); exact Ht | exact Hc].
  Qed.

  (* ---- GOTO, GOSUB ---- *)
  Lemma tsoundE_goto n1 : tsoundE n1 evaluate_goto_statement an_goto_or_gosub.
  Proof.
    intros s sa acc sa' acc' HR Hon Hfr Htb Ea Haft Htop.
    destruct (an_goto_inv _ _ _ _ Ea) as (x & En & -> & Eh).
    destruct (next_token_bothL s sa acc HR Hon Hfr) as (E1 & _ & HR1 & Hon1 & Hfr1).
    rewrite En in *. cbn [fst snd] in *.
    unfold evaluate_goto_statement. rewrite Safety.bind_run.
    destruct (next_token s) as [r s1]. cbn [fst snd] in *. subst r.
    assert (Eh1 : store_has (Z.to_N (f64_to_u64_sat x)) s1 = true).
    { unfold store_has in *. destruct HR1 as ((C1 & _) & _). rewrite C1. exact Eh. }
    rewrite (goto_ok s1 _ Eh1).
    split; [destruct s1; apply HR1|]. split; [destruct s1; exact Hfr1|].
    right. left. apply G. exact (store_has_line ptoks pkeys _ _ Hon1 Eh1).
  Qed.

  Lemma tsoundE_gosub n1 : tsoundE n1 evaluate_gosub_statement an_goto_or_gosub.
  Proof.
    intros s sa acc sa' acc' HR Hon Hfr Htb Ea Haft Htop.
    destruct (an_goto_inv _ _ _ _ Ea) as (x & En & -> & Eh).
    destruct (next_token_bothL s sa acc HR Hon Hfr) as (E1 & _ & HR1 & Hon1 & Hfr1).
    unfold evaluate_gosub_statement. rewrite Safety.bind_run.
    destruct (next_token_cases s) as [[p Hp] | [Hlt Hn]]; [rewrite Hp; exact I|].
    rewrite En in *. cbn [fst snd] in *.
    destruct (next_token s) as [r s1] eqn:Ens. cbn [fst snd] in *. subst r.
    destruct (nth_error (cur_line s) (loc_idx (loc s))) as [t|] eqn:Et; [|discriminate Hn].
    injection Hn as Ht Hs1. subst t s1.
    assert (Eh1 : store_has (Z.to_N (f64_to_u64_sat x)) (advd s) = true).
    { unfold store_has in *. destruct HR1 as ((C1 & _) & _). rewrite C1. exact Eh. }
    unfold gosub_line_number. rewrite bind_get.
    destruct (Nat.eqb (length (stack (advd s))) stack_limit); [exact I|].
    rewrite bind_get, Safety.bind_run, (goto_ok (advd s) _ Eh1). unfold modify.
    split; [destruct s; apply HR1|]. split; [|right; left; apply G; exact (store_has_line ptoks pkeys _ _ Hon1 Eh1)].
    destruct Hfr1 as [F1 F2]. split; [|destruct s; exact F2].
    replace (stack (set_stack _ _)) with (stack (advd s) ++ [mkframe (loc (advd s)) []]) by (destruct s; reflexivity).
    apply Forall_app. split; [exact F1|]. constructor; [|constructor]. cbn [fr_ret].
    apply (land_here n1 (advd s) sa' HR1 Haft Htop).
    intros Hn1. apply (TBs_advd s (TNumber x) Et eq_refl Hon (Htb Hn1)).
  Qed.

  (* ---- RETURN, END, STOP ---- *)
  Lemma tsoundE_return n1 : tsoundE n1 return_to_last_gosub (aret tt).
  Proof.
    intros s sa acc sa' acc' HR Hon Hfr Htb Ea Haft Htop.
    unfold return_to_last_gosub. rewrite bind_modify, bind_get.
    replace (stack (set_breakpoint None s)) with (stack s) by (destruct s; reflexivity).
    destruct (rev (stack s)) as [|fr rest] eqn:Er; [exact I|].
    unfold modify. destruct Hfr as [F1 F2].
    assert (Est : stack s = rev rest ++ [fr]).
    { rewrite <- (rev_involutive (stack s)), Er. reflexivity. }
    rewrite Est in F1. apply Forall_app in F1. destruct F1 as [F1a F1b].
    split; [destruct s; apply HR|]. split; [split; [destruct s; exact F1a | destruct s; exact F2]|].
    right. inversion F1b; subst. destruct s; assumption.
  Qed.

  Lemma onprog_of_R s sa : R s sa -> onprog s -> onprog sa.
  Proof. intros HR. apply (onprog_of_C ptoks pkeys). apply HR. Qed.

  Lemma tsoundE_end n1 : tsoundE n1 program_end (aret tt).
  Proof.
    intros s sa acc sa' acc' HR Hon Hfr Htb Ea Haft Htop. injection Ea as <- <-.
    unfold program_end. rewrite set_imm_is_modify. unfold modify.
    pose proof (onprog_of_R s sa HR Hon) as Hona.
    split; [unfold imm_reset; destruct (breakpoint s); destruct s; apply HR|].
    split; [|right; left; replace (loc (imm_reset [] s)) with imm0 by (unfold imm_reset; destruct (breakpoint s); destruct s; reflexivity);
             apply (AccAt_imm0 fa ptoks pkeys sa Hona); apply HR].
    destruct Hfr as [F1 F2]. unfold imm_reset.
    destruct (breakpoint s); (split; [destruct s; cbn; first [exact F1 | constructor] | destruct s; exact F2]).
  Qed.

  Lemma tsoundE_stop n1 : tsoundE n1 break_at_current_location (aret tt).
  Proof.
    intros s sa acc sa' acc' HR Hon Hfr Htb Ea Haft Htop. injection Ea as <- <-.
    unfold break_at_current_location, get_line_number, push_output, program_break_at_current_location.
    rewrite bind_modify, Safety.bind_run, bind_get. unfold ret at 1. cbv iota beta.
    rewrite bind_modify, bind_get, bind_modify, set_imm_is_modify. unfold modify.
    pose proof (onprog_of_R s sa HR Hon) as Hona.
    set (s2 := set_breakpoint _ _).
    assert (E2 : functions s2 = functions s /\ stack s2 = stack s /\ loops s2 = loops s) by (destruct s; repeat split).
    destruct E2 as (Ef & Es & El).
    split; [unfold imm_reset; destruct (breakpoint s2); destruct s2; cbn in *; rewrite Ef; apply HR|].
    split; [|right; left; replace (loc (imm_reset [] s2)) with imm0 by (unfold imm_reset; destruct (breakpoint s2); destruct s2; reflexivity);
             apply (AccAt_imm0 fa ptoks pkeys sa Hona); apply HR].
    destruct Hfr as [F1 F2]. rewrite <- Es in F1. rewrite <- El in F2. unfold imm_reset.
    destruct (breakpoint s2); (split; [destruct s2; cbn in *; first [exact F1 | constructor] | destruct s2; exact F2]).
  Qed.

  (* ---- NEXT ---- *)
  Lemma drop_loop_framesL sym s : FramesL s -> FramesL (drop_loop sym s).
  Proof.
    intros [F1 F2]. unfold drop_loop. destruct (find_loop_rev sym (loops s)) as [i|]; [|split; assumption].
    split; [destruct s; exact F1|]. replace (loops (set_loops _ s)) with (firstn i (loops s)) by (destruct s; reflexivity).
    rewrite <- (firstn_skipn i (loops s)) in F2. apply Forall_app in F2. apply F2.
  Qed.

  Lemma tsoundE_next n1 : tsoundE n1 evaluate_next_statement an_next.
  Proof.
    intros s sa acc sa' acc' HR Hon Hfr Htb Ea Haft Htop.
    destruct (an_next_inv _ _ _ _ Ea) as (sym & En & Hty).
    destruct (next_token_bothL s sa acc HR Hon Hfr) as (E1 & _ & HR1 & Hon1 & Hfr1).
    rewrite En in *. cbn [fst snd] in *.
    unfold evaluate_next_statement. rewrite Safety.bind_run.
    destruct (next_token s) as [r s1]. cbn [fst snd] in *. subst r.
    unfold end_loop. rewrite Safety.bind_run.
    destruct (variables_get_kind sym s1 (proj1 (proj2 HR1))) as [Ev Hk]. rewrite Ev.
    destruct (match alist_get sym (variables s1) with Some v => v | None => default_value sym end) as [b|x];
      [cbn in Hk; congruence|].
    rewrite Safety.bind_run, remove_loop_eq.
    pose proof (drop_loop_framesL sym s1 Hfr1) as Hfd.
    destruct (drop_loop_fields sym s1) as (D1 & D2 & D3 & D4 & D5).
    set (s2 := drop_loop sym s1) in *.
    destruct (find_loop_rev sym (loops s1)) as [i|] eqn:Efl; [|exact I].
    destruct (nth_error (loops s1) i) as [li|] eqn:Eli; [|exact I].
    destruct (negb (bytes_eqb (lp_sym li) sym)); [exact I|]. cbv zeta.
    assert (Hli : Land (lp_loc li)).
    { destruct Hfr1 as [_ F2]. rewrite Forall_forall in F2. apply F2. eapply nth_error_In; eassumption. }
    assert (Htm : type_matches sym (VNum (f64_add x (lp_step li))) = true).
    { unfold type_matches, type_of_name in *. destruct (ends_with_dollar sym); [discriminate | reflexivity]. }
    assert (Hf2 : functions s2 = []).
    { unfold s2, drop_loop. destruct (find_loop_rev sym (loops s1)); destruct s1; apply HR1. }
    match goal with |- context [if ?c then modify _ else ret tt] => destruct c end.
    - rewrite bind_modify, variables_set_eq, Htm.
      split; [destruct s2; exact Hf2|]. split; [|right; destruct s2; exact Hli].
      destruct Hfd as [F1 F2]. split; [destruct s2; exact F1|].
      replace (loops (set_variables _ _)) with (loops s2 ++ [li]) by (destruct s2; reflexivity).
      apply Forall_app. split; [exact F2 | constructor; [exact Hli | constructor]].
    - rewrite Safety.bind_ret, variables_set_eq, Htm.
      split; [destruct s2; exact Hf2|]. split; [destruct Hfd; split; destruct s2; assumption|].
      left. destruct HR1 as ((C1 & C2 & C3 & C4) & _).
      repeat split; destruct s2; cbn in *; congruence.
  Qed.

  (* ---- FOR ---- *)
  Lemma TBs_of_PL s sa s' sa' : loc s = loc sa -> loc s' = loc sa' -> onprog sa -> PL plainT sa sa' -> TBs s -> TBs s'.
  Proof.
    intros E1 E2 Hon (P1 & P2 & P3 & P4 & P5) Hb. unfold TBs in *. rewrite E1 in Hb. rewrite E2.
    apply (ThenB_forward (loc sa)); [exact P3 | exact P4 | exact Hb|].
    intros q Hq. destruct (P5 q Hq) as (t & Ht & Hp). exists t.
    split; [|destruct t; try reflexivity; discriminate Hp].
    replace (toks_at (loc sa)) with (line_of sa); [exact Ht|].
    unfold line_of, toks_at. destruct Hon as (O1 & _ & O3). rewrite O1, O3. reflexivity.
  Qed.

  Lemma tsoundE_for n1 fi f2 nest nest2 : tsoundE n1 (evaluate_for_statement fi nest) (an_for f2 nest2).
  Proof.
    intros s sa acc sa' acc' HR Hon Hfr Htb Ea Haft Htop.
    pose proof (sound_for fi f2 nest nest2 s sa acc HR) as Hs. rewrite Ea in Hs.
    pose proof (for_shape fi nest s) as Hsh.
    pose proof (aplp_for f2 nest2 (sa, acc) tt (sa', acc') Ea) as Hpl. cbn [fst] in Hpl.
    destruct (evaluate_for_statement fi nest s) as [[[]|e l|p| |] s']; cbn [snd] in *; try exact Hs; try exact I.
    destruct Hs as [_ HR']. destruct (Hsh s' (proj1 (proj2 (proj2 HR))) eq_refl) as [Hst Hlp].
    assert (Hland : Land (loc s')).
    { apply (land_here n1 s' sa' HR' Haft Htop). intros Hn1.
      apply (TBs_of_PL s sa s' sa'); [apply HR | apply HR' | exact (onprog_of_R s sa HR Hon) | exact Hpl | exact (Htb Hn1)]. }
    split; [apply HR'|]. split; [|left; apply HR'].
    destruct Hfr as [F1 F2]. split; [rewrite Hst; exact F1|].
    rewrite Forall_forall in *. intros lp Hin. destruct (Hlp lp Hin) as [H|H]; [apply F2; exact H | rewrite H; exact Hland].
  Qed.

  (* ---- statements that keep the two cursors together and the frames alone ---- *)
  Lemma tsoundE_of_sound n1 m a :
    sound (fun _ _ => True) m a -> mrel KS m -> tsoundE n1 m a.
  Proof.
    intros Hs Hk s sa acc sa' acc' HR Hon Hfr Htb Ea Haft Htop.
    specialize (Hs s sa acc HR). rewrite Ea in Hs. pose proof (Hk s) as K.
    destruct (m s) as [[u|e l|p| |] s']; cbn [snd] in *; try exact Hs; try exact I.
    destruct Hs as [_ HR']. destruct (K (proj1 (proj2 (proj2 HR)))) as (F1 & F2 & F3).
    split; [exact F1|]. split; [unfold FramesL; rewrite F2, F3; exact Hfr | left; apply HR'].
  Qed.

  (* the probe after a clause that has run *)
  Definition probe : M unit := e <- peek_is TElse ;; if e then discard_remaining_tokens else ret tt.

  Lemma probe_assoc {B C} (k : M B) (g : B -> M C) s :
    bind (bind (peek_is TElse) (fun e => bind (if e then discard_remaining_tokens else ret tt) (fun _ => k))) g s
    = bind probe (fun _ => bind k g) s.
  Proof.
    unfold probe, bind. destruct (peek_is TElse s) as [[e|? ?|?| |] s1]; try reflexivity.
    destruct e; [destruct (discard_remaining_tokens s1) as [[[]|? ?|?| |] s2] | unfold ret]; reflexivity.
  Qed.

  Lemma Land_end s : onprog s -> functions s = [] -> line_there s ->
    Land (mkloc (loc_line (loc s)) (length (cur_line s))).
  Proof.
    intros Hon Hfn Hlt. left. apply (AccAt_end fa ptoks pkeys s _ Hon Hfn).
    - replace (cur_line (set_loc _ s)) with (cur_line s) by (destruct s as [? ? ? [? ?] ? ? ? ? ? ? ? ? ? ? ? ? ? ? ?]; reflexivity).
      cbn [loc_idx]. apply nth_error_None. apply le_n.
    - cbn [loc_line]. intros n Hn. destruct Hon as (O1 & _). rewrite <- O1. exact (Hlt n Hn).
  Qed.

  (* after the clause: together with the checker at the clause's end, or landed somewhere *)
  Lemma probe_sound s sa : onprog s -> functions s = [] -> FramesL s ->
    (C s sa /\ functions sa = [] \/ Land (loc s)) ->
    match probe s with
    | (Ok _, s') =>
        functions s' = [] /\ FramesL s' /\ onprog s'
        /\ ((C s' (bumped sa) /\ C s sa /\ nth_error (cur_line s) (loc_idx (loc s)) <> Some TElse) \/ Land (loc s'))
    | (Err _ _, _) => False
    | _ => True
    end.
  Proof.
    intros Hon Hfn Hfr Hpos. unfold probe, peek_is. rewrite bind_assoc_t, Safety.bind_run.
    destruct (peek_cases s) as [[p Hp] | [Hp Hlt]]; rewrite Hp; [exact I|]. rewrite Safety.bind_ret.
    assert (Hb : onprog (bumped s) /\ functions (bumped s) = [] /\ FramesL (bumped s) /\ loc (bumped s) = loc s)
      by (destruct s; repeat split; first [apply Hon | exact Hfn | apply Hfr]).
    destruct Hb as (Hon' & Hfn' & Hfr' & Hloc').
    destruct (nth_error (cur_line s) (loc_idx (loc s))) as [t|] eqn:Et.
    - destruct (token_eqb t TElse) eqn:Eq.
      + (* ELSE: the rest of the line is skipped *)
        unfold discard_remaining_tokens. rewrite Safety.bind_run.
        assert (Ect : cur_tokens (bumped s) = (Ok (cur_line s), bumped s)).
        { unfold cur_tokens, tokens_for_line. rewrite bind_get. unfold cur_line, line_there in *.
          replace (loc_line (loc (bumped s))) with (loc_line (loc s)) by (destruct s; reflexivity).
          replace (st_toks (bumped s)) with (st_toks s) by (destruct s; reflexivity).
          replace (immediate (bumped s)) with (immediate s) by (destruct s; reflexivity).
          destruct (loc_line (loc s)) as [k|]; [|reflexivity].
          destruct (toks_get k (st_toks s)) eqn:Etk; [reflexivity | exfalso; exact (Hlt k eq_refl Etk)]. }
        rewrite Ect. unfold modify.
        split; [destruct s; exact Hfn|]. split; [destruct s; exact Hfr|]. split; [destruct s; exact Hon|].
        right. replace (loc (set_loc _ (bumped s))) with (mkloc (loc_line (loc s)) (length (cur_line s))) by (destruct s; reflexivity).
        apply (Land_end s Hon Hfn Hlt).
      + unfold ret. cbn [fst snd].
        split; [exact Hfn'|]. split; [exact Hfr'|]. split; [exact Hon'|].
        destruct Hpos as [[HC Hfa] | HL]; [left | right; rewrite Hloc'; exact HL].
        split; [destruct HC as (C1 & C2 & C3 & C4); repeat split; destruct s, sa; assumption|].
        split; [exact HC|]. intros E. injection E as ->. discriminate Eq.
    - unfold ret. cbn [fst snd].
      split; [exact Hfn'|]. split; [exact Hfr'|]. split; [exact Hon'|].
      destruct Hpos as [[HC Hfa] | HL]; [left | right; rewrite Hloc'; exact HL].
      split; [destruct HC as (C1 & C2 & C3 & C4); repeat split; destruct s, sa; assumption|].
      split; [exact HC | discriminate].
  Qed.

  (* the checker keeps the program and, there being no DEF, the empty function table *)
  Lemma clean_store sa : onprog sa -> CleanStore sa.
  Proof.
    intros (O1 & _ & O3). split; [|exact O3]. rewrite O1. intros n ts E. pose proof (Hclean n ts E) as H.
    unfold clean2_line, nodef_line in *. rewrite forallb_forall in *. intros t Ht. specialize (H t Ht).
    destruct t; try reflexivity; discriminate H.
  Qed.

  Lemma keepA {A} (a : MA A) sa acc : aofn a -> onprog sa -> functions sa = [] ->
    onprog (fst (snd (a (sa, acc)))) /\ functions (fst (snd (a (sa, acc)))) = [].
  Proof.
    intros Ha Hon Hfn. pose proof (Ha (sa, acc)) as (A1 & A2 & A3 & A4). cbn [fst] in *.
    destruct Hon as (O1 & O2 & O3).
    split; [repeat split; congruence|]. rewrite A4; [exact Hfn|]. apply clean_store. repeat split; assumption.
  Qed.

  Lemma keepM {A} (m : M A) sa : orel RFN m -> onprog sa -> functions sa = [] ->
    onprog (snd (m sa)) /\ functions (snd (m sa)) = [].
  Proof.
    intros Hm Hon Hfn. pose proof (Hm sa) as (A1 & A2 & A3 & A4).
    destruct Hon as (O1 & O2 & O3).
    split; [repeat split; congruence|]. rewrite A4; [exact Hfn|]. apply clean_store. repeat split; assumption.
  Qed.

  (* ------------------------------------------------------------------ *)
  (* one level of statements: [rec] is the interpreter's statement evaluator one level down *)
  Section Level.
    Variable rec : M unit.
    Variable n1r : nat.
    Hypothesis Hn1r : n1r <> 0.
    Hypothesis Hrec : forall f n, tsoundE n1r rec (analyze_statement f n).
    Hypothesis Hk1 : mrel (keeps st_toks) rec.
    Hypothesis Hk2 : mrel (keeps st_keys) rec.
    Hypothesis Him : mrel IM rec.
    Hypothesis Hcaps : mrel (inv_rel caps_inv) rec.

    Lemma tsoundE_stmt_or_goto f n :
      tsoundE n1r (statement_or_goto_line_number rec) (an_statement_or_goto (analyze_statement f n)).
    Proof.
      intros s sa acc sa' acc' HR Hon Hfr Htb Ea Haft Htop.
      unfold statement_or_goto_line_number, an_statement_or_goto in *. unfold abind, lift in Ea. cbn [fst snd] in Ea.
      destruct (cp_peek s sa (proj1 HR)) as (E & HC & K1 & K2).
      pose proof (onprog_step ptoks pkeys peek_next_token s (keeps_peek st_toks rf_st_toks) (keeps_peek st_keys rf_st_keys) imm_peek Hon) as Hon1.
      rewrite Safety.bind_run.
      destruct (peek_cases s) as [[p Hp] | [Hp Hlt]]; [rewrite Hp; exact I|].
      rewrite Hp in *. cbn [fst snd] in *.
      destruct (peek_next_token sa) as [r' sa1]. cbn [fst snd] in *. subst r'.
      assert (HR1 : R (bumped s) sa1) by (eapply R_same_rt; eassumption).
      assert (Hfr1 : FramesL (bumped s)) by (destruct s; exact Hfr).
      assert (Htb1 : n1r <> 0 -> TBs (bumped s)) by (intros H; destruct s; exact (Htb H)).
      destruct (nth_error (cur_line s) (loc_idx (loc s))) as [t|].
      - destruct t; try exact (Hrec f n (bumped s) sa1 acc sa' acc' HR1 Hon1 Hfr1 Htb1 Ea Haft Htop).
        exact (tsoundE_goto n1r (bumped s) sa1 acc sa' acc' HR1 Hon1 Hfr1 Htb1 Ea Haft Htop).
      - exact (Hrec f n (bumped s) sa1 acc sa' acc' HR1 Hon1 Hfr1 Htb1 Ea Haft Htop).
    Qed.

    Lemma onprog_stmt_or_goto s : onprog s -> onprog (snd (statement_or_goto_line_number rec s)).
    Proof.
      apply (onprog_step ptoks pkeys (statement_or_goto_line_number rec) s
               (keeps_stmt_or_goto st_toks rf_st_toks rec Hk1) (keeps_stmt_or_goto st_keys rf_st_keys rec Hk2)
               (imm_stmt_or_goto rec Him)).
    Qed.

    (* ---- the scan of a false IF ---- *)
    Definition ScanOK (s : interp) : Prop :=
      forall k, match repeat_m k (scan_body rec) tt s with
                | (Ok _, s') => functions s' = [] /\ FramesL s' /\ Land (loc s')
                | (Err e _, _) => benign e
                | _ => True
                end.

    Definition GoodS (s : interp) : Prop := onprog s /\ caps_inv s /\ functions s = [] /\ FramesL s /\ TBs s.
    Definition ScanAt (l : location) : Prop := forall s, GoodS s -> loc s = l -> ScanOK s.

    Lemma GoodS_ext s s' : GoodS s ->
      st_toks s' = st_toks s -> st_keys s' = st_keys s -> immediate s' = immediate s -> loc s' = loc s ->
      functions s' = functions s -> stack s' = stack s -> loops s' = loops s ->
      variables s' = variables s -> arrays s' = arrays s -> GoodS s'.
    Proof.
      intros ((O1 & O2 & O3) & Hc & Hf & (F1 & F2) & Ht) E1 E2 E3 E4 E5 E6 E7 E8 E9.
      split; [repeat split; congruence|]. split; [apply (caps_inv_ext s); assumption|]. split; [congruence|].
      split; [unfold FramesL; rewrite E6, E7; split; assumption | unfold TBs in *; rewrite E4; exact Ht].
    Qed.

    (* the scan arrives at an ELSE behind which the checker accepted a clause *)
    Lemma scan_else l sa acc f n sa' acc' :
      nth_error (toks_at l) (loc_idx l) = Some TElse ->
      onprog sa -> functions sa = [] -> loc sa = mkloc (loc_line l) (S (loc_idx l)) ->
      an_statement_or_goto (analyze_statement f n) (sa, acc) = (Ok tt, (sa', acc')) ->
      After (loc sa') -> ScanAt l.
    Proof.
      intros Ht Hona Hfa Hla Ea Haft s (Hon & Hc & Hfn & Hfr & Htb) Hl k.
      destruct k as [|k]; [exact I|]. cbn [repeat_m]. unfold scan_body at 1. rewrite bind_assoc_t, Safety.bind_run.
      destruct (next_token_cases s) as [[p Hp] | [Hlt Hn]]; [rewrite Hp; exact I|]. rewrite Hn.
      rewrite (cur_line_onprog s Hon), Hl, Ht.
      rewrite bind_assoc_t, Safety.bind_run.
      assert (HRa : R (advd s) sa).
      { split; [|split; [apply (caps_inv_ext s); try (destruct s; reflexivity); exact Hc | split; [destruct s; exact Hfn | exact Hfa]]].
        destruct Hon as (O1 & O2 & O3), Hona as (A1 & A2 & A3).
        repeat split; try (destruct s; cbn in *; congruence). }
      assert (Hona' : onprog (advd s)) by (destruct s; exact Hon).
      assert (Hfr' : FramesL (advd s)) by (destruct s; exact Hfr).
      assert (Htb' : n1r <> 0 -> TBs (advd s)).
      { intros _. apply (TBs_advd s TElse); [rewrite (cur_line_onprog s Hon), Hl; exact Ht | reflexivity | exact Hon | exact Htb]. }
      pose proof (tsoundE_stmt_or_goto f n (advd s) sa acc sa' acc' HRa Hona' Hfr' Htb' Ea Haft
                    (fun H => False_ind _ (Hn1r H))) as H3.
      pose proof (onprog_stmt_or_goto (advd s) Hona') as Hon3.
      destruct (statement_or_goto_line_number rec (advd s)) as [[[]|e l0|p| |] s3]; cbn [snd] in *; try exact H3; try exact I.
      destruct H3 as (F3 & Fr3 & Pos3).
      rewrite probe_assoc, Safety.bind_run.
      assert (Hpos : C s3 sa' /\ functions sa' = [] \/ Land (loc s3)).
      { destruct Pos3 as [HC|HL]; [left | right; exact HL]. split; [exact HC|].
        pose proof (keepA (an_statement_or_goto (analyze_statement f n)) sa acc
                      (fn_statement_or_goto _ (fn_analyze_statement f n)) Hona Hfa) as [_ K]. rewrite Ea in K. exact K. }
      pose proof (probe_sound s3 sa' Hon3 F3 Fr3 Hpos) as H4.
      destruct (probe s3) as [[[]|e l0|p| |] s4]; try contradiction; try exact I.
      destruct H4 as (F4 & Fr4 & Hon4 & Pos4).
      rewrite Safety.bind_ret. cbv iota. unfold ret.
      split; [exact F4|]. split; [exact Fr4|].
      destruct Pos4 as [(HC4 & HC3 & Hne) | HL]; [|exact HL].
      (* no ELSE behind the clause: the checker's walk goes on from there *)
      assert (El : loc s4 = loc sa') by (destruct HC4 as (_ & _ & _ & C4); rewrite C4; destruct sa'; reflexivity).
      rewrite El. remember (loc sa') as lz eqn:Elz.
      destruct Haft as [l1 Hacc | l1 sb accb f' n' sb' accb' Ht1 _ _ _ _ _]; [left; exact Hacc|].
      exfalso. apply Hne. rewrite (cur_line_onprog s3 Hon3).
      destruct HC3 as (_ & _ & _ & C4'). rewrite C4', <- Elz. exact Ht1.
    Qed.
  End Level.
End ProgE.
