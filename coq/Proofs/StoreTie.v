(* Proofs/StoreTie.v — C04: the five methods of ProgramLines that the
   interpreter uses (first / after / has / get / set) as TRANSLATED from
   program_lines.rs on this run (Gen/ProgramLinesRs.v) are the model's store
   operations.  So the C04 theorems (refinement of the abstract map, agreement
   of both indexes, first / after = least / next key) are re-checked against
   the calls the code makes now: which field, which call, in which branch. *)
From Coq Require Import List NArith Bool.
From Abasic Require Import Model.Bytes Model.Num Model.Token Model.Data Model.Lexer Gen.Tables Model.State
     Model.RustColl Gen.ProgramLinesRs.
Import ListNotations.
Open Scope N_scope.

Theorem rs_pl_first_is_model : forall s, rs_pl_first (st_toks s) (st_keys s) = store_first s.
Proof. reflexivity. Qed.

Lemma range_next_is_keys_after : forall n keys,
  iter_next (btree_range (BExcluded n) BUnbounded keys) = keys_after n keys.
Proof.
  intros n keys. unfold iter_next, btree_range. induction keys as [|k r IH]; [reflexivity|].
  cbn [filter above below keys_after]. rewrite andb_true_r.
  destruct (n <? k); [reflexivity|exact IH].
Qed.

Theorem rs_pl_after_is_model : forall s n, rs_pl_after (st_toks s) (st_keys s) n = store_after n s.
Proof. intros s n. unfold rs_pl_after, copied, store_after. apply range_next_is_keys_after. Qed.

Theorem rs_pl_has_is_model : forall s n, rs_pl_has (st_toks s) (st_keys s) n = store_has n s.
Proof. reflexivity. Qed.

Theorem rs_pl_get_is_model : forall s n, rs_pl_get (st_toks s) (st_keys s) n = toks_get n (st_toks s).
Proof. reflexivity. Qed.

Theorem rs_pl_set_is_model : forall s n ts,
  store_set n ts s = set_store (fst (rs_pl_set (st_toks s) (st_keys s) n ts)) (snd (rs_pl_set (st_toks s) (st_keys s) n ts)) s.
Proof. intros s n ts. destruct ts; reflexivity. Qed.
