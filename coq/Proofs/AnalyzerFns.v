(* Proofs/AnalyzerFns.v — on a program without DEF tokens the analysis never
   changes the function table.  The frame walk of Proofs/AnalyzerFrame.v again,
   for the relation "same store, and on a clean store the same function
   table", over every analyzer function except an_def; the dispatcher is
   covered for every head token but DEF, and a clean store never shows one. *)
From Coq Require Import List NArith ZArith Bool Lia.
From Abasic Require Import Model.Bytes Model.Num Model.Token Model.Data Model.Lexer Gen.Tables
     Model.State Model.Eval Model.Interp Model.Analyzer Proofs.Monad Proofs.Frames Proofs.StoreProofs
     Proofs.Safety Proofs.AnalyzerFrame Proofs.CheckSound.
Import ListNotations.
Local Open Scope nat_scope.

Definition clean_tok (t : token) : bool := match t with TElse | TInput | TDef => false | _ => true end.
Definition clean_line (ts : list token) : bool := forallb clean_tok ts.
(* for the function table only DEF matters *)
Definition nodef_tok (t : token) : bool := match t with TDef => false | _ => true end.
Definition nodef_line (ts : list token) : bool := forallb nodef_tok ts.
Definition CleanStore (s : interp) : Prop :=
  (forall n ts, toks_get n (st_toks s) = Some ts -> nodef_line ts = true) /\ immediate s = [].

Lemma clean_nodef ts : clean_line ts = true -> nodef_line ts = true.
Proof.
  unfold clean_line, nodef_line. rewrite !forallb_forall. intros H t Ht. specialize (H t Ht).
  destruct t; try reflexivity; discriminate H.
Qed.

Definition FN (s s' : interp) : Prop :=
  st_toks s' = st_toks s /\ st_keys s' = st_keys s /\ immediate s' = immediate s
  /\ (CleanStore s -> functions s' = functions s).

Lemma FN_refl s : FN s s.
Proof. unfold FN. repeat split. Qed.

Lemma FN_trans a b c : FN a b -> FN b c -> FN a c.
Proof.
  unfold FN, CleanStore. intros (A1 & A2 & A3 & A4) (B1 & B2 & B3 & B4). repeat split; try congruence.
  intros Hc. rewrite B4, A4; try assumption; try reflexivity. rewrite A1, A3. exact Hc.
Qed.

Definition RFN (s : interp) (r : res unit) (s' : interp) : Prop := FN s s'.

Lemma RFN_ocat : ocat RFN.
Proof. split; unfold RFN; intros; try apply FN_refl. eapply FN_trans; eassumption. Qed.

Lemma rfn_modify f : (forall s, FN s (f s)) -> orel RFN (modify f).
Proof. intros H. apply orel_modify. exact H. Qed.

Ltac rfn_frame := apply rfn_modify; intros; unfold FN; repeat split; try reflexivity; intros _; reflexivity.

Lemma rfn_tokens_for_line l : orel RFN (tokens_for_line l).
Proof.
  intros s. unfold tokens_for_line.
  destruct l as [n|]; [destruct (toks_get n (st_toks s))|]; apply FN_refl.
Qed.

Lemma rfn_lift_res {A} (r : res A) : orel RFN (lift_res r).
Proof. intros s. apply FN_refl. Qed.
Lemma rfn_fail_at {A} e l : orel RFN (@fail_at A e l).
Proof. intros s. apply FN_refl. Qed.
Lemma rfn_panic {A} p : orel RFN (@panic A p).
Proof. intros s. apply FN_refl. Qed.

Create HintDb rfndb discriminated.
#[local] Hint Resolve rfn_tokens_for_line rfn_lift_res rfn_fail_at rfn_panic : rfndb.
Ltac rfn_leaf := first [ solve [ auto 3 with rfndb nocore ] | solve [ rfn_frame ] ].
Ltac rfn_walk := orel_walk RFN_ocat rfn_leaf.

Lemma rfn_cur_tokens : orel RFN cur_tokens. Proof. unfold cur_tokens; rfn_walk. Qed.
#[local] Hint Resolve rfn_cur_tokens : rfndb.
Lemma rfn_peek : orel RFN peek_next_token. Proof. unfold peek_next_token; rfn_walk. Qed.
#[local] Hint Resolve rfn_peek : rfndb.
Lemma rfn_has_next : orel RFN has_next_token. Proof. unfold has_next_token; rfn_walk. Qed.
Lemma rfn_advance : orel RFN advance. Proof. unfold advance; rfn_walk. Qed.
#[local] Hint Resolve rfn_has_next rfn_advance : rfndb.
Lemma rfn_next_token : orel RFN next_token. Proof. unfold next_token; rfn_walk. Qed.
#[local] Hint Resolve rfn_next_token : rfndb.
Lemma rfn_next_unwrapped : orel RFN next_unwrapped_token. Proof. unfold next_unwrapped_token; rfn_walk. Qed.
#[local] Hint Resolve rfn_next_unwrapped : rfndb.
Lemma rfn_expect t : orel RFN (expect_next_token t). Proof. unfold expect_next_token; rfn_walk. Qed.
Lemma rfn_accept t : orel RFN (accept_next_token t). Proof. unfold accept_next_token; rfn_walk. Qed.
Lemma rfn_peek_is t : orel RFN (peek_is t). Proof. unfold peek_is; rfn_walk. Qed.
Lemma rfn_try {B} (g : token -> option B) : orel RFN (try_next_token g). Proof. unfold try_next_token; rfn_walk. Qed.
Lemma rfn_reset_data : orel RFN reset_data_cursor. Proof. unfold reset_data_cursor; rfn_walk. Qed.
Lemma rfn_get {A} (f : interp -> A) : orel RFN (get f). Proof. apply (orel_get _ RFN_ocat). Qed.
Lemma rfn_next_line : orel RFN next_line. Proof. unfold next_line; rfn_walk. Qed.
#[local] Hint Resolve rfn_expect rfn_accept rfn_peek_is rfn_try
  rfn_reset_data rfn_get rfn_next_line : rfndb.

(* ------------------------------------------------------------------ *)
(* the analyzer monad *)

Definition aofn {A} (m : MA A) : Prop := forall s, FN (fst s) (fst (snd (m s))).

Lemma aofn_ret {A} (a : A) : aofn (aret a).
Proof. intros s. apply FN_refl. Qed.
Lemma aofn_fail {A} e : aofn (@afail A e).
Proof. intros s. apply FN_refl. Qed.
Lemma aofn_log sym l w : aofn (log_access sym l w).
Proof. intros s. apply FN_refl. Qed.
Lemma aofn_lift {A} (m : M A) : orel RFN m -> aofn (lift m).
Proof. intros H s. unfold lift. specialize (H (fst s)). destruct (m (fst s)) as [r p]. exact H. Qed.
Lemma aofn_bind {A B} (m : MA A) (f : A -> MA B) :
  aofn m -> (forall a, aofn (f a)) -> aofn (abind m f).
Proof.
  intros Hm Hf s. unfold abind. specialize (Hm s).
  destruct (m s) as [[a|e l|p| |] s1]; cbn [fst snd] in *; try exact Hm.
  eapply FN_trans; [exact Hm|apply Hf].
Qed.
Lemma aofn_out_of_fuel {A} : aofn (fun s : astate => (@OutOfFuel A, s)).
Proof. intros s. apply FN_refl. Qed.
Lemma aofn_repeat {S R} n (body : S -> MA (S + R)) :
  (forall acc, aofn (body acc)) -> forall acc, aofn (arepeat n body acc).
Proof.
  intros Hb. induction n as [|n IH]; intros acc; cbn [arepeat].
  - apply aofn_out_of_fuel.
  - apply aofn_bind; [apply Hb|]. intros [acc'|r]; [apply IH|apply aofn_ret].
Qed.

Ltac aofn_step leaf :=
  lazymatch goal with
  | |- aofn (aret _) => apply aofn_ret
  | |- aofn (afail _) => apply aofn_fail
  | |- aofn (log_access _ _ _) => apply aofn_log
  | |- aofn (lift _) => apply aofn_lift; solve [ auto 3 with rfndb nocore ]
  | |- aofn (abind _ _) => first [ solve [leaf] | apply aofn_bind; [| intro] ]
  | |- aofn (arepeat _ _ _) => apply aofn_repeat; intro
  | |- aofn (match ?x with _ => _ end) => destruct x
  | |- _ => solve [leaf]
  end.
Ltac aofn_walk leaf := repeat (aofn_step leaf).
Ltac no_leaf := fail.

Lemma aofn_check t e : aofn (check t e).
Proof. unfold check; aofn_walk no_leaf. Qed.
Lemma aofn_check_number t : aofn (check_number t).
Proof. apply aofn_check. Qed.
Lemma aofn_get_loc : aofn aget_loc.
Proof. unfold aget_loc; aofn_walk no_leaf. Qed.
Lemma aofn_prev_loc : aofn prev_loc.
Proof. unfold prev_loc. apply aofn_bind; [apply aofn_get_loc|intro; apply aofn_ret]. Qed.
Lemma aofn_enter_nesting n : aofn (enter_nesting n).
Proof. unfold enter_nesting; aofn_walk no_leaf. Qed.

Ltac base_leaf :=
  first [ apply aofn_check_number | apply aofn_check | apply aofn_prev_loc | apply aofn_get_loc
        | apply aofn_enter_nesting ].

Section AExprF.
  Variable fuel : nat.
  Variable rec : MA vtype.
  Hypothesis Hrec : aofn rec.

  Ltac leaf := first [ apply Hrec | base_leaf ].

  Lemma fn_array_index : aofn (an_array_index fuel rec).
  Proof. unfold an_array_index; aofn_walk leaf. Qed.
  Lemma fn_unary_arg : aofn (an_unary_number_function_arg rec).
  Proof. unfold an_unary_number_function_arg; aofn_walk leaf. Qed.
  Lemma fn_check_arguments args : forall i n, aofn (an_check_arguments rec args i n).
  Proof. induction args as [|a args IH]; intros i n; cbn [an_check_arguments]; aofn_walk ltac:(first [apply IH|leaf]). Qed.
  Lemma fn_user_function_call name l : aofn (an_user_function_call rec name l).
  Proof. unfold an_user_function_call; aofn_walk ltac:(first [apply fn_check_arguments|leaf]). Qed.
  Lemma fn_function_call name l : aofn (an_function_call rec name l).
  Proof. unfold an_function_call; aofn_walk ltac:(first [apply fn_unary_arg|apply fn_user_function_call|leaf]). Qed.
  Lemma fn_term : aofn (an_term fuel rec).
  Proof. unfold an_term; aofn_walk ltac:(first [apply fn_function_call|apply fn_array_index|leaf]). Qed.
  Lemma fn_paren : aofn (an_paren fuel rec).
  Proof. unfold an_paren; aofn_walk ltac:(first [apply fn_term|leaf]). Qed.
  Lemma fn_unary : aofn (an_unary fuel rec).
  Proof. unfold an_unary; aofn_walk ltac:(first [apply fn_term|apply fn_paren|leaf]). Qed.
  Lemma fn_tier {O} (get_op : MA (option O)) operand comb :
    aofn get_op -> aofn operand -> (forall a b, aofn (comb a b)) -> aofn (an_tier fuel get_op operand comb).
  Proof. intros H1 H2 H3. unfold an_tier; aofn_walk ltac:(first [apply H1|apply H2|apply H3|leaf]). Qed.
  Lemma fn_both_numbers v w : aofn (both_numbers v w).
  Proof. unfold both_numbers; aofn_walk leaf. Qed.
  Lemma fn_accept_as t : aofn (an_accept_as t).
  Proof. unfold an_accept_as; aofn_walk leaf. Qed.
  Lemma fn_or : aofn (an_or fuel rec).
  Proof.
    unfold an_or, an_and, an_equality, an_addsub, an_muldiv, an_exponent.
    repeat (apply fn_tier;
            [ first [apply fn_accept_as | apply aofn_lift; auto 3 with rfndb nocore]
            | | intros; first [apply fn_both_numbers | aofn_walk leaf] ]).
    apply fn_unary.
  Qed.
End AExprF.

Lemma fn_analyze_expression fuel : forall n, aofn (analyze_expression fuel n).
Proof.
  induction fuel as [|k IH]; intros n; cbn [analyze_expression].
  - apply aofn_out_of_fuel.
  - destruct (Nat.eqb n max_nesting); [apply aofn_fail|]. apply fn_or, IH.
Qed.

Section AStmtF.
  Variable fuel nest : nat.
  Variable rec : MA unit.
  Hypothesis Hrec : aofn rec.

  Lemma fn_aexpr : aofn (aexpr fuel nest).
  Proof. apply fn_analyze_expression. Qed.

  Ltac leaf := first [ apply fn_aexpr | apply Hrec | base_leaf ].

  Lemma fn_optional_index : aofn (an_optional_array_index fuel nest).
  Proof. unfold an_optional_array_index; aofn_walk ltac:(first [apply fn_array_index; apply fn_aexpr|leaf]). Qed.
  Lemma fn_goto_or_gosub : aofn an_goto_or_gosub.
  Proof. unfold an_goto_or_gosub; aofn_walk leaf. Qed.
  Lemma fn_statement_or_goto : aofn (an_statement_or_goto rec).
  Proof. unfold an_statement_or_goto; aofn_walk ltac:(first [apply fn_goto_or_gosub|leaf]). Qed.
  Lemma fn_if : aofn (an_if fuel nest rec).
  Proof. unfold an_if; aofn_walk ltac:(first [apply fn_statement_or_goto|leaf]). Qed.
  Lemma fn_assign lv t : aofn (an_assign lv t).
  Proof. unfold an_assign; aofn_walk leaf. Qed.
  Lemma fn_assignment sym : aofn (an_assignment fuel nest sym).
  Proof. unfold an_assignment; aofn_walk ltac:(first [apply fn_optional_index|apply fn_assign|leaf]). Qed.
  Lemma fn_let : aofn (an_let fuel nest).
  Proof. unfold an_let; aofn_walk ltac:(first [apply fn_assignment|leaf]). Qed.
  Lemma fn_parse_lvalue : aofn (an_parse_lvalue fuel nest).
  Proof. unfold an_parse_lvalue; aofn_walk ltac:(first [apply fn_optional_index|leaf]). Qed.
  Lemma fn_read : aofn (an_read fuel nest).
  Proof. unfold an_read; aofn_walk ltac:(first [apply fn_parse_lvalue|apply fn_assign|leaf]). Qed.
  Lemma fn_input : aofn (an_input fuel nest).
  Proof. unfold an_input; aofn_walk ltac:(first [apply fn_parse_lvalue|leaf]). Qed.
  Lemma fn_dim : aofn (an_dim fuel nest).
  Proof. unfold an_dim; aofn_walk ltac:(first [apply fn_parse_lvalue|leaf]). Qed.
  Lemma fn_print : aofn (an_print fuel nest).
  Proof. unfold an_print; aofn_walk leaf. Qed.
  Lemma fn_for : aofn (an_for fuel nest).
  Proof. unfold an_for; aofn_walk leaf. Qed.
  Lemma fn_next : aofn an_next.
  Proof. unfold an_next; aofn_walk leaf. Qed.

  (* every statement but DEF *)
  Lemma fn_dispatch t : t <> Some TDef -> aofn (adispatch fuel nest rec t).
  Proof.
    intros Ht. destruct t as [t|]; [destruct t; try congruence|]; cbn [adispatch];
      first [ apply aofn_ret | apply aofn_fail | apply fn_dim | apply fn_print | apply fn_input | apply fn_if
            | apply fn_goto_or_gosub | apply fn_for | apply fn_next | apply fn_read | apply fn_let | apply fn_assignment
            | apply aofn_lift; auto 3 with rfndb nocore ].
  Qed.
End AStmtF.


Lemma option_eq_dec_tdef (t : option token) : {t = Some TDef} + {t <> Some TDef}.
Proof. destruct t as [t|]; [destruct t|]; first [left; reflexivity | right; discriminate]. Qed.

(* the token the dispatcher sees is a token of the line the cursor is on *)
Lemma next_token_clean s t s' : CleanStore s -> next_token s = (Ok (Some t), s') -> nodef_tok t = true.
Proof.
  intros [Hc Hi] E. destruct s as [tk ks im [ln ix] ? ? ? ? ? ? ? ? ? ? ? ? ? ? ?]. cbn in Hc, Hi. subst im.
  unfold next_token, peek_next_token, cur_tokens, tokens_for_line, bind, get, modify, ret in E. cbn in E.
  destruct ln as [n|].
  - destruct (toks_get n tk) as [ts|] eqn:Et; [|discriminate E]. cbn in E.
    destruct (nth_error ts ix) as [t0|] eqn:En; [|discriminate E].
    unfold advance, modify in E. cbn in E. injection E as <- _.
    pose proof (Hc n ts Et) as H. unfold nodef_line in H. rewrite forallb_forall in H. apply H.
    eapply nth_error_In; eassumption.
  - cbn in E. destruct ix; discriminate E.
Qed.

Lemma fn_statement_body fuel nest rec : aofn rec -> aofn (an_statement_body fuel nest rec).
Proof.
  intros Hrec st. rewrite an_statement_body_dispatch. unfold abind, lift.
  pose proof (rfn_next_token (fst st)) as H1. unfold RFN in H1.
  destruct (next_token (fst st)) as [r p1] eqn:En. cbn [fst snd forget] in *.
  destruct r as [t|e l|p| |]; cbn [fst snd]; try exact H1.
  destruct (option_eq_dec_tdef t) as [-> | Hne].
  - (* DEF: the store is kept (AnalyzerFrame); a clean store shows no DEF *)
    pose proof (AnalyzerFrame.af_def fuel nest (p1, snd st)) as Hd. cbn [adispatch fst snd] in *.
    destruct H1 as (A1 & A2 & A3 & A4). destruct Hd as (D1 & D2 & D3 & _).
    split; [congruence|]. split; [congruence|]. split; [congruence|].
    intros Hc. pose proof (next_token_clean _ _ _ Hc En) as Hcl. discriminate Hcl.
  - eapply FN_trans; [exact H1|]. apply (fn_dispatch fuel nest rec Hrec t Hne (p1, snd st)).
Qed.

Lemma fn_analyze_statement fuel : forall n, aofn (analyze_statement fuel n).
Proof.
  induction fuel as [|k IH]; intros n; cbn [analyze_statement].
  - apply aofn_out_of_fuel.
  - destruct (Nat.eqb n max_nesting); [apply aofn_fail|]. apply fn_statement_body, IH.
Qed.

Lemma fn_walk_line fuel m : forall stmts st, FN (fst st) (fst (snd (walk_line fuel stmts m st))).
Proof.
  induction stmts as [|k IH]; intros st; cbn [walk_line]; [apply FN_refl|].
  pose proof (rfn_has_next (fst st)) as H1.
  destruct (has_next_token (fst st)) as [[[|]|e l|p| |] p1]; cbn [fst snd forget] in *; try exact H1.
  pose proof (fn_analyze_statement fuel 0 (p1, snd st)) as H2.
  destruct (analyze_statement fuel 0 (p1, snd st)) as [[u|e l|p| |] st']; cbn [fst snd] in *;
    try (eapply FN_trans; [exact H1|exact H2]).
  - eapply FN_trans; [exact H1|]. eapply FN_trans; [exact H2|apply IH].
  - destruct (populate_error_location e l (fst st')) as [l0|]; [|eapply FN_trans; [exact H1|exact H2]].
    destruct (map_location_to_source m l0) as [[fl r]|]; cbn [fst snd]; (eapply FN_trans; [exact H1|exact H2]).
Qed.
