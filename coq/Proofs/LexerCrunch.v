(* Proofs/LexerCrunch.v — C12: line crunching.

   The tokenizer model (Model/Lexer.v) ignores blanks and letter case outside
   literal text.  Elementary perturbations of a line:
     ins_at i w line   insert the blank w before byte i
     flip_at i line    change the case of byte i (when it is an ASCII letter)
   Protected positions are computed from the tokenizer's own ranges
   (protected_ins for insertion points, protected_byte = protected_flip for
   bytes).  Main results (see the end of the file):
     1. crunch_insert(_ranges), crunch_delete(_ranges)
     2. crunch_flip(_ranges)
     3. edits_preserve / crunch_edits   (finite sequences of edits)
     4. Examples (non-vacuity)
     5. DATA items: parse_data_padded_plain, parse_data_padded_quoted

   Facts about the generated tables (Gen/Tables.v) are decided by computation
   (tables_nv, tables_na, and LexerRanges.tables_ok). *)
From Coq Require Import List NArith ZArith Bool Lia Arith ZifyBool Relations.
From Abasic Require Import Model.Bytes Model.Num Model.Token Model.Data Model.Lexer Gen.Tables
     Proofs.LexerRanges.
Import ListNotations.
Local Open Scope nat_scope.


(* ------------------------------------------------------------------ *)
(* 0. Elementary perturbations *)

Definition ins_at (i : nat) (b : N) (s : bytes) : bytes := firstn i s ++ b :: skipn i s.

Definition flipc (b : N) : N :=
  if is_upper b then (b + 32)%N else if is_lower b then (b - 32)%N else b.

Fixpoint flip_at (i : nat) (s : bytes) : bytes :=
  match s with
  | [] => []
  | b :: t => match i with O => flipc b :: t | S i' => b :: flip_at i' t end
  end.

(* [sh j n]: a length / end offset [n] after a byte was inserted at offset [j]. *)
Definition sh (j n : nat) : nat := if j <? n then S n else n.

Lemma sh_lt j n : j < n -> sh j n = S n.
Proof. unfold sh. intros H. destruct (Nat.ltb_spec j n); lia. Qed.
Lemma sh_ge j n : n <= j -> sh j n = n.
Proof. unfold sh. intros H. destruct (Nat.ltb_spec j n); lia. Qed.
Lemma sh_S j n : sh (S j) (S n) = S (sh j n).
Proof. unfold sh. change (S j <? S n) with (j <? n). destruct (j <? n); reflexivity. Qed.

Lemma ins_at_0 b s : ins_at 0 b s = b :: s.
Proof. reflexivity. Qed.
Lemma ins_at_S j b x t : ins_at (S j) b (x :: t) = x :: ins_at j b t.
Proof. reflexivity. Qed.
Lemma ins_at_nil j b : ins_at j b [] = [b].
Proof. destruct j; reflexivity. Qed.

Lemma length_ins_at j b s : length (ins_at j b s) = S (length s).
Proof.
  unfold ins_at. rewrite app_length. cbn [length].
  rewrite Nat.add_succ_r, <- app_length, firstn_skipn. reflexivity.
Qed.

Lemma skipn_ins_le : forall s j n b, j <= n -> skipn (S n) (ins_at j b s) = skipn n s.
Proof.
  induction s as [|x t IH]; intros j n b H.
  - rewrite ins_at_nil. cbn [skipn]. now rewrite !skipn_nil.
  - destruct j as [|j]; [reflexivity|]. destruct n as [|n]; [lia|].
    rewrite ins_at_S. cbn [skipn]. apply (IH j n b). lia.
Qed.

Lemma skipn_ins_ge : forall n j s b, n <= j -> j <= length s ->
  skipn n (ins_at j b s) = ins_at (j - n) b (skipn n s).
Proof.
  induction n as [|n IH]; intros j s b H1 H2.
  - now rewrite Nat.sub_0_r.
  - destruct j as [|j]; [lia|]. destruct s as [|x t]; [cbn in H2; lia|].
    rewrite ins_at_S. cbn [skipn Nat.sub]. apply IH; cbn in H2; lia.
Qed.

Lemma firstn_ins_ge : forall n j s b, n <= j -> j <= length s ->
  firstn n (ins_at j b s) = firstn n s.
Proof.
  induction n as [|n IH]; intros j s b H1 H2; [reflexivity|].
  destruct j as [|j]; [lia|]. destruct s as [|x t]; [cbn in H2; lia|].
  rewrite ins_at_S. cbn [firstn]. f_equal. apply IH; cbn in H2; lia.
Qed.

(* ------------------------------------------------------------------ *)
(* Blanks *)

Lemma crunch_next_pos s c n : crunch_next s = Some (c, n) -> 1 <= n.
Proof. intros H. apply crunch_next_spec in H. destruct H as (_ & m & -> & _). lia. Qed.

Lemma ckf_nil_kw s acc : chomp_keyword_from [] s acc = Some acc.
Proof. destruct s; reflexivity. Qed.

Lemma ckf_S : forall s kw acc,
  chomp_keyword_from kw s (S acc) = option_map S (chomp_keyword_from kw s acc).
Proof.
  induction s as [|x t IH]; intros [|k kw] acc; try reflexivity.
  cbn [chomp_keyword_from]. destruct (is_basic_ws x); [apply IH|].
  destruct (to_upper x =? k)%N; [apply IH|reflexivity].
Qed.

Lemma ckf_bound : forall s kw acc n,
  chomp_keyword_from kw s acc = Some n -> acc <= n /\ (kw <> [] -> acc < n).
Proof.
  induction s as [|x t IH]; intros [|k kw] acc n; cbn [chomp_keyword_from];
    try discriminate; try (intros H; inversion H; subst; split; [lia|congruence]).
  destruct (is_basic_ws x).
  - intros H. apply IH in H. destruct H. split; [lia|intros _; lia].
  - destruct (to_upper x =? k)%N; [|discriminate].
    intros H. apply IH in H. destruct H. split; [lia|intros _; lia].
Qed.

Section Ins.
Variable bl : N.
Hypothesis Hbl : is_basic_ws bl = true.

(* L1: the crunching primitives *)


Lemma crunch_next_ins : forall s j,
  crunch_next (ins_at j bl s) =
  match crunch_next s with Some (c, n) => Some (c, sh j n) | None => None end.
Proof.
  induction s as [|x t IH]; intros j.
  - rewrite ins_at_nil. cbn [crunch_next]. now rewrite Hbl.
  - destruct j as [|j].
    + rewrite ins_at_0. cbn [crunch_next]. rewrite Hbl.
      destruct (is_basic_ws x) eqn:Ex.
      * destruct (crunch_next t) as [[c n]|]; [|reflexivity].
        rewrite sh_lt by lia. reflexivity.
      * rewrite sh_lt by lia. reflexivity.
    + rewrite ins_at_S. cbn [crunch_next]. destruct (is_basic_ws x) eqn:Ex.
      * rewrite IH. destruct (crunch_next t) as [[c n]|]; [|reflexivity].
        now rewrite sh_S.
      * rewrite sh_ge by lia. reflexivity.
Qed.




Lemma ckf_blank k kw s acc :
  chomp_keyword_from (k :: kw) (bl :: s) acc = chomp_keyword_from (k :: kw) s (S acc).
Proof. cbn [chomp_keyword_from]. now rewrite Hbl. Qed.

Lemma ckf_ins : forall s kw acc j,
  chomp_keyword_from kw (ins_at j bl s) acc =
  match chomp_keyword_from kw s acc with
  | Some n => Some (if acc + j <? n then S n else n)
  | None => None
  end.
Proof.
  induction s as [|x t IH]; intros kw acc j.
  - rewrite ins_at_nil. destruct kw as [|k kw].
    + cbn [chomp_keyword_from]. destruct (Nat.ltb_spec (acc + j) acc); [lia|reflexivity].
    + cbn [chomp_keyword_from]. rewrite Hbl. reflexivity.
  - destruct kw as [|k kw].
    + rewrite !ckf_nil_kw. destruct (Nat.ltb_spec (acc + j) acc); [lia|reflexivity].
    + destruct j as [|j].
      * rewrite ins_at_0. rewrite ckf_blank.
        rewrite ckf_S. destruct (chomp_keyword_from (k :: kw) (x :: t) acc) as [n|] eqn:E;
          [|reflexivity].
        apply ckf_bound in E. destruct E as [_ E]. cbn [option_map].
        destruct (Nat.ltb_spec (acc + 0) n); [reflexivity|]. assert (acc < n) by (apply E; congruence). lia.
      * rewrite ins_at_S. cbn [chomp_keyword_from].
        destruct (is_basic_ws x).
        -- rewrite IH. replace (S acc + j) with (acc + S j) by lia. reflexivity.
        -- destruct (to_upper x =? k)%N; [|reflexivity].
           rewrite IH. replace (S acc + j) with (acc + S j) by lia. reflexivity.
Qed.

Lemma chomp_keyword_ins kw s j :
  chomp_keyword kw (ins_at j bl s) = option_map (sh j) (chomp_keyword kw s).
Proof.
  destruct kw as [|k kw]; [reflexivity|]. unfold chomp_keyword. rewrite ckf_ins.
  destruct (chomp_keyword_from _ _ _); reflexivity.
Qed.

Definition sh_tok (j : nat) (r : option (token * nat)) : option (token * nat) :=
  match r with Some (t, n) => Some (t, sh j n) | None => None end.

Lemma first_keyword_ins tbl s j :
  first_keyword tbl (ins_at j bl s) = sh_tok j (first_keyword tbl s).
Proof.
  induction tbl as [|[kw t] tbl IH]; cbn [first_keyword]; [reflexivity|].
  rewrite chomp_keyword_ins. destruct (chomp_keyword kw s); cbn [option_map]; [reflexivity|exact IH].
Qed.

Lemma chomp_any_keyword_ins s j :
  chomp_any_keyword (ins_at j bl s) = sh_tok j (chomp_any_keyword s).
Proof. apply first_keyword_ins. Qed.

End Ins.


Section Ins2.
Variable bl : N.
Hypothesis Hbl : is_basic_ws bl = true.

(* L2: the matchers *)

Lemma chomp_one_or_two_ins s j : j <= length s ->
  chomp_one_or_two (ins_at j bl s) = sh_tok j (chomp_one_or_two s).
Proof.
  intros Hj. unfold chomp_one_or_two. rewrite (crunch_next_ins bl Hbl).
  destruct (crunch_next s) as [[b n]|] eqn:E1; [|reflexivity].
  destruct (lookup_punct punct b) as [t|]; [|reflexivity].
  destruct (Nat.ltb_spec j n) as [Hlt|Hge].
  - rewrite (sh_lt j n), skipn_ins_le by lia.
    destruct (crunch_next (skipn n s)) as [[c m]|]; [destruct (lookup_two _ _ _)|];
      cbn [sh_tok]; rewrite sh_lt by lia; reflexivity.
  - rewrite (sh_ge j n), skipn_ins_ge by lia. rewrite (crunch_next_ins bl Hbl).
    destruct (crunch_next (skipn n s)) as [[c m]|]; [destruct (lookup_two _ _ _)|];
      cbn [sh_tok]; [|now rewrite sh_ge by lia|now rewrite sh_ge by lia].
    do 2 f_equal. unfold sh. destruct (Nat.ltb_spec (j - n) m), (Nat.ltb_spec j (n + m)); lia.
Qed.

Lemma bl_not_quote : (bl =? 34)%N = false.
Proof. unfold is_basic_ws, is_ascii_ws in Hbl. lia. Qed.

Lemma find_quote_ins : forall t j,
  find_quote (ins_at j bl t) =
  match find_quote t with Some k => Some (if j <=? k then S k else k) | None => None end.
Proof.
  induction t as [|x t IH]; intros j.
  - rewrite ins_at_nil. cbn [find_quote]. now rewrite bl_not_quote.
  - destruct j as [|j].
    + rewrite ins_at_0. cbn [find_quote]. rewrite bl_not_quote.
      destruct (x =? 34)%N; [reflexivity|]. destruct (find_quote t); reflexivity.
    + rewrite ins_at_S. cbn [find_quote]. destruct (x =? 34)%N; [reflexivity|].
      rewrite IH. destruct (find_quote t) as [k|]; [|reflexivity].
      change (S j <=? S k) with (j <=? k). destruct (j <=? k); reflexivity.
Qed.

Definition is_str (t : token) : bool := match t with TString _ => true | _ => false end.

Lemma chomp_string_is_str p s t n : chomp_string p s = Match t n -> is_str t = true.
Proof.
  rewrite chomp_string_eq. destruct s as [|b r]; [discriminate|].
  destruct (b =? 34)%N; [|discriminate]. destruct (find_quote r); [|discriminate].
  intros H; inversion H; reflexivity.
Qed.

Lemma chomp_string_ins p s j : 1 <= j <= length s ->
  match chomp_string p s with
  | Match t n =>
      if j <? n then exists t', chomp_string p (ins_at j bl s) = Match t' (S n) /\ is_str t' = true
      else chomp_string p (ins_at j bl s) = Match t n
  | NoMatch => chomp_string p (ins_at j bl s) = NoMatch
  | Fail e => chomp_string p (ins_at j bl s) = Fail e
  end.
Proof.
  intros Hj. rewrite !chomp_string_eq. destruct s as [|b r]; [cbn in Hj; lia|].
  destruct j as [|j]; [lia|]. rewrite ins_at_S. cbn [length] in Hj.
  destruct (b =? 34)%N; [|reflexivity]. rewrite find_quote_ins.
  destruct (find_quote r) as [k|] eqn:Ek; [|reflexivity].
  destruct (Nat.ltb_spec (S j) (k + 2)) as [Hlt|Hge].
  - destruct (Nat.leb_spec j k); [|lia]. eexists. split; reflexivity.
  - destruct (Nat.leb_spec j k); [lia|]. rewrite firstn_ins_ge by lia. reflexivity.
Qed.

(* numbers *)

Lemma number_span_blank s k d l : number_span (bl :: s) k d l = number_span s (S k) d l.
Proof. cbn [number_span]. now rewrite Hbl. Qed.

Lemma number_span_shift k0 : forall s k d l, k0 <= k ->
  number_span s (S k) d (sh k0 l) = let (d', n) := number_span s k d l in (d', sh k0 n).
Proof.
  induction s as [|x t IH]; intros k d l Hk; cbn [number_span]; [reflexivity|].
  destruct (is_basic_ws x); [apply IH; lia|].
  destruct (is_digit x || (x =? 46)%N); [|reflexivity].
  specialize (IH (S k) (d ++ [x]) (S k)). rewrite (sh_lt k0 (S k)) in IH by lia. apply IH. lia.
Qed.

Lemma number_span_ins : forall s j k d l, l <= k ->
  number_span (ins_at j bl s) k d l = let (d', n) := number_span s k d l in (d', sh (k + j) n).
Proof.
  induction s as [|x t IH]; intros j k d l Hl.
  - rewrite ins_at_nil, number_span_blank. cbn [number_span]. now rewrite sh_ge by lia.
  - destruct j as [|j].
    + rewrite ins_at_0, number_span_blank.
      pose proof (number_span_shift k (x :: t) k d l (le_n _)) as H.
      rewrite (sh_ge k l) in H by lia. rewrite H, Nat.add_0_r. reflexivity.
    + rewrite ins_at_S. cbn [number_span]. destruct (is_basic_ws x).
      * rewrite IH by lia. replace (S k + j) with (k + S j) by lia. reflexivity.
      * destruct (is_digit x || (x =? 46)%N).
        -- rewrite IH by lia. replace (S k + j) with (k + S j) by lia. reflexivity.
        -- now rewrite sh_ge by lia.
Qed.

Definition is_num (t : token) : bool := match t with TNumber _ => true | _ => false end.

Lemma chomp_number_ins p s j :
  match chomp_number p s with
  | Match t n => chomp_number p (ins_at j bl s) = Match t (sh j n) /\ is_num t = true
  | NoMatch => chomp_number p (ins_at j bl s) = NoMatch
  | Fail _ => exists e', chomp_number p (ins_at j bl s) = Fail e'
  end.
Proof.
  unfold chomp_number. rewrite number_span_ins by lia.
  destruct (number_span s 0 [] 0) as [d n]. cbn [Nat.add].
  destruct n as [|n]; [now rewrite sh_ge by lia|].
  assert (E : exists m, sh j (S n) = S m).
  { unfold sh. destruct (j <? S n); eauto. }
  destruct E as [m E]. rewrite E. rewrite <- E.
  destruct (parse_f64 d) as [x|]; [destruct (f64_is_finite x)|]; eauto.
Qed.

(* symbols *)

Lemma symbol_span_blank s chars c p :
  symbol_span (bl :: s) chars c p = symbol_span s chars c (S p).
Proof. cbn [symbol_span]. now rewrite Hbl. Qed.

Lemma symbol_span_consumed_S : forall s chars c p,
  symbol_span s chars (S c) p = let (c', n) := symbol_span s chars c p in (c', S n).
Proof.
  induction s as [|x t IH]; intros chars c p; cbn [symbol_span]; [reflexivity|].
  destruct (is_basic_ws x); [apply IH|].
  destruct (negb _); [reflexivity|].
  destruct (x =? 36)%N; [reflexivity|].
  destruct (chomp_any_keyword t); [reflexivity|].
  change (S c + p + 1) with (S (c + p + 1)). apply IH.
Qed.

Lemma symbol_span_mono s chars c p c' n :
  symbol_span s chars c p = (c', n) -> n = c \/ c + p < n.
Proof.
  intros H. apply symbol_span_spec in H. destruct H as [[-> _]|(_ & m & x & -> & _)]; [auto|right; lia].
Qed.

Lemma symbol_span_pending_S : forall s chars c p,
  symbol_span s chars c (S p) = let (c', n) := symbol_span s chars c p in (c', sh (c + p) n).
Proof.
  induction s as [|x t IH]; intros chars c p; cbn [symbol_span].
  - now rewrite sh_ge by lia.
  - destruct (is_basic_ws x).
    + rewrite IH. destruct (symbol_span t chars c (S p)) as [c' n] eqn:E.
      apply symbol_span_mono in E. f_equal. unfold sh.
      destruct (Nat.ltb_spec (c + S p) n), (Nat.ltb_spec (c + p) n); lia.
    + destruct (negb _); [now rewrite sh_ge by lia|].
      assert (E1 : (c + S p + 1) = sh (c + p) (c + p + 1)) by (rewrite sh_lt; lia).
      destruct (x =? 36)%N; [now rewrite E1|].
      destruct (chomp_any_keyword t); [now rewrite E1|].
      replace (c + S p + 1) with (S (c + p + 1)) by lia. rewrite symbol_span_consumed_S.
      destruct (symbol_span t _ (c + p + 1) 0) as [c' n] eqn:E.
      apply symbol_span_mono in E. rewrite sh_lt by lia. reflexivity.
Qed.

Lemma symbol_span_ins : forall s j chars c p,
  symbol_span (ins_at j bl s) chars c p =
  let (c', n) := symbol_span s chars c p in (c', sh (c + p + j) n).
Proof.
  induction s as [|x t IH]; intros j chars c p.
  - rewrite ins_at_nil, symbol_span_blank. cbn [symbol_span]. now rewrite sh_ge by lia.
  - destruct j as [|j].
    + rewrite ins_at_0, symbol_span_blank, symbol_span_pending_S, Nat.add_0_r. reflexivity.
    + rewrite ins_at_S. cbn [symbol_span]. destruct (is_basic_ws x).
      * rewrite IH. replace (c + S p + j) with (c + p + S j) by lia. reflexivity.
      * destruct (negb _); [now rewrite sh_ge by lia|].
        destruct (x =? 36)%N; [now rewrite sh_ge by lia|].
        rewrite (chomp_any_keyword_ins bl Hbl).
        destruct (chomp_any_keyword t) as [[? ?]|]; cbn [sh_tok]; [now rewrite sh_ge by lia|].
        rewrite IH. replace (c + p + 1 + 0 + j) with (c + p + S j) by lia. reflexivity.
Qed.

Definition is_sym (t : token) : bool := match t with TSymbol _ => true | _ => false end.

Lemma chomp_symbol_ins s j :
  match chomp_symbol s with
  | Match t n => chomp_symbol (ins_at j bl s) = Match t (sh j n) /\ is_sym t = true
  | NoMatch => chomp_symbol (ins_at j bl s) = NoMatch
  | Fail _ => False
  end.
Proof.
  unfold chomp_symbol. rewrite symbol_span_ins.
  destruct (symbol_span s [] 0 0) as [[|x chars] n]; cbn [Nat.add]; auto.
Qed.

End Ins2.


(* ------------------------------------------------------------------ *)
(* The DATA item parser, one character at a time *)

Definition dp_stops (c : uchar) (q : bool) : bool := negb q && char_is c 58.

Definition dp_next (c : uchar) (q : bool) (cur : list uchar) (el : list data_elem)
  : bool * list uchar * list data_elem :=
  if q then
    if char_is c 34 then (false, [], el ++ [elem_quoted cur]) else (true, cur ++ [c], el)
  else if char_is c 44 then
    if all_ws cur then (false, cur, el) else (false, [], el ++ [elem_unquoted cur])
  else if char_is c 34 then
    if all_ws cur then (true, [], el) else (false, cur ++ [c], el)
  else (false, cur ++ [c], el).

Lemma dp_run_cons c cs q cur el n :
  dp_run (c :: cs) q cur el n =
  if dp_stops c q then (dp_finish false cur el, n)
  else let '(q', cur', el') := dp_next c q cur el in dp_run cs q' cur' el' (n + length c).
Proof.
  cbn [dp_run]. unfold dp_stops, dp_next. destruct q; cbn [negb andb].
  - destruct (char_is c 34); reflexivity.
  - destruct (char_is c 58); [reflexivity|].
    destruct (char_is c 44); [destruct (all_ws cur); reflexivity|].
    destruct (char_is c 34); [destruct (all_ws cur); reflexivity|reflexivity].
Qed.

Lemma dp_run_mono cs q cur el n r m : dp_run cs q cur el n = (r, m) -> n <= m.
Proof. intros H. apply dp_run_prefix in H. destruct H as (? & ? & _ & ->). lia. Qed.

Lemma utf8_chars_fuel_cons f b0 r :
  utf8_chars_fuel (S f) (b0 :: r) =
  firstn (utf8_len b0) (b0 :: r) :: utf8_chars_fuel f (skipn (utf8_len b0) (b0 :: r)).
Proof. reflexivity. Qed.

Lemma dp_stops_len1 b0 r q :
  dp_stops (firstn (utf8_len b0) (b0 :: r)) q = true -> utf8_len b0 = 1.
Proof.
  unfold dp_stops. intros H. apply andb_true_iff in H. destruct H as [_ H].
  pose proof (utf8_len_pos b0) as Hl. destruct (utf8_len b0) as [|l] eqn:El; [lia|].
  cbn [firstn] in H. destruct (firstn l r) eqn:Ef; [|discriminate].
  cbn [char_is] in H. apply N.eqb_eq in H. subst b0. vm_compute in El. congruence.
Qed.

Section Ins3.
Variable bl : N.
Hypothesis Hbl : is_basic_ws bl = true.

Lemma bl_len1 : utf8_len bl = 1.
Proof. unfold utf8_len. pose proof (blank_ascii _ Hbl). destruct (bl <? 192)%N eqn:E; [reflexivity|lia]. Qed.

Lemma bl_not_stop q : dp_stops [bl] q = false.
Proof.
  unfold dp_stops, char_is. unfold is_basic_ws, is_ascii_ws in Hbl.
  destruct q; cbn [negb andb]; [reflexivity|lia].
Qed.

(* An insertion beyond the point where the parser stopped is not seen. *)
Lemma dp_ins_after : forall f s f' q cur el n0 j r m,
  length s <= f -> length s < f' -> j <= length s ->
  dp_run (utf8_chars_fuel f s) q cur el n0 = (r, m) -> m < n0 + j ->
  dp_run (utf8_chars_fuel f' (ins_at j bl s)) q cur el n0 = (r, m).
Proof.
  induction f as [|f IH]; intros s f' q cur el n0 j r m Hf Hf' Hj H Hm;
    pose proof (dp_run_mono _ _ _ _ _ _ _ H) as Hmono;
    (destruct j as [|j]; [lia|]); (destruct s as [|b0 r0]; [cbn in Hj; lia|]);
    cbn [length] in *; [lia|].
  destruct f' as [|f']; [lia|].
  rewrite utf8_chars_fuel_cons, dp_run_cons in H.
  rewrite ins_at_S, utf8_chars_fuel_cons, <- ins_at_S, dp_run_cons.
  pose proof (utf8_len_pos b0) as Hl.
  set (len := utf8_len b0) in *. set (s := b0 :: r0) in *.
  assert (Ls : length s = S (length r0)) by reflexivity.
  destruct (dp_stops (firstn len s) q) eqn:Es.
  - apply dp_stops_len1 in Es as El. fold len in El.
    rewrite firstn_ins_ge by lia. rewrite Es. exact H.
  - assert (Lc : length (firstn len s) = Nat.min len (length s)) by apply firstn_length.
    destruct (dp_next (firstn len s) q cur el) as [[q' cur'] el'] eqn:En.
    pose proof (dp_run_mono _ _ _ _ _ _ _ H) as Hmono2.
    assert (Hlen : len <= j) by lia.
    rewrite firstn_ins_ge, skipn_ins_ge by lia. rewrite Es, En.
    apply IH; try (rewrite skipn_length; lia); [exact H|lia].
Qed.

Lemma dp_ins_front f' s q cur el n0 :
  n0 < snd (dp_run (utf8_chars_fuel (S f') (bl :: s)) q cur el n0).
Proof.
  rewrite utf8_chars_fuel_cons, bl_len1. cbn [firstn]. rewrite dp_run_cons, bl_not_stop.
  destruct (dp_next [bl] q cur el) as [[q' cur'] el'].
  destruct (dp_run _ _ _ _ _) as [r' m'] eqn:E. apply dp_run_mono in E. cbn [snd length] in *. lia.
Qed.

(* An insertion inside the text the parser consumed is consumed as well. *)
Lemma dp_ins_inside : forall f s f' q cur el n0 j r m,
  length s <= f -> length s < f' -> j <= length s ->
  dp_run (utf8_chars_fuel f s) q cur el n0 = (r, m) -> n0 + j <= m ->
  n0 + j < snd (dp_run (utf8_chars_fuel f' (ins_at j bl s)) q cur el n0).
Proof.
  induction f as [|f IH]; intros s f' q cur el n0 j r m Hf Hf' Hj H Hm;
    (destruct f' as [|f']; [lia|]);
    (destruct j as [|j]; [rewrite ins_at_0, Nat.add_0_r; apply dp_ins_front|]);
    (destruct s as [|b0 r0]; [cbn in Hj; lia|]); cbn [length] in *; [lia|].
  rewrite utf8_chars_fuel_cons, dp_run_cons in H.
  rewrite ins_at_S, utf8_chars_fuel_cons, <- ins_at_S, dp_run_cons.
  pose proof (utf8_len_pos b0) as Hl.
  set (len := utf8_len b0) in *. set (s := b0 :: r0) in *.
  assert (Ls : length s = S (length r0)) by reflexivity.
  assert (Lc : length (firstn len s) = Nat.min len (length s)) by apply firstn_length.
  destruct (dp_stops (firstn len s) q) eqn:Es.
  { inversion H; subst. lia. }
  destruct (dp_next (firstn len s) q cur el) as [[q' cur'] el'] eqn:En.
  destruct (Nat.le_gt_cases len (S j)) as [Hle|Hgt].
  - rewrite firstn_ins_ge, skipn_ins_ge by lia. rewrite Es, En.
    pose proof (IH (skipn len s) f' q' cur' el' (n0 + length (firstn len s)) (S j - len) r m) as IH'.
    rewrite skipn_length in IH'.
    specialize (IH' ltac:(lia) ltac:(lia) ltac:(lia) H ltac:(lia)). lia.
  - destruct (dp_stops (firstn len (ins_at (S j) bl s)) q) eqn:Es'.
    { unfold s in Es'. rewrite ins_at_S in Es'. apply dp_stops_len1 in Es'. fold len in Es'. lia. }
    destruct (dp_next (firstn len (ins_at (S j) bl s)) q cur el) as [[q2 cur2] el2].
    destruct (dp_run (utf8_chars_fuel f' _) _ _ _ _) as [r' m'] eqn:E. apply dp_run_mono in E. cbn [snd].
    rewrite firstn_length, length_ins_at in E. lia.
Qed.

Lemma parse_data_ins_after text j r m :
  parse_data text = (r, m) -> j <= length text -> m < j ->
  parse_data (ins_at j bl text) = (r, m).
Proof.
  unfold parse_data, utf8_chars. intros H Hj Hm. rewrite length_ins_at.
  eapply dp_ins_after; eauto.
Qed.

Lemma parse_data_ins_inside text j r m :
  parse_data text = (r, m) -> j <= length text -> j <= m ->
  j < snd (parse_data (ins_at j bl text)).
Proof.
  unfold parse_data, utf8_chars. intros H Hj Hm. rewrite length_ins_at.
  change j with (0 + j) at 1. eapply dp_ins_inside; eauto.
Qed.

(* REM and DATA *)

Lemma chomp_remark_ins s j : j <= length s ->
  match chomp_remark s with
  | Match t n =>
      exists c k, t = TRemark c /\ n = k + length c /\
        if k <=? j then exists c', chomp_remark (ins_at j bl s) = Match (TRemark c') (k + length c')
                                   /\ length c' = S (length c)
        else chomp_remark (ins_at j bl s) = Match t (sh j n)
  | NoMatch => chomp_remark (ins_at j bl s) = NoMatch
  | Fail _ => False
  end.
Proof.
  intros Hj. unfold chomp_remark. rewrite (chomp_keyword_ins bl Hbl).
  destruct (chomp_keyword rem_keyword s) as [k|] eqn:Ek; cbn [option_map]; [|reflexivity].
  exists (skipn k s), k. split; [reflexivity|]. split; [reflexivity|].
  destruct (Nat.leb_spec k j) as [Hle|Hgt].
  - rewrite sh_ge by lia. rewrite skipn_ins_ge by lia. eexists. split; [reflexivity|].
    apply length_ins_at.
  - rewrite (sh_lt j k) by lia. rewrite skipn_ins_le by lia. rewrite sh_lt by lia. reflexivity.
Qed.

Lemma chomp_data_ins s j : j <= length s ->
  match chomp_data s with
  | Match t n =>
      exists k, chomp_keyword data_keyword s = Some k /\ is_data t = true /\
        if (k <=? j) && (j <=? n)
        then exists t' n', chomp_data (ins_at j bl s) = Match t' n' /\ is_data t' = true
                           /\ chomp_keyword data_keyword (ins_at j bl s) = Some k /\ j < n'
        else chomp_data (ins_at j bl s) = Match t (sh j n)
  | NoMatch => chomp_data (ins_at j bl s) = NoMatch
  | Fail _ => False
  end.
Proof.
  intros Hj. unfold chomp_data. rewrite (chomp_keyword_ins bl Hbl).
  destruct (chomp_keyword data_keyword s) as [k|] eqn:Ek; cbn [option_map]; [|reflexivity].
  destruct (parse_data (skipn k s)) as [el m] eqn:Ep.
  exists k. split; [reflexivity|]. split; [reflexivity|].
  destruct (Nat.leb_spec k j) as [Hle|Hgt]; cbn [andb].
  - rewrite (sh_ge j k) by lia. rewrite skipn_ins_ge by lia.
    destruct (Nat.leb_spec j (k + m)) as [Hle2|Hgt2].
    + pose proof (parse_data_ins_inside (skipn k s) (j - k) el m Ep) as Hin.
      rewrite skipn_length in Hin. specialize (Hin ltac:(lia) ltac:(lia)).
      destruct (parse_data (ins_at (j - k) bl (skipn k s))) as [el' m'] eqn:Ep'.
      cbn [snd] in Hin. exists (TData el'), (k + m').
      split; [reflexivity|]. split; [reflexivity|]. split; [|lia].
      reflexivity.
    + rewrite (parse_data_ins_after (skipn k s) (j - k) el m Ep); [|rewrite skipn_length; lia|lia].
      now rewrite sh_ge by lia.
  - rewrite (sh_lt j k) by lia. rewrite skipn_ins_le by lia. rewrite Ep.
    now rewrite sh_lt by lia.
Qed.

End Ins3.


(* ------------------------------------------------------------------ *)
(* Verbatim regions, relative to the start of a token.
   [s] = the text from the first byte of the token, [n] = its length,
   [j >= 1] = offset of the insertion point / of the byte. *)

Definition verb_tok (t : token) : bool :=
  match t with TString _ | TRemark _ | TData _ => true | _ => false end.

Definition prot_tok_ins (s : bytes) (t : token) (n j : nat) : bool :=
  match t with
  | TString _ => j <? n
  | TRemark c => n - length c <=? j
  | TData _ => match chomp_keyword data_keyword s with
               | Some k => (k <=? j) && (j <=? n)
               | None => false
               end
  | _ => false
  end.

Definition prot_tok_byte (s : bytes) (t : token) (n j : nat) : bool :=
  match t with
  | TString _ => S j <? n
  | TRemark c => n - length c <=? j
  | TData _ => match chomp_keyword data_keyword s with
               | Some k => (k <=? j) && (j <? n)
               | None => false
               end
  | _ => false
  end.

Lemma prot_tok_ins_plain s t n j : verb_tok t = false -> prot_tok_ins s t n j = false.
Proof. destruct t; cbn; congruence. Qed.

(* The tables only produce tokens without verbatim text (decided by computation). *)
Definition keywords_nv (tbl : list (bytes * token)) : bool :=
  forallb (fun e => negb (verb_tok (snd e))) tbl.
Definition punct_nv (tbl : list (N * token)) : bool :=
  forallb (fun e => negb (verb_tok (snd e))) tbl.
Definition two_char_nv (tbl : list (token * N * token)) : bool :=
  forallb (fun e => negb (verb_tok (snd e))) tbl.

Lemma tables_nv :
  keywords_nv keywords = true /\ punct_nv punct = true /\ two_char_nv two_char = true.
Proof. vm_compute. repeat split; reflexivity. Qed.

Lemma first_keyword_nv tbl s t n :
  keywords_nv tbl = true -> first_keyword tbl s = Some (t, n) -> verb_tok t = false.
Proof.
  induction tbl as [|[kw t0] tbl IH]; cbn [first_keyword keywords_nv forallb]; [discriminate|].
  intros Hok. apply andb_true_iff in Hok. destruct Hok as [Hk Hok]. cbn [snd] in Hk.
  destruct (chomp_keyword kw s); [|exact (IH Hok)].
  intros H; inversion H; subst. now apply negb_true_iff.
Qed.

Lemma lookup_punct_nv tbl b t :
  punct_nv tbl = true -> lookup_punct tbl b = Some t -> verb_tok t = false.
Proof.
  induction tbl as [|[c t0] tbl IH]; cbn [lookup_punct punct_nv forallb]; [discriminate|].
  intros Hok. apply andb_true_iff in Hok. destruct Hok as [Hk Hok]. cbn [snd] in Hk.
  destruct (c =? b)%N; [|exact (IH Hok)].
  intros H; inversion H; subst. now apply negb_true_iff.
Qed.

Lemma lookup_two_nv tbl f b t :
  two_char_nv tbl = true -> lookup_two tbl f b = Some t -> verb_tok t = false.
Proof.
  induction tbl as [|[[f0 c] t0] tbl IH]; cbn [lookup_two two_char_nv forallb]; [discriminate|].
  intros Hok. apply andb_true_iff in Hok. destruct Hok as [Hk Hok]. cbn [snd] in Hk.
  destruct (token_eqb f0 f && (c =? b)%N); [|exact (IH Hok)].
  intros H; inversion H; subst. now apply negb_true_iff.
Qed.

Lemma chomp_any_keyword_nv s t n : chomp_any_keyword s = Some (t, n) -> verb_tok t = false.
Proof. apply first_keyword_nv, tables_nv. Qed.

Lemma chomp_one_or_two_nv s t n : chomp_one_or_two s = Some (t, n) -> verb_tok t = false.
Proof.
  unfold chomp_one_or_two. destruct (crunch_next s) as [[b k]|]; [|discriminate].
  destruct (lookup_punct punct b) as [t1|] eqn:Ep; [|discriminate].
  apply lookup_punct_nv in Ep; [|apply tables_nv].
  destruct (crunch_next (skipn k s)) as [[c m]|]; [|intros H; inversion H; subst; exact Ep].
  destruct (lookup_two two_char t1 c) as [t2|] eqn:E2; intros H; inversion H; subst; [|exact Ep].
  eapply lookup_two_nv; [apply tables_nv|exact E2].
Qed.

(* ------------------------------------------------------------------ *)
(* L3: the dispatcher under a blank insertion at offset j >= 1 *)

Section Ins4.
Variable bl : N.
Hypothesis Hbl : is_basic_ws bl = true.

Lemma chomp_next_token_ins p s j : 1 <= j <= length s ->
  match chomp_next_token p s with
  | Match t n =>
      if prot_tok_ins s t n j
      then exists t' n', chomp_next_token p (ins_at j bl s) = Match t' n'
                         /\ prot_tok_byte (ins_at j bl s) t' n' j = true
      else chomp_next_token p (ins_at j bl s) = Match t (sh j n)
  | NoMatch => chomp_next_token p (ins_at j bl s) = NoMatch
  | Fail e => exists e', chomp_next_token p (ins_at j bl s) = Fail e'
  end.
Proof.
  intros Hj. unfold chomp_next_token.
  rewrite (chomp_any_keyword_ins bl Hbl).
  destruct (chomp_any_keyword s) as [[t n]|] eqn:E1; cbn [sh_tok].
  { rewrite prot_tok_ins_plain by (eapply chomp_any_keyword_nv; eauto). reflexivity. }
  rewrite (chomp_one_or_two_ins bl Hbl) by lia.
  destruct (chomp_one_or_two s) as [[t n]|] eqn:E2; cbn [sh_tok].
  { rewrite prot_tok_ins_plain by (eapply chomp_one_or_two_nv; eauto). reflexivity. }
  pose proof (chomp_string_ins bl Hbl p s j Hj) as H3.
  destruct (chomp_string p s) as [|t n|e] eqn:E3.
  2:{ apply chomp_string_is_str in E3. destruct t; try discriminate. cbn [prot_tok_ins].
      destruct (j <? n) eqn:Ejn.
      - destruct H3 as (t' & H3 & Hs). rewrite H3. exists t', (S n). split; [reflexivity|].
        destruct t'; try discriminate. cbn [prot_tok_byte]. lia.
      - rewrite H3. rewrite sh_ge by lia. reflexivity. }
  2:{ rewrite H3. eauto. }
  rewrite H3.
  pose proof (chomp_number_ins bl Hbl p s j) as H4.
  destruct (chomp_number p s) as [|t n|e] eqn:E4.
  2:{ destruct H4 as [H4 Hn]. rewrite H4. destruct t; try discriminate. reflexivity. }
  2:{ destruct H4 as [e' H4]. rewrite H4. eauto. }
  rewrite H4.
  pose proof (chomp_remark_ins bl Hbl s j ltac:(lia)) as H5.
  destruct (chomp_remark s) as [|t n|e] eqn:E5; [|clear E5|destruct H5].
  2:{ destruct H5 as (c & k & -> & -> & H5). cbn [prot_tok_ins].
      replace (k + length c - length c) with k by lia.
      destruct (k <=? j) eqn:Ekj.
      - destruct H5 as (c' & H5 & Hc'). rewrite H5. do 2 eexists. split; [reflexivity|].
        cbn [prot_tok_byte]. lia.
      - rewrite H5. reflexivity. }
  rewrite H5.
  pose proof (chomp_data_ins bl Hbl s j ltac:(lia)) as H6.
  destruct (chomp_data s) as [|t n|e] eqn:E6; [|clear E6|destruct H6].
  2:{ destruct H6 as (k & Ek & Hd & H6). destruct t; try discriminate. cbn [prot_tok_ins].
      rewrite Ek. destruct ((k <=? j) && (j <=? n)) eqn:Ekj.
      - destruct H6 as (t' & n' & H6 & Hd' & Ek' & Hn'). rewrite H6. exists t', n'.
        split; [reflexivity|]. destruct t'; try discriminate. cbn [prot_tok_byte].
        rewrite Ek'. lia.
      - rewrite H6. reflexivity. }
  rewrite H6.
  pose proof (chomp_symbol_ins bl Hbl s j) as H7.
  destruct (chomp_symbol s) as [|t n|e] eqn:E7; [|clear E7|destruct H7].
  2:{ destruct H7 as [H7 Hs]. rewrite H7. destruct t; try discriminate. reflexivity. }
  rewrite H7. eauto.
Qed.

End Ins4.

(* ------------------------------------------------------------------ *)
(* The driver: moving the start position; lower bounds of ranges *)

Definition add_r (d : nat) (r : ranged) : ranged :=
  let '(t, (a, b)) := r in (t, (d + a, d + b)).

Definition add_e (d : nat) (e : tok_error) : tok_error :=
  match e with
  | IllegalCharacter i => IllegalCharacter (d + i)
  | UnterminatedStringLiteral i => UnterminatedStringLiteral (d + i)
  | InvalidNumber a b => InvalidNumber (d + a) (d + b)
  end.

Definition add_res (d : nat) (r : tok_result) : tok_result :=
  match r with
  | TokOk ts => TokOk (map (add_r d) ts)
  | TokErr ts e => TokErr (map (add_r d) ts) (add_e d e)
  end.

Lemma chomp_next_token_shift d p s :
  chomp_next_token (d + p) s =
  match chomp_next_token p s with
  | Match t n => Match t n
  | NoMatch => NoMatch
  | Fail e => Fail (add_e d e)
  end.
Proof.
  unfold chomp_next_token.
  destruct (chomp_any_keyword s) as [[t n]|]; [reflexivity|].
  destruct (chomp_one_or_two s) as [[t n]|]; [reflexivity|].
  rewrite !chomp_string_eq. destruct s as [|b r]; [reflexivity|].
  destruct (b =? 34)%N.
  { destruct (find_quote r); reflexivity. }
  unfold chomp_number. destruct (number_span (b :: r) 0 [] 0) as [dg n].
  destruct n as [|n].
  2:{ destruct (parse_f64 dg) as [x|]; [destruct (f64_is_finite x); [reflexivity|]|];
        cbn [add_e]; now rewrite Nat.add_assoc. }
  set (s0 := b :: r).
  destruct (chomp_remark s0) as [|t n|e] eqn:E5; [|reflexivity|now apply chomp_remark_fail in E5].
  destruct (chomp_data s0) as [|t n|e] eqn:E6; [|reflexivity|now apply chomp_data_fail in E6].
  destruct (chomp_symbol s0) as [|t n|e] eqn:E7; [|reflexivity|now apply chomp_symbol_fail in E7].
  reflexivity.
Qed.


Lemma tok_from_shift d : forall f p s, tok_from f (d + p) s = add_res d (tok_from f p s).
Proof.
  induction f as [|f IH]; intros p s; cbn [tok_from]; [reflexivity|].
  destruct (skipn (leading_ws s) s) as [|c r] eqn:Es; [reflexivity|]. rewrite <- Es.
  rewrite <- !Nat.add_assoc, chomp_next_token_shift.
  destruct (chomp_next_token (p + leading_ws s) _) as [|t n|e]; try reflexivity.
  rewrite <- (Nat.add_assoc d (p + leading_ws s) n), IH.
  destruct (tok_from f _ _); cbn [prepend add_res map app add_r]; reflexivity.
Qed.

Lemma tok_from_fuel f1 f2 pos s :
  length s < f1 -> length s < f2 -> tok_from f1 pos s = tok_from f2 pos s.
Proof.
  intros H1 H2. pose proof (tokenize_from_fuel_irrelevant f1 f2 pos s [] H1 H2) as H.
  rewrite !tokenize_from_tok_from in H. cbn [rev] in H.
  destruct (tok_from f1 pos s), (tok_from f2 pos s); cbn [prepend app] in H; congruence.
Qed.

(* Every range starts at or after the first non-blank byte and is non-empty. *)
Definition lb_ok (lo : nat) (r : ranged) : Prop := lo <= fst (snd r) /\ fst (snd r) < snd (snd r).

Lemma tok_from_lb : forall f pos s ts,
  tok_from f pos s = TokOk ts -> Forall (lb_ok (pos + leading_ws s)) ts.
Proof.
  induction f as [|f IH]; intros pos s ts; cbn [tok_from].
  - intros H; inversion H; constructor.
  - destruct (skipn (leading_ws s) s) as [|c r] eqn:Es; [intros H; inversion H; constructor|].
    rewrite <- Es.
    pose proof (chomp_next_token_spec (pos + leading_ws s) (skipn (leading_ws s) s)) as Hs.
    destruct (chomp_next_token _ _) as [|t n|e]; try discriminate.
    destruct (tok_from f _ _) as [ts0|] eqn:E0; try discriminate.
    cbn [prepend app]. intros H; inversion H; subst. destruct Hs as [Hn _].
    constructor; [unfold lb_ok; cbn; lia|].
    apply IH in E0. eapply Forall_impl; [|exact E0].
    intros [t' [a b]]. unfold lb_ok; cbn. lia.
Qed.

(* ------------------------------------------------------------------ *)
(* Protected positions, from the tokenizer's own ranges *)

(* An insertion point [i] ("before byte i"). *)
Definition prot1_ins (line : bytes) (i : nat) (r : ranged) : bool :=
  let '(t, (a, b)) := r in
  (a <? i) &&
  match t with
  | TString _ => i <? b
  | TRemark c => b - length c <=? i
  | TData _ => match chomp_keyword data_keyword (skipn a line) with
               | Some k => (a + k <=? i) && (i <=? b)
               | None => false
               end
  | _ => false
  end.

Definition protected_ins (ts : list ranged) (line : bytes) (i : nat) : bool :=
  existsb (prot1_ins line i) ts.

(* A byte [i] (case flips; the blank to be deleted). *)
Definition prot1_byte (line : bytes) (i : nat) (r : ranged) : bool :=
  let '(t, (a, b)) := r in
  (a <? i) &&
  match t with
  | TString _ => S i <? b
  | TRemark c => b - length c <=? i
  | TData _ => match chomp_keyword data_keyword (skipn a line) with
               | Some k => (a + k <=? i) && (i <? b)
               | None => false
               end
  | _ => false
  end.

Definition protected_byte (ts : list ranged) (line : bytes) (i : nat) : bool :=
  existsb (prot1_byte line i) ts.

Definition protected_flip := protected_byte.

Lemma prot1_ins_rel line a n j t : 1 <= j ->
  prot1_ins line (a + j) (t, (a, a + n)) = prot_tok_ins (skipn a line) t n j.
Proof.
  intros Hj. unfold prot1_ins, prot_tok_ins.
  destruct t; try lia.
  destruct (chomp_keyword data_keyword (skipn a line)); lia.
Qed.

Lemma prot1_byte_rel line a n j t : 1 <= j ->
  prot1_byte line (a + j) (t, (a, a + n)) = prot_tok_byte (skipn a line) t n j.
Proof.
  intros Hj. unfold prot1_byte, prot_tok_byte.
  destruct t; try lia.
  destruct (chomp_keyword data_keyword (skipn a line)); lia.
Qed.

Lemma protected_ins_lb ts line i lo :
  Forall (lb_ok lo) ts -> i <= lo -> protected_ins ts line i = false.
Proof.
  unfold protected_ins. induction 1 as [|[t [a b]] ts Hr Hts IH]; intros Hi; [reflexivity|].
  cbn [existsb]. rewrite IH by assumption. unfold lb_ok in Hr. cbn in Hr.
  unfold prot1_ins. destruct (Nat.ltb_spec a i); [lia|reflexivity].
Qed.

(* Ranges after the insertion *)
Definition shift_r (i : nat) (r : ranged) : ranged :=
  let '(t, (a, b)) := r in (t, (if i <=? a then S a else a, sh i b)).

Lemma map_fst_shift_r i ts : map fst (map (shift_r i) ts) = map fst ts.
Proof. rewrite map_map. apply map_ext. intros [t [a b]]. reflexivity. Qed.

Lemma shift_r_lb ts i lo :
  Forall (lb_ok lo) ts -> i <= lo -> map (add_r 1) ts = map (shift_r i) ts.
Proof.
  induction 1 as [|[t [a b]] ts Hr Hts IH]; intros Hi; [reflexivity|].
  cbn [map]. rewrite IH by assumption. f_equal. unfold lb_ok in Hr. cbn in Hr.
  unfold add_r, shift_r. destruct (Nat.leb_spec i a); [|lia]. rewrite sh_lt by lia. reflexivity.
Qed.

(* ------------------------------------------------------------------ *)
(* Leading blanks *)

Section Ins5.
Variable bl : N.
Hypothesis Hbl : is_basic_ws bl = true.

Lemma leading_ws_ins_le : forall s j, j <= leading_ws s ->
  leading_ws (ins_at j bl s) = S (leading_ws s).
Proof.
  induction s as [|x t IH]; intros j Hj.
  - rewrite ins_at_nil. cbn [leading_ws]. now rewrite Hbl.
  - destruct j as [|j]; [rewrite ins_at_0; cbn [leading_ws]; now rewrite Hbl|].
    rewrite ins_at_S. cbn [leading_ws] in *. destruct (is_basic_ws x); [|lia].
    rewrite IH by lia. reflexivity.
Qed.

Lemma leading_ws_ins_gt : forall s j, leading_ws s < j ->
  j <= length s -> leading_ws (ins_at j bl s) = leading_ws s.
Proof.
  induction s as [|x t IH]; intros j Hj Hl; [cbn in *; lia|].
  destruct j as [|j]; [lia|]. rewrite ins_at_S. cbn [leading_ws length] in *.
  destruct (is_basic_ws x); [|reflexivity]. rewrite IH by lia. reflexivity.
Qed.

Lemma tok_from_ins_lead f pos s j : j <= leading_ws s ->
  tok_from (S f) pos (ins_at j bl s) = tok_from (S f) (1 + pos) s.
Proof.
  intros Hj. cbn [tok_from]. rewrite leading_ws_ins_le, skipn_ins_le by lia.
  replace (pos + S (leading_ws s)) with (1 + pos + leading_ws s) by lia. reflexivity.
Qed.

(* ------------------------------------------------------------------ *)
(* L4: the drivers *)

Variable line : bytes.
Variable i : nat.
Hypothesis Hi : i <= length line.

Let line' := ins_at i bl line.

Lemma skipn_line' pos : pos <= i -> skipn pos line' = ins_at (i - pos) bl (skipn pos line).
Proof. intros H. unfold line'. now apply skipn_ins_ge. Qed.

Lemma ins_driver : forall f f' pos ts,
  pos <= i -> length line - pos < f -> S (length line) - pos < f' ->
  tok_from f pos (skipn pos line) = TokOk ts ->
  protected_ins ts line i = false ->
  tok_from f' pos (skipn pos line') = TokOk (map (shift_r i) ts).
Proof.
  induction f as [|f IH]; intros f' pos ts Hpos Hf Hf' H Hp; [lia|].
  destruct f' as [|f']; [lia|].
  rewrite skipn_line' by assumption.
  set (s := skipn pos line) in *. set (j := i - pos).
  assert (Ls : length s = length line - pos) by (unfold s; apply skipn_length).
  destruct (Nat.le_gt_cases j (leading_ws s)) as [Hle|Hgt].
  - (* (a) among the leading blanks *)
    rewrite tok_from_ins_lead by assumption. rewrite tok_from_shift.
    rewrite (tok_from_fuel (S f') (S f)) by lia. rewrite H. cbn [add_res].
    f_equal. apply tok_from_lb in H. eapply shift_r_lb; [exact H|]. lia.
  - cbn [tok_from] in H |- *.
    rewrite leading_ws_ins_gt by lia. rewrite skipn_ins_ge by lia.
    set (w := leading_ws s) in *. set (a := pos + w) in *.
    assert (Es1 : skipn w s = skipn a line) by (unfold s, a; apply skipn_skipn').
    rewrite Es1 in *. set (s1 := skipn a line) in *.
    assert (Ls1 : length s1 = length line - a) by (unfold s1; apply skipn_length).
    pose proof (chomp_next_token_ins bl Hbl a s1 (j - w) ltac:(lia)) as H3.
    pose proof (chomp_next_token_spec a s1) as Hspec.
    destruct s1 as [|c r] eqn:Es1'; [cbn in Ls1; lia|]. rewrite <- Es1' in *.
    assert (Ej : i = a + (j - w)) by lia.
    destruct (ins_at (j - w) bl s1) as [|c' r'] eqn:Ei.
    { apply (f_equal (@length _)) in Ei. rewrite length_ins_at in Ei. discriminate. }
    rewrite <- Ei in *. clear Ei c' r'.
    destruct (chomp_next_token a s1) as [|t n|e]; try discriminate.
    destruct (tok_from f (a + n) (skipn n s1)) as [ts0|] eqn:E0; try discriminate.
    cbn [prepend app] in H. inversion H; subst ts. clear H.
    unfold protected_ins in Hp. cbn [existsb] in Hp. apply orb_false_iff in Hp.
    destruct Hp as [Hp1 Hp0]. fold (protected_ins ts0 line i) in Hp0.
    rewrite Ej, prot1_ins_rel in Hp1 by lia. fold s1 in Hp1. rewrite Hp1 in H3.
    rewrite H3. destruct Hspec as [Hn _].
    unfold s1 in E0. rewrite skipn_skipn' in E0.
    destruct (Nat.lt_ge_cases (j - w) n) as [Hin|Hout].
    + (* (b) inside the span *)
      rewrite sh_lt by lia. rewrite skipn_ins_le by lia.
      unfold s1. rewrite skipn_skipn'.
      replace (a + S n) with (1 + (a + n)) by lia. rewrite tok_from_shift.
      rewrite (tok_from_fuel f' f) by (rewrite skipn_length; lia). rewrite E0.
      cbn [add_res prepend app map]. f_equal. f_equal.
      * unfold shift_r. destruct (Nat.leb_spec i a); [lia|]. rewrite sh_lt by lia.
        reflexivity.
      * apply tok_from_lb in E0. eapply shift_r_lb; [exact E0|]. lia.
    + (* (c) after the span *)
      rewrite sh_ge by lia. replace (j - w) with (i - a) by lia.
      unfold s1. rewrite <- skipn_line' by lia. rewrite skipn_skipn'.
      rewrite (IH f' (a + n) ts0); try assumption; try lia.
      cbn [prepend app map]. f_equal. f_equal.
      unfold shift_r. destruct (Nat.leb_spec i a); [lia|]. rewrite sh_ge by lia. reflexivity.
Qed.

End Ins5.


Section Del.
Variable bl : N.
Hypothesis Hbl : is_basic_ws bl = true.
Variable line : bytes.
Variable i : nat.
Hypothesis Hi : i <= length line.

Let line' := ins_at i bl line.

Lemma add_res_ok d r ts' : add_res d r = TokOk ts' -> exists ts, r = TokOk ts /\ ts' = map (add_r d) ts.
Proof. destruct r as [ts|ts e]; cbn [add_res]; [|discriminate]. intros H; inversion H; eauto. Qed.

Lemma del_driver : forall f f' pos ts',
  pos <= i -> length line - pos < f -> S (length line) - pos < f' ->
  tok_from f' pos (skipn pos line') = TokOk ts' ->
  protected_byte ts' line' i = false ->
  exists ts, tok_from f pos (skipn pos line) = TokOk ts /\ protected_ins ts line i = false.
Proof.
  induction f as [|f IH]; intros f' pos ts' Hpos Hf Hf' H Hp; [lia|].
  destruct f' as [|f']; [lia|].
  unfold line' in H. rewrite skipn_ins_ge in H by assumption.
  set (s := skipn pos line) in *. set (j := i - pos) in *.
  assert (Ls : length s = length line - pos) by (unfold s; apply skipn_length).
  destruct (Nat.le_gt_cases j (leading_ws s)) as [Hle|Hgt].
  - rewrite (tok_from_ins_lead bl Hbl) in H by assumption. rewrite tok_from_shift in H.
    apply add_res_ok in H. destruct H as (ts & H & _).
    rewrite (tok_from_fuel (S f') (S f)) in H by lia. exists ts. split; [exact H|].
    apply tok_from_lb in H. eapply protected_ins_lb; [exact H|]. lia.
  - cbn [tok_from] in H |- *.
    rewrite (leading_ws_ins_gt bl Hbl) in H by lia. rewrite skipn_ins_ge in H by lia.
    set (w := leading_ws s) in *. set (a := pos + w) in *.
    assert (Es1 : skipn w s = skipn a line) by (unfold s, a; apply skipn_skipn').
    rewrite Es1 in *. set (s1 := skipn a line) in *.
    assert (Ls1 : length s1 = length line - a) by (unfold s1; apply skipn_length).
    assert (Ej : i = a + (j - w)) by lia.
    assert (Es1' : ins_at (j - w) bl s1 = skipn a line').
    { unfold line', s1. rewrite skipn_ins_ge by lia. f_equal. lia. }
    pose proof (chomp_next_token_ins bl Hbl a s1 (j - w) ltac:(lia)) as H3.
    pose proof (chomp_next_token_spec a s1) as Hspec.
    destruct s1 as [|c r] eqn:Es1''; [cbn in Ls1; lia|]. rewrite <- Es1'' in *.
    destruct (ins_at (j - w) bl s1) as [|c' r'] eqn:Ei.
    { apply (f_equal (@length _)) in Ei. rewrite length_ins_at in Ei. discriminate. }
    rewrite <- Ei in *. clear Ei c' r'.
    destruct (chomp_next_token a (ins_at (j - w) bl s1)) as [|t' n'|e'] eqn:Ec'; try discriminate.
    destruct (tok_from f' (a + n') _) as [ts0'|] eqn:E0'; try discriminate.
    cbn [prepend app] in H. inversion H; subst ts'. clear H.
    unfold protected_byte in Hp. cbn [existsb] in Hp. apply orb_false_iff in Hp.
    destruct Hp as [Hp1 Hp0]. fold (protected_byte ts0' line' i) in Hp0.
    rewrite Ej, prot1_byte_rel in Hp1 by lia. rewrite <- Es1' in Hp1.
    destruct (chomp_next_token a s1) as [|t n|e]; try congruence.
    2:{ destruct H3 as [e'' H3]. congruence. }
    destruct (prot_tok_ins s1 t n (j - w)) eqn:Eprot.
    { destruct H3 as (t'' & n'' & H3 & H3p). injection H3 as <- <-. congruence. }
    injection H3 as -> ->.
    destruct Hspec as [Hn _].
    destruct (Nat.lt_ge_cases (j - w) n) as [Hin|Hout].
    + rewrite sh_lt in E0' by lia. rewrite skipn_ins_le in E0' by lia.
      replace (a + S n) with (1 + (a + n)) in E0' by lia. rewrite tok_from_shift in E0'.
      apply add_res_ok in E0'. destruct E0' as (ts0 & E0 & _).
      rewrite (tok_from_fuel f' f) in E0 by (rewrite skipn_length, Ls1; lia).
      rewrite E0. cbn [prepend app]. eexists. split; [reflexivity|].
      unfold protected_ins. cbn [existsb]. apply orb_false_iff. split.
      * rewrite Ej, prot1_ins_rel by lia. exact Eprot.
      * apply tok_from_lb in E0. eapply protected_ins_lb; [exact E0|]. lia.
    + rewrite sh_ge in E0' by lia. rewrite Es1' in E0'. rewrite skipn_skipn' in E0'.
      destruct (IH f' (a + n) ts0') as (ts0 & E0 & Hp0'); try assumption; try lia.
      unfold s1. rewrite skipn_skipn', E0. cbn [prepend app]. eexists. split; [reflexivity|].
      unfold protected_ins. cbn [existsb]. apply orb_false_iff. split; [|exact Hp0'].
      rewrite Ej, prot1_ins_rel by lia. exact Eprot.
Qed.

End Del.

(* ------------------------------------------------------------------ *)
(* Item 1: blank insertion and deletion *)

Theorem crunch_insert_ranges : forall line skip ts i w,
  skip <= i <= length line -> is_basic_ws w = true ->
  tokenize line skip = TokOk ts -> protected_ins ts line i = false ->
  tokenize (ins_at i w line) skip = TokOk (map (shift_r i) ts).
Proof.
  intros line skip ts i w Hi Hw H Hp. rewrite tokenize_tok_from in *.
  apply (ins_driver w Hw line i ltac:(lia) (S (length (skipn skip line)))); try assumption; try lia.
  - rewrite skipn_length. lia.
  - rewrite skipn_length, length_ins_at. lia.
Qed.

Theorem crunch_insert : forall line skip ts i w,
  skip <= i <= length line -> is_basic_ws w = true ->
  tokenize line skip = TokOk ts -> protected_ins ts line i = false ->
  tokens_of (tokenize (ins_at i w line) skip) = Some (map fst ts).
Proof.
  intros line skip ts i w Hi Hw H Hp.
  rewrite (crunch_insert_ranges line skip ts i w) by assumption.
  cbn [tokens_of]. now rewrite map_fst_shift_r.
Qed.

(* Deleting the blank at index [i] of [ins_at i w line]. *)
Theorem crunch_delete_ranges : forall line skip ts' i w,
  skip <= i <= length line -> is_basic_ws w = true ->
  tokenize (ins_at i w line) skip = TokOk ts' ->
  protected_byte ts' (ins_at i w line) i = false ->
  exists ts, tokenize line skip = TokOk ts /\ protected_ins ts line i = false
             /\ ts' = map (shift_r i) ts.
Proof.
  intros line skip ts' i w Hi Hw H Hp. pose proof H as H0. rewrite tokenize_tok_from in H.
  assert (exists ts, tok_from (S (length (skipn skip line))) skip (skipn skip line) = TokOk ts
                     /\ protected_ins ts line i = false) as (ts & Hts & Hpi).
  { eapply (del_driver w Hw line i ltac:(lia)); [| | |exact H|exact Hp];
      rewrite ?skipn_length, ?length_ins_at; lia. }
  rewrite <- tokenize_tok_from in Hts. exists ts. split; [exact Hts|]. split; [exact Hpi|].
  pose proof (crunch_insert_ranges line skip ts i w Hi Hw Hts Hpi) as H1. congruence.
Qed.

Theorem crunch_delete : forall line skip ts' i w,
  skip <= i <= length line -> is_basic_ws w = true ->
  tokenize (ins_at i w line) skip = TokOk ts' ->
  protected_byte ts' (ins_at i w line) i = false ->
  tokens_of (tokenize line skip) = Some (map fst ts').
Proof.
  intros line skip ts' i w Hi Hw H Hp.
  destruct (crunch_delete_ranges line skip ts' i w Hi Hw H Hp) as (ts & Hts & _ & ->).
  rewrite Hts. cbn [tokens_of]. now rewrite map_fst_shift_r.
Qed.


(* ------------------------------------------------------------------ *)
(* Case flips *)

Lemma flip_at_nil j : flip_at j [] = [].
Proof. destruct j; reflexivity. Qed.

Lemma length_flip_at : forall s j, length (flip_at j s) = length s.
Proof. induction s as [|x t IH]; intros [|j]; cbn [flip_at length]; auto. Qed.

Lemma flip_at_ge : forall s j, length s <= j -> flip_at j s = s.
Proof.
  induction s as [|x t IH]; intros j Hj; [apply flip_at_nil|].
  destruct j as [|j]; cbn [length] in Hj; [lia|]. cbn [flip_at]. rewrite IH by lia. reflexivity.
Qed.

Lemma firstn_flip_ge : forall n j s, n <= j -> firstn n (flip_at j s) = firstn n s.
Proof.
  induction n as [|n IH]; intros j s Hj; [reflexivity|].
  destruct j as [|j]; [lia|]. destruct s as [|x t]; [reflexivity|].
  cbn [flip_at firstn]. rewrite IH by lia. reflexivity.
Qed.

Lemma skipn_flip_lt : forall n j s, j < n -> skipn n (flip_at j s) = skipn n s.
Proof.
  induction n as [|n IH]; intros j s Hj; [lia|].
  destruct s as [|x t]; [now rewrite flip_at_nil|].
  destruct j as [|j]; cbn [flip_at skipn]; [reflexivity|]. apply IH. lia.
Qed.

Lemma skipn_flip_ge : forall n j s, n <= j -> skipn n (flip_at j s) = flip_at (j - n) (skipn n s).
Proof.
  induction n as [|n IH]; intros j s Hj; [now rewrite Nat.sub_0_r|].
  destruct j as [|j]; [lia|]. destruct s as [|x t]; [cbn [skipn]; now rewrite !flip_at_nil|].
  cbn [flip_at skipn Nat.sub]. apply IH. lia.
Qed.

(* The pointwise relation "same byte, or the other-case letter". *)
Definition R (b b' : N) : Prop := b' = b \/ b' = flipc b.

Lemma Forall2_R_refl s : Forall2 R s s.
Proof. induction s; constructor; [now left|assumption]. Qed.

Lemma flip_at_R : forall s j, Forall2 R s (flip_at j s).
Proof.
  induction s as [|x t IH]; intros [|j]; cbn [flip_at]; constructor;
    try (now left); try (now right); auto using Forall2_R_refl.
Qed.

Lemma Forall2_skipn {A B} (P : A -> B -> Prop) : forall n l l',
  Forall2 P l l' -> Forall2 P (skipn n l) (skipn n l').
Proof.
  induction n as [|n IH]; intros l l' H; [exact H|].
  destruct H; cbn [skipn]; [constructor|auto].
Qed.

Ltac flip_classes :=
  unfold flipc, to_upper, is_basic_ws, is_ascii_ws, is_alnum, is_alpha, is_digit, is_upper, is_lower in *.

Lemma flipc_cases b : flipc b = b \/ (flipc b = (b + 32)%N /\ (65 <= b <= 90)%N)
                      \/ (flipc b = (b - 32)%N /\ (97 <= b <= 122)%N).
Proof.
  unfold flipc, is_upper, is_lower.
  destruct ((65 <=? b)%N && (b <=? 90)%N) eqn:E1; [right; left; lia|].
  destruct ((97 <=? b)%N && (b <=? 122)%N) eqn:E2; [right; right; lia|]. now left.
Qed.

Lemma R_cases b b' : R b b' ->
  b' = b \/ (b' = (b + 32)%N /\ (65 <= b <= 90)%N) \/ (b' = (b - 32)%N /\ (97 <= b <= 122)%N).
Proof. intros [->| ->]; [now left|]. apply flipc_cases. Qed.

Lemma R_ws b b' : R b b' -> is_basic_ws b' = is_basic_ws b.
Proof. intros H. apply R_cases in H. unfold is_basic_ws, is_ascii_ws. lia. Qed.

Lemma R_up b b' : R b b' -> to_upper b' = to_upper b.
Proof.
  intros H. apply R_cases in H. unfold to_upper, is_lower.
  destruct ((97 <=? b')%N && (b' <=? 122)%N) eqn:E1, ((97 <=? b)%N && (b <=? 122)%N) eqn:E2; lia.
Qed.

Lemma R_digdot b b' : R b b' ->
  (is_digit b' || (b' =? 46)%N) = (is_digit b || (b =? 46)%N)
  /\ ((is_digit b || (b =? 46)%N) = true -> b' = b).
Proof. intros H. apply R_cases in H. unfold is_digit. lia. Qed.

Lemma R_alpha b b' : R b b' -> is_alpha b' = is_alpha b.
Proof. intros H. apply R_cases in H. unfold is_alpha, is_upper, is_lower. lia. Qed.

Lemma R_alnum b b' : R b b' -> is_alnum b' = is_alnum b.
Proof. intros H. apply R_cases in H. unfold is_alnum, is_alpha, is_upper, is_lower, is_digit. lia. Qed.

Lemma R_eqb c b b' : R b b' -> is_alpha c = false -> (c =? b')%N = (c =? b)%N.
Proof. intros H. apply R_cases in H. unfold is_alpha, is_upper, is_lower. lia. Qed.

Lemma R_eqb' c b b' : R b b' -> is_alpha c = false -> (b' =? c)%N = (b =? c)%N.
Proof. intros H Hc. rewrite !(N.eqb_sym _ c). now apply R_eqb. Qed.

(* L1 *)

Lemma ckf_R s s' : Forall2 R s s' -> forall kw acc,
  chomp_keyword_from kw s' acc = chomp_keyword_from kw s acc.
Proof.
  induction 1 as [|b b' s s' Hb Hs IH]; intros [|k kw] acc; try reflexivity.
  cbn [chomp_keyword_from]. rewrite (R_ws _ _ Hb), (R_up _ _ Hb).
  destruct (is_basic_ws b); [apply IH|]. destruct (to_upper b =? k)%N; [apply IH|reflexivity].
Qed.

Lemma chomp_keyword_R s s' kw : Forall2 R s s' -> chomp_keyword kw s' = chomp_keyword kw s.
Proof. intros H. destruct kw; [reflexivity|]. unfold chomp_keyword. now apply ckf_R. Qed.

Lemma first_keyword_R tbl s s' : Forall2 R s s' -> first_keyword tbl s' = first_keyword tbl s.
Proof.
  intros H. induction tbl as [|[kw t] tbl IH]; cbn [first_keyword]; [reflexivity|].
  rewrite (chomp_keyword_R _ _ kw H), IH. reflexivity.
Qed.

Lemma chomp_any_keyword_R s s' : Forall2 R s s' -> chomp_any_keyword s' = chomp_any_keyword s.
Proof. apply first_keyword_R. Qed.

Lemma crunch_next_R s s' : Forall2 R s s' ->
  match crunch_next s with
  | Some (c, n) => exists c', crunch_next s' = Some (c', n) /\ R c c'
  | None => crunch_next s' = None
  end.
Proof.
  induction 1 as [|b b' s s' Hb Hs IH]; cbn [crunch_next]; [reflexivity|].
  rewrite (R_ws _ _ Hb). destruct (is_basic_ws b); [|eauto].
  destruct (crunch_next s) as [[c n]|].
  - destruct IH as (c' & -> & Hc). eauto.
  - now rewrite IH.
Qed.

(* The punctuation tables contain no letters (decided by computation). *)
Definition punct_na (tbl : list (N * token)) : bool :=
  forallb (fun e => negb (is_alpha (fst e))) tbl.
Definition two_char_na (tbl : list (token * N * token)) : bool :=
  forallb (fun e => negb (is_alpha (snd (fst e)))) tbl.

Lemma tables_na : punct_na punct = true /\ two_char_na two_char = true.
Proof. vm_compute. split; reflexivity. Qed.

Lemma lookup_punct_R tbl b b' :
  punct_na tbl = true -> R b b' -> lookup_punct tbl b' = lookup_punct tbl b.
Proof.
  intros Hok Hb. induction tbl as [|[c t] tbl IH]; cbn [lookup_punct]; [reflexivity|].
  cbn [punct_na forallb fst] in Hok. apply andb_true_iff in Hok. destruct Hok as [Hc Hok].
  apply negb_true_iff in Hc. rewrite (R_eqb c _ _ Hb Hc), (IH Hok). reflexivity.
Qed.

Lemma lookup_two_R tbl f b b' :
  two_char_na tbl = true -> R b b' -> lookup_two tbl f b' = lookup_two tbl f b.
Proof.
  intros Hok Hb. induction tbl as [|[[f0 c] t] tbl IH]; cbn [lookup_two]; [reflexivity|].
  cbn [two_char_na forallb fst snd] in Hok. apply andb_true_iff in Hok. destruct Hok as [Hc Hok].
  apply negb_true_iff in Hc. rewrite (R_eqb c _ _ Hb Hc), (IH Hok). reflexivity.
Qed.

(* L2 *)

Lemma chomp_one_or_two_R s s' : Forall2 R s s' -> chomp_one_or_two s' = chomp_one_or_two s.
Proof.
  intros H. unfold chomp_one_or_two. pose proof (crunch_next_R _ _ H) as H1.
  destruct (crunch_next s) as [[b n]|]; [|now rewrite H1].
  destruct H1 as (b' & -> & Hb). rewrite (lookup_punct_R _ _ _ (proj1 tables_na) Hb).
  destruct (lookup_punct punct b) as [t|]; [|reflexivity].
  pose proof (crunch_next_R _ _ (Forall2_skipn R n _ _ H)) as H2.
  destruct (crunch_next (skipn n s)) as [[c m]|]; [|now rewrite H2].
  destruct H2 as (c' & -> & Hc). rewrite (lookup_two_R _ _ _ _ (proj2 tables_na) Hc). reflexivity.
Qed.

Lemma number_span_R s s' : Forall2 R s s' -> forall k d l,
  number_span s' k d l = number_span s k d l.
Proof.
  induction 1 as [|b b' s s' Hb Hs IH]; intros k d l; cbn [number_span]; [reflexivity|].
  rewrite (R_ws _ _ Hb). destruct (is_basic_ws b); [apply IH|].
  destruct (R_digdot _ _ Hb) as [E1 E2]. rewrite E1.
  destruct (is_digit b || (b =? 46)%N); [|reflexivity]. rewrite (E2 eq_refl). apply IH.
Qed.

Lemma chomp_number_R p s s' : Forall2 R s s' -> chomp_number p s' = chomp_number p s.
Proof. intros H. unfold chomp_number. now rewrite (number_span_R _ _ H). Qed.

Lemma dollar_na : is_alpha 36 = false. Proof. reflexivity. Qed.
Lemma quote_na : is_alpha 34 = false. Proof. reflexivity. Qed.

Lemma symbol_span_R s s' : Forall2 R s s' -> forall chars c p,
  symbol_span s' chars c p = symbol_span s chars c p.
Proof.
  induction 1 as [|b b' s s' Hb Hs IH]; intros chars c p; cbn [symbol_span]; [reflexivity|].
  rewrite (R_ws _ _ Hb), (R_alpha _ _ Hb), (R_alnum _ _ Hb), (R_up _ _ Hb),
    (R_eqb' 36 _ _ Hb dollar_na), (chomp_any_keyword_R _ _ Hs).
  destruct (is_basic_ws b); [apply IH|].
  destruct (negb _); [reflexivity|].
  destruct (b =? 36)%N; [reflexivity|].
  destruct (chomp_any_keyword s); [reflexivity|apply IH].
Qed.

Lemma chomp_symbol_R s s' : Forall2 R s s' -> chomp_symbol s' = chomp_symbol s.
Proof. intros H. unfold chomp_symbol. now rewrite (symbol_span_R _ _ H). Qed.

Lemma find_quote_R s s' : Forall2 R s s' -> find_quote s' = find_quote s.
Proof.
  induction 1 as [|b b' s s' Hb Hs IH]; cbn [find_quote]; [reflexivity|].
  rewrite (R_eqb' 34 _ _ Hb quote_na), IH. reflexivity.
Qed.

Lemma flipc_quote : flipc 34 = 34%N. Proof. reflexivity. Qed.

Lemma chomp_string_flip p s j :
  match chomp_string p s with
  | Match t n => j = 0 \/ n <= S j -> chomp_string p (flip_at j s) = Match t n
  | NoMatch => chomp_string p (flip_at j s) = NoMatch
  | Fail _ => True
  end.
Proof.
  rewrite !chomp_string_eq. destruct s as [|b r]; [now rewrite flip_at_nil|].
  destruct j as [|j]; cbn [flip_at].
  - destruct (N.eqb_spec b 34) as [->|Hb].
    + rewrite flipc_quote. cbn. destruct (find_quote r); auto.
    + assert (E : (flipc b =? 34)%N = false).
      { rewrite (R_eqb' 34 b (flipc b)); [lia|now right|reflexivity]. }
      now rewrite E.
  - destruct (b =? 34)%N; [|reflexivity].
    rewrite (find_quote_R _ _ (flip_at_R r j)).
    destruct (find_quote r) as [q|]; [|exact I].
    intros [H|H]; [lia|]. rewrite firstn_flip_ge by lia. reflexivity.
Qed.

Lemma chomp_keyword_pos kw s k : chomp_keyword kw s = Some k -> 1 <= k.
Proof.
  destruct kw as [|x kw]; [discriminate|]. unfold chomp_keyword. intros H.
  apply ckf_bound in H. destruct H as [_ H]. assert (0 < k) by (apply H; congruence). lia.
Qed.

Lemma chomp_remark_flip s j :
  match chomp_remark s with
  | Match t n => exists c k, t = TRemark c /\ n = k + length c /\ 1 <= k /\
                   (j < k -> chomp_remark (flip_at j s) = Match t n)
  | NoMatch => chomp_remark (flip_at j s) = NoMatch
  | Fail _ => False
  end.
Proof.
  unfold chomp_remark. rewrite (chomp_keyword_R _ _ _ (flip_at_R s j)).
  destruct (chomp_keyword rem_keyword s) as [k|] eqn:Ek; [|reflexivity].
  exists (skipn k s), k. split; [reflexivity|]. split; [reflexivity|].
  split; [eapply chomp_keyword_pos; eauto|].
  intros Hj. rewrite skipn_flip_lt by lia. reflexivity.
Qed.

(* The DATA parser does not see a flip at or beyond the point where it stopped. *)
Lemma dp_stops_head b0 r q :
  dp_stops (firstn (utf8_len b0) (b0 :: r)) q = true -> b0 = 58%N.
Proof.
  unfold dp_stops. intros H. apply andb_true_iff in H. destruct H as [_ H].
  pose proof (utf8_len_pos b0) as Hl. destruct (utf8_len b0) as [|l] eqn:El; [lia|].
  cbn [firstn] in H. destruct (firstn l r) eqn:Ef; [|discriminate].
  cbn [char_is] in H. now apply N.eqb_eq in H.
Qed.

Lemma dp_flip_after : forall f s q cur el n0 j r m,
  length s <= f ->
  dp_run (utf8_chars_fuel f s) q cur el n0 = (r, m) -> m <= n0 + j ->
  dp_run (utf8_chars_fuel f (flip_at j s)) q cur el n0 = (r, m).
Proof.
  induction f as [|f IH]; intros s q cur el n0 j r m Hf H Hm.
  { destruct s; [now rewrite flip_at_nil|cbn in Hf; lia]. }
  destruct s as [|b0 r0]; [now rewrite flip_at_nil|]. cbn [length] in Hf.
  pose proof (utf8_len_pos b0) as Hl.
  destruct (Nat.le_gt_cases (length (b0 :: r0)) j) as [Hge|Hlt].
  { now rewrite flip_at_ge. }
  pose proof H as H0.
  rewrite utf8_chars_fuel_cons, dp_run_cons in H.
  destruct (dp_stops (firstn (utf8_len b0) (b0 :: r0)) q) eqn:Es.
  - apply dp_stops_head in Es as Eb. subst b0.
    destruct j as [|j]; cbn [flip_at]; [exact H0|].
    rewrite utf8_chars_fuel_cons, dp_run_cons.
    change (utf8_len 58) with 1 in *. cbn [firstn] in *. rewrite Es. exact H.
  - destruct (dp_next _ q cur el) as [[q' cur'] el'] eqn:En.
    pose proof (dp_run_mono _ _ _ _ _ _ _ H) as Hmono.
    rewrite firstn_length in Hmono. cbn [length] in *.
    set (len := utf8_len b0) in *.
    destruct j as [|j]; [lia|].
    assert (Hlen : len <= S j) by lia.
    assert (E : flip_at (S j) (b0 :: r0) = b0 :: flip_at j r0) by reflexivity.
    assert (E2 : utf8_chars_fuel (S f) (flip_at (S j) (b0 :: r0)) =
                 firstn len (flip_at (S j) (b0 :: r0))
                 :: utf8_chars_fuel f (skipn len (flip_at (S j) (b0 :: r0)))) by (rewrite E; reflexivity).
    rewrite E2, dp_run_cons. rewrite firstn_flip_ge, skipn_flip_ge by lia. rewrite Es, En.
    apply IH; [rewrite skipn_length; cbn [length]; lia|exact H|].
    rewrite firstn_length. cbn [length]. lia.
Qed.

Lemma parse_data_flip_after text j r m :
  parse_data text = (r, m) -> m <= j -> parse_data (flip_at j text) = (r, m).
Proof.
  unfold parse_data, utf8_chars. intros H Hm. rewrite length_flip_at.
  eapply dp_flip_after; eauto.
Qed.

Lemma chomp_data_flip s j :
  match chomp_data s with
  | Match t n => exists k, chomp_keyword data_keyword s = Some k /\ is_data t = true /\ 1 <= k /\
                   (j < k \/ n <= j -> chomp_data (flip_at j s) = Match t n)
  | NoMatch => chomp_data (flip_at j s) = NoMatch
  | Fail _ => False
  end.
Proof.
  unfold chomp_data. rewrite (chomp_keyword_R _ _ _ (flip_at_R s j)).
  destruct (chomp_keyword data_keyword s) as [k|] eqn:Ek; [|reflexivity].
  destruct (parse_data (skipn k s)) as [el m] eqn:Ep.
  exists k. split; [reflexivity|]. split; [reflexivity|].
  split; [eapply chomp_keyword_pos; eauto|].
  intros [Hj|Hj].
  - rewrite skipn_flip_lt by lia. now rewrite Ep.
  - rewrite skipn_flip_ge by lia. rewrite (parse_data_flip_after _ _ _ _ Ep) by lia. reflexivity.
Qed.

(* L3 *)
Lemma chomp_next_token_flip p s j :
  match chomp_next_token p s with
  | Match t n => (0 <? j) && prot_tok_byte s t n j = false ->
                 chomp_next_token p (flip_at j s) = Match t n
  | _ => True
  end.
Proof.
  unfold chomp_next_token. pose proof (flip_at_R s j) as HR.
  rewrite (chomp_any_keyword_R _ _ HR).
  destruct (chomp_any_keyword s) as [[t n]|]; [reflexivity|].
  rewrite (chomp_one_or_two_R _ _ HR).
  destruct (chomp_one_or_two s) as [[t n]|]; [reflexivity|].
  pose proof (chomp_string_flip p s j) as H3.
  destruct (chomp_string p s) as [|t n|e] eqn:E3; [|clear HR|exact I].
  2:{ apply chomp_string_is_str in E3. destruct t; try discriminate. cbn [prot_tok_byte].
      intros Hp. rewrite H3; [reflexivity|lia]. }
  rewrite H3, (chomp_number_R p _ _ HR).
  destruct (chomp_number p s) as [|t n|e]; [|reflexivity|exact I].
  pose proof (chomp_remark_flip s j) as H5.
  destruct (chomp_remark s) as [|t n|e]; [| |destruct H5].
  2:{ destruct H5 as (c & k & -> & -> & Hk & H5). cbn [prot_tok_byte]. intros Hp.
      rewrite H5; [reflexivity|lia]. }
  rewrite H5.
  pose proof (chomp_data_flip s j) as H6.
  destruct (chomp_data s) as [|t n|e]; [| |destruct H6].
  2:{ destruct H6 as (k & Ek & Hd & Hk & H6). destruct t; try discriminate.
      cbn [prot_tok_byte]. rewrite Ek. intros Hp. rewrite H6; [reflexivity|lia]. }
  rewrite H6, (chomp_symbol_R _ _ HR).
  destruct (chomp_symbol s) as [|t n|e]; [exact I|reflexivity|exact I].
Qed.


Lemma leading_ws_R s s' : Forall2 R s s' -> leading_ws s' = leading_ws s.
Proof.
  induction 1 as [|b b' s s' Hb Hs IH]; cbn [leading_ws]; [reflexivity|].
  rewrite (R_ws _ _ Hb), IH. reflexivity.
Qed.

Lemma prot1_byte_rel0 line a n j t :
  prot1_byte line (a + j) (t, (a, a + n)) = (0 <? j) && prot_tok_byte (skipn a line) t n j.
Proof.
  unfold prot1_byte, prot_tok_byte.
  destruct t; try lia.
  destruct (chomp_keyword data_keyword (skipn a line)); lia.
Qed.

Section Flip.
Variable line : bytes.
Variable i : nat.

Let line' := flip_at i line.

Lemma flip_driver : forall f pos ts,
  tok_from f pos (skipn pos line) = TokOk ts ->
  protected_byte ts line i = false ->
  tok_from f pos (skipn pos line') = TokOk ts.
Proof.
  induction f as [|f IH]; intros pos ts H Hp; [exact H|].
  destruct (Nat.lt_ge_cases i pos) as [Hlt|Hge].
  { unfold line'. now rewrite skipn_flip_lt. }
  unfold line'. rewrite skipn_flip_ge by assumption.
  set (s := skipn pos line) in *. set (j := i - pos).
  cbn [tok_from] in H |- *. rewrite (leading_ws_R _ _ (flip_at_R s j)).
  set (w := leading_ws s) in *.
  destruct (Nat.lt_ge_cases j w) as [Hjw|Hjw].
  { rewrite skipn_flip_lt by assumption. exact H. }
  rewrite skipn_flip_ge by assumption.
  set (a := pos + w) in *.
  assert (Es1 : skipn w s = skipn a line) by (unfold s, a; apply skipn_skipn').
  rewrite Es1 in *. set (s1 := skipn a line) in *.
  assert (Ej : i = a + (j - w)) by lia.
  assert (Es1' : flip_at (j - w) s1 = skipn a line').
  { unfold line', s1. rewrite skipn_flip_ge by lia. f_equal. lia. }
  pose proof (chomp_next_token_flip a s1 (j - w)) as H3.
  destruct s1 as [|c r] eqn:Es1''; [rewrite flip_at_nil; exact H|]. rewrite <- Es1'' in *.
  destruct (flip_at (j - w) s1) as [|c' r'] eqn:Ei.
  { apply (f_equal (@length _)) in Ei. rewrite length_flip_at, Es1'' in Ei. discriminate. }
  rewrite <- Ei in *. clear Ei c' r'.
  destruct (chomp_next_token a s1) as [|t n|e]; try discriminate.
  destruct (tok_from f (a + n) (skipn n s1)) as [ts0|] eqn:E0; try discriminate.
  cbn [prepend app] in H. inversion H; subst ts. clear H.
  unfold protected_byte in Hp. cbn [existsb] in Hp. apply orb_false_iff in Hp.
  destruct Hp as [Hp1 Hp0]. fold (protected_byte ts0 line i) in Hp0.
  rewrite Ej, prot1_byte_rel0 in Hp1. rewrite (H3 Hp1).
  rewrite Es1', skipn_skipn'. unfold s1 in E0. rewrite skipn_skipn' in E0.
  rewrite (IH _ _ E0 Hp0). reflexivity.
Qed.

End Flip.

(* ------------------------------------------------------------------ *)
(* Item 2: case flips *)

Theorem crunch_flip_ranges : forall line skip ts i,
  tokenize line skip = TokOk ts -> protected_flip ts line i = false ->
  tokenize (flip_at i line) skip = TokOk ts.
Proof.
  intros line skip ts i H Hp. rewrite tokenize_tok_from in *.
  rewrite skipn_length, length_flip_at, <- skipn_length. now apply flip_driver.
Qed.

Theorem crunch_flip : forall line skip ts i,
  tokenize line skip = TokOk ts -> protected_flip ts line i = false ->
  tokens_of (tokenize (flip_at i line) skip) = Some (map fst ts).
Proof.
  intros line skip ts i H Hp. now rewrite (crunch_flip_ranges line skip ts i H Hp).
Qed.

(* ------------------------------------------------------------------ *)
(* Item 3: any finite sequence of elementary edits.  Each step is judged on
   the text it is applied to, with that text's own token ranges. *)

Inductive edit (skip : nat) : bytes -> bytes -> Prop :=
| edit_ins line ts i w :
    skip <= i <= length line -> is_basic_ws w = true ->
    tokenize line skip = TokOk ts -> protected_ins ts line i = false ->
    edit skip line (ins_at i w line)
| edit_del line ts' i w :
    skip <= i <= length line -> is_basic_ws w = true ->
    tokenize (ins_at i w line) skip = TokOk ts' ->
    protected_byte ts' (ins_at i w line) i = false ->
    edit skip (ins_at i w line) line
| edit_flip line ts i :
    tokenize line skip = TokOk ts -> protected_flip ts line i = false ->
    edit skip line (flip_at i line).

Lemma tokens_of_ok r toks : tokens_of r = Some toks -> exists ts, r = TokOk ts /\ toks = map fst ts.
Proof. destruct r as [ts|ts e]; cbn [tokens_of]; [|discriminate]. intros H; inversion H; eauto. Qed.

Theorem edit_preserves skip l l' :
  edit skip l l' -> tokens_of (tokenize l' skip) = tokens_of (tokenize l skip)
                    /\ exists toks, tokens_of (tokenize l skip) = Some toks.
Proof.
  intros [line ts i w Hi Hw H Hp|line ts' i w Hi Hw H Hp|line ts i H Hp].
  - rewrite (crunch_insert line skip ts i w Hi Hw H Hp), H. cbn [tokens_of]. eauto.
  - rewrite (crunch_delete line skip ts' i w Hi Hw H Hp), H. cbn [tokens_of]. eauto.
  - rewrite (crunch_flip line skip ts i H Hp), H. cbn [tokens_of]. eauto.
Qed.

Theorem edits_preserve skip l l' :
  clos_refl_trans _ (edit skip) l l' ->
  tokens_of (tokenize l' skip) = tokens_of (tokenize l skip).
Proof.
  induction 1 as [l l' H| |l1 l2 l3 _ IH1 _ IH2]; [|reflexivity|congruence].
  now apply edit_preserves.
Qed.

Corollary crunch_edits : forall skip line line' ts,
  clos_refl_trans _ (edit skip) line line' -> tokenize line skip = TokOk ts ->
  tokens_of (tokenize line' skip) = Some (map fst ts).
Proof. intros skip line line' ts H Ht. rewrite (edits_preserve _ _ _ H), Ht. reflexivity. Qed.

(* ------------------------------------------------------------------ *)
(* Item 4: non-vacuity *)

Definition unprot_everywhere (line : bytes) : bool :=
  match tokenize line 0 with
  | TokOk ts => forallb (fun i => negb (protected_ins ts line i)) (seq 0 (S (length line)))
  | TokErr _ _ => false
  end.

Definition prot_positions (line : bytes) : list nat :=
  match tokenize line 0 with
  | TokOk ts => filter (protected_ins ts line) (seq 0 (S (length line)))
  | TokErr _ _ => []
  end.

Example ex_same_tokens :
  exists x,
    tokens_of (tokenize (bs "P R I N T 1 2 3") 0) = Some [TPrint; TNumber x]
    /\ tokens_of (tokenize (bs "print123") 0) = Some [TPrint; TNumber x]
    /\ tokens_of (tokenize (bs "PRINT 123") 0) = Some [TPrint; TNumber x].
Proof. eexists. vm_compute. repeat split; reflexivity. Qed.

Example ex_unprotected : unprot_everywhere (bs "PRINT 123") = true.
Proof. vm_compute. reflexivity. Qed.

Example ex_string_protected : prot_positions (bs "PRINT ""a b""") = [7; 8; 9; 10].
Proof. vm_compute. reflexivity. Qed.

Example ex_rem_protected : prot_positions (bs "R E M x") = [5; 6; 7].
Proof. vm_compute. reflexivity. Qed.

Example ex_data_protected : prot_positions (bs "DATA 1, 2:PRINT") = [4; 5; 6; 7; 8; 9].
Proof. vm_compute. reflexivity. Qed.
